(* Proofs about HCModel (concurrent view of the hash tables). *)
From Coq Require Import ZArith List Bool Lia.
Require Import Verif.Base.Atomics Verif.Gen.Gen_hash_table Verif.Gen.Gen_hash_table_conc Verif.Conc.Machine
               Verif.HS.HSModel Verif.HS.HSProofs Verif.HC.HCModel.
Import ListNotations.
Local Open Scope Z_scope.

(* memory-order obligations on the regenerated site tables *)
Definition orders_ok : bool :=
  match sites_do_emplace, sites_table_find, sites_set_emplace, sites_set_find with
  | [(KFence, o_ef, _); (KCasS, o_cas, _); (KStore, o_s1, _); (KStore, o_s2, _)], [(KFence, o_ff, _)],
    [(KLoad, o_nl, _); (KCasS, o_nc, o_ncf)], [(KLoad, o_f1, _); (KLoad, o_f2, _)] =>
    has_acquire o_ef && has_acquire o_cas && has_release o_s1 && has_release o_s2 && has_acquire o_ff &&
    has_acquire o_nl && has_release o_nc && has_acquire o_ncf && has_acquire o_f1 && has_acquire o_f2
  | _, _, _, _ => false
  end.

Lemma hc_orders_ok : orders_ok = true.
Proof. vm_compute. reflexivity. Qed.

(* ================= constants and regenerated formulas ================= *)
Lemma busy_val : cBUSY = -127. Proof. reflexivity. Qed.
Lemma cas_expected_val : cas_expected = EMPTY_CONTROL. Proof. reflexivity. Qed.
Lemma cas_desired_val : cas_desired = cBUSY. Proof. reflexivity. Qed.
Lemma store_primary_id c : store_primary c = c. Proof. reflexivity. Qed.
Lemma store_mirror_id c : store_mirror c = c. Proof. reflexivity. Qed.
Lemma saw_dummy_iff c : cas_saw_dummy c = true <-> c = DUMMY_CONTROL.
Proof. unfold cas_saw_dummy. rewrite Z.eqb_eq. reflexivity. Qed.
Lemma null_1 : next_is_null 1 = false. Proof. reflexivity. Qed.
Lemma null_0 : next_is_null 0 = true. Proof. reflexivity. Qed.
Lemma step_inc_pos : 0 < emp_step_inc. Proof. reflexivity. Qed.

(* find and do_emplace probe the same positions with the same tag *)
Lemma sel_index_eq isf b o m : sel_index isf b o m = Z.land (b + o) m.
Proof. destruct isf; reflexivity. Qed.
Lemma sel_step_inc_eq isf : sel_step_inc isf = emp_step_inc.
Proof. destruct isf; reflexivity. Qed.
Lemma sel_next_base_eq isf b s m : sel_next_base isf b s m = emp_next_base b s m.
Proof. destruct isf; reflexivity. Qed.
Lemma sel_loop_cond_eq isf s m : sel_loop_cond isf s m = emp_loop_cond s m.
Proof. destruct isf; reflexivity. Qed.
Lemma sel_checker_eq isf h : sel_checker isf h = emp_checker h.
Proof. destruct isf; reflexivity. Qed.
Lemma sel_base0_eq isf h m : sel_base0 isf h m = emp_base0 h m.
Proof. destruct isf; reflexivity. Qed.
Lemma insert_index_eq b o m : emp_insert_index b o m = Z.land (b + o) m.
Proof. reflexivity. Qed.

Lemma checker_rng h : 0 <= emp_checker h < 128.
Proof. unfold emp_checker. change CHECKER_MASK with (2 ^ 7 - 1). rewrite land_mask by lia. apply Z.mod_pos_bound. lia. Qed.

(* ================= lists ================= *)
Lemma nth_error_set_nth_eq {A} (l : list A) n x : (n < length l)%nat -> nth_error (set_nth n x l) n = Some x.
Proof. revert n; induction l as [|y l IH]; intros [|n] H; simpl in *; try lia; auto. apply IH. lia. Qed.
Lemma nth_error_set_nth_ne {A} (l : list A) n m x : n <> m -> nth_error (set_nth n x l) m = nth_error l m.
Proof. revert n m; induction l as [|y l IH]; intros [|n] [|m] H; simpl; auto; try lia. Qed.
Lemma length_set_nth {A} (l : list A) n x : length (set_nth n x l) = length l.
Proof. revert n; induction l as [|y l IH]; intros [|n]; simpl; auto. Qed.
Lemma nth_error_set_nth {A} (l : list A) n m x y : nth_error l n = Some y ->
  nth_error (set_nth n x l) m = if Nat.eqb n m then Some x else nth_error l m.
Proof.
  intros H. destruct (Nat.eqb n m) eqn:E.
  - apply Nat.eqb_eq in E. subst. apply nth_error_set_nth_eq. apply nth_error_Some. congruence.
  - apply Nat.eqb_neq in E. apply nth_error_set_nth_ne; auto.
Qed.

Lemma upd_eq {A} (f : Z -> A) i x : upd f i x i = x.
Proof. unfold upd. now rewrite Z.eqb_refl. Qed.
Lemma upd_ne {A} (f : Z -> A) i j x : j <> i -> upd f i x j = f j.
Proof. unfold upd. intros. destruct (j =? i) eqn:E; auto. apply Z.eqb_eq in E. lia. Qed.

Lemma gget_gload t b o : In o offsets -> gget (gload t b) o = cctrl t (b + o).
Proof.
  intros H. rewrite offsets_eq in H. unfold gget, gload. rewrite offsets_eq.
  simpl in H. repeat (destruct H as [<-|H]; [reflexivity|]). destruct H.
Qed.

Lemma cands_in g c o : In o (cands g c) <-> In o offsets /\ gget g o = c.
Proof. unfold cands. rewrite filter_In, Z.eqb_eq. reflexivity. Qed.

Lemma first_empty_g_some g o : first_empty_g g = Some o ->
  In o offsets /\ gget g o < 0 /\ forall o', In o' offsets -> o' < o -> 0 <= gget g o'.
Proof.
  unfold first_empty_g. rewrite offsets_eq. simpl. intros H.
  repeat match type of H with
         | (if ?c then _ else _) = _ => let E := fresh "E" in destruct c eqn:E; [inversion H; clear H|]
         end; try discriminate; subst;
  (split; [tauto|]; split; [lia|]; intros o' Ho' Hlt; repeat (destruct Ho' as [<-|Ho']; [lia|]); destruct Ho').
Qed.

Lemma first_empty_g_none g : first_empty_g g = None -> forall o, In o offsets -> 0 <= gget g o.
Proof.
  unfold first_empty_g. intros H o Ho. pose proof (find_none _ _ H o Ho) as E. simpl in E. lia.
Qed.

Section Proofs.
Variable hash : Z -> Z.

Definition chk (k : Z) : Z := emp_checker (hash k).

(* the probe sequence of a key in a table: (group base, step) of the j-th round of the while loop *)
Fixpoint pseq (m b0 : Z) (j : nat) : Z * Z :=
  match j with
  | O => (b0, 0)
  | S j' => let s' := snd (pseq m b0 j') + emp_step_inc in (emp_next_base (fst (pseq m b0 j')) s' m, s')
  end.
Definition pb (t : ctab) (k : Z) (j : nat) : Z := fst (pseq (cmask t) (emp_base0 (hash k) (cmask t)) j).
Definition ps (t : ctab) (k : Z) (j : nat) : Z := snd (pseq (cmask t) (emp_base0 (hash k) (cmask t)) j).

Lemma ps_S t k j : ps t k (S j) = ps t k j + emp_step_inc. Proof. reflexivity. Qed.
Lemma pb_S t k j : pb t k (S j) = emp_next_base (pb t k j) (ps t k j + emp_step_inc) (cmask t). Proof. reflexivity. Qed.
Lemma ps_mono t k j j' : (j <= j')%nat -> ps t k j <= ps t k j'.
Proof. induction 1; [lia|]. rewrite ps_S. pose proof step_inc_pos. lia. Qed.
Lemma pb_mask t t' k j : cmask t' = cmask t -> pb t' k j = pb t k j.
Proof. unfold pb. intros ->. reflexivity. Qed.
Lemma ps_mask t t' k j : cmask t' = cmask t -> ps t' k j = ps t k j.
Proof. unfold ps. intros ->. reflexivity. Qed.

Definition lidx (t : ctab) (p : Z) : Z := Z.land p (cmask t).
Lemma lidx_idem t p : lidx t (lidx t p) = lidx t p.
Proof. unfold lidx. rewrite <- Z.land_assoc, Z.land_diag. reflexivity. Qed.

(* position p of table t has been passed by a probe for key k: published, constructed, other key *)
Definition keyne (t : ctab) (k p : Z) : Prop :=
  0 <= cctrl t p /\ exists e, cvals t (lidx t p) = Some e /\ fst e <> k.
Definition grp_passed (t : ctab) (k : Z) (j : nat) : Prop := forall o, In o offsets -> keyne t k (pb t k j + o).
Definition tab_passed (t : ctab) (k : Z) : Prop :=
  cdummy t = true \/ forall j, emp_loop_cond (ps t k j) (cmask t) = true -> grp_passed t k j.
Definition passed_upto (tb : list ctab) (k : Z) (n : nat) : Prop :=
  forall n' t', (n' <= n)%nat -> nth_error tb n' = Some t' -> tab_passed t' k.
(* everything the probe for k looks at before offset o of group j of table n *)
Definition before (tb : list ctab) (k : Z) (n j : nat) (o : Z) : Prop :=
  (forall n' t', (n' < n)%nat -> nth_error tb n' = Some t' -> tab_passed t' k) /\
  (forall t, nth_error tb n = Some t ->
     (forall j', (j' < j)%nat -> grp_passed t k j') /\
     (forall o', In o' offsets -> o' < o -> keyne t k (pb t k j + o'))).

(* monotone extension of the memory: tags, constructed values and claims never change *)
Definition text (t t' : ctab) : Prop :=
  cdummy t' = cdummy t /\ cmask t' = cmask t /\
  (forall p, 0 <= cctrl t p -> cctrl t' p = cctrl t p) /\
  (forall i e, cvals t i = Some e -> cvals t' i = Some e) /\
  (forall i w, cown t i = Some w -> cown t' i = Some w) /\
  (forall p, cctrl t p = cBUSY -> cctrl t' p = cBUSY \/ 0 <= cctrl t' p).
Definition lext (tb tb' : list ctab) : Prop :=
  forall n t, nth_error tb n = Some t -> exists t', nth_error tb' n = Some t' /\ text t t'.

Lemma text_refl t : text t t.
Proof. repeat split; auto. Qed.
Lemma text_trans a b c : text a b -> text b c -> text a c.
Proof.
  intros (A1 & A2 & A3 & A4 & A5 & A6) (B1 & B2 & B3 & B4 & B5 & B6). repeat split; try congruence.
  - intros p Hp. rewrite B3; rewrite A3; auto.
  - intros. auto.
  - intros. auto.
  - intros p Hp. destruct (A6 _ Hp) as [E|E]; [apply B6; auto|]. right. rewrite B3; auto.
Qed.
Lemma lext_refl tb : lext tb tb.
Proof. intros n t H. exists t. split; auto. apply text_refl. Qed.
Lemma lext_trans a b c : lext a b -> lext b c -> lext a c.
Proof.
  intros H1 H2 n t Hn. destruct (H1 _ _ Hn) as (t' & Hn' & T1). destruct (H2 _ _ Hn') as (t'' & Hn'' & T2).
  exists t''. split; auto. eapply text_trans; eauto.
Qed.
Lemma lext_set tb n tn tn' : nth_error tb n = Some tn -> text tn tn' -> lext tb (set_nth n tn' tb).
Proof.
  intros Hn T m t Hm. rewrite (nth_error_set_nth _ _ _ _ _ Hn). destruct (Nat.eqb n m) eqn:E.
  - apply Nat.eqb_eq in E. subst m. rewrite Hn in Hm. inversion Hm; subst. eauto.
  - exists t. split; auto. apply text_refl.
Qed.
Lemma lext_app tb x : lext tb (tb ++ [x]).
Proof.
  intros n t Hn. exists t. split; [|apply text_refl]. rewrite nth_error_app1; auto. apply nth_error_Some. congruence.
Qed.

Lemma keyne_ext t t' k p : text t t' -> keyne t k p -> keyne t' k p.
Proof.
  intros (A1 & A2 & A3 & A4 & A5) (H1 & e & H2 & H3). split.
  - rewrite A3; auto.
  - exists e. unfold lidx in *. rewrite A2. split; auto.
Qed.
Lemma grp_passed_ext t t' k j : text t t' -> grp_passed t k j -> grp_passed t' k j.
Proof.
  intros T H o Ho. rewrite (pb_mask t t') by apply T. eapply keyne_ext; eauto.
Qed.
Lemma tab_passed_ext t t' k : text t t' -> tab_passed t k -> tab_passed t' k.
Proof.
  intros T [H|H]; [left; destruct T as (-> & _); auto|].
  right. intros j Hj. eapply grp_passed_ext; eauto. apply H.
  destruct T as (_ & A2 & _). rewrite <- (ps_mask t t') by auto. rewrite <- A2. exact Hj.
Qed.
Lemma nth_lext tb tb' n t' : lext tb tb' -> (n < length tb)%nat -> nth_error tb' n = Some t' ->
  exists t, nth_error tb n = Some t /\ text t t'.
Proof.
  intros L Hn H'. destruct (nth_error tb n) as [t|] eqn:E; [|apply nth_error_None in E; lia].
  destruct (L _ _ E) as (t2 & E2 & T). rewrite H' in E2. inversion E2; subst. eauto.
Qed.
Lemma passed_upto_ext tb tb' k n : lext tb tb' -> (n < length tb)%nat -> passed_upto tb k n -> passed_upto tb' k n.
Proof.
  intros L Hn H n' t' Hle Hn'. destruct (nth_lext _ _ n' _ L ltac:(lia) Hn') as (t & Ht & T).
  eapply tab_passed_ext; eauto.
Qed.
Lemma before_ext tb tb' k n j o : lext tb tb' -> (n < length tb)%nat -> before tb k n j o -> before tb' k n j o.
Proof.
  intros L Hn (H1 & H2). split.
  - intros n' t' Hlt Hn'. destruct (nth_lext _ _ n' _ L ltac:(lia) Hn') as (t & Ht & T).
    eapply tab_passed_ext; eauto.
  - intros t' Hn'. destruct (nth_lext _ _ n _ L Hn Hn') as (t & Ht & T). destruct (H2 _ Ht) as (G1 & G2). split.
    + intros j' Hj'. eapply grp_passed_ext; eauto.
    + intros o' Ho' Hlt. rewrite (pb_mask t t') by apply T. eapply keyne_ext; eauto.
Qed.
Lemma before_start tb k n : passed_upto tb k n -> before tb k (S n) 0 0.
Proof.
  intros H. split.
  - intros n' t' Hlt. apply H. lia.
  - intros t _. split; [intros; lia|]. intros o' Ho'. apply in_offsets in Ho'. lia.
Qed.
Lemma before_first tb k : before tb k 0 0 0.
Proof.
  split; [intros; lia|]. intros t _. split; [intros; lia|]. intros o' Ho'. apply in_offsets in Ho'. lia.
Qed.

(* ================= invariants ================= *)
Definition cur_op (th : thread) : option op := nth_error (prog th) (opi th).

Definition at_group (tb : list ctab) (k : Z) (n j : nat) (stp base : Z) (tn : ctab) : Prop :=
  nth_error tb n = Some tn /\ base = pb tn k j /\ stp = ps tn k j /\ emp_loop_cond stp (cmask tn) = true.

Definition snap (tn : ctab) (base : Z) (g : list Z) : Prop :=
  forall o, In o offsets -> 0 <= gget g o -> cctrl tn (base + o) = gget g o.

Definition owns (tb : list ctab) (t : nat) (th : thread) (k : Z) (n : nat) (idx pos : Z) (tn : ctab) (j : nat) (o : Z) : Prop :=
  nth_error tb n = Some tn /\ cown tn idx = Some (k, j, o, t, opi th) /\ pos = pb tn k j + o.

Definition TInv (tb : list ctab) (gr : bool) (t : nat) (th : thread) : Prop :=
  match tpc th with
  | Idle => True
  | PLoad n j stp base => exists o tn, cur_op th = Some o /\
      at_group tb (okey o) n j stp base tn /\ (is_find o = false -> before tb (okey o) n j 0)
  | PCmp n j stp base g cs => exists o tn, cur_op th = Some o /\
      at_group tb (okey o) n j stp base tn /\ (is_find o = false -> before tb (okey o) n j 0) /\ snap tn base g /\ cs <> [] /\
      (forall c, In c cs -> In c offsets /\ gget g c = chk (okey o)) /\
      (forall c, In c offsets -> gget g c = chk (okey o) -> In c cs \/ keyne tn (okey o) (base + c))
  | PCas n j stp base c => exists o tn, cur_op th = Some o /\ is_find o = false /\
      at_group tb (okey o) n j stp base tn /\ before tb (okey o) n j c /\ In c offsets
  | PCons n idx pos => exists k v tn j o, cur_op th = Some (OEmp k v) /\ owns tb t th k n idx pos tn j o /\
      cvals tn idx = None
  | PStore1 n idx pos => exists k v tn j o, cur_op th = Some (OEmp k v) /\ owns tb t th k n idx pos tn j o /\
      cvals tn idx = Some (k, v)
  | PStore2 n idx pos => exists k v tn j o, cur_op th = Some (OEmp k v) /\ owns tb t th k n idx pos tn j o /\
      cvals tn idx = Some (k, v) /\ cctrl tn idx = chk k
  | PSize n idx pos => exists k v tn j o, cur_op th = Some (OEmp k v) /\ owns tb t th k n idx pos tn j o /\
      cvals tn idx = Some (k, v) /\ cctrl tn idx = chk k /\ cctrl tn pos = chk k
  | PNext n => exists o, cur_op th = Some o /\ (n < length tb)%nat /\ (is_find o = false -> passed_upto tb (okey o) n)
  | PNextCas n => exists o, cur_op th = Some o /\ is_find o = false /\ gr = true /\ (n < length tb)%nat /\
      passed_upto tb (okey o) n
  end.

Record TabInv (tb : list ctab) (n : nat) (tn : ctab) : Prop := {
  ti_pow : pow2 (cbcount tn);
  ti_dummy : cdummy tn = true -> forall p, cctrl tn p = DUMMY_CONTROL /\ cown tn p = None /\ cvals tn p = None;
  ti_dom : cdummy tn = false -> forall p, cctrl tn p = EMPTY_CONTROL \/ cctrl tn p = cBUSY \/ 0 <= cctrl tn p;
  ti_pub : forall p, 0 <= cctrl tn p -> exists k j o tid opn v,
             cown tn (lidx tn p) = Some (k, j, o, tid, opn) /\ cvals tn (lidx tn p) = Some (k, v) /\ cctrl tn p = chk k;
  ti_own : forall i k j o tid opn, cown tn i = Some (k, j, o, tid, opn) ->
             In o offsets /\ i = lidx tn (pb tn k j + o) /\ emp_loop_cond (ps tn k j) (cmask tn) = true /\
             before tb k n j o /\ (cctrl tn i = cBUSY \/ cctrl tn i = chk k) /\
             (cvals tn i = None \/ exists v, cvals tn i = Some (k, v));
  ti_val : forall i e, cvals tn i = Some e -> exists j o tid opn, cown tn i = Some (fst e, j, o, tid, opn)
}.

Definition Uniq (tb : list ctab) : Prop := forall n1 t1 i1 n2 t2 i2 k j1 o1 a1 b1 j2 o2 a2 b2,
  nth_error tb n1 = Some t1 -> nth_error tb n2 = Some t2 ->
  cown t1 i1 = Some (k, j1, o1, a1, b1) -> cown t2 i2 = Some (k, j2, o2, a2, b2) -> n1 = n2 /\ i1 = i2.

Record Inv (s : st) : Prop := {
  inv_tab : forall n tn, nth_error (tabs s) n = Some tn -> TabInv (tabs s) n tn;
  inv_thr : forall t th, nth_error (threads s) t = Some th -> TInv (tabs s) (grow s) t th;
  inv_uniq : Uniq (tabs s);
  inv_ne : tabs s <> [];
  inv_bad : bad_read s = false;
  inv_dbl : dbl_cons s = false
}.

Lemma chk_rng k : 0 <= chk k < 128. Proof. apply checker_rng. Qed.

(* lexicographic order on probe positions (table, group, offset) *)
Definition lexlt (a b : nat * nat * Z) : Prop :=
  let '(n1, j1, o1) := a in let '(n2, j2, o2) := b in
  (n1 < n2)%nat \/ (n1 = n2 /\ ((j1 < j2)%nat \/ (j1 = j2 /\ o1 < o2))).

Lemma lex_tri n1 j1 o1 n2 j2 o2 :
  lexlt (n1, j1, o1) (n2, j2, o2) \/ (n1 = n2 /\ j1 = j2 /\ o1 = o2) \/ lexlt (n2, j2, o2) (n1, j1, o1).
Proof. unfold lexlt. lia. Qed.

(* whatever lies before (n, j, o) in the probe order of k has been passed *)
Lemma before_lt tb k n j o n' j' o' t' :
  before tb k n j o -> lexlt (n', j', o') (n, j, o) -> nth_error tb n' = Some t' -> cdummy t' = false ->
  emp_loop_cond (ps t' k j') (cmask t') = true -> In o' offsets -> keyne t' k (pb t' k j' + o').
Proof.
  intros (H1 & H2) L Hn' Hd Hc Ho'. destruct L as [L|(-> & L)].
  - destruct (H1 _ _ L Hn') as [D|P]; [congruence|]. apply P; auto.
  - destruct (H2 _ Hn') as (G1 & G2). destruct L as [L|(-> & L)]; [apply G1; auto|apply G2; auto].
Qed.

Lemma TabInv_ext_same tb tb' n tn : lext tb tb' -> (n < length tb)%nat -> TabInv tb n tn -> TabInv tb' n tn.
Proof.
  intros L Hn [A B C D E F]. constructor; auto.
  intros i k j o tid opn H. destruct (E _ _ _ _ _ _ H) as (E1 & E2 & E3 & E4 & E5 & E6).
  split; [auto|]. split; [auto|]. split; [auto|]. split; [|split; auto].
  apply (before_ext tb tb' k n j o L Hn E4).
Qed.

Lemma keyne_own_contra tb n tn k p j o tid opn : TabInv tb n tn -> keyne tn k p ->
  cown tn (lidx tn p) = Some (k, j, o, tid, opn) -> False.
Proof.
  intros TI (H0 & e & He & Hne) Ho. destruct (ti_own _ _ _ TI _ _ _ _ _ _ Ho) as (_ & _ & _ & _ & _ & [V|(v & V)]).
  - congruence.
  - rewrite V in He. inversion He; subst. apply Hne. reflexivity.
Qed.

Lemma lext_len tb tb' n : lext tb tb' -> (n < length tb)%nat -> (n < length tb')%nat.
Proof.
  intros L H. destruct (nth_error tb n) eqn:E; [|apply nth_error_None in E; lia].
  destruct (L _ _ E) as (t' & E' & _). apply nth_error_Some. congruence.
Qed.
Lemma nth_len {A} (l : list A) n x : nth_error l n = Some x -> (n < length l)%nat.
Proof. intros H. apply nth_error_Some. congruence. Qed.

Lemma at_group_ext tb tb' k n j stp base tn : lext tb tb' -> at_group tb k n j stp base tn ->
  exists tn', text tn tn' /\ at_group tb' k n j stp base tn'.
Proof.
  intros L (H1 & H2 & H3 & H4). destruct (L _ _ H1) as (tn' & H1' & T). exists tn'. split; auto.
  pose proof T as (_ & M & _). unfold at_group. rewrite (pb_mask tn tn'), (ps_mask tn tn'), M by auto. auto.
Qed.

Lemma owns_ext tb tb' t th k n idx pos tn j o : lext tb tb' -> owns tb t th k n idx pos tn j o ->
  exists tn', text tn tn' /\ owns tb' t th k n idx pos tn' j o.
Proof.
  intros L (H1 & H2 & H3). destruct (L _ _ H1) as (tn' & H1' & T). exists tn'. split; auto.
  pose proof T as (_ & M & _ & _ & O & _). unfold owns. rewrite (pb_mask tn tn') by auto. auto.
Qed.

(* a step of another thread preserves the invariant of thread t as long as it does not construct into a slot
   that t has claimed *)
Lemma TInv_ext tb tb' gr t th : lext tb tb' ->
  (forall n tn tn' i, nth_error tb n = Some tn -> nth_error tb' n = Some tn' -> cvals tn i = None ->
     cvals tn' i = None \/ exists k j o t0 opn, cown tn i = Some (k, j, o, t0, opn) /\ t0 <> t) ->
  TInv tb gr t th -> TInv tb' gr t th.
Proof.
  intros L F. unfold TInv. destruct (tpc th) as [|n j stp base|n j stp base g cs|n j stp base c|n idx pos|n idx pos|n idx pos|n idx pos|n|n].
  - auto.
  - intros (o & tn & H1 & H2 & H3). destruct (at_group_ext _ _ _ _ _ _ _ _ L H2) as (tn' & T & H2').
    exists o, tn'. split; [auto|]. split; [exact H2'|]. intros Hf. eapply before_ext; eauto. eapply nth_len, H2.
  - intros (o & tn & H1 & H2 & H3 & H4 & H5 & H6 & H7). destruct (at_group_ext _ _ _ _ _ _ _ _ L H2) as (tn' & T & H2').
    exists o, tn'. split; [auto|]. split; [auto|]. split; [intros Hf; eapply before_ext; eauto; eapply nth_len, H2|].
    split; [|split; [auto|split; [auto|]]].
    + intros c Hc Hg. pose proof (H4 c Hc Hg) as E. destruct T as (_ & _ & T3 & _). rewrite T3; lia.
    + intros c Hc Hg. destruct (H7 c Hc Hg) as [?|K]; [auto|right; eapply keyne_ext; eauto].
  - intros (o & tn & H1 & H1' & H2 & H3 & H4). destruct (at_group_ext _ _ _ _ _ _ _ _ L H2) as (tn' & T & H2').
    exists o, tn'. split; [auto|]. split; [auto|]. split; [exact H2'|]. split; [|auto].
    eapply before_ext; eauto. eapply nth_len, H2.
  - intros (k & v & tn & j & o & H1 & H2 & H3). destruct (owns_ext _ _ _ _ _ _ _ _ _ _ _ L H2) as (tn' & T & H2').
    exists k, v, tn', j, o. split; [auto|]. split; [auto|].
    destruct (F n tn tn' idx) as [?|(k0 & j0 & o0 & t0 & opn & E & Hne)]; auto; try apply H2; try apply H2'.
    destruct H2 as (_ & E2 & _). rewrite E2 in E. inversion E; subst. congruence.
  - intros (k & v & tn & j & o & H1 & H2 & H3). destruct (owns_ext _ _ _ _ _ _ _ _ _ _ _ L H2) as (tn' & T & H2').
    exists k, v, tn', j, o. repeat split; auto; try apply H2'. apply T. auto.
  - intros (k & v & tn & j & o & H1 & H2 & H3 & H4). destruct (owns_ext _ _ _ _ _ _ _ _ _ _ _ L H2) as (tn' & T & H2').
    exists k, v, tn', j, o. repeat split; auto; try apply H2'. apply T; auto.
    destruct T as (_ & _ & T3 & _). rewrite T3; auto. rewrite H4. apply chk_rng.
  - intros (k & v & tn & j & o & H1 & H2 & H3 & H4 & H5). destruct (owns_ext _ _ _ _ _ _ _ _ _ _ _ L H2) as (tn' & T & H2').
    exists k, v, tn', j, o. repeat split; auto; try apply H2'. apply T; auto.
    + destruct T as (_ & _ & T3 & _). rewrite T3; auto. rewrite H4. apply chk_rng.
    + destruct T as (_ & _ & T3 & _). rewrite T3; auto. rewrite H5. apply chk_rng.
  - intros (o & H1 & H2 & H3). exists o. split; [auto|]. split; [eapply lext_len; eauto|]. intros Hf. eapply passed_upto_ext; eauto.
  - intros (o & H1 & H1' & H1'' & H2 & H3). exists o. repeat split; auto. eapply lext_len; eauto. eapply passed_upto_ext; eauto.
Qed.

Lemma TInv_opi tb gr t th th' : tpc th' = tpc th -> prog th' = prog th -> opi th' = opi th ->
  TInv tb gr t th -> TInv tb gr t th'.
Proof.
  unfold TInv, cur_op, owns. intros -> -> ->. auto.
Qed.

Lemma Uniq_same tb tb' : length tb' = length tb ->
  (forall n t t', nth_error tb n = Some t -> nth_error tb' n = Some t' -> cown t' = cown t) ->
  Uniq tb -> Uniq tb'.
Proof.
  intros Hl H U n1 t1 i1 n2 t2 i2 k j1 o1 a1 b1 j2 o2 a2 b2 H1 H2 O1 O2.
  destruct (nth_error tb n1) as [u1|] eqn:E1; [|apply nth_error_None in E1; apply nth_len in H1; lia].
  destruct (nth_error tb n2) as [u2|] eqn:E2; [|apply nth_error_None in E2; apply nth_len in H2; lia].
  rewrite (H _ _ _ E1 H1) in O1. rewrite (H _ _ _ E2 H2) in O2. eapply U; eauto.
Qed.

(* ================= arithmetic of positions ================= *)
Lemma cbcount_mask t : cmask t = cbcount t - 1.
Proof. unfold cbcount, bucket_count_of_mask. lia. Qed.

Lemma lidx_mod t p : pow2 (cbcount t) -> lidx t p = p mod cbcount t.
Proof. intros H. unfold lidx. apply (land_m (cmask t) (cbcount t) H (cbcount_mask t)). Qed.

Lemma lidx_range t p : pow2 (cbcount t) -> 0 <= lidx t p < cbcount t.
Proof. intros H. rewrite lidx_mod by auto. apply Z.mod_pos_bound. pose proof (pow2_ge _ H). lia. Qed.

Lemma pb_range t k j : pow2 (cbcount t) -> 0 <= pb t k j < cbcount t.
Proof.
  intros H. destruct j.
  - unfold pb. simpl. unfold emp_base0. fold (lidx t (Z.shiftr (hash k) CHECKER_MASK_BITS)). apply lidx_range; auto.
  - rewrite pb_S. unfold emp_next_base. fold (lidx t (pb t k j + (ps t k j + emp_step_inc))). apply lidx_range; auto.
Qed.

Lemma lidx_cloned t idx : pow2 (cbcount t) -> 0 <= idx < cbcount t -> lidx t (emp_cloned_index idx (cmask t)) = idx.
Proof.
  intros H Hi. rewrite (cloned_eq (cmask t) (cbcount t) H (cbcount_mask t)) by auto. pose proof (pow2_ge _ H).
  rewrite lidx_mod by auto. destruct (idx <? 15).
  - replace (cbcount t + idx) with (idx + 1 * cbcount t) by lia. rewrite Z.mod_add by lia. apply Z.mod_small. lia.
  - apply Z.mod_small. lia.
Qed.

Lemma pos_cases t b o : pow2 (cbcount t) -> 0 <= b < cbcount t -> In o offsets ->
  b + o = lidx t (b + o) \/ b + o = emp_cloned_index (lidx t (b + o)) (cmask t).
Proof.
  intros H Hb Ho. apply in_offsets in Ho. pose proof (pow2_ge _ H).
  pose proof (lidx_range t (b + o) H) as R. rewrite (cloned_eq (cmask t) (cbcount t) H (cbcount_mask t)) by auto.
  rewrite lidx_mod in * by auto. destruct (Z_lt_dec (b + o) (cbcount t)).
  - left. rewrite Z.mod_small; lia.
  - right. assert (E0 : (b + o) mod cbcount t = b + o - cbcount t).
    { replace (b + o) with ((b + o - cbcount t) + 1 * cbcount t) at 1 by lia. rewrite Z.mod_add by lia.
      apply Z.mod_small. lia. }
    rewrite E0. destruct (b + o - cbcount t <? 15) eqn:E; lia.
Qed.

(* two offsets of one group never address the same bucket *)
Lemma win_inj t b o o' : pow2 (cbcount t) -> In o offsets -> In o' offsets -> lidx t (b + o) = lidx t (b + o') -> o = o'.
Proof.
  intros H Ho Ho' E. apply in_offsets in Ho, Ho'. pose proof (pow2_ge _ H). rewrite !lidx_mod in E by auto.
  assert (D : ((b + o) - (b + o')) mod cbcount t = 0).
  { rewrite Zminus_mod, E, Z.sub_diag. apply Z.mod_0_l. lia. }
  replace (b + o - (b + o')) with (o - o') in D by lia.
  destruct (Z_lt_dec o o').
  - replace (o - o') with ((o - o' + cbcount t) + (-1) * cbcount t) in D by lia. rewrite Z.mod_add in D by lia.
    rewrite Z.mod_small in D by lia. lia.
  - rewrite Z.mod_small in D by lia. lia.
Qed.

(* ================= one table under the five kinds of writes ================= *)
Lemma own_not_empty tb n tn i w : TabInv tb n tn -> cown tn i = Some w -> cctrl tn i <> EMPTY_CONTROL.
Proof.
  intros TI H. destruct w as [[[[k j] o] tid] opn]. destruct (ti_own _ _ _ TI _ _ _ _ _ _ H) as (_ & _ & _ & _ & [C|C] & _).
  - rewrite C, busy_val, empty_val. lia.
  - rewrite C, empty_val. pose proof (chk_rng k). lia.
Qed.

Lemma empty_not_dummy tb n tn i : TabInv tb n tn -> cctrl tn i = EMPTY_CONTROL -> cdummy tn = false.
Proof.
  intros TI H. destruct (cdummy tn) eqn:E; auto. destruct (ti_dummy _ _ _ TI E i) as (D & _).
  rewrite D, dummy_val, empty_val in H. lia.
Qed.

Lemma tab_cas tb tb' n tn idx k j c t opn :
  TabInv tb n tn -> lext tb tb' -> (n < length tb)%nat ->
  cctrl tn idx = EMPTY_CONTROL -> idx = lidx tn (pb tn k j + c) -> In c offsets ->
  emp_loop_cond (ps tn k j) (cmask tn) = true -> before tb' k n j c ->
  TabInv tb' n (mkCT (cdummy tn) (cmask tn) (upd (cctrl tn) idx cBUSY) (cvals tn) (ccnt tn)
                     (upd (cown tn) idx (Some (k, j, c, t, opn)))).
Proof.
  intros TI L Hn He Hi Hc Hl Hb.
  assert (Hown : cown tn idx = None).
  { destruct (cown tn idx) eqn:E; auto. exfalso. eapply own_not_empty; eauto. }
  assert (Hval : cvals tn idx = None).
  { destruct (cvals tn idx) eqn:E; auto. destruct (ti_val _ _ _ TI _ _ E) as (? & ? & ? & ? & E2). congruence. }
  pose proof (empty_not_dummy _ _ _ _ TI He) as Hd.
  constructor; simpl.
  - apply TI.
  - congruence.
  - intros _ p. unfold upd. destruct (p =? idx); [right; left; reflexivity|apply (ti_dom _ _ _ TI Hd)].
  - intros p Hp. unfold lidx; simpl. fold (lidx tn p). unfold upd in Hp. destruct (p =? idx) eqn:E; [rewrite busy_val in Hp; lia|].
    destruct (ti_pub _ _ _ TI p Hp) as (k0 & j0 & o0 & tid0 & opn0 & v0 & P1 & P2 & P3).
    exists k0, j0, o0, tid0, opn0, v0. unfold upd. rewrite E. destruct (lidx tn p =? idx) eqn:E2; [|auto].
    apply Z.eqb_eq in E2. congruence.
  - intros i k0 j0 o0 tid0 opn0. unfold upd. destruct (i =? idx) eqn:E.
    + apply Z.eqb_eq in E. subst i. intros H; inversion H; subst k0 j0 o0 tid0 opn0. unfold lidx, pb, ps; simpl.
      fold (pb tn k j). fold (ps tn k j). fold (lidx tn (pb tn k j + c)). split; [auto|]. split; [auto|]. split; [auto|]. split; [auto|]. split; auto.
    + intros H. destruct (ti_own _ _ _ TI _ _ _ _ _ _ H) as (E1 & E2 & E3 & E4 & E5 & E6).
      unfold lidx, pb, ps; simpl. fold (pb tn k0 j0). fold (ps tn k0 j0). fold (lidx tn (pb tn k0 j0 + o0)).
      split; [auto|]. split; [auto|]. split; [auto|]. split; [eapply before_ext; eauto|]. split; auto.
  - intros i e H. unfold upd. destruct (i =? idx) eqn:E; [apply Z.eqb_eq in E; congruence|]. apply (ti_val _ _ _ TI _ _ H).
Qed.

Lemma tab_cons tb tb' n tn idx k v j o t opn :
  TabInv tb n tn -> lext tb tb' -> (n < length tb)%nat ->
  cown tn idx = Some (k, j, o, t, opn) -> cvals tn idx = None ->
  TabInv tb' n (mkCT (cdummy tn) (cmask tn) (cctrl tn) (upd (cvals tn) idx (Some (k, v))) (ccnt tn) (cown tn)).
Proof.
  intros TI L Hn Ho Hv.
  assert (Hd : cdummy tn = false).
  { destruct (cdummy tn) eqn:E; auto. destruct (ti_dummy _ _ _ TI E idx) as (_ & D & _). congruence. }
  constructor; simpl.
  - apply TI.
  - congruence.
  - intros _. apply (ti_dom _ _ _ TI Hd).
  - intros p Hp. unfold lidx; simpl. fold (lidx tn p).
    destruct (ti_pub _ _ _ TI p Hp) as (k0 & j0 & o0 & tid0 & opn0 & v0 & P1 & P2 & P3).
    exists k0, j0, o0, tid0, opn0, v0. unfold upd. destruct (lidx tn p =? idx) eqn:E; [apply Z.eqb_eq in E; congruence|auto].
  - intros i k0 j0 o0 tid0 opn0 H. destruct (ti_own _ _ _ TI _ _ _ _ _ _ H) as (E1 & E2 & E3 & E4 & E5 & E6).
    unfold lidx, pb, ps; simpl. fold (pb tn k0 j0). fold (ps tn k0 j0). fold (lidx tn (pb tn k0 j0 + o0)).
    split; [auto|]. split; [auto|]. split; [auto|]. split; [eapply before_ext; eauto|]. split; [auto|].
    unfold upd. destruct (i =? idx) eqn:E; [|auto]. apply Z.eqb_eq in E. rewrite E in H. rewrite Ho in H. inversion H; subst k0 j0 o0 tid0 opn0. right; eauto.
  - intros i e. unfold upd. destruct (i =? idx) eqn:E.
    + apply Z.eqb_eq in E. subst i. intros H; inversion H; subst e. simpl. eauto.
    + apply (ti_val _ _ _ TI).
Qed.

Lemma tab_store tb tb' n tn idx p0 k v j o t opn :
  TabInv tb n tn -> lext tb tb' -> (n < length tb)%nat ->
  cown tn idx = Some (k, j, o, t, opn) -> cvals tn idx = Some (k, v) -> lidx tn p0 = idx ->
  TabInv tb' n (with_ctrl tn (upd (cctrl tn) p0 (chk k))).
Proof.
  intros TI L Hn Ho Hv Hp0.
  assert (Hd : cdummy tn = false).
  { destruct (cdummy tn) eqn:E; auto. destruct (ti_dummy _ _ _ TI E idx) as (_ & D & _). congruence. }
  unfold with_ctrl. constructor; simpl.
  - apply TI.
  - congruence.
  - intros _ p. unfold upd. destruct (p =? p0); [right; right; apply chk_rng|apply (ti_dom _ _ _ TI Hd)].
  - intros p. unfold lidx; simpl. fold (lidx tn p). unfold upd. destruct (p =? p0) eqn:E.
    + apply Z.eqb_eq in E. subst p. intros _. rewrite Hp0. exists k, j, o, t, opn, v. auto.
    + apply (ti_pub _ _ _ TI).
  - intros i k0 j0 o0 tid0 opn0 H. destruct (ti_own _ _ _ TI _ _ _ _ _ _ H) as (E1 & E2 & E3 & E4 & E5 & E6).
    unfold lidx, pb, ps; simpl. fold (pb tn k0 j0). fold (ps tn k0 j0). fold (lidx tn (pb tn k0 j0 + o0)).
    split; [auto|]. split; [auto|]. split; [auto|]. split; [eapply before_ext; eauto|]. split; [|auto].
    unfold upd. destruct (i =? p0) eqn:E; [|auto]. apply Z.eqb_eq in E. subst p0. right.
    assert (Hii : i = idx) by (rewrite <- Hp0; rewrite E2; rewrite lidx_idem; reflexivity). rewrite Hii in H. rewrite Ho in H. inversion H; subst k0 j0 o0 tid0 opn0. reflexivity.
  - apply (ti_val _ _ _ TI).
Qed.

Lemma tab_size tb tb' n tn c : TabInv tb n tn -> lext tb tb' -> (n < length tb)%nat ->
  TabInv tb' n (mkCT (cdummy tn) (cmask tn) (cctrl tn) (cvals tn) c (cown tn)).
Proof.
  intros TI L Hn. destruct (TabInv_ext_same _ _ _ _ L Hn TI) as [A B C D E F]. constructor; auto.
Qed.

(* ================= the CAS winner is the only claim of its key ================= *)
Lemma own_not_dummy tb n tn i w : TabInv tb n tn -> cown tn i = Some w -> cdummy tn = false.
Proof.
  intros TI H. destruct (cdummy tn) eqn:E; auto. destruct (ti_dummy _ _ _ TI E i) as (_ & D & _). congruence.
Qed.

Lemma cas_conflict tb n tn idx k j c m tm i j2 o2 a2 b2 :
  (forall m tm, nth_error tb m = Some tm -> TabInv tb m tm) ->
  nth_error tb n = Some tn -> cctrl tn idx = EMPTY_CONTROL -> idx = lidx tn (pb tn k j + c) -> In c offsets ->
  emp_loop_cond (ps tn k j) (cmask tn) = true -> before tb k n j c ->
  nth_error tb m = Some tm -> cown tm i = Some (k, j2, o2, a2, b2) -> False.
Proof.
  intros TIs Hn He Hi Hc Hl Hb Hm Ho.
  pose proof (TIs _ _ Hn) as TIn. pose proof (TIs _ _ Hm) as TIm.
  destruct (ti_own _ _ _ TIm _ _ _ _ _ _ Ho) as (E1 & E2 & E3 & E4 & E5 & E6).
  destruct (lex_tri m j2 o2 n j c) as [L|[(-> & -> & ->)|L]].
  - pose proof (before_lt _ _ _ _ _ _ _ _ _ Hb L Hm (own_not_dummy _ _ _ _ _ TIm Ho) E3 E1) as K.
    apply (keyne_own_contra tb m tm k _ j2 o2 a2 b2 TIm K). rewrite <- E2. exact Ho.
  - rewrite Hn in Hm. inversion Hm; subst tm. rewrite <- Hi in E2. rewrite E2 in Ho.
    exact (own_not_empty _ _ _ _ _ TIn Ho He).
  - pose proof (before_lt _ _ _ _ _ _ _ _ _ E4 L Hn (empty_not_dummy _ _ _ _ TIn He) Hl Hc) as (K0 & _).
    destruct (ti_pub _ _ _ TIn _ K0) as (k0 & j0 & o0 & tid0 & opn0 & v0 & P1 & _). rewrite <- Hi in P1.
    exact (own_not_empty _ _ _ _ _ TIn P1 He).
Qed.

Lemma uniq_cas tb n tn idx k j c t opn :
  (forall m tm, nth_error tb m = Some tm -> TabInv tb m tm) -> Uniq tb ->
  nth_error tb n = Some tn -> cctrl tn idx = EMPTY_CONTROL -> idx = lidx tn (pb tn k j + c) -> In c offsets ->
  emp_loop_cond (ps tn k j) (cmask tn) = true -> before tb k n j c ->
  Uniq (set_nth n (mkCT (cdummy tn) (cmask tn) (upd (cctrl tn) idx cBUSY) (cvals tn) (ccnt tn)
                        (upd (cown tn) idx (Some (k, j, c, t, opn)))) tb).
Proof.
  intros TIs U Hn He Hi Hc Hl Hb.
  set (tn' := mkCT _ _ _ _ _ _).
  assert (ON : forall m t' i w, nth_error (set_nth n tn' tb) m = Some t' -> cown t' i = Some w ->
               (m = n /\ i = idx /\ w = (k, j, c, t, opn)) \/ (exists tm, nth_error tb m = Some tm /\ cown tm i = Some w)).
  { intros m t' i w Hm Hw. rewrite (nth_error_set_nth _ _ _ _ _ Hn) in Hm. destruct (Nat.eqb n m) eqn:E.
    - apply Nat.eqb_eq in E. subst m. inversion Hm; subst t'. unfold tn' in Hw; simpl in Hw. unfold upd in Hw.
      destruct (i =? idx) eqn:E2.
      + left. apply Z.eqb_eq in E2. inversion Hw. auto.
      + right. eauto.
    - right. eauto. }
  intros n1 t1 i1 n2 t2 i2 k0 j1 o1 a1 b1 j2 o2 a2 b2 H1 H2 O1 O2.
  destruct (ON _ _ _ _ H1 O1) as [(-> & -> & W1)|(u1 & U1 & V1)];
  destruct (ON _ _ _ _ H2 O2) as [(-> & -> & W2)|(u2 & U2 & V2)].
  - auto.
  - inversion W1; subst k0 j1 o1 a1 b1. exfalso. exact (cas_conflict tb n tn idx k j c n2 u2 i2 j2 o2 a2 b2 TIs Hn He Hi Hc Hl Hb U2 V2).
  - inversion W2; subst k0 j2 o2 a2 b2. exfalso. exact (cas_conflict tb n tn idx k j c n1 u1 i1 j1 o1 a1 b1 TIs Hn He Hi Hc Hl Hb U1 V1).
  - exact (U _ _ _ _ _ _ _ _ _ _ _ _ _ _ _ U1 U2 V1 V2).
Qed.

Lemma uniq_app tb x : (forall i, cown x i = None) -> Uniq tb -> Uniq (tb ++ [x]).
Proof.
  intros Hx U n1 t1 i1 n2 t2 i2 k j1 o1 a1 b1 j2 o2 a2 b2 H1 H2 O1 O2.
  assert (G : forall n t i w, nth_error (tb ++ [x]) n = Some t -> cown t i = Some w -> nth_error tb n = Some t).
  { intros n t i w Hn Hw. destruct (Nat.lt_ge_cases n (length tb)) as [Hl|Hl].
    - rewrite nth_error_app1 in Hn; auto.
    - rewrite nth_error_app2 in Hn by lia. destruct (n - length tb)%nat; simpl in Hn.
      + inversion Hn; subst. rewrite Hx in Hw. discriminate.
      + destruct n0; discriminate. }
  eapply U; eauto.
Qed.

Lemma before_weaken tb k n j o o' : o' <= o -> before tb k n j o -> before tb k n j o'.
Proof.
  intros Hle (H1 & H2). split; auto. intros t Ht. destruct (H2 _ Ht) as (G1 & G2). split; auto.
  intros o0 Ho0 Hlt. apply G2; auto. lia.
Qed.

(* ================= assembling the state invariant after a step ================= *)
Lemma nth_set_threads (l : list thread) t th th' t' x : nth_error l t = Some th ->
  nth_error (set_nth t th' l) t' = Some x -> (t' = t /\ x = th') \/ (t' <> t /\ nth_error l t' = Some x).
Proof.
  intros Ht H. rewrite (nth_error_set_nth _ _ _ _ _ Ht) in H. destruct (Nat.eqb t t') eqn:E.
  - apply Nat.eqb_eq in E. inversion H. auto.
  - apply Nat.eqb_neq in E. auto.
Qed.

Lemma inv_local s t th th' dk br dc cons al fr :
  Inv s -> nth_error (threads s) t = Some th -> TInv (tabs s) (grow s) t th' -> br = false -> dc = false ->
  Inv (commit s t th' (tabs s) dk br dc cons al fr) /\ lext (tabs s) (tabs (commit s t th' (tabs s) dk br dc cons al fr)).
Proof.
  intros I Ht T -> ->. split; [|apply lext_refl]. constructor; simpl; try apply I; auto.
  intros t' x Hx. destruct (nth_set_threads _ _ _ _ _ _ Ht Hx) as [(-> & ->)|(Hne & Hx')]; auto. apply (inv_thr _ I _ _ Hx').
Qed.

Lemma inv_mem s t th th' tb' dk br dc cons al fr :
  Inv s -> nth_error (threads s) t = Some th -> lext (tabs s) tb' ->
  (forall n tn', nth_error tb' n = Some tn' -> TabInv tb' n tn') -> Uniq tb' ->
  (forall n tn tn' i, nth_error (tabs s) n = Some tn -> nth_error tb' n = Some tn' -> cvals tn i = None ->
     cvals tn' i = None \/ exists k j o opn, cown tn i = Some (k, j, o, t, opn)) ->
  TInv tb' (grow s) t th' -> br = false -> dc = false ->
  Inv (commit s t th' tb' dk br dc cons al fr) /\ lext (tabs s) (tabs (commit s t th' tb' dk br dc cons al fr)).
Proof.
  intros I Ht L TIs U F T -> ->. split; [|exact L]. constructor; simpl; auto.
  - intros t' x Hx. destruct (nth_set_threads _ _ _ _ _ _ Ht Hx) as [(-> & ->)|(Hne & Hx')]; auto.
    eapply TInv_ext; [exact L| |apply (inv_thr _ I _ _ Hx')].
    intros n tn tn' i H1 H2 H3. destruct (F _ _ _ _ H1 H2 H3) as [?|(k & j & o & opn & E)]; [auto|].
    right. exists k, j, o, t, opn. auto.
  - pose proof (inv_ne _ I) as NE. destruct (nth_error (tabs s) 0) as [t0|] eqn:E.
    + destruct (L _ _ E) as (t0' & H0 & _). intros ->. discriminate.
    + destruct (tabs s); [congruence|discriminate].
Qed.

(* all tables after a write to table n *)
Lemma tabs_set tb n tn tn' : (forall m tm, nth_error tb m = Some tm -> TabInv tb m tm) ->
  nth_error tb n = Some tn -> text tn tn' -> TabInv (set_nth n tn' tb) n tn' ->
  forall m tm', nth_error (set_nth n tn' tb) m = Some tm' -> TabInv (set_nth n tn' tb) m tm'.
Proof.
  intros TIs Hn T TI' m tm' Hm. rewrite (nth_error_set_nth _ _ _ _ _ Hn) in Hm. destruct (Nat.eqb n m) eqn:E.
  - apply Nat.eqb_eq in E. subst m. inversion Hm; subst. auto.
  - eapply TabInv_ext_same; [eapply lext_set; eauto|eapply nth_len; eauto|auto].
Qed.

Lemma frame_set tb n tn tn' (P : Z -> Prop) :
  nth_error tb n = Some tn -> (forall i, cvals tn i = None -> cvals tn' i = None \/ P i) ->
  forall m tm tm' i, nth_error tb m = Some tm -> nth_error (set_nth n tn' tb) m = Some tm' -> cvals tm i = None ->
    cvals tm' i = None \/ (m = n /\ tm = tn /\ P i).
Proof.
  intros Hn H m tm tm' i Hm Hm' Hv. rewrite (nth_error_set_nth _ _ _ _ _ Hn) in Hm'. destruct (Nat.eqb n m) eqn:E.
  - apply Nat.eqb_eq in E. subst m. inversion Hm'; subst. rewrite Hn in Hm. inversion Hm; subst.
    destruct (H _ Hv); auto.
  - rewrite Hm in Hm'. inversion Hm'; subst. auto.
Qed.

Lemma fresh_TabInv tb n m : TabInv tb n (fresh_ct m).
Proof.
  constructor; simpl; try discriminate; auto.
  - apply (construct_bcount dummy_table m).
  - intros p Hp. rewrite empty_val in Hp. lia.
Qed.

Lemma dummy_TabInv tb n : TabInv tb n dummy_ct.
Proof.
  constructor; simpl; try discriminate; auto.
  - exists 4. split; [lia|reflexivity].
  - intros p Hp. rewrite dummy_val in Hp. lia.
Qed.

Lemma mask_nonneg tb n tn : TabInv tb n tn -> emp_loop_cond 0 (cmask tn) = true.
Proof.
  intros TI. pose proof (pow2_ge _ (ti_pow _ _ _ TI)). rewrite (emp_loop_cond_eq (cmask tn) (cbcount tn) (cbcount_mask tn)).
  apply Z.ltb_lt. lia.
Qed.

Lemma start_ok tb gr t th o n tn : nth_error tb n = Some tn -> TabInv tb n tn ->
  cur_op th = Some o -> tpc th = start_table hash (is_find o) (okey o) n tn ->
  (is_find o = false -> before tb (okey o) n 0 0) -> TInv tb gr t th.
Proof.
  intros Hn TI Ho Hpc Hb. unfold TInv. rewrite Hpc. unfold start_table. exists o, tn. split; [auto|]. split; [|auto].
  split; [auto|]. split; [rewrite sel_base0_eq; reflexivity|]. split; [reflexivity|]. eapply mask_nonneg; eauto.
Qed.

Lemma pub_other tb n tn k p : TabInv tb n tn -> 0 <= cctrl tn p -> cctrl tn p <> chk k -> keyne tn k p.
Proof.
  intros TI H0 Hne. split; auto. destruct (ti_pub _ _ _ TI _ H0) as (k0 & j0 & o0 & tid0 & opn0 & v0 & P1 & P2 & P3).
  exists (k0, v0). split; auto. simpl. intros ->. auto.
Qed.

Lemma after_match_ok tb gr t th o n j stp base g tn :
  TabInv tb n tn -> cur_op th = Some o -> at_group tb (okey o) n j stp base tn ->
  (is_find o = false -> before tb (okey o) n j 0) -> snap tn base g ->
  (forall c, In c offsets -> gget g c = chk (okey o) -> keyne tn (okey o) (base + c)) ->
  tpc th = after_match (is_find o) tn n j stp base g -> TInv tb gr t th.
Proof.
  intros TI Ho AG Hb Hs Hk Hpc. pose proof AG as (Hn & Hbase & Hstp & Hl).
  assert (K : forall o', In o' offsets -> 0 <= gget g o' -> keyne tn (okey o) (base + o')).
  { intros o' Ho' H0. pose proof (Hs _ Ho' H0) as Ec. destruct (Z.eq_dec (gget g o') (chk (okey o))) as [E|E]; [auto|].
    eapply pub_other; eauto; rewrite Ec; auto. }
  unfold TInv. rewrite Hpc. unfold after_match. destruct (first_empty_g g) as [o0|] eqn:E.
  - destruct (first_empty_g_some _ _ E) as (F1 & F2 & F3). destruct (is_find o) eqn:Ef.
    + exists o. split; [auto|]. split; [eapply nth_len; eauto|intros Hx; congruence].
    + exists o, tn. split; [auto|]. split; [auto|]. split; [auto|]. split; [|auto].
      destruct (Hb eq_refl) as (B1 & B2). split; [auto|]. intros t0 Ht0. rewrite Hn in Ht0. inversion Ht0; subst t0.
      destruct (B2 _ Hn) as (G1 & _). split; [auto|]. intros o' Ho' Hlt. rewrite <- Hbase. apply K; auto.
  - pose proof (first_empty_g_none _ E) as F. rewrite sel_step_inc_eq, sel_loop_cond_eq, sel_next_base_eq.
    assert (GP : grp_passed tn (okey o) j). { intros o' Ho'. rewrite <- Hbase. apply K; auto. }
    destruct (emp_loop_cond (stp + emp_step_inc) (cmask tn)) eqn:El.
    + exists o, tn. split; [auto|]. split.
      * split; [auto|]. rewrite pb_S, ps_S, <- Hbase, <- Hstp. auto.
      * intros Hf. destruct (Hb Hf) as (B1 & B2). split; [auto|]. intros t0 Ht0. rewrite Hn in Ht0. inversion Ht0; subst t0.
        destruct (B2 _ Hn) as (G1 & _). split.
        -- intros j' Hj'. destruct (Nat.eq_dec j' j) as [->|Hne]; [auto|apply G1; lia].
        -- intros o' Ho'. apply in_offsets in Ho'. lia.
    + exists o. split; [auto|]. split; [eapply nth_len; eauto|]. intros Hf. destruct (Hb Hf) as (B1 & B2).
      intros n' t' Hle Hn'. destruct (Nat.eq_dec n' n) as [->|Hne]; [|apply (B1 n'); auto; lia].
      rewrite Hn in Hn'. inversion Hn'; subst t'. right. intros j' Hj'.
      destruct (le_lt_dec j' j) as [Hle'|Hgt].
      * destruct (Nat.eq_dec j' j) as [->|Hne]; [auto|]. destruct (B2 _ Hn) as (G1 & _). apply G1. lia.
      * exfalso. pose proof (ps_mono tn (okey o) (S j) j' ltac:(lia)) as M. rewrite ps_S, <- Hstp in M.
        unfold emp_loop_cond in *. apply Z.leb_le in Hj'. apply Z.leb_gt in El. lia.
Qed.

Lemma cur_op_goto th p : cur_op (goto th p) = cur_op th. Proof. reflexivity. Qed.

Ltac same_op Ho Ho' o' := unfold cur_op in Ho'; rewrite Ho in Ho'; inversion Ho'; subst o'; clear Ho'.

Lemma step_inv s t s' : Inv s -> step hash s t = Some s' -> Inv s' /\ lext (tabs s) (tabs s').
Proof.
  intros I. unfold step. destruct (nth_error (threads s) t) as [th|] eqn:Ht; [|discriminate].
  unfold step_thread. destruct (nth_error (prog th) (opi th)) as [o|] eqn:Ho; [|discriminate].
  pose proof (inv_thr _ I _ _ Ht) as TI. unfold TInv in TI.
  pose proof (inv_bad _ I) as Hbad. pose proof (inv_dbl _ I) as Hdbl.
  assert (TIs := inv_tab _ I).
  rewrite sel_checker_eq. fold (chk (okey o)).
  destruct (tpc th) as [|n j stp base|n j stp base g cs|n j stp base c|n idx pos|n idx pos|n idx pos|n idx pos|n|n] eqn:Hpc.
  - (* Idle *)
    destruct (nth_error (tabs s) 0) as [t0|] eqn:H0; [|discriminate]. intros E; inversion E; subst s'; clear E.
    unfold local. apply (inv_local s t th); auto.
    eapply start_ok with (o := o) (n := 0%nat) (tn := t0); eauto; try reflexivity. intros _. apply before_first.
  - (* PLoad *)
    destruct TI as (o' & tn & Ho' & AG & Hb). same_op Ho Ho' o'.
    pose proof AG as (Hn & Hbase & Hstp & Hl). rewrite Hn.
    assert (Hsnap : snap tn base (gload tn base)). { intros c Hc _. rewrite gget_gload; auto. }
    destruct (cands (gload tn base) (chk (okey o))) as [|c0 cs0] eqn:Ec;
      intros E; inversion E; subst s'; clear E; unfold local; apply (inv_local s t th); auto.
    + eapply after_match_ok with (o := o); eauto; try reflexivity.
      intros c Hc Hg. exfalso. assert (In c (cands (gload tn base) (chk (okey o)))) by (apply cands_in; auto).
      rewrite Ec in H. destruct H.
    + unfold TInv; simpl. exists o, tn. split; [exact Ho|]. split; [auto|]. split; [auto|]. split; [auto|].
      split; [discriminate|]. split.
      * intros c Hc. apply cands_in. rewrite Ec. exact Hc.
      * intros c Hc Hg. left. change (In c (c0 :: cs0)). rewrite <- Ec. apply cands_in. split; [exact Hc|exact Hg].
  - (* PCmp *)
    destruct TI as (o' & tn & Ho' & AG & Hb & Hs & Hne & Hcs & Hall). same_op Ho Ho' o'.
    pose proof AG as (Hn & Hbase & Hstp & Hl). rewrite Hn. destruct cs as [|c rest]; [congruence|].
    destruct (Hcs c (or_introl eq_refl)) as (Hc & Hg).
    rewrite sel_index_eq. fold (lidx tn (base + c)).
    assert (C0 : cctrl tn (base + c) = chk (okey o)).
    { rewrite (Hs c Hc); auto. rewrite Hg. apply chk_rng. }
    pose proof (TIs _ _ Hn) as TIn.
    destruct (ti_pub _ _ _ TIn (base + c)) as (k0 & j0 & o0 & tid0 & opn0 & v0 & P1 & P2 & P3).
    { rewrite C0. apply chk_rng. }
    rewrite P2. simpl fst. destruct (k0 =? okey o) eqn:Ek.
    + intros E; inversion E; subst s'; clear E. apply (inv_local s t th); auto. unfold TInv, finish_op; simpl. exact Logic.I.
    + apply Z.eqb_neq in Ek.
      assert (Kc : keyne tn (okey o) (base + c)).
      { split; [rewrite C0; apply chk_rng|]. exists (k0, v0). auto. }
      intros E; inversion E; subst s'; clear E. unfold local. apply (inv_local s t th); auto.
      destruct rest as [|c2 rest2].
      * eapply after_match_ok with (o := o); eauto; try reflexivity.
        intros c' Hc' Hg'. destruct (Hall c' Hc' Hg') as [[<-|[]]|K]; auto.
      * unfold TInv; simpl. exists o, tn. split; [exact Ho|]. split; [auto|]. split; [auto|]. split; [auto|].
        split; [discriminate|]. split.
        -- intros c' Hc'. apply Hcs. right; auto.
        -- intros c' Hc' Hg'. destruct (Hall c' Hc' Hg') as [[<-|Hin]|K]; auto.
  - (* PCas *)
    destruct TI as (o' & tn & Ho' & Hf & AG & Hb & Hc). same_op Ho Ho' o'.
    pose proof AG as (Hn & Hbase & Hstp & Hl). rewrite Hn. rewrite insert_index_eq. fold (lidx tn (base + c)).
    pose proof (TIs _ _ Hn) as TIn.
    rewrite cas_expected_val, cas_desired_val.
    destruct (cctrl tn (lidx tn (base + c)) =? EMPTY_CONTROL) eqn:Ee.
    + apply Z.eqb_eq in Ee. intros E; inversion E; subst s'; clear E. unfold with_tabs, upd_tab.
      set (idx := lidx tn (base + c)) in *.
      set (tn' := mkCT _ _ _ _ _ _).
      assert (Hidx : idx = lidx tn (pb tn (okey o) j + c)) by (unfold idx; rewrite Hbase; reflexivity).
      assert (Hl' : emp_loop_cond (ps tn (okey o) j) (cmask tn) = true) by (rewrite <- Hstp; auto).
      assert (Hown : cown tn idx = None).
      { destruct (cown tn idx) eqn:E; auto. exfalso. eapply own_not_empty; eauto. }
      assert (Hval : cvals tn idx = None).
      { destruct (cvals tn idx) eqn:E; auto. destruct (ti_val _ _ _ TIn _ _ E) as (? & ? & ? & ? & E2). congruence. }
      assert (T : text tn tn').
      { unfold tn'. repeat split; simpl; auto.
        - intros p Hp. apply upd_ne. intros ->. rewrite Ee, empty_val in Hp. lia.
        - intros i w Hw. rewrite upd_ne; auto. intros ->. congruence.
        - intros p Hp. left. rewrite upd_ne; auto. intros ->. rewrite Ee, empty_val, busy_val in Hp. lia. }
      assert (L : lext (tabs s) (set_nth n tn' (tabs s))) by (eapply lext_set; eauto).
      apply (inv_mem s t th); auto.
      * eapply tabs_set; eauto. unfold tn'.
        apply (tab_cas (tabs s) (set_nth n tn' (tabs s)) n tn idx (okey o) j c t (opi th) TIn L (nth_len _ _ _ Hn) Ee Hidx Hc Hl').
        eapply before_ext; [exact L|eapply nth_len; eauto|exact Hb].
      * unfold tn'. exact (uniq_cas (tabs s) n tn idx (okey o) j c t (opi th) TIs (inv_uniq _ I) Hn Ee Hidx Hc Hl' Hb).
      * intros m tm tm' i H1 H2 H3.
        destruct (frame_set _ _ _ tn' (fun _ => False) Hn (fun i Hv => or_introl Hv) _ _ _ _ H1 H2 H3) as [?|(_ & _ & [])]; auto.
      * unfold TInv; simpl. destruct o as [k v|k]; [|discriminate]. exists k, v, tn', j, c.
        split; [exact Ho|]. split.
        -- split; [apply nth_error_set_nth_eq; eapply nth_len; eauto|]. unfold tn'; simpl. rewrite upd_eq.
           split; [reflexivity|]. simpl in Hbase. rewrite Hbase. reflexivity.
        -- unfold tn'; simpl. auto.
    + apply Z.eqb_neq in Ee. destruct (cas_saw_dummy (cctrl tn (lidx tn (base + c)))) eqn:Ed;
        intros E; inversion E; subst s'; clear E; unfold local; apply (inv_local s t th); auto.
      * apply saw_dummy_iff in Ed. unfold TInv; simpl. exists o. split; [exact Ho|]. split; [eapply nth_len; eauto|].
        intros _. destruct Hb as (B1 & B2). intros n' t' Hle Hn'.
        destruct (Nat.eq_dec n' n) as [->|Hne]; [|apply (B1 n'); auto; lia].
        rewrite Hn in Hn'. inversion Hn'; subst t'. left. destruct (cdummy tn) eqn:Edm; auto.
        destruct (ti_dom _ _ _ TIn Edm (lidx tn (base + c))) as [D|[D|D]]; rewrite Ed, dummy_val in D;
          try rewrite empty_val in D; try rewrite busy_val in D; lia.
      * unfold TInv; simpl. exists o, tn. split; [exact Ho|]. split; [auto|]. intros _.
        eapply before_weaken; [|exact Hb]. apply in_offsets in Hc. lia.
  - (* PCons *)
    destruct TI as (k & v & tn & j & c & Ho' & (Hn & Hown & Hpos) & Hval). unfold cur_op in Ho'. rewrite Ho in Ho'.
    inversion Ho'; subst o; clear Ho'. rewrite Hn. simpl okey.
    pose proof (TIs _ _ Hn) as TIn. rewrite Hval, Hdbl. simpl orb.
    intros E; inversion E; subst s'; clear E. unfold upd_tab.
    set (tn' := mkCT _ _ _ _ _ _).
    assert (T : text tn tn').
    { unfold tn'. repeat split; simpl; auto. intros i e He. rewrite upd_ne; auto. intros ->. congruence. }
    assert (L : lext (tabs s) (set_nth n tn' (tabs s))) by (eapply lext_set; eauto).
    apply (inv_mem s t th); auto.
    + eapply tabs_set; eauto. unfold tn'. eapply tab_cons; eauto. eapply nth_len; eauto.
    + eapply Uniq_same; [apply length_set_nth| |apply I]. intros m u u' H1 H2.
      rewrite (nth_error_set_nth _ _ _ _ _ Hn) in H2. destruct (Nat.eqb n m) eqn:E.
      * apply Nat.eqb_eq in E. subst m. inversion H2; subst u'. rewrite Hn in H1. inversion H1; subst u. reflexivity.
      * congruence.
    + intros m tm tm' i H1 H2 H3.
      destruct (frame_set _ _ _ tn' (fun i => i = idx) Hn) with (m := m) (tm := tm) (tm' := tm') (i := i) as [?|(-> & -> & ->)]; auto.
      * intros i0 Hv. unfold tn'; simpl. unfold upd. destruct (i0 =? idx) eqn:E; [right; apply Z.eqb_eq; auto|left; auto].
      * right. exists k, j, c, (opi th). auto.
    + unfold TInv; simpl. exists k, v, tn', j, c. split; [exact Ho|]. split.
      * split; [apply nth_error_set_nth_eq; eapply nth_len; eauto|]. unfold tn'; simpl. split; [auto|].
        unfold pb; simpl. fold (pb tn k j). auto.
      * unfold tn'; simpl. apply upd_eq.
  - (* PStore1 *)
    destruct TI as (k & v & tn & j & c & Ho' & (Hn & Hown & Hpos) & Hval). unfold cur_op in Ho'. rewrite Ho in Ho'.
    inversion Ho'; subst o; clear Ho'. rewrite Hn. simpl okey. rewrite store_primary_id.
    pose proof (TIs _ _ Hn) as TIn.
    intros E; inversion E; subst s'; clear E. unfold with_tabs, upd_tab.
    set (tn' := with_ctrl tn _).
    destruct (ti_own _ _ _ TIn _ _ _ _ _ _ Hown) as (O1 & O2 & O3 & O4 & O5 & O6).
    assert (Hli : lidx tn idx = idx) by (rewrite O2; apply lidx_idem).
    assert (T : text tn tn').
    { unfold tn', with_ctrl. repeat split; simpl; auto. intros p Hp. unfold upd. destruct (p =? idx) eqn:E; auto.
      apply Z.eqb_eq in E. subst p. destruct (ti_pub _ _ _ TIn _ Hp) as (k0 & j0 & o0 & tid0 & opn0 & v0 & P1 & P2 & P3).
      rewrite Hli, Hown in P1. inversion P1; subst. auto.
      intros p Hp. unfold upd. destruct (p =? _); auto. right. apply chk_rng. }
    assert (L : lext (tabs s) (set_nth n tn' (tabs s))) by (eapply lext_set; eauto).
    apply (inv_mem s t th); auto.
    + eapply tabs_set; eauto. unfold tn'. eapply tab_store; eauto. eapply nth_len; eauto.
    + eapply Uniq_same; [apply length_set_nth| |apply I]. intros m u u' H1 H2.
      rewrite (nth_error_set_nth _ _ _ _ _ Hn) in H2. destruct (Nat.eqb n m) eqn:E.
      * apply Nat.eqb_eq in E. subst m. inversion H2; subst u'. rewrite Hn in H1. inversion H1; subst u. reflexivity.
      * congruence.
    + intros m tm tm' i H1 H2 H3.
      destruct (frame_set _ _ _ tn' (fun _ => False) Hn (fun i Hv => or_introl Hv) _ _ _ _ H1 H2 H3) as [?|(_ & _ & [])]; auto.
    + unfold TInv; simpl. exists k, v, tn', j, c. split; [exact Ho|]. split.
      * split; [apply nth_error_set_nth_eq; eapply nth_len; eauto|]. unfold tn'; simpl. split; [auto|].
        unfold pb; simpl. fold (pb tn k j). auto.
      * unfold tn'; simpl. split; [auto|]. apply upd_eq.
  - (* PStore2 *)
    destruct TI as (k & v & tn & j & c & Ho' & (Hn & Hown & Hpos) & Hval & Hctl). unfold cur_op in Ho'. rewrite Ho in Ho'.
    inversion Ho'; subst o; clear Ho'. rewrite Hn. simpl okey. rewrite store_mirror_id.
    pose proof (TIs _ _ Hn) as TIn.
    intros E; inversion E; subst s'; clear E. unfold with_tabs, upd_tab.
    set (cl := emp_cloned_index idx (cmask tn)).
    set (tn' := with_ctrl tn _).
    destruct (ti_own _ _ _ TIn _ _ _ _ _ _ Hown) as (O1 & O2 & O3 & O4 & O5 & O6).
    assert (Hr : 0 <= idx < cbcount tn) by (rewrite O2; apply lidx_range; apply TIn).
    assert (Hli : lidx tn cl = idx) by (apply lidx_cloned; auto; apply TIn).
    assert (T : text tn tn').
    { unfold tn', with_ctrl. repeat split; simpl; auto. intros p Hp. unfold upd. destruct (p =? cl) eqn:E; auto.
      apply Z.eqb_eq in E. subst p. destruct (ti_pub _ _ _ TIn _ Hp) as (k0 & j0 & o0 & tid0 & opn0 & v0 & P1 & P2 & P3).
      rewrite Hli, Hown in P1. inversion P1; subst. auto.
      intros p Hp. unfold upd. destruct (p =? _); auto. right. apply chk_rng. }
    assert (L : lext (tabs s) (set_nth n tn' (tabs s))) by (eapply lext_set; eauto).
    apply (inv_mem s t th); auto.
    + eapply tabs_set; eauto. unfold tn'. eapply tab_store; eauto. eapply nth_len; eauto.
    + eapply Uniq_same; [apply length_set_nth| |apply I]. intros m u u' H1 H2.
      rewrite (nth_error_set_nth _ _ _ _ _ Hn) in H2. destruct (Nat.eqb n m) eqn:E.
      * apply Nat.eqb_eq in E. subst m. inversion H2; subst u'. rewrite Hn in H1. inversion H1; subst u. reflexivity.
      * congruence.
    + intros m tm tm' i H1 H2 H3.
      destruct (frame_set _ _ _ tn' (fun _ => False) Hn (fun i Hv => or_introl Hv) _ _ _ _ H1 H2 H3) as [?|(_ & _ & [])]; auto.
    + unfold TInv; simpl. exists k, v, tn', j, c. split; [exact Ho|]. split.
      * split; [apply nth_error_set_nth_eq; eapply nth_len; eauto|]. unfold tn'; simpl. split; [auto|].
        unfold pb; simpl. fold (pb tn k j). auto.
      * unfold tn'; simpl. split; [auto|].
        assert (Ci : upd (cctrl tn) cl (chk k) idx = chk k).
        { unfold upd. destruct (idx =? cl); auto. }
        split; [auto|]. rewrite Hpos.
        destruct (pos_cases tn (pb tn k j) c (ti_pow _ _ _ TIn) (pb_range tn k j (ti_pow _ _ _ TIn)) O1) as [Ep|Ep].
        -- rewrite Ep, <- O2. exact Ci.
        -- rewrite Ep, <- O2. apply upd_eq.
  - (* PSize *)
    destruct TI as (k & v & tn & j & c & Ho' & (Hn & Hown & Hpos) & Hval & Hctl & Hcp). unfold cur_op in Ho'. rewrite Ho in Ho'.
    inversion Ho'; subst o; clear Ho'. rewrite Hn. simpl okey.
    pose proof (TIs _ _ Hn) as TIn.
    intros E; inversion E; subst s'; clear E. unfold upd_tab.
    set (tn' := mkCT _ _ _ _ _ _).
    assert (T : text tn tn') by (unfold tn'; repeat split; simpl; auto).
    assert (L : lext (tabs s) (set_nth n tn' (tabs s))) by (eapply lext_set; eauto).
    apply (inv_mem s t th); auto.
    + eapply tabs_set; eauto. unfold tn'. eapply tab_size; eauto. eapply nth_len; eauto.
    + eapply Uniq_same; [apply length_set_nth| |apply I]. intros m u u' H1 H2.
      rewrite (nth_error_set_nth _ _ _ _ _ Hn) in H2. destruct (Nat.eqb n m) eqn:E.
      * apply Nat.eqb_eq in E. subst m. inversion H2; subst u'. rewrite Hn in H1. inversion H1; subst u. reflexivity.
      * congruence.
    + intros m tm tm' i H1 H2 H3.
      destruct (frame_set _ _ _ tn' (fun _ => False) Hn (fun i Hv => or_introl Hv) _ _ _ _ H1 H2 H3) as [?|(_ & _ & [])]; auto.
    + unfold TInv, finish_op; simpl. exact Logic.I.
  - (* PNext *)
    destruct TI as (o' & Ho' & Hlen & Hp). same_op Ho Ho' o'.
    destruct (negb (grow s)) eqn:Eg.
    + intros E; inversion E; subst s'; clear E. unfold local. apply (inv_local s t th); auto. unfold TInv, finish_op; simpl. exact Logic.I.
    + destruct (nth_error (tabs s) (S n)) as [tnx|] eqn:Enx.
      * rewrite null_1. intros E; inversion E; subst s'; clear E. unfold local. apply (inv_local s t th); auto.
        eapply start_ok with (o := o) (n := S n) (tn := tnx); eauto; try reflexivity.
        intros Hf. apply before_start. auto.
      * rewrite null_0. destruct (is_find o) eqn:Ef; intros E; inversion E; subst s'; clear E.
        -- unfold local. apply (inv_local s t th); auto. unfold TInv, finish_op; simpl. exact Logic.I.
        -- apply (inv_local s t th); auto. unfold TInv; simpl. exists o. split; [exact Ho|]. split; [auto|].
           split; [destruct (grow s); auto; discriminate|]. split; auto.
  - (* PNextCas *)
    destruct TI as (o' & Ho' & Hf & Hg & Hlen & Hp). same_op Ho Ho' o'.
    destruct (nth_error (tabs s) n) as [tn|] eqn:Hn; [|discriminate].
    destruct (nth_error (tabs s) (S n)) as [tnx|] eqn:Enx; intros E; inversion E; subst s'; clear E.
    + apply (inv_local s t th); auto.
      eapply start_ok with (o := o) (n := S n) (tn := tnx); eauto; try reflexivity.
      intros _. apply before_start. auto.
    + unfold with_tabs. set (tnew := fresh_ct _).
      assert (Hlen' : S n = length (tabs s)). { apply nth_error_None in Enx. lia. }
      assert (L : lext (tabs s) (tabs s ++ [tnew])) by apply lext_app.
      assert (Hnew : nth_error (tabs s ++ [tnew]) (S n) = Some tnew).
      { rewrite nth_error_app2 by lia. rewrite Hlen', Nat.sub_diag. reflexivity. }
      apply (inv_mem s t th); auto.
      * intros m tm Hm. destruct (Nat.lt_ge_cases m (length (tabs s))) as [Hl|Hl].
        -- rewrite nth_error_app1 in Hm by auto. eapply TabInv_ext_same; eauto.
        -- rewrite nth_error_app2 in Hm by lia. destruct (m - length (tabs s))%nat eqn:Em; simpl in Hm.
           ++ inversion Hm; subst tm. apply fresh_TabInv.
           ++ destruct n0; discriminate.
      * apply uniq_app; [reflexivity|apply I].
      * intros m tm tm' i H1 H2 H3. left. rewrite nth_error_app1 in H2 by (eapply nth_len; eauto). congruence.
      * eapply start_ok with (o := o) (n := S n) (tn := tnew); eauto; try reflexivity.
        -- apply fresh_TabInv.
        -- intros _. apply before_start. eapply passed_upto_ext; eauto.
Qed.

(* ================= reachable states ================= *)
Definition Reach (cap : option Z) (g : bool) (progs : list (list op)) (s : st) : Prop :=
  reachable st (step hash) (init cap g progs) s.

Lemma init_inv cap g progs : Inv (init cap g progs).
Proof.
  constructor; simpl; auto.
  - intros n tn H. destruct n; simpl in H; [|destruct n; discriminate]. inversion H; subst tn.
    destruct cap; [apply fresh_TabInv|apply dummy_TabInv].
  - intros t th H. apply nth_error_In in H. apply in_map_iff in H. destruct H as (p & <- & _). exact Logic.I.
  - intros n1 t1 i1 n2 t2 i2 k j1 o1 a1 b1 j2 o2 a2 b2 H1 H2 O1 O2.
    destruct n1; simpl in H1; [|destruct n1; discriminate]. inversion H1; subst t1. destruct cap; discriminate.
  - discriminate.
Qed.

Lemma hc_inv cap g progs s : Reach cap g progs s -> Inv s.
Proof.
  apply inv_reachable; [apply init_inv|]. intros s0 t s1 I H. apply (step_inv _ _ _ I H).
Qed.

Lemma run_ext sch : forall s, Inv s -> Inv (Machine.run st (step hash) s sch) /\ lext (tabs s) (tabs (Machine.run st (step hash) s sch)).
Proof.
  induction sch as [|t r IH]; intros s I; simpl; [split; auto; apply lext_refl|].
  unfold step_or_stay. destruct (step hash s t) as [s1|] eqn:E; [|apply IH; auto].
  destruct (step_inv _ _ _ I E) as (I1 & L1). destruct (IH _ I1) as (I2 & L2). split; auto. eapply lext_trans; eauto.
Qed.

(* --- control bytes only move EMPTY -> BUSY -> tag; tags, constructed elements and claims never change; tables are
       only appended (a torn group load is a byte-wise mix of such states) --- *)
Lemma hc_bytes_monotone cap g progs s sch n tn : Reach cap g progs s -> nth_error (tabs s) n = Some tn ->
  exists tn', nth_error (tabs (Machine.run st (step hash) s sch)) n = Some tn' /\ cmask tn' = cmask tn /\
    (forall p, cctrl tn p = EMPTY_CONTROL \/ cctrl tn p = cBUSY \/ 0 <= cctrl tn p \/ cdummy tn = true) /\
    (forall p, 0 <= cctrl tn p -> cctrl tn' p = cctrl tn p) /\
    (forall p, cctrl tn p = cBUSY -> cctrl tn' p = cBUSY \/ 0 <= cctrl tn' p) /\
    (forall i e, cvals tn i = Some e -> cvals tn' i = Some e).
Proof.
  intros R Hn. pose proof (hc_inv _ _ _ _ R) as I. destruct (run_ext sch s I) as (_ & L).
  destruct (L _ _ Hn) as (tn' & Hn' & T1 & T2 & T3 & T4 & T5 & T6). exists tn'. repeat split; auto.
  intros p. destruct (cdummy tn) eqn:E; [auto|]. destruct (ti_dom _ _ _ (inv_tab _ I _ _ Hn) E p) as [?|[?|?]]; auto.
Qed.

(* --- a published tag implies a constructed element of a key with that tag; no comparison ever reads raw storage;
       no slot is constructed twice --- *)
Lemma hc_published_constructed cap g progs s n tn p : Reach cap g progs s -> nth_error (tabs s) n = Some tn ->
  0 <= cctrl tn p -> exists k v, cvals tn (Z.land p (cmask tn)) = Some (k, v) /\ cctrl tn p = emp_checker (hash k).
Proof.
  intros R Hn Hp. pose proof (hc_inv _ _ _ _ R) as I.
  destruct (ti_pub _ _ _ (inv_tab _ I _ _ Hn) _ Hp) as (k & j & o & tid & opn & v & _ & P2 & P3). eauto.
Qed.

Lemma hc_constructed_once cap g progs s : Reach cap g progs s -> bad_read s = false /\ dbl_cons s = false.
Proof. intros R. pose proof (hc_inv _ _ _ _ R) as I. split; apply I. Qed.

(* --- a key lives in at most one slot of the whole chain --- *)
Lemma hc_key_one_slot cap g progs s n1 t1 i1 n2 t2 i2 k v1 v2 : Reach cap g progs s ->
  nth_error (tabs s) n1 = Some t1 -> nth_error (tabs s) n2 = Some t2 ->
  cvals t1 i1 = Some (k, v1) -> cvals t2 i2 = Some (k, v2) -> n1 = n2 /\ i1 = i2.
Proof.
  intros R H1 H2 V1 V2. pose proof (hc_inv _ _ _ _ R) as I.
  destruct (ti_val _ _ _ (inv_tab _ I _ _ H1) _ _ V1) as (j1 & o1 & a1 & b1 & O1).
  destruct (ti_val _ _ _ (inv_tab _ I _ _ H2) _ _ V2) as (j2 & o2 & a2 & b2 & O2).
  simpl in O1, O2. exact (inv_uniq _ I _ _ _ _ _ _ _ _ _ _ _ _ _ _ _ H1 H2 O1 O2).
Qed.

(* --- where a key lives, everything its probe looks at earlier is a full tag of another key: earlier tables of the
       chain, earlier groups, earlier bytes of its group (so no later probe for it stops or inserts earlier) --- *)
Lemma hc_key_position cap g progs s n tn i k v : Reach cap g progs s -> nth_error (tabs s) n = Some tn ->
  cvals tn i = Some (k, v) ->
  exists j o, In o offsets /\ i = Z.land (pb tn k j + o) (cmask tn) /\ emp_loop_cond (ps tn k j) (cmask tn) = true /\
              before (tabs s) k n j o.
Proof.
  intros R Hn V. pose proof (hc_inv _ _ _ _ R) as I.
  destruct (ti_val _ _ _ (inv_tab _ I _ _ Hn) _ _ V) as (j & o & a & b & O). simpl in O.
  destruct (ti_own _ _ _ (inv_tab _ I _ _ Hn) _ _ _ _ _ _ O) as (E1 & E2 & E3 & E4 & _). exists j, o. auto.
Qed.

(* ================= results of completed operations ================= *)
Definition RES (tb : list ctab) (t i : nat) (o : op) (r : res) : Prop :=
  match r with
  | REmp n idx ins seen => is_find o = false /\ exists tn v, nth_error tb n = Some tn /\
      cvals tn idx = Some (okey o, v) /\ seen = Some (okey o, v) /\
      (ins = true -> exists j c, cown tn idx = Some (okey o, j, c, t, i) /\ o = OEmp (okey o) v) /\
      (exists j c, In c offsets /\ emp_loop_cond (ps tn (okey o) j) (cmask tn) = true /\
                   lidx tn (pb tn (okey o) j + c) = idx /\ cctrl tn (pb tn (okey o) j + c) = chk (okey o))
  | RFull => is_find o = false /\ exists tn, nth_error tb 0 = Some tn /\ tab_passed tn (okey o)
  | RFind (Some (n, idx)) seen _ => is_find o = true /\ exists tn v, nth_error tb n = Some tn /\
      cvals tn idx = Some (okey o, v) /\ seen = Some (okey o, v)
  | RFind None _ _ => is_find o = true
  end.

Lemma RES_ext tb tb' t i o r : lext tb tb' -> RES tb t i o r -> RES tb' t i o r.
Proof.
  intros L. destruct r as [n idx ins seen| |[[n idx]|] seen a]; cbn -[nth_error]; auto.
  - intros (H1 & tn & v & Hn & Hv & Hs & Hi & (j0 & c0 & P1 & P2 & P3 & P4)). destruct (L _ _ Hn) as (tn' & Hn' & T). split; auto.
    exists tn', v. split; auto. split; [apply T; auto|]. split; auto. split.
    + intros E. destruct (Hi E) as (j & c & Ho & Eo). exists j, c. split; auto. apply T; auto.
    + pose proof T as (_ & M & T3 & _). exists j0, c0. unfold lidx. rewrite (pb_mask tn tn'), (ps_mask tn tn'), M by auto.
      split; auto. split; auto. split; auto. rewrite T3; auto. rewrite P4. apply chk_rng.
  - intros (H1 & tn & Hn & Hp). destruct (L _ _ Hn) as (tn' & Hn' & T). split; auto. exists tn'. split; auto.
    eapply tab_passed_ext; eauto.
  - intros (H1 & tn & v & Hn & Hv & Hs). destruct (L _ _ Hn) as (tn' & Hn' & T). split; auto.
    exists tn', v. split; auto. split; [apply T; auto|auto].
Qed.

Record RInv (s : st) : Prop := {
  ri_len : forall t th, nth_error (threads s) t = Some th -> length (results th) = opi th;
  ri_res : forall t th i r b e, nth_error (threads s) t = Some th -> nth_error (results th) i = Some (r, b, e) ->
             exists o, nth_error (prog th) i = Some o /\ RES (tabs s) t i o r
}.

(* what a step does to the results of the stepping thread *)
Lemma step_res s t s' th : Inv s -> step hash s t = Some s' -> nth_error (threads s) t = Some th ->
  exists th', threads s' = set_nth t th' (threads s) /\ prog th' = prog th /\
    ((results th' = results th /\ opi th' = opi th) \/
     (exists o r b e, cur_op th = Some o /\ results th' = results th ++ [(r, b, e)] /\ opi th' = S (opi th) /\
                      RES (tabs s') t (opi th) o r)).
Proof.
  intros I. unfold step. intros H Ht. rewrite Ht in H. revert H.
  unfold step_thread. destruct (nth_error (prog th) (opi th)) as [o|] eqn:Ho; [|discriminate].
  pose proof (inv_thr _ I _ _ Ht) as TI. unfold TInv in TI.
  assert (TIs := inv_tab _ I).
  rewrite sel_checker_eq. fold (chk (okey o)).
  destruct (tpc th) as [|n j stp base|n j stp base g cs|n j stp base c|n idx pos|n idx pos|n idx pos|n idx pos|n|n] eqn:Hpc.
  - destruct (nth_error (tabs s) 0) as [t0|] eqn:H0; [|discriminate]. intros E; inversion E; subst s'; clear E.
    eexists. split; [reflexivity|]. split; [reflexivity|]. left. split; reflexivity.
  - destruct (nth_error (tabs s) n) as [tn|]; [|discriminate].
    destruct (cands (gload tn base) (chk (okey o))); intros E; inversion E; subst s'; clear E;
      (eexists; split; [reflexivity|]; split; [reflexivity|]; left; split; reflexivity).
  - destruct TI as (o' & tn & Ho' & AG & Hb & Hs & Hne & Hcs & Hall). same_op Ho Ho' o'.
    pose proof AG as (Hn & Hbase & Hstp & Hl). rewrite Hn. destruct cs as [|c rest]; [congruence|].
    rewrite sel_index_eq. fold (lidx tn (base + c)).
    destruct (cvals tn (lidx tn (base + c))) as [e|] eqn:Ev.
    + destruct (fst e =? okey o) eqn:Ek; intros E; inversion E; subst s'; clear E.
      * apply Z.eqb_eq in Ek. destruct e as [k0 v0]; simpl in Ek; subst k0.
        eexists. split; [reflexivity|]. split; [reflexivity|]. right.
        eexists o, _, _, _. split; [exact Ho|]. split; [reflexivity|]. split; [reflexivity|]. simpl tabs.
        destruct (is_find o) eqn:Ef; cbn -[nth_error]; rewrite Ef.
        -- split; auto. exists tn, v0. auto.
        -- split; auto. exists tn, v0. split; auto. split; auto. split; auto. split; [discriminate|].
           destruct (Hcs c (or_introl eq_refl)) as (Hc & Hg). exists j, c. split; auto. rewrite <- Hstp, <- Hbase.
           split; auto. split; auto. rewrite (Hs c Hc); auto. rewrite Hg. apply chk_rng.
      * eexists. split; [reflexivity|]. split; [reflexivity|]. left. split; reflexivity.
    + intros E; inversion E; subst s'; clear E. eexists. split; [reflexivity|]. split; [reflexivity|]. left. split; reflexivity.
  - destruct (nth_error (tabs s) n) as [tn|]; [|discriminate].
    destruct (_ =? cas_expected); [|destruct (cas_saw_dummy _)]; intros E; inversion E; subst s'; clear E;
      (eexists; split; [reflexivity|]; split; [reflexivity|]; left; split; reflexivity).
  - destruct (nth_error (tabs s) n) as [tn|]; [|discriminate]. destruct o; [|discriminate].
    intros E; inversion E; subst s'; clear E. eexists. split; [reflexivity|]. split; [reflexivity|]. left. split; reflexivity.
  - destruct (nth_error (tabs s) n) as [tn|]; [|discriminate].
    intros E; inversion E; subst s'; clear E. eexists. split; [reflexivity|]. split; [reflexivity|]. left. split; reflexivity.
  - destruct (nth_error (tabs s) n) as [tn|]; [|discriminate].
    intros E; inversion E; subst s'; clear E. eexists. split; [reflexivity|]. split; [reflexivity|]. left. split; reflexivity.
  - destruct TI as (k & v & tn & j & c & Ho' & (Hn & Hown & Hpos) & Hval & Hctl & Hcp). unfold cur_op in Ho'. rewrite Ho in Ho'.
    inversion Ho'; subst o; clear Ho'. rewrite Hn. simpl okey.
    intros E; inversion E; subst s'; clear E.
    eexists. split; [reflexivity|]. split; [reflexivity|]. right.
    eexists (OEmp k v), _, _, _. split; [exact Ho|]. split; [reflexivity|]. split; [reflexivity|]. cbn -[nth_error].
    split; auto. eexists _, v. split; [apply nth_error_set_nth_eq; eapply nth_len; eauto|]. cbn -[nth_error].
    split; auto. split; auto. split; [intros _; exists j, c; auto|].
    destruct (ti_own _ _ _ (TIs _ _ Hn) _ _ _ _ _ _ Hown) as (O1 & O2 & O3 & _).
    exists j, c. unfold lidx, pb, ps; cbn -[nth_error pseq]. fold (pb tn k j). fold (ps tn k j). fold (lidx tn (pb tn k j + c)).
    split; auto. split; auto. split; auto. rewrite <- Hpos. auto.
  - destruct TI as (o' & Ho' & Hlen & Hp). same_op Ho Ho' o'.
    destruct (negb (grow s)) eqn:Eg.
    + intros E; inversion E; subst s'; clear E. eexists. split; [reflexivity|]. split; [reflexivity|]. right.
      eexists o, _, _, _. split; [exact Ho|]. split; [reflexivity|]. split; [reflexivity|]. simpl tabs.
      destruct (is_find o) eqn:Ef; cbn -[nth_error]; rewrite Ef; auto. split; auto.
      destruct (nth_error (tabs s) 0) as [t0|] eqn:E0.
      * exists t0. split; auto. apply (Hp eq_refl 0%nat t0); auto. lia.
      * exfalso. pose proof (inv_ne _ I). destruct (tabs s); [congruence|discriminate].
    + destruct (nth_error (tabs s) (S n)) as [tnx|] eqn:Enx.
      * rewrite null_1. intros E; inversion E; subst s'; clear E.
        eexists. split; [reflexivity|]. split; [reflexivity|]. left. split; reflexivity.
      * rewrite null_0. destruct (is_find o) eqn:Ef; intros E; inversion E; subst s'; clear E.
        -- eexists. split; [reflexivity|]. split; [reflexivity|]. right.
           eexists o, _, _, _. split; [exact Ho|]. split; [reflexivity|]. split; [reflexivity|]. cbn -[nth_error]. exact Ef.
        -- eexists. split; [reflexivity|]. split; [reflexivity|]. left. split; reflexivity.
  - destruct (nth_error (tabs s) n) as [tn|] eqn:Hn; [|discriminate].
    destruct (nth_error (tabs s) (S n)) as [tnx|] eqn:Enx; intros E; inversion E; subst s'; clear E;
      (eexists; split; [reflexivity|]; split; [reflexivity|]; left; split; reflexivity).
Qed.

Lemma step_rinv s t s' : Inv s -> RInv s -> step hash s t = Some s' -> RInv s'.
Proof.
  intros I R H. destruct (step_inv _ _ _ I H) as (I' & L).
  pose proof H as H0. unfold step in H0. destruct (nth_error (threads s) t) as [th|] eqn:Ht; [|discriminate]. clear H0.
  destruct (step_res _ _ _ _ I H Ht) as (th' & Hthr & Hprog & Hcase).
  constructor.
  - intros t' x Hx. rewrite Hthr in Hx. destruct (nth_set_threads _ _ _ _ _ _ Ht Hx) as [(-> & ->)|(Hne & Hx')].
    + pose proof (ri_len _ R _ _ Ht) as E. destruct Hcase as [(-> & ->)|(o & r & b & e & _ & -> & -> & _)]; auto.
      rewrite app_length; simpl. lia.
    + apply (ri_len _ R _ _ Hx').
  - intros t' x i r b e Hx Hi. rewrite Hthr in Hx. destruct (nth_set_threads _ _ _ _ _ _ Ht Hx) as [(-> & ->)|(Hne & Hx')].
    + rewrite Hprog. destruct Hcase as [(Er & Eo)|(o & r0 & b0 & e0 & Hop & Er & Eo & HR)].
      * rewrite Er in Hi. destruct (ri_res _ R _ _ _ _ _ _ Ht Hi) as (o & Ho & HR). exists o. split; auto. eapply RES_ext; eauto.
      * rewrite Er in Hi. pose proof (ri_len _ R _ _ Ht) as El.
        destruct (Nat.lt_ge_cases i (length (results th))) as [Hlt|Hge].
        -- rewrite nth_error_app1 in Hi by auto. destruct (ri_res _ R _ _ _ _ _ _ Ht Hi) as (o1 & Ho1 & HR1).
           exists o1. split; auto. eapply RES_ext; eauto.
        -- rewrite nth_error_app2 in Hi by auto. destruct (i - length (results th))%nat eqn:Ed; simpl in Hi.
           ++ inversion Hi; subst r0 b0 e0. assert (i = opi th) by lia. subst i. exists o. split; auto.
           ++ destruct n; discriminate.
    + destruct (ri_res _ R _ _ _ _ _ _ Hx' Hi) as (o & Ho & HR). exists o. split; auto. eapply RES_ext; eauto.
Qed.

Lemma init_rinv cap g progs : RInv (init cap g progs).
Proof.
  constructor; simpl.
  - intros t th H. apply nth_error_In in H. apply in_map_iff in H. destruct H as (p & <- & _). reflexivity.
  - intros t th i r b e H Hi. apply nth_error_In in H. apply in_map_iff in H. destruct H as (p & <- & _).
    simpl in Hi. destruct i; discriminate.
Qed.

Lemma hc_rinv cap g progs s : Reach cap g progs s -> Inv s /\ RInv s.
Proof.
  apply (inv_reachable st (step hash) (fun s => Inv s /\ RInv s)).
  - split; [apply init_inv|apply init_rinv].
  - intros s0 t s1 (I & R) H. split; [apply (step_inv _ _ _ I H)|eapply step_rinv; eauto].
Qed.

(* the event of thread t for its i-th operation *)
Definition event (s : st) (t i : nat) (o : op) (r : res) : Prop :=
  exists th b e, nth_error (threads s) t = Some th /\ nth_error (prog th) i = Some o /\
                 nth_error (results th) i = Some (r, b, e).

Lemma event_res cap g progs s t i o r : Reach cap g progs s -> event s t i o r -> RES (tabs s) t i o r.
Proof.
  intros R (th & b & e & Ht & Ho & Hr). destruct (hc_rinv _ _ _ _ R) as (I & RI).
  destruct (ri_res _ RI _ _ _ _ _ _ Ht Hr) as (o' & Ho' & HR). congruence.
Qed.

(* --- at most one insertion per key reports success --- *)
Lemma hc_one_winner cap g progs s t1 i1 o1 n1 x1 s1 t2 i2 o2 n2 x2 s2 : Reach cap g progs s ->
  event s t1 i1 o1 (REmp n1 x1 true s1) -> event s t2 i2 o2 (REmp n2 x2 true s2) -> okey o1 = okey o2 ->
  t1 = t2 /\ i1 = i2.
Proof.
  intros R E1 E2 Hk. pose proof (hc_inv _ _ _ _ R) as I.
  destruct (event_res _ _ _ _ _ _ _ _ R E1) as (_ & tn1 & v1 & Hn1 & _ & _ & W1 & _).
  destruct (event_res _ _ _ _ _ _ _ _ R E2) as (_ & tn2 & v2 & Hn2 & _ & _ & W2 & _).
  destruct (W1 eq_refl) as (j1 & c1 & O1 & _). destruct (W2 eq_refl) as (j2 & c2 & O2 & _). rewrite Hk in O1.
  destruct (inv_uniq _ I _ _ _ _ _ _ _ _ _ _ _ _ _ _ _ Hn1 Hn2 O1 O2) as (-> & ->).
  rewrite Hn1 in Hn2. inversion Hn2; subst tn2. rewrite O1 in O2. inversion O2. auto.
Qed.

(* --- all insertions and lookups of a key return the same slot; it holds a fully constructed element of that key, and
       every one of them saw that same element (the winner's: its value is the winner's argument) --- *)
Definition slot_of (r : res) : option (nat * Z * option elem) :=
  match r with
  | REmp n i _ seen => Some (n, i, seen)
  | RFind (Some (n, i)) seen _ => Some (n, i, seen)
  | _ => None
  end.

Lemma res_slot tb t i o r n x seen : RES tb t i o r -> slot_of r = Some (n, x, seen) ->
  exists tn v, nth_error tb n = Some tn /\ cvals tn x = Some (okey o, v) /\ seen = Some (okey o, v).
Proof.
  destruct r as [n0 idx ins sn| |[[n0 idx]|] sn a]; cbn -[nth_error]; try discriminate.
  - intros (_ & tn & v & H1 & H2 & H3 & _) E. inversion E; subst. eauto.
  - intros (_ & tn & v & H1 & H2 & H3) E. inversion E; subst. eauto.
Qed.

Lemma hc_same_element cap g progs s t1 i1 o1 r1 n1 x1 s1 t2 i2 o2 r2 n2 x2 s2 : Reach cap g progs s ->
  event s t1 i1 o1 r1 -> event s t2 i2 o2 r2 -> okey o1 = okey o2 ->
  slot_of r1 = Some (n1, x1, s1) -> slot_of r2 = Some (n2, x2, s2) ->
  n1 = n2 /\ x1 = x2 /\ s1 = s2 /\ exists v, s1 = Some (okey o1, v).
Proof.
  intros R E1 E2 Hk S1 S2.
  destruct (res_slot _ _ _ _ _ _ _ _ (event_res _ _ _ _ _ _ _ _ R E1) S1) as (tn1 & v1 & Hn1 & V1 & Q1).
  destruct (res_slot _ _ _ _ _ _ _ _ (event_res _ _ _ _ _ _ _ _ R E2) S2) as (tn2 & v2 & Hn2 & V2 & Q2).
  rewrite <- Hk in V2, Q2.
  destruct (hc_key_one_slot _ _ _ _ _ _ _ _ _ _ _ _ _ R Hn1 Hn2 V1 V2) as (-> & ->).
  rewrite Hn1 in Hn2. inversion Hn2; subst tn2. rewrite V1 in V2. inversion V2; subst v2.
  split; auto. split; auto. split; [congruence|eauto].
Qed.

Lemma hc_winner_value cap g progs s t i k v n x seen : Reach cap g progs s ->
  event s t i (OEmp k v) (REmp n x true seen) -> seen = Some (k, v).
Proof.
  intros R E. destruct (event_res _ _ _ _ _ _ _ _ R E) as (_ & tn & v0 & _ & _ & Q & W & _).
  destruct (W eq_refl) as (j & c & _ & Eo). simpl in Eo, Q. congruence.
Qed.

(* --- an insertion that fails (fixed table) found every byte of every group of its probe sequence a tag of another key:
       the table is full for that key; and it is an insertion on a non-growing table --- *)
Lemma hc_full_fails cap g progs s t i o : Reach cap g progs s -> event s t i o RFull ->
  is_find o = false /\ exists t0, nth_error (tabs s) 0 = Some t0 /\ tab_passed t0 (okey o).
Proof. intros R E. exact (event_res _ _ _ _ _ _ _ _ R E). Qed.

(* --- once an insertion of k has returned (winner or not), in every later state - whatever the schedule - the byte at
       a position of k's own probe sequence that addresses the returned slot still carries k's tag, the slot still holds
       the same element, and (hc_key_position) every position k's probe examines before its slot is a tag of a
       constructed element of another key: a later lookup finds no free byte to stop at and no reason to skip it --- *)
Lemma hc_insert_stays_visible cap g progs s sch t i o n x ins seen : Reach cap g progs s ->
  event s t i o (REmp n x ins seen) ->
  exists tn' v j c, nth_error (tabs (Machine.run st (step hash) s sch)) n = Some tn' /\
    seen = Some (okey o, v) /\ cvals tn' x = Some (okey o, v) /\ In c offsets /\
    emp_loop_cond (ps tn' (okey o) j) (cmask tn') = true /\ Z.land (pb tn' (okey o) j + c) (cmask tn') = x /\
    cctrl tn' (pb tn' (okey o) j + c) = emp_checker (hash (okey o)).
Proof.
  intros R E. pose proof (hc_inv _ _ _ _ R) as I. destruct (run_ext sch s I) as (_ & L).
  pose proof (RES_ext _ _ _ _ _ _ L (event_res _ _ _ _ _ _ _ _ R E)) as (_ & tn' & v & Hn & Hv & Hs & _ & (j & c & P1 & P2 & P3 & P4)).
  exists tn', v, j, c. auto 10.
Qed.

(* ================= statements proved in HC/HCLin.v (hc_exactly_one_winner, hc_find_after_insert) and below
   (hc_full_no_consume) ================= *)
Definition event_st (s : st) (t i : nat) (o : op) (r : res) (b e : nat) : Prop :=
  exists th, nth_error (threads s) t = Some th /\ nth_error (prog th) i = Some o /\
             nth_error (results th) i = Some (r, b, e).

(* in a finished run, a key that some insertion returned a slot for has exactly one successful insertion *)
Definition exactly_one_winner_stmt : Prop := forall cap g progs s t i o r n x sn,
  Reach cap g progs s -> all_done s = true -> event s t i o r -> is_find o = false -> slot_of r = Some (n, x, sn) ->
  exists t' i' o' sn', event s t' i' o' (REmp n x true sn') /\ okey o' = okey o.

(* a lookup that begins after an insertion of its key has returned finds the key *)
Definition find_after_insert_stmt : Prop := forall cap g progs s t i o r b e t' i' o' r' b' e' n x sn,
  Reach cap g progs s -> event_st s t i o r b e -> is_find o = false -> slot_of r = Some (n, x, sn) ->
  event_st s t' i' o' r' b' e' -> is_find o' = true -> okey o' = okey o -> (e < b')%nat ->
  exists sn', slot_of r' = Some (n, x, sn').

(* a failed insertion never constructed anything from its arguments *)
Definition full_no_consume_stmt : Prop := forall cap g progs s t i o,
  Reach cap g progs s -> event s t i o RFull -> ~ In (t, i) (consumed s).

End Proofs.



(* ================= arguments are consumed only by insertions that succeed ================= *)
Section Consume.
Variable hash : Z -> Z.

Definition constructing (p : pc) : bool := match p with PCons _ _ _ => true | _ => false end.
Definition publishing (p : pc) : bool :=
  match p with PStore1 _ _ _ | PStore2 _ _ _ | PSize _ _ _ => true | _ => false end.

Lemma after_match_np isf tb n j stp base g : publishing (after_match isf tb n j stp base g) = false.
Proof. unfold after_match. destruct (first_empty_g g); [destruct isf|destruct (sel_loop_cond _ _ _)]; reflexivity. Qed.

(* what a step does to the ghost list `consumed` and to the publishing phase of the stepping thread *)
Lemma step_cons s t s' th : step hash s t = Some s' -> nth_error (threads s) t = Some th ->
  exists th', threads s' = set_nth t th' (threads s) /\ (exists l, results th' = results th ++ l) /\
    ((constructing (tpc th) = false /\ consumed s' = consumed s /\
      ((publishing (tpc th) = false /\ publishing (tpc th') = false) \/
       (opi th' = opi th /\ publishing (tpc th') = true) \/
       (exists n x sn b e, results th' = results th ++ [(REmp n x true sn, b, e)]))) \/
     (constructing (tpc th) = true /\ consumed s' = (t, opi th) :: consumed s /\ opi th' = opi th /\
      publishing (tpc th') = true)).
Proof.
  unfold step. intros H Ht. rewrite Ht in H. revert H.
  unfold step_thread. destruct (nth_error (prog th) (opi th)) as [o|] eqn:Ho; [|discriminate].
  destruct (tpc th) as [|n j stp base|n j stp base g cs|n j stp base c|n idx pos|n idx pos|n idx pos|n idx pos|n|n] eqn:Hpc.
  - destruct (nth_error (tabs s) 0); [|discriminate]. intros E; inversion E; subst s'; clear E.
    eexists. split; [reflexivity|]. split; [exists []; simpl; rewrite app_nil_r; reflexivity|]. left. repeat split. left. split; reflexivity.
  - destruct (nth_error (tabs s) n) as [tn|]; [|discriminate].
    destruct (cands _ _) as [|c0 cs0]; intros E; inversion E; subst s'; clear E;
      (eexists; split; [reflexivity|]; split; [exists []; simpl; rewrite app_nil_r; reflexivity|]; left; repeat split; left; split;
       [reflexivity|simpl; try apply after_match_np; reflexivity]).
  - destruct (nth_error (tabs s) n) as [tn|]; [|discriminate]. destruct cs as [|c rest]; [discriminate|].
    destruct (cvals tn _) as [e|]; [destruct (fst e =? okey o)|]; intros E; inversion E; subst s'; clear E.
    + eexists. split; [reflexivity|]. split; [eexists; reflexivity|]. left. repeat split. left. split; reflexivity.
    + eexists. split; [reflexivity|]. split; [exists []; simpl; rewrite app_nil_r; reflexivity|]. left. repeat split. left.
      split; [reflexivity|]. simpl. destruct rest; [apply after_match_np|reflexivity].
    + eexists. split; [reflexivity|]. split; [exists []; simpl; rewrite app_nil_r; reflexivity|]. left. repeat split. left.
      split; [reflexivity|]. simpl. destruct rest; [apply after_match_np|reflexivity].
  - destruct (nth_error (tabs s) n) as [tn|]; [|discriminate].
    destruct (_ =? cas_expected); [|destruct (cas_saw_dummy _)]; intros E; inversion E; subst s'; clear E;
      (eexists; split; [reflexivity|]; split; [exists []; simpl; rewrite app_nil_r; reflexivity|]; left; repeat split; left; split; reflexivity).
  - destruct (nth_error (tabs s) n) as [tn|]; [|discriminate]. destruct o; [|discriminate].
    intros E; inversion E; subst s'; clear E. eexists. split; [reflexivity|].
    split; [exists []; simpl; rewrite app_nil_r; reflexivity|]. right. repeat split.
  - destruct (nth_error (tabs s) n) as [tn|]; [|discriminate].
    intros E; inversion E; subst s'; clear E. eexists. split; [reflexivity|].
    split; [exists []; simpl; rewrite app_nil_r; reflexivity|]. left. repeat split. right. left. split; reflexivity.
  - destruct (nth_error (tabs s) n) as [tn|]; [|discriminate].
    intros E; inversion E; subst s'; clear E. eexists. split; [reflexivity|].
    split; [exists []; simpl; rewrite app_nil_r; reflexivity|]. left. repeat split. right. left. split; reflexivity.
  - destruct (nth_error (tabs s) n) as [tn|]; [|discriminate].
    intros E; inversion E; subst s'; clear E. eexists. split; [reflexivity|].
    split; [eexists; reflexivity|]. left. repeat split. right. right. eexists _, _, _, _, _. reflexivity.
  - destruct (negb (grow s)).
    + intros E; inversion E; subst s'; clear E. eexists. split; [reflexivity|]. split; [eexists; reflexivity|].
      left. repeat split. left. split; reflexivity.
    + destruct (nth_error (tabs s) (S n)).
      * destruct (next_is_null 1); [discriminate|]. intros E; inversion E; subst s'; clear E.
        eexists. split; [reflexivity|]. split; [exists []; simpl; rewrite app_nil_r; reflexivity|]. left. repeat split. left. split; reflexivity.
      * destruct (next_is_null 0); [|discriminate]. destruct (is_find o); intros E; inversion E; subst s'; clear E.
        -- eexists. split; [reflexivity|]. split; [eexists; reflexivity|]. left. repeat split. left. split; reflexivity.
        -- eexists. split; [reflexivity|]. split; [exists []; simpl; rewrite app_nil_r; reflexivity|]. left. repeat split. left. split; reflexivity.
  - destruct (nth_error (tabs s) n) as [tn|]; [|discriminate].
    destruct (nth_error (tabs s) (S n)); intros E; inversion E; subst s'; clear E;
      (eexists; split; [reflexivity|]; split; [exists []; simpl; rewrite app_nil_r; reflexivity|]; left; repeat split; left; split; reflexivity).
Qed.

(* every consumed argument belongs to an insertion that has succeeded or is publishing its element *)
Definition CInv (s : st) : Prop := forall t i, In (t, i) (consumed s) ->
  exists th, nth_error (threads s) t = Some th /\
    ((i = opi th /\ publishing (tpc th) = true) \/
     (exists n x sn b e, nth_error (results th) i = Some (REmp n x true sn, b, e))).

Lemma step_cinv s t s' : RInv hash s -> CInv s -> step hash s t = Some s' -> CInv s'.
Proof.
  intros R C H. pose proof H as H0. unfold step in H0. destruct (nth_error (threads s) t) as [th|] eqn:Ht; [|discriminate]. clear H0.
  destruct (step_cons _ _ _ _ H Ht) as (th' & Hthr & (l & Hl) & Hc).
  pose proof (ri_len _ _ R _ _ Ht) as Hlen.
  assert (Hnew : nth_error (threads s') t = Some th').
  { rewrite Hthr. apply nth_error_set_nth_eq. eapply nth_len; eauto. }
  assert (Hold : forall i, In (t, i) (consumed s) ->
            (i = opi th /\ publishing (tpc th) = true) \/
            (exists n x sn b e, nth_error (results th') i = Some (REmp n x true sn, b, e))).
  { intros i Hin. destruct (C _ _ Hin) as (x & Hx & Hd). rewrite Ht in Hx. inversion Hx; subst x.
    destruct Hd as [?|(n & y & sn & b & e & Hr)]; auto. right. exists n, y, sn, b, e.
    rewrite Hl, nth_error_app1; auto. apply nth_error_Some. congruence. }
  intros t' i Hin.
  assert (Hother : t' <> t -> In (t', i) (consumed s) -> exists x, nth_error (threads s') t' = Some x /\
            ((i = opi x /\ publishing (tpc x) = true) \/ (exists n y sn b e, nth_error (results x) i = Some (REmp n y true sn, b, e)))).
  { intros Hne Hin0. destruct (C _ _ Hin0) as (x & Hx & Hd). exists x. split; auto. rewrite Hthr, nth_error_set_nth_ne; auto. }
  destruct Hc as [(C0 & Ec & Hd)|(C1 & Ec & Eo & P1)].
  - rewrite Ec in Hin. destruct (Nat.eq_dec t' t) as [->|Hne]; [|apply Hother; auto].
    exists th'. split; auto. destruct (Hold _ Hin) as [(Ei & Hp)|Hr]; [|auto].
    destruct Hd as [(P0 & _)|[(Eo & P1)|(n & x & sn & b & e & Er)]].
    + congruence.
    + left. split; congruence.
    + right. exists n, x, sn, b, e. rewrite Er, nth_error_app2 by lia. replace (i - length (results th))%nat with 0%nat by lia. reflexivity.
  - rewrite Ec in Hin. destruct Hin as [E|Hin].
    + inversion E; subst t' i. exists th'. split; auto.
    + destruct (Nat.eq_dec t' t) as [->|Hne]; [|apply Hother; auto].
      exists th'. split; auto. destruct (Hold _ Hin) as [(Ei & Hp)|Hr]; [|auto].
      destruct (tpc th); simpl in *; discriminate.
Qed.

Lemma hc_cinv cap g progs s : Reach hash cap g progs s -> CInv s.
Proof.
  intros R. assert (G : (Inv hash s /\ RInv hash s) /\ CInv s); [|apply G].
  revert s R. apply (inv_reachable st (step hash) (fun s => (Inv hash s /\ RInv hash s) /\ CInv s)).
  - split; [split; [apply init_inv|apply init_rinv]|]. intros t i [].
  - intros s0 t s1 ((I & R) & C) H. split; [split; [apply (step_inv _ _ _ _ I H)|eapply step_rinv; eauto]|eapply step_cinv; eauto].
Qed.

(* --- an insertion that failed never constructed anything from its arguments --- *)
Lemma hc_full_no_consume : full_no_consume_stmt hash.
Proof.
  intros cap g progs s t i o R (th & b & e & Ht & Ho & Hr) Hin.
  destruct (hc_cinv _ _ _ _ R _ _ Hin) as (x & Hx & Hd). rewrite Ht in Hx. inversion Hx; subst x.
  destruct (hc_rinv _ _ _ _ _ R) as (_ & RI). pose proof (ri_len _ _ RI _ _ Ht) as Hlen.
  destruct Hd as [(Ei & _)|(n & y & sn & b0 & e0 & Hr2)].
  - assert (i < length (results th))%nat by (apply nth_error_Some; congruence). lia.
  - congruence.
Qed.
End Consume.

Lemma hc_full_fails_clean hash cap g progs s t i o : Reach hash cap g progs s -> event s t i o RFull ->
  ~ In (t, i) (consumed s) /\ is_find o = false /\
  exists t0, nth_error (tabs s) 0 = Some t0 /\ tab_passed hash t0 (okey o).
Proof.
  intros R E. split; [exact (hc_full_no_consume hash cap g progs s t i o R E)|exact (hc_full_fails hash cap g progs s t i o R E)].
Qed.

(* ================= non-vacuity ================= *)
Lemma reach_run hash cap g progs sch : Reach hash cap g progs (Machine.run st (step hash) (init cap g progs) sch).
Proof. exists sch. reflexivity. Qed.

Definition ex_progs : list (list op) := [[OEmp 1 10]; [OEmp 1 20; OFind 1]; [OFind 1]].
Definition ex_sched : list nat := [0;0;0;0; 2;2;2; 0;0;0;0; 1;1;1; 1;1;1]%nat.
Definition ex_state : st := Machine.run st (step (fun k => k)) (init (Some 16) true ex_progs) ex_sched.

Lemma hc_example_reach : Reach (fun k => k) (Some 16) true ex_progs ex_state.
Proof. apply reach_run. Qed.

(* a winner, a loser that gets the winner's element, a lookup after the insertion, a concurrent lookup that misses *)
Lemma hc_example_events :
  all_done ex_state = true /\
  map (fun th => map (fun x => fst (fst x)) (results th)) (threads ex_state) =
  [[REmp 0 0 true (Some (1, 10))];
   [REmp 0 0 false (Some (1, 10)); RFind (Some (0%nat, 0)) (Some (1, 10)) true];
   [RFind None None false]].
Proof. split; vm_compute; reflexivity. Qed.

(* a full fixed table: 16 insertions of colliding keys (same hash, same tag) fill it, the 17th fails *)
Definition ex_full_progs : list (list op) := [map (fun k => OEmp k k) (zrange 17)].
Definition ex_full_state : st :=
  Machine.run st (step (fun _ => 5)) (init (Some 16) false ex_full_progs) (repeat 0%nat 600).
Lemma hc_example_full_reach : Reach (fun _ => 5) (Some 16) false ex_full_progs ex_full_state.
Proof. apply reach_run. Qed.
Lemma hc_example_full :
  map (fun th => nth_error (map (fun x => fst (fst x)) (results th)) 16) (threads ex_full_state) = [Some RFull].
Proof. vm_compute. reflexivity. Qed.
