(* The publication theorems of HC/HCLitmus.v instantiated with the memory orders found in the source (regenerated site
   tables): every execution of the release/acquire machine.  A weakened order in the source breaks exactly these. *)
From Coq Require Import ZArith List Bool.
Require Import Verif.Base.Atomics Verif.WM.RA Verif.WM.RAProofs Verif.WM.RALitmus Verif.WM.RALitmusProofs
               Verif.Gen.Gen_hash_table_conc Verif.HC.HCLitmus.
Import ListNotations.
Local Open Scope Z_scope.

(* ---- tag publication: every execution of the release/acquire machine ---- *)
Theorem hc_tag_publication_find : forall sch,
  final (run (init (mp_store_fence tag_store_order find_fence_order)) sch) = true ->
  mp_bad (result (run (init (mp_store_fence tag_store_order find_fence_order)) sch)) = false.
Proof. apply mp_store_fence_all_executions. vm_compute. reflexivity. Qed.
Theorem hc_mirror_publication_find : forall sch,
  final (run (init (mp_store_fence mirror_store_order find_fence_order)) sch) = true ->
  mp_bad (result (run (init (mp_store_fence mirror_store_order find_fence_order)) sch)) = false.
Proof. apply mp_store_fence_all_executions. vm_compute. reflexivity. Qed.
Theorem hc_tag_publication_emplace : forall sch,
  final (run (init (mp_store_fence tag_store_order emplace_fence_order)) sch) = true ->
  mp_bad (result (run (init (mp_store_fence tag_store_order emplace_fence_order)) sch)) = false.
Proof. apply mp_store_fence_all_executions. vm_compute. reflexivity. Qed.
Theorem hc_mirror_publication_emplace : forall sch,
  final (run (init (mp_store_fence mirror_store_order emplace_fence_order)) sch) = true ->
  mp_bad (result (run (init (mp_store_fence mirror_store_order emplace_fence_order)) sch)) = false.
Proof. apply mp_store_fence_all_executions. vm_compute. reflexivity. Qed.

(* spelled out: a reader whose group load saw the tag reads the constructed element and nobody raced *)
Corollary hc_tag_publication_spelled : forall sch,
  let s := run (init (mp_store_fence tag_store_order find_fence_order)) sch in
  final s = true -> oreg (result s) 1 0 = 1 -> oracy (result s) = false /\ oreg (result s) 1 1 = 42.
Proof.
  intros sch s Hf Hflag. pose proof (hc_tag_publication_find sch Hf) as B. fold s in B.
  unfold mp_bad, saw_bad in B. rewrite Hflag in B. rewrite Z.eqb_refl in B. cbn [andb] in B.
  apply orb_false_elim in B. destruct B as [Br Bv]. split; [exact Br|].
  apply negb_false_iff in Bv. apply Z.eqb_eq in Bv. exact Bv.
Qed.

(* ---- chained-table publication ---- *)
Theorem hc_next_publication_find_head : forall sch,
  final (run (init (mp_cas_publish next_cas_order next_load_find_head_order)) sch) = true ->
  mp_cas_bad (result (run (init (mp_cas_publish next_cas_order next_load_find_head_order)) sch)) = false.
Proof. apply mp_cas_publish_all_executions. vm_compute. reflexivity. Qed.
Theorem hc_next_publication_find_node : forall sch,
  final (run (init (mp_cas_publish next_cas_order next_load_find_node_order)) sch) = true ->
  mp_cas_bad (result (run (init (mp_cas_publish next_cas_order next_load_find_node_order)) sch)) = false.
Proof. apply mp_cas_publish_all_executions. vm_compute. reflexivity. Qed.
Theorem hc_next_publication_emplace : forall sch,
  final (run (init (mp_cas_publish next_cas_order next_load_emplace_order)) sch) = true ->
  mp_cas_bad (result (run (init (mp_cas_publish next_cas_order next_load_emplace_order)) sch)) = false.
Proof. apply mp_cas_publish_all_executions. vm_compute. reflexivity. Qed.
(* the loser of the CAS continues in the winner's table: the failing CAS must acquire (the machine's CAS has one
   order: the source's success order, and the source's failure order must itself be an acquire) *)
Theorem hc_next_cas_loser : has_acquire next_cas_fail_order = true /\ forall sch,
  final (run (init (mp_cas_loser next_cas_order)) sch) = true ->
  mp_loser_bad (result (run (init (mp_cas_loser next_cas_order)) sch)) = false.
Proof. split; [vm_compute; reflexivity|]. apply mp_cas_loser_all_executions. vm_compute. reflexivity. Qed.

