
val negb : bool -> bool

type nat =
| O
| S of nat

val fst : ('a1 * 'a2) -> 'a1

val length : 'a1 list -> nat

val app : 'a1 list -> 'a1 list -> 'a1 list

type comparison =
| Eq
| Lt
| Gt

val compOpp : comparison -> comparison

val add : nat -> nat -> nat

type positive =
| XI of positive
| XO of positive
| XH

type n =
| N0
| Npos of positive

type z =
| Z0
| Zpos of positive
| Zneg of positive

val eqb : bool -> bool -> bool

module Nat :
 sig
  val add : nat -> nat -> nat

  val mul : nat -> nat -> nat

  val eqb : nat -> nat -> bool

  val leb : nat -> nat -> bool

  val ltb : nat -> nat -> bool

  val pow : nat -> nat -> nat
 end

module Pos :
 sig
  val succ : positive -> positive

  val add : positive -> positive -> positive

  val add_carry : positive -> positive -> positive

  val pred_double : positive -> positive

  val pred_N : positive -> n

  val mul : positive -> positive -> positive

  val iter : ('a1 -> 'a1) -> 'a1 -> positive -> 'a1

  val div2 : positive -> positive

  val div2_up : positive -> positive

  val compare_cont : comparison -> positive -> positive -> comparison

  val compare : positive -> positive -> comparison

  val eqb : positive -> positive -> bool

  val coq_Nsucc_double : n -> n

  val coq_Ndouble : n -> n

  val coq_lor : positive -> positive -> positive

  val coq_land : positive -> positive -> n

  val ldiff : positive -> positive -> n

  val testbit : positive -> n -> bool

  val iter_op : ('a1 -> 'a1 -> 'a1) -> positive -> 'a1 -> 'a1

  val to_nat : positive -> nat

  val of_succ_nat : nat -> positive
 end

module N :
 sig
  val succ_pos : n -> positive

  val coq_lor : n -> n -> n

  val ldiff : n -> n -> n

  val testbit : n -> n -> bool
 end

module Z :
 sig
  val double : z -> z

  val succ_double : z -> z

  val pred_double : z -> z

  val pos_sub : positive -> positive -> z

  val add : z -> z -> z

  val opp : z -> z

  val pred : z -> z

  val sub : z -> z -> z

  val mul : z -> z -> z

  val pow_pos : z -> positive -> z

  val pow : z -> z -> z

  val compare : z -> z -> comparison

  val leb : z -> z -> bool

  val ltb : z -> z -> bool

  val eqb : z -> z -> bool

  val to_nat : z -> nat

  val of_nat : nat -> z

  val of_N : n -> z

  val pos_div_eucl : positive -> z -> z * z

  val div_eucl : z -> z -> z * z

  val modulo : z -> z -> z

  val odd : z -> bool

  val div2 : z -> z

  val testbit : z -> z -> bool

  val shiftl : z -> z -> z

  val shiftr : z -> z -> z

  val coq_land : z -> z -> z

  val lnot : z -> z
 end

val nth : nat -> 'a1 list -> 'a1 -> 'a1

val nth_error : 'a1 list -> nat -> 'a1 option

val concat : 'a1 list list -> 'a1 list

val map : ('a1 -> 'a2) -> 'a1 list -> 'a2 list

val existsb : ('a1 -> bool) -> 'a1 list -> bool

val forallb : ('a1 -> bool) -> 'a1 list -> bool

val filter : ('a1 -> bool) -> 'a1 list -> 'a1 list

val firstn : nat -> 'a1 list -> 'a1 list

val skipn : nat -> 'a1 list -> 'a1 list

val repeat : 'a1 -> nat -> 'a1 list

val push_ver : z -> z -> z

val pop_ver : z -> z -> z

val slot_index : z -> z -> z

val slot_index_try : z -> z -> z

val slot_index_n : z -> z -> z

val slot_index_tryn : z -> z -> z

val slot_index_until : z -> z -> z

val push_n_round : z -> z -> z

val push_n_fits : z -> z -> z -> bool

val push_n_first : z -> z -> z -> z

val push_n_second : z -> z -> z -> z

val pop_n_round : z -> z -> z

val pop_n_fits : z -> z -> z -> bool

val pop_n_first : z -> z -> z -> z

val pop_n_second : z -> z -> z -> z

val try_push_n_end : z -> z -> z

val try_push_n_round : z -> z -> z

val try_push_n_fits : z -> z -> bool

val try_push_n_whole : z -> z -> z

val try_push_n_first : z -> z -> z

val try_push_n_short : z -> z -> bool

val try_push_n_second : z -> z -> z

val try_pop_n_end : z -> z -> z

val try_pop_n_round : z -> z -> z

val try_pop_n_fits : z -> z -> bool

val try_pop_n_whole : z -> z -> z

val try_pop_n_first : z -> z -> z

val try_pop_n_short : z -> z -> bool

val try_pop_n_second : z -> z -> z

val until_index : z -> z -> z

val until_try_num : z -> z

val fw_push_default_value : z

val fw_push_default_cb : z

val fw_push_value : z -> z -> z -> z

val fw_push_core : z -> z -> z

val fw_try_push_value : z -> z -> z

val fw_try_push_core : z -> z -> z

val fw_push_n_default_it : z

val fw_push_n_default_cb : z

val fw_push_n_it : z -> z -> z -> z

val fw_push_n_core_whole : z -> z -> z

val fw_push_n_core_first : z -> z -> z

val fw_push_n_core_second : z -> z -> z

val fw_try_push_n_core_whole : z -> z -> z

val fw_try_push_n_core_first : z -> z -> z

val fw_try_push_n_core_second : z -> z -> z

val fw_pop_default_ref : z

val fw_pop_default_cb : z

val fw_pop_ptr : z -> z -> z -> z

val fw_pop_ref : z -> z -> z -> z

val fw_pop_core : z -> z -> z

val fw_pop_default_ptr : z

val fw_try_pop_default_ref : z

val fw_try_pop_default_cb : z

val fw_try_pop_ref : z -> z -> z

val fw_try_pop_core : z -> z -> z

val fw_pop_n_default_it : z

val fw_pop_n_default_cb : z

val fw_pop_n_it : z -> z -> z -> z

val fw_pop_n_core_whole : z -> z -> z

val fw_pop_n_core_first : z -> z -> z

val fw_pop_n_core_second : z -> z -> z

val fw_try_pop_n_core_whole : z -> z -> z

val fw_try_pop_n_core_first : z -> z -> z

val fw_try_pop_n_core_second : z -> z -> z

val fw_until_core : z -> z

val wait_ready : z -> z -> bool

val block_no_waiter : z -> bool

val block_wait_word : z -> z

val block_cas_ready : z -> z -> bool

val block_reload_ready : z -> z -> bool

val block_elapsed : z -> z -> z

val block_expired : z -> bool

val spin_ready : z -> z -> bool

val wakeup_no_waiter : z -> bool

val wakeup_moved_on : z -> z -> bool

val xchg_no_waiter : z -> bool

val deal_next_version : z -> z

val deal_next_version_nowake : z -> z

val try_deal_not_ready : z -> z -> bool

val try_deal_same_index : z -> z -> bool

val try_deal_next_index : z -> z

val try_deal_next_version : z -> z

val try_deal_next_version_nowake : z -> z

val deal_n_next_version : z -> z

val deal_n_wake_version : z -> z

val try_deal_n_not_ready : z -> z -> bool

val try_deal_n_none : z -> bool

val try_deal_n_next_index : z -> z -> z

val try_deal_n_next_index_excl : z -> z -> z

val try_deal_n_next_version : z -> z

val try_deal_n_wake_version : z -> z

type flags = { conc : bool; fwait : bool; fwake : bool }

type op =
| OPush of flags * z
| OPop of flags
| OTryPush of flags * z
| OTryPop of flags
| OPushN of flags * z list
| OPopN of flags * nat
| OTryPushN of flags * z list
| OTryPopN of flags * nat
| OPopUntil of flags * nat * z

type kind =
| KSingle
| KBatch
| KTry
| KTryN
| KUntil

val okind : op -> kind

val is_push : op -> bool

val oflags : op -> flags

val ovals : op -> z list

val onum : op -> nat

val oconc : op -> bool

val ofwait : op -> bool

val is_single : op -> bool

val is_timed : op -> bool

type res = { r_cnt : nat; r_vals : z list; r_tks : (z * nat) list;
             r_full : bool; r_over : bool }

type pc =
| Idle
| TkStore of z
| WLoad of nat
| WCas of nat * z
| WFutex of nat * z
| WParked of nat * nat
| WReload of nat
| WSleep of nat
| WSpin of nat
| FenceA
| Callback
| FenceR
| Pub of nat
| PubWake of nat
| FenceSC
| WkLoad of nat
| WkCas of nat * z
| WkWake of nat * nat
| TryVer of z
| TryReidx of z
| TryCas of z
| TnVer of nat
| TnCas
| TnIdx

type loc = { seg_i : z; seg_n : nat; seg_req : nat; rest : (z * nat) option;
             vals : z list; got : z list; cnt : nat; tks : (z * nat) list;
             jfull : bool; jover : bool; uidx : z; tbegin : z; trem : 
             z; dl : z }

val loc0 : loc

type thread = { prog : op list; opi : nat; tpc : pc; results : res list;
                lc : loc }

type slot = { ver : z; wf : bool; pay : z option; own : nat option }

val slot0 : slot

type st = { kbits : nat; npush : z; npop : z; slots : slot list;
            threads : thread list; clock : z; pushed : (z * z) list;
            delivered : (z * z) list; err : bool }

val threads : st -> thread list

val clock : st -> z

val pushed : st -> (z * z) list

val delivered : st -> (z * z) list

val err : st -> bool

val capacity : st -> z

val mask : st -> z

val mk_thread : op list -> thread

val init : nat -> op list list -> st

val set_nth : nat -> 'a1 -> 'a1 list -> 'a1 list

val with_threads : st -> thread list -> st

val with_slots : st -> slot list -> st

val with_next : st -> bool -> z -> st

val with_ghost : st -> slot list -> (z * z) list -> (z * z) list -> bool -> st

val upd : st -> nat -> thread -> st

val next_of : st -> bool -> z

val goto : thread -> pc -> thread

val goto_lc : thread -> pc -> loc -> thread

val finish_op : thread -> res -> thread

val get_slot : st -> nat -> slot

val set_slot : st -> nat -> slot -> st

val word16 : z -> bool -> z

val slot_word : slot -> z

val kb : st -> z

val ever : st -> bool -> z -> z

val slot_z : kind -> z -> z -> z

val next_ver : kind -> bool -> z -> z

val wake_ver : kind -> z -> z

val split : op -> z -> z -> z -> (z * nat) * (z * nat) option

val try_short : op -> nat -> nat -> bool

val seg_slot : st -> op -> loc -> nat -> nat

val seg_ever : st -> op -> loc -> z

val wait_target : st -> op -> loc -> nat -> nat * z

val ins : (z * z) -> (z * z) list -> (z * z) list

val is_some : 'a1 option -> bool

val cb_push :
  nat -> slot list -> nat -> z -> z list -> (z * z) list -> bool -> (slot
  list * (z * z) list) * bool

val cb_pop :
  nat -> slot list -> nat -> z -> nat -> (z * z) list -> z list -> bool ->
  ((slot list * (z * z) list) * z list) * bool

val wake_thread : nat -> thread -> thread

val wake_all : st -> nat -> st

val mk_res : loc -> nat -> res

val set_seg : loc -> z -> nat -> (z * nat) option -> loc

val add_tk : loc -> loc

val set_n : loc -> nat -> loc

val set_just : loc -> bool -> bool -> loc

val set_io : loc -> z list -> z list -> loc

val set_time : loc -> z -> z -> z -> z -> loc

val add_cnt : loc -> loc

val after_wait : op -> loc -> nat -> pc

val first_wait : op -> loc -> pc

val slow_path : op -> nat -> z -> bool -> pc

val end_segment : st -> nat -> thread -> op -> st

val end_segment_zero : st -> nat -> thread -> op -> st

val after_pubs : st -> nat -> thread -> op -> st

val next_wk : st -> nat -> thread -> op -> nat -> st

val got_ticket : st -> nat -> thread -> op -> z -> st

val step_thread : st -> nat -> thread -> op -> st option

val step : st -> nat -> st option

val spin_idle : st -> nat -> bool

val thread_done : thread -> bool

val all_done : st -> bool

val timed_parked : thread -> bool

val has_timed_parked : st -> bool

val outcome : st -> res list list

val all_ops : op list list -> op list

val side_ops : bool -> op list -> op list

val threads_on_side : bool -> op list list -> nat

val excl_ok : bool -> op list list -> bool

val wake_ok : bool -> op list list -> bool

val size_ok : nat -> op list list -> bool

val usage_ok : nat -> op list list -> bool

type entry =
| EnCb
| EnVal
| EnPtr
| EnIt
| EnDefCb
| EnDefVal
| EnDefPtr
| EnDefIt

type call = { c_entry : entry; c_op : op }

val bz : bool -> z

val f3 : z -> flags

val f2 : z -> flags -> flags

val via3 : (z -> z -> z -> z) -> flags -> flags

val via2 : (z -> z -> z) -> flags -> flags

val core_wk : (z -> z -> z) -> flags -> flags

val core_ck : (z -> z -> z) -> flags -> flags

val until_flags : flags -> flags

val lower_flags : op -> entry -> flags option

val with_flags : op -> flags -> op

val lower : call -> op

val lower_progs : call list list -> op list list

val declared : call list list -> op list list

val eqf : flags -> flags -> bool

val fdefault : flags

val entry_ok : call -> bool

val calls_ok : call list list -> bool

val all2 : (z -> z -> bool) -> bool

val same2 : (z -> z -> z) -> (z -> z -> z) -> bool

val role2 : (z -> z -> z) -> bool -> bool

val cores_ok : bool
