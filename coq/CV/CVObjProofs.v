(* Proofs about CV/CVObjModel.v: whole-object operations of ConcurrentVector (move construction / assignment, swap).
   Statements are fixed by Properties_C04.v. *)
From Coq Require Import ZArith List Bool Lia Arith PeanoNat.
Require Import Verif.Gen.Gen_cvector Verif.CV.CVModel Verif.CV.CVProofs Verif.CV.CVObjModel.
Import ListNotations.
Local Open Scope Z_scope.

Definition olive (s : ost) (v : nat) (o : vobj) : Prop := nth_error (objs s) v = Some (Some o).
Definition pos_ctor (o : oop) : bool := match o with QCreate _ c _ => 0 <? c | _ => true end.

(* the regenerated pieces, restated: each proof breaks if the C++ changes *)
Lemma cvo_move_delegates_a_copy : forall c, move_ctor_delegate_arg c = c.
Proof. reflexivity. Qed.
Lemma cvo_swap_all_members : swap_meta = 1 /\ swap_constructor = 1 /\ swap_block_table = 1 /\ swap_retire_list = 1 /\ move_assign_swaps = 1.
Proof. repeat split; reflexivity. Qed.
Lemma cvo_create_block_test : forall c, create_block_constructs c = negb (c =? 0).
Proof. reflexivity. Qed.
Lemma swap_objs_eq : forall x y, swap_objs x y =
  ({| octor := octor y; obs := obs y; oblocks := oblocks y; oretired := oretired y |},
   {| octor := octor x; obs := obs x; oblocks := oblocks x; oretired := oretired x |}).
Proof. reflexivity. Qed.

Record OInv (s : ost) : Prop := {
  oi_len : length (killed s) = length (built s);
  oi_ctor : forall v o, olive s v o -> 0 < octor o;
  oi_blk : forall v o b, olive s v o -> In b (oblocks o) ->
      (b < length (built s))%nat /\ nth b (built s) 0 = octor o /\ nth b (killed s) 0%nat = 0%nat;
  oi_nodup : forall v o, olive s v o -> NoDup (oblocks o);
  oi_disj : forall v1 v2 o1 o2 b, olive s v1 o1 -> olive s v2 o2 -> In b (oblocks o1) -> In b (oblocks o2) -> v1 = v2;
  oi_all : forall b, (b < length (built s))%nat ->
      0 < nth b (built s) 0 /\ (nth b (killed s) 0%nat <= 1)%nat /\
      (nth b (killed s) 0%nat = 0%nat -> exists v o, olive s v o /\ In b (oblocks o))
}.

Lemma oinv_init : forall sb n, OInv (oinit sb n).
Proof.
  intros. constructor; cbn; auto; try (intros; lia).
  - intros v o H. unfold olive in H. cbn in H. apply nth_error_In in H. apply repeat_spec in H. discriminate.
  - intros v o b H. unfold olive in H. cbn in H. apply nth_error_In in H. apply repeat_spec in H. discriminate.
  - intros v o H. unfold olive in H. cbn in H. apply nth_error_In in H. apply repeat_spec in H. discriminate.
  - intros v1 v2 o1 o2 b H. unfold olive in H. cbn in H. apply nth_error_In in H. apply repeat_spec in H. discriminate.
Qed.

Lemma oslot_live : forall s v o, oslot s v = Some o <-> olive s v o.
Proof.
  intros. unfold oslot, olive. destruct (nth_error (objs s) v) as [x|]; split; intro H; try discriminate; congruence.
Qed.

(* two slots exchange their contents (x conceptually at d - possibly a brand-new empty vector -, y at sv) *)
Lemma oinv_exchange : forall s d sv xd x y nd ns,
  OInv s -> d <> sv -> nth_error (objs s) d = Some xd -> olive s sv y ->
  (xd = Some x \/ (xd = None /\ oblocks x = [] /\ 0 < octor x)) ->
  octor nd = octor y -> oblocks nd = oblocks y -> octor ns = octor x -> oblocks ns = oblocks x ->
  OInv (set_slot (set_slot s d (Some nd)) sv (Some ns)).
Proof.
  intros s d sv xd x y nd ns I Hne Hd Hy Hx C1 B1 C2 B2.
  set (s' := set_slot (set_slot s d (Some nd)) sv (Some ns)).
  assert (HL : forall v o, olive s' v o ->
            (v = sv /\ o = ns) \/ (v = d /\ o = nd) \/ (v <> d /\ v <> sv /\ olive s v o)).
  { intros v o H. unfold olive, s' in H. cbn in H. rewrite !nth_error_set_nth in H.
    destruct (nth_error (objs s) v) as [z|] eqn:Ez; [|discriminate].
    destruct (Nat.eqb_spec sv v) as [<-|N1]; [left; split; [reflexivity|congruence]|].
    destruct (Nat.eqb_spec d v) as [<-|N2]; [right; left; split; [reflexivity|congruence]|].
    right. right. repeat split; auto. unfold olive. congruence. }
  assert (HR1 : olive s' sv ns).
  { unfold olive, s'. cbn. rewrite !nth_error_set_nth. unfold olive in Hy. rewrite Hy, Nat.eqb_refl. reflexivity. }
  assert (HR2 : olive s' d nd).
  { unfold olive, s'. cbn. rewrite !nth_error_set_nth, Hd, Nat.eqb_refl. destruct (Nat.eqb_spec sv d); [congruence|reflexivity]. }
  assert (HR3 : forall v o, v <> d -> v <> sv -> olive s v o -> olive s' v o).
  { intros v o N1 N2 H. unfold olive, s'. cbn. rewrite !nth_error_set_nth. unfold olive in H. rewrite H.
    destruct (Nat.eqb_spec sv v); [congruence|]. destruct (Nat.eqb_spec d v); [congruence|reflexivity]. }
  assert (Hxb : forall b, In b (oblocks x) -> olive s d x).
  { intros b Hb. destruct Hx as [->|(_ & E & _)]; [exact Hd|]. rewrite E in Hb. destruct Hb. }
  assert (Hxc : 0 < octor x).
  { destruct Hx as [->|(_ & _ & E)]; [|assumption]. eapply (oi_ctor s I); exact Hd. }
  constructor.
  - apply (oi_len s I).
  - intros v o H. destruct (HL _ _ H) as [[-> ->]|[[-> ->]|(_ & _ & H0)]].
    + rewrite C2. assumption.
    + rewrite C1. eapply (oi_ctor s I); eauto.
    + eapply (oi_ctor s I); eauto.
  - intros v o b H Hb. change (built s') with (built s). change (killed s') with (killed s).
    destruct (HL _ _ H) as [[-> ->]|[[-> ->]|(_ & _ & H0)]].
    + rewrite B2 in Hb. rewrite C2. eapply (oi_blk s I); eauto.
    + rewrite B1 in Hb. rewrite C1. eapply (oi_blk s I); eauto.
    + eapply (oi_blk s I); eauto.
  - intros v o H. destruct (HL _ _ H) as [[-> ->]|[[-> ->]|(_ & _ & H0)]].
    + rewrite B2. destruct Hx as [->|(_ & E & _)]; [eapply (oi_nodup s I); exact Hd|rewrite E; constructor].
    + rewrite B1. eapply (oi_nodup s I); eauto.
    + eapply (oi_nodup s I); eauto.
  - intros v1 v2 o1 o2 b H1 H2 Hb1 Hb2.
    destruct (HL _ _ H1) as [[-> ->]|[[-> ->]|(N1 & N1' & H1')]]; destruct (HL _ _ H2) as [[-> ->]|[[-> ->]|(N2 & N2' & H2')]];
      try reflexivity; try rewrite B1 in *; try rewrite B2 in *.
    + exfalso. apply Hne. eapply (oi_disj s I d sv x y b); eauto.
    + exfalso. apply N2. symmetry. eapply (oi_disj s I d v2 x o2 b); eauto.
    + exfalso. apply Hne. eapply (oi_disj s I d sv x y b); eauto.
    + exfalso. apply N2'. symmetry. eapply (oi_disj s I sv v2 y o2 b); eauto.
    + exfalso. apply N1. eapply (oi_disj s I v1 d o1 x b); eauto.
    + exfalso. apply N1'. eapply (oi_disj s I v1 sv o1 y b); eauto.
    + eapply (oi_disj s I); eauto.
  - intros b Hb. change (built s') with (built s) in *. change (killed s') with (killed s).
    destruct (oi_all s I b Hb) as (A & B & C). split; [assumption|]. split; [assumption|]. intro K.
    destruct (C K) as (v & o & Hv & Hin).
    destruct (Nat.eq_dec v sv) as [->|N1].
    + unfold olive in Hv, Hy. rewrite Hy in Hv. inversion Hv; subst o. exists d, nd. split; [assumption|]. rewrite B1. assumption.
    + destruct (Nat.eq_dec v d) as [->|N2].
      * unfold olive in Hv. rewrite Hd in Hv. inversion Hv; subst xd. destruct Hx as [E|(E & _)]; [|discriminate]. inversion E; subst o.
        exists sv, ns. split; [assumption|]. rewrite B2. assumption.
      * exists v, o. split; [apply HR3; assumption|assumption].
Qed.

Lemma ostep_inv : forall s o, OInv s -> pos_ctor o = true -> OInv (ostep s o).
Proof.
  intros s o I Hp. destruct o as [v c hint|v i|d sv|d sv|a b|v]; cbn [ostep].
  - (* create *)
    destruct (nth_error (objs s) v) as [[|]|] eqn:Ev; try assumption.
    cbn in Hp. apply Z.ltb_lt in Hp.
    set (nv := {| octor := c; obs := round_up 64 1 hint; oblocks := []; oretired := 0 |}).
    assert (HL : forall u o, olive (set_slot s v (Some nv)) u o -> (u = v /\ o = nv) \/ (u <> v /\ olive s u o)).
    { intros u o H. unfold olive in H. cbn in H. rewrite nth_error_set_nth in H. destruct (nth_error (objs s) u) as [z|] eqn:Ez; [|discriminate].
      destruct (Nat.eqb_spec v u) as [<-|N]; [left; split; [reflexivity|congruence]|right; split; [auto|unfold olive; congruence]]. }
    constructor.
    + apply (oi_len s I).
    + intros u o H. destruct (HL _ _ H) as [[-> ->]|[_ H0]]; [assumption|eapply (oi_ctor s I); eauto].
    + intros u o b H Hb. destruct (HL _ _ H) as [[-> ->]|[_ H0]]; [destruct Hb|eapply (oi_blk s I); eauto].
    + intros u o H. destruct (HL _ _ H) as [[-> ->]|[_ H0]]; [constructor|eapply (oi_nodup s I); eauto].
    + intros v1 v2 o1 o2 b H1 H2 Hb1 Hb2. destruct (HL _ _ H1) as [[-> ->]|[N1 H1']]; [destruct Hb1|].
      destruct (HL _ _ H2) as [[-> ->]|[N2 H2']]; [destruct Hb2|]. eapply (oi_disj s I); eauto.
    + intros b Hb. destruct (oi_all s I b Hb) as (A & B & C). split; [assumption|]. split; [assumption|]. intro K.
      destruct (C K) as (u & o & Hu & Hin). exists u, o. split; [|assumption].
      unfold olive. cbn. rewrite nth_error_set_nth. unfold olive in Hu. rewrite Hu.
      destruct (Nat.eqb_spec v u); [congruence|reflexivity].
  - (* ensure *)
    destruct (oslot s v) as [ob|] eqn:Es; [|assumption]. apply oslot_live in Es.
    destruct ((i <? 0) || table_qualified _ _) eqn:Eq; [assumption|].
    pose proof (oi_ctor s I _ _ Es) as Hc.
    set (k := Z.to_nat (create_hi (Z.of_nat (length (oblocks ob)))
                          (ensure_expect (dyn_block_index i (Z.log2 (block_size_of s ob)))) -
                        create_lo (Z.of_nat (length (oblocks ob))) (ensure_expect (dyn_block_index i (Z.log2 (block_size_of s ob)))))).
    assert (Etag : (if create_block_constructs (octor ob) then octor ob else 0) = octor ob).
    { rewrite cvo_create_block_test. destruct (Z.eqb_spec (octor ob) 0); [lia|reflexivity]. }
    rewrite Etag.
    set (nb := length (built s)).
    set (ob' := {| octor := octor ob; obs := obs ob; oblocks := oblocks ob ++ seq nb k; oretired := S (oretired ob) |}).
    match goal with |- OInv ?x => set (s' := x) end.
    assert (HL : forall u o, olive s' u o -> (u = v /\ o = ob') \/ (u <> v /\ olive s u o)).
    { intros u o H. unfold olive, s' in H. cbn in H. rewrite nth_error_set_nth in H. destruct (nth_error (objs s) u) as [z|] eqn:Ez; [|discriminate].
      destruct (Nat.eqb_spec v u) as [<-|N]; [left; split; [reflexivity|congruence]|right; split; [auto|unfold olive; congruence]]. }
    pose proof (oi_len s I) as Hlen.
    assert (Hold : forall b, (b < nb)%nat -> nth b (built s') 0 = nth b (built s) 0 /\ nth b (killed s') 0%nat = nth b (killed s) 0%nat).
    { intros b Hb. unfold s'. cbn. rewrite !app_nth1 by (fold nb; lia). auto. }
    assert (Hnew : forall b, (nb <= b < nb + k)%nat -> nth b (built s') 0 = octor ob /\ nth b (killed s') 0%nat = 0%nat).
    { intros b Hb. unfold s'. cbn. rewrite !app_nth2 by (fold nb; lia). rewrite Hlen. fold nb. split.
      - rewrite nth_indep with (d' := octor ob) by (rewrite repeat_length; lia). apply nth_repeat.
      - apply nth_repeat. }
    assert (Hlen' : length (built s') = (nb + k)%nat) by (unfold s'; cbn; rewrite app_length, repeat_length; reflexivity).
    constructor.
    + unfold s'. cbn. rewrite !app_length, !repeat_length. lia.
    + intros u o H. destruct (HL _ _ H) as [[-> ->]|[_ H0]]; [assumption|eapply (oi_ctor s I); eauto].
    + intros u o b H Hb. rewrite Hlen'. destruct (HL _ _ H) as [[-> ->]|[_ H0]].
      * cbn in Hb. apply in_app_iff in Hb. destruct Hb as [Hb|Hb].
        -- destruct (oi_blk s I _ _ _ Es Hb) as (A & B & C). fold nb in A. destruct (Hold b A) as [E1 E2]. rewrite E1, E2. cbn. split; [lia|auto].
        -- apply in_seq in Hb. destruct (Hnew b Hb) as [E1 E2]. cbn. split; [lia|auto].
      * destruct (oi_blk s I _ _ _ H0 Hb) as (A & B & C). fold nb in A. destruct (Hold b A) as [E1 E2]. rewrite E1, E2. split; [lia|auto].
    + intros u o H. destruct (HL _ _ H) as [[-> ->]|[_ H0]]; [|eapply (oi_nodup s I); eauto].
      cbn. apply nodup_app; [eapply (oi_nodup s I); eauto|apply seq_NoDup|].
      intros x Hx Hx'. apply in_seq in Hx'. destruct (oi_blk s I _ _ _ Es Hx) as (A & _). fold nb in A. lia.
    + intros v1 v2 o1 o2 b H1 H2 Hb1 Hb2.
      assert (Hfresh : forall u o, u <> v -> olive s u o -> In b (oblocks o) -> In b (oblocks ob') -> False).
      { intros u o N Hu Hi Hi'. cbn in Hi'. apply in_app_iff in Hi'. destruct Hi' as [Hi'|Hi'].
        - apply N. eapply (oi_disj s I u v o ob b); eauto.
        - apply in_seq in Hi'. destruct (oi_blk s I _ _ _ Hu Hi) as (A & _). fold nb in A. lia. }
      destruct (HL _ _ H1) as [[-> ->]|[N1 H1']]; destruct (HL _ _ H2) as [[-> ->]|[N2 H2']]; try reflexivity.
      * exfalso. eapply Hfresh; eauto.
      * exfalso. eapply Hfresh; eauto.
      * eapply (oi_disj s I); eauto.
    + intros b Hb. rewrite Hlen' in Hb.
      assert (Hv' : olive s' v ob').
      { unfold olive, s'. cbn. rewrite nth_error_set_nth. unfold olive in Es. rewrite Es, Nat.eqb_refl. reflexivity. }
      destruct (Nat.lt_ge_cases b nb) as [Hlt|Hge].
      * destruct (Hold b Hlt) as [E1 E2]. rewrite E1, E2. destruct (oi_all s I b Hlt) as (A & B & C).
        split; [assumption|]. split; [assumption|]. intro K. destruct (C K) as (u & o & Hu & Hin).
        destruct (Nat.eq_dec u v) as [->|N].
        -- unfold olive in Hu, Es. rewrite Es in Hu. inversion Hu; subst o. exists v, ob'. split; [assumption|]. cbn. apply in_app_iff. left. assumption.
        -- exists u, o. split; [|assumption]. unfold olive, s'. cbn. rewrite nth_error_set_nth. unfold olive in Hu. rewrite Hu.
           destruct (Nat.eqb_spec v u); [congruence|reflexivity].
      * destruct (Hnew b (conj Hge Hb)) as [E1 E2]. rewrite E1, E2. split; [assumption|]. split; [lia|]. intros _.
        exists v, ob'. split; [assumption|]. cbn. apply in_app_iff. right. apply in_seq. lia.
  - (* move construction *)
    destruct (nth_error (objs s) d) as [[|]|] eqn:Ed; try assumption.
    destruct (oslot s sv) as [so|] eqn:Es; [|assumption]. apply oslot_live in Es.
    destruct (Nat.eqb_spec d sv) as [|Hne]; [assumption|].
    rewrite cvo_move_delegates_a_copy. pose proof (oi_ctor s I _ _ Es) as Hc.
    rewrite swap_objs_eq. cbn [octor obs oblocks oretired].
    assert (E1 : (if octor so <? 0 then 0 else octor so) = octor so) by (destruct (Z.ltb_spec (octor so) 0); [lia|reflexivity]).
    rewrite E1.
    eapply (oinv_exchange s d sv None {| octor := Z.abs (octor so); obs := round_up 64 1 delegate_block_size; oblocks := []; oretired := 0 |} so);
      eauto; cbn; try reflexivity.
    right. repeat split; auto. lia.
  - (* move assignment *)
    destruct (oslot s d) as [od|] eqn:Ed; [|assumption]. destruct (oslot s sv) as [so|] eqn:Es; [|assumption].
    apply oslot_live in Ed. apply oslot_live in Es.
    destruct (Nat.eqb_spec d sv) as [|Hne]; [assumption|]. cbn [orb negb]. change (move_assign_swaps =? 1) with true. cbn [negb].
    rewrite swap_objs_eq.
    eapply (oinv_exchange s d sv (Some od) od so); eauto; cbn; reflexivity.
  - (* swap *)
    destruct (oslot s a) as [oa|] eqn:Ea; [|assumption]. destruct (oslot s b) as [ob|] eqn:Eb; [|assumption].
    apply oslot_live in Ea. apply oslot_live in Eb.
    destruct (Nat.eqb_spec a b) as [|Hne]; [assumption|].
    rewrite swap_objs_eq.
    eapply (oinv_exchange s a b (Some oa) oa ob); eauto; cbn; reflexivity.
  - (* destroy *)
    destruct (oslot s v) as [ob|] eqn:Es; [|assumption]. apply oslot_live in Es.
    match goal with |- OInv ?x => set (s' := x) end.
    pose proof (oi_nodup s I _ _ Es) as Hnd. pose proof (oi_len s I) as Hlen.
    assert (HL : forall u o, olive s' u o -> u <> v /\ olive s u o).
    { intros u o H. unfold olive, s' in H. cbn in H. rewrite nth_error_set_nth in H. destruct (nth_error (objs s) u) as [z|] eqn:Ez; [|discriminate].
      destruct (Nat.eqb_spec v u) as [<-|N]; [discriminate|split; [auto|unfold olive; congruence]]. }
    assert (HK : forall b, (b < length (built s))%nat ->
              nth b (killed s') 0%nat = if mem b (oblocks ob) then S (nth b (killed s) 0%nat) else nth b (killed s) 0%nat).
    { intros b Hb. unfold s'. cbn. pose proof (nth_error_bump_all (oblocks ob) (killed s) b Hnd) as P.
      assert (Hb' : (b < length (killed s))%nat) by lia.
      destruct (nth_error (killed s) b) as [c|] eqn:Ec; [|apply nth_error_None in Ec; lia].
      rewrite (nth_error_nth _ _ _ P). rewrite (nth_error_nth _ _ _ Ec). reflexivity. }
    constructor.
    + unfold s'. cbn. rewrite length_bump_all. assumption.
    + intros u o H. destruct (HL _ _ H) as [_ H0]. eapply (oi_ctor s I); eauto.
    + intros u o b H Hb. destruct (HL _ _ H) as [N H0]. destruct (oi_blk s I _ _ _ H0 Hb) as (A & B & C).
      change (built s') with (built s). split; [assumption|]. split; [assumption|]. rewrite (HK b A).
      destruct (mem b (oblocks ob)) eqn:Em; [|assumption]. apply mem_In in Em. exfalso. apply N. eapply (oi_disj s I u v o ob b); eauto.
    + intros u o H. destruct (HL _ _ H) as [_ H0]. eapply (oi_nodup s I); eauto.
    + intros v1 v2 o1 o2 b H1 H2. destruct (HL _ _ H1) as [_ H1']. destruct (HL _ _ H2) as [_ H2']. eapply (oi_disj s I); eauto.
    + intros b Hb. change (built s') with (built s) in *. destruct (oi_all s I b Hb) as (A & B & C). split; [assumption|].
      rewrite (HK b Hb). destruct (mem b (oblocks ob)) eqn:Em.
      * apply mem_In in Em. destruct (oi_blk s I _ _ _ Es Em) as (_ & _ & K0). rewrite K0. split; [lia|]. discriminate.
      * apply mem_false in Em. split; [assumption|]. intro K. destruct (C K) as (u & o & Hu & Hin).
        exists u, o. split; [|assumption]. unfold olive, s'. cbn. rewrite nth_error_set_nth. unfold olive in Hu. rewrite Hu.
        destruct (Nat.eqb_spec v u) as [<-|]; [|reflexivity]. exfalso. unfold olive in Es. rewrite Es in Hu. inversion Hu; subst o. contradiction.
Qed.

Lemma orun_inv : forall ops s, OInv s -> forallb pos_ctor ops = true -> OInv (orun s ops).
Proof.
  induction ops as [|o ops IH]; intros s I H; cbn; [assumption|]. cbn in H. apply andb_prop in H. destruct H as [H1 H2].
  apply IH; [apply ostep_inv; assumption|assumption].
Qed.

(* after ANY sequence of create / grow / move-construct / move-assign / swap / destroy steps over any number of vector
   objects: every block of every live vector was built by the constructor that vector carries, that constructor is a
   real one (not the empty std::function), and nothing visible has been destroyed *)
Theorem cvo_built_by_constructor : forall sb n ops v o b,
  forallb pos_ctor ops = true -> olive (orun (oinit sb n) ops) v o -> In b (oblocks o) ->
  nth b (built (orun (oinit sb n) ops)) 0 = octor o /\ 0 < octor o /\ nth b (killed (orun (oinit sb n) ops)) 0%nat = 0%nat.
Proof.
  intros sb n ops v o b Hp Hl Hb. pose proof (orun_inv ops _ (oinv_init sb n) Hp) as I.
  destruct (oi_blk _ I _ _ _ Hl Hb) as (_ & A & B). split; [assumption|]. split; [eapply (oi_ctor _ I); eauto|assumption].
Qed.

(* when every vector object is gone, every block ever created was constructed (by a real constructor) and destroyed
   exactly once *)
Theorem cvo_death : forall sb n ops b,
  forallb pos_ctor ops = true -> (forall v, oslot (orun (oinit sb n) ops) v = None) ->
  (b < length (built (orun (oinit sb n) ops)))%nat ->
  0 < nth b (built (orun (oinit sb n) ops)) 0 /\ nth b (killed (orun (oinit sb n) ops)) 0%nat = 1%nat.
Proof.
  intros sb n ops b Hp Hnone Hb. pose proof (orun_inv ops _ (oinv_init sb n) Hp) as I.
  destruct (oi_all _ I b Hb) as (A & B & C). split; [assumption|].
  destruct (nth b (killed (orun (oinit sb n) ops)) 0%nat) as [|[|k]] eqn:E; [|reflexivity|lia].
  exfalso. destruct (C eq_refl) as (v & o & Hv & _). apply oslot_live in Hv. rewrite Hnone in Hv. discriminate.
Qed.

(* non-vacuity: build, move-construct, grow both the moved-to and the moved-from vector, swap, destroy everything *)
Definition obj_example : list oop :=
  [QCreate 0 7 2; QEnsure 0 3; QMoveCtor 1 0; QEnsure 1 5; QEnsure 0 1; QCreate 2 9 1; QEnsure 2 0; QSwap 2 1; QMoveAssign 0 2;
   QDestroy 0; QDestroy 1; QDestroy 2].
Lemma cvo_example : forallb pos_ctor obj_example = true /\
  (forall v, oslot (orun (oinit 0 3) obj_example) v = None) /\ length (built (orun (oinit 0 3) obj_example)) = 5%nat.
Proof.
  split; [reflexivity|]. split; [|vm_compute; reflexivity].
  intros [|[|[|v]]]; vm_compute; try reflexivity. destruct v; reflexivity.
Qed.
