(* Executable interleaving model of babylon::ConcurrentVector and its time-based RetireList
   (src/babylon/concurrent/vector.h, vector.hpp).  One step = one atomic operation of the C++ code
   (load/CAS of _block_table, load/CAS of RetireList::_head) plus the local computation up to the
   next one (table allocation, memcpy, block creation, loser clean-up, clock_gettime, delete_list).
   No proofs in this file.

   Shared state : _block_table (`cur`, a table id), the table store (contents of every block table ever
                  allocated; id 0 = EMPTY_BLOCK_TABLE), RetireList::_head as the 64-bit tagged word
                  (`hword`, built/read only through the generated make_head/get_timestamp/expire) together
                  with the chain of nodes hanging off it (`hnodes`, the retired table of every node,
                  newest first), the virtual clock in seconds (CLOCK_MONOTONIC_RAW tv_sec).
   Ghost state  : per block constructor / destructor counts (`bctor`, `bdtor`: the elements of a block are
                  constructed / destroyed together by create_block / delete_block) and life-cycle status `bst`;
                  per table: life-cycle status `tst` (speculative / current / retiring / listed / freed / dead),
                  time of the CAS that superseded it, time and number of frees; `stale` (a retire CAS pushed
                  a stamp read in an earlier time unit than the head value it finally beat: DESIGN F4 - proved
                  impossible since fix 8cef5d9 re-reads the clock in every round of the push loop);
                  `uaf` (reads of freed block tables: (table, clock when the pointer was obtained, clock of
                  the read)).
   Abstractions : allocator never reuses an address (table/node ids are fresh: no pointer ABA);
                  elements are identified by (block id, offset); element payload is not modelled. *)
From Coq Require Import ZArith List Bool.
Require Import Verif.Gen.Gen_cvector.
Import ListNotations.
Local Open Scope Z_scope.

Definition elem := (nat * Z)%type.            (* (block id, offset in block) *)
Definition seg := (nat * Z * Z)%type.         (* (block id, first offset, one-past-last offset) *)

Inductive op :=
| OEnsure (i : Z)             (* vector.ensure(i) *)
| OReserve (n : Z)            (* vector.reserve(n) *)
| OIndex (i : Z)              (* vector[i]  = snapshot()[i] *)
| OSize                       (* vector.size() *)
| OSnap                       (* snap = vector.snapshot() *)
| OSnapGet (i : Z)            (* snap[i] *)
| OForEach (b e : Z)          (* vector.for_each(b, e, cb) / fill_n / copy_n: reserved_snapshot(e).for_each(b, e) *)
| OGc                         (* vector.gc() *)
| OAdv (d : Z)                (* d seconds pass *)
| OStep (d : Z).              (* adversary: the calendar (wall) clock is stepped by d seconds, forward or backward
                                 (NTP step, date -s, VM resume); elapsed time is unaffected *)

Inductive res :=
| RElem (e : option elem)     (* None: index outside the table that was read (caller broke the contract) *)
| RUnit
| RSize (n : Z)
| RSegs (l : list seg)
| RUaf.                       (* the block table that had to be read was already freed *)

(* ghost life cycle of a block table / of a block *)
Inductive tstat :=
| TSpec (t : nat)             (* allocated by thread t in the slow path, not (yet) published *)
| TCur                        (* installed in _block_table *)
| TRetiring (t : nat)         (* replaced by thread t's CAS, its retire-list node not pushed yet *)
| TListed                     (* hangs off the retire list *)
| TFreed                      (* deleted by delete_list (EMPTY_BLOCK_TABLE: dropped from the retire list) *)
| TDead.                      (* never published, deleted by the loser that allocated it *)
Inductive bstat := BSpec (t : nat) | BLive | BDead.

Record tinfo := {
  tblocks : list nat;         (* block ids, entry k = blocks[k] *)
  tst : tstat;                (* ghost *)
  tsup : option Z;            (* ghost: clock of the CAS that replaced it *)
  tfreed : option Z;          (* ghost: clock of its (first) operator delete *)
  tfrees : nat                (* ghost: number of operator delete calls on it *)
}.

Inductive pc :=
| Idle
| SlowCas (bt nt : nat) (bn expect : Z)        (* new table nt filled from bt; CAS(_block_table, bt -> nt) pending *)
| RetLoad (old nt : nat)                        (* CAS won, node for `old` allocated; _head.load pending *)
| RetStrong (old nt : nat) (hw : Z) (hn : list nat) (neww c0 hclk : Z)   (* expired branch: strong CAS pending *)
| RetWeak (old nt : nat) (hw : Z) (hn : list nat) (neww c0 hclk : Z)     (* push loop: weak CAS pending *)
| GcCas (hw : Z) (hn : list nat) (c1 : Z).      (* gc: expired (clock read c1), CAS(_head, head -> 0) pending *)

Record thread := { prog : list op; opi : nat; tpc : pc; results : list res; snap : option (nat * Z) }.

Record st := {
  bits : Z;                   (* _block_mask_bits *)
  cur : nat;                  (* _block_table *)
  tables : list tinfo;
  bctor : list nat; bdtor : list nat; bst : list bstat;
  hword : Z; hnodes : list nat;
  clock : Z;                  (* elapsed (monotonic) seconds: CLOCK_MONOTONIC*, CLOCK_BOOTTIME *)
  woff : Z;                   (* calendar clocks (CLOCK_REALTIME*, CLOCK_TAI) read clock + woff *)
  stale : bool; uaf : list (nat * Z * Z);
  threads : list thread
}.

Definition mask_of (b : Z) : Z := Z.ones b.      (* DynamicMeta::set_block_size: b times  mask = mask << 1 | 1 *)
Definition empty_table : tinfo := {| tblocks := []; tst := TCur; tsup := None; tfreed := None; tfrees := 0 |}.
Definition mk_thread (p : list op) : thread := {| prog := p; opi := 0; tpc := Idle; results := []; snap := None |}.

Definition init (b : Z) (t0 : Z) (progs : list (list op)) : st :=
  {| bits := b; cur := 0%nat; tables := [empty_table]; bctor := []; bdtor := []; bst := []; hword := 0; hnodes := [];
     clock := t0; woff := 0; stale := false; uaf := []; threads := map mk_thread progs |}.

Fixpoint set_nth {A} (n : nat) (x : A) (l : list A) : list A :=
  match l, n with
  | [], _ => []
  | _ :: r, O => x :: r
  | y :: r, S n' => y :: set_nth n' x r
  end.

Fixpoint nat_list_eqb (a b : list nat) : bool :=
  match a, b with
  | [], [] => true
  | x :: a', y :: b' => Nat.eqb x y && nat_list_eqb a' b'
  | _, _ => false
  end.

(* ---------------------------------------------------------------- record updates *)
Definition upd_thread (s : st) (t : nat) (th : thread) : st :=
  {| bits := bits s; cur := cur s; tables := tables s; bctor := bctor s; bdtor := bdtor s; bst := bst s; hword := hword s;
     hnodes := hnodes s; clock := clock s; woff := woff s; stale := stale s; uaf := uaf s; threads := set_nth t th (threads s) |}.
Definition with_mem (s : st) (c : nat) (tb : list tinfo) (bc bd : list nat) (bs : list bstat) : st :=
  {| bits := bits s; cur := c; tables := tb; bctor := bc; bdtor := bd; bst := bs; hword := hword s; hnodes := hnodes s;
     clock := clock s; woff := woff s; stale := stale s; uaf := uaf s; threads := threads s |}.
Definition with_head (s : st) (w : Z) (n : list nat) (stl : bool) : st :=
  {| bits := bits s; cur := cur s; tables := tables s; bctor := bctor s; bdtor := bdtor s; bst := bst s; hword := w; hnodes := n;
     clock := clock s; woff := woff s; stale := stl; uaf := uaf s; threads := threads s |}.
Definition with_clock (s : st) (c : Z) : st :=
  {| bits := bits s; cur := cur s; tables := tables s; bctor := bctor s; bdtor := bdtor s; bst := bst s; hword := hword s;
     hnodes := hnodes s; clock := c; woff := woff s; stale := stale s; uaf := uaf s; threads := threads s |}.
Definition with_woff (s : st) (w : Z) : st :=
  {| bits := bits s; cur := cur s; tables := tables s; bctor := bctor s; bdtor := bdtor s; bst := bst s; hword := hword s;
     hnodes := hnodes s; clock := clock s; woff := w; stale := stale s; uaf := uaf s; threads := threads s |}.
Definition with_uaf (s : st) (u : list (nat * Z * Z)) : st :=
  {| bits := bits s; cur := cur s; tables := tables s; bctor := bctor s; bdtor := bdtor s; bst := bst s; hword := hword s;
     hnodes := hnodes s; clock := clock s; woff := woff s; stale := stale s; uaf := u; threads := threads s |}.

Definition finish_op (th : thread) (r : res) : thread :=
  {| prog := prog th; opi := S (opi th); tpc := Idle; results := results th ++ [r]; snap := snap th |}.
Definition goto (th : thread) (p : pc) : thread :=
  {| prog := prog th; opi := opi th; tpc := p; results := results th; snap := snap th |}.
Definition set_snap (th : thread) (x : option (nat * Z)) : thread :=
  {| prog := prog th; opi := opi th; tpc := tpc th; results := results th; snap := x |}.

(* ---------------------------------------------------------------- tables and blocks *)
Definition table (s : st) (k : nat) : tinfo := nth k (tables s) empty_table.
Definition tsize (ti : tinfo) : Z := Z.of_nat (length (tblocks ti)).
Definition is_freed (ti : tinfo) : bool := match tfreed ti with Some _ => true | None => false end.

Definition set_blocks (ti : tinfo) (b : list nat) : tinfo :=
  {| tblocks := b; tst := tst ti; tsup := tsup ti; tfreed := tfreed ti; tfrees := tfrees ti |}.
Definition set_tst (ti : tinfo) (x : tstat) : tinfo :=
  {| tblocks := tblocks ti; tst := x; tsup := tsup ti; tfreed := tfreed ti; tfrees := tfrees ti |}.
Definition supersede (ti : tinfo) (t : nat) (c : Z) : tinfo :=
  {| tblocks := tblocks ti; tst := TRetiring t; tsup := Some c; tfreed := tfreed ti; tfrees := tfrees ti |}.
Definition free_tinfo (ti : tinfo) (c : Z) : tinfo :=
  {| tblocks := tblocks ti; tst := match tst ti with TSpec _ => TDead | _ => TFreed end; tsup := tsup ti;
     tfreed := match tfreed ti with Some f => Some f | None => Some c end; tfrees := S (tfrees ti) |}.

(* operator delete of one table / of every table of a node chain (RetireList::delete_list) *)
Definition free_table (tb : list tinfo) (k : nat) (c : Z) : list tinfo :=
  match nth_error tb k with
  | Some ti => set_nth k (if Nat.eqb k 0 then set_tst ti TFreed   (* delete_block_table: `if (block_table != &EMPTY_BLOCK_TABLE)` *)
                          else free_tinfo ti c) tb
  | None => tb
  end.
Definition free_tables (tb : list tinfo) (ks : list nat) (c : Z) : list tinfo :=
  fold_left (fun acc k => free_table acc k c) ks tb.

Definition bump (l : list nat) (k : nat) : list nat :=
  match nth_error l k with Some c => set_nth k (S c) l | None => l end.
Definition bump_all (l : list nat) (ks : list nat) : list nat := fold_left bump ks l.
Definition mark_all (l : list bstat) (ks : list nat) (x : bstat) : list bstat := fold_left (fun acc k => set_nth k x acc) ks l.

(* the entries [lo, hi) of a table *)
Definition slice (l : list nat) (lo hi : Z) : list nat := skipn (Z.to_nat lo) (firstn (Z.to_nat hi) l).

(* body of the while(true) loop of get_qualified_block_table_slow up to the CAS:
   memcpy `copy_bytes bn` bytes of bt's entries, create blocks [create_lo, create_hi) *)
Definition fill_contents (s : st) (bt : nat) (bn expect : Z) : list nat :=
  firstn (Z.to_nat (copy_bytes bn / 8)) (tblocks (table s bt))
  ++ seq (length (bctor s)) (Z.to_nat (create_hi bn expect - create_lo bn expect)).
Definition created (s : st) (bn expect : Z) : nat := Z.to_nat (create_hi bn expect - create_lo bn expect).

(* ---------------------------------------------------------------- reading through a table *)
Definition read_elem (s : st) (blocks : list nat) (i : Z) : option elem :=
  if i <? 0 then None else
  match nth_error blocks (Z.to_nat (dyn_block_index i (bits s))) with
  | Some b => Some (b, dyn_block_offset i (mask_of (bits s)))
  | None => None
  end.

(* Snapshot::for_each, loop for loop *)
Fixpoint fe_loop (fuel : nat) (blocks : list nat) (bi bo ebi ebo bsize : Z) : list seg :=
  match fuel with
  | O => []
  | S f =>
    if fe_loop_cond bi ebi then
      match nth_error blocks (Z.to_nat bi) with
      | Some b => (b, fe_seg_begin 0 bo, fe_seg_end 0 bsize)
                  :: fe_loop f blocks (bi + fe_next_block) fe_next_offset ebi ebo bsize
      | None => []
      end
    else if fe_tail_cond bo ebo then
      match nth_error blocks (Z.to_nat bi) with
      | Some b => [(b, fe_tail_begin 0 bo, fe_tail_end 0 ebo)]
      | None => []
      end
    else []
  end.

Definition for_each_segs (s : st) (blocks : list nat) (b e : Z) : list seg :=
  let m := mask_of (bits s) in
  fe_loop (S (length blocks)) blocks (dyn_block_index b (bits s)) (dyn_block_offset b m)
          (dyn_block_index e (bits s)) (dyn_block_offset e m) (dyn_block_size m).

(* number of blocks the current operation needs *)
Definition expect_of (s : st) (o : op) : option Z :=
  let m := mask_of (bits s) in
  match o with
  | OEnsure i => Some (ensure_expect (dyn_block_index i (bits s)))
  | OReserve n => Some (dyn_block_index (reserve_index_arg n m) (bits s))
  | OForEach b e => Some (dyn_block_index (reserved_snapshot_index_arg e m) (bits s))
  | _ => None
  end.

(* result of the operation once get_qualified_block_table returned table k.  (A thread that is descheduled
   inside one call for longer than the cooling period can find k freed by now; the time-based design accepts
   that, the property promises one cooling period only: not flagged here.) *)
Definition complete (s : st) (o : op) (k : nat) : res :=
  let ti := table s k in
  match o with
  | OEnsure i => RElem (read_elem s (tblocks ti) i)
  | OForEach b e => RSegs (for_each_segs s (tblocks ti) b e)
  | _ => RUnit
  end.

Definition cur_op (th : thread) : option op := nth_error (prog th) (opi th).
Definition the_op (th : thread) : op := match cur_op th with Some o => o | None => OSize end.

Definition node_addr (k : nat) : Z := ((Z.of_nat k + 1) * 16) mod 2 ^ 47.
Definition stamp_at (c : Z) : Z := current_unit c mod 2 ^ ts_bits.
(* which clock get_current_timestamp reads: the regenerated clock id passed to clock_gettime.  Monotonic ids
   (CLOCK_MONOTONIC 1, _RAW 4, _COARSE 6, BOOTTIME 7) read elapsed time; calendar ids (CLOCK_REALTIME 0, _COARSE 5, _ALARM 8,
   TAI 11) read elapsed time + the offset the adversary steps *)
Definition clock_is_monotonic (id : Z) : bool := (id =? 1) || (id =? 4) || (id =? 6) || (id =? 7).
Definition tsrc (s : st) : Z := if clock_is_monotonic clock_id then clock s else clock s + woff s.

Definition head_is (s : st) (hw : Z) (hn : list nat) : bool := Z.eqb (hword s) hw && nat_list_eqb (hnodes s) hn.

(* one round of the slow path: (re)fill table nt from bt and go to the CAS.
   `fresh` = the table is allocated now (first round) rather than refilled (later rounds). *)
Definition prepare (s : st) (t : nat) (th : thread) (bt : nat) (nt : nat) (fresh : bool) (expect : Z) : st :=
  let bn := tsize (table s bt) in
  let cont := fill_contents s bt bn expect in
  let k := created s bn expect in
  let ti := {| tblocks := cont; tst := TSpec t; tsup := None; tfreed := None; tfrees := 0 |} in
  let tb := if fresh then tables s ++ [ti] else set_nth nt (set_blocks (table s nt) cont) (tables s) in
  let s1 := with_mem s (cur s) tb (bctor s ++ repeat 1%nat k) (bdtor s ++ repeat 0%nat k) (bst s ++ repeat (BSpec t) k) in
  let s2 := if is_freed (table s bt) then with_uaf s1 ((bt, clock s, clock s) :: uaf s1) else s1 in
  upd_thread s2 t (goto th (SlowCas bt nt bn expect)).

(* get_qualified_block_table: load (acquire), fast path or first round of the slow path *)
Definition grow (s : st) (t : nat) (th : thread) (o : op) (expect : Z) : st :=
  let bt := cur s in
  if table_qualified (tsize (table s bt)) expect then upd_thread s t (finish_op th (complete s o bt))
  else prepare s t th bt (length (tables s)) true expect.

Definition step_thread (s : st) (t : nat) (th : thread) : option st :=
  match tpc th with
  | Idle =>
    match cur_op th with
    | None => None
    | Some o =>
      match o with
      | OEnsure _ | OReserve _ | OForEach _ _ =>
        match expect_of s o with Some e => Some (grow s t th o e) | None => None end
      | OIndex i =>                                        (* _block_table.load(acquire), then read *)
        let ti := table s (cur s) in
        Some (upd_thread s t (finish_op th (if is_freed ti then RUaf else RElem (read_elem s (tblocks ti) i))))
      | OSize => Some (upd_thread s t (finish_op th (RSize (snapshot_size (tsize (table s (cur s))) (bits s)))))
      | OSnap => Some (upd_thread s t (finish_op (set_snap th (Some (cur s, clock s))) RUnit))
      | OSnapGet i =>                                      (* no atomic operation: plain reads through the snapshot *)
        match snap th with
        | None => Some (upd_thread s t (finish_op th (RElem None)))
        | Some (k, taken) =>
          let ti := table s k in
          if is_freed ti then
            Some (upd_thread (with_uaf s ((k, taken, clock s) :: uaf s)) t (finish_op th RUaf))
          else Some (upd_thread s t (finish_op th (RElem (read_elem s (tblocks ti) i))))
        end
      | OGc =>                                             (* _head.load(acquire); clock_gettime *)
        if expire (hword s) (stamp_at (tsrc s)) then Some (upd_thread s t (goto th (GcCas (hword s) (hnodes s) (tsrc s))))
        else Some (upd_thread s t (finish_op th RUnit))
      | OAdv d => Some (upd_thread (with_clock s (clock s + Z.max 0 d)) t (finish_op th RUnit))
      | OStep d => Some (upd_thread (with_woff s (woff s + d)) t (finish_op th RUnit))
      end
    end
  | SlowCas bt nt bn expect =>                             (* _block_table.compare_exchange_strong(bt, nt) *)
    if Nat.eqb (cur s) bt then
      let tb := set_nth nt (set_tst (table s nt) TCur) (set_nth bt (supersede (table s bt) t (clock s)) (tables s)) in
      let mine := skipn (length (tblocks (table s bt))) (tblocks (table s nt)) in
      Some (upd_thread (with_mem s nt tb (bctor s) (bdtor s) (mark_all (bst s) mine BLive)) t (goto th (RetLoad bt nt)))
    else
      (* lost: destroy the blocks [delete_lo, delete_hi) of the new table, look at the winner's table *)
      let dead := slice (tblocks (table s nt)) (delete_lo bn expect) (delete_hi bn expect) in
      let s1 := with_mem s (cur s) (tables s) (bctor s) (bump_all (bdtor s) dead) (mark_all (bst s) dead BDead) in
      let bt' := cur s in
      let bn' := tsize (table s bt') in
      if loser_done bn' expect then
        let s2 := with_mem s1 (cur s1) (free_table (tables s1) nt (clock s)) (bctor s1) (bdtor s1) (bst s1) in
        Some (upd_thread s2 t (finish_op th (complete s2 (the_op th) bt')))
      else Some (prepare s1 t th bt' nt false expect)
  | RetLoad old nt =>                                      (* RetireList::retire: _head.load(acquire); clock_gettime *)
    let c0 := tsrc s in
    let ts := stamp_at c0 in
    let neww := make_head (node_addr old) ts in
    if expire (hword s) ts then Some (upd_thread s t (goto th (RetStrong old nt (hword s) (hnodes s) neww c0 c0)))
    else (* first round of the do-loop body: node->next = get_node(head); clock re-read; new_head rebuilt *)
      Some (upd_thread s t (goto th (RetWeak old nt (hword s) (hnodes s) (retry_new_head (node_addr old) (stamp_at c0)) c0 c0)))
  | RetStrong old nt hw hn neww c0 hclk =>                 (* node->next = nullptr; compare_exchange_strong *)
    if head_is s hw hn then
      let s1 := with_head s neww [old] (stale s) in
      let s2 := with_mem s1 (cur s1) (free_tables (set_nth old (set_tst (table s old) TListed) (tables s1)) hn (clock s))
                         (bctor s1) (bdtor s1) (bst s1) in
      Some (upd_thread s2 t (finish_op th (complete s2 (the_op th) nt)))
    else (* head reloaded by the failed CAS; loop body: next = get_node(head), clock re-read, new_head rebuilt *)
      Some (upd_thread s t (goto th (RetWeak old nt (hword s) (hnodes s)
                                             (retry_new_head (node_addr old) (stamp_at (tsrc s))) (tsrc s) (tsrc s))))
  | RetWeak old nt hw hn neww c0 hclk =>                   (* compare_exchange_weak(head, new_head) *)
    if head_is s hw hn then
      let s1 := with_head s neww (old :: hn) (stale s || (current_unit c0 <? current_unit hclk)) in
      let s2 := with_mem s1 (cur s1) (set_nth old (set_tst (table s old) TListed) (tables s1)) (bctor s1) (bdtor s1) (bst s1) in
      Some (upd_thread s2 t (finish_op th (complete s2 (the_op th) nt)))
    else Some (upd_thread s t (goto th (RetWeak old nt (hword s) (hnodes s)
                                                (retry_new_head (node_addr old) (stamp_at (tsrc s))) (tsrc s) (tsrc s))))
  | GcCas hw hn c1 =>                                      (* compare_exchange_strong(head, 0) *)
    if head_is s hw hn then
      let s1 := with_head s gc_new_head [] (stale s) in
      let s2 := with_mem s1 (cur s1) (free_tables (tables s1) hn (clock s)) (bctor s1) (bdtor s1) (bst s1) in
      Some (upd_thread s2 t (finish_op th RUnit))
    else Some (upd_thread s t (finish_op th RUnit))
  end.

Definition step (s : st) (t : nat) : option st :=
  match nth_error (threads s) t with
  | Some th => step_thread s t th
  | None => None
  end.

Definition thread_done (th : thread) : bool :=
  match tpc th, cur_op th with Idle, None => true | _, _ => false end.
Definition all_done (s : st) : bool := forallb thread_done (threads s).

(* ~ConcurrentVector (caller guarantees no concurrent access): delete every block of the current table, the
   table itself, then RetireList::unsafe_gc *)
Definition destroy (s : st) : st :=
  let blocks := firstn (Z.to_nat (destroy_loop_hi (tsize (table s (cur s))))) (tblocks (table s (cur s))) in
  let tb := free_tables (free_table (tables s) (cur s) (clock s)) (hnodes s) (clock s) in
  with_head (with_mem s (cur s) tb (bctor s) (bump_all (bdtor s) blocks) (mark_all (bst s) blocks BDead)) 0 [] (stale s).

(* ---------------------------------------------------------------- observables *)
Fixpoint count_if {A} (f : A -> bool) (l : list A) : nat :=
  match l with [] => 0%nat | x :: r => ((if f x then 1 else 0) + count_if f r)%nat end.
Definition sum (l : list nat) : nat := fold_left Nat.add l 0%nat.

(* (per thread results, blocks created, blocks destroyed so far, tables allocated, heap tables freed so far,
    nodes in the retire list) *)
Definition outcome (s : st) : list (list res) * (nat * nat * nat * nat * nat) :=
  (map results (threads s),
   (length (bctor s), sum (bdtor s), pred (length (tables s)), count_if is_freed (tl (tables s)), length (hnodes s))).
