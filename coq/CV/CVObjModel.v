(* Executable model of the whole-object operations of babylon::ConcurrentVector (src/babylon/concurrent/vector.hpp):
   construction with an element constructor, move construction (= delegate to ConcurrentVector(C&&) + swap), move
   assignment (= swap), swap, growth and destruction, over several vector objects.  These operations are not
   thread-safe (documented), so this layer is sequential; the concurrent growth protocol of ONE vector is CVModel.v.
   What this layer tracks is which element constructor each vector carries and which constructor built every block:
   create_block() constructs the elements only `if (_constructor)`, otherwise it memsets - so a vector that lost its
   constructor publishes never-constructed elements which ~ConcurrentVector then destroys.
   Regenerated from the source: what the move constructor hands to the delegated constructor
   (move_ctor_delegate_arg: `other._constructor` = copy; `::std::move(..)` is rendered as Z.opp = stolen), the block size
   of the delegated constructor, the member list of swap (swap_meta/_constructor/_block_table/_retire_list), that move
   assignment is a swap, and the `if (_constructor)` test of create_block.  No proofs in this file.
   Constructor ids: 0 = empty std::function (memset), k > 0 = default_constructor<T> or a user functor. *)
From Coq Require Import ZArith List Bool.
Require Import Verif.Gen.Gen_cvector Verif.CV.CVModel.
Import ListNotations.
Local Open Scope Z_scope.

Record vobj := {
  octor : Z;                 (* _constructor *)
  obs : Z;                   (* _meta: block size (dynamic vectors) *)
  oblocks : list nat;        (* blocks of the current table *)
  oretired : nat             (* nodes in _retire_list *)
}.

Inductive oop :=
| QCreate (v : nat) (c : Z) (hint : Z)      (* slot v = new ConcurrentVector(hint, constructor c) *)
| QEnsure (v : nat) (i : Z)                 (* slot v ->ensure(i) / reserve / ... : grow to hold index i *)
| QMoveCtor (d s : nat)                     (* slot d = new ConcurrentVector(std::move(oslot s)) *)
| QMoveAssign (d s : nat)                   (* *slot d = std::move(oslot s) *)
| QSwap (a b : nat)                         (* slot a ->swap(slot b) *)
| QDestroy (v : nat).                       (* delete slot v *)

Record ost := {
  sbs : Z;                                  (* BLOCK_SIZE template argument, 0 = dynamic *)
  objs : list (option vobj);
  built : list Z;                           (* ghost, per block: id of the constructor that built its elements, 0 = none *)
  killed : list nat                         (* ghost, per block: how often its elements were destroyed *)
}.

Definition oinit (static_bs : Z) (slots : nat) : ost :=
  {| sbs := static_bs; objs := repeat None slots; built := []; killed := [] |}.

(* DynamicMeta::set_block_size: smallest 2^n >= hint *)
Fixpoint round_up (fuel : nat) (bs hint : Z) : Z :=
  match fuel with O => bs | S f => if bs <? hint then round_up f (2 * bs) hint else bs end.
Definition block_size_of (s : ost) (o : vobj) : Z := if sbs s =? 0 then obs o else sbs s.

Definition oslot (s : ost) (v : nat) : option vobj := match nth_error (objs s) v with Some x => x | None => None end.
Definition set_slot (s : ost) (v : nat) (x : option vobj) : ost :=
  {| sbs := sbs s; objs := set_nth v x (objs s); built := built s; killed := killed s |}.

Definition swap_objs (x y : vobj) : vobj * vobj :=
  ({| octor := if swap_constructor =? 1 then octor y else octor x; obs := if swap_meta =? 1 then obs y else obs x;
      oblocks := if swap_block_table =? 1 then oblocks y else oblocks x;
      oretired := if swap_retire_list =? 1 then oretired y else oretired x |},
   {| octor := if swap_constructor =? 1 then octor x else octor y; obs := if swap_meta =? 1 then obs x else obs y;
      oblocks := if swap_block_table =? 1 then oblocks x else oblocks y;
      oretired := if swap_retire_list =? 1 then oretired x else oretired y |}).

Definition ostep (s : ost) (o : oop) : ost :=
  match o with
  | QCreate v c hint =>
    match nth_error (objs s) v with
    | Some None => set_slot s v (Some {| octor := c; obs := round_up 64 1 hint; oblocks := []; oretired := 0 |})
    | _ => s
    end
  | QEnsure v i =>
    match oslot s v with
    | Some ob =>
      let bs := block_size_of s ob in
      let expect := ensure_expect (dyn_block_index i (Z.log2 bs)) in
      let have := Z.of_nat (length (oblocks ob)) in
      if (i <? 0) || table_qualified have expect then s else
      let k := Z.to_nat (create_hi have expect - create_lo have expect) in
      let tag := if create_block_constructs (octor ob) then octor ob else 0 in
      let ob' := {| octor := octor ob; obs := obs ob; oblocks := oblocks ob ++ seq (length (built s)) k;
                    oretired := S (oretired ob) |} in
      {| sbs := sbs s; objs := set_nth v (Some ob') (objs s); built := built s ++ repeat tag k;
         killed := killed s ++ repeat 0%nat k |}
    | None => s
    end
  | QMoveCtor d sv =>
    match nth_error (objs s) d, oslot s sv with
    | Some None, Some so =>
      if Nat.eqb d sv then s else
      let a := move_ctor_delegate_arg (octor so) in
      let fresh := {| octor := Z.abs a; obs := round_up 64 1 delegate_block_size; oblocks := []; oretired := 0 |} in
      let so' := {| octor := if a <? 0 then 0 else octor so; obs := obs so; oblocks := oblocks so; oretired := oretired so |} in
      let (nd, ns) := swap_objs fresh so' in
      set_slot (set_slot s d (Some nd)) sv (Some ns)
    | _, _ => s
    end
  | QMoveAssign d sv =>
    match oslot s d, oslot s sv with
    | Some od, Some so =>
      if Nat.eqb d sv || negb (move_assign_swaps =? 1) then s else
      let (nd, ns) := swap_objs od so in set_slot (set_slot s d (Some nd)) sv (Some ns)
    | _, _ => s
    end
  | QSwap a b =>
    match oslot s a, oslot s b with
    | Some oa, Some ob =>
      if Nat.eqb a b then s else
      let (na, nb) := swap_objs oa ob in set_slot (set_slot s a (Some na)) b (Some nb)
    | _, _ => s
    end
  | QDestroy v =>
    match oslot s v with
    | Some ob => {| sbs := sbs s; objs := set_nth v None (objs s); built := built s; killed := bump_all (killed s) (oblocks ob) |}
    | None => s
    end
  end.

Definition orun (s : ost) (ops : list oop) : ost := fold_left ostep ops s.

(* observables: per slot (block size, #blocks, constructor id, the constructor ids that built its blocks, retire-list
   length); totals: blocks created, blocks destroyed *)
Definition oview (s : ost) : list (option (Z * nat * Z * list Z * nat)) * (nat * nat) :=
  (map (fun x => match x with
                 | None => None
                 | Some ob => Some (block_size_of s ob, length (oblocks ob), octor ob,
                                    map (fun b => nth b (built s) (-1)) (oblocks ob), oretired ob)
                 end) (objs s),
   (length (built s), fold_left Nat.add (killed s) 0%nat)).
