(* Proofs about CV/CVModel.v (babylon::ConcurrentVector + RetireList).  Statements are fixed by Properties_C04.v. *)
From Coq Require Import ZArith List Bool Lia Arith PeanoNat.
Require Import Verif.Base.Atomics Verif.Gen.Gen_cvector Verif.Conc.Machine Verif.CV.CVModel.
Import ListNotations.
Local Open Scope Z_scope.

(* ---- vocabulary used by the statements ---- *)
Definition Reach (b t0 : Z) (progs : list (list op)) (s : st) : Prop := reachable st step (init b t0 progs) s.
Definition live (s : st) : list nat := tblocks (table s (cur s)).          (* blocks of the published table *)
Definition prefix {A} (a b : list A) : Prop := exists r, b = a ++ r.
(* where index i lives according to the current table *)
Definition slot (s : st) (i : Z) : option elem := read_elem s (live s) i.
Definition op_index (o : op) : option Z :=
  match o with OEnsure i | OIndex i | OSnapGet i => Some i | _ => None end.
Definition published (ti : tinfo) : Prop := match tst ti with TSpec _ | TDead => False | _ => True end.

(* memory-order obligations on the regenerated site tables: publication of a table / of a retire head is a
   release (acq_rel CAS), every read of _block_table and _head that is followed by a dereference is an acquire *)
Definition orders_ok : bool :=
  match sites_get_table, sites_get_table_slow, sites_snapshot, sites_retire, sites_gc with
  | [(KLoad, o_gt, _)], [(KCasS, o_cas_s, o_cas_f)], [(KLoad, o_snap, _)],
    [(KLoad, o_rl, _); (KCasS, o_rs, _); (KCasW, o_rw, _)], [(KLoad, o_gl, _); (KCasS, o_gs, _)] =>
    has_acquire o_gt && has_release o_cas_s && has_acquire o_cas_s && has_acquire o_cas_f && has_acquire o_snap &&
    has_acquire o_rl && has_release o_rs && has_acquire o_rs && has_release o_rw && has_acquire o_rw &&
    has_acquire o_gl && has_acquire o_gs
  | _, _, _, _, _ => false
  end.

(* ======================================================================================== *)
(* The generated formulas, restated (each proof breaks if the C++ expression changes)       *)
(* ======================================================================================== *)
Lemma cv_gen_ranges : forall bn e, copy_bytes bn / 8 = bn /\ create_lo bn e = bn /\ create_hi bn e = e /\
  delete_lo bn e = bn /\ delete_hi bn e = e /\ new_table_size bn e = e.
Proof.
  intros. unfold copy_bytes, create_lo, create_hi, delete_lo, delete_hi, new_table_size.
  repeat split; try reflexivity. apply Z.div_mul. lia.
Qed.
Lemma cv_table_qualified : forall n e, table_qualified n e = true <-> e <= n.
Proof. intros. unfold table_qualified. rewrite Z.geb_le. reflexivity. Qed.
Lemma cv_loser_done : forall n e, loser_done n e = true <-> e <= n.
Proof. intros. unfold loser_done. rewrite Z.geb_le. reflexivity. Qed.
Lemma cv_ensure_expect : forall bi, ensure_expect bi = bi + 1.
Proof. reflexivity. Qed.
Lemma cv_orders_ok : orders_ok = true.
Proof. vm_compute. reflexivity. Qed.
Lemma cv_ts_bits : ts_bits = 16 /\ ts_of_head_bits = 16 /\ expire_arg_bits = 16.
Proof. repeat split; reflexivity. Qed.
Lemma cv_gc_new_head : gc_new_head = 0.
Proof. reflexivity. Qed.
Lemma cv_destroy_loop : forall n, destroy_loop_hi n = n.
Proof. reflexivity. Qed.
Lemma cv_elem_loops : forall n, ctor_loop_hi n = n /\ dtor_loop_hi n = n.
Proof. intro n. split; reflexivity. Qed.

Lemma cv_current_unit : forall c, current_unit c = c / 64.
Proof. intro c. unfold current_unit. rewrite Z.shiftr_div_pow2 by lia. reflexivity. Qed.
Lemma current_unit_mono : forall a b, a <= b -> current_unit a <= current_unit b.
Proof. intros. rewrite !cv_current_unit. apply Z.div_le_mono; lia. Qed.
Lemma current_unit_nonneg : forall a, 0 <= a -> 0 <= current_unit a.
Proof. intros. rewrite cv_current_unit. apply Z.div_pos; lia. Qed.

(* tagged pointer: the stamp survives packing (48-bit pointers) *)
Lemma cv_head_packing : forall p ts, 0 <= p < 2 ^ 48 -> 0 <= ts ->
  ts_of_head (make_head p ts) = ts /\ node_of_head (make_head p ts) = p.
Proof.
  intros p ts Hp Hts. unfold ts_of_head, node_of_head, make_head.
  rewrite (Z.mod_small p (2 ^ 64)) by lia. split.
  - rewrite Z.shiftr_lor, Z.shiftr_shiftl_l, Z.sub_diag, Z.shiftl_0_r by lia.
    rewrite (Z.shiftr_div_pow2 p 48) by lia. rewrite Z.div_small by lia. apply Z.lor_0_r.
  - change 281474976710655 with (Z.ones 48). rewrite Z.land_lor_distr_l.
    rewrite !Z.land_ones by lia. rewrite Z.shiftl_mul_pow2 by lia. rewrite Z.mod_mul by lia.
    rewrite Z.mod_small by lia. reflexivity.
Qed.
Lemma node_addr_range : forall k, 0 <= node_addr k < 2 ^ 48.
Proof. intro k. unfold node_addr. pose proof (Z.mod_pos_bound ((Z.of_nat k + 1) * 16) (2 ^ 47)). lia. Qed.
Lemma stamp_at_range : forall c, 0 <= stamp_at c < 2 ^ 16.
Proof. intro c. unfold stamp_at. change ts_bits with 16. apply Z.mod_pos_bound. lia. Qed.
Lemma ts_of_new_head : forall k c, ts_of_head (make_head (node_addr k) (stamp_at c)) = stamp_at c.
Proof. intros. apply cv_head_packing. apply node_addr_range. apply stamp_at_range. Qed.

(* expire, 16-bit wrap included: if the stamp in the head is U (mod 2^16) for some unit U that is not in the
   future, `expire` implies that at least two whole units have passed since U; wrap can only hide an expiry *)
Lemma cv_expire_sound : forall hw c U, 0 <= U <= current_unit c -> ts_of_head hw = U mod 2 ^ 16 ->
  expire hw (stamp_at c) = true -> U + 2 <= current_unit c.
Proof.
  intros hw c U HU Hts He. unfold expire, stamp_at in He. change ts_bits with 16 in He. rewrite Hts in He.
  rewrite <- Zminus_mod in He. apply Z.gtb_lt in He.
  destruct (Z_lt_le_dec (current_unit c - U) 2) as [Hlt|]; [|lia].
  rewrite Z.mod_small in He by lia. lia.
Qed.
Lemma cv_expire_wrap_only_delays : forall hw c U, 0 <= U <= current_unit c -> ts_of_head hw = U mod 2 ^ 16 ->
  current_unit c - U < 2 ^ 16 -> (expire hw (stamp_at c) = true <-> U + 2 <= current_unit c).
Proof.
  intros hw c U HU Hts Hlt. split; [apply cv_expire_sound; assumption|]. intro H2.
  unfold expire, stamp_at. change ts_bits with 16. rewrite Hts. rewrite <- Zminus_mod.
  rewrite Z.mod_small by lia. apply Z.gtb_lt. lia.
Qed.
Lemma units_apart : forall r c U, current_unit r <= U -> U + 2 <= current_unit c -> c - r > 64.
Proof.
  intros r c U H1 H2. rewrite cv_current_unit in *.
  pose proof (Z.mul_div_le c 64). pose proof (Z.mul_succ_div_gt r 64). lia.
Qed.

(* static and dynamic block arithmetic agree for BLOCK_SIZE = 2^bits *)
Lemma cv_static_dynamic_agree : forall i b, 0 <= b ->
  sta_block_index i b = dyn_block_index i b /\
  sta_block_offset i (2 ^ b) = dyn_block_offset i (mask_of b) /\ sta_block_mask (2 ^ b) = mask_of b /\
  dyn_block_size (mask_of b) = 2 ^ b.
Proof.
  intros i b Hb. unfold sta_block_index, dyn_block_index, sta_block_offset, dyn_block_offset, sta_block_mask, mask_of,
    dyn_block_size. rewrite Z.ones_equiv. repeat split; try reflexivity; lia.
Qed.
Lemma cv_index_split : forall i b, 0 <= b -> 0 <= i ->
  i = dyn_block_index i b * 2 ^ b + dyn_block_offset i (mask_of b) /\ 0 <= dyn_block_offset i (mask_of b) < 2 ^ b.
Proof.
  intros i b Hb Hi. unfold dyn_block_index, dyn_block_offset, mask_of.
  rewrite Z.shiftr_div_pow2, Z.land_ones by lia.
  pose proof (Z.div_mod i (2 ^ b)). pose proof (Z.mod_pos_bound i (2 ^ b)).
  assert (0 < 2 ^ b) by (apply Z.pow_pos_nonneg; lia). split; [|lia]. rewrite Z.mul_comm. apply H. lia.
Qed.

(* ======================================================================================== *)
(* Lists                                                                                    *)
(* ======================================================================================== *)
Lemma nth_error_set_nth : forall A (l : list A) n x m,
  nth_error (set_nth n x l) m = match nth_error l m with None => None | Some y => Some (if Nat.eqb n m then x else y) end.
Proof.
  induction l as [|a l IH]; intros n x m.
  - destruct n, m; reflexivity.
  - destruct n, m; cbn; try reflexivity.
    + destruct (nth_error l m); reflexivity.
    + apply IH.
Qed.
Lemma length_set_nth : forall A (l : list A) n x, length (set_nth n x l) = length l.
Proof. induction l; intros [|n] x; cbn; auto. Qed.
Lemma table_nth : forall s k ti, nth_error (tables s) k = Some ti -> table s k = ti.
Proof. intros. unfold table. apply nth_error_nth. assumption. Qed.
Lemma prefix_refl : forall A (l : list A), prefix l l.
Proof. intros. exists []. symmetry. apply app_nil_r. Qed.
Lemma prefix_trans : forall A (a b c : list A), prefix a b -> prefix b c -> prefix a c.
Proof. intros A a b c [r1 ->] [r2 ->]. exists (r1 ++ r2). symmetry. apply app_assoc. Qed.
Lemma prefix_nth : forall A (a b : list A) n x, prefix a b -> nth_error a n = Some x -> nth_error b n = Some x.
Proof. intros A a b n x [r ->] H. rewrite nth_error_app1; [assumption|]. apply nth_error_Some. congruence. Qed.

Lemma nth_error_free_table : forall tb k c m,
  nth_error (free_table tb k c) m =
  match nth_error tb m with
  | None => None
  | Some y => Some (if Nat.eqb k m then (if Nat.eqb k 0 then set_tst y TFreed else free_tinfo y c) else y)
  end.
Proof.
  intros. unfold free_table. destruct (nth_error tb k) eqn:E.
  - rewrite nth_error_set_nth. destruct (nth_error tb m) eqn:E2; [|reflexivity].
    destruct (Nat.eqb_spec k m); [|reflexivity]. subst. rewrite E in E2. inversion E2; subst. reflexivity.
  - destruct (nth_error tb m) eqn:E2; [|reflexivity]. destruct (Nat.eqb_spec k m); [|reflexivity]. subst. congruence.
Qed.

(* what delete_list does to one table *)
Definition freed_from (c : Z) (y y' : tinfo) : Prop :=
  tblocks y' = tblocks y /\ tsup y' = tsup y /\ (tst y' = TFreed \/ tst y' = TDead) /\
  ((forall u, tst y <> TSpec u) -> tst y' = TFreed) /\
  (tfreed y' = tfreed y \/ (tfreed y = None /\ tfreed y' = Some c)).
Lemma freed_from_one : forall c y k, freed_from c y (if Nat.eqb k 0 then set_tst y TFreed else free_tinfo y c).
Proof.
  intros. unfold freed_from. destruct (Nat.eqb k 0); cbn; repeat split; auto.
  - destruct (tst y); auto.
  - intro H. destruct (tst y); auto. exfalso. eapply H; reflexivity.
  - destruct (tfreed y); auto.
Qed.
Lemma freed_from_trans : forall c y y' y'', freed_from c y y' -> freed_from c y' y'' -> freed_from c y y''.
Proof.
  unfold freed_from. intros c y y' y'' (A1 & A2 & A3 & A3' & A4) (B1 & B2 & B3 & B3' & B4).
  repeat split; try congruence.
  - intro H. apply B3'. intros u Hu. rewrite (A3' H) in Hu. discriminate.
  - destruct A4 as [A4|[A4 A5]], B4 as [B4|[B4 B5]]; try (left; congruence); try (right; split; congruence).
Qed.
Lemma nth_error_free_tables : forall ks tb c m,
  match nth_error tb m with
  | None => nth_error (free_tables tb ks c) m = None
  | Some y => exists y', nth_error (free_tables tb ks c) m = Some y' /\
                         ((~ In m ks /\ y' = y) \/ (In m ks /\ freed_from c y y'))
  end.
Proof.
  induction ks as [|k ks IH]; intros tb c m.
  - cbn. destruct (nth_error tb m); [|reflexivity]. eexists; split; [reflexivity|]. left. auto.
  - cbn [free_tables fold_left]. specialize (IH (free_table tb k c) c m). unfold free_tables in IH.
    rewrite nth_error_free_table in IH. destruct (nth_error tb m) as [y|]; [|assumption].
    destruct IH as (y' & E & H). exists y'. split; [assumption|].
    destruct (Nat.eqb_spec k m) as [->|Hne].
    + right. split; [left; reflexivity|]. destruct H as [[_ ->]|[_ H]].
      * apply freed_from_one.
      * eapply freed_from_trans; [apply freed_from_one|exact H].
    + destruct H as [[H1 ->]|[H1 H2]].
      * left. split; [|reflexivity]. intros [?|?]; auto.
      * right. split; [right; assumption|assumption].
Qed.
Lemma length_free_table : forall tb k c, length (free_table tb k c) = length tb.
Proof. intros. unfold free_table. destruct (nth_error tb k); [apply length_set_nth|reflexivity]. Qed.
Lemma length_free_tables : forall ks tb c, length (free_tables tb ks c) = length tb.
Proof. induction ks; intros; cbn; [reflexivity|]. unfold free_tables in IHks. rewrite IHks. apply length_free_table. Qed.

Lemma nat_list_eqb_eq : forall a b, nat_list_eqb a b = true -> a = b.
Proof.
  induction a as [|x a IH]; destruct b as [|y b]; cbn; intros H; try discriminate; [reflexivity|].
  apply andb_prop in H. destruct H as [H1 H2]. apply Nat.eqb_eq in H1. f_equal; auto.
Qed.
Lemma head_is_true : forall s hw hn, head_is s hw hn = true -> hword s = hw /\ hnodes s = hn.
Proof. intros s hw hn H. unfold head_is in H. apply andb_prop in H. destruct H as [H1 H2]. apply Z.eqb_eq in H1. apply nat_list_eqb_eq in H2. auto. Qed.

(* ======================================================================================== *)
(* The step function as a relation (one constructor per branch)                             *)
(* ======================================================================================== *)
Definition grows (o : op) : Prop := match o with OEnsure _ | OReserve _ | OForEach _ _ => True | _ => False end.

Inductive Step (s : st) (t : nat) (th : thread) : st -> Prop :=
| St_fast : forall o e, tpc th = Idle -> cur_op th = Some o -> expect_of s o = Some e ->
    table_qualified (tsize (table s (cur s))) e = true ->
    Step s t th (upd_thread s t (finish_op th (complete s o (cur s))))
| St_index : forall i, tpc th = Idle -> cur_op th = Some (OIndex i) ->
    Step s t th (upd_thread s t (finish_op th (if is_freed (table s (cur s)) then RUaf
                                               else RElem (read_elem s (tblocks (table s (cur s))) i))))
| St_size : tpc th = Idle -> cur_op th = Some OSize ->
    Step s t th (upd_thread s t (finish_op th (RSize (snapshot_size (tsize (table s (cur s))) (bits s)))))
| St_snap : tpc th = Idle -> cur_op th = Some OSnap ->
    Step s t th (upd_thread s t (finish_op (set_snap th (Some (cur s, clock s))) RUnit))
| St_snapget_none : forall i, tpc th = Idle -> cur_op th = Some (OSnapGet i) -> snap th = None ->
    Step s t th (upd_thread s t (finish_op th (RElem None)))
| St_snapget_uaf : forall i k taken, tpc th = Idle -> cur_op th = Some (OSnapGet i) -> snap th = Some (k, taken) ->
    is_freed (table s k) = true ->
    Step s t th (upd_thread (with_uaf s ((k, taken, clock s) :: uaf s)) t (finish_op th RUaf))
| St_snapget : forall i k taken, tpc th = Idle -> cur_op th = Some (OSnapGet i) -> snap th = Some (k, taken) ->
    is_freed (table s k) = false ->
    Step s t th (upd_thread s t (finish_op th (RElem (read_elem s (tblocks (table s k)) i))))
| St_gc_no : tpc th = Idle -> cur_op th = Some OGc -> expire (hword s) (stamp_at (clock s)) = false ->
    Step s t th (upd_thread s t (finish_op th RUnit))
| St_gc_begin : tpc th = Idle -> cur_op th = Some OGc -> expire (hword s) (stamp_at (clock s)) = true ->
    Step s t th (upd_thread s t (goto th (GcCas (hword s) (hnodes s) (clock s))))
| St_adv : forall d, tpc th = Idle -> cur_op th = Some (OAdv d) ->
    Step s t th (upd_thread (with_clock s (clock s + Z.max 0 d)) t (finish_op th RUnit))
| St_step : forall d, tpc th = Idle -> cur_op th = Some (OStep d) ->
    Step s t th (upd_thread (with_woff s (woff s + d)) t (finish_op th RUnit))
| St_prepare : forall o e, tpc th = Idle -> cur_op th = Some o -> expect_of s o = Some e ->
    table_qualified (tsize (table s (cur s))) e = false ->
    Step s t th (prepare s t th (cur s) (length (tables s)) true e)
| St_cas_win : forall bt nt bn e, tpc th = SlowCas bt nt bn e -> cur s = bt ->
    Step s t th (upd_thread (with_mem s nt
        (set_nth nt (set_tst (table s nt) TCur) (set_nth bt (supersede (table s bt) t (clock s)) (tables s)))
        (bctor s) (bdtor s) (mark_all (bst s) (skipn (length (tblocks (table s bt))) (tblocks (table s nt))) BLive))
      t (goto th (RetLoad bt nt)))
| St_cas_lose_done : forall bt nt bn e, tpc th = SlowCas bt nt bn e -> cur s <> bt ->
    loser_done (tsize (table s (cur s))) e = true ->
    let dead := slice (tblocks (table s nt)) (delete_lo bn e) (delete_hi bn e) in
    let s1 := with_mem s (cur s) (tables s) (bctor s) (bump_all (bdtor s) dead) (mark_all (bst s) dead BDead) in
    let s2 := with_mem s1 (cur s1) (free_table (tables s1) nt (clock s)) (bctor s1) (bdtor s1) (bst s1) in
    Step s t th (upd_thread s2 t (finish_op th (complete s2 (the_op th) (cur s))))
| St_cas_lose_retry : forall bt nt bn e, tpc th = SlowCas bt nt bn e -> cur s <> bt ->
    loser_done (tsize (table s (cur s))) e = false ->
    let dead := slice (tblocks (table s nt)) (delete_lo bn e) (delete_hi bn e) in
    let s1 := with_mem s (cur s) (tables s) (bctor s) (bump_all (bdtor s) dead) (mark_all (bst s) dead BDead) in
    Step s t th (prepare s1 t th (cur s) nt false e)
| St_ret_load : forall old nt, tpc th = RetLoad old nt ->
    let c0 := clock s in
    let neww := make_head (node_addr old) (stamp_at c0) in
    Step s t th (upd_thread s t (goto th (if expire (hword s) (stamp_at c0)
                                          then RetStrong old nt (hword s) (hnodes s) neww c0 c0
                                          else RetWeak old nt (hword s) (hnodes s) (retry_new_head (node_addr old) (stamp_at c0)) c0 c0)))
| St_strong_win : forall old nt hw hn neww c0 hclk, tpc th = RetStrong old nt hw hn neww c0 hclk ->
    hword s = hw -> hnodes s = hn ->
    let s1 := with_head s neww [old] (stale s) in
    let s2 := with_mem s1 (cur s1) (free_tables (set_nth old (set_tst (table s old) TListed) (tables s1)) hn (clock s))
                       (bctor s1) (bdtor s1) (bst s1) in
    Step s t th (upd_thread s2 t (finish_op th (complete s2 (the_op th) nt)))
| St_strong_lose : forall old nt hw hn neww c0 hclk, tpc th = RetStrong old nt hw hn neww c0 hclk ->
    Step s t th (upd_thread s t (goto th (RetWeak old nt (hword s) (hnodes s)
                                                   (retry_new_head (node_addr old) (stamp_at (clock s))) (clock s) (clock s))))
| St_weak_win : forall old nt hw hn neww c0 hclk, tpc th = RetWeak old nt hw hn neww c0 hclk ->
    hword s = hw -> hnodes s = hn ->
    let s1 := with_head s neww (old :: hn) (stale s || (current_unit c0 <? current_unit hclk)) in
    let s2 := with_mem s1 (cur s1) (set_nth old (set_tst (table s old) TListed) (tables s1)) (bctor s1) (bdtor s1) (bst s1) in
    Step s t th (upd_thread s2 t (finish_op th (complete s2 (the_op th) nt)))
| St_weak_lose : forall old nt hw hn neww c0 hclk, tpc th = RetWeak old nt hw hn neww c0 hclk ->
    Step s t th (upd_thread s t (goto th (RetWeak old nt (hword s) (hnodes s)
                                                   (retry_new_head (node_addr old) (stamp_at (clock s))) (clock s) (clock s))))
| St_gc_win : forall hw hn c1, tpc th = GcCas hw hn c1 -> hword s = hw -> hnodes s = hn ->
    let s1 := with_head s gc_new_head [] (stale s) in
    let s2 := with_mem s1 (cur s1) (free_tables (tables s1) hn (clock s)) (bctor s1) (bdtor s1) (bst s1) in
    Step s t th (upd_thread s2 t (finish_op th RUnit))
| St_gc_lose : forall hw hn c1, tpc th = GcCas hw hn c1 ->
    Step s t th (upd_thread s t (finish_op th RUnit)).

(* get_current_timestamp reads a monotonic clock (regenerated clock id): the stamp source is elapsed time, whatever
   the adversary does to the calendar clock *)
Lemma cv_clock_is_monotonic : clock_is_monotonic clock_id = true.
Proof. reflexivity. Qed.
Lemma tsrc_clock : forall s, tsrc s = clock s.
Proof. intro s. unfold tsrc. rewrite cv_clock_is_monotonic. reflexivity. Qed.

Lemma step_grow : forall s t th o e, tpc th = Idle -> cur_op th = Some o -> expect_of s o = Some e ->
  Step s t th (grow s t th o e).
Proof.
  intros. unfold grow. destruct (table_qualified _ _) eqn:Q; [eapply St_fast|eapply St_prepare]; eauto.
Qed.

Lemma step_Step : forall s t s', step s t = Some s' ->
  exists th, nth_error (threads s) t = Some th /\ Step s t th s'.
Proof.
  intros s t s' H. unfold step in H. destruct (nth_error (threads s) t) as [th|] eqn:Eth; [|discriminate].
  exists th. split; [reflexivity|]. unfold step_thread in H. rewrite ?tsrc_clock in H.
  destruct (tpc th) eqn:Epc.
  - destruct (cur_op th) as [o|] eqn:Eo; [|discriminate].
    destruct o; cbn [expect_of] in H.
    + injection H as <-. apply step_grow; auto.
    + injection H as <-. apply step_grow; auto.
    + inversion H; subst. apply St_index; assumption.
    + inversion H; subst. apply St_size; assumption.
    + inversion H; subst. apply St_snap; assumption.
    + destruct (snap th) as [[k taken]|] eqn:Es.
      * destruct (is_freed (table s k)) eqn:Ef; inversion H; subst.
        -- eapply St_snapget_uaf; eauto.
        -- eapply St_snapget; eauto.
      * inversion H; subst. eapply St_snapget_none; eauto.
    + injection H as <-. apply step_grow; auto.
    + destruct (expire _ _) eqn:Ee; inversion H; subst; [apply St_gc_begin|apply St_gc_no]; assumption.
    + inversion H; subst. apply St_adv; assumption.
    + inversion H; subst. apply St_step; assumption.
  - destruct (Nat.eqb_spec (cur s) bt) as [Ec|Ec].
    + inversion H; subst. eapply St_cas_win; eauto.
    + cbv zeta in H. cbn [cur tables with_mem] in H.
      destruct (loser_done _ _) eqn:El; inversion H; subst.
      * eapply St_cas_lose_done; eauto.
      * eapply St_cas_lose_retry; eauto.
  - cbv zeta in H. pose proof (St_ret_load s t th old nt Epc) as P. cbv zeta in P.
    destruct (expire _ _); inversion H; subst; exact P.
  - destruct (head_is s hw hn) eqn:Eh.
    + apply head_is_true in Eh. destruct Eh. inversion H; subst. eapply St_strong_win; eauto.
    + inversion H; subst. eapply St_strong_lose; eauto.
  - destruct (head_is s hw hn) eqn:Eh.
    + apply head_is_true in Eh. destruct Eh. inversion H; subst. eapply St_weak_win; eauto.
    + inversion H; subst. eapply St_weak_lose; eauto.
  - destruct (head_is s hw hn) eqn:Eh.
    + apply head_is_true in Eh. destruct Eh. inversion H; subst. eapply St_gc_win; eauto.
    + inversion H; subst. eapply St_gc_lose; eauto.
Qed.

(* ======================================================================================== *)
(* Invariant 1: life cycle of block tables; every published table is a prefix of the current *)
(* ======================================================================================== *)
Definition T (s : st) (k : nat) : option tinfo := nth_error (tables s) k.

Definition pc_ok (s : st) (t : nat) (p : pc) : Prop :=
  match p with
  | Idle | GcCas _ _ _ => True
  | SlowCas bt nt bn e => exists tb tn spec, T s bt = Some tb /\ T s nt = Some tn /\ published tb /\ tst tn = TSpec t /\
      tblocks tn = tblocks tb ++ spec /\ bn = tsize tb /\ tsup tn = None /\ tfreed tn = None /\ nt <> 0%nat
  | RetLoad old nt | RetStrong old nt _ _ _ _ _ | RetWeak old nt _ _ _ _ _ =>
      exists to tn, T s old = Some to /\ tst to = TRetiring t /\ T s nt = Some tn /\ published tn
  end.

Record Inv1 (s : st) : Prop := {
  i1_cur : exists ti, T s (cur s) = Some ti /\ tst ti = TCur /\ tsup ti = None /\ tfreed ti = None;
  i1_uniq : forall k ti, T s k = Some ti -> tst ti = TCur -> k = cur s;
  i1_prefix : forall k ti, T s k = Some ti -> published ti -> prefix (tblocks ti) (live s);
  i1_pc : forall t th, nth_error (threads s) t = Some th -> pc_ok s t (tpc th);
  i1_snap : forall t th k taken, nth_error (threads s) t = Some th -> snap th = Some (k, taken) ->
      exists ti, T s k = Some ti /\ published ti;
  i1_list : forall k, In k (hnodes s) -> exists ti, T s k = Some ti /\ tst ti = TListed
}.

Lemma threads_upd : forall s0 t th' t',
  nth_error (threads (upd_thread s0 t th')) t' =
  match nth_error (threads s0) t' with None => None | Some y => Some (if Nat.eqb t t' then th' else y) end.
Proof. intros. cbn. apply nth_error_set_nth. Qed.

Lemma inv1_init : forall b t0 progs, Inv1 (init b t0 progs).
Proof.
  intros. constructor; cbn.
  - exists empty_table. repeat split; reflexivity.
  - intros [|k] ti H; [reflexivity|]. destruct k; discriminate.
  - intros [|k] ti H Hp; [|destruct k; discriminate]. inversion H; subst. apply prefix_refl.
  - intros t th H. apply nth_error_In in H. apply in_map_iff in H. destruct H as (p & <- & _). exact I.
  - intros t th k taken H Hs. apply nth_error_In in H. apply in_map_iff in H. destruct H as (p & <- & _). discriminate.
  - intros k [].
Qed.

(* how the ghost times / status of a table evolve in one step of thread t (read backwards from s') *)
Definition times_ext (s s' : st) (t : nat) : Prop :=
  forall k ti', T s' k = Some ti' ->
    (T s k = None /\ tsup ti' = None /\ tfreed ti' = None) \/
    exists ti, T s k = Some ti /\
      (tsup ti' = tsup ti \/ (tsup ti = None /\ tst ti = TCur /\ tsup ti' = Some (clock s))) /\
      (tfreed ti' = tfreed ti \/
       (tfreed ti = None /\ tfreed ti' = Some (clock s) /\
        ((tst ti = TListed /\ In k (hnodes s) /\ ~ In k (hnodes s')) \/ (tst ti = TSpec t /\ tst ti' = TDead)))) /\
      (tst ti = TDead -> tst ti' = TDead).

(* what a step of thread t may do to the table store without disturbing the other threads *)
Definition tables_ext (s s' : st) (t : nat) : Prop :=
  forall k ti, T s k = Some ti -> exists ti', T s' k = Some ti' /\
    (published ti -> published ti' /\ tblocks ti' = tblocks ti) /\
    (forall u, u <> t -> tst ti = TSpec u \/ tst ti = TRetiring u -> ti' = ti).

Lemma pc_ok_ext : forall s s' t t' p, tables_ext s s' t -> t' <> t -> pc_ok s t' p -> pc_ok s' t' p.
Proof.
  intros s s' t t' p Hext Hne H. destruct p; cbn in *; auto.
  - destruct H as (tb & tn & spec & Hb & Hn & Hpb & Hst & Hbl & Hbn & Hsup & Hfr & Hnz).
    destruct (Hext _ _ Hb) as (tb' & Hb' & Hpub & _). destruct (Hpub Hpb) as [Hpb' Hbl'].
    destruct (Hext _ _ Hn) as (tn' & Hn' & _ & Hsame). rewrite (Hsame t' Hne (or_introl Hst)) in Hn'.
    exists tb', tn, spec. repeat split; auto; try congruence. unfold tsize. rewrite Hbl'. assumption.
  - destruct H as (to & tn & Ho & Hst & Hn & Hp).
    destruct (Hext _ _ Ho) as (to' & Ho' & _ & Hsame). rewrite (Hsame t' Hne (or_intror Hst)) in Ho'.
    destruct (Hext _ _ Hn) as (tn' & Hn' & Hpub & _). exists to, tn'. repeat split; auto. apply Hpub; assumption.
  - destruct H as (to & tn & Ho & Hst & Hn & Hp).
    destruct (Hext _ _ Ho) as (to' & Ho' & _ & Hsame). rewrite (Hsame t' Hne (or_intror Hst)) in Ho'.
    destruct (Hext _ _ Hn) as (tn' & Hn' & Hpub & _). exists to, tn'. repeat split; auto. apply Hpub; assumption.
  - destruct H as (to & tn & Ho & Hst & Hn & Hp).
    destruct (Hext _ _ Ho) as (to' & Ho' & _ & Hsame). rewrite (Hsame t' Hne (or_intror Hst)) in Ho'.
    destruct (Hext _ _ Hn) as (tn' & Hn' & Hpub & _). exists to, tn'. repeat split; auto. apply Hpub; assumption.
Qed.

(* generic preservation: the stepping thread t ends in th', the store evolves by tables_ext *)
Lemma inv1_frame : forall s s' t th th',
  Inv1 s -> nth_error (threads s) t = Some th -> threads s' = set_nth t th' (threads s) ->
  tables_ext s s' t -> times_ext s s' t ->
  (exists ti, T s' (cur s') = Some ti /\ tst ti = TCur /\ tsup ti = None /\ tfreed ti = None) ->
  (forall k ti, T s' k = Some ti -> tst ti = TCur -> k = cur s') ->
  prefix (live s) (live s') ->
  (forall k ti', T s' k = Some ti' -> published ti' ->
     (exists ti, T s k = Some ti /\ published ti) \/ prefix (tblocks ti') (live s')) ->
  pc_ok s' t (tpc th') ->
  (forall k taken, snap th' = Some (k, taken) -> exists ti, T s' k = Some ti /\ published ti) ->
  (forall k, In k (hnodes s') -> exists ti, T s' k = Some ti /\ tst ti = TListed) ->
  Inv1 s' /\ prefix (live s) (live s') /\ tables_ext s s' t /\ times_ext s s' t.
Proof.
  intros s s' t th th' I Hth Hthr Hext Htime Hcur Huniq Hlive Hnew Hpc Hsnap Hlist.
  split; [|auto].
  constructor; auto.
  - intros k ti' Hk Hp. destruct (Hnew _ _ Hk Hp) as [(ti & Hk0 & Hp0)|]; [|assumption].
    destruct (Hext _ _ Hk0) as (ti'' & Hk' & Hpub & _). unfold T in *. rewrite Hk in Hk'. inversion Hk'; subst ti''.
    destruct (Hpub Hp0) as [_ Hbl]. rewrite Hbl. eapply prefix_trans; [|exact Hlive]. eapply i1_prefix; eauto.
  - intros t' th0 H0. rewrite Hthr, nth_error_set_nth in H0.
    destruct (nth_error (threads s) t') as [y|] eqn:Ey; [|discriminate]. inversion H0; subst th0; clear H0.
    destruct (Nat.eqb_spec t t') as [<-|Hne]; [assumption|].
    eapply pc_ok_ext; eauto. eapply i1_pc; eauto.
  - intros t' th0 k taken H0 Hs. rewrite Hthr, nth_error_set_nth in H0.
    destruct (nth_error (threads s) t') as [y|] eqn:Ey; [|discriminate]. inversion H0; subst th0; clear H0.
    destruct (Nat.eqb_spec t t') as [<-|Hne]; [eapply Hsnap; eauto|].
    destruct (i1_snap s I _ _ _ _ Ey Hs) as (ti & Hk & Hp). destruct (Hext _ _ Hk) as (ti' & Hk' & Hpub & _).
    exists ti'. split; [assumption|]. apply Hpub; assumption.
Qed.

Lemma tables_ext_refl : forall s s' t, tables s' = tables s -> tables_ext s s' t.
Proof. intros s s' t E k ti H. exists ti. unfold T in *. rewrite E. repeat split; auto. Qed.

(* steps that leave tables, cur and the retire list alone *)
Lemma inv1_local : forall s s' t th th',
  Inv1 s -> nth_error (threads s) t = Some th -> threads s' = set_nth t th' (threads s) ->
  tables s' = tables s -> cur s' = cur s -> hnodes s' = hnodes s ->
  pc_ok s t (tpc th') ->
  (forall k taken, snap th' = Some (k, taken) -> exists ti, T s k = Some ti /\ published ti) ->
  Inv1 s' /\ prefix (live s) (live s') /\ tables_ext s s' t /\ times_ext s s' t.
Proof.
  intros s s' t th th' I Hth Hthr Et Ec Eh Hpc Hsnap.
  assert (ET : forall k, T s' k = T s k) by (intro; unfold T; rewrite Et; reflexivity).
  assert (EL : live s' = live s) by (unfold live, table; rewrite Et, Ec; reflexivity).
  eapply inv1_frame; eauto.
  - apply tables_ext_refl; assumption.
  - intros k ti' H'. rewrite ET in H'. right. exists ti'. auto.
  - rewrite Ec, ET. apply (i1_cur s I).
  - intros k ti. rewrite ET, Ec. apply (i1_uniq s I).
  - rewrite EL. apply prefix_refl.
  - intros k ti' H Hp. left. exists ti'. rewrite <- ET. auto.
  - destruct (tpc th'); cbn in *; auto; repeat setoid_rewrite ET; assumption.
  - intros k taken H. rewrite ET. eauto.
  - intros k. rewrite Eh, ET. apply (i1_list s I).
Qed.

(* projections of `prepare` *)
Lemma prepare_tables : forall s t th bt nt fresh e,
  tables (prepare s t th bt nt fresh e) =
  let cont := fill_contents s bt (tsize (table s bt)) e in
  if fresh then tables s ++ [{| tblocks := cont; tst := TSpec t; tsup := None; tfreed := None; tfrees := 0 |}]
  else set_nth nt (set_blocks (table s nt) cont) (tables s).
Proof. intros. unfold prepare. destruct (is_freed (table s bt)), fresh; reflexivity. Qed.
Lemma prepare_threads : forall s t th bt nt fresh e,
  threads (prepare s t th bt nt fresh e) = set_nth t (goto th (SlowCas bt nt (tsize (table s bt)) e)) (threads s).
Proof. intros. unfold prepare. destruct (is_freed (table s bt)); reflexivity. Qed.
Lemma prepare_cur : forall s t th bt nt fresh e, cur (prepare s t th bt nt fresh e) = cur s.
Proof. intros. unfold prepare. destruct (is_freed (table s bt)); reflexivity. Qed.
Lemma prepare_hnodes : forall s t th bt nt fresh e, hnodes (prepare s t th bt nt fresh e) = hnodes s.
Proof. intros. unfold prepare. destruct (is_freed (table s bt)); reflexivity. Qed.
Lemma prepare_bits : forall s t th bt nt fresh e, bits (prepare s t th bt nt fresh e) = bits s.
Proof. intros. unfold prepare. destruct (is_freed (table s bt)); reflexivity. Qed.

Lemma fill_contents_ext : forall s bt tb e, T s bt = Some tb ->
  fill_contents s bt (tsize tb) e = tblocks tb ++ seq (length (bctor s)) (Z.to_nat (e - tsize tb)).
Proof.
  intros s bt tb e H. unfold fill_contents. rewrite (table_nth _ _ _ H).
  destruct (cv_gen_ranges (tsize tb) e) as (-> & -> & -> & _). unfold tsize. rewrite Nat2Z.id, firstn_all. reflexivity.
Qed.

Lemma live_eq : forall s s' ti, T s (cur s) = Some ti -> T s' (cur s') = Some ti -> live s' = live s.
Proof. intros s s' ti H H'. unfold live. rewrite (table_nth _ _ _ H), (table_nth _ _ _ H'). reflexivity. Qed.

Lemma snap_ext : forall s s' t k, tables_ext s s' t -> (exists ti, T s k = Some ti /\ published ti) ->
  exists ti, T s' k = Some ti /\ published ti.
Proof. intros s s' t k Hext (ti & H & Hp). destruct (Hext _ _ H) as (ti' & H' & Hpub & _). exists ti'. split; auto. apply Hpub; auto. Qed.

Lemma published_cur : forall ti, tst ti = TCur -> published ti.
Proof. intros ti H. unfold published. rewrite H. exact I. Qed.

Lemma inv1_step : forall s t th s', Inv1 s -> nth_error (threads s) t = Some th -> Step s t th s' ->
  Inv1 s' /\ prefix (live s) (live s') /\ tables_ext s s' t /\ times_ext s s' t.
Proof.
  intros s t th s' IV Hth HS.
  pose proof (i1_pc s IV _ _ Hth) as Hpc0.
  assert (Hsn0 : forall k taken, snap th = Some (k, taken) -> exists ti, T s k = Some ti /\ published ti)
    by (intros; eapply (i1_snap s IV); eauto).
  destruct (i1_cur s IV) as (tc & Hc & Hcst & Hcsup & Hcfr).
  destruct HS.
  - match goal with |- Inv1 (upd_thread _ _ ?x) /\ _ => eapply inv1_local with (th' := x); [exact IV|exact Hth|reflexivity|reflexivity|reflexivity|reflexivity| |] end; [exact Logic.I|exact Hsn0].
  - match goal with |- Inv1 (upd_thread _ _ ?x) /\ _ => eapply inv1_local with (th' := x); [exact IV|exact Hth|reflexivity|reflexivity|reflexivity|reflexivity| |] end; [exact Logic.I|exact Hsn0].
  - match goal with |- Inv1 (upd_thread _ _ ?x) /\ _ => eapply inv1_local with (th' := x); [exact IV|exact Hth|reflexivity|reflexivity|reflexivity|reflexivity| |] end; [exact Logic.I|exact Hsn0].
  - match goal with |- Inv1 (upd_thread _ _ ?x) /\ _ => eapply inv1_local with (th' := x); [exact IV|exact Hth|reflexivity|reflexivity|reflexivity|reflexivity| |] end; [exact Logic.I|].
    cbn. intros k taken E. inversion E; subst. exists tc. split; [assumption|apply published_cur; assumption].
  - match goal with |- Inv1 (upd_thread _ _ ?x) /\ _ => eapply inv1_local with (th' := x); [exact IV|exact Hth|reflexivity|reflexivity|reflexivity|reflexivity| |] end; [exact Logic.I|exact Hsn0].
  - match goal with |- Inv1 (upd_thread _ _ ?x) /\ _ => eapply inv1_local with (th' := x); [exact IV|exact Hth|reflexivity|reflexivity|reflexivity|reflexivity| |] end; [exact Logic.I|exact Hsn0].
  - match goal with |- Inv1 (upd_thread _ _ ?x) /\ _ => eapply inv1_local with (th' := x); [exact IV|exact Hth|reflexivity|reflexivity|reflexivity|reflexivity| |] end; [exact Logic.I|exact Hsn0].
  - match goal with |- Inv1 (upd_thread _ _ ?x) /\ _ => eapply inv1_local with (th' := x); [exact IV|exact Hth|reflexivity|reflexivity|reflexivity|reflexivity| |] end; [exact Logic.I|exact Hsn0].
  - match goal with |- Inv1 (upd_thread _ _ ?x) /\ _ => eapply inv1_local with (th' := x); [exact IV|exact Hth|reflexivity|reflexivity|reflexivity|reflexivity| |] end; [exact Logic.I|exact Hsn0].
  - match goal with |- Inv1 (upd_thread _ _ ?x) /\ _ => eapply inv1_local with (th' := x); [exact IV|exact Hth|reflexivity|reflexivity|reflexivity|reflexivity| |] end; [exact Logic.I|exact Hsn0].
  - match goal with |- Inv1 (upd_thread _ _ ?x) /\ _ => eapply inv1_local with (th' := x); [exact IV|exact Hth|reflexivity|reflexivity|reflexivity|reflexivity| |] end; [exact Logic.I|exact Hsn0].
  - (* prepare, fresh table *)
    set (s' := prepare s t th (cur s) (length (tables s)) true e).
    assert (ET : forall k y, T s k = Some y -> T s' k = Some y).
    { intros k y Hk. unfold T, s'. rewrite prepare_tables. cbv zeta. rewrite nth_error_app1; [assumption|].
      apply nth_error_Some. unfold T in Hk. congruence. }
    assert (ETb : forall k y, T s' k = Some y -> T s k = Some y \/ (k = length (tables s) /\ tst y = TSpec t /\ tsup y = None /\ tfreed y = None)).
    { intros k y Hk. unfold T, s' in Hk. rewrite prepare_tables in Hk. cbv zeta in Hk.
      destruct (Nat.lt_ge_cases k (length (tables s))) as [Hlt|Hge].
      - rewrite nth_error_app1 in Hk by assumption. left. assumption.
      - rewrite nth_error_app2 in Hk by assumption. destruct (k - length (tables s))%nat eqn:Ek.
        + cbn in Hk. inversion Hk; subst. right. repeat split; try reflexivity. lia.
        + destruct n; discriminate. }
    assert (Hc' : T s' (cur s') = Some tc) by (unfold s' at 2; rewrite prepare_cur; apply ET; assumption).
    assert (Htime : times_ext s s' t).
    { intros k y' Hk'. destruct (ETb _ _ Hk') as [Hk0|(-> & _ & Hs1 & Hs2)].
      - right. exists y'. auto.
      - left. split; [|auto]. apply nth_error_None. lia. }
    eapply (inv1_frame s) with (th' := goto th (SlowCas (cur s) (length (tables s)) (tsize (table s (cur s))) e)); [exact IV|exact Hth| | |exact Htime| | | | | | | ].
    + apply prepare_threads.
    + intros k y Hk. exists y. split; [apply ET; assumption|]. split; auto.
    + exists tc. auto.
    + intros k y Hk Hy. destruct (ETb _ _ Hk) as [Hk0|(_ & Hs & _)]; [|congruence].
      unfold s'. rewrite prepare_cur. eapply (i1_uniq s IV); eauto.
    + rewrite (live_eq s s' tc) by assumption. apply prefix_refl.
    + intros k y Hk Hp. destruct (ETb _ _ Hk) as [Hk0|(_ & Hs & _)]; [left; eauto|]. unfold published in Hp. rewrite Hs in Hp. contradiction.
    + cbn. rewrite (table_nth _ _ _ Hc).
      exists tc, {| tblocks := fill_contents s (cur s) (tsize tc) e; tst := TSpec t; tsup := None; tfreed := None; tfrees := 0 |}.
      eexists. repeat split.
      * apply ET; assumption.
      * unfold T, s'. rewrite prepare_tables. cbv zeta. rewrite nth_error_app2 by lia. rewrite Nat.sub_diag.
        rewrite (table_nth _ _ _ Hc). reflexivity.
      * apply published_cur; assumption.
      * cbn. apply fill_contents_ext. assumption.
      * unfold T in Hc. intro E0. apply length_zero_iff_nil in E0. rewrite E0 in Hc. destruct (cur s); discriminate.
    + cbn. intros k taken Hs. destruct (Hsn0 _ _ Hs) as (y & Hy & Hp). exists y. split; [apply ET; assumption|assumption].
    + intros k Hk. unfold s' in Hk. rewrite prepare_hnodes in Hk. destruct (i1_list s IV _ Hk) as (y & Hy & Hst). exists y. split; auto.
  - (* CAS on _block_table succeeds *)
    rewrite H in Hpc0. cbn in Hpc0. destruct Hpc0 as (tb & tn & spec & Hb & Hn & Hpb & Hst & Hbl & Hbn & Hsup & Hfr & Hnz).
    subst bt. rewrite Hc in Hb. inversion Hb; subst tb. clear Hb.
    assert (Hne : nt <> cur s) by (intro E; subst nt; rewrite Hc in Hn; inversion Hn; subst; congruence).
    rewrite (table_nth _ _ _ Hn), (table_nth s _ _ Hc).
    match goal with |- Inv1 ?x /\ _ => set (s' := x) end.
    assert (ET : forall k, T s' k = match T s k with None => None | Some y =>
               Some (if Nat.eqb nt k then set_tst tn TCur else if Nat.eqb (cur s) k then supersede tc t (clock s) else y) end).
    { intro k. unfold T, s'. cbn. rewrite !nth_error_set_nth. destruct (nth_error (tables s) k); reflexivity. }
    assert (Hn' : T s' nt = Some (set_tst tn TCur)) by (rewrite ET, Hn, Nat.eqb_refl; reflexivity).
    assert (Hext : tables_ext s s' t).
    { intros k y Hk. rewrite ET, Hk. eexists; split; [reflexivity|].
      destruct (Nat.eqb_spec nt k) as [<-|N1].
      - rewrite Hn in Hk. inversion Hk; subst y. split.
        + intro Hp. unfold published in Hp. rewrite Hst in Hp. contradiction.
        + intros u Hu [E|E]; rewrite Hst in E; congruence.
      - destruct (Nat.eqb_spec (cur s) k) as [<-|N2].
        + rewrite Hc in Hk. inversion Hk; subst y. split.
          * intros _. split; [exact I|reflexivity].
          * intros u Hu [E|E]; rewrite Hcst in E; congruence.
        + split; auto. }
    assert (Htime : times_ext s s' t).
    { intros k y' Hk'. right. rewrite ET in Hk'. destruct (T s k) as [y|] eqn:Hk; [|discriminate]. inversion Hk'; subst y'; clear Hk'.
      exists y. split; [reflexivity|].
      destruct (Nat.eqb_spec nt k) as [<-|N1].
      - rewrite Hn in Hk. inversion Hk; subst y. cbn. repeat split; auto. intro E; congruence.
      - destruct (Nat.eqb_spec (cur s) k) as [<-|N2]; [|auto].
        rewrite Hc in Hk. inversion Hk; subst y. cbn. split; [right; auto|]. split; [left; auto|]. intro E; congruence. }
    eapply (inv1_frame s) with (th' := goto th (RetLoad (cur s) nt)); [exact IV|exact Hth|reflexivity|exact Hext|exact Htime| | | | | | | ].
    + exists (set_tst tn TCur). cbn. repeat split; auto.
    + intros k y Hk Hy. rewrite ET in Hk. destruct (T s k) as [y0|] eqn:Ek; [|discriminate]. inversion Hk; subst y; clear Hk.
      destruct (Nat.eqb_spec nt k) as [<-|N1]; [reflexivity|].
      destruct (Nat.eqb_spec (cur s) k) as [<-|N2]; [cbn in Hy; discriminate|].
      exfalso. apply N2. symmetry. eapply (i1_uniq s IV); eauto.
    + unfold live at 2. cbn [cur s' upd_thread with_mem]. rewrite (table_nth _ _ _ Hn'). cbn.
      unfold live. rewrite (table_nth _ _ _ Hc). exists spec. assumption.
    + intros k y Hk Hp. rewrite ET in Hk. destruct (T s k) as [y0|] eqn:Ek; [|discriminate]. inversion Hk; subst y; clear Hk.
      destruct (Nat.eqb_spec nt k) as [<-|N1].
      * right. unfold live. cbn [cur s' upd_thread with_mem]. rewrite (table_nth _ _ _ Hn'). apply prefix_refl.
      * left. exists y0. split; [reflexivity|]. destruct (Nat.eqb_spec (cur s) k) as [<-|N2]; [|assumption].
        rewrite Hc in Ek. inversion Ek; subst. apply published_cur; assumption.
    + cbn. exists (supersede tc t (clock s)), (set_tst tn TCur). repeat split; auto.
      rewrite ET, Hc. destruct (Nat.eqb_spec nt (cur s)); [contradiction|]. rewrite Nat.eqb_refl. reflexivity.
    + cbn. intros k taken Hs. eapply snap_ext; eauto.
    + intros k Hk. cbn in Hk. destruct (i1_list s IV _ Hk) as (y & Hy & Hyst). exists y. split; [|assumption].
      rewrite ET, Hy. destruct (Nat.eqb_spec nt k) as [<-|N1]; [congruence|].
      destruct (Nat.eqb_spec (cur s) k) as [<-|N2]; [congruence|reflexivity].
  - (* CAS lost, winner's table is large enough: delete the speculative table *)
    rewrite H in Hpc0. cbn in Hpc0. destruct Hpc0 as (tb & tn & spec & Hb & Hn & Hpb & Hst & Hbl & Hbn & Hsup & Hfr & Hnz).
    subst s1 s2. cbn [cur tables with_mem].
    match goal with |- Inv1 ?x /\ _ => set (s' := x) end.
    assert (ET : forall k, T s' k = match T s k with None => None | Some y =>
               Some (if Nat.eqb nt k then free_tinfo y (clock s) else y) end).
    { intro k. unfold T, s'. cbn. rewrite nth_error_free_table. destruct (nth_error (tables s) k); [|reflexivity].
      destruct (Nat.eqb_spec nt k); [|reflexivity]. destruct (Nat.eqb_spec nt 0); [contradiction|reflexivity]. }
    assert (Hne : nt <> cur s) by (intro E; subst nt; congruence).
    assert (Hc' : T s' (cur s') = Some tc).
    { replace (cur s') with (cur s) by reflexivity. rewrite ET, Hc. destruct (Nat.eqb_spec nt (cur s)); [contradiction|reflexivity]. }
    assert (Hext : tables_ext s s' t).
    { intros k y Hk. rewrite ET, Hk. eexists; split; [reflexivity|]. destruct (Nat.eqb_spec nt k) as [<-|N1]; [|auto].
      rewrite Hn in Hk. inversion Hk; subst y. split.
      - intro Hp. unfold published in Hp. rewrite Hst in Hp. contradiction.
      - intros u Hu [E|E]; rewrite Hst in E; congruence. }
    assert (Htime : times_ext s s' t).
    { intros k y' Hk'. right. rewrite ET in Hk'. destruct (T s k) as [y|] eqn:Hk; [|discriminate]. inversion Hk'; subst y'; clear Hk'.
      exists y. split; [reflexivity|].
      destruct (Nat.eqb_spec nt k) as [<-|N1]; [|auto].
      rewrite Hn in Hk. inversion Hk; subst y. cbn. rewrite Hfr, Hst. split; [left; auto|]. split; [right; auto|]. intro E; discriminate. }
    eapply (inv1_frame s) with (th' := finish_op th _); [exact IV|exact Hth| |exact Hext|exact Htime| | | | | | | ].
    + reflexivity.
    + exists tc. auto.
    + intros k y Hk Hy. rewrite ET in Hk. destruct (T s k) as [y0|] eqn:Ek; [|discriminate]. inversion Hk; subst y; clear Hk.
      destruct (Nat.eqb_spec nt k) as [<-|N1].
      * rewrite Hn in Ek. inversion Ek; subst y0. cbn in Hy. rewrite Hst in Hy. discriminate.
      * change (cur s') with (cur s). eapply (i1_uniq s IV); eauto.
    + rewrite (live_eq s s' tc) by assumption. apply prefix_refl.
    + intros k y Hk Hp. rewrite ET in Hk. destruct (T s k) as [y0|] eqn:Ek; [|discriminate]. inversion Hk; subst y; clear Hk.
      destruct (Nat.eqb_spec nt k) as [<-|N1].
      * rewrite Hn in Ek. inversion Ek; subst y0. unfold published in Hp. cbn in Hp. rewrite Hst in Hp. contradiction.
      * left. eauto.
    + exact I.
    + cbn. intros k taken Hs. eapply snap_ext; eauto.
    + intros k Hk. cbn in Hk. destruct (i1_list s IV _ Hk) as (y & Hy & Hyst). exists y. split; [|assumption].
      rewrite ET, Hy. destruct (Nat.eqb_spec nt k) as [<-|N1]; [congruence|reflexivity].
  - (* CAS lost, refill the speculative table from the winner's *)
    rewrite H in Hpc0. cbn in Hpc0. destruct Hpc0 as (tb & tn & spec & Hb & Hn & Hpb & Hst & Hbl & Hbn & Hsup & Hfr & Hnz).
    assert (Hne : nt <> cur s) by (intro E; subst nt; congruence).
    set (s' := prepare s1 t th (cur s) nt false e).
    assert (Etab : table s1 = table s) by reflexivity.
    assert (ET : forall k, T s' k = match T s k with None => None | Some y =>
               Some (if Nat.eqb nt k then set_blocks tn (fill_contents s1 (cur s) (tsize tc) e) else y) end).
    { intro k. unfold T, s'. rewrite prepare_tables. cbv zeta. rewrite nth_error_set_nth. rewrite Etab.
      rewrite (table_nth _ _ _ Hn), (table_nth _ _ _ Hc). reflexivity. }
    assert (Hc' : T s' (cur s') = Some tc).
    { replace (cur s') with (cur s) by (unfold s'; rewrite prepare_cur; reflexivity). rewrite ET, Hc. destruct (Nat.eqb_spec nt (cur s)); [contradiction|reflexivity]. }
    assert (Hext : tables_ext s s' t).
    { intros k y Hk. rewrite ET, Hk. eexists; split; [reflexivity|]. destruct (Nat.eqb_spec nt k) as [<-|N1]; [|auto].
      rewrite Hn in Hk. inversion Hk; subst y. split.
      - intro Hp. unfold published in Hp. rewrite Hst in Hp. contradiction.
      - intros u Hu [E|E]; rewrite Hst in E; congruence. }
    assert (Htime : times_ext s s' t).
    { intros k y' Hk'. right. rewrite ET in Hk'. destruct (T s k) as [y|] eqn:Hk; [|discriminate]. inversion Hk'; subst y'; clear Hk'.
      exists y. split; [reflexivity|].
      destruct (Nat.eqb_spec nt k) as [<-|N1]; [|auto]. rewrite Hn in Hk. inversion Hk; subst y. cbn. auto. }
    eapply (inv1_frame s) with (th' := goto th (SlowCas (cur s) nt (tsize (table s (cur s))) e)); [exact IV|exact Hth| |exact Hext|exact Htime| | | | | | | ].
    + unfold s'. rewrite prepare_threads. reflexivity.
    + exists tc. auto.
    + intros k y Hk Hy. unfold s'. rewrite prepare_cur. cbn.
      rewrite ET in Hk. destruct (T s k) as [y0|] eqn:Ek; [|discriminate]. inversion Hk; subst y; clear Hk.
      destruct (Nat.eqb_spec nt k) as [<-|N1].
      * rewrite Hn in Ek. inversion Ek; subst y0. cbn in Hy. congruence.
      * change (cur s') with (cur s). eapply (i1_uniq s IV); eauto.
    + rewrite (live_eq s s' tc) by assumption. apply prefix_refl.
    + intros k y Hk Hp. rewrite ET in Hk. destruct (T s k) as [y0|] eqn:Ek; [|discriminate]. inversion Hk; subst y; clear Hk.
      destruct (Nat.eqb_spec nt k) as [<-|N1].
      * rewrite Hn in Ek. inversion Ek; subst y0. unfold published in Hp. cbn in Hp. rewrite Hst in Hp. contradiction.
      * left. eauto.
    + cbn [pc_ok tpc goto]. rewrite (table_nth _ _ _ Hc). exists tc, (set_blocks tn (fill_contents s1 (cur s) (tsize tc) e)). eexists.
      repeat split; auto.
      * rewrite ET, Hc. destruct (Nat.eqb_spec nt (cur s)); [contradiction|reflexivity].
      * rewrite ET, Hn, Nat.eqb_refl. reflexivity.
      * apply published_cur; assumption.
      * cbn. apply fill_contents_ext. exact Hc.
    + cbn. intros k taken Hs. eapply snap_ext; eauto.
    + intros k Hk. unfold s' in Hk. rewrite prepare_hnodes in Hk. cbn in Hk.
      destruct (i1_list s IV _ Hk) as (y & Hy & Hyst). exists y. split; [|assumption].
      rewrite ET, Hy. destruct (Nat.eqb_spec nt k) as [<-|N1]; [congruence|reflexivity].
  - (* retire: head loaded *)
    match goal with |- Inv1 (upd_thread _ _ ?x) /\ _ => eapply inv1_local with (th' := x); [exact IV|exact Hth|reflexivity|reflexivity|reflexivity|reflexivity| |] end; [|exact Hsn0].
    rewrite H in Hpc0. cbn in *. destruct (expire _ _); exact Hpc0.
  - (* retire, strong CAS wins: the whole old list is deleted *)
    rewrite H in Hpc0. cbn in Hpc0. destruct Hpc0 as (to & tn & Ho & Host & Hn & Hpn).
    subst s1 s2. cbn [cur tables with_mem with_head].
    rewrite (table_nth _ _ _ Ho).
    match goal with |- Inv1 ?x /\ _ => set (s' := x) end.
    assert (Hold : ~ In old hn).
    { intro Hi. rewrite <- H1 in Hi. destruct (i1_list s IV _ Hi) as (y & Hy & Hyst). congruence. }
    assert (ET : forall k, match T s k with
             | None => T s' k = None
             | Some y => exists y', T s' k = Some y' /\
                 ((~ In k hn /\ y' = if Nat.eqb old k then set_tst to TListed else y) \/
                  (In k hn /\ k <> old /\ freed_from (clock s) y y')) end).
    { intro k. unfold T, s'. cbn [tables upd_thread with_mem].
      pose proof (nth_error_free_tables hn (set_nth old (set_tst to TListed) (tables s)) (clock s) k) as P.
      rewrite nth_error_set_nth in P. destruct (nth_error (tables s) k) as [y|]; [|assumption].
      destruct P as (y' & E & [[P1 P2]|[P1 P2]]); exists y'; (split; [assumption|]).
      - left. auto.
      - right. destruct (Nat.eqb_spec old k) as [<-|N]; [contradiction|]. auto. }
    assert (Hlist : forall k, In k hn -> exists y, T s k = Some y /\ tst y = TListed) by (intros k Hk; apply (i1_list s IV); congruence).
    assert (Hext : tables_ext s s' t).
    { intros k y Hk. pose proof (ET k) as P. rewrite Hk in P. destruct P as (y' & E & P); exists y'; (split; [assumption|]); destruct P as [[P1 ->]|(P1 & P2 & P3)].
      - destruct (Nat.eqb_spec old k) as [<-|N]; [|auto]. rewrite Ho in Hk. inversion Hk; subst y. split.
        + intros _. split; [exact I|reflexivity].
        + intros u Hu [E1|E1]; rewrite Host in E1; congruence.
      - destruct (Hlist _ P1) as (y0 & Hy0 & Hst0). rewrite Hk in Hy0. inversion Hy0; subst y0.
        destruct P3 as (B1 & B2 & B3 & B3' & B4). split.
        + intros _. split; [|assumption]. unfold published. rewrite B3'; [exact I|]. intros u; congruence.
        + intros u Hu [E1|E1]; congruence. }
    assert (Htime : times_ext s s' t).
    { intros k y' Hk'. right. pose proof (ET k) as P. destruct (T s k) as [y|] eqn:Hk; [|congruence].
      destruct P as (y'' & E & P). rewrite Hk' in E. inversion E; subst y''; clear E. exists y. split; [reflexivity|].
      destruct P as [[P1 ->]|(P1 & P2 & P3)].
      - destruct (Nat.eqb_spec old k) as [<-|N]; [|auto]. rewrite Ho in Hk. inversion Hk; subst y. cbn. repeat split; auto. intro E; congruence.
      - destruct (Hlist _ P1) as (y0 & Hy0 & Hst0). rewrite Hk in Hy0. inversion Hy0; subst y0.
        destruct P3 as (B1 & B2 & B3 & B3' & B4). split; [left; assumption|]. split; [|intro E; congruence].
        destruct B4 as [B4|[B4 B5]]; [left; assumption|]. right. repeat split; auto. left. repeat split; auto.
        + rewrite H1. assumption.
        + cbn. intros [E|[]]. apply P2. congruence. }
    assert (Hnc : ~ In (cur s) hn) by (intro Hi; destruct (Hlist _ Hi) as (y & Hy & Hyst); congruence).
    assert (Hoc : old <> cur s) by (intro E; subst old; congruence).
    assert (Hc' : T s' (cur s') = Some tc).
    { replace (cur s') with (cur s) by reflexivity. pose proof (ET (cur s)) as P. rewrite Hc in P. destruct P as (y' & E & [[P1 ->]|(P1 & _)]); [|contradiction].
      destruct (Nat.eqb_spec old (cur s)); [contradiction|assumption]. }
    eapply (inv1_frame s) with (th' := finish_op th _); [exact IV|exact Hth| |exact Hext|exact Htime| | | | | | | ].
    + reflexivity.
    + exists tc. auto.
    + intros k y Hk Hy. pose proof (ET k) as P. destruct (T s k) as [y0|] eqn:Ek; [|congruence].
      destruct P as (y' & E & [[P1 P2]|(P1 & P2 & P3)]); rewrite Hk in E; inversion E; subst y'; clear E.
      * subst y. destruct (Nat.eqb_spec old k); [cbn in Hy; discriminate|]. change (cur s') with (cur s). eapply (i1_uniq s IV); eauto.
      * destruct P3 as (_ & _ & [B|B] & _); congruence.
    + rewrite (live_eq s s' tc) by assumption. apply prefix_refl.
    + intros k y Hk Hp. left. pose proof (ET k) as P. destruct (T s k) as [y0|] eqn:Ek; [|congruence].
      exists y0. split; [reflexivity|].
      destruct P as (y' & E & [[P1 P2]|(P1 & P2 & P3)]).
      * rewrite Hk in E. inversion E; subst y'. subst y. destruct (Nat.eqb_spec old k) as [<-|N]; [|assumption].
        rewrite Ho in Ek. inversion Ek; subst. unfold published. rewrite Host. exact I.
      * destruct (Hlist _ P1) as (y1 & Hy1 & Hst1). rewrite Ek in Hy1. inversion Hy1; subst. unfold published. rewrite Hst1. exact I.
    + exact I.
    + cbn. intros k taken Hs. eapply snap_ext; eauto.
    + intros k Hk. cbn in Hk. destruct Hk as [<-|[]]. pose proof (ET old) as P. rewrite Ho in P.
      destruct P as (y' & E & [[P1 ->]|(P1 & _)]); [|contradiction]. rewrite Nat.eqb_refl in E. eexists; split; [exact E|reflexivity].
  - match goal with |- Inv1 (upd_thread _ _ ?x) /\ _ => eapply inv1_local with (th' := x); [exact IV|exact Hth|reflexivity|reflexivity|reflexivity|reflexivity| |] end; [|exact Hsn0]. rewrite H in Hpc0. exact Hpc0.
  - (* retire, push wins *)
    rewrite H in Hpc0. cbn in Hpc0. destruct Hpc0 as (to & tn & Ho & Host & Hn & Hpn).
    subst s1 s2. cbn [cur tables with_mem with_head]. rewrite (table_nth _ _ _ Ho).
    match goal with |- Inv1 ?x /\ _ => set (s' := x) end.
    assert (ET : forall k, T s' k = match T s k with None => None | Some y =>
               Some (if Nat.eqb old k then set_tst to TListed else y) end).
    { intro k. unfold T, s'. cbn. apply nth_error_set_nth. }
    assert (Hoc : old <> cur s) by (intro E; subst old; congruence).
    assert (Hc' : T s' (cur s') = Some tc).
    { replace (cur s') with (cur s) by reflexivity. rewrite ET, Hc. destruct (Nat.eqb_spec old (cur s)); [contradiction|reflexivity]. }
    assert (Hext : tables_ext s s' t).
    { intros k y Hk. rewrite ET, Hk. eexists; split; [reflexivity|]. destruct (Nat.eqb_spec old k) as [<-|N1]; [|auto].
      rewrite Ho in Hk. inversion Hk; subst y. split.
      - intros _. split; [exact I|reflexivity].
      - intros u Hu [E|E]; rewrite Host in E; congruence. }
    assert (Htime : times_ext s s' t).
    { intros k y' Hk'. right. rewrite ET in Hk'. destruct (T s k) as [y|] eqn:Hk; [|discriminate]. inversion Hk'; subst y'; clear Hk'.
      exists y. split; [reflexivity|].
      destruct (Nat.eqb_spec old k) as [<-|N1]; [|auto]. rewrite Ho in Hk. inversion Hk; subst y. cbn. repeat split; auto. intro E; congruence. }
    eapply (inv1_frame s) with (th' := finish_op th _); [exact IV|exact Hth| |exact Hext|exact Htime| | | | | | | ].
    + reflexivity.
    + exists tc. auto.
    + intros k y Hk Hy. rewrite ET in Hk. destruct (T s k) as [y0|] eqn:Ek; [|discriminate]. inversion Hk; subst y; clear Hk.
      destruct (Nat.eqb_spec old k) as [<-|N1]; [cbn in Hy; discriminate|]. change (cur s') with (cur s). eapply (i1_uniq s IV); eauto.
    + rewrite (live_eq s s' tc) by assumption. apply prefix_refl.
    + intros k y Hk Hp. left. rewrite ET in Hk. destruct (T s k) as [y0|] eqn:Ek; [|discriminate]. inversion Hk; subst y; clear Hk.
      exists y0. split; [reflexivity|]. destruct (Nat.eqb_spec old k) as [<-|N1]; [|assumption].
      rewrite Ho in Ek. inversion Ek; subst. unfold published. rewrite Host. exact I.
    + exact I.
    + cbn. intros k taken Hs. eapply snap_ext; eauto.
    + intros k Hk. cbn in Hk. destruct Hk as [<-|Hk].
      * rewrite ET, Ho, Nat.eqb_refl. eexists; split; reflexivity.
      * rewrite <- H1 in Hk. destruct (i1_list s IV _ Hk) as (y & Hy & Hyst). exists y. split; [|assumption].
        rewrite ET, Hy. destruct (Nat.eqb_spec old k) as [<-|N1]; [congruence|reflexivity].
  - match goal with |- Inv1 (upd_thread _ _ ?x) /\ _ => eapply inv1_local with (th' := x); [exact IV|exact Hth|reflexivity|reflexivity|reflexivity|reflexivity| |] end; [|exact Hsn0]. rewrite H in Hpc0. exact Hpc0.
  - (* gc wins: the whole list is deleted *)
    subst s1 s2. cbn [cur tables with_mem with_head].
    match goal with |- Inv1 ?x /\ _ => set (s' := x) end.
    assert (ET : forall k, match T s k with
             | None => T s' k = None
             | Some y => exists y', T s' k = Some y' /\ ((~ In k hn /\ y' = y) \/ (In k hn /\ freed_from (clock s) y y')) end).
    { intro k. unfold T, s'. cbn [tables upd_thread with_mem]. apply nth_error_free_tables. }
    assert (Hlist : forall k, In k hn -> exists y, T s k = Some y /\ tst y = TListed) by (intros k Hk; apply (i1_list s IV); congruence).
    assert (Hext : tables_ext s s' t).
    { intros k y Hk. pose proof (ET k) as P. rewrite Hk in P. destruct P as (y' & E & P); exists y'; (split; [assumption|]); destruct P as [[P1 ->]|(P1 & P3)]; [auto|].
      destruct (Hlist _ P1) as (y0 & Hy0 & Hst0). rewrite Hk in Hy0. inversion Hy0; subst y0.
      destruct P3 as (B1 & B2 & B3 & B3' & B4). split.
      - intros _. split; [|assumption]. unfold published. rewrite B3'; [exact I|]. intros u; congruence.
      - intros u Hu [E1|E1]; congruence. }
    assert (Htime : times_ext s s' t).
    { intros k y' Hk'. right. pose proof (ET k) as P. destruct (T s k) as [y|] eqn:Hk; [|congruence].
      destruct P as (y'' & E & P). rewrite Hk' in E. inversion E; subst y''; clear E. exists y. split; [reflexivity|].
      destruct P as [[P1 ->]|(P1 & P3)]; [auto|].
      destruct (Hlist _ P1) as (y0 & Hy0 & Hst0). rewrite Hk in Hy0. inversion Hy0; subst y0.
      destruct P3 as (B1 & B2 & B3 & B3' & B4). split; [left; assumption|]. split; [|intro E; congruence].
      destruct B4 as [B4|[B4 B5]]; [left; assumption|]. right. repeat split; auto. left. repeat split; auto.
      rewrite H1. assumption. }
    assert (Hnc : ~ In (cur s) hn) by (intro Hi; destruct (Hlist _ Hi) as (y & Hy & Hyst); congruence).
    assert (Hc' : T s' (cur s') = Some tc).
    { replace (cur s') with (cur s) by reflexivity. pose proof (ET (cur s)) as P. rewrite Hc in P. destruct P as (y' & E & [[P1 ->]|(P1 & _)]); [assumption|contradiction]. }
    eapply (inv1_frame s) with (th' := finish_op th _); [exact IV|exact Hth| |exact Hext|exact Htime| | | | | | | ].
    + reflexivity.
    + exists tc. auto.
    + intros k y Hk Hy. pose proof (ET k) as P. destruct (T s k) as [y0|] eqn:Ek; [|congruence].
      destruct P as (y' & E & [[P1 P2]|(P1 & P3)]); rewrite Hk in E; inversion E; subst y'; clear E.
      * subst y. change (cur s') with (cur s). eapply (i1_uniq s IV); eauto.
      * destruct P3 as (_ & _ & [B|B] & _); congruence.
    + rewrite (live_eq s s' tc) by assumption. apply prefix_refl.
    + intros k y Hk Hp. left. pose proof (ET k) as P. destruct (T s k) as [y0|] eqn:Ek; [|congruence].
      exists y0. split; [reflexivity|].
      destruct P as (y' & E & [[P1 P2]|(P1 & P3)]).
      * rewrite Hk in E. inversion E; subst y'. subst y. assumption.
      * destruct (Hlist _ P1) as (y1 & Hy1 & Hst1). rewrite Ek in Hy1. inversion Hy1; subst. unfold published. rewrite Hst1. exact I.
    + exact I.
    + cbn. intros k taken Hs. eapply snap_ext; eauto.
    + intros k [].
  - match goal with |- Inv1 (upd_thread _ _ ?x) /\ _ => eapply inv1_local with (th' := x); [exact IV|exact Hth|reflexivity|reflexivity|reflexivity|reflexivity| |] end; [exact Logic.I|exact Hsn0].
Qed.

(* ======================================================================================== *)
(* Invariant 2: clock stamps - a table is freed more than 64 s after it was superseded      *)
(* ======================================================================================== *)
Definition sup_le (s : st) (k : nat) (b : Z) : Prop := exists ti r, T s k = Some ti /\ tsup ti = Some r /\ r <= b.
(* the stamp in head word hw is some unit U (mod 2^16), not in the future of clock c, and every table hanging
   off the head was superseded in unit U or earlier *)
Definition stamp_ok (s : st) (hw : Z) (hn : list nat) (c : Z) : Prop :=
  exists U, ts_of_head hw = U mod 2 ^ 16 /\ 0 <= U <= current_unit c /\
    forall k, In k hn -> exists ti r, T s k = Some ti /\ tsup ti = Some r /\ current_unit r <= U.

Definition pc2_ok (s : st) (p : pc) : Prop :=
  match p with
  | RetLoad old nt => sup_le s old (clock s)
  | RetStrong old nt hw hn neww c0 hclk =>
      neww = make_head (node_addr old) (stamp_at c0) /\ 0 <= c0 /\ c0 <= hclk /\ hclk <= clock s /\ sup_le s old c0 /\
      (forall k, In k hn -> sup_le s k hclk) /\
      (stale s = false -> expire hw (stamp_at c0) = true /\ stamp_ok s hw hn c0)
  | RetWeak old nt hw hn neww c0 hclk =>
      neww = make_head (node_addr old) (stamp_at c0) /\ 0 <= c0 /\ c0 <= hclk /\ hclk <= clock s /\ sup_le s old c0 /\
      (forall k, In k hn -> sup_le s k hclk) /\ c0 = hclk       (* the clock is re-read in every round of the loop *)
  | GcCas hw hn c1 =>
      0 <= c1 /\ c1 <= clock s /\ (forall k, In k hn -> sup_le s k c1) /\
      (stale s = false -> expire hw (stamp_at c1) = true /\ stamp_ok s hw hn c1)
  | _ => True
  end.

Definition snap2_ok (s : st) (x : option (nat * Z)) : Prop :=
  match x with
  | None => True
  | Some (k, taken) => taken <= clock s /\ exists ti, T s k = Some ti /\ forall r, tsup ti = Some r -> taken <= r
  end.

Record Inv2 (s : st) : Prop := {
  i2_clock : 0 <= clock s;
  i2_sup : forall k ti r, T s k = Some ti -> tsup ti = Some r -> r <= clock s;
  i2_freed : forall k ti f, T s k = Some ti -> tfreed ti = Some f -> f <= clock s;
  i2_unpub : forall k ti, T s k = Some ti -> ~ published ti -> tsup ti = None;
  i2_dead : forall k ti f, T s k = Some ti -> tfreed ti = Some f -> tsup ti = None -> tst ti = TDead;
  i2_list : forall k, In k (hnodes s) -> sup_le s k (clock s);
  i2_stamp : stale s = false -> stamp_ok s (hword s) (hnodes s) (clock s);
  i2_cool : stale s = false -> forall k ti r f, T s k = Some ti -> tsup ti = Some r -> tfreed ti = Some f -> f - r > 64;
  i2_pc : forall t th, nth_error (threads s) t = Some th -> pc2_ok s (tpc th);
  i2_snap : forall t th, nth_error (threads s) t = Some th -> snap2_ok s (snap th);
  i2_uaf : stale s = false -> forall k l c, In (k, l, c) (uaf s) -> c - l > 64;
  i2_nostale : stale s = false
}.

Lemma inv2_init : forall b t0 progs, 0 <= t0 -> Inv2 (init b t0 progs).
Proof.
  intros b t0 progs Ht. constructor; cbn; auto.
  - intros [|[|k]] ti r H; try discriminate. inversion H; subst. discriminate.
  - intros [|[|k]] ti f H; try discriminate. inversion H; subst. discriminate.
  - intros [|[|k]] ti H; try discriminate. inversion H; subst. intro N. exfalso. apply N. exact I.
  - intros [|[|k]] ti f H; try discriminate. inversion H; subst. discriminate.
  - intros k [].
  - intros _. exists 0. repeat split; try reflexivity; try lia. apply current_unit_nonneg; assumption. intros k [].
  - intros _ [|[|k]] ti r f H; try discriminate. inversion H; subst. discriminate.
  - intros t th H. apply nth_error_In in H. apply in_map_iff in H. destruct H as (p & <- & _). exact I.
  - intros t th H. apply nth_error_In in H. apply in_map_iff in H. destruct H as (p & <- & _). exact I.
  - intros _ k l c [].
Qed.

Lemma sup_le_mono : forall s k b b', b <= b' -> sup_le s k b -> sup_le s k b'.
Proof. intros s k b b' H (ti & r & A & B & C). exists ti, r. repeat split; auto. lia. Qed.

(* superseded tables keep their supersede time *)
Lemma keep_sup : forall s s' t k ti r, tables_ext s s' t -> times_ext s s' t -> T s k = Some ti -> tsup ti = Some r ->
  exists ti', T s' k = Some ti' /\ tsup ti' = Some r.
Proof.
  intros s s' t k ti r Hext Htime Hk Hr. destruct (Hext _ _ Hk) as (ti' & Hk' & _). exists ti'. split; [assumption|].
  destruct (Htime _ _ Hk') as [(N & _)|(ti0 & Hk0 & [E|(E & _)] & _)]; congruence.
Qed.
Lemma sup_le_keep : forall s s' t k b b', tables_ext s s' t -> times_ext s s' t -> b <= b' -> sup_le s k b -> sup_le s' k b'.
Proof.
  intros s s' t k b b' Hext Htime Hb (ti & r & Hk & Hr & Hle). destruct (keep_sup _ _ _ _ _ _ Hext Htime Hk Hr) as (ti' & Hk' & Hr').
  exists ti', r. repeat split; auto. lia.
Qed.
Lemma stamp_ok_keep : forall s s' t hw hn c, tables_ext s s' t -> times_ext s s' t -> stamp_ok s hw hn c -> stamp_ok s' hw hn c.
Proof.
  intros s s' t hw hn c Hext Htime (U & H1 & H2 & H3). exists U. repeat split; auto; try lia.
  intros k Hk. destruct (H3 _ Hk) as (ti & r & Hti & Hr & Hle). destruct (keep_sup _ _ _ _ _ _ Hext Htime Hti Hr) as (ti' & Hk' & Hr').
  exists ti', r. auto.
Qed.
Lemma stamp_ok_later : forall s hw hn c c', c <= c' -> stamp_ok s hw hn c -> stamp_ok s hw hn c'.
Proof.
  intros s hw hn c c' Hc (U & H1 & H2 & H3). exists U. repeat split; auto; try lia.
  pose proof (current_unit_mono _ _ Hc). lia.
Qed.

Lemma pc2_ok_keep : forall s s' t p, tables_ext s s' t -> times_ext s s' t -> clock s <= clock s' ->
  (stale s' = false -> stale s = false) -> pc2_ok s p -> pc2_ok s' p.
Proof.
  intros s s' t p Hext Htime Hc Hst H. destruct p; cbn in *; auto.
  - apply (sup_le_keep s s' t old (clock s) (clock s') Hext Htime Hc H).
  - destruct H as (A & B & C & D & E & F & G).
    split; [assumption|]. split; [assumption|]. split; [assumption|]. split; [lia|].
    split; [apply (sup_le_keep s s' t old c0 c0 Hext Htime (Z.le_refl _) E)|].
    split; [intros k Hk; apply (sup_le_keep s s' t k hclk hclk Hext Htime (Z.le_refl _) (F k Hk))|].
    intro Hs. destruct (G (Hst Hs)) as [G1 G2]. split; [assumption|]. eapply stamp_ok_keep; eauto.
  - destruct H as (A & B & C & D & E & F & G).
    split; [assumption|]. split; [assumption|]. split; [assumption|]. split; [lia|].
    split; [apply (sup_le_keep s s' t old c0 c0 Hext Htime (Z.le_refl _) E)|].
    split; [|assumption].
    intros k Hk; apply (sup_le_keep s s' t k hclk hclk Hext Htime (Z.le_refl _) (F k Hk)).
  - destruct H as (A & B & C & G).
    split; [assumption|]. split; [lia|].
    split; [intros k Hk; apply (sup_le_keep s s' t k c1 c1 Hext Htime (Z.le_refl _) (C k Hk))|].
    intro Hs. destruct (G (Hst Hs)) as [G1 G2]. split; [assumption|]. eapply stamp_ok_keep; eauto.
Qed.

Lemma snap2_ok_keep : forall s s' t x, Inv2 s -> tables_ext s s' t -> times_ext s s' t -> clock s <= clock s' ->
  snap2_ok s x -> snap2_ok s' x.
Proof.
  intros s s' t [[k taken]|] I2 Hext Htime Hc H; cbn in *; auto. destruct H as (Hle & ti & Hk & Hr). split; [lia|].
  destruct (Hext _ _ Hk) as (ti' & Hk' & _). exists ti'. split; [assumption|]. intros r Hr'.
  destruct (Htime _ _ Hk') as [(N & _)|(ti0 & Hk0 & Hs & _)]; [congruence|].
  rewrite Hk in Hk0. inversion Hk0; subst ti0.
  destruct Hs as [E|(E1 & E2 & E3)]; [apply Hr; congruence | assert (r = clock s) by congruence; lia].
Qed.

(* the table-store part of Inv2 is preserved by any step described by tables_ext / times_ext, provided the frees of
   listed tables (if any) respect the cooling period *)
Lemma inv2_store : forall s s' t,
  Inv1 s -> Inv2 s -> tables_ext s s' t -> times_ext s s' t -> clock s <= clock s' ->
  (stale s' = false -> stale s = false) ->
  (stale s' = false -> forall k ti r, In k (hnodes s) -> ~ In k (hnodes s') -> T s k = Some ti -> tsup ti = Some r -> clock s - r > 64) ->
  (forall k ti r, T s' k = Some ti -> tsup ti = Some r -> r <= clock s') /\
  (forall k ti f, T s' k = Some ti -> tfreed ti = Some f -> f <= clock s') /\
  (forall k ti, T s' k = Some ti -> ~ published ti -> tsup ti = None) /\
  (forall k ti f, T s' k = Some ti -> tfreed ti = Some f -> tsup ti = None -> tst ti = TDead) /\
  (stale s' = false -> forall k ti r f, T s' k = Some ti -> tsup ti = Some r -> tfreed ti = Some f -> f - r > 64).
Proof.
  intros s s' t I1 I2 Hext Htime Hc Hst Hfree.
  destruct (i1_cur s I1) as (tc & Hcur & Hcst & Hcsup & Hcfr).
  split; [|split; [|split; [|split]]].
  - intros k ti' r Hk' Hr. destruct (Htime _ _ Hk') as [(N & E & _)|(ti & Hk & Hs & _)]; [congruence|].
    destruct Hs as [E|(E1 & E2 & E3)].
    + rewrite E in Hr. pose proof (i2_sup s I2 k ti r Hk Hr). lia.
    + assert (r = clock s) by congruence. lia.
  - intros k ti' f Hk' Hf. destruct (Htime _ _ Hk') as [(N & _ & E)|(ti & Hk & _ & Hf' & _)]; [congruence|].
    destruct Hf' as [E|(E1 & E2 & E3)].
    + rewrite E in Hf. pose proof (i2_freed s I2 k ti f Hk Hf). lia.
    + assert (f = clock s) by congruence. lia.
  - intros k ti' Hk' Hp. destruct (Htime _ _ Hk') as [(N & E & _)|(ti & Hk & Hs & _)]; [assumption|].
    destruct (Hext _ _ Hk) as (ti'' & Hk'' & Hpub & _). rewrite Hk' in Hk''. inversion Hk''; subst ti''.
    destruct Hs as [E|(E1 & E2 & E3)].
    + rewrite E. apply (i2_unpub s I2 k ti Hk). intro P. apply Hp. apply Hpub; assumption.
    + exfalso. apply Hp. apply Hpub. apply published_cur; assumption.
  - intros k ti' f Hk' Hf Hs. destruct (Htime _ _ Hk') as [(N & _ & E)|(ti & Hk & Hsup & Hfr & Hdead)]; [congruence|].
    destruct Hfr as [E|(E1 & E2 & E3)].
    + destruct Hsup as [E'|(E1 & E2 & E3)]; [|congruence]. apply Hdead. apply (i2_dead s I2 k ti f Hk); congruence.
    + destruct E3 as [(E3 & E4 & _)|(_ & E3)]; [|assumption].
      destruct (i2_list s I2 _ E4) as (ti0 & r & Hk0 & Hr & _). rewrite Hk in Hk0. inversion Hk0; subst ti0.
      destruct Hsup as [E'|(E1' & _)]; congruence.
  - intros Hs' k ti' r f Hk' Hr Hf.
    destruct (Htime _ _ Hk') as [(N & E & _)|(ti & Hk & Hsup & Hfr & _)]; [congruence|].
    destruct Hsup as [E|(E1 & E2 & E3)].
    + destruct Hfr as [E'|(E1' & E2' & E3')].
      * apply (i2_cool s I2 (Hst Hs') k ti r f Hk); congruence.
      * assert (f = clock s) by congruence. subst f. destruct E3' as [(E3 & E4 & E5)|(E3 & _)].
        -- apply (Hfree Hs' k ti r E4 E5 Hk). congruence.
        -- exfalso. assert (tsup ti = None); [|congruence]. apply (i2_unpub s I2 k ti Hk). unfold published. rewrite E3. auto.
    + (* superseded in this very step: it was the current table, which is never freed *)
      exfalso. assert (k = cur s) by (eapply (i1_uniq s I1); eauto). subst k. rewrite Hcur in Hk. inversion Hk; subst ti.
      destruct Hfr as [E'|(E1' & E2' & [(E3' & _)|(E3' & _)])]; congruence.
Qed.

Lemma inv2_gen : forall s s' t th th',
  Inv1 s -> Inv2 s -> tables_ext s s' t -> times_ext s s' t ->
  nth_error (threads s) t = Some th -> threads s' = set_nth t th' (threads s) ->
  clock s <= clock s' -> (stale s' = false -> stale s = false) -> stale s' = false ->
  (stale s' = false -> forall k ti r, In k (hnodes s) -> ~ In k (hnodes s') -> T s k = Some ti -> tsup ti = Some r -> clock s - r > 64) ->
  (forall k, In k (hnodes s') -> sup_le s k (clock s)) ->
  (stale s' = false -> stamp_ok s (hword s') (hnodes s') (clock s)) ->
  (pc2_ok s (tpc th') \/ pc2_ok s' (tpc th')) ->
  (snap2_ok s (snap th')) ->
  (forall k l c, In (k, l, c) (uaf s') -> In (k, l, c) (uaf s) \/ (stale s = false -> c - l > 64)) ->
  Inv2 s'.
Proof.
  intros s s' t th th' I1 I2 Hext Htime Hth Hthr Hc Hst Hns Hfree Hlist Hstamp Hpc Hsnap Huaf.
  destruct (inv2_store s s' t I1 I2 Hext Htime Hc Hst Hfree) as (S1 & S2 & S3 & S4 & S5).
  constructor; auto.
  - pose proof (i2_clock s I2). lia.
  - intros k Hk. eapply sup_le_keep; eauto.
  - intro Hs. eapply stamp_ok_later; [exact Hc|]. eapply stamp_ok_keep; eauto.
  - intros t' th0 H0. rewrite Hthr, nth_error_set_nth in H0.
    destruct (nth_error (threads s) t') as [y|] eqn:Ey; [|discriminate]. inversion H0; subst th0; clear H0.
    destruct (Nat.eqb_spec t t') as [<-|Hne].
    + destruct Hpc as [Hpc|Hpc]; [|assumption]. eapply pc2_ok_keep; eauto.
    + eapply pc2_ok_keep; eauto. eapply (i2_pc s I2); eauto.
  - intros t' th0 H0. rewrite Hthr, nth_error_set_nth in H0.
    destruct (nth_error (threads s) t') as [y|] eqn:Ey; [|discriminate]. inversion H0; subst th0; clear H0.
    destruct (Nat.eqb_spec t t') as [<-|Hne].
    + eapply snap2_ok_keep; eauto.
    + eapply snap2_ok_keep; eauto. eapply (i2_snap s I2); eauto.
  - intros Hs k l c Hin. destruct (Huaf _ _ _ Hin) as [H|H]; [|auto]. eapply (i2_uaf s I2); eauto.
Qed.

(* steps that leave the retire head, `stale` and the uaf log alone *)
Lemma inv2_local : forall s s' t th th',
  Inv1 s -> Inv2 s -> tables_ext s s' t -> times_ext s s' t ->
  nth_error (threads s) t = Some th -> threads s' = set_nth t th' (threads s) ->
  clock s <= clock s' -> hword s' = hword s -> hnodes s' = hnodes s -> stale s' = stale s -> uaf s' = uaf s ->
  (pc2_ok s (tpc th') \/ pc2_ok s' (tpc th')) -> snap2_ok s (snap th') -> Inv2 s'.
Proof.
  intros s s' t th th' I1 I2 Hext Htime Hth Hthr Hc Ew En Es Eu Hpc Hsnap.
  apply (inv2_gen s s' t th th' I1 I2 Hext Htime Hth Hthr Hc); [| | | | |exact Hpc|exact Hsnap|].
  - congruence.
  - rewrite Es. apply (i2_nostale s I2).
  - intros _ k ti r H1 H2. rewrite En in H2. contradiction.
  - intros k Hk. rewrite En in Hk. apply (i2_list s I2); assumption.
  - intro Hs. rewrite Ew, En. apply (i2_stamp s I2). congruence.
  - intros k l c H. left. congruence.
Qed.

Lemma prepare_uaf : forall s t th bt nt fresh e, is_freed (table s bt) = false -> uaf (prepare s t th bt nt fresh e) = uaf s.
Proof. intros. unfold prepare. rewrite H. reflexivity. Qed.
Lemma prepare_misc : forall s t th bt nt fresh e,
  clock (prepare s t th bt nt fresh e) = clock s /\ hword (prepare s t th bt nt fresh e) = hword s /\
  stale (prepare s t th bt nt fresh e) = stale s.
Proof. intros. unfold prepare. destruct (is_freed (table s bt)); repeat split; reflexivity. Qed.

Lemma stamp_at_unit : forall c, stamp_at c = current_unit c mod 2 ^ 16.
Proof. reflexivity. Qed.

Ltac loc2 I1 I2 Hext Htime Hth TH :=
  apply (inv2_local _ _ _ _ TH I1 I2 Hext Htime Hth); [reflexivity|cbn; lia|reflexivity|reflexivity|reflexivity|reflexivity| | ].
Ltac gen2 I1 I2 Hext Htime Hth TH :=
  apply (inv2_gen _ _ _ _ TH I1 I2 Hext Htime Hth); [reflexivity|cbn; lia| | | | | | | | ].

Lemma inv2_step : forall s t th s', Inv1 s -> Inv2 s -> nth_error (threads s) t = Some th -> Step s t th s' -> Inv2 s'.
Proof.
  intros s t th s' I1 I2 Hth HS.
  destruct (inv1_step s t th s' I1 Hth HS) as (I1' & _ & Hext & Htime).
  pose proof (i2_pc s I2 _ _ Hth) as Hpc0. pose proof (i2_snap s I2 _ _ Hth) as Hsn0.
  pose proof (i2_clock s I2) as Hclk.
  destruct (i1_cur s I1) as (tc & Hc & Hcst & Hcsup & Hcfr).
  assert (Hnf : is_freed (table s (cur s)) = false) by (rewrite (table_nth _ _ _ Hc); unfold is_freed; rewrite Hcfr; reflexivity).
  destruct HS.
  - loc2 I1 I2 Hext Htime Hth (finish_op th (complete s o (cur s))); [left; exact Logic.I|exact Hsn0].
  - match goal with |- Inv2 (upd_thread _ _ ?x) => loc2 I1 I2 Hext Htime Hth x end; [left; exact Logic.I|exact Hsn0].
  - match goal with |- Inv2 (upd_thread _ _ ?x) => loc2 I1 I2 Hext Htime Hth x end; [left; exact Logic.I|exact Hsn0].
  - match goal with |- Inv2 (upd_thread _ _ ?x) => loc2 I1 I2 Hext Htime Hth x end; [left; exact Logic.I|].
    cbn. split; [lia|]. exists tc. split; [assumption|]. intros r Hr. congruence.
  - match goal with |- Inv2 (upd_thread _ _ ?x) => loc2 I1 I2 Hext Htime Hth x end; [left; exact Logic.I|exact Hsn0].
  - (* snapshot read of a freed table *)
    gen2 I1 I2 Hext Htime Hth (finish_op th RUaf).
    + auto.
    + apply (i2_nostale s I2).
    + intros _ k0 ti r A B. contradiction.
    + apply (i2_list s I2).
    + apply (i2_stamp s I2).
    + left; exact Logic.I.
    + exact Hsn0.
    + intros k0 l c [E|Hin]; [|left; assumption]. inversion E; subst k0 l c. right. intro Hs.
      rewrite H1 in Hsn0. cbn in Hsn0. destruct Hsn0 as (Hle & ti & Hk & Hr).
      rewrite (table_nth _ _ _ Hk) in H2. unfold is_freed in H2. destruct (tfreed ti) as [f|] eqn:Ef; [|discriminate].
      destruct (tsup ti) as [r|] eqn:Er.
      * pose proof (i2_cool s I2 Hs k ti r f Hk Er Ef). pose proof (i2_freed s I2 k ti f Hk Ef). specialize (Hr r eq_refl). lia.
      * exfalso. pose proof (i2_dead s I2 k ti f Hk Ef Er) as Hd.
        destruct (i1_snap s I1 _ _ _ _ Hth H1) as (ti0 & Hk0 & Hp). rewrite Hk in Hk0. inversion Hk0; subst ti0.
        unfold published in Hp. rewrite Hd in Hp. contradiction.
  - match goal with |- Inv2 (upd_thread _ _ ?x) => loc2 I1 I2 Hext Htime Hth x end; [left; exact Logic.I|exact Hsn0].
  - match goal with |- Inv2 (upd_thread _ _ ?x) => loc2 I1 I2 Hext Htime Hth x end; [left; exact Logic.I|exact Hsn0].
  - (* gc: expired *)
    match goal with |- Inv2 (upd_thread _ _ ?x) => loc2 I1 I2 Hext Htime Hth x end; [|exact Hsn0].
    left. cbn. split; [lia|]. split; [lia|]. split; [apply (i2_list s I2)|]. intro Hs. split; [assumption|]. apply (i2_stamp s I2 Hs).
  - (* time passes *)
    match goal with |- Inv2 (upd_thread _ _ ?x) => loc2 I1 I2 Hext Htime Hth x end; [left; exact Logic.I|exact Hsn0].
  - (* the calendar clock is stepped *)
    match goal with |- Inv2 (upd_thread _ _ ?x) => loc2 I1 I2 Hext Htime Hth x end; [left; exact Logic.I|exact Hsn0].
  - (* prepare *)
    destruct (prepare_misc s t th (cur s) (length (tables s)) true e) as (E1 & E2 & E3).
    apply (inv2_local s _ t th (goto th (SlowCas (cur s) (length (tables s)) (tsize (table s (cur s))) e)) I1 I2 Hext Htime Hth).
    + apply prepare_threads.
    + lia.
    + assumption.
    + apply prepare_hnodes.
    + assumption.
    + apply prepare_uaf; assumption.
    + left. exact Logic.I.
    + exact Hsn0.
  - (* table CAS won *)
    match goal with |- Inv2 (upd_thread _ _ ?x) => loc2 I1 I2 Hext Htime Hth x end; [|exact Hsn0].
    right. subst bt. exists (supersede (table s (cur s)) t (clock s)), (clock s). repeat split; try (cbn; lia).
    unfold T. cbn. rewrite !nth_error_set_nth. fold (T s (cur s)). rewrite Hc. rewrite (table_nth _ _ _ Hc).
    rewrite Nat.eqb_refl. destruct (Nat.eqb_spec nt (cur s)) as [E|]; [|reflexivity].
    exfalso. pose proof (i1_pc s I1 _ _ Hth) as P. rewrite H in P. cbn in P.
    destruct P as (tb & tn & spec & Hb & Hn & Hpb & Hst & _). subst nt. rewrite Hc in Hn. inversion Hn; subst. congruence.
  - (* table CAS lost, done *)
    match goal with |- Inv2 (upd_thread _ _ ?x) => loc2 I1 I2 Hext Htime Hth x end; [left; exact Logic.I|exact Hsn0].
  - (* table CAS lost, retry *)
    destruct (prepare_misc s1 t th (cur s) nt false e) as (E1 & E2 & E3).
    apply (inv2_local s _ t th (goto th (SlowCas (cur s) nt (tsize (table s (cur s))) e)) I1 I2 Hext Htime Hth).
    + rewrite prepare_threads. reflexivity.
    + rewrite E1. cbn. lia.
    + rewrite E2. reflexivity.
    + rewrite prepare_hnodes. reflexivity.
    + rewrite E3. reflexivity.
    + rewrite prepare_uaf by exact Hnf. reflexivity.
    + left. exact Logic.I.
    + exact Hsn0.
  - (* retire: head and clock read *)
    rewrite H in Hpc0. cbn in Hpc0.
    assert (Hl : forall k, In k (hnodes s) -> sup_le s k (clock s)) by apply (i2_list s I2).
    destruct (expire (hword s) (stamp_at c0)) eqn:Ee.
    + loc2 I1 I2 Hext Htime Hth (goto th (RetStrong old nt (hword s) (hnodes s) neww c0 c0)); [|exact Hsn0].
      left. subst c0 neww. cbn. split; [reflexivity|]. split; [lia|]. split; [lia|]. split; [lia|]. split; [assumption|]. split; [assumption|].
      intro Hs. split; [assumption|]. apply (i2_stamp s I2 Hs).
    + loc2 I1 I2 Hext Htime Hth (goto th (RetWeak old nt (hword s) (hnodes s) (retry_new_head (node_addr old) (stamp_at c0)) c0 c0)); [|exact Hsn0].
      left. subst c0 neww. cbn. split; [reflexivity|]. split; [lia|]. split; [lia|]. split; [lia|]. split; [assumption|]. split; [assumption|reflexivity].
  - (* retire: expired list replaced *)
    rewrite H in Hpc0. cbn in Hpc0. destruct Hpc0 as (A & B & C & D & E & F & G).
    match goal with |- Inv2 (upd_thread _ _ ?x) => gen2 I1 I2 Hext Htime Hth x end.
    + auto.
    + apply (i2_nostale s I2).
    + intros Hs k ti r Hin Hnot Hk Hr. destruct (G Hs) as (Ge & U0 & U1 & U2 & U3).
      rewrite H1 in Hin. destruct (U3 _ Hin) as (ti0 & r0 & Hk0 & Hr0 & Hle). rewrite Hk in Hk0. inversion Hk0; subst ti0.
      assert (r0 = r) by congruence. subst r0.
      pose proof (cv_expire_sound hw c0 U0 U2 U1 Ge). pose proof (units_apart r c0 U0 Hle H2). lia.
    + intros k [<-|[]]. destruct E as (ti & r & Hk & Hr & Hle). exists ti, r. repeat split; auto. lia.
    + intros Hs. cbn. exists (current_unit c0). subst neww. rewrite ts_of_new_head. split; [apply stamp_at_unit|].
      split; [split; [apply current_unit_nonneg; assumption|apply current_unit_mono; lia]|].
      intros k [<-|[]]. destruct E as (ti & r & Hk & Hr & Hle). exists ti, r. repeat split; auto. apply current_unit_mono; assumption.
    + left; exact Logic.I.
    + exact Hsn0.
    + intros k l c Hin. left. exact Hin.
  - (* retire: strong CAS lost *)
    rewrite H in Hpc0. cbn in Hpc0. destruct Hpc0 as (A & B & C & D & E & F & G).
    match goal with |- Inv2 (upd_thread _ _ ?x) => loc2 I1 I2 Hext Htime Hth x end; [|exact Hsn0].
    left. cbn. split; [reflexivity|]. split; [lia|]. split; [lia|]. split; [lia|].
    split; [apply (sup_le_mono s old c0 (clock s)); [lia|assumption]|]. split; [apply (i2_list s I2)|reflexivity].
  - (* retire: push won *)
    rewrite H in Hpc0. cbn in Hpc0. destruct Hpc0 as (A & B & C & D & E & F & G). subst s1 s2.
    match goal with |- Inv2 (upd_thread _ _ ?x) => gen2 I1 I2 Hext Htime Hth x end.
    + cbn [stale upd_thread with_mem with_head]. intro Hs. apply orb_false_elim in Hs. tauto.
    + cbn [stale upd_thread with_mem with_head]. rewrite (i2_nostale s I2). subst c0. rewrite Z.ltb_irrefl. reflexivity.
    + cbn. intros _ k ti r Hin Hnot. exfalso. apply Hnot. right. congruence.
    + cbn. intros k [<-|Hin].
      * destruct E as (ti & r & Hk & Hr & Hle). exists ti, r. repeat split; auto. lia.
      * destruct (F _ Hin) as (ti & r & Hk & Hr & Hle). exists ti, r. repeat split; auto. lia.
    + cbn [stale hword hnodes upd_thread with_mem with_head]. intros Hs. apply orb_false_elim in Hs. destruct Hs as [_ Hs]. apply Z.ltb_ge in Hs.
      exists (current_unit c0). subst neww. rewrite ts_of_new_head. split; [apply stamp_at_unit|].
      split; [split; [apply current_unit_nonneg; assumption|apply current_unit_mono; lia]|].
      intros k [<-|Hin].
      * destruct E as (ti & r & Hk & Hr & Hle). exists ti, r. repeat split; auto. apply current_unit_mono; assumption.
      * destruct (F _ Hin) as (ti & r & Hk & Hr & Hle). exists ti, r. repeat split; auto.
        pose proof (current_unit_mono _ _ Hle). lia.
    + left; exact Logic.I.
    + exact Hsn0.
    + intros k l c Hin. left. exact Hin.
  - (* retire: push lost *)
    rewrite H in Hpc0. cbn in Hpc0. destruct Hpc0 as (A & B & C & D & E & F & G).
    match goal with |- Inv2 (upd_thread _ _ ?x) => loc2 I1 I2 Hext Htime Hth x end; [|exact Hsn0].
    left. cbn. split; [reflexivity|]. split; [lia|]. split; [lia|]. split; [lia|].
    split; [apply (sup_le_mono s old c0 (clock s)); [lia|assumption]|]. split; [apply (i2_list s I2)|reflexivity].
  - (* gc won *)
    rewrite H in Hpc0. cbn in Hpc0. destruct Hpc0 as (A & B & C & G).
    match goal with |- Inv2 (upd_thread _ _ ?x) => gen2 I1 I2 Hext Htime Hth x end.
    + auto.
    + apply (i2_nostale s I2).
    + intros Hs k ti r Hin Hnot Hk Hr. destruct (G Hs) as (Ge & U0 & U1 & U2 & U3).
      rewrite H1 in Hin. destruct (U3 _ Hin) as (ti0 & r0 & Hk0 & Hr0 & Hle). rewrite Hk in Hk0. inversion Hk0; subst ti0.
      assert (r0 = r) by congruence. subst r0.
      pose proof (cv_expire_sound hw c1 U0 U2 U1 Ge). pose proof (units_apart r c1 U0 Hle H2). lia.
    + intros k [].
    + intros Hs. cbn. exists 0. split; [reflexivity|]. split; [split; [lia|apply current_unit_nonneg; assumption]|]. intros k [].
    + left; exact Logic.I.
    + exact Hsn0.
    + intros k l c Hin. left. exact Hin.
  - match goal with |- Inv2 (upd_thread _ _ ?x) => loc2 I1 I2 Hext Htime Hth x end; [left; exact Logic.I|exact Hsn0].
Qed.

(* ======================================================================================== *)
(* Reachable states, the statements                                                         *)
(* ======================================================================================== *)
Lemma cv_reach_inv : forall b t0 progs s, 0 <= t0 -> Reach b t0 progs s -> Inv1 s /\ Inv2 s.
Proof.
  intros b t0 progs s Ht HR. unfold Reach in HR.
  apply (inv_reachable st step (fun s => Inv1 s /\ Inv2 s) (init b t0 progs)); auto.
  - split; [apply inv1_init|apply inv2_init; assumption].
  - intros s0 t s1 [I1 I2] Hs. destruct (step_Step _ _ _ Hs) as (th & Hth & HS).
    split; [apply (inv1_step s0 t th s1 I1 Hth HS)|apply (inv2_step s0 t th s1 I1 I2 Hth HS)].
Qed.
Lemma cv_reach_inv1 : forall b t0 progs s, Reach b t0 progs s -> Inv1 s.
Proof.
  intros b t0 progs s HR. unfold Reach in HR.
  apply (inv_reachable st step Inv1 (init b t0 progs)); auto.
  - apply inv1_init.
  - intros s0 t s1 I1 Hs. destruct (step_Step _ _ _ Hs) as (th & Hth & HS). apply (inv1_step s0 t th s1 I1 Hth HS).
Qed.

Lemma bits_step : forall s t th s', Step s t th s' -> bits s' = bits s.
Proof. intros s t th s' HS. destruct HS; try reflexivity; rewrite prepare_bits; reflexivity. Qed.

Lemma run_inv1 : forall sch s, Inv1 s ->
  Inv1 (run st step s sch) /\ prefix (live s) (live (run st step s sch)) /\ bits (run st step s sch) = bits s.
Proof.
  induction sch as [|t sch IH]; intros s I1; cbn [run].
  - split; [assumption|]. split; [apply prefix_refl|reflexivity].
  - unfold step_or_stay. destruct (step s t) as [s1|] eqn:E; [|apply IH; assumption].
    destruct (step_Step _ _ _ E) as (th & Hth & HS). destruct (inv1_step s t th s1 I1 Hth HS) as (I1' & Hp & _).
    destruct (IH s1 I1') as (A & B & C). split; [assumption|]. split; [eapply prefix_trans; eauto|].
    rewrite C. eapply bits_step; eauto.
Qed.

Lemma read_elem_prefix : forall s s' a b i e, bits s' = bits s -> prefix a b ->
  read_elem s a i = Some e -> read_elem s' b i = Some e.
Proof.
  intros s s' a b i e Hb Hp H. unfold read_elem in *. rewrite Hb. destruct (i <? 0); [discriminate|].
  destruct (nth_error a _) as [x|] eqn:E; [|discriminate]. rewrite (prefix_nth _ _ _ _ _ Hp E). assumption.
Qed.

(* stable addresses: once index i designates element e it does so in every later state *)
Lemma cv_stable : forall b t0 progs s sch i e, Reach b t0 progs s ->
  slot s i = Some e -> slot (run st step s sch) i = Some e.
Proof.
  intros b t0 progs s sch i e HR H. destruct (run_inv1 sch s (cv_reach_inv1 _ _ _ _ HR)) as (_ & Hp & Hb).
  unfold slot in *. eapply read_elem_prefix; eauto.
Qed.
Lemma cv_tables_only_grow : forall b t0 progs s sch, Reach b t0 progs s -> prefix (live s) (live (run st step s sch)).
Proof. intros. apply run_inv1. eapply cv_reach_inv1; eauto. Qed.

(* one element per index: whatever published table (current, just installed, held in a snapshot, retired) an
   index is read through, now or later, it yields the same element *)
Lemma cv_same_element : forall b t0 progs s sch k1 k2 ti1 ti2 i e1 e2, Reach b t0 progs s ->
  nth_error (tables s) k1 = Some ti1 -> published ti1 ->
  nth_error (tables (run st step s sch)) k2 = Some ti2 -> published ti2 ->
  read_elem s (tblocks ti1) i = Some e1 -> read_elem (run st step s sch) (tblocks ti2) i = Some e2 -> e1 = e2.
Proof.
  intros b t0 progs s sch k1 k2 ti1 ti2 i e1 e2 HR H1 P1 H2 P2 R1 R2.
  pose proof (cv_reach_inv1 _ _ _ _ HR) as I1. destruct (run_inv1 sch s I1) as (I1' & Hp & Hb).
  set (s' := run st step s sch) in *.
  assert (A : read_elem s' (live s') i = Some e1).
  { eapply read_elem_prefix; [exact Hb| |exact R1]. eapply prefix_trans; [|exact Hp]. eapply (i1_prefix s I1); eauto. }
  assert (B : read_elem s' (live s') i = Some e2).
  { eapply read_elem_prefix; [reflexivity| |exact R2]. eapply (i1_prefix s' I1'); eauto. }
  congruence.
Qed.

(* the tables operations read through are published ones *)
Lemma cv_reads_published : forall b t0 progs s t th, Reach b t0 progs s -> nth_error (threads s) t = Some th ->
  (exists ti, nth_error (tables s) (cur s) = Some ti /\ published ti) /\
  (forall k taken, snap th = Some (k, taken) -> exists ti, nth_error (tables s) k = Some ti /\ published ti) /\
  (forall old nt hw hn w c0 hclk, tpc th = RetStrong old nt hw hn w c0 hclk \/ tpc th = RetWeak old nt hw hn w c0 hclk ->
     exists ti, nth_error (tables s) nt = Some ti /\ published ti).
Proof.
  intros b t0 progs s t th HR Hth. pose proof (cv_reach_inv1 _ _ _ _ HR) as I1. split; [|split].
  - destruct (i1_cur s I1) as (tc & Hc & Hst & _). exists tc. split; [assumption|apply published_cur; assumption].
  - intros k taken Hs. eapply (i1_snap s I1); eauto.
  - intros old nt hw hn w c0 hclk [E|E]; pose proof (i1_pc s I1 _ _ Hth) as P; rewrite E in P; cbn in P;
      destruct P as (to & tn & _ & _ & Hn & Hp); exists tn; auto.
Qed.

(* the current table is never freed nor superseded while current *)
Lemma cv_current_alive : forall b t0 progs s, Reach b t0 progs s ->
  exists ti, nth_error (tables s) (cur s) = Some ti /\ tfreed ti = None /\ tsup ti = None.
Proof.
  intros b t0 progs s HR. destruct (i1_cur s (cv_reach_inv1 _ _ _ _ HR)) as (tc & Hc & _ & H1 & H2). exists tc. auto.
Qed.

(* since fix 8cef5d9 (clock re-read in every round of the push loop) no retire ever pushes a stale stamp *)
Lemma cv_never_stale : forall b t0 progs s, 0 <= t0 -> Reach b t0 progs s -> stale s = false.
Proof. intros b t0 progs s Ht HR. destruct (cv_reach_inv _ _ _ _ Ht HR) as [_ I2]. apply (i2_nostale s I2). Qed.

(* cooling period: a superseded table is freed more than 64 s after the CAS that superseded it *)
Lemma cv_cooling : forall b t0 progs s, 0 <= t0 -> Reach b t0 progs s ->
  forall k ti r f, nth_error (tables s) k = Some ti -> tsup ti = Some r -> tfreed ti = Some f -> f - r > 64.
Proof. intros b t0 progs s Ht HR. destruct (cv_reach_inv _ _ _ _ Ht HR) as [_ I2]. apply (i2_cool s I2 (i2_nostale s I2)). Qed.

(* a snapshot is found freed only more than 64 s after it was taken *)
Lemma cv_snapshot_usable : forall b t0 progs s, 0 <= t0 -> Reach b t0 progs s ->
  forall k taken c, In (k, taken, c) (uaf s) -> c - taken > 64.
Proof. intros b t0 progs s Ht HR. destruct (cv_reach_inv _ _ _ _ Ht HR) as [_ I2]. apply (i2_uaf s I2 (i2_nostale s I2)). Qed.

(* superseded / freed times are in the past; unpublished tables are never marked superseded *)
Lemma cv_times_sane : forall b t0 progs s, 0 <= t0 -> Reach b t0 progs s ->
  forall k ti, nth_error (tables s) k = Some ti ->
    (forall r, tsup ti = Some r -> r <= clock s) /\ (forall f, tfreed ti = Some f -> f <= clock s).
Proof.
  intros b t0 progs s Ht HR k ti Hk. destruct (cv_reach_inv _ _ _ _ Ht HR) as [_ I2]. split.
  - intros r Hr. eapply (i2_sup s I2); eauto.
  - intros f Hf. eapply (i2_freed s I2); eauto.
Qed.

(* constructed exactly once: no block's constructor count ever differs from 1 *)
Lemma ctor_step : forall s t th s', Step s t th s' -> Forall (fun c => c = 1%nat) (bctor s) -> Forall (fun c => c = 1%nat) (bctor s').
Proof.
  intros s t th s' HS H. destruct HS; try exact H.
  - unfold prepare. destruct (is_freed _); cbn; apply Forall_app; (split; [exact H|]); apply Forall_forall; intros x Hx; apply repeat_spec in Hx; assumption.
  - unfold prepare. destruct (is_freed _); cbn; apply Forall_app; (split; [exact H|]); apply Forall_forall; intros x Hx; apply repeat_spec in Hx; assumption.
Qed.
Lemma cv_constructed_once : forall b t0 progs s, Reach b t0 progs s -> Forall (fun c => c = 1%nat) (bctor s).
Proof.
  intros b t0 progs s HR. unfold Reach in HR.
  apply (inv_reachable st step (fun s => Forall (fun c => c = 1%nat) (bctor s)) (init b t0 progs)); auto.
  - constructor.
  - intros s0 t s1 H Hs. destruct (step_Step _ _ _ Hs) as (th & Hth & HS). eapply ctor_step; eauto.
Qed.

(* non-vacuity: a reachable state with a retired-and-freed table that respected the cooling period *)
Definition ok_progs : list (list op) := [[OEnsure 0; OSnap; OEnsure 1; OAdv 128; OGc; OSnapGet 0]].
Lemma cv_cooling_example :
  exists s, Reach 0 1000000 ok_progs s /\ stale s = false /\
    (exists k ti r f, nth_error (tables s) k = Some ti /\ tsup ti = Some r /\ tfreed ti = Some f /\ f - r = 128) /\
    uaf s <> [].
Proof.
  set (s := run st step (init 0 1000000 ok_progs) (repeat 0%nat 20)).
  exists s. split; [exists (repeat 0%nat 20); reflexivity|].
  split; [vm_compute; reflexivity|]. split.
  - exists 1%nat, (nth 1 (tables s) empty_table), 1000000, 1000128. vm_compute.
    split; [reflexivity|]. split; [reflexivity|]. split; reflexivity.
  - vm_compute. discriminate.
Qed.

(* ======================================================================================== *)
(* Invariant 3: every element handed out is the element its index designates                *)
(* ======================================================================================== *)
Definition good (s : st) (o : op) (r : res) : Prop :=
  match r with RElem (Some e) => exists i, op_index o = Some i /\ slot s i = Some e | _ => True end.

Record Inv3 (s : st) : Prop := {
  i3_res : forall t th j o r, nth_error (threads s) t = Some th -> nth_error (prog th) j = Some o ->
      nth_error (results th) j = Some r -> good s o r;
  i3_len : forall t th, nth_error (threads s) t = Some th -> length (results th) = opi th
}.

Lemma good_mono : forall s s' o r, bits s' = bits s -> prefix (live s) (live s') -> good s o r -> good s' o r.
Proof.
  intros s s' o r Hb Hp H. destruct r as [[e|]| | | |]; cbn in *; auto. destruct H as (i & Hi & Hs). exists i. split; [assumption|].
  unfold slot in *. eapply read_elem_prefix; eauto.
Qed.

(* reading index i through a published table of s' gives the element slot s' i *)
Lemma good_read : forall s' s2 k ti o i, Inv1 s' -> T s' k = Some ti -> published ti -> bits s2 = bits s' ->
  op_index o = Some i -> good s' o (RElem (read_elem s2 (tblocks ti) i)).
Proof.
  intros s' s2 k ti o i I1 Hk Hp Hb Ho. cbn. destruct (read_elem s2 (tblocks ti) i) as [e|] eqn:E; [|exact Logic.I].
  exists i. split; [assumption|]. unfold slot. eapply (read_elem_prefix s2 s'); eauto. eapply (i1_prefix s' I1); eauto.
Qed.
Lemma good_complete : forall s' s2 k ti o, Inv1 s' -> T s' k = Some ti -> published ti -> bits s2 = bits s' ->
  table s2 k = ti -> good s' o (complete s2 o k).
Proof.
  intros s' s2 k ti o I1 Hk Hp Hb Ht. unfold complete. rewrite Ht. destruct o; try exact Logic.I.
  eapply good_read; eauto; reflexivity.
Qed.

Lemma inv3_frame : forall s s' t th th', Inv3 s -> bits s' = bits s -> prefix (live s) (live s') ->
  nth_error (threads s) t = Some th -> threads s' = set_nth t th' (threads s) -> prog th' = prog th ->
  ((results th' = results th /\ opi th' = opi th) \/
   (exists r, results th' = results th ++ [r] /\ opi th' = S (opi th) /\ forall o, cur_op th = Some o -> good s' o r)) ->
  Inv3 s'.
Proof.
  intros s s' t th th' I3 Hb Hp Hth Hthr Hprog Hres. constructor.
  - intros t' th0 j o r H0 Ho Hr. rewrite Hthr, nth_error_set_nth in H0.
    destruct (nth_error (threads s) t') as [y|] eqn:Ey; [|discriminate]. inversion H0; subst th0; clear H0.
    destruct (Nat.eqb_spec t t') as [<-|Hne].
    + rewrite Ey in Hth. inversion Hth; subst y. rewrite Hprog in Ho.
      destruct Hres as [[E1 E2]|(r0 & E1 & E2 & Hg)].
      * rewrite E1 in Hr. eapply good_mono; eauto. eapply (i3_res s I3); eauto.
      * rewrite E1 in Hr. pose proof (i3_len s I3 _ _ Ey) as Hl.
        destruct (Nat.lt_ge_cases j (length (results th))) as [Hlt|Hge].
        -- rewrite nth_error_app1 in Hr by assumption. eapply good_mono; eauto. eapply (i3_res s I3); eauto.
        -- rewrite nth_error_app2 in Hr by assumption. destruct (j - length (results th))%nat eqn:Ej; [|destruct n; discriminate].
           cbn in Hr. inversion Hr; subst r0. apply Hg. unfold cur_op. assert (j = opi th) by lia. congruence.
    + eapply good_mono; eauto. eapply (i3_res s I3); eauto.
  - intros t' th0 H0. rewrite Hthr, nth_error_set_nth in H0.
    destruct (nth_error (threads s) t') as [y|] eqn:Ey; [|discriminate]. inversion H0; subst th0; clear H0.
    destruct (Nat.eqb_spec t t') as [<-|Hne]; [|eapply (i3_len s I3); eauto].
    rewrite Ey in Hth. inversion Hth; subst y. pose proof (i3_len s I3 _ _ Ey) as Hl.
    destruct Hres as [[E1 E2]|(r0 & E1 & E2 & Hg)]; rewrite E1, E2; [assumption|]. rewrite app_length. cbn. lia.
Qed.

Lemma inv3_init : forall b t0 progs, Inv3 (init b t0 progs).
Proof.
  intros. constructor; cbn.
  - intros t th j o r H. apply nth_error_In in H. apply in_map_iff in H. destruct H as (p & <- & _). cbn. destruct j; discriminate.
  - intros t th H. apply nth_error_In in H. apply in_map_iff in H. destruct H as (p & <- & _). reflexivity.
Qed.

Lemma good_if : forall s o (b : bool) x, good s o x -> good s o (if b then RUaf else x).
Proof. intros s o [|] x H; [exact Logic.I|exact H]. Qed.

Lemma the_op_cur : forall th o, cur_op th = Some o -> the_op th = o.
Proof. intros th o H. unfold the_op. rewrite H. reflexivity. Qed.

Lemma inv3_step : forall s t th s', Inv1 s -> Inv3 s -> nth_error (threads s) t = Some th -> Step s t th s' -> Inv3 s'.
Proof.
  intros s t th s' I1 I3 Hth HS.
  destruct (inv1_step s t th s' I1 Hth HS) as (I1' & Hp & Hext & Htime).
  pose proof (bits_step _ _ _ _ HS) as Hb.
  destruct (i1_cur s' I1') as (tc' & Hc' & Hcst' & _).
  pose proof (published_cur _ Hcst') as Hpc'.
  destruct HS.
  - (* fast path *)
    eapply inv3_frame with (th' := finish_op th (complete s o (cur s))); eauto; try reflexivity.
    right. eexists. split; [reflexivity|]. split; [reflexivity|]. intros o' Ho'. assert (o' = o) by congruence. subst o'.
    apply (good_complete _ s (cur s) tc' _ I1' Hc' Hpc'); [reflexivity|exact (table_nth _ _ _ Hc')].
  - eapply inv3_frame with (th' := finish_op th _); eauto; try reflexivity.
    right. eexists. split; [reflexivity|]. split; [reflexivity|]. intros o' Ho'. assert (o' = OIndex i) by congruence. subst o'.
    assert (Et : table s (cur s) = tc') by exact (table_nth _ _ _ Hc').
    apply good_if. rewrite Et. apply (good_read _ s (cur s) tc' _ _ I1' Hc' Hpc'); reflexivity.
  - eapply inv3_frame with (th' := finish_op th _); eauto; try reflexivity.
    right. eexists. split; [reflexivity|]. split; [reflexivity|]. intros; exact Logic.I.
  - eapply inv3_frame with (th' := finish_op (set_snap th _) RUnit); eauto; try reflexivity.
    right. eexists. split; [reflexivity|]. split; [reflexivity|]. intros; exact Logic.I.
  - eapply inv3_frame with (th' := finish_op th _); eauto; try reflexivity.
    right. eexists. split; [reflexivity|]. split; [reflexivity|]. intros; exact Logic.I.
  - eapply inv3_frame with (th' := finish_op th RUaf); eauto; try reflexivity.
    right. eexists. split; [reflexivity|]. split; [reflexivity|]. intros; exact Logic.I.
  - (* snapshot read *)
    eapply inv3_frame with (th' := finish_op th _); eauto; try reflexivity.
    right. eexists. split; [reflexivity|]. split; [reflexivity|]. intros o' Ho'. assert (o' = OSnapGet i) by congruence. subst o'.
    destruct (i1_snap s I1 _ _ _ _ Hth H1) as (ti & Hk & Hpub). rewrite (table_nth _ _ _ Hk).
    destruct (Hext _ _ Hk) as (ti' & Hk' & Hpub' & _). destruct (Hpub' Hpub) as [Hp' Hbl']. rewrite <- Hbl'.
    apply (good_read _ s k ti' _ _ I1' Hk' Hp'); reflexivity.
  - eapply inv3_frame with (th' := finish_op th RUnit); eauto; try reflexivity.
    right. eexists. split; [reflexivity|]. split; [reflexivity|]. intros; exact Logic.I.
  - eapply inv3_frame with (th' := goto th _); eauto; try reflexivity; try (left; split; reflexivity).
  - eapply inv3_frame with (th' := finish_op th RUnit); eauto; try reflexivity.
    right. eexists. split; [reflexivity|]. split; [reflexivity|]. intros; exact Logic.I.
  - eapply inv3_frame with (th' := finish_op th RUnit); eauto; try reflexivity.
    right. eexists. split; [reflexivity|]. split; [reflexivity|]. intros; exact Logic.I.
  - eapply inv3_frame with (th' := goto th _); eauto; try reflexivity; try apply prepare_threads; try (left; split; reflexivity).
  - eapply inv3_frame with (th' := goto th _); eauto; try reflexivity; try (left; split; reflexivity).
  - (* CAS lost, done *)
    eapply inv3_frame with (th' := finish_op th _); eauto; try reflexivity.
    right. eexists. split; [reflexivity|]. split; [reflexivity|]. intros o' Ho'. rewrite (the_op_cur _ _ Ho').
    apply (good_complete _ s2 (cur s) tc' _ I1' Hc' Hpc'); [reflexivity|exact (table_nth _ _ _ Hc')].
  - eapply inv3_frame with (th' := goto th _); eauto; try reflexivity; try (rewrite prepare_threads; reflexivity); try (left; split; reflexivity).
  - eapply inv3_frame with (th' := goto th _); eauto; try reflexivity; try (left; split; reflexivity).
  - (* retire done (strong) *)
    pose proof (i1_pc s I1 _ _ Hth) as P. rewrite H in P. cbn in P. destruct P as (to & tn & _ & _ & Hn & Hpn).
    destruct (Hext _ _ Hn) as (tn' & Hn' & Hpub & _). destruct (Hpub Hpn) as [Hpn' _].
    eapply inv3_frame with (th' := finish_op th _); eauto; try reflexivity.
    right. eexists. split; [reflexivity|]. split; [reflexivity|]. intros o' Ho'. rewrite (the_op_cur _ _ Ho').
    apply (good_complete _ s2 nt tn' _ I1' Hn' Hpn'); [reflexivity|exact (table_nth _ _ _ Hn')].
  - eapply inv3_frame with (th' := goto th _); eauto; try reflexivity; try (left; split; reflexivity).
  - (* retire done (push) *)
    pose proof (i1_pc s I1 _ _ Hth) as P. rewrite H in P. cbn in P. destruct P as (to & tn & _ & _ & Hn & Hpn).
    destruct (Hext _ _ Hn) as (tn' & Hn' & Hpub & _). destruct (Hpub Hpn) as [Hpn' _].
    eapply inv3_frame with (th' := finish_op th _); eauto; try reflexivity.
    right. eexists. split; [reflexivity|]. split; [reflexivity|]. intros o' Ho'. rewrite (the_op_cur _ _ Ho').
    apply (good_complete _ s2 nt tn' _ I1' Hn' Hpn'); [reflexivity|exact (table_nth _ _ _ Hn')].
  - eapply inv3_frame with (th' := goto th _); eauto; try reflexivity; try (left; split; reflexivity).
  - eapply inv3_frame with (th' := finish_op th RUnit); eauto; try reflexivity.
    right. eexists. split; [reflexivity|]. split; [reflexivity|]. intros; exact Logic.I.
  - eapply inv3_frame with (th' := finish_op th RUnit); eauto; try reflexivity.
    right. eexists. split; [reflexivity|]. split; [reflexivity|]. intros; exact Logic.I.
Qed.

Lemma cv_reach_inv3 : forall b t0 progs s, Reach b t0 progs s -> Inv1 s /\ Inv3 s.
Proof.
  intros b t0 progs s HR. unfold Reach in HR.
  apply (inv_reachable st step (fun s => Inv1 s /\ Inv3 s) (init b t0 progs)); auto.
  - split; [apply inv1_init|apply inv3_init].
  - intros s0 t s1 [I1 I3] Hs. destruct (step_Step _ _ _ Hs) as (th & Hth & HS).
    split; [apply (inv1_step s0 t th s1 I1 Hth HS)|apply (inv3_step s0 t th s1 I1 I3 Hth HS)].
Qed.

(* every element returned by ensure(i) / operator[](i) / snapshot[i], by any thread at any time, is the element the
   current table designates for i; hence two requests for the same index got the same element *)
Lemma cv_results_same_element : forall b t0 progs s t1 t2 th1 th2 j1 j2 o1 o2 i e1 e2, Reach b t0 progs s ->
  nth_error (threads s) t1 = Some th1 -> nth_error (threads s) t2 = Some th2 ->
  nth_error (prog th1) j1 = Some o1 -> nth_error (prog th2) j2 = Some o2 ->
  op_index o1 = Some i -> op_index o2 = Some i ->
  nth_error (results th1) j1 = Some (RElem (Some e1)) -> nth_error (results th2) j2 = Some (RElem (Some e2)) ->
  e1 = e2 /\ slot s i = Some e1.
Proof.
  intros b t0 progs s t1 t2 th1 th2 j1 j2 o1 o2 i e1 e2 HR H1 H2 P1 P2 O1 O2 R1 R2.
  destruct (cv_reach_inv3 _ _ _ _ HR) as [_ I3].
  pose proof (i3_res s I3 _ _ _ _ _ H1 P1 R1) as G1. pose proof (i3_res s I3 _ _ _ _ _ H2 P2 R2) as G2.
  cbn in G1, G2. destruct G1 as (i1 & A1 & B1). destruct G2 as (i2 & A2 & B2).
  assert (i1 = i) by congruence. assert (i2 = i) by congruence. subst. split; congruence.
Qed.

(* ======================================================================================== *)
(* Invariant 4: ownership of blocks - every block is live (published), speculative (owned by *)
(* exactly one thread inside the slow path) or dead (destroyed once by the loser that made it)*)
(* ======================================================================================== *)
Definition slow_nt (p : pc) : option nat := match p with SlowCas _ nt _ _ => Some nt | _ => None end.
Definition ret_old (p : pc) : option nat :=
  match p with RetLoad o _ | RetStrong o _ _ _ _ _ _ | RetWeak o _ _ _ _ _ _ => Some o | _ => None end.
Definition dtor_of (x : bstat) : nat := match x with BDead => 1%nat | _ => 0%nat end.
Definition mem (b : nat) (ks : list nat) : bool := existsb (Nat.eqb b) ks.

Lemma mem_In : forall b ks, mem b ks = true <-> In b ks.
Proof.
  intros b ks. unfold mem. rewrite existsb_exists. split.
  - intros (x & Hx & E). apply Nat.eqb_eq in E. subst. assumption.
  - intro H. exists b. split; [assumption|apply Nat.eqb_refl].
Qed.
Lemma mem_false : forall b ks, mem b ks = false <-> ~ In b ks.
Proof.
  intros b ks. rewrite <- mem_In. destruct (mem b ks); split; intro H.
  - discriminate.
  - exfalso. apply H. reflexivity.
  - intro; discriminate.
  - reflexivity.
Qed.

Lemma nth_error_mark_all : forall ks l x b,
  nth_error (mark_all l ks x) b = match nth_error l b with None => None | Some y => Some (if mem b ks then x else y) end.
Proof.
  induction ks as [|k ks IH]; intros l x b; cbn [mark_all fold_left].
  - cbn. destruct (nth_error l b); reflexivity.
  - unfold mark_all in IH. rewrite IH, nth_error_set_nth. destruct (nth_error l b) as [y|]; [|reflexivity].
    unfold mem. cbn [existsb]. fold (mem b ks). rewrite (Nat.eqb_sym b k).
    destruct (Nat.eqb k b), (mem b ks); reflexivity.
Qed.
Lemma length_mark_all : forall ks l x, length (mark_all l ks x) = length l.
Proof. induction ks; intros; cbn; [reflexivity|]. unfold mark_all in IHks. rewrite IHks. apply length_set_nth. Qed.

Lemma nth_error_bump : forall l k b,
  nth_error (bump l k) b = match nth_error l b with None => None | Some c => Some (if Nat.eqb k b then S c else c) end.
Proof.
  intros l k b. unfold bump. destruct (nth_error l k) as [c|] eqn:E.
  - rewrite nth_error_set_nth. destruct (nth_error l b) as [c'|] eqn:E'; [|reflexivity].
    destruct (Nat.eqb_spec k b); [|reflexivity]. subst. congruence.
  - destruct (nth_error l b) as [c'|] eqn:E'; [|reflexivity]. destruct (Nat.eqb_spec k b); [|reflexivity]. subst. congruence.
Qed.
Lemma length_bump : forall l k, length (bump l k) = length l.
Proof. intros. unfold bump. destruct (nth_error l k); [apply length_set_nth|reflexivity]. Qed.
Lemma nth_error_bump_all : forall ks l b, NoDup ks ->
  nth_error (bump_all l ks) b = match nth_error l b with None => None | Some c => Some (if mem b ks then S c else c) end.
Proof.
  induction ks as [|k ks IH]; intros l b Hnd; cbn [bump_all fold_left].
  - cbn. destruct (nth_error l b); reflexivity.
  - inversion Hnd; subst. unfold bump_all in IH. rewrite IH by assumption. rewrite nth_error_bump.
    destruct (nth_error l b) as [c|]; [|reflexivity].
    unfold mem. cbn [existsb]. fold (mem b ks). rewrite (Nat.eqb_sym b k).
    destruct (Nat.eqb_spec k b) as [->|N]; cbn [orb]; [|reflexivity].
    assert (mem b ks = false) by (apply mem_false; assumption). rewrite H. reflexivity.
Qed.
Lemma length_bump_all : forall ks l, length (bump_all l ks) = length l.
Proof. induction ks; intros; cbn; [reflexivity|]. unfold bump_all in IHks. rewrite IHks. apply length_bump. Qed.

Lemma nth_error_repeat' : forall A (a : A) m n x, nth_error (repeat a m) n = Some x -> x = a /\ (n < m)%nat.
Proof.
  intros A a m n x H. split.
  - apply nth_error_In in H. apply repeat_spec in H. assumption.
  - rewrite <- (repeat_length a m). apply nth_error_Some. congruence.
Qed.
Lemma nth_error_repeat_lt : forall A (a : A) m n, (n < m)%nat -> nth_error (repeat a m) n = Some a.
Proof.
  intros A a m n H. destruct (nth_error (repeat a m) n) as [x|] eqn:E.
  - apply nth_error_repeat' in E. destruct E; subst; reflexivity.
  - apply nth_error_None in E. rewrite repeat_length in E. lia.
Qed.

Lemma slice_spec : forall (a spec : list nat) bn e, bn = Z.of_nat (length a) -> Z.of_nat (length spec) = e - bn ->
  slice (a ++ spec) (delete_lo bn e) (delete_hi bn e) = spec.
Proof.
  intros a spec bn e Hb He. unfold slice. destruct (cv_gen_ranges bn e) as (_ & _ & _ & -> & -> & _).
  assert (Z.to_nat e = length (a ++ spec)) by (rewrite app_length; lia).
  rewrite H, firstn_all. subst bn. rewrite Nat2Z.id. rewrite skipn_app, skipn_all, Nat.sub_diag. reflexivity.
Qed.

Record Inv4 (s : st) : Prop := {
  i4_len : length (bdtor s) = length (bctor s) /\ length (bst s) = length (bctor s);
  i4_dtor : forall b x, nth_error (bst s) b = Some x -> nth_error (bdtor s) b = Some (dtor_of x);
  i4_live : forall b, In b (live s) <-> nth_error (bst s) b = Some BLive;
  i4_nodup : NoDup (live s);
  i4_spec : forall t th bt nt bn e, nth_error (threads s) t = Some th -> tpc th = SlowCas bt nt bn e ->
      exists spec, tblocks (table s nt) = tblocks (table s bt) ++ spec /\ NoDup spec /\
        (forall b, In b spec <-> nth_error (bst s) b = Some (BSpec t)) /\
        bn = tsize (table s bt) /\ Z.of_nat (length spec) = e - bn;
  i4_owner : forall b t, nth_error (bst s) b = Some (BSpec t) ->
      exists th, nth_error (threads s) t = Some th /\ slow_nt (tpc th) <> None
}.

Lemma inv4_init : forall b t0 progs, Inv4 (init b t0 progs).
Proof.
  intros. constructor; cbn.
  - split; reflexivity.
  - intros [|b0] x H; discriminate.
  - intro b0. split; [intros []|]. destruct b0; discriminate.
  - constructor.
  - intros t th bt nt bn e H Hpc. apply nth_error_In in H. apply in_map_iff in H. destruct H as (p & <- & _). discriminate.
  - intros [|b0] t H; discriminate.
Qed.

(* other threads' tables are untouched by a step of t *)
Lemma other_tables_same : forall s s' t t' th' bt nt bn e, Inv1 s -> tables_ext s s' t -> t' <> t ->
  nth_error (threads s) t' = Some th' -> tpc th' = SlowCas bt nt bn e ->
  tblocks (table s' nt) = tblocks (table s nt) /\ tblocks (table s' bt) = tblocks (table s bt).
Proof.
  intros s s' t t' th' bt nt bn e I1 Hext Hne Hth Hpc. pose proof (i1_pc s I1 _ _ Hth) as P. rewrite Hpc in P. cbn in P.
  destruct P as (tb & tn & spec & Hb & Hn & Hpb & Hst & _).
  destruct (Hext _ _ Hn) as (tn' & Hn' & _ & Hsame). rewrite (Hsame t' Hne (or_introl Hst)) in Hn'.
  destruct (Hext _ _ Hb) as (tb' & Hb' & Hpub & _). destruct (Hpub Hpb) as [_ Hbl].
  rewrite (table_nth _ _ _ Hn), (table_nth _ _ _ Hn'), (table_nth _ _ _ Hb), (table_nth _ _ _ Hb'). auto.
Qed.

Lemma inv4_frame : forall s s' t th th',
  Inv1 s -> Inv4 s -> tables_ext s s' t ->
  nth_error (threads s) t = Some th -> threads s' = set_nth t th' (threads s) ->
  (length (bdtor s') = length (bctor s') /\ length (bst s') = length (bctor s')) ->
  (forall b x, nth_error (bst s') b = Some x -> nth_error (bdtor s') b = Some (dtor_of x)) ->
  (forall b, In b (live s') <-> nth_error (bst s') b = Some BLive) ->
  NoDup (live s') ->
  (forall b u, u <> t -> (nth_error (bst s') b = Some (BSpec u) <-> nth_error (bst s) b = Some (BSpec u))) ->
  (forall bt nt bn e, tpc th' = SlowCas bt nt bn e ->
      exists spec, tblocks (table s' nt) = tblocks (table s' bt) ++ spec /\ NoDup spec /\
        (forall b, In b spec <-> nth_error (bst s') b = Some (BSpec t)) /\
        bn = tsize (table s' bt) /\ Z.of_nat (length spec) = e - bn) ->
  (forall b, nth_error (bst s') b = Some (BSpec t) -> slow_nt (tpc th') <> None) ->
  Inv4 s'.
Proof.
  intros s s' t th th' I1 I4 Hext Hth Hthr Hlen Hdt Hlive Hnd Hbs Hmine Hown.
  constructor; auto.
  - intros t' th0 bt nt bn e H0 Hpc. rewrite Hthr, nth_error_set_nth in H0.
    destruct (nth_error (threads s) t') as [y|] eqn:Ey; [|discriminate]. inversion H0; subst th0; clear H0.
    destruct (Nat.eqb_spec t t') as [<-|Hne]; [apply Hmine; assumption|].
    destruct (i4_spec s I4 _ _ _ _ _ _ Ey Hpc) as (spec & A & B & C & D & E).
    destruct (other_tables_same s s' t t' y bt nt bn e I1 Hext (not_eq_sym Hne) Ey Hpc) as [E1 E2].
    exists spec. rewrite E1, E2. split; [assumption|]. split; [assumption|]. split.
    + intro b. rewrite (Hbs b t' (not_eq_sym Hne)). apply C.
    + split; [|assumption]. unfold tsize. rewrite E2. exact D.
  - intros b u Hb. destruct (Nat.eq_dec u t) as [->|Hne].
    + exists th'. split; [|apply Hown with b; assumption].
      rewrite Hthr, nth_error_set_nth, Hth, Nat.eqb_refl. reflexivity.
    + apply (Hbs b u Hne) in Hb. destruct (i4_owner s I4 _ _ Hb) as (thu & Hu & Hs). exists thu. split; [|assumption].
      rewrite Hthr, nth_error_set_nth, Hu. destruct (Nat.eqb_spec t u); [congruence|reflexivity].
Qed.

(* steps that do not touch the blocks *)
Lemma inv4_same : forall s s' t th th',
  Inv1 s -> Inv4 s -> tables_ext s s' t ->
  nth_error (threads s) t = Some th -> threads s' = set_nth t th' (threads s) ->
  bctor s' = bctor s -> bdtor s' = bdtor s -> bst s' = bst s -> cur s' = cur s ->
  slow_nt (tpc th) = None -> slow_nt (tpc th') = None -> Inv4 s'.
Proof.
  intros s s' t th th' I1 I4 Hext Hth Hthr E1 E2 E3 Ec Hs Hs'.
  assert (EL : live s' = live s).
  { destruct (i1_cur s I1) as (tc & Hc & Hcst & _). destruct (Hext _ _ Hc) as (tc' & Hc' & Hpub & _).
    destruct (Hpub (published_cur _ Hcst)) as [_ Hbl]. unfold live. rewrite Ec, (table_nth _ _ _ Hc), (table_nth _ _ _ Hc'). assumption. }
  eapply (inv4_frame s s' t th th'); eauto.
  - rewrite E1, E2, E3. apply (i4_len s I4).
  - rewrite E2, E3. apply (i4_dtor s I4).
  - rewrite EL, E3. apply (i4_live s I4).
  - rewrite EL. apply (i4_nodup s I4).
  - intros b u _. rewrite E3. reflexivity.
  - intros bt nt bn e Hpc. rewrite Hpc in Hs'. discriminate.
  - intros b Hb. rewrite E3 in Hb. destruct (i4_owner s I4 _ _ Hb) as (th0 & H0 & Hn). rewrite Hth in H0. inversion H0; subst. contradiction.
Qed.

Lemma prepare_blocks : forall s t th bt nt fresh e,
  let k := created s (tsize (table s bt)) e in
  bctor (prepare s t th bt nt fresh e) = bctor s ++ repeat 1%nat k /\
  bdtor (prepare s t th bt nt fresh e) = bdtor s ++ repeat 0%nat k /\
  bst (prepare s t th bt nt fresh e) = bst s ++ repeat (BSpec t) k.
Proof. intros. unfold prepare. destruct (is_freed (table s bt)); repeat split; reflexivity. Qed.

Lemma live_same : forall s s' t, Inv1 s -> tables_ext s s' t -> cur s' = cur s -> live s' = live s.
Proof.
  intros s s' t I1 Hext Ec. destruct (i1_cur s I1) as (tc & Hc & Hcst & _). destruct (Hext _ _ Hc) as (tc' & Hc' & Hpub & _).
  destruct (Hpub (published_cur _ Hcst)) as [_ Hbl]. unfold live. rewrite Ec, (table_nth _ _ _ Hc), (table_nth _ _ _ Hc'). assumption.
Qed.

(* destroying the speculative blocks `spec` of thread t (loser path) *)
Lemma kill_facts : forall s t spec, Inv4 s -> NoDup spec ->
  (forall b, In b spec <-> nth_error (bst s) b = Some (BSpec t)) ->
  let B0 := mark_all (bst s) spec BDead in let D0 := bump_all (bdtor s) spec in
  length D0 = length (bctor s) /\ length B0 = length (bctor s) /\
  (forall b x, nth_error B0 b = Some x -> nth_error D0 b = Some (dtor_of x)) /\
  (forall b, nth_error B0 b = Some BLive <-> nth_error (bst s) b = Some BLive) /\
  (forall b u, u <> t -> (nth_error B0 b = Some (BSpec u) <-> nth_error (bst s) b = Some (BSpec u))) /\
  (forall b, nth_error B0 b <> Some (BSpec t)).
Proof.
  intros s t spec I4 Hnd Hsp B0 D0. destruct (i4_len s I4) as [L1 L2].
  assert (HB : forall b, nth_error B0 b = match nth_error (bst s) b with None => None | Some y => Some (if mem b spec then BDead else y) end)
    by (intro; apply nth_error_mark_all).
  assert (HD : forall b, nth_error D0 b = match nth_error (bdtor s) b with None => None | Some c => Some (if mem b spec then S c else c) end)
    by (intro; apply nth_error_bump_all; assumption).
  split; [unfold D0; rewrite length_bump_all; assumption|]. split; [unfold B0; rewrite length_mark_all; assumption|].
  split; [|split; [|split]].
  - intros b x Hb. rewrite HB in Hb. rewrite HD. destruct (nth_error (bst s) b) as [y|] eqn:Ey; [|discriminate].
    rewrite (i4_dtor s I4 _ _ Ey). inversion Hb; subst x; clear Hb. destruct (mem b spec) eqn:Em; [|reflexivity].
    apply mem_In in Em. apply Hsp in Em. rewrite Ey in Em. inversion Em; subst y. reflexivity.
  - intro b. rewrite HB. destruct (nth_error (bst s) b) as [y|] eqn:Ey; [|tauto]. destruct (mem b spec) eqn:Em; [|tauto].
    apply mem_In in Em. apply Hsp in Em. rewrite Ey in Em. inversion Em; subst y. split; discriminate.
  - intros b u Hu. rewrite HB. destruct (nth_error (bst s) b) as [y|] eqn:Ey; [|tauto]. destruct (mem b spec) eqn:Em; [|tauto].
    apply mem_In in Em. apply Hsp in Em. rewrite Ey in Em. inversion Em; subst y. split; intro E; inversion E; congruence.
  - intros b E. rewrite HB in E. destruct (nth_error (bst s) b) as [y|] eqn:Ey; [|discriminate]. destruct (mem b spec) eqn:Em; [discriminate|].
    inversion E; subst y. apply mem_false in Em. apply Em. apply Hsp. assumption.
Qed.

Lemma inv4_prepare_gen : forall s s' t th bt nt bn e B0 D0 k,
  Inv1 s -> Inv4 s -> tables_ext s s' t ->
  nth_error (threads s) t = Some th -> threads s' = set_nth t (goto th (SlowCas bt nt bn e)) (threads s) ->
  bctor s' = bctor s ++ repeat 1%nat k -> bdtor s' = D0 ++ repeat 0%nat k -> bst s' = B0 ++ repeat (BSpec t) k ->
  length D0 = length (bctor s) -> length B0 = length (bctor s) ->
  (forall b x, nth_error B0 b = Some x -> nth_error D0 b = Some (dtor_of x)) ->
  (forall b, nth_error B0 b = Some BLive <-> nth_error (bst s) b = Some BLive) ->
  (forall b u, u <> t -> (nth_error B0 b = Some (BSpec u) <-> nth_error (bst s) b = Some (BSpec u))) ->
  (forall b, nth_error B0 b <> Some (BSpec t)) ->
  cur s' = cur s ->
  tblocks (table s' nt) = tblocks (table s' bt) ++ seq (length (bctor s)) k -> bn = tsize (table s' bt) -> Z.of_nat k = e - bn ->
  Inv4 s'.
Proof.
  intros s s' t th bt nt bn e B0 D0 k I1 I4 Hext Hth Hthr Ec Ed Eb LD LB Hdt Hlv Hou Hnt Ecur Htab Hbn Hk.
  set (nb := length (bctor s)) in *.
  assert (EL : live s' = live s) by (eapply live_same; eauto).
  assert (HB : forall b, nth_error (bst s') b = if (b <? nb)%nat then nth_error B0 b else
                 if (b - nb <? k)%nat then Some (BSpec t) else None).
  { intro b. rewrite Eb. destruct (Nat.ltb_spec b nb).
    - apply nth_error_app1. lia.
    - rewrite nth_error_app2 by lia. rewrite LB. fold nb. destruct (Nat.ltb_spec (b - nb) k).
      + apply nth_error_repeat_lt; assumption.
      + apply nth_error_None. rewrite repeat_length. assumption. }
  assert (HBlt : forall b x, nth_error B0 b = Some x -> (b < nb)%nat).
  { intros b x H. rewrite <- LB. apply nth_error_Some. congruence. }
  eapply (inv4_frame s s' t th _ I1 I4 Hext Hth Hthr).
  - rewrite Ec, Ed, Eb, !app_length, !repeat_length. lia.
  - intros b x Hb. rewrite HB in Hb. rewrite Ed. destruct (Nat.ltb_spec b nb).
    + rewrite nth_error_app1 by lia. apply Hdt; assumption.
    + destruct (Nat.ltb_spec (b - nb) k); [|discriminate]. inversion Hb; subst x.
      rewrite nth_error_app2 by lia. rewrite LD. apply nth_error_repeat_lt; assumption.
  - intro b. rewrite EL, (i4_live s I4 b), HB. destruct (Nat.ltb_spec b nb).
    + symmetry. apply Hlv.
    + split; intro H0.
      * apply Hlv in H0. apply HBlt in H0. lia.
      * destruct (b - nb <? k)%nat; discriminate.
  - rewrite EL. apply (i4_nodup s I4).
  - intros b u Hu. rewrite HB. destruct (Nat.ltb_spec b nb).
    + apply Hou; assumption.
    + split; intro H0.
      * destruct (b - nb <? k)%nat; [inversion H0; congruence|discriminate].
      * apply (Hou b u Hu) in H0. apply HBlt in H0. lia.
  - intros bt0 nt0 bn0 e0 Hpc. cbn in Hpc. inversion Hpc; subst bt0 nt0 bn0 e0.
    exists (seq nb k). split; [assumption|]. split; [apply seq_NoDup|]. split; [|split; [assumption|rewrite seq_length; assumption]].
    intro b. rewrite in_seq, HB. destruct (Nat.ltb_spec b nb).
    + split; [lia|]. intro H0. exfalso. eapply Hnt; eauto.
    + destruct (Nat.ltb_spec (b - nb) k); split; intro H1; try reflexivity; try discriminate; lia.
  - intros b Hb. cbn. discriminate.
Qed.

Lemma nodup_app : forall (a b : list nat), NoDup a -> NoDup b -> (forall x, In x a -> ~ In x b) -> NoDup (a ++ b).
Proof.
  induction a as [|x a IH]; intros b Ha Hb Hd; cbn; [assumption|]. inversion Ha; subst. constructor.
  - rewrite in_app_iff. intros [H|H]; [contradiction|]. apply (Hd x); [left; reflexivity|assumption].
  - apply IH; auto. intros y Hy. apply Hd. right. assumption.
Qed.
Lemma skipn_app_exact : forall (a b : list nat), skipn (length a) (a ++ b) = b.
Proof. intros. rewrite skipn_app, skipn_all, Nat.sub_diag. reflexivity. Qed.

Ltac same4 I1 I4 Hext Hth TH :=
  apply (inv4_same _ _ _ _ TH I1 I4 Hext Hth); [reflexivity|reflexivity|reflexivity|reflexivity|reflexivity| | ].

Lemma inv4_step : forall s t th s', Inv1 s -> Inv4 s -> nth_error (threads s) t = Some th -> Step s t th s' -> Inv4 s'.
Proof.
  intros s t th s' I1 I4 Hth HS.
  destruct (inv1_step s t th s' I1 Hth HS) as (I1' & _ & Hext & _).
  destruct (i1_cur s I1) as (tc & Hc & Hcst & _).
  destruct HS.
  - same4 I1 I4 Hext Hth (finish_op th (complete s o (cur s))); [rewrite H; reflexivity|reflexivity].
  - match goal with |- Inv4 (upd_thread _ _ ?x) => same4 I1 I4 Hext Hth x end; [rewrite H; reflexivity|reflexivity].
  - match goal with |- Inv4 (upd_thread _ _ ?x) => same4 I1 I4 Hext Hth x end; [rewrite H; reflexivity|reflexivity].
  - match goal with |- Inv4 (upd_thread _ _ ?x) => same4 I1 I4 Hext Hth x end; [rewrite H; reflexivity|reflexivity].
  - match goal with |- Inv4 (upd_thread _ _ ?x) => same4 I1 I4 Hext Hth x end; [rewrite H; reflexivity|reflexivity].
  - match goal with |- Inv4 (upd_thread _ _ ?x) => same4 I1 I4 Hext Hth x end; [rewrite H; reflexivity|reflexivity].
  - match goal with |- Inv4 (upd_thread _ _ ?x) => same4 I1 I4 Hext Hth x end; [rewrite H; reflexivity|reflexivity].
  - match goal with |- Inv4 (upd_thread _ _ ?x) => same4 I1 I4 Hext Hth x end; [rewrite H; reflexivity|reflexivity].
  - match goal with |- Inv4 (upd_thread _ _ ?x) => same4 I1 I4 Hext Hth x end; [rewrite H; reflexivity|reflexivity].
  - match goal with |- Inv4 (upd_thread _ _ ?x) => same4 I1 I4 Hext Hth x end; [rewrite H; reflexivity|reflexivity].
  - match goal with |- Inv4 (upd_thread _ _ ?x) => same4 I1 I4 Hext Hth x end; [rewrite H; reflexivity|reflexivity].
  - (* prepare, fresh table *)
    set (L := length (tables s)). set (bn := tsize (table s (cur s))).
    destruct (prepare_blocks s t th (cur s) L true e) as (Ec & Ed & Eb). fold bn in Ec, Ed, Eb.
    set (s' := prepare s t th (cur s) L true e) in *.
    assert (HL : T s' L = Some {| tblocks := fill_contents s (cur s) bn e; tst := TSpec t; tsup := None; tfreed := None; tfrees := 0 |}).
    { unfold T, s'. rewrite prepare_tables. cbv zeta. rewrite nth_error_app2 by (unfold L; lia). unfold L. rewrite Nat.sub_diag. reflexivity. }
    assert (HC : T s' (cur s) = Some tc).
    { unfold T, s'. rewrite prepare_tables. cbv zeta. rewrite nth_error_app1; [exact Hc|]. apply nth_error_Some. unfold T in Hc. congruence. }
    assert (Ebn : bn = tsize tc) by (unfold bn; rewrite (table_nth _ _ _ Hc); reflexivity).
    apply (inv4_prepare_gen s s' t th (cur s) L bn e (bst s) (bdtor s) (created s bn e) I1 I4 Hext Hth).
    + apply prepare_threads.
    + assumption.
    + assumption.
    + assumption.
    + apply (i4_len s I4).
    + apply (i4_len s I4).
    + apply (i4_dtor s I4).
    + intro; reflexivity.
    + intros; reflexivity.
    + intros b Hb. destruct (i4_owner s I4 _ _ Hb) as (th0 & H0' & Hn). rewrite Hth in H0'. inversion H0'; subst th0. rewrite H in Hn. apply Hn. reflexivity.
    + apply prepare_cur.
    + rewrite (table_nth _ _ _ HL), (table_nth _ _ _ HC). cbn [tblocks]. rewrite Ebn. rewrite (fill_contents_ext s (cur s) tc e Hc).
      unfold created. destruct (cv_gen_ranges (tsize tc) e) as (_ & -> & -> & _). reflexivity.
    + rewrite (table_nth _ _ _ HC). assumption.
    + unfold created. destruct (cv_gen_ranges bn e) as (_ & -> & -> & _). apply Z2Nat.id.
      fold bn in H2. unfold table_qualified in H2. rewrite Z.geb_leb in H2. apply Z.leb_gt in H2. lia.
  - (* CAS on _block_table won: the speculative blocks become live *)
    destruct (i4_spec s I4 _ _ _ _ _ _ Hth H) as (spec & Hbl & Hnd & Hsp & Hbn & Hlen).
    pose proof (i1_pc s I1 _ _ Hth) as P. rewrite H in P. cbn in P.
    destruct P as (tb & tn & spec0 & Hb & Hn & Hpb & Hst & _).
    subst bt. rewrite Hc in Hb. inversion Hb; subst tb; clear Hb.
    rewrite (table_nth _ _ _ Hn), (table_nth _ _ _ Hc) in *.
    rewrite Hbl, skipn_app_exact.
    match goal with |- Inv4 ?x => set (s' := x) end.
    assert (Hn' : T s' nt = Some (set_tst tn TCur)).
    { unfold T, s'. cbn. rewrite !nth_error_set_nth. fold (T s nt). rewrite Hn, Nat.eqb_refl. reflexivity. }
    assert (EL : live s' = live s ++ spec).
    { unfold live at 1. change (cur s') with nt. rewrite (table_nth _ _ _ Hn'). cbn. unfold live. rewrite (table_nth _ _ _ Hc). assumption. }
    assert (HB : forall b, nth_error (bst s') b = match nth_error (bst s) b with None => None | Some y => Some (if mem b spec then BLive else y) end)
      by (intro; apply nth_error_mark_all).
    destruct (i4_len s I4) as [L1 L2].
    apply (inv4_frame s s' t th (goto th (RetLoad (cur s) nt)) I1 I4 Hext Hth).
    + reflexivity.
    + split; [exact L1|]. change (bst s') with (mark_all (bst s) spec BLive). rewrite length_mark_all. exact L2.
    + intros b x Hx. rewrite HB in Hx. change (bdtor s') with (bdtor s).
      destruct (nth_error (bst s) b) as [y|] eqn:Ey; [|discriminate]. rewrite (i4_dtor s I4 _ _ Ey). inversion Hx; subst x.
      destruct (mem b spec) eqn:Em; [|reflexivity]. apply mem_In in Em. apply Hsp in Em. rewrite Ey in Em. inversion Em; subst y. reflexivity.
    + intro b. rewrite EL, in_app_iff, HB, (i4_live s I4 b). destruct (nth_error (bst s) b) as [y|] eqn:Ey.
      * destruct (mem b spec) eqn:Em.
        -- split; [reflexivity|]. intros _. right. apply mem_In; assumption.
        -- apply mem_false in Em. split; [intros [H1|H1]; [assumption|contradiction]|]. intro H1. left. assumption.
      * split; [intros [H1|H1]; [discriminate|]|discriminate]. apply Hsp in H1. congruence.
    + rewrite EL. apply nodup_app; [apply (i4_nodup s I4)|assumption|].
      intros x Hx Hx'. apply (i4_live s I4) in Hx. apply Hsp in Hx'. congruence.
    + intros b u Hu. rewrite HB. destruct (nth_error (bst s) b) as [y|] eqn:Ey; [|tauto]. destruct (mem b spec) eqn:Em; [|tauto].
      apply mem_In in Em. apply Hsp in Em. rewrite Ey in Em. inversion Em; subst y. split; intro E; inversion E; congruence.
    + intros bt0 nt0 bn0 e0 Hp. discriminate.
    + intros b Hb. exfalso. rewrite HB in Hb. destruct (nth_error (bst s) b) as [y|] eqn:Ey; [|discriminate].
      destruct (mem b spec) eqn:Em; [discriminate|]. inversion Hb; subst y. apply mem_false in Em. apply Em. apply Hsp. assumption.
  - (* CAS lost, done: the speculative blocks die *)
    destruct (i4_spec s I4 _ _ _ _ _ _ Hth H) as (spec & Hbl & Hnd & Hsp & Hbn & Hlen).
    assert (Hdead : dead = spec).
    { unfold dead. rewrite Hbl. apply slice_spec; [exact Hbn|exact Hlen]. }
    subst s1 s2. clearbody dead. subst dead.
    match goal with |- Inv4 ?x => set (s' := x) in * end.
    destruct (kill_facts s t spec I4 Hnd Hsp) as (K1 & K2 & K3 & K4 & K5 & K6).
    assert (EL : live s' = live s) by (eapply live_same; eauto; reflexivity).
    eapply (inv4_frame s s' t th _ I1 I4 Hext Hth).
    + reflexivity.
    + split; [exact K1|exact K2].
    + exact K3.
    + intro b. rewrite EL, (i4_live s I4 b). symmetry. apply K4.
    + rewrite EL. apply (i4_nodup s I4).
    + exact K5.
    + intros bt0 nt0 bn0 e0 Hp. discriminate.
    + intros b Hb. exfalso. eapply K6; eauto.
  - (* CAS lost, retry: the speculative blocks die, new ones are created *)
    destruct (i4_spec s I4 _ _ _ _ _ _ Hth H) as (spec & Hbl & Hnd & Hsp & Hbn & Hlen).
    assert (Hdead : dead = spec).
    { unfold dead. rewrite Hbl. apply slice_spec; [exact Hbn|exact Hlen]. }
    pose proof (i1_pc s I1 _ _ Hth) as P. rewrite H in P. cbn in P.
    destruct P as (tb & tn & spec0 & Hb & Hn & Hpb & Hst & _).
    assert (Hne : nt <> cur s) by (intro E; subst nt; congruence).
    set (bn' := tsize (table s (cur s))).
    destruct (prepare_blocks s1 t th (cur s) nt false e) as (Ec & Ed & Eb).
    change (table s1 (cur s)) with (table s (cur s)) in Ec, Ed, Eb. fold bn' in Ec, Ed, Eb.
    change (bctor s1) with (bctor s) in Ec. change (bdtor s1) with (bump_all (bdtor s) dead) in Ed.
    change (bst s1) with (mark_all (bst s) dead BDead) in Eb. rewrite Hdead in Ed, Eb.
    set (s' := prepare s1 t th (cur s) nt false e) in *.
    destruct (kill_facts s t spec I4 Hnd Hsp) as (K1 & K2 & K3 & K4 & K5 & K6).
    assert (Ebn : bn' = tsize tc) by (unfold bn'; rewrite (table_nth _ _ _ Hc); reflexivity).
    assert (HN : T s' nt = Some (set_blocks tn (fill_contents s1 (cur s) bn' e))).
    { unfold T, s'. rewrite prepare_tables. cbv zeta. rewrite nth_error_set_nth. change (nth_error (tables s1) nt) with (T s nt). rewrite Hn, Nat.eqb_refl.
      change (table s1) with (table s). rewrite (table_nth _ _ _ Hn). reflexivity. }
    assert (HC : T s' (cur s) = Some tc).
    { unfold T, s'. rewrite prepare_tables. cbv zeta. rewrite nth_error_set_nth. change (nth_error (tables s1) (cur s)) with (T s (cur s)). rewrite Hc.
      destruct (Nat.eqb_spec nt (cur s)); [contradiction|reflexivity]. }
    apply (inv4_prepare_gen s s' t th (cur s) nt bn' e (mark_all (bst s) spec BDead) (bump_all (bdtor s) spec) (created s1 bn' e) I1 I4 Hext Hth).
    + unfold s'. rewrite prepare_threads. reflexivity.
    + exact Ec.
    + exact Ed.
    + exact Eb.
    + exact K1.
    + exact K2.
    + exact K3.
    + exact K4.
    + exact K5.
    + exact K6.
    + unfold s'. rewrite prepare_cur. reflexivity.
    + rewrite (table_nth _ _ _ HN), (table_nth _ _ _ HC). cbn [tblocks set_blocks]. rewrite Ebn.
      rewrite (fill_contents_ext s1 (cur s) tc e Hc). change (bctor s1) with (bctor s).
      unfold created. destruct (cv_gen_ranges (tsize tc) e) as (_ & -> & -> & _). reflexivity.
    + rewrite (table_nth _ _ _ HC). assumption.
    + unfold created. destruct (cv_gen_ranges bn' e) as (_ & -> & -> & _). apply Z2Nat.id.
      fold bn' in H1. unfold loser_done in H1. rewrite Z.geb_leb in H1. apply Z.leb_gt in H1. lia.
  - match goal with |- Inv4 (upd_thread _ _ ?x) => same4 I1 I4 Hext Hth x end; [rewrite H; reflexivity|].
    cbn. destruct (expire _ _); reflexivity.
  - subst s1 s2. match goal with |- Inv4 (upd_thread _ _ ?x) => same4 I1 I4 Hext Hth x end; [rewrite H; reflexivity|reflexivity].
  - match goal with |- Inv4 (upd_thread _ _ ?x) => same4 I1 I4 Hext Hth x end; [rewrite H; reflexivity|reflexivity].
  - subst s1 s2. match goal with |- Inv4 (upd_thread _ _ ?x) => same4 I1 I4 Hext Hth x end; [rewrite H; reflexivity|reflexivity].
  - match goal with |- Inv4 (upd_thread _ _ ?x) => same4 I1 I4 Hext Hth x end; [rewrite H; reflexivity|reflexivity].
  - subst s1 s2. match goal with |- Inv4 (upd_thread _ _ ?x) => same4 I1 I4 Hext Hth x end; [rewrite H; reflexivity|reflexivity].
  - match goal with |- Inv4 (upd_thread _ _ ?x) => same4 I1 I4 Hext Hth x end; [rewrite H; reflexivity|reflexivity].
Qed.

(* ======================================================================================== *)
(* Invariant 5: life cycle of the tables: who owns what, how often each table was deleted    *)
(* ======================================================================================== *)
Definition frees_of (x : tstat) : nat := match x with TFreed | TDead => 1%nat | _ => 0%nat end.
Definition owner_ok (s : st) (k : nat) (x : tstat) : Prop :=
  match x with
  | TListed => In k (hnodes s)
  | TSpec u => exists th, nth_error (threads s) u = Some th /\ slow_nt (tpc th) = Some k
  | TRetiring u => exists th, nth_error (threads s) u = Some th /\ ret_old (tpc th) = Some k
  | _ => True
  end.
Definition tab_ok (s : st) (k : nat) (ti : tinfo) : Prop :=
  (k <> 0%nat -> tfrees ti = frees_of (tst ti)) /\ owner_ok s k (tst ti).

Record Inv5 (s : st) : Prop := {
  i5_nodup : NoDup (hnodes s);
  i5_tab : forall k ti, T s k = Some ti -> tab_ok s k ti
}.

Lemma inv5_init : forall b t0 progs, Inv5 (init b t0 progs).
Proof.
  intros. constructor; cbn; [constructor|]. intros [|[|k]] ti H; try discriminate. inversion H; subst. split; [intro N; congruence|exact Logic.I].
Qed.

Lemma free_tables_exact : forall ks tb c m, NoDup ks ->
  nth_error (free_tables tb ks c) m =
  match nth_error tb m with
  | None => None
  | Some y => Some (if mem m ks then (if Nat.eqb m 0 then set_tst y TFreed else free_tinfo y c) else y)
  end.
Proof.
  induction ks as [|k ks IH]; intros tb c m Hnd.
  - cbn. destruct (nth_error tb m); reflexivity.
  - inversion Hnd; subst. cbn [free_tables fold_left]. unfold free_tables in IH. rewrite IH by assumption.
    rewrite nth_error_free_table. destruct (nth_error tb m) as [y|]; [|reflexivity].
    unfold mem. cbn [existsb]. fold (mem m ks). rewrite (Nat.eqb_sym m k).
    destruct (Nat.eqb_spec k m) as [->|N]; cbn [orb]; [|reflexivity].
    assert (E : mem m ks = false) by (apply mem_false; assumption). rewrite E. reflexivity.
Qed.

Lemma thread_at : forall s s' t th th', nth_error (threads s) t = Some th -> threads s' = set_nth t th' (threads s) ->
  nth_error (threads s') t = Some th'.
Proof. intros. rewrite H0, nth_error_set_nth, H, Nat.eqb_refl. reflexivity. Qed.
Lemma thread_other : forall s s' t u th' thu, u <> t -> nth_error (threads s) u = Some thu -> threads s' = set_nth t th' (threads s) ->
  nth_error (threads s') u = Some thu.
Proof. intros. rewrite H1, nth_error_set_nth, H0. destruct (Nat.eqb_spec t u); [congruence|reflexivity]. Qed.

Lemma inv5_frame : forall s s' t th th',
  Inv5 s -> nth_error (threads s) t = Some th -> threads s' = set_nth t th' (threads s) ->
  NoDup (hnodes s') ->
  (forall k ti', T s' k = Some ti' ->
     (T s k = Some ti' /\ (forall u, tst ti' = TSpec u \/ tst ti' = TRetiring u -> u <> t) /\ (tst ti' = TListed -> In k (hnodes s')))
     \/ tab_ok s' k ti') ->
  Inv5 s'.
Proof.
  intros s s' t th th' I5 Hth Hthr Hnd Htab. constructor; [assumption|].
  intros k ti' Hk. destruct (Htab _ _ Hk) as [(Hk0 & Hown & Hl)|]; [|assumption].
  destruct (i5_tab s I5 _ _ Hk0) as [Hf Ho]. split; [assumption|].
  unfold owner_ok in *. destruct (tst ti') as [u| |u| | |] eqn:Est; auto.
  - destruct Ho as (thu & Hu & Hs). exists thu. split; [|assumption]. apply (thread_other s s' t u th' thu); [apply (Hown u); first [left; exact Est|left; reflexivity]|exact Hu|exact Hthr].
  - destruct Ho as (thu & Hu & Hs). exists thu. split; [|assumption]. apply (thread_other s s' t u th' thu); [apply (Hown u); first [right; exact Est|right; reflexivity]|exact Hu|exact Hthr].
Qed.

Lemma inv5_local : forall s s' t th th',
  Inv5 s -> nth_error (threads s) t = Some th -> threads s' = set_nth t th' (threads s) ->
  tables s' = tables s -> hnodes s' = hnodes s ->
  slow_nt (tpc th') = slow_nt (tpc th) -> ret_old (tpc th') = ret_old (tpc th) -> Inv5 s'.
Proof.
  intros s s' t th th' I5 Hth Hthr Et Eh Es Er. constructor; [rewrite Eh; apply (i5_nodup s I5)|].
  intros k ti Hk. unfold T in Hk. rewrite Et in Hk. destruct (i5_tab s I5 _ _ Hk) as [Hf Ho]. split; [assumption|].
  unfold owner_ok in *. rewrite Eh. destruct (tst ti) as [u| |u| | |]; auto.
  - destruct Ho as (thu & Hu & Hs). destruct (Nat.eq_dec u t) as [->|N].
    + exists th'. split; [eapply thread_at; eauto|]. rewrite Hth in Hu. inversion Hu; subst. congruence.
    + exists thu. split; [eapply thread_other; eauto|assumption].
  - destruct Ho as (thu & Hu & Hs). destruct (Nat.eq_dec u t) as [->|N].
    + exists th'. split; [eapply thread_at; eauto|]. rewrite Hth in Hu. inversion Hu; subst. congruence.
    + exists thu. split; [eapply thread_other; eauto|assumption].
Qed.

(* a table that thread t does not own: its owner facts in s contradict t's pc *)
Lemma not_mine : forall s t th k ti, Inv5 s -> nth_error (threads s) t = Some th -> T s k = Some ti ->
  (slow_nt (tpc th) <> Some k) -> (ret_old (tpc th) <> Some k) ->
  forall u, tst ti = TSpec u \/ tst ti = TRetiring u -> u <> t.
Proof.
  intros s t th k ti I5 Hth Hk Hs Hr u Hu E. subst u. destruct (i5_tab s I5 _ _ Hk) as [_ Ho]. unfold owner_ok in Ho.
  destruct Hu as [Hu|Hu]; rewrite Hu in Ho; destruct Ho as (th0 & H0 & H1); rewrite Hth in H0; inversion H0; subst; contradiction.
Qed.

Ltac loc5 I5 Hth TH :=
  apply (inv5_local _ _ _ _ TH I5 Hth); [reflexivity|reflexivity|reflexivity| | ].

Lemma inv5_step : forall s t th s', Inv1 s -> Inv5 s -> nth_error (threads s) t = Some th -> Step s t th s' -> Inv5 s'.
Proof.
  intros s t th s' I1 I5 Hth HS.
  destruct (i1_cur s I1) as (tc & Hc & Hcst & _).
  pose proof (i1_pc s I1 _ _ Hth) as Hpc0.
  destruct HS.
  - loc5 I5 Hth (finish_op th (complete s o (cur s))); rewrite H; reflexivity.
  - match goal with |- Inv5 (upd_thread _ _ ?x) => loc5 I5 Hth x end; rewrite H; reflexivity.
  - match goal with |- Inv5 (upd_thread _ _ ?x) => loc5 I5 Hth x end; rewrite H; reflexivity.
  - match goal with |- Inv5 (upd_thread _ _ ?x) => loc5 I5 Hth x end; rewrite H; reflexivity.
  - match goal with |- Inv5 (upd_thread _ _ ?x) => loc5 I5 Hth x end; rewrite H; reflexivity.
  - match goal with |- Inv5 (upd_thread _ _ ?x) => loc5 I5 Hth x end; rewrite H; reflexivity.
  - match goal with |- Inv5 (upd_thread _ _ ?x) => loc5 I5 Hth x end; rewrite H; reflexivity.
  - match goal with |- Inv5 (upd_thread _ _ ?x) => loc5 I5 Hth x end; rewrite H; reflexivity.
  - match goal with |- Inv5 (upd_thread _ _ ?x) => loc5 I5 Hth x end; rewrite H; reflexivity.
  - match goal with |- Inv5 (upd_thread _ _ ?x) => loc5 I5 Hth x end; rewrite H; reflexivity.
  - match goal with |- Inv5 (upd_thread _ _ ?x) => loc5 I5 Hth x end; rewrite H; reflexivity.
  - (* prepare, fresh table *)
    set (L := length (tables s)). set (s' := prepare s t th (cur s) L true e).
    assert (Hthr : threads s' = set_nth t (goto th (SlowCas (cur s) L (tsize (table s (cur s))) e)) (threads s)) by apply prepare_threads.
    apply (inv5_frame s s' t th _ I5 Hth Hthr).
    + unfold s'. rewrite prepare_hnodes. apply (i5_nodup s I5).
    + intros k y Hk. unfold T, s' in Hk. rewrite prepare_tables in Hk. cbv zeta in Hk.
      destruct (Nat.lt_ge_cases k L) as [Hlt|Hge].
      * rewrite nth_error_app1 in Hk by assumption. left. split; [exact Hk|]. split.
        -- apply (not_mine s t th k y I5 Hth Hk); rewrite H; discriminate.
        -- intro Hl. unfold s'. rewrite prepare_hnodes. destruct (i5_tab s I5 _ _ Hk) as [_ Ho]. unfold owner_ok in Ho. rewrite Hl in Ho. exact Ho.
      * rewrite nth_error_app2 in Hk by assumption. fold L in Hk. destruct (k - L)%nat eqn:Ek; [|destruct n; cbn in Hk; discriminate].
        cbn in Hk. inversion Hk; subst y. right. split; [reflexivity|]. change (exists th0, nth_error (threads s') t = Some th0 /\ slow_nt (tpc th0) = Some k).
        eexists. split; [exact (thread_at _ _ _ _ _ Hth Hthr)|]. cbn. f_equal. lia.
  - (* table CAS won *)
    rewrite H in Hpc0. cbn in Hpc0. destruct Hpc0 as (tb & tn & spec & Hb & Hn & Hpb & Hst & _).
    subst bt. rewrite Hc in Hb. inversion Hb; subst tb; clear Hb.
    rewrite (table_nth _ _ _ Hn), (table_nth _ _ _ Hc).
    match goal with |- Inv5 ?x => set (s' := x) end.
    assert (Hne : nt <> cur s) by (intro E; subst nt; congruence).
    apply (inv5_frame s s' t th (goto th (RetLoad (cur s) nt)) I5 Hth); [reflexivity|apply (i5_nodup s I5)|].
    intros k y Hk. unfold T, s' in Hk. cbn in Hk. rewrite !nth_error_set_nth in Hk. fold (T s k) in Hk.
    destruct (T s k) as [y0|] eqn:Ek; [|discriminate]. inversion Hk; subst y; clear Hk.
    destruct (Nat.eqb_spec nt k) as [<-|N1].
    + right. rewrite Hn in Ek. inversion Ek; subst y0. destruct (i5_tab s I5 _ _ Hn) as [Hf _]. split; [|exact Logic.I].
      intro Nz. cbn. rewrite (Hf Nz), Hst. reflexivity.
    + destruct (Nat.eqb_spec (cur s) k) as [<-|N2].
      * right. rewrite Hc in Ek. inversion Ek; subst y0. destruct (i5_tab s I5 _ _ Hc) as [Hf _]. split.
        -- intro Nz. cbn. rewrite (Hf Nz), Hcst. reflexivity.
        -- cbn. eexists. split; [eapply (thread_at s s'); eauto; reflexivity|reflexivity].
      * left. split; [reflexivity|]. split.
        -- apply (not_mine s t th k y0 I5 Hth Ek); rewrite H; cbn; congruence.
        -- intro Hl. destruct (i5_tab s I5 _ _ Ek) as [_ Ho]. unfold owner_ok in Ho. rewrite Hl in Ho. exact Ho.
  - (* table CAS lost, done *)
    rewrite H in Hpc0. cbn in Hpc0. destruct Hpc0 as (tb & tn & spec & Hb & Hn & Hpb & Hst & _ & _ & _ & _ & Hnz).
    subst s1 s2. cbn [cur tables with_mem].
    match goal with |- Inv5 (upd_thread ?x _ ?y) => set (s2 := x); set (th' := y) end.
    apply (inv5_frame s (upd_thread s2 t th') t th th' I5 Hth); [reflexivity|apply (i5_nodup s I5)|].
    intros k y Hk. unfold T in Hk. cbn in Hk. rewrite nth_error_free_table in Hk. fold (T s k) in Hk.
    destruct (T s k) as [y0|] eqn:Ek; [|discriminate]. inversion Hk; subst y; clear Hk.
    destruct (Nat.eqb_spec nt k) as [<-|N1].
    + right. rewrite Hn in Ek. inversion Ek; subst y0. destruct (Nat.eqb_spec nt 0); [contradiction|].
      destruct (i5_tab s I5 _ _ Hn) as [Hf _]. split; [|cbn; rewrite Hst; exact Logic.I].
      intro Nz. cbn. rewrite (Hf Nz), Hst. reflexivity.
    + left. split; [reflexivity|]. split.
      * apply (not_mine s t th k y0 I5 Hth Ek); rewrite H; cbn; congruence.
      * intro Hl. destruct (i5_tab s I5 _ _ Ek) as [_ Ho]. unfold owner_ok in Ho. rewrite Hl in Ho. exact Ho.
  - (* table CAS lost, retry *)
    rewrite H in Hpc0. cbn in Hpc0. destruct Hpc0 as (tb & tn & spec & Hb & Hn & Hpb & Hst & _).
    set (s' := prepare s1 t th (cur s) nt false e).
    assert (Hthr : threads s' = set_nth t (goto th (SlowCas (cur s) nt (tsize (table s (cur s))) e)) (threads s))
      by (unfold s'; rewrite prepare_threads; reflexivity).
    apply (inv5_frame s s' t th _ I5 Hth Hthr).
    + unfold s'. rewrite prepare_hnodes. apply (i5_nodup s I5).
    + intros k y Hk. unfold T, s' in Hk. rewrite prepare_tables in Hk. cbv zeta in Hk. rewrite nth_error_set_nth in Hk.
      change (nth_error (tables s1) k) with (T s k) in Hk.
      destruct (T s k) as [y0|] eqn:Ek; [|discriminate]. inversion Hk; subst y; clear Hk.
      destruct (Nat.eqb_spec nt k) as [<-|N1].
      * right. change (table s1 nt) with (table s nt). rewrite (table_nth _ _ _ Hn).
        destruct (i5_tab s I5 _ _ Hn) as [Hf _]. split; [exact Hf|]. cbn. rewrite Hst. eexists. split; [eapply thread_at; eauto|reflexivity].
      * left. split; [reflexivity|]. split.
        -- apply (not_mine s t th k y0 I5 Hth Ek); rewrite H; cbn; congruence.
        -- intro Hl. unfold s'. rewrite prepare_hnodes. destruct (i5_tab s I5 _ _ Ek) as [_ Ho]. unfold owner_ok in Ho. rewrite Hl in Ho. exact Ho.
  - match goal with |- Inv5 (upd_thread _ _ ?x) => loc5 I5 Hth x end; rewrite H; cbn; destruct (expire _ _); reflexivity.
  - (* retire: expired list replaced *)
    rewrite H in Hpc0. cbn in Hpc0. destruct Hpc0 as (to & tn & Ho & Host & _).
    subst s1 s2. cbn [cur tables with_mem with_head]. rewrite (table_nth _ _ _ Ho).
    match goal with |- Inv5 (upd_thread ?x _ ?y) => set (s2 := x); set (th' := y) end.
    assert (Hndh : NoDup hn) by (rewrite <- H1; apply (i5_nodup s I5)).
    assert (Hold : ~ In old hn).
    { intro Hi. rewrite <- H1 in Hi. destruct (i1_list s I1 _ Hi) as (y & Hy & Hyst). congruence. }
    apply (inv5_frame s (upd_thread s2 t th') t th th' I5 Hth); [reflexivity|cbn; repeat constructor; intros []|].
    intros k y Hk. unfold T in Hk. cbn in Hk. rewrite (free_tables_exact hn _ (clock s) k Hndh), nth_error_set_nth in Hk. fold (T s k) in Hk.
    destruct (T s k) as [y0|] eqn:Ek; [|discriminate]. inversion Hk; subst y; clear Hk.
    destruct (mem k hn) eqn:Em.
    + apply mem_In in Em. right. assert (N : old <> k) by (intro E; subst; contradiction).
      destruct (Nat.eqb_spec old k); [contradiction|].
      assert (Hi : In k (hnodes s)) by congruence. destruct (i1_list s I1 _ Hi) as (y1 & Hy1 & Hl). rewrite Ek in Hy1. inversion Hy1; subst y1.
      destruct (i5_tab s I5 _ _ Ek) as [Hf _].
      destruct (Nat.eqb_spec k 0) as [->|Nz]; (split; [|cbn; try rewrite Hl; exact Logic.I]).
      * intro Nz. congruence.
      * intros _. cbn. rewrite (Hf Nz), Hl. reflexivity.
    + apply mem_false in Em. destruct (Nat.eqb_spec old k) as [<-|N].
      * right. rewrite Ho in Ek. inversion Ek; subst y0. destruct (i5_tab s I5 _ _ Ho) as [Hf _]. split.
        -- intro Nz. cbn. rewrite (Hf Nz), Host. reflexivity.
        -- cbn. left. reflexivity.
      * left. split; [reflexivity|]. split.
        -- apply (not_mine s t th k y0 I5 Hth Ek); rewrite H; cbn; congruence.
        -- intro Hl. exfalso. destruct (i5_tab s I5 _ _ Ek) as [_ Ho']. unfold owner_ok in Ho'. rewrite Hl in Ho'. apply Em. congruence.
  - match goal with |- Inv5 (upd_thread _ _ ?x) => loc5 I5 Hth x end; rewrite H; reflexivity.
  - (* retire: push won *)
    rewrite H in Hpc0. cbn in Hpc0. destruct Hpc0 as (to & tn & Ho & Host & _).
    subst s1 s2. cbn [cur tables with_mem with_head]. rewrite (table_nth _ _ _ Ho).
    match goal with |- Inv5 (upd_thread ?x _ ?y) => set (s2 := x); set (th' := y) end.
    assert (Hold : ~ In old hn).
    { intro Hi. rewrite <- H1 in Hi. destruct (i1_list s I1 _ Hi) as (y & Hy & Hyst). congruence. }
    apply (inv5_frame s (upd_thread s2 t th') t th th' I5 Hth); [reflexivity| |].
    + cbn. constructor; [assumption|]. rewrite <- H1. apply (i5_nodup s I5).
    + intros k y Hk. unfold T in Hk. cbn in Hk. rewrite nth_error_set_nth in Hk. fold (T s k) in Hk.
      destruct (T s k) as [y0|] eqn:Ek; [|discriminate]. inversion Hk; subst y; clear Hk.
      destruct (Nat.eqb_spec old k) as [<-|N].
      * right. rewrite Ho in Ek. inversion Ek; subst y0. destruct (i5_tab s I5 _ _ Ho) as [Hf _]. split.
        -- intro Nz. cbn. rewrite (Hf Nz), Host. reflexivity.
        -- cbn. left. reflexivity.
      * left. split; [reflexivity|]. split.
        -- apply (not_mine s t th k y0 I5 Hth Ek); rewrite H; cbn; congruence.
        -- intro Hl. cbn. right. destruct (i5_tab s I5 _ _ Ek) as [_ Ho']. unfold owner_ok in Ho'. rewrite Hl in Ho'. congruence.
  - match goal with |- Inv5 (upd_thread _ _ ?x) => loc5 I5 Hth x end; rewrite H; reflexivity.
  - (* gc won *)
    subst s1 s2. cbn [cur tables with_mem with_head].
    match goal with |- Inv5 (upd_thread ?x _ ?y) => set (s2 := x); set (th' := y) end.
    assert (Hndh : NoDup hn) by (rewrite <- H1; apply (i5_nodup s I5)).
    apply (inv5_frame s (upd_thread s2 t th') t th th' I5 Hth); [reflexivity|cbn; constructor|].
    intros k y Hk. unfold T in Hk. cbn in Hk. rewrite (free_tables_exact hn _ (clock s) k Hndh) in Hk. fold (T s k) in Hk.
    destruct (T s k) as [y0|] eqn:Ek; [|discriminate]. inversion Hk; subst y; clear Hk.
    destruct (mem k hn) eqn:Em.
    + apply mem_In in Em. right.
      assert (Hi : In k (hnodes s)) by congruence. destruct (i1_list s I1 _ Hi) as (y1 & Hy1 & Hl). rewrite Ek in Hy1. inversion Hy1; subst y1.
      destruct (i5_tab s I5 _ _ Ek) as [Hf _].
      destruct (Nat.eqb_spec k 0) as [->|Nz]; (split; [|cbn; try rewrite Hl; exact Logic.I]).
      * intro Nz. congruence.
      * intros _. cbn. rewrite (Hf Nz), Hl. reflexivity.
    + apply mem_false in Em. left. split; [reflexivity|]. split.
      * apply (not_mine s t th k y0 I5 Hth Ek); rewrite H; cbn; congruence.
      * intro Hl. exfalso. destruct (i5_tab s I5 _ _ Ek) as [_ Ho']. unfold owner_ok in Ho'. rewrite Hl in Ho'. apply Em. congruence.
  - match goal with |- Inv5 (upd_thread _ _ ?x) => loc5 I5 Hth x end; rewrite H; reflexivity.
Qed.

Lemma cv_reach_inv45 : forall b t0 progs s, Reach b t0 progs s -> Inv1 s /\ Inv4 s /\ Inv5 s.
Proof.
  intros b t0 progs s HR. unfold Reach in HR.
  apply (inv_reachable st step (fun s => Inv1 s /\ Inv4 s /\ Inv5 s) (init b t0 progs)); auto.
  - split; [apply inv1_init|split; [apply inv4_init|apply inv5_init]].
  - intros s0 t s1 (I1 & I4 & I5) Hs. destruct (step_Step _ _ _ Hs) as (th & Hth & HS).
    split; [apply (inv1_step s0 t th s1 I1 Hth HS)|split; [apply (inv4_step s0 t th s1 I1 I4 Hth HS)|apply (inv5_step s0 t th s1 I1 I5 Hth HS)]].
Qed.

(* while the vector is alive: no block is destroyed twice, and no block visible through the published table is
   destroyed at all; a block with destructor count 0 is either published or still owned by exactly one thread that
   is inside the slow path (and will publish or destroy it) *)
Lemma cv_destroyed_at_most_once : forall b t0 progs s blk c, Reach b t0 progs s -> nth_error (bdtor s) blk = Some c ->
  (c <= 1)%nat /\ (In blk (live s) -> c = 0%nat) /\
  (c = 0%nat -> In blk (live s) \/ exists t th, nth_error (threads s) t = Some th /\ slow_nt (tpc th) <> None /\
                                         nth_error (bst s) blk = Some (BSpec t)).
Proof.
  intros b t0 progs s blk c HR Hc. destruct (cv_reach_inv45 _ _ _ _ HR) as (I1 & I4 & _).
  destruct (i4_len s I4) as [L1 L2].
  assert (Hlt : (blk < length (bst s))%nat) by (rewrite L2, <- L1; apply nth_error_Some; congruence).
  destruct (nth_error (bst s) blk) as [x|] eqn:Ex; [|apply nth_error_None in Ex; lia].
  pose proof (i4_dtor s I4 _ _ Ex) as Hd. rewrite Hc in Hd. inversion Hd; subst c. split; [destruct x; cbn; lia|]. split.
  - intro Hl. apply (i4_live s I4) in Hl. rewrite Ex in Hl. inversion Hl; subst. reflexivity.
  - intro H0. destruct x as [u| |]; cbn in H0; try discriminate.
    + right. destruct (i4_owner s I4 _ _ Ex) as (th & Hth & Hs). exists u, th. auto.
    + left. apply (i4_live s I4). assumption.
Qed.

Lemma all_done_idle : forall s, all_done s = true -> forall t th, nth_error (threads s) t = Some th -> tpc th = Idle.
Proof.
  intros s H t th Hth. unfold all_done in H. rewrite forallb_forall in H. specialize (H th (nth_error_In _ _ Hth)).
  unfold thread_done in H. destruct (tpc th); try discriminate. reflexivity.
Qed.

(* when the vector dies (all calls returned): every block ever created has been constructed exactly once and destroyed
   exactly once (by the loser that created it or by ~ConcurrentVector), every heap block table deleted exactly once *)
Lemma cv_death : forall b t0 progs s, Reach b t0 progs s -> all_done s = true ->
  Forall (fun c => c = 1%nat) (bctor (destroy s)) /\ Forall (fun c => c = 1%nat) (bdtor (destroy s)) /\
  length (bdtor (destroy s)) = length (bctor (destroy s)) /\
  forall k ti, nth_error (tables (destroy s)) k = Some ti -> k <> 0%nat -> tfrees ti = 1%nat.
Proof.
  intros b t0 progs s HR Hdone. destruct (cv_reach_inv45 _ _ _ _ HR) as (I1 & I4 & I5).
  pose proof (all_done_idle s Hdone) as Hidle.
  destruct (i1_cur s I1) as (tc & Hc & Hcst & _). destruct (i4_len s I4) as [L1 L2].
  assert (Hblocks : firstn (Z.to_nat (destroy_loop_hi (tsize (table s (cur s))))) (tblocks (table s (cur s))) = live s).
  { unfold live. rewrite cv_destroy_loop. unfold tsize. rewrite Nat2Z.id. apply firstn_all. }
  split; [apply (cv_constructed_once _ _ _ _ HR)|]. split; [|split].
  - unfold destroy. cbn [bdtor with_head with_mem]. rewrite Hblocks. apply Forall_forall. intros x Hx.
    apply In_nth_error in Hx. destruct Hx as (blk & Hx). rewrite (nth_error_bump_all _ _ _ (i4_nodup s I4)) in Hx.
    destruct (nth_error (bdtor s) blk) as [c|] eqn:Ec; [|discriminate]. inversion Hx; subst x; clear Hx.
    assert (Hlt : (blk < length (bst s))%nat) by (rewrite L2, <- L1; apply nth_error_Some; congruence).
    destruct (nth_error (bst s) blk) as [y|] eqn:Ey; [|apply nth_error_None in Ey; lia].
    pose proof (i4_dtor s I4 _ _ Ey) as Hd. rewrite Ec in Hd. inversion Hd; subst c.
    destruct y as [u| |].
    + exfalso. destruct (i4_owner s I4 _ _ Ey) as (th & Hth & Hs). rewrite (Hidle _ _ Hth) in Hs. apply Hs. reflexivity.
    + assert (E : mem blk (live s) = true) by (apply mem_In; apply (i4_live s I4); assumption). rewrite E. reflexivity.
    + assert (E : mem blk (live s) = false).
      { apply mem_false. intro Hl. apply (i4_live s I4) in Hl. congruence. }
      rewrite E. reflexivity.
  - unfold destroy. cbn [bdtor bctor with_head with_mem]. rewrite length_bump_all. assumption.
  - intros k ti' Hk Nz. unfold destroy in Hk. cbn [tables with_head with_mem] in Hk.
    rewrite (free_tables_exact _ _ _ _ (i5_nodup s I5)), nth_error_free_table in Hk. fold (T s k) in Hk.
    destruct (T s k) as [ti|] eqn:Ek; [|discriminate]. inversion Hk; subst ti'; clear Hk.
    destruct (Nat.eqb_spec k 0) as [|_]; [contradiction|].
    destruct (i5_tab s I5 _ _ Ek) as [Hf Ho]. specialize (Hf Nz). unfold owner_ok in Ho.
    assert (Hcn : ~ In (cur s) (hnodes s)).
    { intro Hi. destruct (i1_list s I1 _ Hi) as (y & Hy & Hl). congruence. }
    destruct (tst ti) as [u| |u| | |] eqn:Est.
    + exfalso. destruct Ho as (th & Hth & Hs). rewrite (Hidle _ _ Hth) in Hs. discriminate.
    + assert (k = cur s) by (eapply (i1_uniq s I1); eauto). subst k. rewrite Nat.eqb_refl.
      assert (E : mem (cur s) (hnodes s) = false) by (apply mem_false; assumption). rewrite E.
      destruct (Nat.eqb_spec (cur s) 0); [contradiction|]. cbn. rewrite Hf. reflexivity.
    + exfalso. destruct Ho as (th & Hth & Hs). rewrite (Hidle _ _ Hth) in Hs. discriminate.
    + assert (E : mem k (hnodes s) = true) by (apply mem_In; assumption). rewrite E.
      destruct (Nat.eqb_spec (cur s) k) as [E'|_]; [subst k; contradiction|]. cbn. rewrite Hf. reflexivity.
    + assert (E : mem k (hnodes s) = false).
      { apply mem_false. intro Hi. destruct (i1_list s I1 _ Hi) as (y & Hy & Hl). rewrite Ek in Hy. inversion Hy; subst. congruence. }
      rewrite E. destruct (Nat.eqb_spec (cur s) k) as [E'|_]; [subst k; rewrite Hc in Ek; inversion Ek; subst; congruence|]. assumption.
    + assert (E : mem k (hnodes s) = false).
      { apply mem_false. intro Hi. destruct (i1_list s I1 _ Hi) as (y & Hy & Hl). rewrite Ek in Hy. inversion Hy; subst. congruence. }
      rewrite E. destruct (Nat.eqb_spec (cur s) k) as [E'|_]; [subst k; rewrite Hc in Ek; inversion Ek; subst; congruence|]. assumption.
Qed.

(* tables are deleted at most once while the vector is alive, and only tables that are off the retire list or were
   never published *)
Lemma cv_table_frees : forall b t0 progs s k ti, Reach b t0 progs s -> nth_error (tables s) k = Some ti -> k <> 0%nat ->
  (tfrees ti <= 1)%nat /\ (tfrees ti = 1%nat <-> (tst ti = TFreed \/ tst ti = TDead)).
Proof.
  intros b t0 progs s k ti HR Hk Nz. destruct (cv_reach_inv45 _ _ _ _ HR) as (_ & _ & I5).
  destruct (i5_tab s I5 _ _ Hk) as [Hf _]. rewrite (Hf Nz). destruct (tst ti); cbn; split; try lia; split; intro H;
    try discriminate; try (destruct H; discriminate); auto.
Qed.

(* non-vacuity of cv_death: a finished run with a loser, a retired table and 3 live blocks *)
Definition death_progs : list (list op) := [[OEnsure 1; OEnsure 2]; [OEnsure 1; OGc]].
Definition death_sched : list nat := [0; 1; 0; 1; 0; 0; 0; 1; 1; 0; 0; 0; 0; 1; 1; 1; 1; 1]%nat.
Lemma cv_death_example :
  exists s, Reach 0 1000000 death_progs s /\ all_done s = true /\ (0 < sum (bdtor s))%nat /\ (2 <= length (tl (tables s)))%nat.
Proof.
  set (s := run st step (init 0 1000000 death_progs) death_sched).
  exists s. split; [exists death_sched; reflexivity|]. vm_compute. repeat split; lia.
Qed.
