(* Proofs about CV/CVModel.v (babylon::ConcurrentVector + RetireList).  Statements are fixed by Properties_C04.v. *)
From Coq Require Import ZArith List Bool Lia Arith PeanoNat.
Require Import Verif.Base.Atomics Verif.Gen.Gen_cvector Verif.Conc.Machine Verif.CV.CVModel.
Import ListNotations.
Local Open Scope Z_scope.

(* ---- vocabulary used by the statements ---- *)
Definition Reach (b t0 : Z) (progs : list (list op)) (s : st) : Prop := reachable st step (init b t0 progs) s.
Definition live (s : st) : list nat := tblocks (table s (cur s)).          (* blocks of the published table *)
Definition prefix {A} (a b : list A) : Prop := exists r, b = a ++ r.
(* where index i lives according to the current table *)
Definition slot (s : st) (i : Z) : option elem := read_elem s (live s) i.
Definition op_index (o : op) : option Z :=
  match o with OEnsure i | OIndex i | OSnapGet i => Some i | _ => None end.
Definition published (ti : tinfo) : Prop := match tst ti with TSpec _ | TDead => False | _ => True end.

(* memory-order obligations on the regenerated site tables: publication of a table / of a retire head is a
   release (acq_rel CAS), every read of _block_table and _head that is followed by a dereference is an acquire *)
Definition orders_ok : bool :=
  match sites_get_table, sites_get_table_slow, sites_snapshot, sites_retire, sites_gc with
  | [(KLoad, o_gt, _)], [(KCasS, o_cas_s, o_cas_f)], [(KLoad, o_snap, _)],
    [(KLoad, o_rl, _); (KCasS, o_rs, _); (KCasW, o_rw, _)], [(KLoad, o_gl, _); (KCasS, o_gs, _)] =>
    has_acquire o_gt && has_release o_cas_s && has_acquire o_cas_s && has_acquire o_cas_f && has_acquire o_snap &&
    has_acquire o_rl && has_release o_rs && has_acquire o_rs && has_release o_rw && has_acquire o_rw &&
    has_acquire o_gl && has_acquire o_gs
  | _, _, _, _, _ => false
  end.

(* ======================================================================================== *)
(* The generated formulas, restated (each proof breaks if the C++ expression changes)       *)
(* ======================================================================================== *)
Lemma cv_gen_ranges : forall bn e, copy_bytes bn / 8 = bn /\ create_lo bn e = bn /\ create_hi bn e = e /\
  delete_lo bn e = bn /\ delete_hi bn e = e /\ new_table_size bn e = e.
Proof.
  intros. unfold copy_bytes, create_lo, create_hi, delete_lo, delete_hi, new_table_size.
  repeat split; try reflexivity. apply Z.div_mul. lia.
Qed.
Lemma cv_table_qualified : forall n e, table_qualified n e = true <-> e <= n.
Proof. intros. unfold table_qualified. rewrite Z.geb_le. reflexivity. Qed.
Lemma cv_loser_done : forall n e, loser_done n e = true <-> e <= n.
Proof. intros. unfold loser_done. rewrite Z.geb_le. reflexivity. Qed.
Lemma cv_ensure_expect : forall bi, ensure_expect bi = bi + 1.
Proof. reflexivity. Qed.
Lemma cv_orders_ok : orders_ok = true.
Proof. vm_compute. reflexivity. Qed.
Lemma cv_ts_bits : ts_bits = 16 /\ ts_of_head_bits = 16 /\ expire_arg_bits = 16.
Proof. repeat split; reflexivity. Qed.
Lemma cv_gc_new_head : gc_new_head = 0.
Proof. reflexivity. Qed.
Lemma cv_destroy_loop : forall n, destroy_loop_hi n = n.
Proof. reflexivity. Qed.
Lemma cv_elem_loops : forall n, ctor_loop_hi n = n /\ dtor_loop_hi n = n.
Proof. intro n. split; reflexivity. Qed.

Lemma cv_current_unit : forall c, current_unit c = c / 64.
Proof. intro c. unfold current_unit. rewrite Z.shiftr_div_pow2 by lia. reflexivity. Qed.
Lemma current_unit_mono : forall a b, a <= b -> current_unit a <= current_unit b.
Proof. intros. rewrite !cv_current_unit. apply Z.div_le_mono; lia. Qed.
Lemma current_unit_nonneg : forall a, 0 <= a -> 0 <= current_unit a.
Proof. intros. rewrite cv_current_unit. apply Z.div_pos; lia. Qed.

(* tagged pointer: the stamp survives packing (48-bit pointers) *)
Lemma cv_head_packing : forall p ts, 0 <= p < 2 ^ 48 -> 0 <= ts ->
  ts_of_head (make_head p ts) = ts /\ node_of_head (make_head p ts) = p.
Proof.
  intros p ts Hp Hts. unfold ts_of_head, node_of_head, make_head.
  rewrite (Z.mod_small p (2 ^ 64)) by lia. split.
  - rewrite Z.shiftr_lor, Z.shiftr_shiftl_l, Z.sub_diag, Z.shiftl_0_r by lia.
    rewrite (Z.shiftr_div_pow2 p 48) by lia. rewrite Z.div_small by lia. apply Z.lor_0_r.
  - change 281474976710655 with (Z.ones 48). rewrite Z.land_lor_distr_l.
    rewrite !Z.land_ones by lia. rewrite Z.shiftl_mul_pow2 by lia. rewrite Z.mod_mul by lia.
    rewrite Z.mod_small by lia. reflexivity.
Qed.
Lemma node_addr_range : forall k, 0 <= node_addr k < 2 ^ 48.
Proof. intro k. unfold node_addr. pose proof (Z.mod_pos_bound ((Z.of_nat k + 1) * 16) (2 ^ 47)). lia. Qed.
Lemma stamp_at_range : forall c, 0 <= stamp_at c < 2 ^ 16.
Proof. intro c. unfold stamp_at. change ts_bits with 16. apply Z.mod_pos_bound. lia. Qed.
Lemma ts_of_new_head : forall k c, ts_of_head (make_head (node_addr k) (stamp_at c)) = stamp_at c.
Proof. intros. apply cv_head_packing. apply node_addr_range. apply stamp_at_range. Qed.

(* expire, 16-bit wrap included: if the stamp in the head is U (mod 2^16) for some unit U that is not in the
   future, `expire` implies that at least two whole units have passed since U; wrap can only hide an expiry *)
Lemma cv_expire_sound : forall hw c U, 0 <= U <= current_unit c -> ts_of_head hw = U mod 2 ^ 16 ->
  expire hw (stamp_at c) = true -> U + 2 <= current_unit c.
Proof.
  intros hw c U HU Hts He. unfold expire, stamp_at in He. change ts_bits with 16 in He. rewrite Hts in He.
  rewrite <- Zminus_mod in He. apply Z.gtb_lt in He.
  destruct (Z_lt_le_dec (current_unit c - U) 2) as [Hlt|]; [|lia].
  rewrite Z.mod_small in He by lia. lia.
Qed.
Lemma cv_expire_wrap_only_delays : forall hw c U, 0 <= U <= current_unit c -> ts_of_head hw = U mod 2 ^ 16 ->
  current_unit c - U < 2 ^ 16 -> (expire hw (stamp_at c) = true <-> U + 2 <= current_unit c).
Proof.
  intros hw c U HU Hts Hlt. split; [apply cv_expire_sound; assumption|]. intro H2.
  unfold expire, stamp_at. change ts_bits with 16. rewrite Hts. rewrite <- Zminus_mod.
  rewrite Z.mod_small by lia. apply Z.gtb_lt. lia.
Qed.
Lemma units_apart : forall r c U, current_unit r <= U -> U + 2 <= current_unit c -> c - r > 64.
Proof.
  intros r c U H1 H2. rewrite cv_current_unit in *.
  pose proof (Z.mul_div_le c 64). pose proof (Z.mul_succ_div_gt r 64). lia.
Qed.

(* static and dynamic block arithmetic agree for BLOCK_SIZE = 2^bits *)
Lemma cv_static_dynamic_agree : forall i b, 0 <= b ->
  sta_block_index i b = dyn_block_index i b /\
  sta_block_offset i (2 ^ b) = dyn_block_offset i (mask_of b) /\ sta_block_mask (2 ^ b) = mask_of b /\
  dyn_block_size (mask_of b) = 2 ^ b.
Proof.
  intros i b Hb. unfold sta_block_index, dyn_block_index, sta_block_offset, dyn_block_offset, sta_block_mask, mask_of,
    dyn_block_size. rewrite Z.ones_equiv. repeat split; try reflexivity; lia.
Qed.
Lemma cv_index_split : forall i b, 0 <= b -> 0 <= i ->
  i = dyn_block_index i b * 2 ^ b + dyn_block_offset i (mask_of b) /\ 0 <= dyn_block_offset i (mask_of b) < 2 ^ b.
Proof.
  intros i b Hb Hi. unfold dyn_block_index, dyn_block_offset, mask_of.
  rewrite Z.shiftr_div_pow2, Z.land_ones by lia.
  pose proof (Z.div_mod i (2 ^ b)). pose proof (Z.mod_pos_bound i (2 ^ b)).
  assert (0 < 2 ^ b) by (apply Z.pow_pos_nonneg; lia). split; [|lia]. rewrite Z.mul_comm. apply H. lia.
Qed.

(* ======================================================================================== *)
(* Lists                                                                                    *)
(* ======================================================================================== *)
Lemma nth_error_set_nth : forall A (l : list A) n x m,
  nth_error (set_nth n x l) m = match nth_error l m with None => None | Some y => Some (if Nat.eqb n m then x else y) end.
Proof.
  induction l as [|a l IH]; intros n x m.
  - destruct n, m; reflexivity.
  - destruct n, m; cbn; try reflexivity.
    + destruct (nth_error l m); reflexivity.
    + apply IH.
Qed.
Lemma length_set_nth : forall A (l : list A) n x, length (set_nth n x l) = length l.
Proof. induction l; intros [|n] x; cbn; auto. Qed.
Lemma table_nth : forall s k ti, nth_error (tables s) k = Some ti -> table s k = ti.
Proof. intros. unfold table. apply nth_error_nth. assumption. Qed.
Lemma prefix_refl : forall A (l : list A), prefix l l.
Proof. intros. exists []. symmetry. apply app_nil_r. Qed.
Lemma prefix_trans : forall A (a b c : list A), prefix a b -> prefix b c -> prefix a c.
Proof. intros A a b c [r1 ->] [r2 ->]. exists (r1 ++ r2). symmetry. apply app_assoc. Qed.
Lemma prefix_nth : forall A (a b : list A) n x, prefix a b -> nth_error a n = Some x -> nth_error b n = Some x.
Proof. intros A a b n x [r ->] H. rewrite nth_error_app1; [assumption|]. apply nth_error_Some. congruence. Qed.

Lemma nth_error_free_table : forall tb k c m,
  nth_error (free_table tb k c) m =
  match nth_error tb m with
  | None => None
  | Some y => Some (if Nat.eqb k m then (if Nat.eqb k 0 then set_tst y TFreed else free_tinfo y c) else y)
  end.
Proof.
  intros. unfold free_table. destruct (nth_error tb k) eqn:E.
  - rewrite nth_error_set_nth. destruct (nth_error tb m) eqn:E2; [|reflexivity].
    destruct (Nat.eqb_spec k m); [|reflexivity]. subst. rewrite E in E2. inversion E2; subst. reflexivity.
  - destruct (nth_error tb m) eqn:E2; [|reflexivity]. destruct (Nat.eqb_spec k m); [|reflexivity]. subst. congruence.
Qed.

(* what delete_list does to one table *)
Definition freed_from (c : Z) (y y' : tinfo) : Prop :=
  tblocks y' = tblocks y /\ tsup y' = tsup y /\ (tst y' = TFreed \/ (tst y' = TDead /\ exists u, tst y = TSpec u) \/ tst y' = tst y /\ tst y = TDead) /\
  (tfreed y' = tfreed y \/ (tfreed y = None /\ tfreed y' = Some c)).
Lemma freed_from_one : forall c y k, freed_from c y (if Nat.eqb k 0 then set_tst y TFreed else free_tinfo y c).
Proof.
  intros. unfold freed_from. destruct (Nat.eqb k 0); cbn; repeat split; auto.
  destruct (tfreed y); auto.
Qed.
Lemma freed_from_trans : forall c y y' y'', freed_from c y y' -> freed_from c y' y'' -> freed_from c y y''.
Proof.
  unfold freed_from. intros c y y' y'' (A1 & A2 & A3 & A4) (B1 & B2 & B3 & B4).
  repeat split; try congruence. destruct A4 as [A4|[A4 A5]], B4 as [B4|[B4 B5]]; try (left; congruence); try (right; split; congruence).
Qed.
Lemma nth_error_free_tables : forall ks tb c m,
  match nth_error tb m with
  | None => nth_error (free_tables tb ks c) m = None
  | Some y => exists y', nth_error (free_tables tb ks c) m = Some y' /\
                         ((~ In m ks /\ y' = y) \/ (In m ks /\ freed_from c y y'))
  end.
Proof.
  induction ks as [|k ks IH]; intros tb c m.
  - cbn. destruct (nth_error tb m); [|reflexivity]. eexists; split; [reflexivity|]. left. auto.
  - cbn [free_tables fold_left]. specialize (IH (free_table tb k c) c m). unfold free_tables in IH.
    rewrite nth_error_free_table in IH. destruct (nth_error tb m) as [y|]; [|assumption].
    destruct IH as (y' & E & H). exists y'. split; [assumption|].
    destruct (Nat.eqb_spec k m) as [->|Hne].
    + right. split; [left; reflexivity|]. destruct H as [[_ ->]|[_ H]].
      * apply freed_from_one.
      * eapply freed_from_trans; [apply freed_from_one|exact H].
    + destruct H as [[H1 ->]|[H1 H2]].
      * left. split; [|reflexivity]. intros [?|?]; auto.
      * right. split; [right; assumption|assumption].
Qed.
Lemma length_free_table : forall tb k c, length (free_table tb k c) = length tb.
Proof. intros. unfold free_table. destruct (nth_error tb k); [apply length_set_nth|reflexivity]. Qed.
Lemma length_free_tables : forall ks tb c, length (free_tables tb ks c) = length tb.
Proof. induction ks; intros; cbn; [reflexivity|]. unfold free_tables in IHks. rewrite IHks. apply length_free_table. Qed.

Lemma nat_list_eqb_eq : forall a b, nat_list_eqb a b = true -> a = b.
Proof.
  induction a as [|x a IH]; destruct b as [|y b]; cbn; intros H; try discriminate; [reflexivity|].
  apply andb_prop in H. destruct H as [H1 H2]. apply Nat.eqb_eq in H1. f_equal; auto.
Qed.
Lemma head_is_true : forall s hw hn, head_is s hw hn = true -> hword s = hw /\ hnodes s = hn.
Proof. intros s hw hn H. unfold head_is in H. apply andb_prop in H. destruct H as [H1 H2]. apply Z.eqb_eq in H1. apply nat_list_eqb_eq in H2. auto. Qed.

(* ======================================================================================== *)
(* The step function as a relation (one constructor per branch)                             *)
(* ======================================================================================== *)
Definition grows (o : op) : Prop := match o with OEnsure _ | OReserve _ | OForEach _ _ => True | _ => False end.

Inductive Step (s : st) (t : nat) (th : thread) : st -> Prop :=
| St_fast : forall o e, tpc th = Idle -> cur_op th = Some o -> expect_of s o = Some e ->
    table_qualified (tsize (table s (cur s))) e = true ->
    Step s t th (upd_thread s t (finish_op th (complete s o (cur s))))
| St_index : forall i, tpc th = Idle -> cur_op th = Some (OIndex i) ->
    Step s t th (upd_thread s t (finish_op th (if is_freed (table s (cur s)) then RUaf
                                               else RElem (read_elem s (tblocks (table s (cur s))) i))))
| St_size : tpc th = Idle -> cur_op th = Some OSize ->
    Step s t th (upd_thread s t (finish_op th (RSize (snapshot_size (tsize (table s (cur s))) (bits s)))))
| St_snap : tpc th = Idle -> cur_op th = Some OSnap ->
    Step s t th (upd_thread s t (finish_op (set_snap th (Some (cur s, clock s))) RUnit))
| St_snapget_none : forall i, tpc th = Idle -> cur_op th = Some (OSnapGet i) -> snap th = None ->
    Step s t th (upd_thread s t (finish_op th (RElem None)))
| St_snapget_uaf : forall i k taken, tpc th = Idle -> cur_op th = Some (OSnapGet i) -> snap th = Some (k, taken) ->
    is_freed (table s k) = true ->
    Step s t th (upd_thread (with_uaf s ((k, taken, clock s) :: uaf s)) t (finish_op th RUaf))
| St_snapget : forall i k taken, tpc th = Idle -> cur_op th = Some (OSnapGet i) -> snap th = Some (k, taken) ->
    is_freed (table s k) = false ->
    Step s t th (upd_thread s t (finish_op th (RElem (read_elem s (tblocks (table s k)) i))))
| St_gc_no : tpc th = Idle -> cur_op th = Some OGc -> expire (hword s) (stamp_at (clock s)) = false ->
    Step s t th (upd_thread s t (finish_op th RUnit))
| St_gc_begin : tpc th = Idle -> cur_op th = Some OGc -> expire (hword s) (stamp_at (clock s)) = true ->
    Step s t th (upd_thread s t (goto th (GcCas (hword s) (hnodes s) (clock s))))
| St_adv : forall d, tpc th = Idle -> cur_op th = Some (OAdv d) ->
    Step s t th (upd_thread (with_clock s (clock s + Z.max 0 d)) t (finish_op th RUnit))
| St_prepare : forall o e, tpc th = Idle -> cur_op th = Some o -> expect_of s o = Some e ->
    table_qualified (tsize (table s (cur s))) e = false ->
    Step s t th (prepare s t th (cur s) (length (tables s)) true e)
| St_cas_win : forall bt nt bn e, tpc th = SlowCas bt nt bn e -> cur s = bt ->
    Step s t th (upd_thread (with_mem s nt
        (set_nth nt (set_tst (table s nt) TCur) (set_nth bt (supersede (table s bt) t (clock s)) (tables s)))
        (bctor s) (bdtor s) (mark_all (bst s) (skipn (length (tblocks (table s bt))) (tblocks (table s nt))) BLive))
      t (goto th (RetLoad bt nt)))
| St_cas_lose_done : forall bt nt bn e, tpc th = SlowCas bt nt bn e -> cur s <> bt ->
    loser_done (tsize (table s (cur s))) e = true ->
    let dead := slice (tblocks (table s nt)) (delete_lo bn e) (delete_hi bn e) in
    let s1 := with_mem s (cur s) (tables s) (bctor s) (bump_all (bdtor s) dead) (mark_all (bst s) dead BDead) in
    let s2 := with_mem s1 (cur s1) (free_table (tables s1) nt (clock s)) (bctor s1) (bdtor s1) (bst s1) in
    Step s t th (upd_thread s2 t (finish_op th (complete s2 (the_op th) (cur s))))
| St_cas_lose_retry : forall bt nt bn e, tpc th = SlowCas bt nt bn e -> cur s <> bt ->
    loser_done (tsize (table s (cur s))) e = false ->
    let dead := slice (tblocks (table s nt)) (delete_lo bn e) (delete_hi bn e) in
    let s1 := with_mem s (cur s) (tables s) (bctor s) (bump_all (bdtor s) dead) (mark_all (bst s) dead BDead) in
    Step s t th (prepare s1 t th (cur s) nt false e)
| St_ret_load : forall old nt, tpc th = RetLoad old nt ->
    let c0 := clock s in
    let neww := make_head (node_addr old) (stamp_at c0) in
    Step s t th (upd_thread s t (goto th (if expire (hword s) (stamp_at c0)
                                          then RetStrong old nt (hword s) (hnodes s) neww c0 c0
                                          else RetWeak old nt (hword s) (hnodes s) neww c0 c0)))
| St_strong_win : forall old nt hw hn neww c0 hclk, tpc th = RetStrong old nt hw hn neww c0 hclk ->
    hword s = hw -> hnodes s = hn ->
    let s1 := with_head s neww [old] (stale s) in
    let s2 := with_mem s1 (cur s1) (free_tables (set_nth old (set_tst (table s old) TListed) (tables s1)) hn (clock s))
                       (bctor s1) (bdtor s1) (bst s1) in
    Step s t th (upd_thread s2 t (finish_op th (complete s2 (the_op th) nt)))
| St_strong_lose : forall old nt hw hn neww c0 hclk, tpc th = RetStrong old nt hw hn neww c0 hclk ->
    Step s t th (upd_thread s t (goto th (RetWeak old nt (hword s) (hnodes s) neww c0 (clock s))))
| St_weak_win : forall old nt hw hn neww c0 hclk, tpc th = RetWeak old nt hw hn neww c0 hclk ->
    hword s = hw -> hnodes s = hn ->
    let s1 := with_head s neww (old :: hn) (stale s || (current_unit c0 <? current_unit hclk)) in
    let s2 := with_mem s1 (cur s1) (set_nth old (set_tst (table s old) TListed) (tables s1)) (bctor s1) (bdtor s1) (bst s1) in
    Step s t th (upd_thread s2 t (finish_op th (complete s2 (the_op th) nt)))
| St_weak_lose : forall old nt hw hn neww c0 hclk, tpc th = RetWeak old nt hw hn neww c0 hclk ->
    Step s t th (upd_thread s t (goto th (RetWeak old nt (hword s) (hnodes s) neww c0 (clock s))))
| St_gc_win : forall hw hn c1, tpc th = GcCas hw hn c1 -> hword s = hw -> hnodes s = hn ->
    let s1 := with_head s gc_new_head [] (stale s) in
    let s2 := with_mem s1 (cur s1) (free_tables (tables s1) hn (clock s)) (bctor s1) (bdtor s1) (bst s1) in
    Step s t th (upd_thread s2 t (finish_op th RUnit))
| St_gc_lose : forall hw hn c1, tpc th = GcCas hw hn c1 ->
    Step s t th (upd_thread s t (finish_op th RUnit)).

Lemma step_grow : forall s t th o e, tpc th = Idle -> cur_op th = Some o -> expect_of s o = Some e ->
  Step s t th (grow s t th o e).
Proof.
  intros. unfold grow. destruct (table_qualified _ _) eqn:Q; [eapply St_fast|eapply St_prepare]; eauto.
Qed.

Lemma step_Step : forall s t s', step s t = Some s' ->
  exists th, nth_error (threads s) t = Some th /\ Step s t th s'.
Proof.
  intros s t s' H. unfold step in H. destruct (nth_error (threads s) t) as [th|] eqn:Eth; [|discriminate].
  exists th. split; [reflexivity|]. unfold step_thread in H.
  destruct (tpc th) eqn:Epc.
  - destruct (cur_op th) as [o|] eqn:Eo; [|discriminate].
    destruct o; cbn [expect_of] in H.
    + injection H as <-. apply step_grow; auto.
    + injection H as <-. apply step_grow; auto.
    + inversion H; subst. apply St_index; assumption.
    + inversion H; subst. apply St_size; assumption.
    + inversion H; subst. apply St_snap; assumption.
    + destruct (snap th) as [[k taken]|] eqn:Es.
      * destruct (is_freed (table s k)) eqn:Ef; inversion H; subst.
        -- eapply St_snapget_uaf; eauto.
        -- eapply St_snapget; eauto.
      * inversion H; subst. eapply St_snapget_none; eauto.
    + injection H as <-. apply step_grow; auto.
    + destruct (expire _ _) eqn:Ee; inversion H; subst; [apply St_gc_begin|apply St_gc_no]; assumption.
    + inversion H; subst. apply St_adv; assumption.
  - destruct (Nat.eqb_spec (cur s) bt) as [Ec|Ec].
    + inversion H; subst. eapply St_cas_win; eauto.
    + cbv zeta in H. cbn [cur tables with_mem] in H.
      destruct (loser_done _ _) eqn:El; inversion H; subst.
      * eapply St_cas_lose_done; eauto.
      * eapply St_cas_lose_retry; eauto.
  - cbv zeta in H. pose proof (St_ret_load s t th old nt Epc) as P. cbv zeta in P.
    destruct (expire _ _); inversion H; subst; exact P.
  - destruct (head_is s hw hn) eqn:Eh.
    + apply head_is_true in Eh. destruct Eh. inversion H; subst. eapply St_strong_win; eauto.
    + inversion H; subst. eapply St_strong_lose; eauto.
  - destruct (head_is s hw hn) eqn:Eh.
    + apply head_is_true in Eh. destruct Eh. inversion H; subst. eapply St_weak_win; eauto.
    + inversion H; subst. eapply St_weak_lose; eauto.
  - destruct (head_is s hw hn) eqn:Eh.
    + apply head_is_true in Eh. destruct Eh. inversion H; subst. eapply St_gc_win; eauto.
    + inversion H; subst. eapply St_gc_lose; eauto.
Qed.

(* ======================================================================================== *)
(* Invariant 1: life cycle of block tables; every published table is a prefix of the current *)
(* ======================================================================================== *)
Definition T (s : st) (k : nat) : option tinfo := nth_error (tables s) k.

Definition pc_ok (s : st) (t : nat) (p : pc) : Prop :=
  match p with
  | Idle | GcCas _ _ _ => True
  | SlowCas bt nt bn e => exists tb tn spec, T s bt = Some tb /\ T s nt = Some tn /\ published tb /\ tst tn = TSpec t /\
      tblocks tn = tblocks tb ++ spec /\ bn = tsize tb /\ tsup tn = None /\ tfreed tn = None /\ nt <> 0%nat
  | RetLoad old nt | RetStrong old nt _ _ _ _ _ | RetWeak old nt _ _ _ _ _ =>
      exists to tn, T s old = Some to /\ tst to = TRetiring t /\ T s nt = Some tn /\ published tn
  end.

Record Inv1 (s : st) : Prop := {
  i1_cur : exists ti, T s (cur s) = Some ti /\ tst ti = TCur /\ tsup ti = None /\ tfreed ti = None;
  i1_uniq : forall k ti, T s k = Some ti -> tst ti = TCur -> k = cur s;
  i1_prefix : forall k ti, T s k = Some ti -> published ti -> prefix (tblocks ti) (live s);
  i1_pc : forall t th, nth_error (threads s) t = Some th -> pc_ok s t (tpc th);
  i1_snap : forall t th k taken, nth_error (threads s) t = Some th -> snap th = Some (k, taken) ->
      exists ti, T s k = Some ti /\ published ti;
  i1_list : forall k, In k (hnodes s) -> exists ti, T s k = Some ti /\ tst ti = TListed
}.

Lemma threads_upd : forall s0 t th' t',
  nth_error (threads (upd_thread s0 t th')) t' =
  match nth_error (threads s0) t' with None => None | Some y => Some (if Nat.eqb t t' then th' else y) end.
Proof. intros. cbn. apply nth_error_set_nth. Qed.

Lemma inv1_init : forall b t0 progs, Inv1 (init b t0 progs).
Proof.
  intros. constructor; cbn.
  - exists empty_table. repeat split; reflexivity.
  - intros [|k] ti H; [reflexivity|]. destruct k; discriminate.
  - intros [|k] ti H Hp; [|destruct k; discriminate]. inversion H; subst. apply prefix_refl.
  - intros t th H. apply nth_error_In in H. apply in_map_iff in H. destruct H as (p & <- & _). exact I.
  - intros t th k taken H Hs. apply nth_error_In in H. apply in_map_iff in H. destruct H as (p & <- & _). discriminate.
  - intros k [].
Qed.

(* what a step of thread t may do to the table store without disturbing the other threads *)
Definition tables_ext (s s' : st) (t : nat) : Prop :=
  forall k ti, T s k = Some ti -> exists ti', T s' k = Some ti' /\
    (published ti -> published ti' /\ tblocks ti' = tblocks ti) /\
    (forall u, u <> t -> tst ti = TSpec u \/ tst ti = TRetiring u -> ti' = ti).

Lemma pc_ok_ext : forall s s' t t' p, tables_ext s s' t -> t' <> t -> pc_ok s t' p -> pc_ok s' t' p.
Proof.
  intros s s' t t' p Hext Hne H. destruct p; cbn in *; auto.
  - destruct H as (tb & tn & spec & Hb & Hn & Hpb & Hst & Hbl & Hbn & Hsup & Hfr & Hnz).
    destruct (Hext _ _ Hb) as (tb' & Hb' & Hpub & _). destruct (Hpub Hpb) as [Hpb' Hbl'].
    destruct (Hext _ _ Hn) as (tn' & Hn' & _ & Hsame). rewrite (Hsame t' Hne (or_introl Hst)) in Hn'.
    exists tb', tn, spec. repeat split; auto; try congruence. unfold tsize. rewrite Hbl'. assumption.
  - destruct H as (to & tn & Ho & Hst & Hn & Hp).
    destruct (Hext _ _ Ho) as (to' & Ho' & _ & Hsame). rewrite (Hsame t' Hne (or_intror Hst)) in Ho'.
    destruct (Hext _ _ Hn) as (tn' & Hn' & Hpub & _). exists to, tn'. repeat split; auto. apply Hpub; assumption.
  - destruct H as (to & tn & Ho & Hst & Hn & Hp).
    destruct (Hext _ _ Ho) as (to' & Ho' & _ & Hsame). rewrite (Hsame t' Hne (or_intror Hst)) in Ho'.
    destruct (Hext _ _ Hn) as (tn' & Hn' & Hpub & _). exists to, tn'. repeat split; auto. apply Hpub; assumption.
  - destruct H as (to & tn & Ho & Hst & Hn & Hp).
    destruct (Hext _ _ Ho) as (to' & Ho' & _ & Hsame). rewrite (Hsame t' Hne (or_intror Hst)) in Ho'.
    destruct (Hext _ _ Hn) as (tn' & Hn' & Hpub & _). exists to, tn'. repeat split; auto. apply Hpub; assumption.
Qed.

(* generic preservation: the stepping thread t ends in th', the store evolves by tables_ext *)
Lemma inv1_frame : forall s s' t th th',
  Inv1 s -> nth_error (threads s) t = Some th -> threads s' = set_nth t th' (threads s) ->
  tables_ext s s' t ->
  (exists ti, T s' (cur s') = Some ti /\ tst ti = TCur /\ tsup ti = None /\ tfreed ti = None) ->
  (forall k ti, T s' k = Some ti -> tst ti = TCur -> k = cur s') ->
  prefix (live s) (live s') ->
  (forall k ti', T s' k = Some ti' -> published ti' ->
     (exists ti, T s k = Some ti /\ published ti) \/ prefix (tblocks ti') (live s')) ->
  pc_ok s' t (tpc th') ->
  (forall k taken, snap th' = Some (k, taken) -> exists ti, T s' k = Some ti /\ published ti) ->
  (forall k, In k (hnodes s') -> exists ti, T s' k = Some ti /\ tst ti = TListed) ->
  Inv1 s'.
Proof.
  intros s s' t th th' I Hth Hthr Hext Hcur Huniq Hlive Hnew Hpc Hsnap Hlist.
  constructor; auto.
  - intros k ti' Hk Hp. destruct (Hnew _ _ Hk Hp) as [(ti & Hk0 & Hp0)|]; [|assumption].
    destruct (Hext _ _ Hk0) as (ti'' & Hk' & Hpub & _). unfold T in *. rewrite Hk in Hk'. inversion Hk'; subst ti''.
    destruct (Hpub Hp0) as [_ Hbl]. rewrite Hbl. eapply prefix_trans; [|exact Hlive]. eapply i1_prefix; eauto.
  - intros t' th0 H0. rewrite Hthr, nth_error_set_nth in H0.
    destruct (nth_error (threads s) t') as [y|] eqn:Ey; [|discriminate]. inversion H0; subst th0; clear H0.
    destruct (Nat.eqb_spec t t') as [<-|Hne]; [assumption|].
    eapply pc_ok_ext; eauto. eapply i1_pc; eauto.
  - intros t' th0 k taken H0 Hs. rewrite Hthr, nth_error_set_nth in H0.
    destruct (nth_error (threads s) t') as [y|] eqn:Ey; [|discriminate]. inversion H0; subst th0; clear H0.
    destruct (Nat.eqb_spec t t') as [<-|Hne]; [eapply Hsnap; eauto|].
    destruct (i1_snap s I _ _ _ _ Ey Hs) as (ti & Hk & Hp). destruct (Hext _ _ Hk) as (ti' & Hk' & Hpub & _).
    exists ti'. split; [assumption|]. apply Hpub; assumption.
Qed.

Lemma tables_ext_refl : forall s s' t, tables s' = tables s -> tables_ext s s' t.
Proof. intros s s' t E k ti H. exists ti. unfold T in *. rewrite E. repeat split; auto. Qed.

(* steps that leave tables, cur and the retire list alone *)
Lemma inv1_local : forall s s' t th th',
  Inv1 s -> nth_error (threads s) t = Some th -> threads s' = set_nth t th' (threads s) ->
  tables s' = tables s -> cur s' = cur s -> hnodes s' = hnodes s ->
  pc_ok s t (tpc th') ->
  (forall k taken, snap th' = Some (k, taken) -> exists ti, T s k = Some ti /\ published ti) ->
  Inv1 s'.
Proof.
  intros s s' t th th' I Hth Hthr Et Ec Eh Hpc Hsnap.
  assert (ET : forall k, T s' k = T s k) by (intro; unfold T; rewrite Et; reflexivity).
  assert (EL : live s' = live s) by (unfold live, table; rewrite Et, Ec; reflexivity).
  eapply inv1_frame; eauto.
  - apply tables_ext_refl; assumption.
  - rewrite Ec, ET. apply (i1_cur s I).
  - intros k ti. rewrite ET, Ec. apply (i1_uniq s I).
  - rewrite EL. apply prefix_refl.
  - intros k ti' H Hp. left. exists ti'. rewrite <- ET. auto.
  - destruct (tpc th'); cbn in *; auto; repeat setoid_rewrite ET; assumption.
  - intros k taken H. rewrite ET. eauto.
  - intros k. rewrite Eh, ET. apply (i1_list s I).
Qed.
