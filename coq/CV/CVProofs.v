(* Proofs about CV/CVModel.v (babylon::ConcurrentVector + RetireList). *)
From Coq Require Import ZArith List Bool Lia.
Require Import Verif.Gen.Gen_cvector Verif.Conc.Machine Verif.CV.CVModel.
Import ListNotations.
Local Open Scope Z_scope.

Lemma cv_gen_ranges : forall bn e, copy_bytes bn / 8 = bn /\ create_lo bn e = bn /\ create_hi bn e = e /\
  delete_lo bn e = bn /\ delete_hi bn e = e /\ new_table_size bn e = e.
Proof. intros. unfold copy_bytes, create_lo, create_hi, delete_lo, delete_hi, new_table_size. repeat split; try reflexivity.
  rewrite Z.mul_comm. apply Z.div_mul. lia. Qed.
