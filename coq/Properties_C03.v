(* C03 - Concurrent hash set/map: linearizable insert-if-absent, one winner per key.
   Only statements; proofs are `exact <lemma of HC/HCProofs.v>`.  `Reach hash cap grow progs s` = "s is reachable from the
   initial state of client programs `progs` (any number of threads, any mix of emplace/find) on a container of initial
   capacity `cap` (None = default-constructed placeholder) under SOME schedule"; `hash` is an arbitrary function, so every
   theorem is quantified over all schedules, all programs, all hash functions (colliding hashes, equal tags), all
   capacities and any number of growth steps.  (work in progress: results-level theorems follow) *)
From Coq Require Import ZArith List Bool.
Require Import Verif.Gen.Gen_hash_table Verif.Gen.Gen_hash_table_conc Verif.Conc.Machine Verif.HS.HSModel
               Verif.HC.HCModel Verif.HC.HCProofs.
Import ListNotations.
Local Open Scope Z_scope.

Theorem c03_memory_order_obligations : orders_ok = true.
Proof. exact hc_orders_ok. Qed.
Print Assumptions c03_memory_order_obligations.
