(* C03 - placeholder while the proofs are being built *)
From Coq Require Import ZArith List Bool.
Require Import Verif.HC.HCModel Verif.HC.HCProofs.
Theorem c03_memory_order_obligations : orders_ok = true.
Proof. exact hc_orders_ok. Qed.
Print Assumptions c03_memory_order_obligations.
