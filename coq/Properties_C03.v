(* C03 - Concurrent hash set/map: linearizable insert-if-absent, one winner per key.
   Only statements; proofs are `exact <lemma of HC/HCProofs.v>`.

   `Reach hash cap grow progs s` = "s is reachable, under SOME schedule, from the initial state of client programs
   `progs` (any number of threads, each any sequence of OEmp k v = emplace/insert/try_emplace/operator[] and
   OFind k = find/contains) on a container with initial capacity `cap` (None = default-constructed placeholder),
   fixed (grow = false) or growing (grow = true)".  `hash` is an arbitrary function Z -> Z.  So every theorem below is
   quantified over all schedules, all programs and thread counts, all hash functions (colliding hashes, equal 7-bit
   tags), all initial capacities and any number of chained growth steps.  `event s t i o r` = "the i-th operation `o`
   of thread t has returned r in s".  One model step = one shared access of the C++ code (see HC/HCModel.v).

   PROVED at full strength: at most one successful insertion per key (c03_one_winner); all insertions and lookups of a
   key return the same slot, fully constructed, holding the winner's argument (c03_same_element, c03_winner_value); a
   key lives in at most one slot of the whole chain (c03_key_in_one_slot: growth never duplicates); tags / constructed
   elements / claims never change and tables are only appended (c03_bytes_monotone: growth never drops, and the
   byte-wise justification for torn SIMD group loads: EMPTY -> BUSY -> tag); a published tag implies a constructed
   element with that tag, no comparison ever reads raw storage, no slot is constructed twice
   (c03_published_implies_constructed, c03_constructed_once); the chain/probe invariant (c03_key_position: every table,
   group and byte the key's probe examines before its slot is a tag of another constructed key).

   PARTIAL (the proved part is named ..._partial, the full statement is the Definition named in the comment and is NOT
   proved):
   * c03_find_after_insert_partial: once an insertion of k has returned, in every later state of every continuation
     schedule k's tag stays published at a position of k's own probe sequence that addresses the returned slot, and the
     slot keeps the element; together with c03_key_position (no free byte before it) this is the state-level content of
     "a lookup that starts later never misses it".  Missing: the induction over the steps of the later lookup thread
     (HCProofs.find_after_insert_stmt, with begin/end stamps).
   * c03_full_fixed_fails_clean is proved except for one arithmetic link: "every byte of every group of the key's probe
     sequence is a tag" is stated over the key's own probe sequence; that this sequence covers every bucket of the table
     (so the table is completely full) is proved for the same regenerated formulas under C18 (HSProofs.tri_surj).
   * c03_one_winner gives "at most one"; "exactly one in a finished run" (HCProofs.exactly_one_winner_stmt) is not
     proved (needs the link claim -> finished owner). *)
From Coq Require Import ZArith List Bool.
Require Import Verif.Gen.Gen_hash_table Verif.Gen.Gen_hash_table_conc Verif.Conc.Machine Verif.HS.HSModel
               Verif.HC.HCModel Verif.HC.HCProofs.
Import ListNotations.
Local Open Scope Z_scope.

(* for each key at most one insertion reports success *)
Theorem c03_one_winner : forall hash cap g progs s t1 i1 o1 n1 x1 s1 t2 i2 o2 n2 x2 s2,
  Reach hash cap g progs s ->
  event s t1 i1 o1 (REmp n1 x1 true s1) -> event s t2 i2 o2 (REmp n2 x2 true s2) -> okey o1 = okey o2 ->
  t1 = t2 /\ i1 = i2.
Proof. exact hc_one_winner. Qed.
Print Assumptions c03_one_winner.

(* all insertions and lookups of a key return the same slot and saw the same fully constructed element of that key *)
Theorem c03_same_element : forall hash cap g progs s t1 i1 o1 r1 n1 x1 s1 t2 i2 o2 r2 n2 x2 s2,
  Reach hash cap g progs s ->
  event s t1 i1 o1 r1 -> event s t2 i2 o2 r2 -> okey o1 = okey o2 ->
  slot_of r1 = Some (n1, x1, s1) -> slot_of r2 = Some (n2, x2, s2) ->
  n1 = n2 /\ x1 = x2 /\ s1 = s2 /\ exists v, s1 = Some (okey o1, v).
Proof. exact hc_same_element. Qed.
Print Assumptions c03_same_element.

(* ... and that element was constructed from the winner's arguments *)
Theorem c03_winner_value : forall hash cap g progs s t i k v n x seen,
  Reach hash cap g progs s -> event s t i (OEmp k v) (REmp n x true seen) -> seen = Some (k, v).
Proof. exact hc_winner_value. Qed.
Print Assumptions c03_winner_value.

(* automatic growth never duplicates a key: a key lives in at most one slot of the whole chain *)
Theorem c03_key_in_one_slot : forall hash cap g progs s n1 t1 i1 n2 t2 i2 k v1 v2,
  Reach hash cap g progs s -> nth_error (tabs s) n1 = Some t1 -> nth_error (tabs s) n2 = Some t2 ->
  cvals t1 i1 = Some (k, v1) -> cvals t2 i2 = Some (k, v2) -> n1 = n2 /\ i1 = i2.
Proof. exact hc_key_one_slot. Qed.
Print Assumptions c03_key_in_one_slot.

(* growth never drops a key and bytes are monotone: along every continuation schedule the tables stay where they are,
   a control byte is EMPTY, BUSY or a tag (or the table is the placeholder), a tag never changes, BUSY only becomes a
   tag, a constructed element never changes *)
Theorem c03_bytes_monotone : forall hash cap g progs s sch n tn,
  Reach hash cap g progs s -> nth_error (tabs s) n = Some tn ->
  exists tn', nth_error (tabs (Machine.run st (step hash) s sch)) n = Some tn' /\ cmask tn' = cmask tn /\
    (forall p, cctrl tn p = EMPTY_CONTROL \/ cctrl tn p = cBUSY \/ 0 <= cctrl tn p \/ cdummy tn = true) /\
    (forall p, 0 <= cctrl tn p -> cctrl tn' p = cctrl tn p) /\
    (forall p, cctrl tn p = cBUSY -> cctrl tn' p = cBUSY \/ 0 <= cctrl tn' p) /\
    (forall i e, cvals tn i = Some e -> cvals tn' i = Some e).
Proof. exact hc_bytes_monotone. Qed.
Print Assumptions c03_bytes_monotone.

(* an element is constructed before its tag is visible (at the slot or at its mirror) *)
Theorem c03_published_implies_constructed : forall hash cap g progs s n tn p,
  Reach hash cap g progs s -> nth_error (tabs s) n = Some tn -> 0 <= cctrl tn p ->
  exists k v, cvals tn (Z.land p (cmask tn)) = Some (k, v) /\ cctrl tn p = emp_checker (hash k).
Proof. exact hc_published_constructed. Qed.
Print Assumptions c03_published_implies_constructed.

(* no key comparison ever reads a slot that is not constructed; no slot is constructed twice *)
Theorem c03_constructed_once : forall hash cap g progs s,
  Reach hash cap g progs s -> bad_read s = false /\ dbl_cons s = false.
Proof. exact hc_constructed_once. Qed.
Print Assumptions c03_constructed_once.

(* chain / probe invariant: whatever the probe of a stored key examines before its slot - every earlier table of the
   chain, every earlier group, every earlier byte of its group - is the tag of a constructed element of another key *)
Theorem c03_key_position : forall hash cap g progs s n tn i k v,
  Reach hash cap g progs s -> nth_error (tabs s) n = Some tn -> cvals tn i = Some (k, v) ->
  exists j o, In o offsets /\ i = Z.land (pb hash tn k j + o) (cmask tn) /\
              emp_loop_cond (ps hash tn k j) (cmask tn) = true /\ before hash (tabs s) k n j o.
Proof. exact hc_key_position. Qed.
Print Assumptions c03_key_position.

Theorem c03_find_after_insert_partial : forall hash cap g progs s sch t i o n x ins seen,
  Reach hash cap g progs s -> event s t i o (REmp n x ins seen) ->
  exists tn' v j c, nth_error (tabs (Machine.run st (step hash) s sch)) n = Some tn' /\
    seen = Some (okey o, v) /\ cvals tn' x = Some (okey o, v) /\ In c offsets /\
    emp_loop_cond (ps hash tn' (okey o) j) (cmask tn') = true /\ Z.land (pb hash tn' (okey o) j + c) (cmask tn') = x /\
    cctrl tn' (pb hash tn' (okey o) j + c) = emp_checker (hash (okey o)).
Proof. exact hc_insert_stays_visible. Qed.
Print Assumptions c03_find_after_insert_partial.

(* insertion into a full fixed table fails without consuming its arguments: the failing operation is an insertion, it
   never took the construction step (the only step that consumes), and every byte of every group of its probe sequence
   in the head table is the tag of a constructed element of another key *)
Theorem c03_full_fixed_fails_clean : forall hash cap g progs s t i o,
  Reach hash cap g progs s -> event s t i o RFull ->
  ~ In (t, i) (consumed s) /\ is_find o = false /\
  exists t0, nth_error (tabs s) 0 = Some t0 /\ tab_passed hash t0 (okey o).
Proof. exact hc_full_fails_clean. Qed.
Print Assumptions c03_full_fixed_fails_clean.

(* the memory orders the argument relies on are the ones in the source (regenerated site tables): acquire fence after
   the group load, acquire CAS, release stores of the tag, acquire load / acq_rel CAS of the next pointer *)
Theorem c03_memory_order_obligations : orders_ok = true.
Proof. exact hc_orders_ok. Qed.
Print Assumptions c03_memory_order_obligations.

(* non-vacuity: a reachable finished state with a winner, a loser returning the winner's element, a lookup after the
   insertion that finds it and a concurrent lookup that misses; and a full fixed table whose 17th insertion fails *)
Example c03_reach_example : Reach (fun k => k) (Some 16) true ex_progs ex_state.
Proof. exact hc_example_reach. Qed.
Example c03_events_example :
  all_done ex_state = true /\
  map (fun th => map (fun x => fst (fst x)) (results th)) (threads ex_state) =
  [[REmp 0 0 true (Some (1, 10))];
   [REmp 0 0 false (Some (1, 10)); RFind (Some (0%nat, 0)) (Some (1, 10)) true];
   [RFind None None false]].
Proof. exact hc_example_events. Qed.
Example c03_full_example_reach : Reach (fun _ => 5) (Some 16) false ex_full_progs ex_full_state.
Proof. exact hc_example_full_reach. Qed.
Example c03_full_example :
  map (fun th => nth_error (map (fun x => fst (fst x)) (results th)) 16) (threads ex_full_state) = [Some RFull].
Proof. exact hc_example_full. Qed.
