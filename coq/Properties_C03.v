(* C03 - Concurrent hash set/map: linearizable insert-if-absent, one winner per key.
   Only statements; proofs are `exact <lemma of HC/HCProofs.v>`.

   `Reach hash cap grow progs s` = "s is reachable, under SOME schedule, from the initial state of client programs
   `progs` (any number of threads, each any sequence of OEmp k v = emplace/insert/try_emplace/operator[] and
   OFind k = find/contains) on a container with initial capacity `cap` (None = default-constructed placeholder),
   fixed (grow = false) or growing (grow = true)".  `hash` is an arbitrary function Z -> Z.  So every theorem below is
   quantified over all schedules, all programs and thread counts, all hash functions (colliding hashes, equal 7-bit
   tags), all initial capacities and any number of chained growth steps.  `event s t i o r` = "the i-th operation `o`
   of thread t has returned r in s".  One model step = one shared access of the C++ code (see HC/HCModel.v).

   ALL statements below are theorems at full strength (no `_partial` left; `_refuted` only for the deliberately
   weakened memory orders):
   * per key at most one insertion reports success, and in a finished run exactly one does (c03_one_winner,
     c03_exactly_one_winner);
   * all insertions and lookups of a key return the same slot and saw the same fully constructed element, built from
     the winner's arguments (c03_same_element, c03_winner_value);
   * a lookup whose begin stamp is after the end stamp of an insertion of its key that returned a slot returns that
     slot (c03_find_after_insert; c03_insert_stays_visible is its state-level core);
   * a key lives in at most one slot of the whole chain (c03_key_in_one_slot: growth never duplicates); tags,
     constructed elements and claims never change and tables are only appended (c03_bytes_monotone: growth never
     drops; also the byte-wise justification for torn SIMD group loads, EMPTY -> BUSY -> tag);
   * a published tag (slot or mirror) implies a constructed element with that tag, no comparison ever reads raw
     storage, no slot is constructed twice (c03_published_implies_constructed, c03_constructed_once);
   * chain / probe invariant (c03_key_position);
   * a failing insertion never took the construction step (argument not consumed) and found every byte of every group
     of its probe sequence the tag of another constructed key (c03_full_fixed_fails_clean).  One arithmetic link is
     imported rather than re-proved: that this probe sequence covers every bucket (so the table is completely full) is
     HSProofs.tri_surj, proved for the same regenerated formulas under C18.
   * a table that was used and clear()ed is again in the initial state of all these theorems
     (c03_clear_reestablishes_initial_state, over C18's sequential model of clear());
   * release/acquire publication on the explicit RA machine (coq/WM/RA.v), with the orders computed from the
     regenerated site tables: tag / mirror-tag publication (release store vs. plain group load + acquire fence) and
     chained-table publication (next CAS vs. acquire loads, and the CAS loser), each for ALL executions of the machine;
     every weakening has a bad execution (`_refuted`).
   The interleaving theorems are about sequentially consistent interleavings with the SIMD group load as one step. *)
From Coq Require Import ZArith List Bool.
Require Import Verif.Base.Atomics Verif.WM.RA Verif.WM.RALitmus Verif.HC.HCLitmus Verif.HC.HCLitmusProofs.
Require Import Verif.Gen.Gen_hash_table Verif.Gen.Gen_hash_table_conc Verif.Conc.Machine Verif.HS.HSModel
               Verif.HC.HCModel Verif.HC.HCProofs Verif.HC.HCLin Verif.HC.HCClear.
Require Verif.HS.HSProofs.
Import ListNotations.
Local Open Scope Z_scope.

(* for each key at most one insertion reports success *)
Theorem c03_one_winner : forall hash cap g progs s t1 i1 o1 n1 x1 s1 t2 i2 o2 n2 x2 s2,
  Reach hash cap g progs s ->
  event s t1 i1 o1 (REmp n1 x1 true s1) -> event s t2 i2 o2 (REmp n2 x2 true s2) -> okey o1 = okey o2 ->
  t1 = t2 /\ i1 = i2.
Proof. exact hc_one_winner. Qed.
Print Assumptions c03_one_winner.

(* ... and in a finished run exactly one does: whenever some insertion of the key returned a slot, an insertion of that
   key returned that slot with inserted = true *)
Theorem c03_exactly_one_winner : forall hash cap g progs s t i o r n x sn,
  Reach hash cap g progs s -> all_done s = true -> event s t i o r -> is_find o = false -> slot_of r = Some (n, x, sn) ->
  exists t' i' o' sn', event s t' i' o' (REmp n x true sn') /\ okey o' = okey o.
Proof. exact hc_exactly_one_winner. Qed.
Print Assumptions c03_exactly_one_winner.

(* all insertions and lookups of a key return the same slot and saw the same fully constructed element of that key *)
Theorem c03_same_element : forall hash cap g progs s t1 i1 o1 r1 n1 x1 s1 t2 i2 o2 r2 n2 x2 s2,
  Reach hash cap g progs s ->
  event s t1 i1 o1 r1 -> event s t2 i2 o2 r2 -> okey o1 = okey o2 ->
  slot_of r1 = Some (n1, x1, s1) -> slot_of r2 = Some (n2, x2, s2) ->
  n1 = n2 /\ x1 = x2 /\ s1 = s2 /\ exists v, s1 = Some (okey o1, v).
Proof. exact hc_same_element. Qed.
Print Assumptions c03_same_element.

(* ... and that element was constructed from the winner's arguments *)
Theorem c03_winner_value : forall hash cap g progs s t i k v n x seen,
  Reach hash cap g progs s -> event s t i (OEmp k v) (REmp n x true seen) -> seen = Some (k, v).
Proof. exact hc_winner_value. Qed.
Print Assumptions c03_winner_value.

(* automatic growth never duplicates a key: a key lives in at most one slot of the whole chain *)
Theorem c03_key_in_one_slot : forall hash cap g progs s n1 t1 i1 n2 t2 i2 k v1 v2,
  Reach hash cap g progs s -> nth_error (tabs s) n1 = Some t1 -> nth_error (tabs s) n2 = Some t2 ->
  cvals t1 i1 = Some (k, v1) -> cvals t2 i2 = Some (k, v2) -> n1 = n2 /\ i1 = i2.
Proof. exact hc_key_one_slot. Qed.
Print Assumptions c03_key_in_one_slot.

(* growth never drops a key and bytes are monotone: along every continuation schedule the tables stay where they are,
   a control byte is EMPTY, BUSY or a tag (or the table is the placeholder), a tag never changes, BUSY only becomes a
   tag, a constructed element never changes *)
Theorem c03_bytes_monotone : forall hash cap g progs s sch n tn,
  Reach hash cap g progs s -> nth_error (tabs s) n = Some tn ->
  exists tn', nth_error (tabs (Machine.run st (step hash) s sch)) n = Some tn' /\ cmask tn' = cmask tn /\
    (forall p, cctrl tn p = EMPTY_CONTROL \/ cctrl tn p = cBUSY \/ 0 <= cctrl tn p \/ cdummy tn = true) /\
    (forall p, 0 <= cctrl tn p -> cctrl tn' p = cctrl tn p) /\
    (forall p, cctrl tn p = cBUSY -> cctrl tn' p = cBUSY \/ 0 <= cctrl tn' p) /\
    (forall i e, cvals tn i = Some e -> cvals tn' i = Some e).
Proof. exact hc_bytes_monotone. Qed.
Print Assumptions c03_bytes_monotone.

(* an element is constructed before its tag is visible (at the slot or at its mirror) *)
Theorem c03_published_implies_constructed : forall hash cap g progs s n tn p,
  Reach hash cap g progs s -> nth_error (tabs s) n = Some tn -> 0 <= cctrl tn p ->
  exists k v, cvals tn (Z.land p (cmask tn)) = Some (k, v) /\ cctrl tn p = emp_checker (hash k).
Proof. exact hc_published_constructed. Qed.
Print Assumptions c03_published_implies_constructed.

(* no key comparison ever reads a slot that is not constructed; no slot is constructed twice *)
Theorem c03_constructed_once : forall hash cap g progs s,
  Reach hash cap g progs s -> bad_read s = false /\ dbl_cons s = false.
Proof. exact hc_constructed_once. Qed.
Print Assumptions c03_constructed_once.

(* chain / probe invariant: whatever the probe of a stored key examines before its slot - every earlier table of the
   chain, every earlier group, every earlier byte of its group - is the tag of a constructed element of another key *)
Theorem c03_key_position : forall hash cap g progs s n tn i k v,
  Reach hash cap g progs s -> nth_error (tabs s) n = Some tn -> cvals tn i = Some (k, v) ->
  exists j o, In o offsets /\ i = Z.land (pb hash tn k j + o) (cmask tn) /\
              emp_loop_cond (ps hash tn k j) (cmask tn) = true /\ before hash (tabs s) k n j o.
Proof. exact hc_key_position. Qed.
Print Assumptions c03_key_position.

(* a lookup that starts after an insertion of the key returned never misses it: begin stamp of the lookup after the
   end stamp of the insertion => the lookup returns the insertion's slot *)
Theorem c03_find_after_insert : forall hash cap g progs s t i o r b e t' i' o' r' b' e' n x sn,
  Reach hash cap g progs s -> event_st s t i o r b e -> is_find o = false -> slot_of r = Some (n, x, sn) ->
  event_st s t' i' o' r' b' e' -> is_find o' = true -> okey o' = okey o -> (e < b')%nat ->
  exists sn', slot_of r' = Some (n, x, sn').
Proof. exact hc_find_after_insert. Qed.
Print Assumptions c03_find_after_insert.

(* state-level core: once an insertion of k has returned, along every continuation schedule k's tag stays published at
   a position of k's own probe sequence that addresses the returned slot and the slot keeps the element *)
Theorem c03_insert_stays_visible : forall hash cap g progs s sch t i o n x ins seen,
  Reach hash cap g progs s -> event s t i o (REmp n x ins seen) ->
  exists tn' v j c, nth_error (tabs (Machine.run st (step hash) s sch)) n = Some tn' /\
    seen = Some (okey o, v) /\ cvals tn' x = Some (okey o, v) /\ In c offsets /\
    emp_loop_cond (ps hash tn' (okey o) j) (cmask tn') = true /\ Z.land (pb hash tn' (okey o) j + c) (cmask tn') = x /\
    cctrl tn' (pb hash tn' (okey o) j + c) = emp_checker (hash (okey o)).
Proof. exact hc_insert_stays_visible. Qed.
Print Assumptions c03_insert_stays_visible.

(* insertion into a full fixed table fails without consuming its arguments: the failing operation is an insertion, it
   never took the construction step (the only step that consumes), and every byte of every group of its probe sequence
   in the head table is the tag of a constructed element of another key *)
Theorem c03_full_fixed_fails_clean : forall hash cap g progs s t i o,
  Reach hash cap g progs s -> event s t i o RFull ->
  ~ In (t, i) (consumed s) /\ is_find o = false /\
  exists t0, nth_error (tabs s) 0 = Some t0 /\ tab_passed hash t0 (okey o).
Proof. exact hc_full_fails_clean. Qed.
Print Assumptions c03_full_fixed_fails_clean.

(* one more class of initial states: a table that was used and clear()ed.  clear() (sequential model and well-formedness
   of C18, loop bound and mirror reset regenerated from the source) leaves every byte a probe can read - bucket bytes and
   the 15 mirror bytes - EMPTY and every slot raw, exactly like the fresh table all theorems above start from *)
Theorem c03_clear_reestablishes_initial_state : forall hash t, HSProofs.WF hash t ->
  HSProofs.WF hash (tclear t) /\ bcount (tclear t) = bcount t /\ cnt (tclear t) = 0 /\
  (forall p, 0 <= p < bcount t + 15 -> ctrl (tclear t) p = cctrl (fresh_ct (bcount t)) p) /\
  (forall i, 0 <= i < bcount t -> vals (tclear t) i = cvals (fresh_ct (bcount t)) i).
Proof. exact hc_clear_initial. Qed.
Print Assumptions c03_clear_reestablishes_initial_state.

(* ---- release/acquire publication, all executions of the RA machine, orders from the regenerated site tables ---- *)
(* tag publication: producer = construct; control.store(tag, o_store); reader = group load; fence(o_fence); read slot *)
Theorem c03_tag_publication_all_executions : forall sch,
  RA.final (RA.run (RA.init (mp_store_fence tag_store_order find_fence_order)) sch) = true ->
  mp_bad (RA.result (RA.run (RA.init (mp_store_fence tag_store_order find_fence_order)) sch)) = false.
Proof. exact hc_tag_publication_find. Qed.
Print Assumptions c03_tag_publication_all_executions.
Theorem c03_mirror_publication_all_executions : forall sch,
  RA.final (RA.run (RA.init (mp_store_fence mirror_store_order find_fence_order)) sch) = true ->
  mp_bad (RA.result (RA.run (RA.init (mp_store_fence mirror_store_order find_fence_order)) sch)) = false.
Proof. exact hc_mirror_publication_find. Qed.
Print Assumptions c03_mirror_publication_all_executions.
Theorem c03_tag_publication_emplace_all_executions : forall sch,
  RA.final (RA.run (RA.init (mp_store_fence tag_store_order emplace_fence_order)) sch) = true ->
  mp_bad (RA.result (RA.run (RA.init (mp_store_fence tag_store_order emplace_fence_order)) sch)) = false.
Proof. exact hc_tag_publication_emplace. Qed.
Print Assumptions c03_tag_publication_emplace_all_executions.
Theorem c03_mirror_publication_emplace_all_executions : forall sch,
  RA.final (RA.run (RA.init (mp_store_fence mirror_store_order emplace_fence_order)) sch) = true ->
  mp_bad (RA.result (RA.run (RA.init (mp_store_fence mirror_store_order emplace_fence_order)) sch)) = false.
Proof. exact hc_mirror_publication_emplace. Qed.
Print Assumptions c03_mirror_publication_emplace_all_executions.
(* spelled out: a reader whose group load saw the tag reads the constructed element, and no access raced *)
Theorem c03_tag_publication_spelled : forall sch,
  let s := RA.run (RA.init (mp_store_fence tag_store_order find_fence_order)) sch in
  RA.final s = true -> oreg (RA.result s) 1 0 = 1 -> oracy (RA.result s) = false /\ oreg (RA.result s) 1 1 = 42.
Proof. exact hc_tag_publication_spelled. Qed.
Print Assumptions c03_tag_publication_spelled.
(* chained tables: next.compare_exchange_strong(null -> node) vs the acquire loads of find (head, node) and emplace *)
Theorem c03_next_publication_find_head_all_executions : forall sch,
  RA.final (RA.run (RA.init (mp_cas_publish next_cas_order next_load_find_head_order)) sch) = true ->
  mp_cas_bad (RA.result (RA.run (RA.init (mp_cas_publish next_cas_order next_load_find_head_order)) sch)) = false.
Proof. exact hc_next_publication_find_head. Qed.
Print Assumptions c03_next_publication_find_head_all_executions.
Theorem c03_next_publication_find_node_all_executions : forall sch,
  RA.final (RA.run (RA.init (mp_cas_publish next_cas_order next_load_find_node_order)) sch) = true ->
  mp_cas_bad (RA.result (RA.run (RA.init (mp_cas_publish next_cas_order next_load_find_node_order)) sch)) = false.
Proof. exact hc_next_publication_find_node. Qed.
Print Assumptions c03_next_publication_find_node_all_executions.
Theorem c03_next_publication_emplace_all_executions : forall sch,
  RA.final (RA.run (RA.init (mp_cas_publish next_cas_order next_load_emplace_order)) sch) = true ->
  mp_cas_bad (RA.result (RA.run (RA.init (mp_cas_publish next_cas_order next_load_emplace_order)) sch)) = false.
Proof. exact hc_next_publication_emplace. Qed.
Print Assumptions c03_next_publication_emplace_all_executions.
(* the loser of the next CAS goes on in the winner's table *)
Theorem c03_next_cas_loser_all_executions : has_acquire next_cas_fail_order = true /\ forall sch,
  RA.final (RA.run (RA.init (mp_cas_loser next_cas_order)) sch) = true ->
  mp_loser_bad (RA.result (RA.run (RA.init (mp_cas_loser next_cas_order)) sch)) = false.
Proof. exact hc_next_cas_loser. Qed.
Print Assumptions c03_next_cas_loser_all_executions.
(* each weakened order has a bad execution (complete explorer: false = some outcome is bad) *)
Theorem c03_tag_relaxed_store_refuted : mp_store_fence_safe Relaxed Acquire = false.
Proof. exact hc_tag_relaxed_store_refuted. Qed.
Print Assumptions c03_tag_relaxed_store_refuted.
Theorem c03_tag_no_acquire_fence_refuted : mp_store_fence_safe Release Relaxed = false.
Proof. exact hc_tag_no_acquire_fence_refuted. Qed.
Print Assumptions c03_tag_no_acquire_fence_refuted.
Theorem c03_next_relaxed_cas_refuted : mp_cas_safe Relaxed Acquire = false.
Proof. exact hc_next_relaxed_cas_refuted. Qed.
Print Assumptions c03_next_relaxed_cas_refuted.
Theorem c03_next_acquire_only_cas_refuted : mp_cas_safe Acquire Acquire = false.
Proof. exact hc_next_acquire_only_cas_refuted. Qed.
Print Assumptions c03_next_acquire_only_cas_refuted.
Theorem c03_next_relaxed_load_refuted : mp_cas_safe AcqRel Relaxed = false.
Proof. exact hc_next_relaxed_load_refuted. Qed.
Print Assumptions c03_next_relaxed_load_refuted.
Theorem c03_next_loser_release_only_refuted : mp_cas_loser_safe Release = false.
Proof. exact hc_next_loser_release_only_refuted. Qed.
Print Assumptions c03_next_loser_release_only_refuted.

(* the memory orders the argument relies on are the ones in the source (regenerated site tables): acquire fence after
   the group load, acquire CAS, release stores of the tag, acquire load / acq_rel CAS of the next pointer *)
Theorem c03_memory_order_obligations : orders_ok = true.
Proof. exact hc_orders_ok. Qed.
Print Assumptions c03_memory_order_obligations.

(* non-vacuity: a reachable finished state with a winner, a loser returning the winner's element, a lookup after the
   insertion that finds it and a concurrent lookup that misses; and a full fixed table whose 17th insertion fails *)
Example c03_reach_example : Reach (fun k => k) (Some 16) true ex_progs ex_state.
Proof. exact hc_example_reach. Qed.
Example c03_events_example :
  all_done ex_state = true /\
  map (fun th => map (fun x => fst (fst x)) (results th)) (threads ex_state) =
  [[REmp 0 0 true (Some (1, 10))];
   [REmp 0 0 false (Some (1, 10)); RFind (Some (0%nat, 0)) (Some (1, 10)) true];
   [RFind None None false]].
Proof. exact hc_example_events. Qed.
Example c03_full_example_reach : Reach (fun _ => 5) (Some 16) false ex_full_progs ex_full_state.
Proof. exact hc_example_full_reach. Qed.
Example c03_full_example :
  map (fun th => nth_error (map (fun x => fst (fst x)) (results th)) 16) (threads ex_full_state) = [Some RFull].
Proof. exact hc_example_full. Qed.
