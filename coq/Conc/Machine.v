(* Interleaving machines: a schedule is a list of thread ids; a pick of a thread that is not enabled
   is skipped.  Every schedule-quantified theorem is an induction over this list. *)
From Coq Require Import List.
Import ListNotations.

Section Machine.
Variable St : Type.
Variable step : St -> nat -> option St.

Definition step_or_stay (s : St) (t : nat) : St :=
  match step s t with Some s' => s' | None => s end.

Fixpoint run (s : St) (sch : list nat) : St :=
  match sch with
  | [] => s
  | t :: r => run (step_or_stay s t) r
  end.

Definition reachable (init s : St) : Prop := exists sch, run init sch = s.

Lemma run_app : forall a b s, run s (a ++ b) = run (run s a) b.
Proof. induction a as [|t a IH]; intros b s; cbn [run app]; [reflexivity | apply IH]. Qed.

Theorem inv_run (Inv : St -> Prop) :
  (forall s t s', Inv s -> step s t = Some s' -> Inv s') ->
  forall sch s, Inv s -> Inv (run s sch).
Proof.
  intros Hstep sch; induction sch as [|t r IH]; intros s Hs; cbn [run]; [exact Hs|].
  apply IH. unfold step_or_stay. destruct (step s t) as [s'|] eqn:E; [eapply Hstep; eauto | exact Hs].
Qed.

Corollary inv_reachable (Inv : St -> Prop) (init : St) :
  Inv init -> (forall s t s', Inv s -> step s t = Some s' -> Inv s') ->
  forall s, reachable init s -> Inv s.
Proof. intros Hi Hs s [sch <-]. apply inv_run; assumption. Qed.

Lemma reachable_step : forall init s t s', reachable init s -> step s t = Some s' -> reachable init s'.
Proof.
  intros init s t s' [sch <-] E. exists (sch ++ [t]). rewrite run_app. cbn [run]. unfold step_or_stay. now rewrite E.
Qed.
End Machine.
