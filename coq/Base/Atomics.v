(* Shared vocabulary for atomic-operation site tables emitted by the translator. *)
Inductive morder := Relaxed | Acquire | Release | AcqRel | SeqCst.
Inductive akind := KLoad | KStore | KXchg | KFadd | KFsub | KFor | KFand | KCasS | KCasW | KFence.

Definition morder_eqb (a b : morder) : bool :=
  match a, b with
  | Relaxed, Relaxed | Acquire, Acquire | Release, Release | AcqRel, AcqRel | SeqCst, SeqCst => true
  | _, _ => false
  end.

(* "a is at least as strong as b" in the release/acquire lattice *)
Definition has_acquire (o : morder) : bool :=
  match o with Acquire | AcqRel | SeqCst => true | _ => false end.
Definition has_release (o : morder) : bool :=
  match o with Release | AcqRel | SeqCst => true | _ => false end.
Definition is_seq_cst (o : morder) : bool :=
  match o with SeqCst => true | _ => false end.
