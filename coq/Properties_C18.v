(* C18 - hash set/map: contents, size, iteration match a reference set after any history.
   Only statements here; every proof is `exact <lemma of HS/HSProofs.v>`. *)
From Coq Require Import ZArith List Permutation.
Require Import Verif.Gen.Gen_hash_table Verif.HS.HSModel Verif.HS.HSProofs.
Import ListNotations.
Local Open Scope Z_scope.

Theorem c18_default_constructed_refuted : exists ops, ~ refines hid None None ops.
Proof. exact hs_default_size_refuted. Qed.
Print Assumptions c18_default_constructed_refuted.
