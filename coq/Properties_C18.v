(* C18 - hash set/map: contents, size, iteration match a reference set after any history.
   Only statements here; every proof is `exact <lemma of HS/HSProofs.v>`.

   Model: HS/HSModel.v (ConcurrentFixedSwissTable at the level of control bytes / mirrored group / 7-bit
   checker / triangular group probing, and the ConcurrentTransientHashSet/Map chain), every formula taken from
   Gen/Gen_hash_table.v.  Client programs (`list op`) act on two containers A and B: emplace, find, size,
   iterate, clear, reserve, rehash on A; B = A, A = B (copy), A = std::move(B), swap.  The reference
   (`rrun`) is an insertion-ordered association list, first insertion wins.  `refines hash a b ops` says that
   every observation of the run equals the reference's: emplace's inserted flag and the element at the returned
   iterator, find's result (the mapped value first inserted), size(), and the iterated sequence as a
   permutation of the reference content (which never holds a key twice: c18_reference_distinct).

   Status.
   * c18_refines_set: PROVED for every hash function, every pair of initial capacities - an explicit bucket
     count (any integer: 0, 1, non powers of two, ...) or None = default-constructed (placeholder head that
     always answers "full", first table chained behind it) - and every operation sequence, all element types
     being (key, mapped) pairs.
   * History: until fix commit bf7dad8 the default-constructed case was refuted (size() = n + 16; iteration, hence
     copy / reserve / rehash, stopped after the first chained table: begin() returned {nullptr, iter} and
     re-read _head.next, total_size started from the placeholder's bucket_count()).  The repaired expressions
     are regenerated into Gen_hash_table (begin_chained_next, begin_loop_next, total_size_init); the lemmas
     begin_next_eq / total_size_init_eq of HSProofs.v hold of them by computation, so reverting the repair
     re-opens c18_refines_set, c18_total_size and c18_iteration (mutants/C18/revert_default_ctor_fix.diff). *)
From Coq Require Import ZArith List Permutation.
Require Import Verif.Gen.Gen_hash_table Verif.HS.HSModel Verif.HS.HSProofs.
Import ListNotations.
Local Open Scope Z_scope.

(* the property: every hash, every initial capacity of A and B (None = default-constructed), every history *)
Theorem c18_refines_set : forall (hash : Z -> Z) (a b : option Z) (ops : list op),
  refines hash a b ops.
Proof. exact hs_refines_set. Qed.
Print Assumptions c18_refines_set.

(* "each element exactly once": the reference content the iteration is a permutation of has distinct keys *)
Theorem c18_reference_distinct : forall ops r,
  NoDup (map fst (fst r)) /\ NoDup (map fst (snd r)) ->
  NoDup (map fst (fst (fst (rrun r ops)))) /\ NoDup (map fst (snd (fst (rrun r ops)))).
Proof. exact rrun_nodup. Qed.
Print Assumptions c18_reference_distinct.

(* the pieces the property text names, one fixed table: find succeeds for exactly the stored keys *)
Theorem c18_table_find : forall hash t key, WF hash t ->
  match tfind hash t key with Some i => holds t i key | None => absent t key end.
Proof. exact tfind_spec. Qed.
Print Assumptions c18_table_find.

(* insert-if-absent on one table: existing key -> unchanged; else stored once (iteration gains exactly e);
   "full" only when every bucket is taken *)
Theorem c18_table_emplace : forall hash t e, WF hash t ->
  (In (fst e) (map fst (titer t)) /\
     exists i x, templace hash t e = (t, EExists i) /\ vals t i = Some x /\ fst x = fst e /\ In x (titer t)) \/
  (~ In (fst e) (map fst (titer t)) /\ cnt t < bcount t /\
     exists t' i, templace hash t e = (t', EInserted i) /\ WF hash t' /\ bcount t' = bcount t /\
                  vals t' i = Some e /\ Permutation (titer t') (e :: titer t) /\ cnt t' = cnt t + 1) \/
  (~ In (fst e) (map fst (titer t)) /\ cnt t = bcount t /\ templace hash t e = (t, EFull)).
Proof. exact templace_cases. Qed.
Print Assumptions c18_table_emplace.

(* size as sum of the full tables' bucket counts plus the last table's counter *)
Theorem c18_total_size : forall hash c, CInv hash c -> csize c = Z.of_nat (length (celems c)).
Proof. exact csize_spec. Qed.
Print Assumptions c18_total_size.

(* cross-table iteration visits the tables' contents in chain order, nothing else *)
Theorem c18_iteration : forall hash c, CInv hash c -> citer c = Some (celems c).
Proof. exact citer_spec. Qed.
Print Assumptions c18_iteration.

(* rehash / reserve / copy keep the content (incl. shrinking requests: max(new_bucket_count, size)) *)
Theorem c18_rehash_keeps : forall hash c l n, Ref hash c l -> Ref hash (crehash hash c n) l.
Proof. exact crehash_spec. Qed.
Print Assumptions c18_rehash_keeps.
Theorem c18_reserve_keeps : forall hash c l n, Ref hash c l -> Ref hash (creserve hash c n) l.
Proof. exact creserve_spec. Qed.
Print Assumptions c18_reserve_keeps.
Theorem c18_copy_keeps : forall hash c l, Ref hash c l -> Ref hash (ccopy hash c) l.
Proof. exact ccopy_spec. Qed.
Print Assumptions c18_copy_keeps.

(* non-vacuity: the invariant's interesting states are reached (two chained tables), WF tables exist *)
Example c18_chain_of_three :
  length (rest (fst (fst (run hid (init (Some 16) (Some 16)) (map (fun k => Emplace k 0) (zrange 60)))))) = 2%nat.
Proof. exact hs_example_chain. Qed.
Example c18_wf_inhabited : WF hid (fresh 100).
Proof. exact (proj1 (fresh_wf hid 100)). Qed.
(* the default-constructed container: after 49 emplaces the placeholder head has two tables chained behind it,
   size() = 49 and iteration visits 49 elements; the invariant covers that state *)
Example c18_default_constructed_49 :
  let s := fst (run hid (init None None) fill49) in
  dummy (head (fst s)) = true /\ length (rest (fst s)) = 2%nat /\ csize (fst s) = 49 /\
  exists l, citer (fst s) = Some l /\ length l = 49%nat.
Proof. exact hs_example_default. Qed.
Example c18_default_invariant : CInv hid (new_chain None).
Proof. exact (proj1 (dummy_ref hid)). Qed.
