(* C15 - transient topic: each subscriber sees every item once, in order, then the end.
   Only statements; proofs are `exact <lemma of TT/TTProofs.v>`.  Reach progs s = "s is reachable from the
   initial state of client programs `progs` under SOME schedule" - so every theorem below is quantified over
   all schedules, all programs (any number of publisher / consumer threads, single and batch publishes, any
   consume sizes, any number of publish/close/clear cycles).  `misuse s = false`: no documented usage rule
   was broken on the way (publish after close, consume(0), consumer kept across clear(), clear() while
   another thread is inside an operation).  `cepoch th = epoch s`: the thread's consumer was obtained from
   subscribe() after the last clear().  items s = the values handed to publish/publish_n, in index order.

   Gaps (see META["note"] in checks/c15.py): interleaving (SC) semantics - the fences are obligations on the
   regenerated site table (c15_memory_order_obligations), the whole-algorithm weak-memory composition is not
   mechanised; ConcurrentVector is an abstract unbounded array; liveness is "no reachable trap"
   (c15_no_lost_wakeup + c15_unparked_threads_enabled), not termination under a fairness assumption. *)
From Coq Require Import ZArith List Bool.
Require Import Verif.Gen.Gen_topic Verif.Conc.Machine Verif.TT.TTModel Verif.TT.TTProofs.
Import ListNotations.

(* every consumer has received exactly the first `cursor` items of the publication-index order: each once,
   in order, with the value the publisher passed *)
Theorem c15_each_once_in_order : forall progs s th, Reach progs s -> misuse s = false -> In th (threads s) ->
  cepoch th = epoch s -> received th = firstn (cursor th) (items s) /\ cursor th <= length (items s).
Proof. exact tt_each_once_in_order. Qed.
Print Assumptions c15_each_once_in_order.

(* a slot whose status reads PUBLISHED holds the item of that index (the publisher's write is complete) *)
Theorem c15_published_slot_holds_item : forall progs s j, Reach progs s -> misuse s = false ->
  stat s j = PUBLISHED -> j < nei s /\ nth_error (items s) j = Some (valat s j).
Proof. exact tt_published_slot_holds_item. Qed.
Print Assumptions c15_published_slot_holds_item.

(* a consumer walking at slot i has seen PUBLISHED on every slot before it (never skips, never runs ahead) *)
Theorem c15_consumer_behind_published : forall progs s th i e b, Reach progs s -> misuse s = false -> In th (threads s) ->
  cepoch th = epoch s -> cons_pos (tpc th) = Some (i, e, b) ->
  b = cursor th /\ b <= i < e /\ e = b + req th /\ forall j, j < i -> stat s j = PUBLISHED.
Proof. exact tt_consumer_behind_published. Qed.
Print Assumptions c15_consumer_behind_published.

(* the end marker is received only after close(), and only when every published item was delivered *)
Theorem c15_end_after_all : forall progs s th, Reach progs s -> misuse s = false -> In th (threads s) ->
  cepoch th = epoch s -> ended th = true ->
  closed_at s = Some (cursor th) /\ cursor th = nei s /\ received th = items s.
Proof. exact tt_end_after_all. Qed.
Print Assumptions c15_end_after_all.

(* consume(k) is about to hand out n < k items only if it stopped at the CLOSED slot and everything before
   that slot was delivered: otherwise it blocks until k items are there *)
Theorem c15_short_only_if_closed : forall progs s th b n sawc e, Reach progs s -> misuse s = false -> In th (threads s) ->
  cepoch th = epoch s -> tpc th = CHand b n sawc e ->
  e = b + req th /\ b = cursor th /\ (n < req th -> closed_at s = Some (b + n) /\ b + n = nei s).
Proof. exact tt_short_only_if_closed. Qed.
Print Assumptions c15_short_only_if_closed.

(* concurrent publishers never share a slot *)
Theorem c15_publishers_disjoint : forall progs s t1 t2 th1 th2 b1 e1 b2 e2, Reach progs s -> misuse s = false ->
  nth_error (threads s) t1 = Some th1 -> nth_error (threads s) t2 = Some th2 -> t1 <> t2 ->
  pub_range (tpc th1) = Some (b1, e1) -> pub_range (tpc th2) = Some (b2, e2) -> e1 <= b2 \/ e2 <= b1.
Proof. exact tt_publishers_disjoint. Qed.
Print Assumptions c15_publishers_disjoint.

Theorem c15_publish_claims_its_items : forall progs s t th b e vals, Reach progs s -> misuse s = false ->
  nth_error (threads s) t = Some th -> tpc th = PFill b e vals ->
  e = b + length vals /\ e <= nei s /\ forall j, b <= j < e -> nth_error (items s) j = Some (nth (j - b) vals 0%Z).
Proof. exact tt_publish_claims_fresh_range. Qed.
Print Assumptions c15_publish_claims_its_items.

(* after clear() the shared state is that of a new topic (and every theorem above keeps holding, being
   invariants of all reachable states) *)
Theorem c15_clear_is_new : forall s t th s', nth_error (threads s) t = Some th -> tpc th = Idle -> cur_op th = Some OClear ->
  step s t = Some s' ->
  nei s' = 0 /\ (forall j, stat s' j = INITIAL) /\ items s' = [] /\ closed_at s' = None /\ epoch s' = S (epoch s) /\
  (misuse s' = false -> forall t' th', t' <> t -> nth_error (threads s) t' = Some th' -> tpc th' = Idle).
Proof. exact tt_clear_is_new. Qed.
Print Assumptions c15_clear_is_new.

(* no lost wake-up: a consumer parked in futex_wait on slot i is registered (waiter bit set) on a slot whose
   status is still INITIAL - nothing new is published there - or some publisher / closer is certain to issue
   futex wake_all on that slot (it is past the waiter-bit test, or the bit it will test is set).  This covers
   the consumer registering between the status store and the waker's load, and close() racing with the last
   publish's wake-up. *)
Theorem c15_no_lost_wakeup : forall progs s th i, Reach progs s -> misuse s = false -> In th (threads s) ->
  blocked_on th = Some i -> lw_ok s i.
Proof. exact tt_no_lost_wakeup. Qed.
Print Assumptions c15_no_lost_wakeup.

(* blocks only while nothing new is published: once no thread has a wake-up for slot i outstanding, a consumer
   parked on i sits on a slot that is still INITIAL (so after close() has returned nobody is parked at or
   before the CLOSED slot, and after a publish has returned nobody is parked on its slots) *)
Theorem c15_parked_only_on_unpublished : forall progs s th i, Reach progs s -> misuse s = false -> In th (threads s) ->
  blocked_on th = Some i -> (forall w, In w (threads s) -> will_wake (tpc w) i = false) ->
  stat s i = INITIAL /\ waiter_bit s i = true.
Proof. exact tt_parked_only_on_unpublished. Qed.
Print Assumptions c15_parked_only_on_unpublished.

(* the value handed to futex_wait always carries the waiter bit and status INITIAL *)
Theorem c15_wait_value_has_waiter_bit : forall progs s th i e b v, Reach progs s -> misuse s = false -> In th (threads s) ->
  tpc th = CWait i e b v -> (65536 <= v)%Z /\ status_of v = INITIAL.
Proof. exact tt_wait_value_has_waiter_bit. Qed.
Print Assumptions c15_wait_value_has_waiter_bit.

(* every unfinished thread that is neither parked nor at a barrier can take a step (no other way to block) *)
Theorem c15_unparked_threads_enabled : forall progs s t th, Reach progs s ->
  nth_error (threads s) t = Some th -> thread_done th = false -> parked th = false -> at_barrier th = false ->
  step s t <> None.
Proof. exact tt_unparked_enabled. Qed.
Print Assumptions c15_unparked_threads_enabled.

(* the memory orders the argument relies on are the ones in the source (regenerated site tables):
   release fence between fill and status stores, seq_cst fence between status stores and the waiter-bit
   loads (publish_n and close), acquire fence before the consumer hands out the range *)
Theorem c15_memory_order_obligations : orders_ok = true.
Proof. exact tt_orders_ok. Qed.
Print Assumptions c15_memory_order_obligations.

(* non-vacuity: a reachable state without misuse in which a consumer is parked while a wake-up is in flight, and
   one in which a consumer has received everything followed by the end marker *)
Example c15_reach_example :
  exists s, Reach [[OPub [7%Z; 8%Z]; OClose]; [OLoop 1]; [OLoop 3]] s /\ misuse s = false /\
            existsb parked (threads s) = true /\ wake_in_flight s 0 = true.
Proof. exact tt_reach_example. Qed.
Example c15_end_example :
  exists s, Reach [[OPub [7%Z; 8%Z]; OClose]; [OLoop 3]] s /\ misuse s = false /\
            map ended (threads s) = [false; true] /\ map received (threads s) = [[]; [7%Z; 8%Z]].
Proof. exact tt_end_example. Qed.

(* ---- store-buffer (TSO) half of "no lost wake-up": the publish/close skeleton on an explicit
   store-buffer machine (coq/WM).  waker = status store (16-bit, relaxed); [the fence of publish_n /
   close as regenerated from the source: present iff it is seq_cst]; load of the waiter half.
   waiter = CAS-set waiter bit while status still INITIAL; futex_wait's kernel-side compare.
   For EVERY schedule of instruction steps and buffer flushes, no execution parks the consumer while the
   publisher misses its waiter bit.  Weakening either fence in the source flips the regenerated flag and
   this theorem fails; the refuted lemma below is the execution that then exists. *)
Require Import Verif.Base.Atomics Verif.Gen.Gen_topic Verif.WM.TSO Verif.WM.Litmus Verif.WM.LitmusProofs.
Definition publish_fence_is_seq_cst : bool :=
  match sites_publish_n with [_; _; _; _; (KFence, o, _)] => is_seq_cst o | _ => false end.
Definition close_fence_is_seq_cst : bool :=
  match sites_close with [_; (KFence, o, _)] => is_seq_cst o | _ => false end.

Theorem c15_wake_tso_publish : forall sch,
  final (run (init [waker publish_fence_is_seq_cst; waiter]) sch) = true ->
  lost_wakeup (result (run (init [waker publish_fence_is_seq_cst; waiter]) sch)) = false.
Proof. apply batch_wake_all_executions. vm_compute. reflexivity. Qed.
Print Assumptions c15_wake_tso_publish.

Theorem c15_wake_tso_close : forall sch,
  final (run (init [waker close_fence_is_seq_cst; waiter]) sch) = true ->
  lost_wakeup (result (run (init [waker close_fence_is_seq_cst; waiter]) sch)) = false.
Proof. apply batch_wake_all_executions. vm_compute. reflexivity. Qed.
Print Assumptions c15_wake_tso_close.

Theorem c15_wake_tso_without_fence_refuted : batch_wake_safe false = false.
Proof. exact batch_wake_unfenced_refuted. Qed.
Print Assumptions c15_wake_tso_without_fence_refuted.

(* ---- "with the publisher's writes fully visible": the release/acquire half on the view machine (coq/WM/RA.v).
   publisher = fill the slot, release fence, relaxed status store; consumer = relaxed status load, acquire fence,
   read the item - with the fence orders regenerated from transient_topic.hpp. *)
Require Import Verif.WM.RA Verif.WM.RALitmus Verif.WM.RALitmusProofs.
Definition c15_publish_fence : morder := match sites_publish_n with [_; _; _; (KFence, o, _); _] => o | _ => Relaxed end.
Definition c15_consume_fence : morder := match sites_consume with [(KFence, o, _)] => o | _ => Relaxed end.
Theorem c15_publication : forall sch,
  RA.final (RA.run (RA.init (mp_fence_orders c15_publish_fence c15_consume_fence)) sch) = true ->
  mp_bad (RA.result (RA.run (RA.init (mp_fence_orders c15_publish_fence c15_consume_fence)) sch)) = false.
Proof. apply mp_fence_orders_all_executions. vm_compute. reflexivity. Qed.
Print Assumptions c15_publication.

(* ---- the end marker's slot is accessible for EVERY number of published items, in particular 128*k (the marker is
   then the first slot of a block nobody has touched): close() reserves it with ConcurrentVector::ensure(index);
   the accessor is regenerated from the source, reserved_snapshot(index) would leave it out at every block boundary
   (c15_snapshot_accessor_would_miss_block_boundary). *)
Require Import Verif.TT.TTClose.
Theorem c15_close_marker_slot_accessible : forall published : Z, (0 <= published)%Z ->
  slot_accessible (close_blocks published) published.
Proof. exact close_marker_slot_accessible. Qed.
Print Assumptions c15_close_marker_slot_accessible.
Example c15_snapshot_accessor_would_miss_block_boundary : forall k : Z, (1 <= k)%Z ->
  ~ slot_accessible (blocks_after_snapshot (Z.max (block_size * k) 1)) (block_size * k)%Z.
Proof. exact snapshot_accessor_misses_block_boundary. Qed.
