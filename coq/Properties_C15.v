(* C15 - transient topic: each subscriber sees every item once, in order, then the end.
   Only statements; proofs are `exact <lemma of TT/TTProofs.v>`.  Reach progs s = "s is reachable from the
   initial state of client programs `progs` under SOME schedule" - so every theorem below is quantified over
   all schedules, all programs (any number of publisher / consumer threads, any batch sizes, any number of
   publish/close/clear cycles).  `misuse s = false`: no documented usage rule was broken on the way. *)
From Coq Require Import ZArith List Bool.
Require Import Verif.Gen.Gen_topic Verif.Conc.Machine Verif.TT.TTModel Verif.TT.TTProofs.
Import ListNotations.

(* every unfinished thread that is neither parked nor at a barrier can take a step (no other way to block) *)
Theorem c15_unparked_threads_enabled : forall progs s t th, Reach progs s ->
  nth_error (threads s) t = Some th -> thread_done th = false -> parked th = false -> at_barrier th = false ->
  step s t <> None.
Proof. exact tt_unparked_enabled. Qed.
Print Assumptions c15_unparked_threads_enabled.

(* the memory orders the argument relies on are the ones in the source (regenerated site tables) *)
Theorem c15_memory_order_obligations : orders_ok = true.
Proof. exact tt_orders_ok. Qed.
Print Assumptions c15_memory_order_obligations.
