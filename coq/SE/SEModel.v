(* C11 - executable model of babylon::Serialization (traits.hpp, aggregate.h, scalar.h, string.h, vector.h,
   list.h, array.h, unordered_set.h, unordered_map.h, unique_ptr.h, shared_ptr.h, traits.cpp) over a model of
   protobuf's CodedInputStream.  NO PROOFS IN THIS FILE.

   Stream model: [win] = the bytes between the read position and the innermost limit (what the coded stream
   will hand out), [ext] = how far the innermost limit lies beyond the available data (Some 0 for flat
   arrays / strings, None = no limit at all: a stream-backed CodedInputStream on which nobody pushed a limit,
   for which BytesUntilLimit() = -1).  PushLimit(n) narrows the window to its first n bytes, PopLimit gives back
   what the inner parser left plus the bytes behind the limit: a parser cannot see bytes outside its window.

   The code is modelled as it is, including: ReadVarint failing without consuming when >= 10 continuation bytes
   are buffered (a failed read of a length prefix is a parse failure since fix e367940),
   Skip(uint64 -> int) truncation, loops that make no progress (result [Hang]), vector<float>::reserve of
   BytesUntilLimit() = -1 (result [Crash]). *)
From Coq Require Import ZArith List Bool.
Require Import Verif.Gen.Gen_serialization.
Import ListNotations.
Local Open Scope Z_scope.

(* ------------------------------------------------------------------ types and values *)
(* KEnum: enum with underlying int (int32_t); KE8/KEU8/KEU32/KE64/KEU64: enum class : int8_t/uint8_t/uint32_t/int64_t/
   uint64_t *)
Inductive sk := KBool | KI8 | KI16 | KI32 | KU8 | KU16 | KU32 | KI64 | KU64 | KEnum | KF32 | KF64
              | KE8 | KEU8 | KEU32 | KE64 | KEU64.

Inductive ty :=
| TS (k : sk)
| TStr
| TVec (e : ty)                 (* std::vector<T>            : while (BytesUntilLimit() > 0) *)
| TList (e : ty)                (* std::list<T>              : while (GetDirectBufferPointer) *)
| TSet (e : ty)                 (* std::unordered_set<T>     *)
| TMap (k v : ty)               (* std::unordered_map<K, V>  *)
| TArr (n : nat) (e : ty)       (* T[N] *)
| TPtr (sh : bool) (e : ty)     (* unique_ptr (false) / shared_ptr (true) *)
| TAgg (fs : list (Z * ty)).    (* BABYLON_SERIALIZABLE / _COMPATIBLE (a base class is a field) *)

Inductive val :=
| VInt (z : Z)                  (* scalars; float/double as their bit pattern *)
| VStr (b : list Z)
| VSeq (l : list val)           (* containers, arrays, aggregates; map entries are VSeq [k; v] *)
| VNull
| VSome (v : val).

Record stream := mkS { win : list Z; ext : option nat }.

Inductive res := Ok (v : val) (s : stream) | Fail | Hang | Crash.
Definition dec := stream -> val -> res.

(* ------------------------------------------------------------------ varints, fixed *)
Fixpoint varint_aux (fuel : nat) (n : Z) : list Z :=
  match fuel with
  | O => []
  | S f => if n <? 128 then [n] else (n mod 128 + 128) :: varint_aux f (n / 128)
  end.
Definition varint (n : Z) : list Z := varint_aux 10 n.

(* value of the varint at the head of [bs] (at most [fuel] bytes), and what follows it *)
Fixpoint get_varint (fuel : nat) (bs : list Z) : option (Z * list Z) :=
  match fuel with
  | O => None
  | S f => match bs with
           | [] => None
           | b :: r => if b <? 128 then Some (b, r)
                       else match get_varint f r with
                            | Some (v, r') => Some ((b - 128) + 128 * v, r')
                            | None => None
                            end
           end
  end.

Fixpoint le_bytes (n : nat) (z : Z) : list Z :=
  match n with O => [] | S m => (z mod 256) :: le_bytes m (z / 256) end.
Fixpoint le_val (bs : list Z) : Z :=
  match bs with [] => 0 | b :: r => b + 256 * le_val r end.

(* CodedOutputStream::VarintSize32/64 (protobuf) *)
Definition pb_varint_size (v : Z) : Z := (Z.log2 (Z.lor v 1) * 9 + 73) / 64.
(* SerializationHelper::varint_size: formula regenerated from traits.hpp *)
Definition bb_varint_size (v : Z) : Z := varint_size_of_log2 (Z.log2 (Z.lor v 1)).

(* ------------------------------------------------------------------ CodedInputStream *)
Inductive vres := VOk (v : Z) (s : stream) | VStay | VEat (s : stream).

Definition set_win (s : stream) (w : list Z) : stream := mkS w (ext s).
Definition has_data (s : stream) : bool := match win s with [] => false | _ => true end.
(* BytesUntilLimit() *)
Definition bul (s : stream) : Z :=
  match ext s with None => -1 | Some k => Z.of_nat (length (win s) + k) end.

(* ReadVarint32/64, ReadTag: success; or failure leaving the position (>= 10 continuation bytes buffered);
   or failure after eating the whole window *)
Definition read_varint (s : stream) : vres :=
  match get_varint 10 (win s) with
  | Some (v, r) => VOk v (set_win s r)
  | None => if (10 <=? length (win s))%nat then VStay else VEat (set_win s [])
  end.

Definition read_fixed (n : nat) (s : stream) : option (Z * stream) :=
  if (n <=? length (win s))%nat then Some (le_val (firstn n (win s)), set_win s (skipn n (win s))) else None.

(* Skip(int) *)
Definition skip (n : Z) (s : stream) : option stream :=
  if (0 <=? n) && (n <=? Z.of_nat (length (win s))) then Some (set_win s (skipn (Z.to_nat n) (win s))) else None.

Definition u32 (z : Z) : Z := z mod 2 ^ 32.
Definition u64 (z : Z) : Z := z mod 2 ^ 64.
Definition swrap (bits : Z) (z : Z) : Z := (z + 2 ^ (bits - 1)) mod 2 ^ bits - 2 ^ (bits - 1).

(* saved = PushLimit(n); r = d(...); PopLimit(saved) *)
Definition with_limit (n : Z) (s : stream) (d : dec) (cur : val) : res :=
  if (0 <=? n) && (match ext s with None => true | Some k => n <? Z.of_nat (length (win s) + k) end) then
    let nn := Z.to_nat n in
    match d (mkS (firstn nn (win s)) (Some (nn - length (win s))%nat)) cur with
    | Ok v s' => Ok v (mkS (win s' ++ skipn nn (win s)) (ext s))
    | r => r
    end
  else d s cur.

(* ------------------------------------------------------------------ wire types, tags *)
Definition sk_wire (k : sk) : Z := match k with KF32 => 5 | KF64 => 1 | _ => 0 end.
Fixpoint wire (t : ty) : Z :=
  match t with TS k => sk_wire k | TPtr _ e => wire e | _ => 2 end.
Definition is_ld (t : ty) : bool := wire t =? 2.
Definition tag_of (num : Z) (t : ty) : Z := Z.lor (tag_base num) (wire t).

(* ------------------------------------------------------------------ scalars *)
(* which trait of scalar.h serves the kind: the 32 bit macro group, the 64 bit macro group, the enum trait *)
Inductive vclass := C32 | C64 | CEN.
Definition sk_class (k : sk) : option vclass :=
  match k with
  | KF32 | KF64 => None
  | KI64 | KU64 => Some C64
  | KEnum | KE8 | KEU8 | KEU32 | KE64 | KEU64 => Some CEN
  | _ => Some C32
  end.
(* static_cast<uintN_t>(value) followed by Write/Read/Size VarintN: the widths are regenerated from scalar.h *)
Definition ucast (bits z : Z) : Z := z mod 2 ^ bits.
Definition wbits (c : vclass) : Z :=
  match c with C32 => int32_write_bits | C64 => int64_write_bits | CEN => enum_write_bits end.
Definition rbits (c : vclass) : Z :=
  match c with C32 => int32_read_bits | C64 => int64_read_bits | CEN => enum_read_bits end.
Definition sbits (c : vclass) : Z :=
  match c with C32 => int32_size_bits | C64 => int64_size_bits | CEN => enum_size_bits end.
Definition fixed_wbytes (k : sk) : nat :=
  Z.to_nat ((match k with KF32 => float_write_bits | _ => double_write_bits end) / 8).
Definition fixed_rbytes (k : sk) : nat :=
  Z.to_nat ((match k with KF32 => float_read_bits | _ => double_read_bits end) / 8).

Definition sk_encode (k : sk) (z : Z) : list Z :=
  match sk_class k with
  | Some c => varint (ucast (wbits c) z)
  | None => le_bytes (fixed_wbytes k) z
  end.
Definition sk_size (k : sk) (z : Z) : Z :=
  match sk_class k with
  | Some c => pb_varint_size (ucast (sbits c) z)
  | None => match k with KF32 => float_size | _ => double_size end
  end.
(* static_cast<T>(uvalue) *)
Definition sk_cast (k : sk) (u : Z) : Z :=
  match k with
  | KBool => if u =? 0 then 0 else 1
  | KI8 | KE8 => swrap 8 u | KI16 => swrap 16 u | KI32 | KEnum => swrap 32 u
  | KU8 | KEU8 => u mod 2 ^ 8 | KU16 => u mod 2 ^ 16 | KU32 | KEU32 | KF32 => u mod 2 ^ 32
  | KI64 | KE64 => swrap 64 u | KU64 | KEU64 | KF64 => u mod 2 ^ 64
  end.
Definition dec_scalar (k : sk) : dec := fun s _ =>
  match sk_class k with
  | Some c => match read_varint s with VOk v s' => Ok (VInt (sk_cast k (ucast (rbits c) v))) s' | _ => Fail end
  | None => match read_fixed (fixed_rbytes k) s with Some (v, s') => Ok (VInt (sk_cast k v)) s' | None => Fail end
  end.

(* ------------------------------------------------------------------ sizes and encoding (two passes, as the code) *)
Definition sumZ (l : list Z) : Z := fold_right Z.add 0 l.

(* calculate_serialized_size_packed_field *)
Definition packed_size (e : ty) (sz : Z) : Z := if is_ld e then sz + bb_varint_size sz else sz.
(* calculate_serialized_size_field *)
Definition field_size (num : Z) (t : ty) (sz : Z) : Z :=
  if size_field_skipped sz then 0
  else (if is_ld t then sz + bb_varint_size sz else sz) + bb_varint_size (tag_of num t).

(* SERIALIZED_SIZE_COMPLEXITY == TRIVIAL ("the size does not depend on the value"): float, double, aggregates of
   TRIVIAL members.  A smart pointer to a TRIVIAL pointee has the complexity the sources give it (regenerated:
   0 COMPLEX, 1 SIMPLE, 2 TRIVIAL; SIMPLE since 8a146e9, because a null pointer has size 0) *)
Fixpoint trivial (t : ty) : bool :=
  match t with
  | TS KF32 | TS KF64 => true
  | TPtr sh e => ((if sh then sptr_trivial_becomes else uptr_trivial_becomes) =? 2) && trivial e
  | TAgg fs => forallb (fun p => trivial (snd p)) fs
  | _ => false
  end.

Fixpoint ssize (t : ty) (v : val) {struct t} : Z :=
  match t, v with
  | TS k, VInt z => sk_size k z
  | TStr, VStr b => Z.of_nat (length b)
  | TVec e, VSeq l | TArr _ e, VSeq l =>
      (* vector.h / array.h: TRIVIAL elements are not visited, size() * size of value[0] *)
      if trivial e then Z.of_nat (length l) * packed_size e (ssize e (hd (VSeq []) l))
      else sumZ (map (fun x => packed_size e (ssize e x)) l)
  | TList e, VSeq l | TSet e, VSeq l =>
      sumZ (map (fun x => packed_size e (ssize e x)) l)
  | TMap k w, VSeq l =>
      sumZ (map (fun p => match p with
                          | VSeq [a; b] => packed_size k (ssize k a) + packed_size w (ssize w b)
                          | _ => 0 end) l)
  | TPtr _ e, VSome x => ssize e x
  | TAgg fs, VSeq l =>
      (fix go (fs : list (Z * ty)) (l : list val) {struct fs} : Z :=
         match fs, l with
         | (num, ft) :: fs', x :: l' => field_size num ft (ssize ft x) + go fs' l'
         | _, _ => 0
         end) fs l
  | _, _ => 0
  end.

(* serialize_packed_field *)
Definition packed (e : ty) (sz : Z) (body : list Z) : list Z :=
  (if is_ld e then varint sz else []) ++ body.
(* serialize_field *)
Definition field (num : Z) (t : ty) (sz : Z) (body : list Z) : list Z :=
  if field_skipped sz then []
  else varint (tag_of num t) ++ (if is_ld t then varint sz else []) ++ body.

Fixpoint encode (t : ty) (v : val) {struct t} : list Z :=
  match t, v with
  | TS k, VInt z => sk_encode k z
  | TStr, VStr b => b
  | TVec e, VSeq l | TList e, VSeq l | TSet e, VSeq l | TArr _ e, VSeq l =>
      flat_map (fun x => packed e (ssize e x) (encode e x)) l
  | TMap k w, VSeq l =>
      flat_map (fun p => match p with
                         | VSeq [a; b] => packed k (ssize k a) (encode k a) ++ packed w (ssize w b) (encode w b)
                         | _ => [] end) l
  | TPtr _ e, VSome x => encode e x
  | TAgg fs, VSeq l =>
      (fix go (fs : list (Z * ty)) (l : list val) {struct fs} : list Z :=
         match fs, l with
         | (num, ft) :: fs', x :: l' => field num ft (ssize ft x) (encode ft x) ++ go fs' l'
         | _, _ => []
         end) fs l
  | _, _ => []
  end.

(* ------------------------------------------------------------------ default (value-initialised) objects *)
Fixpoint dflt (t : ty) : val :=
  match t with
  | TS _ => VInt 0
  | TStr => VStr []
  | TVec _ | TList _ | TSet _ | TMap _ _ => VSeq []
  | TArr n e => VSeq (repeat (dflt e) n)
  | TPtr _ _ => VNull
  | TAgg fs => VSeq (map (fun p => dflt (snd p)) fs)
  end.

(* ------------------------------------------------------------------ value equality (hash containers) *)
Fixpoint list_eqb {A} (eqb : A -> A -> bool) (x y : list A) : bool :=
  match x, y with
  | [], [] => true
  | a :: x', b :: y' => eqb a b && list_eqb eqb x' y'
  | _, _ => false
  end.
Fixpoint val_eqb (a b : val) {struct a} : bool :=
  match a, b with
  | VInt x, VInt y => x =? y
  | VStr x, VStr y => list_eqb Z.eqb x y
  | VSeq x, VSeq y =>
      (fix go (x y : list val) {struct x} : bool :=
         match x, y with
         | [], [] => true
         | a' :: x', b' :: y' => val_eqb a' b' && go x' y'
         | _, _ => false
         end) x y
  | VNull, VNull => true
  | VSome x, VSome y => val_eqb x y
  | _, _ => false
  end.
(* emplace: keeps the element already present *)
Definition set_add (x : val) (l : list val) : list val :=
  if existsb (val_eqb x) l then l else l ++ [x].
Definition entry_key (p : val) : val := match p with VSeq (k :: _) => k | _ => VNull end.
Definition map_add (k v : val) (l : list val) : list val :=
  if existsb (fun p => val_eqb k (entry_key p)) l then l else l ++ [VSeq [k; v]].

(* ------------------------------------------------------------------ decoding *)
Section Decode.
Variable nd : bool.   (* compiled with NDEBUG: the wire type of a known field is not checked *)

(* the length-delimited branch of deserialize_packed_field / deserialize_field: a length prefix that cannot be read
   is a parse failure ([fail_result] = the value returned, regenerated: 0 = false); the limit pushed is
   static_cast<int>(length) (regenerated) *)
Definition dec_len (limit_of : Z -> Z) (fail_result : Z) (d : dec) : dec := fun s cur =>
  match read_varint s with
  | VOk len s1 => with_limit (limit_of (u32 len)) s1 d cur
  | _ => if fail_result =? 0 then Fail else Ok cur s
  end.

(* deserialize_packed_field *)
Definition dec_packed (e : ty) (d : dec) : dec := fun s cur =>
  if is_ld e then dec_len packed_limit_of_length packed_len_fail_result d s cur else d s cur.

(* deserialize_field *)
Definition dec_field (t : ty) (d : dec) (tag : Z) : dec := fun s cur =>
  if negb nd && negb (tag_wire tag =? wire t) then Fail
  else if is_ld t then dec_len field_limit_of_length field_len_fail_result d s cur else d s cur.

Definition shorter (s' s : stream) : bool := (length (win s') <? length (win s))%nat.

(* element loops: [cond] is the loop condition, [d] parses one element into a value-initialised one,
   [add] stores it.  An iteration that succeeds without consuming input repeats forever. *)
Fixpoint seq_loop (cond : stream -> bool) (d : dec) (dv : val) (add : val -> list val -> list val)
         (fuel : nat) (s : stream) (acc : list val) : res :=
  match fuel with
  | O => Hang
  | S f =>
      if cond s then
        match d s dv with
        | Ok x s' => if shorter s' s then seq_loop cond d dv add f s' (add x acc) else Hang
        | r => r
        end
      else Ok (VSeq acc) s
  end.

Fixpoint map_loop (dk dw : dec) (dvk dvw : val) (fuel : nat) (s : stream) (acc : list val) : res :=
  match fuel with
  | O => Hang
  | S f =>
      if has_data s then
        match dk s dvk with
        | Ok k s1 =>
            match dw s1 dvw with
            | Ok w s2 => if shorter s2 s then map_loop dk dw dvk dvw f s2 (map_add k w acc) else Hang
            | r => r
            end
        | r => r
        end
      else Ok (VSeq acc) s
  end.

Fixpoint arr_go (d : dec) (s : stream) (cur : list val) : res :=
  match cur with
  | [] => Ok (VSeq []) s
  | c :: r =>
      match d s c with
      | Ok x s' => match arr_go d s' r with
                   | Ok (VSeq xs) s'' => Ok (VSeq (x :: xs)) s''
                   | Ok _ _ => Fail
                   | r' => r'
                   end
      | r' => r'
      end
  end.

(* consume_unknown_field (traits.cpp) *)
Definition consume_unknown (tag : Z) (s : stream) : option stream :=
  let w := unknown_wire tag in
  if w =? 0 then match read_varint s with VOk _ s' => Some s' | _ => None end
  else if w =? 5 then skip skip_fixed32 s
  else if w =? 1 then skip skip_fixed64 s
  else if w =? 2 then match read_varint s with
                      | VOk v s' => skip (swrap 32 (u32 (unknown_ld_skip (u64 v)))) s'
                      | _ => None end
  else None.

Fixpoint find_field (num : Z) (tbl : list (Z * (Z -> dec))) (i : nat) : option (nat * (Z -> dec)) :=
  match tbl with
  | [] => None
  | (n, d) :: r => if n =? num then Some (i, d) else find_field num r (S i)
  end.
Fixpoint upd_nth (i : nat) (x : val) (l : list val) : list val :=
  match l, i with
  | [], _ => []
  | _ :: r, O => x :: r
  | a :: r, S j => a :: upd_nth j x r
  end.

(* the generated deserialize() of BABYLON_SERIALIZABLE *)
Fixpoint agg_loop (tbl : list (Z * (Z -> dec))) (fuel : nat) (s : stream) (cur : list val) : res :=
  match fuel with
  | O => Hang
  | S f =>
      if has_data s then
        let '(tag, s1) := match read_varint s with
                          | VOk v s' => (u32 v, s')
                          | VStay => (0, s)
                          | VEat s' => (0, s')
                          end in
        match find_field (tag_field_number tag) tbl 0 with
        | Some (i, d) =>
            match d tag s1 (nth i cur VNull) with
            | Ok x s2 => if shorter s2 s then agg_loop tbl f s2 (upd_nth i x cur) else Hang
            | r => r
            end
        | None =>
            match consume_unknown tag s1 with
            | Some s2 => if shorter s2 s then agg_loop tbl f s2 cur else Hang
            | None => Fail
            end
        end
      else Ok (VSeq cur) s
  end.

(* the test guarding the pointee allocation in unique_ptr.h / shared_ptr.h (regenerated: 1 = GetDirectBufferPointer,
   i.e. "some byte is readable"; anything else would be the BytesUntilLimit() > 0 test of vector.h) *)
Definition ptr_guard (kind : Z) (s : stream) : bool :=
  if kind =? 1 then has_data s else vec_loop_cond (bul s).

Definition is_fp (t : ty) : bool := match t with TS KF32 | TS KF64 => true | _ => false end.
Definition seq_items (v : val) : list val := match v with VSeq l => l | _ => [] end.

Fixpoint decode (t : ty) : dec :=
  match t with
  | TS k => dec_scalar k
  | TStr => fun s _ => Ok (VStr (win s)) (set_win s [])
  | TVec e => fun s cur =>
      if is_fp e && (match ext s with None => true | _ => false end) then Crash
      else seq_loop (fun s => vec_loop_cond (bul s)) (dec_packed e (decode e)) (dflt e)
                    (fun x acc => acc ++ [x]) (S (length (win s))) s (seq_items cur)
  | TList e => fun s cur =>
      seq_loop has_data (dec_packed e (decode e)) (dflt e) (fun x acc => acc ++ [x])
               (S (length (win s))) s (seq_items cur)
  | TSet e => fun s cur =>
      seq_loop has_data (dec_packed e (decode e)) (dflt e) set_add (S (length (win s))) s (seq_items cur)
  | TMap k w => fun s cur =>
      map_loop (dec_packed k (decode k)) (dec_packed w (decode w)) (dflt k) (dflt w)
               (S (length (win s))) s (seq_items cur)
  | TArr _ e => fun s cur => arr_go (dec_packed e (decode e)) s (seq_items cur)
  | TPtr sh e => fun s cur =>
      if ptr_guard (if sh then sptr_guard_kind else uptr_guard_kind) s then
        match decode e s (match cur with VSome x => if sh then dflt e else x | _ => dflt e end) with
        | Ok x s' => Ok (VSome x) s'
        | r => r
        end
      else Ok cur s
  | TAgg fs => fun s cur =>
      agg_loop (map (fun p => (fst p, dec_field (snd p) (decode (snd p)))) fs)
               (S (length (win s))) s (seq_items cur)
  end.

(* Serialization::parse_from_array / parse_from_string / parse_from_coded_stream into a fresh object;
   [unlimited] = a stream-backed coded stream without any limit *)
Definition parse (unlimited : bool) (t : ty) (bs : list Z) : res :=
  decode t (mkS bs (if unlimited then None else Some 0%nat)) (dflt t).
End Decode.

(* ------------------------------------------------------------------ normal form: what a round trip yields *)
(* a smart pointer to a value whose encoding is empty reads back as null *)
Fixpoint norm (t : ty) (v : val) {struct t} : val :=
  match t, v with
  | TVec e, VSeq l | TList e, VSeq l | TSet e, VSeq l | TArr _ e, VSeq l => VSeq (map (norm e) l)
  | TMap k w, VSeq l =>
      VSeq (map (fun p => match p with VSeq [a; b] => VSeq [norm k a; norm w b] | _ => p end) l)
  | TPtr _ e, VSome x => if ssize e x =? 0 then VNull else VSome (norm e x)
  | TAgg fs, VSeq l =>
      VSeq ((fix go (fs : list (Z * ty)) (l : list val) {struct fs} : list val :=
               match fs, l with
               | (_, ft) :: fs', x :: l' => norm ft x :: go fs' l'
               | _, _ => []
               end) fs l)
  | _, _ => v
  end.

(* ------------------------------------------------------------------ observation used by the correspondence run *)
Definition res_code (r : res) : Z := match r with Ok _ _ => 1 | Fail => 0 | Hang => 2 | Crash => 3 end.
Definition res_val (r : res) : option val := match r with Ok v _ => Some v | _ => None end.
Definition res_left (r : res) : Z := match r with Ok _ s => Z.of_nat (length (win s)) | _ => 0 end.
