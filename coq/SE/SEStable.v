From Coq Require Import ZArith Znumtheory List Bool Lia Permutation.
Require Import Verif.Gen.Gen_serialization Verif.SE.SEModel Verif.SE.SEProofs Verif.SE.SEHang.
Import ListNotations.
Local Open Scope Z_scope.

(* ---------- what a successful parse of ARBITRARY bytes returns is well formed ---------- *)
(* shape and scalar ranges only: no sizes, no distinctness *)
Fixpoint wfs (t : ty) (v : val) {struct t} : Prop :=
  match t, v with
  | TS k, VInt z => in_range k z
  | TStr, VStr _ => True
  | TVec e, VSeq l | TList e, VSeq l | TSet e, VSeq l =>
      (fix go (l : list val) : Prop := match l with [] => True | x :: r => wfs e x /\ go r end) l
  | TArr n e, VSeq l =>
      length l = n /\ (fix go (l : list val) : Prop := match l with [] => True | x :: r => wfs e x /\ go r end) l
  | TMap k w, VSeq l =>
      (fix go (l : list val) : Prop :=
         match l with [] => True | VSeq [a; b] :: r => wfs k a /\ wfs w b /\ go r | _ :: _ => False end) l
  | TPtr _ e, VNull => True
  | TPtr _ e, VSome x => wfs e x
  | TAgg fs, VSeq l =>
      (fix go (fs : list (Z * ty)) (l : list val) {struct fs} : Prop :=
         match fs, l with [], [] => True | (_, ft) :: fs', x :: l' => wfs ft x /\ go fs' l' | _, _ => False end) fs l
  | _, _ => False
  end.

Lemma wfs_elems : forall e l,
  (fix go (l : list val) : Prop := match l with [] => True | x :: r => wfs e x /\ go r end) l <-> Forall (wfs e) l.
Proof.
  intros e. induction l as [|x r IH]; split; intro H.
  - constructor. - exact I.
  - destruct H. constructor; auto. apply IH; auto.
  - inversion H; subst. split; auto. apply IH; auto.
Qed.
Definition wfs_fields (fs : list (Z * ty)) (l : list val) : Prop := Forall2 (fun p x => wfs (snd p) x) fs l.
Lemma wfs_agg : forall fs l, wfs (TAgg fs) (VSeq l) <-> wfs_fields fs l.
Proof.
  unfold wfs_fields. induction fs as [|[n ft] fs IH]; intros l; destruct l as [|x l]; cbn [wfs]; split; intro H.
  - constructor.
  - exact I.
  - contradiction.
  - inversion H.
  - contradiction.
  - inversion H.
  - destruct H as [A B]. constructor; [exact A|]. apply (IH l). exact B.
  - inversion H; subst. split; [assumption|]. apply (IH l). assumption.
Qed.
Definition wfs_entry (k w : ty) (p : val) : Prop := exists a b, p = VSeq [a; b] /\ wfs k a /\ wfs w b.
Lemma wfs_map : forall k w l, wfs (TMap k w) (VSeq l) <-> Forall (wfs_entry k w) l.
Proof.
  intros k w. cbn [wfs]. induction l as [|p r IH]; split; intro H.
  - constructor. - exact I.
  - destruct p as [| |[|a [|b [|]]]| |]; try contradiction. destruct H as (A & B & C).
    constructor; [exists a, b; auto|apply IH; exact C].
  - inversion H as [|? ? (a & b & -> & A & B) C]; subst. repeat split; auto. apply IH. exact C.
Qed.

Lemma swrap_range : forall b z, 0 < b -> - 2 ^ (b - 1) <= swrap b z < 2 ^ (b - 1).
Proof.
  intros b z Hb. unfold swrap.
  assert (E : 2 ^ b = 2 * 2 ^ (b - 1)).
  { replace b with (Z.succ (b - 1)) at 1 by lia. rewrite Z.pow_succ_r by lia. reflexivity. }
  assert (0 < 2 ^ (b - 1)) by (apply Z.pow_pos_nonneg; lia).
  pose proof (Z.mod_pos_bound (z + 2 ^ (b - 1)) (2 ^ b)). lia.
Qed.

Lemma sk_cast_range : forall k u, in_range k (sk_cast k u).
Proof.
  intros k u. destruct k; cbn [in_range sk_cast];
    try (apply (swrap_range 8); lia); try (apply (swrap_range 16); lia);
    try (apply (swrap_range 32); lia); try (apply (swrap_range 64); lia);
    try (apply Z.mod_pos_bound; lia).
  destruct (u =? 0); lia.
Qed.

Lemma dec_scalar_wfs : forall k s cur v s', dec_scalar k s cur = Ok v s' -> wfs (TS k) v.
Proof.
  intros k s cur v s' H.
  assert (E : exists x, v = VInt (sk_cast k x)).
  { rewrite dec_scalar_spec in H. destruct k;
      match type of H with
      | context [read_varint s] => destruct (read_varint s) as [u s1| |s1]; try discriminate
      | context [read_fixed ?n s] => destruct (read_fixed n s) as [[u s1]|]; try discriminate
      end;
      injection H as Hv _; eexists; symmetry; exact Hv. }
  destruct E as [x ->]. exact (sk_cast_range k x).
Qed.

Lemma wfs_dflt : forall t, wfs t (dflt t).
Proof.
  induction t using ty_ind'; cbn [dflt wfs]; auto.
  - destruct k; cbn; lia.
  - split. apply repeat_length. apply wfs_elems. apply Forall_forall. intros x Hx. apply repeat_spec in Hx. subst. auto.
  - apply (wfs_agg fs). unfold wfs_fields. induction H; cbn [map]; constructor; auto.
Qed.

(* the value a wrapper returns is a value its inner decoder returned *)
Definition yields (P : val -> Prop) (d : dec) (cur : val) : Prop := forall s v s', d s cur = Ok v s' -> P v.

Lemma with_limit_yields : forall P n d cur, yields P d cur -> yields P (fun s c => with_limit n s d c) cur.
Proof.
  intros P n d cur Hd s v s' H. unfold with_limit in H.
  destruct ((0 <=? n) && match ext s with Some k => n <? Z.of_nat (length (win s) + k) | None => true end).
  - match type of H with context [d ?s1 cur] => destruct (d s1 cur) as [v1 s2| | |] eqn:E end; try discriminate.
    inversion H; subst. apply (Hd _ _ _ E).
  - apply (Hd _ _ _ H).
Qed.

Lemma dec_len_yields : forall P lim fr d cur, fr =? 0 = true -> yields P d cur -> yields P (dec_len lim fr d) cur.
Proof.
  intros P lim fr d cur Hfr Hd s v s' H. unfold dec_len in H. rewrite Hfr in H.
  destruct (read_varint s) as [u s1| |s1]; try discriminate.
  apply (with_limit_yields P _ d cur Hd s1 v s' H).
Qed.

Section Stable.
Variable nd : bool.

Lemma dec_packed_yields : forall P e cur, yields P (decode nd e) cur -> yields P (dec_packed e (decode nd e)) cur.
Proof.
  intros P e cur Hd s v s' H. unfold dec_packed in H. destruct (is_ld e).
  - apply (dec_len_yields P _ _ _ cur (packed_fr) Hd s v s' H).
  - apply (Hd _ _ _ H).
Qed.
Lemma dec_field_yields : forall P t tag cur, yields P (decode nd t) cur -> yields P (dec_field nd t (decode nd t) tag) cur.
Proof.
  intros P t tag cur Hd s v s' H. unfold dec_field in H.
  destruct (negb nd && negb (tag_wire tag =? wire t)); [discriminate|]. destruct (is_ld t).
  - apply (dec_len_yields P _ _ _ cur (field_fr) Hd s v s' H).
  - apply (Hd _ _ _ H).
Qed.

(* loops keep an invariant of the collected elements *)
Lemma seq_loop_inv : forall (P : val -> Prop) cond d dv add,
  yields P d dv -> (forall x acc, P x -> Forall P acc -> Forall P (add x acc)) ->
  forall fuel s acc v s', Forall P acc -> seq_loop cond d dv add fuel s acc = Ok v s' -> exists l, v = VSeq l /\ Forall P l.
Proof.
  intros P cond d dv add Hd Hadd. induction fuel as [|f IH]; intros s acc v s' Ha H; [discriminate|].
  cbn [seq_loop] in H. destruct (cond s).
  - destruct (d s dv) as [x s1| | |] eqn:E; try discriminate. destruct (shorter s1 s); [|discriminate].
    apply (IH s1 (add x acc) v s'); auto. apply Hadd; auto. apply (Hd _ _ _ E).
  - inversion H; subst. eauto.
Qed.

Lemma forall_app1 : forall (P : val -> Prop) x acc, P x -> Forall P acc -> Forall P (acc ++ [x]).
Proof. intros. apply Forall_app. split; auto. Qed.
Lemma forall_set_add : forall (P : val -> Prop) x acc, P x -> Forall P acc -> Forall P (set_add x acc).
Proof. intros. unfold set_add. destruct (existsb (val_eqb x) acc); auto. apply forall_app1; auto. Qed.

Lemma map_loop_inv : forall (Pk Pw : val -> Prop) dk dw dvk dvw,
  yields Pk dk dvk -> yields Pw dw dvw ->
  forall fuel s acc v s', Forall (fun p => exists a b, p = VSeq [a; b] /\ Pk a /\ Pw b) acc ->
  map_loop dk dw dvk dvw fuel s acc = Ok v s' ->
  exists l, v = VSeq l /\ Forall (fun p => exists a b, p = VSeq [a; b] /\ Pk a /\ Pw b) l.
Proof.
  intros Pk Pw dk dw dvk dvw Hk Hw. induction fuel as [|f IH]; intros s acc v s' Ha H; [discriminate|].
  cbn [map_loop] in H. destruct (has_data s).
  - destruct (dk s dvk) as [k s1| | |] eqn:E1; try discriminate.
    destruct (dw s1 dvw) as [w s2| | |] eqn:E2; try discriminate. destruct (shorter s2 s); [|discriminate].
    apply (IH s2 (map_add k w acc) v s'); auto. unfold map_add.
    destruct (existsb _ acc); auto. apply Forall_app. split; auto. constructor; [|constructor].
    exists k, w. split; auto. split; [apply (Hk _ _ _ E1)|apply (Hw _ _ _ E2)].
  - inversion H; subst. eauto.
Qed.

Lemma arr_go_inv : forall (P : val -> Prop) d, (forall c, P c -> yields P d c) ->
  forall cur s v s', Forall P cur -> arr_go d s cur = Ok v s' -> exists l, v = VSeq l /\ length l = length cur /\ Forall P l.
Proof.
  intros P d Hd. induction cur as [|c r IH]; intros s v s' Hc H; cbn [arr_go] in H.
  - inversion H; subst. exists []. auto.
  - inversion Hc as [|? ? Pc Pr]; subst. destruct (d s c) as [x s1| | |] eqn:E; try discriminate.
    destruct (arr_go d s1 r) as [v1 s2| | |] eqn:E2; try discriminate. destruct v1 as [| |xs| |]; try discriminate.
    inversion H; subst. destruct (IH _ _ _ Pr E2) as (l & El & Hl & Fl). inversion El; subst.
    exists (x :: l). split; [reflexivity|]. split; [cbn; lia|]. constructor; auto. apply (Hd c Pc _ _ _ E).
Qed.

Lemma find_field_idx : forall fs num k i d, find_field num (tbl nd fs) k = Some (i, d) ->
  exists j p, i = (k + j)%nat /\ nth_error fs j = Some p /\ d = dec_field nd (snd p) (decode nd (snd p)).
Proof.
  induction fs as [|p fs IH]; intros num k i d H; [discriminate|].
  cbn [tbl map find_field fst snd] in H. destruct (fst p =? num).
  - inversion H; subst. exists 0%nat, p. split; [lia|]. split; reflexivity.
  - fold (tbl nd fs) in H. apply IH in H. destruct H as (j & q & -> & Hq & E). exists (S j), q.
    split; [lia|]. split; auto.
Qed.

Lemma upd_nth_fields : forall fs cur j p x, wfs_fields fs cur -> nth_error fs j = Some p -> wfs (snd p) x ->
  wfs_fields fs (upd_nth j x cur).
Proof.
  unfold wfs_fields. intros fs cur j p x H. revert j. induction H as [|q c fs cur Hq Hr IH]; intros j Hn Hx.
  - destruct j; discriminate.
  - destruct j; cbn in *.
    + inversion Hn; subst. constructor; auto.
    + constructor; auto.
Qed.
Lemma nth_fields : forall fs cur j p, wfs_fields fs cur -> nth_error fs j = Some p -> wfs (snd p) (nth j cur VNull).
Proof.
  unfold wfs_fields. intros fs cur j p H. revert j. induction H as [|q c fs cur Hq Hr IH]; intros j Hn.
  - destruct j; discriminate.
  - destruct j; cbn in *. inversion Hn; subst. auto. apply IH. auto.
Qed.

Lemma agg_loop_inv : forall fs,
  Forall (fun p => forall cur, wfs (snd p) cur -> yields (wfs (snd p)) (decode nd (snd p)) cur) fs ->
  forall fuel s cur v s', wfs_fields fs cur -> agg_loop (tbl nd fs) fuel s cur = Ok v s' ->
  exists l, v = VSeq l /\ wfs_fields fs l.
Proof.
  intros fs HG. induction fuel as [|f IH]; intros s cur v s' Hc H; [discriminate|].
  cbn [agg_loop] in H. destruct (has_data s); [|inversion H; subst; eauto].
  destruct (match read_varint s with VOk v0 s'0 => (u32 v0, s'0) | VStay => (0, s) | VEat s'0 => (0, s'0) end) as [tag s1].
  destruct (find_field (tag_field_number tag) (tbl nd fs) 0) as [[i d]|] eqn:F.
  - apply find_field_idx in F. destruct F as (j & p & -> & Hp & ->). cbn [Nat.add] in H.
    destruct (dec_field nd (snd p) (decode nd (snd p)) tag s1 (nth j cur VNull)) as [x s2| | |] eqn:E; try discriminate.
    destruct (shorter s2 s); [|discriminate].
    apply (IH s2 (upd_nth j x cur) v s'); auto. apply (upd_nth_fields fs cur j p); auto.
    pose proof (proj1 (Forall_forall _ _) HG p (nth_error_In _ _ Hp)) as Gp.
    apply (dec_field_yields (wfs (snd p)) (snd p) tag (nth j cur VNull)) in E; auto.
    apply Gp. apply (nth_fields fs cur j p); auto.
  - destruct (consume_unknown tag s1) as [s2|]; [|discriminate]. destruct (shorter s2 s); [|discriminate].
    apply (IH s2 cur v s'); auto.
Qed.

Definition DW (t : ty) : Prop := forall cur, wfs t cur -> yields (wfs t) (decode nd t) cur.

Lemma seq_items_wfs : forall e cur, (wfs (TVec e) cur \/ wfs (TList e) cur \/ wfs (TSet e) cur) -> Forall (wfs e) (seq_items cur).
Proof.
  intros e cur H. destruct cur; try (destruct H as [H|[H|H]]; cbn in H; contradiction).
  cbn [seq_items]. apply wfs_elems. destruct H as [H|[H|H]]; exact H.
Qed.

Theorem decode_wfs : forall t, DW t.
Proof.
  induction t using ty_ind'; intros cur Hc s v s' Hd; cbn [decode] in Hd.
  - apply (dec_scalar_wfs _ _ _ _ _ Hd).
  - inversion Hd; subst. exact I.
  - destruct (is_fp t && _); [discriminate|].
    apply (seq_loop_inv (wfs t)) in Hd.
    + destruct Hd as (l & -> & Hl). apply wfs_elems. exact Hl.
    + apply dec_packed_yields. apply IHt. apply wfs_dflt.
    + apply forall_app1.
    + apply seq_items_wfs. auto.
  - apply (seq_loop_inv (wfs t)) in Hd.
    + destruct Hd as (l & -> & Hl). apply wfs_elems. exact Hl.
    + apply dec_packed_yields. apply IHt. apply wfs_dflt.
    + apply forall_app1.
    + apply seq_items_wfs. auto.
  - apply (seq_loop_inv (wfs t)) in Hd.
    + destruct Hd as (l & -> & Hl). apply wfs_elems. exact Hl.
    + apply dec_packed_yields. apply IHt. apply wfs_dflt.
    + apply forall_set_add.
    + apply seq_items_wfs. auto.
  - apply (map_loop_inv (wfs t1) (wfs t2)) in Hd.
    + destruct Hd as (l & -> & Hl). apply wfs_map. exact Hl.
    + apply dec_packed_yields. apply IHt1. apply wfs_dflt.
    + apply dec_packed_yields. apply IHt2. apply wfs_dflt.
    + destruct cur; try (cbn in Hc; contradiction). cbn [seq_items]. apply wfs_map. exact Hc.
  - destruct cur; try (cbn in Hc; contradiction). cbn [seq_items] in Hd. destruct Hc as [Hn Hc]. apply wfs_elems in Hc.
    apply (arr_go_inv (wfs t)) in Hd; auto.
    + destruct Hd as (l0 & -> & Hl & Fl). split; [lia|]. apply wfs_elems. exact Fl.
    + intros c Pc. apply dec_packed_yields. apply IHt. exact Pc.
  - rewrite ptr_guard_eq in Hd. destruct (has_data s).
    + match type of Hd with context [decode nd t s ?c] => destruct (decode nd t s c) as [x s1| | |] eqn:E end; try discriminate.
      inversion Hd; subst. cbn [wfs]. revert E. apply IHt.
      destruct cur; try apply wfs_dflt. destruct sh; [apply wfs_dflt|exact Hc].
    + inversion Hd; subst. exact Hc.
  - fold (tbl nd fs) in Hd. destruct cur; try (cbn in Hc; contradiction). cbn [seq_items] in Hd.
    apply (agg_loop_inv fs) in Hd.
    + destruct Hd as (l0 & -> & Hl). apply wfs_agg. exact Hl.
    + apply Forall_forall. intros p Hp. apply (proj1 (Forall_forall _ _) H p Hp).
    + apply wfs_agg. exact Hc.
Qed.
End Stable.

(* ---------- sizes are non-negative; a bound on the whole bounds every part ---------- *)
Lemma bb_nonneg : forall z, 0 <= bb_varint_size z.
Proof.
  intros. unfold bb_varint_size, varint_size_of_log2. apply Z.div_pos; [|lia].
  pose proof (Z.log2_nonneg (Z.lor z 1)). lia.
Qed.
Lemma pb_nonneg : forall z, 0 <= pb_varint_size z.
Proof. intros. unfold pb_varint_size. apply Z.div_pos; [|lia]. pose proof (Z.log2_nonneg (Z.lor z 1)). lia. Qed.
Lemma sumZ_nonneg : forall l, Forall (fun z => 0 <= z) l -> 0 <= sumZ l.
Proof. induction 1; cbn. lia. unfold sumZ in *. cbn. lia. Qed.
Lemma sumZ_bound : forall l B, Forall (fun z => 0 <= z) l -> sumZ l < B -> Forall (fun z => z < B) l.
Proof.
  induction 1 as [|z l Hz Hl IH]; intros HB; constructor; unfold sumZ in *; cbn in HB.
  - pose proof (sumZ_nonneg l Hl). unfold sumZ in *. lia.
  - apply IH. lia.
Qed.
Lemma packed_size_ge : forall e sz, 0 <= sz -> sz <= packed_size e sz.
Proof. intros. unfold packed_size. pose proof (bb_nonneg sz). destruct (is_ld e); lia. Qed.
Lemma field_size_ge : forall n t sz, 0 <= sz -> sz <= field_size n t sz.
Proof.
  intros. unfold field_size, size_field_skipped. destruct (sz =? 0) eqn:E.
  - apply Z.eqb_eq in E. lia.
  - pose proof (bb_nonneg sz). pose proof (bb_nonneg (tag_of n t)). destruct (is_ld t); lia.
Qed.

Theorem ssize_nonneg : forall t v, 0 <= ssize t v.
Proof.
  induction t using ty_ind'; intros v; destruct v; cbn [ssize]; try lia.
  - rewrite sk_size_spec. destruct k; cbn [wide]; try apply pb_nonneg; lia.
  - destruct (trivial t).
    + apply Z.mul_nonneg_nonneg; [lia|]. pose proof (packed_size_ge t _ (IHt (hd (VSeq []) l))). pose proof (IHt (hd (VSeq []) l)). lia.
    + apply sumZ_nonneg. apply Forall_forall. intros z Hz. apply in_map_iff in Hz. destruct Hz as (x & <- & _).
      pose proof (packed_size_ge t (ssize t x) (IHt x)). pose proof (IHt x). lia.
  - apply sumZ_nonneg. apply Forall_forall. intros z Hz. apply in_map_iff in Hz. destruct Hz as (x & <- & _).
    pose proof (packed_size_ge t (ssize t x) (IHt x)). pose proof (IHt x). lia.
  - apply sumZ_nonneg. apply Forall_forall. intros z Hz. apply in_map_iff in Hz. destruct Hz as (x & <- & _).
    pose proof (packed_size_ge t (ssize t x) (IHt x)). pose proof (IHt x). lia.
  - apply sumZ_nonneg. apply Forall_forall. intros z Hz. apply in_map_iff in Hz. destruct Hz as (p & <- & _).
    destruct p as [| |[|a [|b [|]]]| |]; try lia.
    pose proof (packed_size_ge t1 _ (IHt1 a)). pose proof (packed_size_ge t2 _ (IHt2 b)).
    pose proof (IHt1 a). pose proof (IHt2 b). lia.
  - destruct (trivial t).
    + apply Z.mul_nonneg_nonneg; [lia|]. pose proof (packed_size_ge t _ (IHt (hd (VSeq []) l))). pose proof (IHt (hd (VSeq []) l)). lia.
    + apply sumZ_nonneg. apply Forall_forall. intros z Hz. apply in_map_iff in Hz. destruct Hz as (x & <- & _).
      pose proof (packed_size_ge t (ssize t x) (IHt x)). pose proof (IHt x). lia.
  - apply IHt.
  - revert l. induction H as [|[n ft] fs Hft _ IH]; intros l; [destruct l; lia|].
    destruct l as [|x l]; [lia|]. cbn [snd] in Hft.
    pose proof (field_size_ge n ft _ (Hft x)). pose proof (Hft x). specialize (IH l). lia.
Qed.

Lemma elems_small : forall e l B, sumZ (map (fun x => packed_size e (ssize e x)) l) < B ->
  Forall (fun x => ssize e x < B) l.
Proof.
  intros e l B H. apply sumZ_bound in H.
  - apply Forall_forall. intros x Hx. pose proof (proj1 (Forall_forall _ _) H (packed_size e (ssize e x))) as Hp.
    pose proof (packed_size_ge e _ (ssize_nonneg e x)). assert (packed_size e (ssize e x) < B); [|lia].
    apply Hp. apply in_map_iff. exists x. auto.
  - apply Forall_forall. intros z Hz. apply in_map_iff in Hz. destruct Hz as (x & <- & _).
    pose proof (packed_size_ge e _ (ssize_nonneg e x)). pose proof (ssize_nonneg e x). lia.
Qed.

Lemma trivial_size_wfs : forall t, trivial t = true -> ptr_free t = true -> forall x, wfs t x -> ssize t x = tsize t.
Proof.
  induction t using ty_ind'; intros Ht Hp x Hw; try (cbn in Ht; discriminate); try (cbn in Hp; discriminate).
  - destruct x; cbn [wfs] in Hw; try contradiction. cbn [ssize]. rewrite sk_size_spec.
    destruct k; cbn in Ht; try discriminate; reflexivity.
  - destruct x; cbn [wfs] in Hw; try contradiction. cbn [trivial ptr_free] in Ht, Hp. cbn [ssize tsize].
    revert l Hw. induction H as [|[n ft] fs Hft _ IH]; intros l Hw; destruct l as [|x l]; try contradiction; [reflexivity|].
    cbn [forallb snd] in Ht, Hp. apply andb_prop in Ht. apply andb_prop in Hp. destruct Ht as [T1 T2], Hp as [P1 P2].
    destruct Hw as (Wx & Wr). cbn [fst snd] in *. rewrite (Hft T1 P1 x Wx). f_equal. apply IH; auto.
Qed.
Lemma elems_small_triv : forall e l B, trivial e = true -> ptr_free e = true -> Forall (wfs e) l ->
  Z.of_nat (length l) * packed_size e (ssize e (hd (VSeq []) l)) < B -> Forall (fun x => ssize e x < B) l.
Proof.
  intros e l B Ht Hp Hw Hs. destruct l as [|x0 l]; [constructor|]. cbn [hd] in Hs.
  assert (H0 : ssize e x0 = tsize e) by (inversion Hw; subst; apply trivial_size_wfs; auto). rewrite H0 in Hs.
  pose proof (ssize_nonneg e x0) as N0. rewrite H0 in N0. pose proof (packed_size_ge e _ N0).
  assert (packed_size e (tsize e) < B) by (cbn [length] in Hs; nia).
  apply Forall_forall. intros x Hx. rewrite (trivial_size_wfs e Ht Hp x (proj1 (Forall_forall _ _) Hw x Hx)). lia.
Qed.

(* a well-shaped value whose serialized size is below 2^31 is well formed (types without hash containers) *)
Theorem wf_of_wfs : forall t v, ty_ok t -> no_hash t -> wfs t v -> ssize t v < 2 ^ 31 -> wf t v.
Proof.
  induction t using ty_ind'; intros v Hok Hnh Hw Hs; destruct v; cbn [wfs] in Hw; try contradiction; cbn [no_hash] in Hnh;
    try contradiction.
  - exact Hw.
  - exact I.
  - cbn [ssize] in Hs. apply wfs_elems in Hw. cbn [wf]. apply wf_elems. unfold welems. destruct Hok as [_ Hok].
    assert (Hsm : Forall (fun x => ssize t x < 2 ^ 31) l).
    { destruct (trivial t) eqn:Tr; [apply elems_small_triv; auto using trivial_ptr_free|apply elems_small; auto]. }
    apply Forall_forall. intros x Hx.
    pose proof (proj1 (Forall_forall _ _) Hsm x Hx). pose proof (proj1 (Forall_forall _ _) Hw x Hx).
    split; [apply IHt; auto|exact H].
  - cbn [ssize] in Hs. apply wfs_elems in Hw. cbn [wf]. apply wf_elems. unfold welems. destruct Hok as [_ Hok].
    pose proof (elems_small t l _ Hs) as Hsm. apply Forall_forall. intros x Hx.
    pose proof (proj1 (Forall_forall _ _) Hsm x Hx). pose proof (proj1 (Forall_forall _ _) Hw x Hx).
    split; [apply IHt; auto|exact H].
  - cbn [ssize] in Hs. destruct Hw as [Hn Hw]. apply wfs_elems in Hw. cbn [wf]. split; [exact Hn|]. apply wf_elems. unfold welems.
    destruct Hok as [_ Hok].
    assert (Hsm : Forall (fun x => ssize t x < 2 ^ 31) l).
    { destruct (trivial t) eqn:Tr; [apply elems_small_triv; auto using trivial_ptr_free|apply elems_small; auto]. }
    apply Forall_forall. intros x Hx.
    pose proof (proj1 (Forall_forall _ _) Hsm x Hx). pose proof (proj1 (Forall_forall _ _) Hw x Hx).
    split; [apply IHt; auto|exact H].
  - exact I.
  - cbn [ssize] in Hs. cbn [wf]. apply IHt; auto.
  - destruct Hok as [_ Hf]. apply ty_ok_fields in Hf.
    apply no_hash_fields in Hnh. apply wf_agg. apply wfs_agg in Hw. unfold wfs_fields in Hw.
    revert Hs. induction Hw as [|[n ft] x fs l Hx Hr IH]; intros Hs; cbn [wf_fields]; [exact I|].
    inversion H as [|? ? Hft Hrest]; subst. inversion Hnh as [|? ? Hn1 Hnr]; subst.
    inversion Hf as [|? ? [Hnum Hokft] Hfr]; subst. cbn [fst snd] in *.
    rewrite ssize_agg_cons in Hs.
    pose proof (field_size_ge n ft _ (ssize_nonneg ft x)). pose proof (ssize_nonneg (TAgg fs) (VSeq l)).
    pose proof (ssize_nonneg ft x).
    split; [apply Hft; auto; lia|]. split; [unfold small; lia|]. apply IH; auto. lia.
Qed.

(* ---------- success on ARBITRARY bytes => the result serializes and parses back (pointers to empty encodings null) ---------- *)
Theorem success_stable : forall nd t bs v s', ty_ok t -> no_hash t -> is_ld t = true ->
  parse nd false t bs = Ok v s' -> ssize t v < 2 ^ 31 ->
  parse nd false t (encode t v) = Ok (norm t v) (S0 []).
Proof.
  intros nd t bs v s' Hok Hnh Hld H Hs. unfold parse in H.
  apply (decode_wfs nd t (dflt t) (wfs_dflt t)) in H.
  apply roundtrip_ld; auto. apply wf_of_wfs; auto.
Qed.

Theorem success_stable_scalar : forall nd k bs v s' post, parse nd false (TS k) bs = Ok v s' ->
  parse nd false (TS k) (encode (TS k) v ++ post) = Ok v (S0 post).
Proof.
  intros nd k bs v s' post H. unfold parse in H.
  apply (decode_wfs nd (TS k) (dflt (TS k)) (wfs_dflt (TS k))) in H.
  destruct v; cbn [wfs] in H; try contradiction.
  apply (roundtrip_nld nd (TS k) (VInt z) post); [exact I | exact H | destruct k; reflexivity | exact I].
Qed.
