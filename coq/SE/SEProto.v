From Coq Require Import ZArith Znumtheory List Bool Lia Permutation.
Require Import Verif.Gen.Gen_serialization Verif.SE.SEModel Verif.SE.SEProofs.
Import ListNotations.
Local Open Scope Z_scope.

(* ---------- the protobuf wire format (hand written from the encoding guide, independent of the babylon sources):
   message = record*, record = tag payload, tag = varint (field_number * 8 + wire_type);
   wire type 0: varint, 1: 8 bytes, 2: varint length + that many bytes, 5: 4 bytes ---------- *)
Inductive payload := PVarint (v : Z) | PFixed64 (b : list Z) | PLen (b : list Z) | PFixed32 (b : list Z).

Definition ocons {A} (x : A) (o : option (list A)) : option (list A) :=
  match o with Some l => Some (x :: l) | None => None end.

Fixpoint proto_split (fuel : nat) (bs : list Z) : option (list (Z * payload)) :=
  match fuel with
  | O => None
  | S f =>
      match bs with
      | [] => Some []
      | _ :: _ =>
          match get_varint 10 bs with
          | None => None
          | Some (tag, r) =>
              let num := tag / 8 in
              let wt := tag mod 8 in
              if wt =? 0 then
                match get_varint 10 r with
                | Some (v, r') => ocons (num, PVarint v) (proto_split f r')
                | None => None
                end
              else if wt =? 1 then
                if (8 <=? length r)%nat then ocons (num, PFixed64 (firstn 8 r)) (proto_split f (skipn 8 r)) else None
              else if wt =? 5 then
                if (4 <=? length r)%nat then ocons (num, PFixed32 (firstn 4 r)) (proto_split f (skipn 4 r)) else None
              else if wt =? 2 then
                match get_varint 10 r with
                | Some (len, r') =>
                    if (Z.to_nat len <=? length r')%nat
                    then ocons (num, PLen (firstn (Z.to_nat len) r')) (proto_split f (skipn (Z.to_nat len) r'))
                    else None
                | None => None
                end
              else None
          end
      end
  end.

(* what a protobuf reader must find for a member: int32/uint32/bool/... as the 32 bit two's complement varint,
   int64/uint64/enum as the 64 bit one, float/double as fixed32/fixed64 bit patterns, everything else
   (string, bytes, nested message, packed repeated scalars) as length-delimited bytes *)
Fixpoint wire_payload (t : ty) (v : val) {struct t} : payload :=
  match t, v with
  | TS k, VInt z =>
      match k with
      | KF32 => PFixed32 (le_bytes 4 z)
      | KF64 => PFixed64 (le_bytes 8 z)
      | _ => if wide k then PVarint (u64 z) else PVarint (u32 z)
      end
  | TPtr _ e, VSome x => wire_payload e x
  | _, _ => PLen (encode t v)
  end.

Fixpoint proto_fields (fs : list (Z * ty)) (l : list val) : list (Z * payload) :=
  match fs, l with
  | (num, t) :: fs', x :: l' =>
      (if ssize t x =? 0 then [] else [(num, wire_payload t x)]) ++ proto_fields fs' l'
  | _, _ => []
  end.

Lemma payload_ld : forall t x, is_ld t = true -> wire_payload t x = PLen (encode t x).
Proof.
  induction t; intros x Hld; try reflexivity.
  - destruct k; cbn in Hld; discriminate.
  - cbn [is_ld wire] in Hld. destruct x; try reflexivity. cbn [wire_payload encode]. apply IHt. exact Hld.
Qed.

Lemma nld_scalar : forall t x, is_ld t = false -> wf t x -> nonnull t x ->
  exists k z, in_range k z /\ encode t x = sk_encode k z /\ wire t = sk_wire k /\ wire_payload t x = wire_payload (TS k) (VInt z).
Proof.
  induction t; intros x Hld Hwf Hnn; try (cbn in Hld; discriminate).
  - destruct x; cbn in Hwf; try contradiction. exists k, z. auto.
  - destruct x; cbn in Hnn; try contradiction. cbn [is_ld wire] in Hld. cbn [wf] in Hwf.
    destruct (IHt x Hld Hwf Hnn) as (k & z & A & B & C & D). exists k, z. auto.
Qed.

Lemma tag_div_mod : forall num w, 0 <= num -> 0 <= w < 8 -> (num * 8 + w) / 8 = num /\ (num * 8 + w) mod 8 = w.
Proof.
  intros. split.
  - rewrite Z.div_add_l by lia. rewrite Z.div_small by lia. lia.
  - rewrite Z.add_comm, Z.mod_add by lia. apply Z.mod_small. lia.
Qed.

Definition split_step (f : nat) (bs : list Z) : option (list (Z * payload)) :=
  match get_varint 10 bs with
  | None => None
  | Some (tag, r) =>
      let num := tag / 8 in
      let wt := tag mod 8 in
      if wt =? 0 then
        match get_varint 10 r with
        | Some (v, r') => ocons (num, PVarint v) (proto_split f r')
        | None => None
        end
      else if wt =? 1 then
        if (8 <=? length r)%nat then ocons (num, PFixed64 (firstn 8 r)) (proto_split f (skipn 8 r)) else None
      else if wt =? 5 then
        if (4 <=? length r)%nat then ocons (num, PFixed32 (firstn 4 r)) (proto_split f (skipn 4 r)) else None
      else if wt =? 2 then
        match get_varint 10 r with
        | Some (len, r') =>
            if (Z.to_nat len <=? length r')%nat
            then ocons (num, PLen (firstn (Z.to_nat len) r')) (proto_split f (skipn (Z.to_nat len) r'))
            else None
        | None => None
        end
      else None
  end.
Lemma proto_split_step : forall f bs, bs <> [] -> proto_split (S f) bs = split_step f bs.
Proof. intros f bs H. destruct bs; [contradiction|reflexivity]. Qed.

Lemma record_split : forall num t x rest f, 0 < num < 2 ^ 29 -> ty_ok t -> wf t x -> small (ssize t x) -> ssize t x <> 0 ->
  proto_split (S f) (field num t (ssize t x) (encode t x) ++ rest)
  = ocons (num, wire_payload t x) (proto_split f rest).
Proof.
  intros num t x rest f Hnum Hok Hwf Hs Hnz.
  pose proof (size_exact t x Hok Hwf) as Hsz. pose proof (tag_range num t) as Htr. pose proof (wire_range t) as Hwr.
  unfold field. replace (field_skipped (ssize t x)) with false by (symmetry; apply Z.eqb_neq; auto).
  rewrite tag_of_add in * by lia. destruct (tag_div_mod num (wire t)) as [Hd Hm]; [lia|lia|].
  rewrite proto_split_step.
  2:{ intro E. apply app_eq_nil in E. destruct E as [E _]. apply app_eq_nil in E. destruct E as [E _].
      exact (varint_nonempty _ E). }
  unfold split_step. rewrite <- !app_assoc, get_varint_varint by lia. cbv zeta. rewrite Hd, Hm.
  destruct (is_ld t) eqn:Hld.
  - assert (W : wire t = 2) by (unfold is_ld in Hld; apply Z.eqb_eq in Hld; exact Hld). rewrite W. cbn [Z.eqb Pos.eqb].
    unfold small in Hs. rewrite get_varint_varint by lia. rewrite Hsz, Nat2Z.id, app_length.
    replace (length (encode t x) <=? length (encode t x) + length rest)%nat with true by (symmetry; apply Nat.leb_le; lia).
    rewrite firstn_app_exact, skipn_app_exact, payload_ld by auto. reflexivity.
  - cbn [app]. assert (Hnn : nonnull t x) by (apply nld_size_nonnull; auto).
    destruct (nld_scalar t x Hld Hwf Hnn) as (k & z & Hr & He & Hw & Hp). rewrite He, Hw, Hp.
    rewrite sk_encode_spec. destruct k; cbn [sk_wire wide wire_payload Z.eqb Pos.eqb];
      try (rewrite get_varint_varint by apply u32_range; reflexivity);
      try (rewrite get_varint_varint by apply u64_range; reflexivity).
    + rewrite app_length, le_bytes_length.
      replace (4 <=? 4 + length rest)%nat with true by (symmetry; apply Nat.leb_le; lia).
      pose proof (firstn_app_exact (le_bytes 4 z) rest) as F. pose proof (skipn_app_exact (le_bytes 4 z) rest) as K.
      rewrite le_bytes_length in F, K. rewrite F, K. reflexivity.
    + rewrite app_length, le_bytes_length.
      replace (8 <=? 8 + length rest)%nat with true by (symmetry; apply Nat.leb_le; lia).
      pose proof (firstn_app_exact (le_bytes 8 z) rest) as F. pose proof (skipn_app_exact (le_bytes 8 z) rest) as K.
      rewrite le_bytes_length in F, K. rewrite F, K. reflexivity.
Qed.

(* what a BABYLON_COMPATIBLE aggregate writes is a well-formed protobuf message carrying exactly its non-empty
   members under their field numbers, with the payload a protobuf reader of the same schema expects *)
Theorem proto_wire_compat : forall fs l fuel, ty_ok (TAgg fs) -> wf (TAgg fs) (VSeq l) ->
  (length (encode (TAgg fs) (VSeq l)) < fuel)%nat ->
  proto_split fuel (encode (TAgg fs) (VSeq l)) = Some (proto_fields fs l).
Proof.
  intros fs l fuel [_ Hf] Hwf. apply ty_ok_fields in Hf. apply wf_agg in Hwf. rewrite encode_agg.
  revert l fuel Hwf. induction fs as [|[num t] fs IH]; intros l fuel Hwf Hfuel; destruct l as [|x l]; cbn [wf_fields] in Hwf;
    try contradiction.
  - destruct fuel; [cbn in Hfuel; lia|]. reflexivity.
  - inversion Hf as [|? ? [Hn Ho] Hfr]; subst. destruct Hwf as (Wx & Sx & Wr). cbn [fst snd] in *.
    cbn [enc_fields proto_fields]. destruct (ssize t x =? 0) eqn:Z0.
    + unfold field. replace (field_skipped (ssize t x)) with true by (symmetry; exact Z0). cbn [app].
      apply IH; auto. cbn [enc_fields] in Hfuel. unfold field in Hfuel.
      replace (field_skipped (ssize t x)) with true in Hfuel by (symmetry; exact Z0). exact Hfuel.
    + apply Z.eqb_neq in Z0. destruct fuel; [lia|].
      rewrite record_split by auto. rewrite (IH Hfr l fuel Wr). reflexivity.
      cbn [enc_fields] in Hfuel. rewrite app_length in Hfuel.
      assert (0 < length (field num t (ssize t x) (encode t x)))%nat; [|lia].
      unfold field. replace (field_skipped (ssize t x)) with false by (symmetry; apply Z.eqb_neq; auto).
      rewrite app_length. pose proof (varint_nonempty (tag_of num t)). destruct (varint (tag_of num t)); [contradiction|]. cbn. lia.
Qed.
