(* C11 - proofs about SE/SEModel.v (varints, exact size, round trip, refutations). *)
From Coq Require Import ZArith Znumtheory List Bool Lia Permutation.
Require Import Verif.Gen.Gen_serialization Verif.SE.SEModel.
Import ListNotations.
Local Open Scope Z_scope.


(* ---------- varints ---------- *)
Lemma pow128_S : forall f, 128 ^ Z.of_nat (S f) = 128 * 128 ^ Z.of_nat f.
Proof. intros. rewrite Nat2Z.inj_succ, Z.pow_succ_r by lia. reflexivity. Qed.

Lemma get_varint_aux : forall fuel n post, (0 < fuel)%nat -> 0 <= n < 128 ^ Z.of_nat fuel ->
  get_varint fuel (varint_aux fuel n ++ post) = Some (n, post).
Proof.
  induction fuel as [|f IH]; intros n post Hf H.
  - lia.
  - rewrite pow128_S in H. cbn [varint_aux].
    destruct (n <? 128) eqn:E.
    + cbn. rewrite E. reflexivity.
    + apply Z.ltb_ge in E. cbn [app get_varint].
      assert (Hb : n mod 128 + 128 <? 128 = false) by (apply Z.ltb_ge; pose proof (Z.mod_pos_bound n 128); lia).
      rewrite Hb. rewrite IH.
      * f_equal. f_equal. pose proof (Z.div_mod n 128). lia.
      * destruct f. simpl in H. lia. lia.
      * split. apply Z.div_pos; lia. apply Z.div_lt_upper_bound; lia.
Qed.

Lemma get_varint_varint : forall n post, 0 <= n < 2 ^ 64 -> get_varint 10 (varint n ++ post) = Some (n, post).
Proof. intros. apply get_varint_aux. lia. change (128 ^ Z.of_nat 10) with (2 ^ 70). lia. Qed.

Lemma varint_aux_nonempty : forall f n, varint_aux (S f) n <> [].
Proof. intros. cbn. destruct (n <? 128); discriminate. Qed.

Definition vlen_spec (n : Z) : Z := Z.log2 (Z.lor n 1) / 7 + 1.

Lemma log2_lor1 : forall n, 1 <= n -> Z.log2 (Z.lor n 1) = Z.log2 n.
Proof. intros. rewrite Z.log2_lor by lia. change (Z.log2 1) with 0. pose proof (Z.log2_nonneg n). lia. Qed.

Lemma varint_aux_length : forall fuel n, (0 < fuel)%nat -> 0 <= n < 128 ^ Z.of_nat fuel ->
  Z.of_nat (length (varint_aux fuel n)) = vlen_spec n.
Proof.
  induction fuel as [|f IH]; intros n Hf H.
  - lia.
  - rewrite pow128_S in H. cbn [varint_aux]. unfold vlen_spec.
    destruct (n <? 128) eqn:E.
    + apply Z.ltb_lt in E. cbn [length].
      assert (Z.log2 (Z.lor n 1) < 7).
      { destruct (Z.eq_dec n 0) as [->|]. cbn. lia. rewrite log2_lor1 by lia. apply Z.log2_lt_pow2; lia. }
      pose proof (Z.log2_nonneg (Z.lor n 1)). rewrite Z.div_small by lia. reflexivity.
    + apply Z.ltb_ge in E. cbn [length]. rewrite Nat2Z.inj_succ, IH.
      * unfold vlen_spec. assert (1 <= n / 128) by (apply Z.div_le_lower_bound; lia).
        rewrite !log2_lor1 by lia. change 128 with (2 ^ 7). rewrite <- (Z.shiftr_div_pow2 n 7) by lia. rewrite Z.log2_shiftr by lia.
        assert (7 <= Z.log2 n) by (apply Z.log2_le_pow2; lia).
        rewrite Z.max_r by lia. replace (Z.log2 n) with ((Z.log2 n - 7) + 1 * 7) at 2 by lia.
        rewrite Z.div_add by lia. lia.
      * destruct f. simpl in H. lia. lia.
      * split. apply Z.div_pos; lia. apply Z.div_lt_upper_bound; lia.
Qed.

Lemma size_formula_table :
  forallb (fun l => (varint_size_of_log2 l =? l / 7 + 1) && ((l * 9 + 73) / 64 =? l / 7 + 1))
          (map Z.of_nat (seq 0 64)) = true.
Proof. vm_compute. reflexivity. Qed.

Lemma size_formula : forall l, 0 <= l < 64 ->
  varint_size_of_log2 l = l / 7 + 1 /\ (l * 9 + 73) / 64 = l / 7 + 1.
Proof.
  intros l H. pose proof size_formula_table as T. rewrite forallb_forall in T.
  specialize (T l). assert (In l (map Z.of_nat (seq 0 64))).
  { apply in_map_iff. exists (Z.to_nat l). split. lia. apply in_seq. lia. }
  apply T in H0. apply andb_prop in H0. destruct H0 as [A B]. apply Z.eqb_eq in A. apply Z.eqb_eq in B. auto.
Qed.

Lemma log2_lor1_bound : forall n, 0 <= n < 2 ^ 64 -> 0 <= Z.log2 (Z.lor n 1) < 64.
Proof.
  intros. split. apply Z.log2_nonneg.
  destruct (Z.eq_dec n 0) as [->|]. cbn. lia. rewrite log2_lor1 by lia. apply Z.log2_lt_pow2; lia.
Qed.

Lemma varint_length_bb : forall n, 0 <= n < 2 ^ 64 -> Z.of_nat (length (varint n)) = bb_varint_size n.
Proof.
  intros. unfold varint. rewrite varint_aux_length by (try lia; change (128 ^ Z.of_nat 10) with (2 ^ 70); lia).
  unfold bb_varint_size, vlen_spec. symmetry. apply size_formula. apply log2_lor1_bound; auto.
Qed.
Lemma varint_length_pb : forall n, 0 <= n < 2 ^ 64 -> Z.of_nat (length (varint n)) = pb_varint_size n.
Proof.
  intros. unfold varint. rewrite varint_aux_length by (try lia; change (128 ^ Z.of_nat 10) with (2 ^ 70); lia).
  unfold pb_varint_size, vlen_spec. symmetry. apply size_formula. apply log2_lor1_bound; auto.
Qed.
Lemma varint_nonempty : forall n, varint n <> [].
Proof. intros. apply varint_aux_nonempty. Qed.


(* ---------- induction principle for the nested type ---------- *)
Section TyInd.
  Variable P : ty -> Prop.
  Hypothesis HS : forall k, P (TS k).
  Hypothesis HStr : P TStr.
  Hypothesis HVec : forall e, P e -> P (TVec e).
  Hypothesis HList : forall e, P e -> P (TList e).
  Hypothesis HSet : forall e, P e -> P (TSet e).
  Hypothesis HMap : forall k v, P k -> P v -> P (TMap k v).
  Hypothesis HArr : forall n e, P e -> P (TArr n e).
  Hypothesis HPtr : forall sh e, P e -> P (TPtr sh e).
  Hypothesis HAgg : forall fs, Forall (fun p => P (snd p)) fs -> P (TAgg fs).
  Fixpoint ty_ind' (t : ty) : P t :=
    match t with
    | TS k => HS k
    | TStr => HStr
    | TVec e => HVec e (ty_ind' e)
    | TList e => HList e (ty_ind' e)
    | TSet e => HSet e (ty_ind' e)
    | TMap k v => HMap k v (ty_ind' k) (ty_ind' v)
    | TArr n e => HArr n e (ty_ind' e)
    | TPtr sh e => HPtr sh e (ty_ind' e)
    | TAgg fs => HAgg fs ((fix go (l : list (Z * ty)) : Forall (fun p => P (snd p)) l :=
                             match l with
                             | [] => Forall_nil _
                             | p :: r => Forall_cons p (ty_ind' (snd p)) (go r)
                             end) fs)
    end.
End TyInd.

(* ---------- well-formed values ---------- *)
Definition in_range (k : sk) (z : Z) : Prop :=
  match k with
  | KBool => 0 <= z <= 1
  | KI8 | KE8 => - 2 ^ 7 <= z < 2 ^ 7 | KI16 => - 2 ^ 15 <= z < 2 ^ 15 | KI32 | KEnum => - 2 ^ 31 <= z < 2 ^ 31
  | KU8 | KEU8 => 0 <= z < 2 ^ 8 | KU16 => 0 <= z < 2 ^ 16 | KU32 | KF32 | KEU32 => 0 <= z < 2 ^ 32
  | KI64 | KE64 => - 2 ^ 63 <= z < 2 ^ 63 | KU64 | KF64 | KEU64 => 0 <= z < 2 ^ 64
  end.

Definition small (z : Z) : Prop := z < 2 ^ 31.

(* shape, scalar ranges, serialized sizes below 2^31 *)
Fixpoint wf (t : ty) (v : val) {struct t} : Prop :=
  match t, v with
  | TS k, VInt z => in_range k z
  | TStr, VStr b => True
  | TVec e, VSeq l | TList e, VSeq l =>
      (fix go (l : list val) : Prop := match l with [] => True | x :: r => wf e x /\ small (ssize e x) /\ go r end) l
  | TSet e, VSeq l =>   (* pairwise different elements (as the parser will see them) *)
      (fix go (l : list val) : Prop := match l with [] => True | x :: r => wf e x /\ small (ssize e x) /\ go r end) l
      /\ NoDup (map (norm e) l)
  | TArr n e, VSeq l =>
      length l = n /\
      (fix go (l : list val) : Prop := match l with [] => True | x :: r => wf e x /\ small (ssize e x) /\ go r end) l
  | TMap k w, VSeq l =>
      (fix go (l : list val) : Prop :=
         match l with
         | [] => True
         | VSeq [a; b] :: r => wf k a /\ small (ssize k a) /\ wf w b /\ small (ssize w b) /\ go r
         | _ :: _ => False
         end) l
      /\ NoDup (map (fun p => norm k (entry_key p)) l)   (* pairwise different keys *)
  | TPtr _ e, VNull => True
  | TPtr _ e, VSome x => wf e x
  | TAgg fs, VSeq l =>
      (fix go (fs : list (Z * ty)) (l : list val) {struct fs} : Prop :=
         match fs, l with
         | [], [] => True
         | (_, ft) :: fs', x :: l' => wf ft x /\ small (ssize ft x) /\ go fs' l'
         | _, _ => False
         end) fs l
  | _, _ => False
  end.

Definition welems (e : ty) (l : list val) : Prop := Forall (fun x => wf e x /\ small (ssize e x)) l.
Lemma wf_elems : forall e l,
  (fix go (l : list val) : Prop := match l with [] => True | x :: r => wf e x /\ small (ssize e x) /\ go r end) l
  <-> welems e l.
Proof.
  intros e l. unfold welems. induction l as [|x r IH]; split; intro H.
  - constructor. - exact I.
  - destruct H as (A & B & C). constructor; [auto|]. apply IH. exact C.
  - inversion H as [|? ? [A B] C]; subst. split; [auto|]. split; [auto|]. apply IH. exact C.
Qed.

(* ---------- sizes ---------- *)
Lemma sumZ_app : forall a b, sumZ (a ++ b) = sumZ a + sumZ b.
Proof. induction a; intros; cbn. reflexivity. unfold sumZ in *. cbn. rewrite IHa. lia. Qed.

Lemma le_bytes_length : forall n z, length (le_bytes n z) = n.
Proof. induction n; intros; cbn; auto. Qed.

Lemma u32_range : forall z, 0 <= u32 z < 2 ^ 64.
Proof. intros. unfold u32. pose proof (Z.mod_pos_bound z (2 ^ 32)). lia. Qed.
Lemma u64_range : forall z, 0 <= u64 z < 2 ^ 64.
Proof. intros. unfold u64. pose proof (Z.mod_pos_bound z (2 ^ 64)). lia. Qed.

(* ---------- the scalar traits with the widths they must have (C++ value semantics: intN/uintN/bool through the
   32 bit varint path, int64/uint64 and every enum through the 64 bit path, float/double as 4/8 bytes); the model
   uses the widths regenerated from scalar.h, these lemmas fail as soon as one of them is narrowed ---------- *)
Definition wide (k : sk) : bool :=
  match k with KI64 | KU64 | KEnum | KE8 | KEU8 | KEU32 | KE64 | KEU64 => true | _ => false end.
Lemma sk_encode_spec : forall k z, sk_encode k z =
  match k with KF32 => le_bytes 4 z | KF64 => le_bytes 8 z | _ => if wide k then varint (u64 z) else varint (u32 z) end.
Proof. destruct k; reflexivity. Qed.
Lemma sk_size_spec : forall k z, sk_size k z =
  match k with KF32 => 4 | KF64 => 8 | _ => if wide k then pb_varint_size (u64 z) else pb_varint_size (u32 z) end.
Proof. destruct k; reflexivity. Qed.
Lemma dec_scalar_spec : forall k s cur, dec_scalar k s cur =
  match k with
  | KF32 => match read_fixed 4 s with Some (v, s') => Ok (VInt (sk_cast k v)) s' | None => Fail end
  | KF64 => match read_fixed 8 s with Some (v, s') => Ok (VInt (sk_cast k v)) s' | None => Fail end
  | _ => match read_varint s with
         | VOk v s' => Ok (VInt (sk_cast k (if wide k then u64 v else u32 v))) s'
         | _ => Fail end
  end.
Proof. destruct k; reflexivity. Qed.

Lemma sk_size_exact : forall k z, sk_size k z = Z.of_nat (length (sk_encode k z)).
Proof.
  intros. rewrite sk_size_spec, sk_encode_spec. destruct k; cbn [wide];
    try (rewrite varint_length_pb; [reflexivity|apply u32_range]);
    try (rewrite varint_length_pb; [reflexivity|apply u64_range]);
    rewrite le_bytes_length; reflexivity.
Qed.

Lemma packed_length : forall e sz body, 0 <= sz < 2 ^ 64 -> sz = Z.of_nat (length body) ->
  packed_size e sz = Z.of_nat (length (packed e sz body)).
Proof.
  intros. unfold packed_size, packed. destruct (is_ld e).
  - rewrite app_length, Nat2Z.inj_add, varint_length_bb by auto. lia.
  - cbn. auto.
Qed.

Lemma skipped_same : forall sz, field_skipped sz = size_field_skipped sz.
Proof. intros. reflexivity. Qed.

Lemma tag_range : forall num t, 0 <= num < 2 ^ 29 -> 0 <= tag_of num t < 2 ^ 32.
Proof.
  intros. unfold tag_of, tag_base.
  assert (0 <= wire t < 8).
  { induction t; cbn; try lia. destruct k; cbn; lia. }
  rewrite Z.shiftl_mul_pow2 by lia.
  assert (Hd : Z.lor (num * 2 ^ 3) (wire t) = num * 2 ^ 3 + wire t).
  { rewrite <- Z.lxor_lor. 2:{ apply Z.bits_inj'. intros n Hn. rewrite Z.land_spec, Z.bits_0.
      destruct (Z.ltb_spec n 3).
      - rewrite Z.mul_pow2_bits_low by lia. reflexivity.
      - rewrite (Z.bits_above_log2 (wire t)). apply andb_false_r. lia.
        destruct (Z.eq_dec (wire t) 0) as [->|]. cbn. lia.
        apply Z.log2_lt_pow2; try lia. apply Z.lt_le_trans with (2 ^ 3). lia. apply Z.pow_le_mono_r; lia. }
    symmetry. apply Z.add_nocarry_lxor. apply Z.bits_inj'. intros n Hn. rewrite Z.land_spec, Z.bits_0.
    destruct (Z.ltb_spec n 3).
    - rewrite Z.mul_pow2_bits_low by lia. reflexivity.
    - rewrite (Z.bits_above_log2 (wire t)). apply andb_false_r. lia.
      destruct (Z.eq_dec (wire t) 0) as [->|]. cbn. lia.
      apply Z.log2_lt_pow2; try lia. apply Z.lt_le_trans with (2 ^ 3). lia. apply Z.pow_le_mono_r; lia. }
  rewrite Hd. lia.
Qed.


Lemma wire_range : forall t, 0 <= wire t < 8.
Proof. induction t; cbn; try lia. destruct k; cbn; lia. Qed.

Lemma tag_of_add : forall num t, 0 <= num -> tag_of num t = num * 8 + wire t.
Proof.
  intros. unfold tag_of, tag_base. pose proof (wire_range t).
  rewrite Z.shiftl_mul_pow2 by lia. change (2 ^ 3) with 8.
  assert (Hl : Z.land (num * 8) (wire t) = 0).
  { apply Z.bits_inj'. intros n Hn. rewrite Z.land_spec, Z.bits_0.
    destruct (Z.ltb_spec n 3).
    - change 8 with (2 ^ 3). rewrite Z.mul_pow2_bits_low by lia. reflexivity.
    - rewrite (Z.bits_above_log2 (wire t)). apply andb_false_r. lia.
      destruct (Z.eq_dec (wire t) 0) as [->|]. cbn. lia.
      apply Z.log2_lt_pow2; try lia. apply Z.lt_le_trans with (2 ^ 3). lia. apply Z.pow_le_mono_r; lia. }
  rewrite <- Z.lxor_lor by exact Hl. symmetry. apply Z.add_nocarry_lxor. exact Hl.
Qed.

(* ---------- admissible types ---------- *)
Definition elem_ok (e : ty) : bool := match e with TPtr _ _ => is_ld e | _ => true end.
(* no smart pointer inside (the size of such a TRIVIAL type really is independent of the value) *)
Fixpoint ptr_free (t : ty) : bool :=
  match t with
  | TPtr _ _ => false
  | TAgg fs => forallb (fun p => ptr_free (snd p)) fs
  | _ => true
  end.
Fixpoint ty_ok (t : ty) : Prop :=
  match t with
  | TS _ | TStr => True
  | TVec e | TList e | TSet e | TArr _ e => elem_ok e = true /\ ty_ok e
  | TMap k v => elem_ok k = true /\ elem_ok v = true /\ ty_ok k /\ ty_ok v
  | TPtr _ e => ty_ok e
  | TAgg fs => NoDup (map fst fs) /\
               (fix go (fs : list (Z * ty)) : Prop :=
                  match fs with [] => True | p :: r => 0 < fst p < 2 ^ 29 /\ ty_ok (snd p) /\ go r end) fs
  end.
Definition fields_ok (fs : list (Z * ty)) : Prop := Forall (fun p => 0 < fst p < 2 ^ 29 /\ ty_ok (snd p)) fs.
Lemma ty_ok_fields : forall fs,
  (fix go (fs : list (Z * ty)) : Prop :=
     match fs with [] => True | p :: r => 0 < fst p < 2 ^ 29 /\ ty_ok (snd p) /\ go r end) fs <-> fields_ok fs.
Proof.
  unfold fields_ok. induction fs as [|p r IH]; split; intro H.
  - constructor. - exact I.
  - destruct H as (A & B & C). constructor; [auto|]. apply IH, C.
  - inversion H as [|? ? [A B] C]; subst. split; [auto|]. split; [auto|]. apply IH, C.
Qed.

(* ---------- TRIVIAL types without pointers have one size ---------- *)
Fixpoint tsize (t : ty) : Z :=
  match t with
  | TS KF32 => 4
  | TS KF64 => 8
  | TAgg fs => (fix go (fs : list (Z * ty)) : Z :=
                  match fs with [] => 0 | p :: r => field_size (fst p) (snd p) (tsize (snd p)) + go r end) fs
  | _ => 0
  end.
(* since 8a146e9 a smart pointer is never TRIVIAL: TRIVIAL types hide no pointer *)
Lemma trivial_ptr_free : forall t, trivial t = true -> ptr_free t = true.
Proof.
  induction t using ty_ind'; intros Ht; try reflexivity.
  - destruct sh; discriminate.
  - cbn [trivial ptr_free] in *. induction H as [|p fs Hp _ IH]; [reflexivity|].
    cbn [forallb] in *. apply andb_prop in Ht. destruct Ht as [T1 T2]. rewrite (Hp T1), (IH T2). reflexivity.
Qed.
Lemma trivial_size : forall t, trivial t = true -> ptr_free t = true -> forall x, wf t x -> ssize t x = tsize t.
Proof.
  induction t using ty_ind'; intros Ht Hp x Hwf; try (cbn in Ht; discriminate); try (cbn in Hp; discriminate).
  - destruct x; cbn [wf] in Hwf; try contradiction. cbn [ssize]. rewrite sk_size_spec.
    destruct k; cbn in Ht; try discriminate; reflexivity.
  - destruct x; cbn [wf] in Hwf; try contradiction. cbn [trivial ptr_free] in Ht, Hp. cbn [ssize tsize].
    revert l Hwf. induction H as [|[n ft] fs Hft _ IH]; intros l Hwf; destruct l as [|x l]; try contradiction; [reflexivity|].
    cbn [forallb snd] in Ht, Hp. apply andb_prop in Ht. apply andb_prop in Hp. destruct Ht as [T1 T2], Hp as [P1 P2].
    destruct Hwf as (Wx & _ & Wr). cbn [fst snd] in *. rewrite (Hft T1 P1 x Wx). f_equal. apply IH; auto.
Qed.
Lemma vec_size_shortcut : forall e l, trivial e = true -> ptr_free e = true -> welems e l ->
  Z.of_nat (length l) * packed_size e (ssize e (hd (VSeq []) l)) = sumZ (map (fun x => packed_size e (ssize e x)) l).
Proof.
  intros e l Ht Hp Hl. destruct l as [|x0 l]; [reflexivity|]. cbn [hd].
  assert (H0 : ssize e x0 = tsize e) by (inversion Hl as [|? ? [W _] _]; subst; apply trivial_size; auto).
  rewrite H0. clear H0. induction Hl as [|x r [Hx _] _ IH]; [reflexivity|].
  cbn [length map]. change (sumZ (?a :: ?b)) with (a + sumZ b). rewrite <- IH.
  rewrite (trivial_size e Ht Hp x Hx). rewrite Nat2Z.inj_succ. lia.
Qed.

(* ---------- the predicted size is the number of bytes written ---------- *)
Definition size_ok (t : ty) : Prop := forall v, ty_ok t -> wf t v -> ssize t v = Z.of_nat (length (encode t v)).

Lemma seq_size_exact : forall e l, size_ok e -> ty_ok e -> welems e l ->
  sumZ (map (fun x => packed_size e (ssize e x)) l) =
  Z.of_nat (length (flat_map (fun x => packed e (ssize e x) (encode e x)) l)).
Proof.
  intros e l He Hok Hl. induction Hl as [|x r [Hx Hs] _ IH]; cbn. reflexivity.
  rewrite app_length, Nat2Z.inj_add, <- IH. f_equal.
  pose proof (He x Hok Hx) as E. apply packed_length; [|exact E]. unfold small in Hs. lia.
Qed.

Lemma field_length : forall num t sz body, 0 < num < 2 ^ 29 -> 0 <= sz < 2 ^ 64 -> sz = Z.of_nat (length body) ->
  field_size num t sz = Z.of_nat (length (field num t sz body)).
Proof.
  intros. unfold field_size, field. rewrite <- skipped_same. destruct (field_skipped sz). reflexivity.
  pose proof (tag_range num t). rewrite !app_length, !Nat2Z.inj_add, varint_length_bb by lia.
  destruct (is_ld t).
  - rewrite varint_length_bb by lia. lia.
  - cbn. lia.
Qed.

Theorem size_exact : forall t, size_ok t.
Proof.
  induction t using ty_ind'; intros v Hok Hwf; destruct v; cbn [wf] in Hwf; try contradiction.
  - apply sk_size_exact.
  - reflexivity.
  - destruct Hok as [Hel Hok]. apply wf_elems in Hwf. cbn [ssize encode].
    destruct (trivial t) eqn:Tr; [rewrite vec_size_shortcut by auto using trivial_ptr_free|]; apply seq_size_exact; auto.
  - destruct Hok. apply wf_elems in Hwf. cbn [ssize encode]. apply seq_size_exact; auto.
  - destruct Hok. destruct Hwf as [Hwf _]. apply wf_elems in Hwf. cbn [ssize encode]. apply seq_size_exact; auto.
  - (* map *)
    destruct Hok as (_ & _ & Hk & Hv). cbn [ssize encode]. destruct Hwf as [Hwf _].
    induction l as [|p r IH]. reflexivity.
    destruct p as [| |[|a [|b [|]]]| |]; try contradiction.
    destruct Hwf as (Wa & Sa & Wb & Sb & Hr).
    cbn [map flat_map]. change (sumZ (?x :: ?y)) with (x + sumZ y).
    rewrite !app_length, !Nat2Z.inj_add, <- IH by exact Hr.
    rewrite <- (packed_length t1 (ssize t1 a) (encode t1 a)), <- (packed_length t2 (ssize t2 b) (encode t2 b)).
    lia.
    + pose proof (IHt2 b Hv Wb). unfold small in Sb. lia.
    + apply IHt2; auto.
    + pose proof (IHt1 a Hk Wa). unfold small in Sa. lia.
    + apply IHt1; auto.
  - destruct Hok as [Hel Hok]. destruct Hwf as [_ Hwf]. apply wf_elems in Hwf. cbn [ssize encode].
    destruct (trivial t) eqn:Tr; [rewrite vec_size_shortcut by auto using trivial_ptr_free|]; apply seq_size_exact; auto.
  - cbn. reflexivity.
  - cbn [ssize encode]. apply IHt; auto.
  - (* aggregate *)
    destruct Hok as [_ Hf]. apply ty_ok_fields in Hf. cbn [ssize encode].
    revert l Hwf. induction fs as [|[num ft] fs IH]; intros l Hwf.
    + reflexivity.
    + destruct l as [|x l]; [contradiction|]. destruct Hwf as (Wx & Sx & Hr).
      inversion H as [|? ? Hft Hrest]; subst. inversion Hf as [|? ? [Hn Hokft] Hfr]; subst. cbn [fst snd] in *.
      rewrite app_length, Nat2Z.inj_add, <- (IH Hrest Hfr l Hr).
      f_equal. pose proof (Hft x Hokft Wx). apply field_length; auto. unfold small in Sx. lia.
Qed.


Definition S0 (w : list Z) : stream := mkS w (Some 0%nat).

Lemma read_varint_ok : forall n post ext, 0 <= n < 2 ^ 64 ->
  read_varint (mkS (varint n ++ post) ext) = VOk n (mkS post ext).
Proof. intros. unfold read_varint. cbn [win]. rewrite get_varint_varint by auto. reflexivity. Qed.

Lemma le_val_bytes : forall n z, 0 <= z < 256 ^ Z.of_nat n -> le_val (le_bytes n z) = z.
Proof.
  induction n; intros z H.
  - cbn in *. lia.
  - rewrite Nat2Z.inj_succ, Z.pow_succ_r in H by lia. cbn [le_bytes le_val]. rewrite IHn.
    + pose proof (Z.div_mod z 256). lia.
    + split. apply Z.div_pos; lia. apply Z.div_lt_upper_bound; lia.
Qed.

Lemma firstn_app_exact : forall (a b : list Z), firstn (length a) (a ++ b) = a.
Proof. intros. rewrite firstn_app, Nat.sub_diag, firstn_O, app_nil_r, firstn_all. reflexivity. Qed.
Lemma skipn_app_exact : forall (a b : list Z), skipn (length a) (a ++ b) = b.
Proof. intros. rewrite skipn_app, Nat.sub_diag, skipn_O, skipn_all. reflexivity. Qed.

Lemma read_fixed_ok : forall n z post ext, 0 <= z < 256 ^ Z.of_nat n ->
  read_fixed n (mkS (le_bytes n z ++ post) ext) = Some (z, mkS post ext).
Proof.
  intros. unfold read_fixed. cbn [win]. rewrite app_length, le_bytes_length.
  replace (n <=? n + length post)%nat with true by (symmetry; apply Nat.leb_le; lia).
  pose proof (firstn_app_exact (le_bytes n z) post) as F. pose proof (skipn_app_exact (le_bytes n z) post) as K.
  rewrite le_bytes_length in F, K. rewrite F, K, le_val_bytes by auto. reflexivity.
Qed.

Lemma swrap_id : forall b z, 0 < b -> - 2 ^ (b - 1) <= z < 2 ^ (b - 1) -> swrap b (z mod 2 ^ b) = z.
Proof.
  intros b z Hb H. unfold swrap.
  assert (E : 2 ^ b = 2 * 2 ^ (b - 1)).
  { replace b with (Z.succ (b - 1)) at 1 by lia. rewrite Z.pow_succ_r by lia. reflexivity. }
  rewrite Zplus_mod_idemp_l.
  replace ((z + 2 ^ (b - 1)) mod 2 ^ b) with (z + 2 ^ (b - 1)). lia.
  symmetry. apply Z.mod_small. lia.
Qed.

Lemma mod_mod_le : forall z a b, 0 <= a <= b -> (z mod 2 ^ b) mod 2 ^ a = z mod 2 ^ a.
Proof.
  intros. symmetry. apply Zmod_div_mod; try (apply Z.pow_pos_nonneg; lia).
  exists (2 ^ (b - a)). rewrite <- Z.pow_add_r by lia. f_equal. lia.
Qed.

Lemma swrap_mod_le : forall a b z, 0 < a <= b -> - 2 ^ (a - 1) <= z < 2 ^ (a - 1) -> swrap a (z mod 2 ^ b) = z.
Proof.
  intros. unfold swrap. rewrite <- Zplus_mod_idemp_l, mod_mod_le by lia. rewrite Zplus_mod_idemp_l.
  fold (swrap a z). rewrite <- (swrap_id a z) at 2 by lia. unfold swrap. rewrite Zplus_mod_idemp_l. reflexivity.
Qed.

Lemma sk_cast_rt32 : forall k z, in_range k z ->
  if wide k then True else match k with KF32 | KF64 => True | _ => sk_cast k (u32 (u32 z)) = z end.
Proof.
  intros k z H. unfold u32. destruct k; cbn [wide in_range sk_cast] in *; auto; rewrite ?Z.mod_mod by lia.
  - assert (z = 0 \/ z = 1) as [->| ->] by lia; reflexivity.
  - apply (swrap_mod_le 8 32); lia.
  - apply (swrap_mod_le 16 32); lia.
  - apply (swrap_mod_le 32 32); lia.
  - rewrite (mod_mod_le z 8 32) by lia. apply Z.mod_small. lia.
  - rewrite (mod_mod_le z 16 32) by lia. apply Z.mod_small. lia.
  - apply Z.mod_small. lia.
Qed.

Lemma sk_cast_rt64 : forall k z, in_range k z ->
  if wide k then sk_cast k (u64 (u64 z)) = z else True.
Proof.
  intros k z H. unfold u64. destruct k; cbn [wide in_range sk_cast] in *; auto; rewrite ?Z.mod_mod by lia.
  - apply (swrap_mod_le 64 64); lia.
  - apply Z.mod_small. lia.
  - apply (swrap_mod_le 32 64); lia.
  - apply (swrap_mod_le 8 64); lia.
  - rewrite (mod_mod_le z 8 64) by lia. apply Z.mod_small. lia.
  - rewrite (mod_mod_le z 32 64) by lia. apply Z.mod_small. lia.
  - apply (swrap_mod_le 64 64); lia.
  - apply Z.mod_small. lia.
Qed.

Lemma dec_scalar_rt : forall k z post ext cur, in_range k z ->
  dec_scalar k (mkS (sk_encode k z ++ post) ext) cur = Ok (VInt z) (mkS post ext).
Proof.
  intros k z post ext cur H.
  pose proof (sk_cast_rt32 k z H) as C32. pose proof (sk_cast_rt64 k z H) as C64.
  rewrite dec_scalar_spec, sk_encode_spec.
  destruct k; cbn [wide] in *;
    try (rewrite read_varint_ok by apply u32_range; rewrite C32; reflexivity);
    try (rewrite read_varint_ok by apply u64_range; rewrite C64; reflexivity).
  - cbn [in_range] in H. rewrite read_fixed_ok by (change (256 ^ Z.of_nat 4) with (2 ^ 32); lia).
    cbn [sk_cast]. rewrite Z.mod_small by lia. reflexivity.
  - cbn [in_range] in H. rewrite read_fixed_ok by (change (256 ^ Z.of_nat 8) with (2 ^ 64); lia).
    cbn [sk_cast]. rewrite Z.mod_small by lia. reflexivity.
Qed.

Lemma sk_encode_nonempty : forall k z, sk_encode k z <> [].
Proof. intros. rewrite sk_encode_spec. destruct k; cbn [wide]; try apply varint_nonempty; discriminate. Qed.

(* ---------- limits ---------- *)
Lemma with_limit_exact : forall body post d cur v,
  d (S0 body) cur = Ok v (S0 []) ->
  with_limit (Z.of_nat (length body)) (S0 (body ++ post)) d cur = Ok v (S0 post).
Proof.
  intros body post d cur v Hd. unfold with_limit, S0. cbn [win ext].
  replace (0 <=? Z.of_nat (length body)) with true by (symmetry; apply Z.leb_le; lia). cbn [andb].
  rewrite Nat.add_0_r, app_length, Nat2Z.id.
  destruct post as [|p post].
  - rewrite Nat.add_0_r. replace (Z.of_nat (length body) <? Z.of_nat (length body)) with false
      by (symmetry; apply Z.ltb_ge; lia).
    rewrite app_nil_r. exact Hd.
  - replace (Z.of_nat (length body) <? Z.of_nat (length body + length (p :: post))) with true
      by (symmetry; apply Z.ltb_lt; cbn [length]; lia).
    rewrite firstn_app_exact.
    replace (length body - (length body + length (p :: post)))%nat with 0%nat by lia.
    fold (S0 body). rewrite Hd. cbn [win]. rewrite skipn_app_exact. reflexivity.
Qed.

Section RT.
Variable nd : bool.

Lemma dec_len_ok : forall lim fr d sz body post cur v, (forall x, lim x = swrap 32 x) ->
  sz = Z.of_nat (length body) -> sz < 2 ^ 31 ->
  d (S0 body) cur = Ok v (S0 []) ->
  dec_len lim fr d (S0 (varint sz ++ body ++ post)) cur = Ok v (S0 post).
Proof.
  intros lim fr d sz body post cur v Hlim Hsz Hs Hd. unfold dec_len.
  unfold S0 at 1. rewrite read_varint_ok by lia. rewrite Hlim.
  replace (swrap 32 (u32 sz)) with sz.
  - subst sz. apply with_limit_exact. exact Hd.
  - unfold u32. symmetry. apply (swrap_mod_le 32 32); lia.
Qed.
Lemma packed_limit_swrap : forall x, packed_limit_of_length x = swrap 32 x.
Proof. reflexivity. Qed.
Lemma field_limit_swrap : forall x, field_limit_of_length x = swrap 32 x.
Proof. reflexivity. Qed.

Lemma dec_packed_ld : forall e d sz body post cur v, is_ld e = true ->
  sz = Z.of_nat (length body) -> sz < 2 ^ 31 ->
  d (S0 body) cur = Ok v (S0 []) ->
  dec_packed e d (S0 (packed e sz body ++ post)) cur = Ok v (S0 post).
Proof.
  intros e d sz body post cur v Hld Hsz Hs Hd. unfold dec_packed, packed. rewrite Hld.
  rewrite <- app_assoc. apply dec_len_ok; auto.
Qed.

Lemma dec_packed_nld : forall e d sz body post cur v, is_ld e = false ->
  d (S0 (body ++ post)) cur = Ok v (S0 post) ->
  dec_packed e d (S0 (packed e sz body ++ post)) cur = Ok v (S0 post).
Proof. intros. unfold dec_packed, packed. rewrite H. cbn [app]. exact H0. Qed.

Lemma packed_nonempty : forall e sz body, (is_ld e = false -> body <> []) -> packed e sz body <> [].
Proof.
  intros. unfold packed. destruct (is_ld e).
  - intro E. apply app_eq_nil in E. destruct E as [E _]. exact (varint_nonempty _ E).
  - cbn. auto.
Qed.

(* ---------- element loops over a concatenation of self-contained pieces ---------- *)
Definition piece_ok (d : dec) (dv : val) (pc : list Z) (v : val) : Prop :=
  pc <> [] /\ forall rest, d (S0 (pc ++ rest)) dv = Ok v (S0 rest).

Lemma seq_loop_pieces : forall cond d dv pcs vals,
  (forall w, cond (S0 w) = match w with [] => false | _ => true end) ->
  Forall2 (piece_ok d dv) pcs vals ->
  forall fuel acc, (length (concat pcs) < fuel)%nat ->
  seq_loop cond d dv (fun x acc => acc ++ [x]) fuel (S0 (concat pcs)) acc = Ok (VSeq (acc ++ vals)) (S0 []).
Proof.
  intros cond d dv pcs vals Hc HF. induction HF as [|pc v pcs vals [Hne Hpc] _ IH]; intros fuel acc Hfuel.
  - destruct fuel; [cbn in Hfuel; lia|]. cbn [seq_loop concat]. rewrite Hc, app_nil_r. reflexivity.
  - destruct fuel; [lia|]. cbn [seq_loop concat]. rewrite Hc.
    destruct (pc ++ concat pcs) eqn:E; [apply app_eq_nil in E; destruct E; contradiction|]. rewrite <- E.
    rewrite Hpc. unfold shorter, S0. cbn [win].
    replace (length (concat pcs) <? length (pc ++ concat pcs))%nat with true.
    + fold (S0 (concat pcs)). rewrite IH. rewrite <- app_assoc. reflexivity.
      cbn [concat] in Hfuel. rewrite app_length in Hfuel. destruct pc; [contradiction|]. cbn in Hfuel. lia.
    + symmetry. apply Nat.ltb_lt. rewrite app_length. destruct pc; [contradiction|]. cbn. lia.
Qed.

Lemma arr_go_pieces : forall d dv pcs vals,
  Forall2 (piece_ok d dv) pcs vals ->
  arr_go d (S0 (concat pcs)) (repeat dv (length pcs)) = Ok (VSeq vals) (S0 []).
Proof.
  intros d dv pcs vals HF. induction HF as [|pc v pcs vals [Hne Hpc] _ IH].
  - reflexivity.
  - cbn [length repeat arr_go concat]. rewrite Hpc, IH. reflexivity.
Qed.
End RT.


(* the pointer deserializers test for a readable byte (regenerated guard), on every kind of stream *)
Lemma ptr_guard_eq : forall (sh : bool) s, ptr_guard (if sh then sptr_guard_kind else uptr_guard_kind) s = has_data s.
Proof. intros. destruct sh; reflexivity. Qed.

Lemma cond_data_nil : has_data (S0 []) = false.
Proof. reflexivity. Qed.

(* ---------- value equality, hash containers ---------- *)
Section ValInd.
  Variable P : val -> Prop.
  Hypothesis HI : forall z, P (VInt z).
  Hypothesis HSt : forall b, P (VStr b).
  Hypothesis HSq : forall l, Forall P l -> P (VSeq l).
  Hypothesis HN : P VNull.
  Hypothesis HSo : forall v, P v -> P (VSome v).
  Fixpoint val_ind' (v : val) : P v :=
    match v with
    | VInt z => HI z
    | VStr b => HSt b
    | VSeq l => HSq l ((fix go (l : list val) : Forall P l :=
                          match l with [] => Forall_nil _ | x :: r => Forall_cons x (val_ind' x) (go r) end) l)
    | VNull => HN
    | VSome x => HSo x (val_ind' x)
    end.
End ValInd.

Lemma list_eqb_Z_true : forall x y, list_eqb Z.eqb x y = true -> x = y.
Proof.
  induction x as [|a x IH]; destruct y as [|b y]; cbn; intros H; try discriminate; auto.
  apply andb_prop in H. destruct H as [H1 H2]. apply Z.eqb_eq in H1. f_equal; auto.
Qed.

Lemma val_eqb_true : forall a b, val_eqb a b = true -> a = b.
Proof.
  induction a using val_ind'; intros b0 E; destruct b0; cbn [val_eqb] in E; try discriminate.
  - apply Z.eqb_eq in E. congruence.
  - apply list_eqb_Z_true in E. congruence.
  - f_equal. revert l0 E. induction H as [|x l Hx Hl IH]; intros l0 E; destruct l0 as [|y l0]; try discriminate; auto.
    apply andb_prop in E. destruct E as [E1 E2]. f_equal; auto.
  - reflexivity.
  - f_equal. auto.
Qed.

Lemma set_add_fresh : forall x acc, ~ In x acc -> set_add x acc = acc ++ [x].
Proof.
  intros x acc H. unfold set_add. destruct (existsb (val_eqb x) acc) eqn:E; [|reflexivity].
  exfalso. apply existsb_exists in E. destruct E as (y & Hy & E). apply val_eqb_true in E. subst. contradiction.
Qed.

Lemma map_add_fresh : forall k v acc, ~ In k (map entry_key acc) -> map_add k v acc = acc ++ [VSeq [k; v]].
Proof.
  intros k v acc H. unfold map_add. destruct (existsb (fun p => val_eqb k (entry_key p)) acc) eqn:E; [|reflexivity].
  exfalso. apply existsb_exists in E. destruct E as (y & Hy & E). apply val_eqb_true in E. subst.
  apply H. apply in_map. exact Hy.
Qed.

Lemma seq_loop_pieces_set : forall cond d dv pcs vals,
  (forall w, cond (S0 w) = match w with [] => false | _ => true end) ->
  Forall2 (piece_ok d dv) pcs vals ->
  forall fuel acc, NoDup (acc ++ vals) -> (length (concat pcs) < fuel)%nat ->
  seq_loop cond d dv set_add fuel (S0 (concat pcs)) acc = Ok (VSeq (acc ++ vals)) (S0 []).
Proof.
  intros cond d dv pcs vals Hc HF. induction HF as [|pc v pcs vals [Hne Hpc] _ IH]; intros fuel acc Hnd Hfuel.
  - destruct fuel; [cbn in Hfuel; lia|]. cbn [seq_loop concat]. rewrite Hc, app_nil_r. reflexivity.
  - destruct fuel; [lia|]. cbn [seq_loop concat]. rewrite Hc.
    destruct (pc ++ concat pcs) eqn:E; [apply app_eq_nil in E; destruct E; contradiction|]. rewrite <- E.
    rewrite Hpc. unfold shorter, S0. cbn [win].
    replace (length (concat pcs) <? length (pc ++ concat pcs))%nat with true.
    + fold (S0 (concat pcs)). rewrite set_add_fresh.
      * rewrite IH. rewrite <- app_assoc. reflexivity.
        rewrite <- app_assoc. exact Hnd.
        cbn [concat] in Hfuel. rewrite app_length in Hfuel. destruct pc; [contradiction|]. cbn in Hfuel. lia.
      * apply NoDup_remove_2 in Hnd. intro Hin. apply Hnd. apply in_or_app. left. exact Hin.
    + symmetry. apply Nat.ltb_lt. rewrite app_length. destruct pc; [contradiction|]. cbn. lia.
Qed.

Definition mk_entry (kv : val * val) : val := VSeq [fst kv; snd kv].

Lemma map_loop_pieces : forall dk dw dvk dvw pps kvs,
  Forall2 (fun (pp : list Z * list Z) (kv : val * val) =>
             piece_ok dk dvk (fst pp) (fst kv) /\ piece_ok dw dvw (snd pp) (snd kv)) pps kvs ->
  forall fuel acc, NoDup (map entry_key acc ++ map fst kvs) ->
  (length (concat (map (fun pp => fst pp ++ snd pp) pps)) < fuel)%nat ->
  map_loop dk dw dvk dvw fuel (S0 (concat (map (fun pp => fst pp ++ snd pp) pps))) acc
  = Ok (VSeq (acc ++ map mk_entry kvs)) (S0 []).
Proof.
  intros dk dw dvk dvw pps kvs HF. induction HF as [|[pk pv] [k w] pps kvs [[Hnk Hpk] [Hnw Hpw]] _ IH];
    intros fuel acc Hnd Hfuel.
  - destruct fuel; [cbn in Hfuel; lia|]. cbn [map_loop map concat]. rewrite cond_data_nil, app_nil_r. reflexivity.
  - destruct fuel; [lia|]. cbn [map_loop map concat fst snd] in *.
    assert (Hd : has_data (S0 ((pk ++ pv) ++ concat (map (fun pp => fst pp ++ snd pp) pps))) = true).
    { destruct pk; [contradiction|]. reflexivity. }
    rewrite Hd. rewrite <- app_assoc. rewrite Hpk, Hpw. unfold shorter, S0. cbn [win].
    replace (length (concat (map (fun pp => fst pp ++ snd pp) pps)) <? _)%nat with true.
    + fold (S0 (concat (map (fun pp => fst pp ++ snd pp) pps))). rewrite map_add_fresh.
      * rewrite IH. rewrite <- app_assoc. reflexivity.
        rewrite map_app, <- app_assoc. cbn. exact Hnd.
        rewrite !app_length in Hfuel. destruct pk; [contradiction|]. cbn in Hfuel. lia.
      * apply NoDup_remove_2 in Hnd. intro Hin. apply Hnd. apply in_or_app. left. exact Hin.
    + symmetry. apply Nat.ltb_lt. rewrite !app_length. destruct pk; [contradiction|]. cbn. lia.
Qed.

(* types without hash containers (used by the success-stability theorem) *)
Fixpoint no_hash (t : ty) : Prop :=
  match t with
  | TS _ | TStr => True
  | TVec e | TList e | TArr _ e | TPtr _ e => no_hash e
  | TSet _ | TMap _ _ => False
  | TAgg fs => (fix go (fs : list (Z * ty)) : Prop := match fs with [] => True | p :: r => no_hash (snd p) /\ go r end) fs
  end.
Lemma no_hash_fields : forall fs,
  (fix go (fs : list (Z * ty)) : Prop := match fs with [] => True | p :: r => no_hash (snd p) /\ go r end) fs
  <-> Forall (fun p => no_hash (snd p)) fs.
Proof.
  induction fs as [|p r IH]; split; intro H.
  - constructor. - exact I.
  - destruct H. constructor; auto. apply IH; auto.
  - inversion H; subst. split; auto. apply IH; auto.
Qed.

Fixpoint enc_fields (fs : list (Z * ty)) (l : list val) : list Z :=
  match fs, l with
  | (num, ft) :: fs', x :: l' => field num ft (ssize ft x) (encode ft x) ++ enc_fields fs' l'
  | _, _ => []
  end.
Fixpoint norm_fields (fs : list (Z * ty)) (l : list val) : list val :=
  match fs, l with
  | (_, ft) :: fs', x :: l' => norm ft x :: norm_fields fs' l'
  | _, _ => []
  end.
Fixpoint wf_fields (fs : list (Z * ty)) (l : list val) : Prop :=
  match fs, l with
  | [], [] => True
  | (_, ft) :: fs', x :: l' => wf ft x /\ small (ssize ft x) /\ wf_fields fs' l'
  | _, _ => False
  end.
Lemma encode_agg : forall fs l, encode (TAgg fs) (VSeq l) = enc_fields fs l.
Proof. induction fs as [|[n ft] fs IH]; intros l; [reflexivity|]. destruct l; [reflexivity|]. cbn [enc_fields]. rewrite <- IH. reflexivity. Qed.
Lemma norm_agg : forall fs l, norm (TAgg fs) (VSeq l) = VSeq (norm_fields fs l).
Proof.
  intros. reflexivity.
Qed.
Lemma wf_agg : forall fs l, wf (TAgg fs) (VSeq l) <-> wf_fields fs l.
Proof.
  induction fs as [|[n ft] fs IH]; intros l; destruct l; cbn [wf wf_fields]; try tauto.
Qed.

Fixpoint nonnull (t : ty) (v : val) : Prop :=
  match t, v with
  | TPtr _ e, VSome x => nonnull e x
  | TPtr _ _, _ => False
  | _, _ => True
  end.

Lemma nld_cases : forall t, is_ld t = false -> (exists k, t = TS k) \/ (exists sh e, t = TPtr sh e /\ is_ld e = false).
Proof.
  intros t H. destruct t; try (cbn in H; discriminate).
  - left. eauto.
  - right. exists sh, t. split; auto.
Qed.

Lemma nld_nonempty : forall t v, is_ld t = false -> wf t v -> nonnull t v -> encode t v <> [].
Proof.
  induction t; intros v Hld Hwf Hnn; try (cbn in Hld; discriminate).
  - destruct v; cbn in Hwf; try contradiction. apply sk_encode_nonempty.
  - destruct v; cbn in Hnn; try contradiction. cbn [encode]. apply IHt; auto.
Qed.

Lemma nld_size_nonnull : forall t v, is_ld t = false -> wf t v -> ssize t v <> 0 -> nonnull t v.
Proof.
  induction t; intros v Hld Hwf Hs; try (cbn in Hld; discriminate).
  - exact I.
  - destruct v; cbn in Hwf; try contradiction.
    cbn. apply IHt; auto.
Qed.

Lemma length_zero_nil : forall (l : list Z), Z.of_nat (length l) = 0 -> l = [].
Proof. destruct l; cbn; intros; auto. lia. Qed.

Lemma map_entries : forall k w l,
  (fix go (l : list val) : Prop :=
     match l with
     | [] => True
     | VSeq [a; b] :: r => wf k a /\ small (ssize k a) /\ wf w b /\ small (ssize w b) /\ go r
     | _ :: _ => False
     end) l ->
  exists kvs, l = map mk_entry kvs /\
              Forall (fun kv => wf k (fst kv) /\ small (ssize k (fst kv)) /\ wf w (snd kv) /\ small (ssize w (snd kv))) kvs.
Proof.
  intros k w. induction l as [|p r IH]; intros H.
  - exists []. split; [reflexivity|constructor].
  - destruct p as [| |[|a [|b [|]]]| |]; try contradiction. destruct H as (Wa & Sa & Wb & Sb & Hr).
    destruct (IH Hr) as (kvs & -> & Hk). exists ((a, b) :: kvs). split; [reflexivity|]. constructor; auto.
Qed.
Lemma encode_map_entries : forall k w kvs, encode (TMap k w) (VSeq (map mk_entry kvs)) =
  concat (map (fun pp : list Z * list Z => fst pp ++ snd pp)
              (map (fun kv => (packed k (ssize k (fst kv)) (encode k (fst kv)),
                               packed w (ssize w (snd kv)) (encode w (snd kv)))) kvs)).
Proof.
  intros. cbn [encode]. induction kvs as [|[a b] kvs IH]; [reflexivity|].
  cbn [map flat_map concat mk_entry fst snd]. rewrite IH. reflexivity.
Qed.
Lemma norm_map_entries : forall k w kvs, norm (TMap k w) (VSeq (map mk_entry kvs)) =
  VSeq (map mk_entry (map (fun kv => (norm k (fst kv), norm w (snd kv))) kvs)).
Proof.
  intros. cbn [norm]. f_equal. induction kvs as [|[a b] kvs IH]; [reflexivity|].
  cbn [map mk_entry fst snd]. rewrite IH. reflexivity.
Qed.

Section RT2.
Variable nd : bool.

Definition RT (t : ty) : Prop := forall v, ty_ok t -> wf t v ->
  (is_ld t = true -> decode nd t (S0 (encode t v)) (dflt t) = Ok (norm t v) (S0 []))
  /\ (is_ld t = false -> nonnull t v ->
      forall post cur, decode nd t (S0 (encode t v ++ post)) cur = Ok (norm t v) (S0 post)).

Lemma elem_piece : forall e x, RT e -> elem_ok e = true -> ty_ok e -> wf e x -> small (ssize e x) ->
  piece_ok (dec_packed e (decode nd e)) (dflt e) (packed e (ssize e x) (encode e x)) (norm e x).
Proof.
  intros e x HRT Hel Hok Hwf Hs. destruct (HRT x Hok Hwf) as [A B].
  pose proof (size_exact e x Hok Hwf) as Hsz.
  destruct (is_ld e) eqn:Hld.
  - split. apply packed_nonempty. congruence.
    intros rest. apply dec_packed_ld; auto.
  - destruct (nld_cases e Hld) as [[k ->]|(sh & e' & -> & _)]; [|exfalso; unfold elem_ok in Hel; congruence].
    split. apply packed_nonempty. intros _. destruct x; cbn in Hwf; try contradiction. apply sk_encode_nonempty.
    intros rest. apply dec_packed_nld; auto.
Qed.

Lemma elems_pieces : forall e l, RT e -> elem_ok e = true -> ty_ok e -> welems e l ->
  Forall2 (piece_ok (dec_packed e (decode nd e)) (dflt e))
          (map (fun x => packed e (ssize e x) (encode e x)) l) (map (norm e) l).
Proof.
  intros e l HRT Hel Hok Hl. induction Hl as [|x r [Hx Hs] _ IH]; cbn; constructor; auto.
  apply elem_piece; auto.
Qed.

Lemma cond_vec : forall w, vec_loop_cond (bul (S0 w)) = match w with [] => false | _ => true end.
Proof.
  intros. unfold vec_loop_cond, bul, S0. cbn [ext win]. destruct w; cbn [length]. reflexivity.
  apply Z.gtb_lt. lia.
Qed.
Lemma cond_data : forall w, has_data (S0 w) = match w with [] => false | _ => true end.
Proof. intros. destruct w; reflexivity. Qed.

Lemma flat_map_concat : forall (A B : Type) (f : A -> list B) l, flat_map f l = concat (map f l).
Proof. intros. induction l; cbn; auto. rewrite IHl. reflexivity. Qed.

(* ---------- aggregates ---------- *)
Definition tbl (fs : list (Z * ty)) : list (Z * (Z -> dec)) :=
  map (fun p => (fst p, dec_field nd (snd p) (decode nd (snd p)))) fs.

Lemma find_field_nth : forall fs i num t k, NoDup (map fst fs) -> nth_error fs i = Some (num, t) ->
  find_field num (tbl fs) k = Some ((k + i)%nat, dec_field nd t (decode nd t)).
Proof.
  induction fs as [|[n' t'] fs IH]; intros i num t k Hnd Hn.
  - destruct i; discriminate.
  - cbn [tbl map find_field fst snd]. inversion Hnd as [|? ? Hnotin Hnd']; subst. destruct i.
    + cbn in Hn. inversion Hn; subst. rewrite Z.eqb_refl. rewrite Nat.add_0_r. reflexivity.
    + cbn in Hn. assert (n' <> num).
      { intros ->. apply Hnotin. apply nth_error_In in Hn. apply in_map_iff. exists (num, t). auto. }
      replace (n' =? num) with false by (symmetry; apply Z.eqb_neq; auto).
      fold (tbl fs). rewrite (IH i num t (S k)); auto. f_equal. f_equal. lia.
Qed.

Lemma tag_facts : forall num t, 0 < num < 2 ^ 29 ->
  u32 (tag_of num t) = tag_of num t /\ tag_field_number (tag_of num t) = num /\ tag_wire (tag_of num t) = wire t.
Proof.
  intros num t H. pose proof (tag_range num t). pose proof (wire_range t). rewrite tag_of_add in * by lia.
  split; [|split].
  - unfold u32. apply Z.mod_small. lia.
  - unfold tag_field_number. rewrite Z.shiftr_div_pow2 by lia. change (2 ^ 3) with 8.
    rewrite Z.div_add_l by lia. rewrite (Z.div_small (wire t)) by lia. lia.
  - unfold tag_wire. change 7 with (Z.ones 3). rewrite Z.land_ones by lia. change (2 ^ 3) with 8.
    rewrite Z.add_comm, Z.mod_add by lia. apply Z.mod_small. lia.
Qed.

Lemma has_data_app : forall a b, a <> [] -> has_data (S0 (a ++ b)) = true.
Proof. intros. destruct a; [contradiction|]. reflexivity. Qed.

Lemma upd_nth_app : forall (pre : list val) x y rest, upd_nth (length pre) y (pre ++ x :: rest) = pre ++ y :: rest.
Proof. induction pre; intros; cbn. reflexivity. rewrite IHpre. reflexivity. Qed.

Lemma agg_step : forall fs i num t x rest cur fuel,
  NoDup (map fst fs) -> nth_error fs i = Some (num, t) -> 0 < num < 2 ^ 29 ->
  ty_ok t -> wf t x -> small (ssize t x) -> ssize t x <> 0 -> RT t ->
  nth i cur VNull = dflt t ->
  agg_loop (tbl fs) (S fuel) (S0 (field num t (ssize t x) (encode t x) ++ rest)) cur
  = agg_loop (tbl fs) fuel (S0 rest) (upd_nth i (norm t x) cur).
Proof.
  intros fs i num t x rest cur fuel Hnd Hn Hnum Hok Hwf Hs Hnz HRT Hcur.
  destruct (tag_facts num t Hnum) as (Hu & Hfn & Hw). pose proof (tag_range num t) as Htr.
  pose proof (size_exact t x Hok Hwf) as Hsz. destruct (HRT x Hok Hwf) as [A B].
  unfold field. replace (field_skipped (ssize t x)) with false by (symmetry; apply Z.eqb_neq; auto).
  cbn [agg_loop]. rewrite <- app_assoc. rewrite has_data_app by apply varint_nonempty.
  unfold S0 at 1. rewrite read_varint_ok by lia. rewrite Hu, Hfn.
  rewrite (find_field_nth fs i num t 0 Hnd Hn). cbn [Nat.add]. rewrite Hcur.
  unfold dec_field. rewrite Hw, Z.eqb_refl. cbn [negb]. rewrite andb_false_r.
  fold (S0 (((if is_ld t then varint (ssize t x) else []) ++ encode t x) ++ rest)).
  assert (Hd : (if is_ld t
                then dec_len field_limit_of_length field_len_fail_result (decode nd t)
                       (S0 (((if is_ld t then varint (ssize t x) else []) ++ encode t x) ++ rest)) (dflt t)
                else decode nd t (S0 (((if is_ld t then varint (ssize t x) else []) ++ encode t x) ++ rest)) (dflt t))
               = Ok (norm t x) (S0 rest)).
  { destruct (is_ld t) eqn:Hld.
    - rewrite <- app_assoc. apply dec_len_ok; auto.
    - cbn [app]. apply B; auto. apply nld_size_nonnull; auto. }
  rewrite Hd. unfold shorter, S0. cbn [win].
  replace (length rest <? _)%nat with true. reflexivity.
  symmetry. apply Nat.ltb_lt. rewrite !app_length. pose proof (varint_nonempty (tag_of num t)).
  destruct (varint (tag_of num t)); [contradiction|]. cbn [length]. lia.
Qed.

Lemma bb_varint_size_pos : forall n, 0 <= n < 2 ^ 64 -> 0 < bb_varint_size n.
Proof.
  intros. rewrite <- varint_length_bb by auto. pose proof (varint_nonempty n). destruct (varint n); [contradiction|].
  cbn [length]. lia.
Qed.

Lemma field_size_zero : forall num t sz, 0 < num < 2 ^ 29 -> 0 <= sz < 2 ^ 64 -> 0 <= field_size num t sz /\
  (field_size num t sz = 0 -> sz = 0).
Proof.
  intros num t sz Hn Hs. unfold field_size, size_field_skipped. destruct (sz =? 0) eqn:E.
  - apply Z.eqb_eq in E. lia.
  - pose proof (tag_range num t). pose proof (bb_varint_size_pos (tag_of num t)). pose proof (bb_varint_size_pos sz).
    destruct (is_ld t); lia.
Qed.

Lemma ssize_agg_cons : forall n ft fs x l,
  ssize (TAgg ((n, ft) :: fs)) (VSeq (x :: l)) = field_size n ft (ssize ft x) + ssize (TAgg fs) (VSeq l).
Proof. reflexivity. Qed.

Lemma agg_size_nonneg : forall fs l, fields_ok fs -> wf_fields fs l -> 0 <= ssize (TAgg fs) (VSeq l).
Proof.
  induction fs as [|[n ft] fs IH]; intros l Hf Hw; destruct l; cbn [wf_fields] in Hw; try contradiction.
  - cbn. lia.
  - rewrite ssize_agg_cons. inversion Hf as [|? ? [Hn Ho] Hr]; subst. destruct Hw as (Wx & Sx & Wr). cbn [fst snd] in *.
    pose proof (size_exact ft v Ho Wx). unfold small in Sx.
    pose proof (field_size_zero n ft (ssize ft v) Hn). specialize (IH l Hr Wr). lia.
Qed.
(* ---------- values with an empty encoding normalise to the default object ---------- *)
Lemma elem_packed_nonempty : forall e x, elem_ok e = true -> wf e x -> packed e (ssize e x) (encode e x) <> [].
Proof.
  intros e x Hel Hwf. apply packed_nonempty. intros Hld.
  destruct (nld_cases e Hld) as [[k ->]|(sh & e' & -> & _)].
  - destruct x; cbn in Hwf; try contradiction. apply sk_encode_nonempty.
  - exfalso. unfold elem_ok in Hel. congruence.
Qed.

Lemma seq_empty_of_size0 : forall t e l, (t = TVec e \/ t = TList e \/ t = TSet e \/ exists n, t = TArr n e) ->
  ty_ok t -> wf t (VSeq l) -> elem_ok e = true -> ssize t (VSeq l) = 0 -> l = [].
Proof.
  intros t e l Ht Hok Hwf Hel Hs. destruct l as [|x r]; [reflexivity|]. exfalso.
  rewrite (size_exact t _ Hok Hwf) in Hs. apply length_zero_nil in Hs.
  assert (Hx : wf e x).
  { destruct Ht as [->|[->|[->|[n ->]]]]; cbn [wf] in Hwf.
    - destruct Hwf as [Hx _]; exact Hx.
    - destruct Hwf as [Hx _]; exact Hx.
    - destruct Hwf as [[Hx _] _]; exact Hx.
    - destruct Hwf as [_ [Hx _]]. exact Hx. }
  assert (He : encode t (VSeq (x :: r)) = packed e (ssize e x) (encode e x) ++ encode t (VSeq r)).
  { destruct Ht as [->|[->|[->|[n ->]]]]; reflexivity. }
  rewrite He in Hs. apply app_eq_nil in Hs. destruct Hs as [Hs _]. exact (elem_packed_nonempty e x Hel Hx Hs).
Qed.

Lemma norm_dflt_of_empty : forall t v, ty_ok t -> wf t v -> ssize t v = 0 -> norm t v = dflt t.
Proof.
  induction t using ty_ind'; intros v Hok Hwf Hs; destruct v; cbn [wf] in Hwf; try contradiction.
  - exfalso. cbn [ssize] in Hs. rewrite sk_size_exact in Hs. apply length_zero_nil in Hs. exact (sk_encode_nonempty _ _ Hs).
  - cbn in Hs. apply length_zero_nil in Hs. subst. reflexivity.
  - rewrite (seq_empty_of_size0 (TVec t) t l); auto. destruct Hok; auto.
  - rewrite (seq_empty_of_size0 (TList t) t l); auto. destruct Hok; auto.
  - rewrite (seq_empty_of_size0 (TSet t) t l); auto. destruct Hok; auto.
  - (* map *) destruct l as [|p r]; [reflexivity|]. exfalso.
    assert (Hw0 : wf (TMap t1 t2) (VSeq (p :: r))) by exact Hwf. destruct Hwf as [Hwf _].
    destruct p as [| |[|a [|b [|]]]| |]; try contradiction.
    assert (Hw : wf (TMap t1 t2) (VSeq (VSeq [a; b] :: r))) by exact Hw0.
    rewrite (size_exact (TMap t1 t2) _ Hok Hw) in Hs. apply length_zero_nil in Hs.
    cbn [encode flat_map] in Hs. apply app_eq_nil in Hs. destruct Hs as [Hs _].
    apply app_eq_nil in Hs. destruct Hs as [Hs _].
    destruct Hok as (Hel & _ & _ & _). destruct Hwf as (Wa & _).
    exact (elem_packed_nonempty t1 a Hel Wa Hs).
  - (* array *) assert (Hw : wf (TArr n t) (VSeq l)) by exact Hwf. destruct Hwf as [Hn _].
    assert (Hel : elem_ok t = true) by (destruct Hok; auto).
    assert (El : l = []) by (apply (seq_empty_of_size0 (TArr n t) t l); eauto 6).
    subst l. cbn in Hn. subst n. reflexivity.
  - reflexivity.
  - cbn [ssize] in Hs. cbn [norm]. rewrite Hs. reflexivity.
  - (* aggregate: every field is skipped *)
    destruct Hok as [_ Hf]. apply ty_ok_fields in Hf. rewrite norm_agg. cbn [dflt]. f_equal.
    assert (Hw : wf_fields fs l) by (apply wf_agg; exact Hwf). clear Hwf.
    revert l Hw Hs. induction fs as [|[n ft] fs IH]; intros l Hw Hs; destruct l; cbn [wf_fields] in Hw; try contradiction.
    + reflexivity.
    + inversion H as [|? ? Hft Hrest]; subst. inversion Hf as [|? ? [Hn Ho] Hr]; subst. cbn [fst snd] in *.
      destruct Hw as (Wx & Sx & Wr). rewrite ssize_agg_cons in Hs.
      pose proof (size_exact ft v Ho Wx) as Hsz. unfold small in Sx.
      destruct (field_size_zero n ft (ssize ft v) Hn) as [Hge Hz]; [lia|].
      pose proof (agg_size_nonneg fs l Hr Wr).
      cbn [norm_fields map snd]. f_equal.
      * apply Hft; auto. apply Hz. lia.
      * apply IH; auto. lia.
Qed.

Lemma agg_in_order : forall suf fs pre lpre lsuf fuel, fs = pre ++ suf ->
  NoDup (map fst fs) -> fields_ok suf -> Forall (fun p => RT (snd p)) suf ->
  length lpre = length pre -> wf_fields suf lsuf -> (length (enc_fields suf lsuf) < fuel)%nat ->
  agg_loop (tbl fs) fuel (S0 (enc_fields suf lsuf)) (lpre ++ map (fun p => dflt (snd p)) suf)
  = Ok (VSeq (lpre ++ norm_fields suf lsuf)) (S0 []).
Proof.
  induction suf as [|[num t] suf IH]; intros fs pre lpre lsuf fuel Hfs Hnd Hf HRT Hlen Hw Hfuel;
    destruct lsuf as [|x l]; cbn [wf_fields] in Hw; try contradiction.
  - destruct fuel; [cbn in Hfuel; lia|]. reflexivity.
  - inversion Hf as [|? ? [Hn Ho] Hfr]; subst.
    inversion HRT as [|? ? HRT1 HRTr]; subst. destruct Hw as (Wx & Sx & Wr). cbn [fst snd] in *.
    cbn [enc_fields norm_fields map snd] in *.
    assert (Hfs' : pre ++ (num, t) :: suf = (pre ++ [(num, t)]) ++ suf) by (rewrite <- app_assoc; reflexivity).
    destruct (Z.eq_dec (ssize t x) 0) as [Hz|Hnz].
    + (* skipped field *)
      unfold field at 1. replace (field_skipped (ssize t x)) with true by (symmetry; apply Z.eqb_eq; auto).
      cbn [app]. rewrite (norm_dflt_of_empty t x Ho Wx Hz).
      replace (lpre ++ dflt t :: map (fun p => dflt (snd p)) suf) with ((lpre ++ [dflt t]) ++ map (fun p => dflt (snd p)) suf)
        by (rewrite <- app_assoc; reflexivity).
      replace (lpre ++ dflt t :: norm_fields suf l) with ((lpre ++ [dflt t]) ++ norm_fields suf l)
        by (rewrite <- app_assoc; reflexivity).
      apply (IH _ (pre ++ [(num, t)])); auto.
      * rewrite !app_length. cbn. lia.
      * unfold field in Hfuel. replace (field_skipped (ssize t x)) with true in Hfuel by (symmetry; apply Z.eqb_eq; auto).
        exact Hfuel.
    + destruct fuel; [lia|].
      rewrite (agg_step _ (length pre) num t x); auto.
      * rewrite <- Hlen, upd_nth_app.
        replace (lpre ++ norm t x :: map (fun p => dflt (snd p)) suf) with ((lpre ++ [norm t x]) ++ map (fun p => dflt (snd p)) suf)
          by (rewrite <- app_assoc; reflexivity).
        replace (lpre ++ norm t x :: norm_fields suf l) with ((lpre ++ [norm t x]) ++ norm_fields suf l)
          by (rewrite <- app_assoc; reflexivity).
        apply (IH _ (pre ++ [(num, t)])); auto.
        -- rewrite !app_length. cbn. lia.
        -- rewrite app_length in Hfuel.
           assert (0 < length (field num t (ssize t x) (encode t x)))%nat; [|lia].
           unfold field. replace (field_skipped (ssize t x)) with false by (symmetry; apply Z.eqb_neq; auto).
           rewrite app_length. pose proof (varint_nonempty (tag_of num t)). destruct (varint (tag_of num t)); [contradiction|]. cbn. lia.
      * rewrite nth_error_app2 by lia. rewrite Nat.sub_diag. reflexivity.
      * rewrite app_nth2 by lia. rewrite Hlen, Nat.sub_diag. reflexivity.
Qed.

(* ---------- round trip: scalars, strings, vector/list/array, smart pointers, arbitrarily nested ---------- *)
Theorem roundtrip_core : forall t, RT t.
Proof.
  induction t using ty_ind'; intros v Hok Hwf; destruct v; cbn [wf] in Hwf; try contradiction.
  - (* scalar *) split; [cbn; intros; destruct k; discriminate|]. intros _ _ post cur.
    cbn [decode encode norm]. apply dec_scalar_rt; auto.
  - (* string *) split; [|cbn; discriminate]. intros _. reflexivity.
  - (* vector *) split; [|cbn; discriminate]. intros _. destruct Hok as [Hel Hok].
    apply wf_elems in Hwf. cbn [decode encode norm dflt seq_items].
    replace (is_fp t && _) with false by (unfold S0; cbn [ext]; rewrite andb_false_r; reflexivity).
    rewrite flat_map_concat.
    rewrite (seq_loop_pieces _ _ _ _ (map (norm t) l));
      [reflexivity | intros w; apply cond_vec | apply elems_pieces; auto | unfold S0; cbn [win]; lia].
  - (* list *) split; [|cbn; discriminate]. intros _. destruct Hok as [Hel Hok].
    apply wf_elems in Hwf. cbn [decode encode norm dflt seq_items]. rewrite flat_map_concat.
    rewrite (seq_loop_pieces _ _ _ _ (map (norm t) l));
      [reflexivity | intros w; apply cond_data | apply elems_pieces; auto | unfold S0; cbn [win]; lia].
  - (* set: the entries come back in wire order, all different *)
    split; [|cbn; discriminate]. intros _. destruct Hok as [Hel Hok]. destruct Hwf as [Hwf Hnd].
    apply wf_elems in Hwf. cbn [decode encode norm dflt seq_items]. rewrite flat_map_concat.
    rewrite (seq_loop_pieces_set _ _ _ _ (map (norm t) l));
      [reflexivity | intros w; apply cond_data | apply elems_pieces; auto | exact Hnd | unfold S0; cbn [win]; lia].
  - (* map *)
    split; [|cbn; discriminate]. intros _. destruct Hok as (Hel1 & Hel2 & Hok1 & Hok2). destruct Hwf as [Hwf Hnd].
    destruct (map_entries t1 t2 l Hwf) as (kvs & -> & Hkvs).
    rewrite encode_map_entries, norm_map_entries. cbn [decode dflt seq_items].
    rewrite (map_loop_pieces _ _ _ _ _ (map (fun kv => (norm t1 (fst kv), norm t2 (snd kv))) kvs)).
    + cbn [app]. rewrite map_map. reflexivity.
    + clear Hnd Hwf. induction Hkvs as [|[a b] kvs (Wa & Sa & Wb & Sb) _ IH]; cbn [map]; constructor.
      * cbn [fst snd] in *. split; apply elem_piece; auto.
      * exact IH.
    + cbn [map app]. rewrite map_map. cbn [fst]. rewrite map_map in Hnd. exact Hnd.
    + unfold S0. cbn [win]. lia.
  - (* array *) split; [|cbn; discriminate]. intros _. destruct Hok as [Hel Hok].
    destruct Hwf as [Hn Hwf]. apply wf_elems in Hwf. cbn [decode encode norm dflt seq_items]. rewrite flat_map_concat.
    subst n. rewrite <- (map_length (fun x => packed t (ssize t x) (encode t x)) l).
    apply arr_go_pieces. apply elems_pieces; auto.
  - (* null pointer *) split.
    + intros _. cbn [decode encode]. rewrite ptr_guard_eq. reflexivity.
    + intros _ Hnn. cbn in Hnn. contradiction.
  - (* pointer *) cbn in Hok. destruct (IHt v Hok Hwf) as [A B].
    pose proof (size_exact t v Hok Hwf) as Hsz. split.
    + intros Hld. cbn [is_ld wire] in Hld. specialize (A Hld). cbn [decode encode norm dflt]. rewrite ptr_guard_eq.
      rewrite A. destruct (encode t v) as [|b r] eqn:E; unfold has_data, S0; cbn [win].
      * cbn [length] in Hsz. rewrite Hsz. reflexivity.
      * replace (ssize t v =? 0) with false. reflexivity.
        symmetry. apply Z.eqb_neq. rewrite Hsz. cbn [length]. lia.
    + intros Hld Hnn post cur. cbn [is_ld wire] in Hld. cbn [nonnull] in Hnn. cbn [decode encode norm]. rewrite ptr_guard_eq.
      pose proof (nld_nonempty t v Hld Hwf Hnn) as Hne. rewrite (B Hld Hnn).
      destruct (encode t v) as [|b r] eqn:E; [contradiction|]. unfold has_data, S0; cbn [win app].
      replace (ssize t v =? 0) with false. reflexivity.
      symmetry. apply Z.eqb_neq. rewrite Hsz. cbn [length]. lia.
  - (* aggregate *) split; [|cbn; discriminate]. intros _. destruct Hok as [Hnd Hf]. apply ty_ok_fields in Hf.
    assert (Hw : wf_fields fs l) by (apply wf_agg; exact Hwf).
    rewrite norm_agg, encode_agg. cbn [decode dflt seq_items]. fold (tbl fs).
    apply (agg_in_order fs fs [] [] l); auto.
Qed.
End RT2.

(* ---------- the full statements are false of the code as it is: witnesses ---------- *)
(* a null pointer to a scalar inside a container vanishes *)
Lemma se_roundtrip_refuted_null_scalar_ptr :
  exists t v, wf t v /\ parse false false t (encode t v) <> Ok (norm t v) (S0 []).
Proof.
  exists (TVec (TPtr false (TS KI32))), (VSeq [VSome (VInt 5); VNull; VSome (VInt 7)]).
  split. cbn. unfold small. cbn. lia. vm_compute. discriminate.
Qed.
(* a top-level vector on a stream-backed coded stream without limit parses to nothing *)
Lemma se_unlimited_refuted :
  parse false true (TVec (TS KI32)) (encode (TVec (TS KI32)) (VSeq [VInt 1; VInt 2; VInt 3])) = Ok (VSeq []) (mkS [1; 2; 3] None).
Proof. vm_compute. reflexivity. Qed.
Lemma se_unlimited_float_crash :
  parse false true (TVec (TS KF32)) (encode (TVec (TS KF32)) (VSeq [VInt 1065353216])) = Crash.
Proof. vm_compute. reflexivity. Qed.
(* since fix e367940: eleven continuation bytes where a length prefix is expected are a parse failure *)
Lemma se_overlong_length_fails : parse false false (TVec TStr) (repeat 128 11) = Fail.
Proof. vm_compute. reflexivity. Qed.
Lemma se_overlong_length_fails_nested :
  parse false false (TAgg [(1, TVec TStr)]) ([10; 11] ++ repeat 255 11) = Fail.
Proof. vm_compute. reflexivity. Qed.
(* a vector of smart pointers to scalars (outside ty_ok, see se_roundtrip_refuted_null_scalar_ptr) under a limit
   that lies beyond the end of a stream without enclosing limit still spins *)
Lemma se_unlimited_scalar_ptr_vector_hangs :
  parse false true (TAgg [(1, TVec (TPtr false (TS KI32)))]) [10; 5] = Hang.
Proof. vm_compute. reflexivity. Qed.

(* ---------- examples: aggregates, unknown fields, order, defaults (computed on the model) ---------- *)
Definition ex_ty : ty := TAgg [(1, TS KI32); (2, TStr); (3, TVec (TS KI64)); (4, TPtr false TStr)].
Definition ex_val : val := VSeq [VInt (-1); VStr [97; 98]; VSeq [VInt 1; VInt 300]; VSome (VStr [])].
Lemma ex_roundtrip : parse false false ex_ty (encode ex_ty ex_val) = Ok (norm ex_ty ex_val) (S0 []).
Proof. vm_compute. reflexivity. Qed.
Lemma ex_norm_nulls_empty_pointee : norm ex_ty ex_val = VSeq [VInt (-1); VStr [97; 98]; VSeq [VInt 1; VInt 300]; VNull].
Proof. vm_compute. reflexivity. Qed.
(* unknown fields 13 (varint), 14 (fixed64), 15 (length-delimited), 16 (fixed32) in between, fields reversed *)
Lemma ex_unknown_and_order :
  parse false false ex_ty ([104; 5] ++ [26; 3; 1; 172; 2] ++ [113; 1; 2; 3; 4; 5; 6; 7; 8] ++ [18; 2; 97; 98] ++
                           [122; 2; 9; 9] ++ [8; 255; 255; 255; 255; 15] ++ [133; 1; 1; 2; 3; 4])
  = Ok (norm ex_ty ex_val) (S0 []).
Proof. vm_compute. reflexivity. Qed.
Lemma ex_absent_keep_defaults :
  parse false false ex_ty [18; 2; 97; 98] = Ok (VSeq [VInt 0; VStr [97; 98]; VSeq []; VNull]) (S0 []).
Proof. vm_compute. reflexivity. Qed.

(* ---------- corollaries in terms of parse ---------- *)
Lemma roundtrip_ld : forall nd t v, ty_ok t -> wf t v -> is_ld t = true ->
  parse nd false t (encode t v) = Ok (norm t v) (S0 []).
Proof. intros nd t v Hok Hwf Hld. unfold parse. destruct (roundtrip_core nd t v Hok Hwf) as [A _]. apply A, Hld. Qed.
Lemma roundtrip_nld : forall nd t v post, ty_ok t -> wf t v -> is_ld t = false -> nonnull t v ->
  parse nd false t (encode t v ++ post) = Ok (norm t v) (S0 post).
Proof.
  intros nd t v post Hok Hwf Hld Hnn. unfold parse. destruct (roundtrip_core nd t v Hok Hwf) as [_ B].
  apply B; auto.
Qed.
(* what a successful round trip returns serializes to the same bytes when no pointer was normalised *)
Lemma wf_example : wf ex_ty ex_val /\ ty_ok ex_ty /\ is_ld ex_ty = true.
Proof. cbn. unfold small. cbn. repeat split; try lia; repeat constructor; cbn; intuition lia. Qed.

(* ---------- protobuf compatibility of aggregates: unknown fields, any order, absent fields ---------- *)
Inductive unknown_payload : Z -> list Z -> Prop :=
| UVar : forall v, 0 <= v < 2 ^ 64 -> unknown_payload 0 (varint v)
| UF64 : forall b, length b = 8%nat -> unknown_payload 1 b
| UF32 : forall b, length b = 4%nat -> unknown_payload 5 b
| ULD : forall b, Z.of_nat (length b) < 2 ^ 31 -> unknown_payload 2 (varint (Z.of_nat (length b)) ++ b).

Section Compat.
Variable nd : bool.

Lemma find_field_none : forall fs num k, ~ In num (map fst fs) -> find_field num (tbl nd fs) k = None.
Proof.
  induction fs as [|[n t] fs IH]; intros num k Hn. reflexivity.
  cbn [tbl map find_field fst snd]. cbn [map fst] in Hn.
  replace (n =? num) with false by (symmetry; apply Z.eqb_neq; intros ->; apply Hn; left; reflexivity).
  apply IH. intros H. apply Hn. right. exact H.
Qed.

Lemma skip_exact : forall b rest, skip (Z.of_nat (length b)) (S0 (b ++ rest)) = Some (S0 rest).
Proof.
  intros. unfold skip, S0. cbn [win]. rewrite app_length.
  replace (0 <=? Z.of_nat (length b)) with true by (symmetry; apply Z.leb_le; lia).
  replace (Z.of_nat (length b) <=? Z.of_nat (length b + length rest)) with true by (symmetry; apply Z.leb_le; lia).
  cbn [andb]. rewrite Nat2Z.id, skipn_app_exact. reflexivity.
Qed.

Lemma agg_unknown_step : forall fs num w pay rest cur fuel,
  0 <= num < 2 ^ 29 -> ~ In num (map fst fs) -> unknown_payload w pay ->
  agg_loop (tbl nd fs) (S fuel) (S0 ((varint (num * 8 + w) ++ pay) ++ rest)) cur
  = agg_loop (tbl nd fs) fuel (S0 rest) cur.
Proof.
  intros fs num w pay rest cur fuel Hnum Hnin Hp.
  assert (Hw : 0 <= w < 8) by (inversion Hp; lia).
  assert (Hu : u32 (num * 8 + w) = num * 8 + w) by (unfold u32; apply Z.mod_small; lia).
  assert (Hfn : tag_field_number (num * 8 + w) = num).
  { unfold tag_field_number. rewrite Z.shiftr_div_pow2 by lia. change (2 ^ 3) with 8.
    rewrite Z.div_add_l by lia. rewrite (Z.div_small w) by lia. lia. }
  assert (Huw : unknown_wire (num * 8 + w) = w).
  { unfold unknown_wire. change 7 with (Z.ones 3). rewrite Z.land_ones by lia. change (2 ^ 3) with 8.
    rewrite Z.add_comm, Z.mod_add by lia. apply Z.mod_small. lia. }
  cbn [agg_loop]. rewrite <- !app_assoc. rewrite has_data_app by apply varint_nonempty.
  unfold S0 at 1. rewrite read_varint_ok by lia. rewrite Hu, Hfn, find_field_none by auto.
  assert (Hc : consume_unknown (num * 8 + w) (S0 (pay ++ rest)) = Some (S0 rest)).
  { unfold consume_unknown. rewrite Huw. inversion Hp; subst; cbn [Z.eqb Pos.eqb].
    - unfold S0. rewrite read_varint_ok by lia. reflexivity.
    - change skip_fixed64 with (Z.of_nat 8). rewrite <- H. apply skip_exact.
    - change skip_fixed32 with (Z.of_nat 4). rewrite <- H. apply skip_exact.
    - unfold S0 at 1. rewrite <- app_assoc, read_varint_ok by lia.
      unfold unknown_ld_skip. unfold u64. rewrite Z.mod_small by lia.
      replace (swrap 32 (u32 (Z.of_nat (length b)))) with (Z.of_nat (length b)).
      apply skip_exact. unfold u32. symmetry. apply (swrap_mod_le 32 32); lia. }
  fold (S0 (pay ++ rest)). rewrite Hc. unfold shorter, S0. cbn [win].
  replace (length rest <? _)%nat with true. reflexivity.
  symmetry. apply Nat.ltb_lt. rewrite !app_length. pose proof (varint_nonempty (num * 8 + w)).
  destruct (varint (num * 8 + w)); [contradiction|]. cbn [length]. lia.
Qed.

Inductive chunk := CF (i : nat) (x : val) | CU (num w : Z) (pay : list Z).
Definition chunk_bytes (fs : list (Z * ty)) (c : chunk) : list Z :=
  match c with
  | CF i x => match nth_error fs i with Some (num, t) => field num t (ssize t x) (encode t x) | None => [] end
  | CU num w pay => varint (num * 8 + w) ++ pay
  end.
Definition chunk_ok (fs : list (Z * ty)) (c : chunk) : Prop :=
  match c with
  | CF i x => exists num t, nth_error fs i = Some (num, t) /\ wf t x /\ small (ssize t x) /\ ssize t x <> 0
  | CU num w pay => 0 <= num < 2 ^ 29 /\ ~ In num (map fst fs) /\ unknown_payload w pay
  end.
Definition chunk_apply (fs : list (Z * ty)) (cur : list val) (c : chunk) : list val :=
  match c with
  | CF i x => match nth_error fs i with Some (_, t) => upd_nth i (norm t x) cur | None => cur end
  | CU _ _ _ => cur
  end.
Definition chunk_idx (c : chunk) : list nat := match c with CF i _ => [i] | _ => [] end.

Lemma nth_upd_other : forall l i j y, i <> j -> nth j (upd_nth i y l) VNull = nth j l VNull.
Proof.
  induction l as [|a l IH]; intros i j y H; destruct i, j; cbn; auto; try lia.
Qed.

Lemma chunk_nonempty : forall fs c, chunk_ok fs c -> chunk_bytes fs c <> [].
Proof.
  intros fs [i x|num w pay] H; cbn in *.
  - destruct H as (num & t & Hn & _ & _ & Hnz). rewrite Hn. unfold field.
    replace (field_skipped (ssize t x)) with false by (symmetry; apply Z.eqb_neq; auto).
    intro E. apply app_eq_nil in E. destruct E as [E _]. exact (varint_nonempty _ E).
  - intro E. apply app_eq_nil in E. destruct E as [E _]. exact (varint_nonempty _ E).
Qed.

Theorem agg_chunks : forall fs, ty_ok (TAgg fs) ->
  forall cs cur fuel, Forall (chunk_ok fs) cs -> NoDup (flat_map chunk_idx cs) ->
  (forall i num t, In i (flat_map chunk_idx cs) -> nth_error fs i = Some (num, t) -> nth i cur VNull = dflt t) ->
  (length (concat (map (chunk_bytes fs) cs)) < fuel)%nat ->
  agg_loop (tbl nd fs) fuel (S0 (concat (map (chunk_bytes fs) cs))) cur
  = Ok (VSeq (fold_left (chunk_apply fs) cs cur)) (S0 []).
Proof.
  intros fs [Hnd Hf]. apply ty_ok_fields in Hf.
  induction cs as [|c cs IH]; intros cur fuel Hok Hdis Hcur Hfuel.
  - destruct fuel; [cbn in Hfuel; lia|]. reflexivity.
  - inversion Hok as [|? ? Hc Hcs]; subst. cbn [map concat fold_left] in *.
    pose proof (chunk_nonempty fs c Hc) as Hne.
    destruct fuel; [lia|]. rewrite app_length in Hfuel.
    assert (0 < length (chunk_bytes fs c))%nat by (destruct (chunk_bytes fs c); [contradiction|cbn; lia]).
    destruct c as [i x|num w pay]; cbn [chunk_bytes chunk_apply chunk_idx flat_map app] in *.
    + destruct Hc as (num & t & Hn & Wx & Sx & Hnz). rewrite Hn in *.
      pose proof (nth_error_In _ _ Hn) as Hin.
      destruct (proj1 (Forall_forall _ _) Hf _ Hin) as [Hnum Hokt].
      cbn [fst snd] in *.
      inversion Hdis as [|? ? Hnotin Hdis']; subst.
      assert (Hci : nth i cur VNull = dflt t) by (apply (Hcur i num t); [left; reflexivity|exact Hn]).
      rewrite (agg_step nd fs i num t x _ cur fuel Hnd Hn Hnum Hokt Wx Sx Hnz (roundtrip_core nd t) Hci).
      apply IH; auto.
      * intros j num' t' Hj Hn'. assert (i <> j) by (intros ->; contradiction).
        rewrite nth_upd_other by auto. apply (Hcur j num' t'); auto. right. exact Hj.
      * lia.
    + destruct Hc as (Hnum & Hnin & Hp).
      rewrite agg_unknown_step; auto. apply IH; auto. lia.
Qed.

(* parsing any sequence of distinct known fields and unknown fields, in any order, into a fresh object *)
Theorem compat_parse : forall fs cs, ty_ok (TAgg fs) ->
  Forall (chunk_ok fs) cs -> NoDup (flat_map chunk_idx cs) ->
  parse nd false (TAgg fs) (concat (map (chunk_bytes fs) cs))
  = Ok (VSeq (fold_left (chunk_apply fs) cs (map (fun p => dflt (snd p)) fs))) (S0 []).
Proof.
  intros fs cs Hok Hcs Hdis. unfold parse. cbn [decode dflt seq_items]. fold (tbl nd fs).
  apply agg_chunks; auto.
  intros i num t _ Hn. rewrite (nth_indep _ VNull (dflt (snd (num, t)))).
  - change (dflt (snd (num, t))) with ((fun p => dflt (snd p)) (num, t)). rewrite map_nth.
    rewrite (nth_error_nth _ _ _ Hn). reflexivity.
  - rewrite map_length. apply nth_error_Some. congruence.
Qed.

(* the order of the fields does not matter *)
Lemma upd_nth_comm : forall l i j a b, i <> j -> upd_nth i a (upd_nth j b l) = upd_nth j b (upd_nth i a l).
Proof.
  induction l as [|x l IH]; intros i j a b H; destruct i, j; cbn; auto; try lia. f_equal. apply IH. lia.
Qed.

Lemma chunk_apply_comm : forall fs cur x y, NoDup (chunk_idx x ++ chunk_idx y) ->
  chunk_apply fs (chunk_apply fs cur x) y = chunk_apply fs (chunk_apply fs cur y) x.
Proof.
  intros fs cur [i a|? ? ?] [j b|? ? ?] H; cbn [chunk_apply]; auto.
  destruct (nth_error fs i) as [[? ti]|], (nth_error fs j) as [[? tj]|]; auto.
  apply upd_nth_comm. cbn in H. inversion H as [|? ? Hn _]; subst. intros ->. apply Hn. left. reflexivity.
Qed.

Lemma NoDup_app_l : forall (A : Type) (a b : list A), NoDup (a ++ b) -> NoDup a.
Proof.
  induction a; intros b H. constructor. cbn in H. inversion H; subst. constructor.
  - intro Hin. apply H2. apply in_or_app. left. exact Hin.
  - eapply IHa; eauto.
Qed.
Lemma NoDup_app_r : forall (A : Type) (a b : list A), NoDup (a ++ b) -> NoDup b.
Proof. induction a; intros b H. exact H. cbn in H. inversion H; subst. apply IHa. auto. Qed.

Lemma fold_chunks_perm : forall fs cs cs', Permutation cs cs' -> NoDup (flat_map chunk_idx cs) ->
  forall cur, fold_left (chunk_apply fs) cs cur = fold_left (chunk_apply fs) cs' cur.
Proof.
  intros fs cs cs' HP. induction HP; intros Hd cur.
  - reflexivity.
  - cbn [fold_left]. apply IHHP. cbn [flat_map] in Hd. apply NoDup_app_r in Hd. exact Hd.
  - cbn [fold_left]. f_equal. apply chunk_apply_comm. cbn [flat_map] in Hd.
    rewrite app_assoc in Hd. apply NoDup_app_l in Hd.
    exact Hd.
  - rewrite IHHP1 by auto. apply IHHP2.
    apply (Permutation_NoDup (Permutation_flat_map chunk_idx HP1)). exact Hd.
Qed.

Theorem compat_order_irrelevant : forall fs cs cs', ty_ok (TAgg fs) ->
  Forall (chunk_ok fs) cs -> NoDup (flat_map chunk_idx cs) -> Permutation cs cs' ->
  exists v, parse nd false (TAgg fs) (concat (map (chunk_bytes fs) cs)) = Ok v (S0 []) /\
            parse nd false (TAgg fs) (concat (map (chunk_bytes fs) cs')) = Ok v (S0 []).
Proof.
  intros fs cs cs' Hok Hcs Hd HP. eexists. split.
  - apply compat_parse; auto.
  - rewrite (fold_chunks_perm fs cs cs' HP Hd). apply compat_parse; auto.
    + apply (Permutation_Forall HP). exact Hcs.
    + apply (Permutation_NoDup (Permutation_flat_map chunk_idx HP)). exact Hd.
Qed.
End Compat.

Lemma compat_example :
  Forall (chunk_ok [(1, TS KI32); (2, TStr)]) [CU 15 2 (varint 2 ++ [7; 8]); CF 1 (VStr [97]); CU 9 0 (varint 300); CF 0 (VInt (-1))]
  /\ NoDup (flat_map chunk_idx [CU 15 2 (varint 2 ++ [7; 8]); CF 1 (VStr [97]); CU 9 0 (varint 300); CF 0 (VInt (-1))]).
Proof.
  split.
  - repeat constructor; cbn; try lia; try (intros [H|[H|H]]; try discriminate; auto).
    + change [7; 8] with ([7; 8] : list Z). apply (ULD [7; 8]). cbn. lia.
    + exists 2, TStr. cbn. unfold small. cbn. repeat split; lia.
    + exists 1, (TS KI32). cbn. unfold small. cbn. repeat split; lia.
  - cbn. repeat constructor; cbn; intuition lia.
Qed.

(* ---------- any iteration order of a hash container is well formed if one is ---------- *)
Lemma wf_set_perm : forall e l l', Permutation l l' -> wf (TSet e) (VSeq l) -> wf (TSet e) (VSeq l').
Proof.
  intros e l l' HP [Hg Hn]. split.
  - apply wf_elems. apply wf_elems in Hg. unfold welems in *. apply (Permutation_Forall HP). exact Hg.
  - apply (Permutation_NoDup (Permutation_map (norm e) HP)). exact Hn.
Qed.
Definition entry_ok (k w : ty) (p : val) : Prop :=
  exists a b, p = VSeq [a; b] /\ wf k a /\ small (ssize k a) /\ wf w b /\ small (ssize w b).
Lemma wf_map_go : forall k w l,
  (fix go (l : list val) : Prop :=
     match l with
     | [] => True
     | VSeq [a; b] :: r => wf k a /\ small (ssize k a) /\ wf w b /\ small (ssize w b) /\ go r
     | _ :: _ => False
     end) l <-> Forall (entry_ok k w) l.
Proof.
  intros k w. induction l as [|p r IH]; split; intro H.
  - constructor. - exact I.
  - destruct p as [| |[|a [|b [|]]]| |]; try contradiction. destruct H as (A & B & C & D & E).
    constructor; [exists a, b; auto|apply IH; exact E].
  - inversion H as [|? ? (a & b & -> & A & B & C & D) E]; subst. repeat split; auto. apply IH. exact E.
Qed.
Lemma wf_map_perm : forall k w l l', Permutation l l' -> wf (TMap k w) (VSeq l) -> wf (TMap k w) (VSeq l').
Proof.
  intros k w l l' HP [Hg Hn]. split.
  - apply wf_map_go. apply wf_map_go in Hg. apply (Permutation_Forall HP). exact Hg.
  - apply (Permutation_NoDup (Permutation_map (fun p => norm k (entry_key p)) HP)). exact Hn.
Qed.
(* whatever order the container iterates in, what is written parses back to the same entries in that order *)
Lemma roundtrip_set_any_order : forall nd e l l', ty_ok (TSet e) -> wf (TSet e) (VSeq l) -> Permutation l l' ->
  parse nd false (TSet e) (encode (TSet e) (VSeq l')) = Ok (VSeq (map (norm e) l')) (S0 []) /\
  Permutation (map (norm e) l) (map (norm e) l').
Proof.
  intros nd e l l' Hok Hwf HP. split.
  - apply (roundtrip_ld nd (TSet e) (VSeq l')); auto. apply (wf_set_perm e l l'); auto.
  - apply Permutation_map. exact HP.
Qed.
Lemma roundtrip_map_any_order : forall nd k w l l', ty_ok (TMap k w) -> wf (TMap k w) (VSeq l) -> Permutation l l' ->
  parse nd false (TMap k w) (encode (TMap k w) (VSeq l')) = Ok (norm (TMap k w) (VSeq l')) (S0 []) /\
  exists nl nl', norm (TMap k w) (VSeq l) = VSeq nl /\ norm (TMap k w) (VSeq l') = VSeq nl' /\ Permutation nl nl'.
Proof.
  intros nd k w l l' Hok Hwf HP. split.
  - apply (roundtrip_ld nd (TMap k w) (VSeq l')); auto. apply (wf_map_perm k w l l'); auto.
  - cbn [norm]. eexists. eexists. split; [reflexivity|]. split; [reflexivity|]. apply Permutation_map. exact HP.
Qed.
Definition ex_hash_ty : ty := TAgg [(1, TSet (TS KI64)); (2, TMap TStr (TVec (TS KI32)))].
Definition ex_hash_val : val :=
  VSeq [VSeq [VInt 3; VInt (-1)]; VSeq [VSeq [VStr [97]; VSeq [VInt 1]]; VSeq [VStr []; VSeq []]]].
Lemma wf_hash_example : wf ex_hash_ty ex_hash_val /\ ty_ok ex_hash_ty.
Proof.
  cbn. unfold small. cbn. repeat split; try lia; repeat constructor; cbn; intuition (try lia; try discriminate).
Qed.

(* ---------- smart pointers at top level of a stream WITHOUT limit (the guard is "a byte is readable", not
   BytesUntilLimit() > 0, which is -1 there) ---------- *)
Lemma roundtrip_unlimited_scalar_ptr : forall nd sh k z, in_range k z ->
  parse nd true (TPtr sh (TS k)) (encode (TPtr sh (TS k)) (VSome (VInt z))) = Ok (VSome (VInt z)) (mkS [] None).
Proof.
  intros nd sh k z H. unfold parse. cbn [decode encode dflt]. rewrite ptr_guard_eq.
  pose proof (sk_encode_nonempty k z) as Hne. unfold has_data. cbn [win].
  destruct (sk_encode k z) as [|b r] eqn:E; [contradiction|]. rewrite <- E.
  rewrite <- (app_nil_r (sk_encode k z)). rewrite dec_scalar_rt by exact H. reflexivity.
Qed.
Lemma roundtrip_unlimited_string_ptr : forall nd sh b, b <> [] ->
  parse nd true (TPtr sh TStr) (encode (TPtr sh TStr) (VSome (VStr b))) = Ok (VSome (VStr b)) (mkS [] None).
Proof.
  intros nd sh b H. unfold parse. cbn [decode encode dflt]. rewrite ptr_guard_eq.
  destruct b; [contradiction|]. reflexivity.
Qed.

(* ---------- the former witness of a wrong predicted size (a vector of TRIVIAL aggregates hiding a smart pointer to
   float, null first): correct since 8a146e9 ---------- *)
Lemma se_size_exact_former_witness :
  let t := TVec (TAgg [(1, TPtr false (TS KF32))]) in
  let v := VSeq [VSeq [VNull]; VSeq [VSome (VInt 1065353216)]] in
  wf t v /\ ty_ok t /\ ssize t v = Z.of_nat (length (encode t v)) /\ ssize t v = 7.
Proof. cbn. unfold small. cbn. repeat split; try lia; repeat constructor; cbn; intuition lia. Qed.

