From Coq Require Import ZArith List Bool Lia.
Require Import Verif.Gen.Gen_serialization Verif.SE.SEModel.
Import ListNotations.
Local Open Scope Z_scope.

Lemma se_stub : encode (TS KI32) (VInt 1) = [1].
Proof. vm_compute. reflexivity. Qed.
