From Coq Require Import ZArith Znumtheory List Bool Lia Permutation.
Require Import Verif.Gen.Gen_serialization Verif.SE.SEModel Verif.SE.SEProofs.
Import ListNotations.
Local Open Scope Z_scope.

(* ---------- parsing terminates: no decoder ever reports Hang ---------- *)
Definition flat (s : stream) : Prop := ext s = Some 0%nat.
Definition lenw (s : stream) : nat := length (win s).
Definition mono (d : dec) : Prop :=
  forall s cur v s', d s cur = Ok v s' -> (lenw s' <= lenw s)%nat /\ ext s' = ext s.

Lemma get_varint_shorter : forall fuel bs v r, get_varint fuel bs = Some (v, r) -> (length r < length bs)%nat.
Proof.
  induction fuel as [|f IH]; intros bs v r H; [discriminate|]. destruct bs as [|b bs]; [discriminate|].
  cbn [get_varint] in H. destruct (b <? 128).
  - inversion H; subst. cbn. lia.
  - destruct (get_varint f bs) as [[v' r']|] eqn:E; [|discriminate]. inversion H; subst.
    apply IH in E. cbn. lia.
Qed.

Lemma read_varint_ok_shorter : forall s v s', read_varint s = VOk v s' -> (lenw s' < lenw s)%nat /\ ext s' = ext s.
Proof.
  intros s v s' H. unfold read_varint in H. destruct (get_varint 10 (win s)) as [[v' r]|] eqn:E.
  - inversion H; subst. apply get_varint_shorter in E. unfold lenw, set_win. cbn. auto.
  - destruct (10 <=? length (win s))%nat; discriminate.
Qed.

Lemma read_fixed_shorter : forall n s v s', (0 < n)%nat -> read_fixed n s = Some (v, s') ->
  (lenw s' < lenw s)%nat /\ ext s' = ext s.
Proof.
  intros n s v s' Hn H. unfold read_fixed in H. destruct (n <=? length (win s))%nat eqn:E; [|discriminate].
  inversion H; subst. apply Nat.leb_le in E. unfold lenw, set_win. cbn. rewrite skipn_length. split; [lia|auto].
Qed.

Lemma skip_mono : forall n s s', skip n s = Some s' -> (lenw s' <= lenw s)%nat /\ ext s' = ext s.
Proof.
  intros n s s' H. unfold skip in H. destruct ((0 <=? n) && (n <=? Z.of_nat (length (win s)))); [|discriminate].
  inversion H; subst. unfold lenw, set_win. cbn. rewrite skipn_length. split; [lia|auto].
Qed.

Lemma dec_scalar_prog : forall k s cur v s', dec_scalar k s cur = Ok v s' -> (lenw s' < lenw s)%nat /\ ext s' = ext s.
Proof.
  intros k s cur v s' H. rewrite dec_scalar_spec in H.
  destruct k;
    try (destruct (read_varint s) as [u s1| |s1] eqn:E; try discriminate; inversion H; subst;
         apply read_varint_ok_shorter in E; exact E).
  - destruct (read_fixed 4 s) as [[u s1]|] eqn:E; [|discriminate]. inversion H; subst.
    apply (read_fixed_shorter 4 s u s'); auto; lia.
  - destruct (read_fixed 8 s) as [[u s1]|] eqn:E; [|discriminate]. inversion H; subst.
    apply (read_fixed_shorter 8 s u s'); auto; lia.
Qed.

Lemma with_limit_mono : forall n s d cur v s', mono d -> with_limit n s d cur = Ok v s' ->
  (lenw s' <= lenw s)%nat /\ ext s' = ext s.
Proof.
  intros n s d cur v s' Hm H. unfold with_limit in H.
  destruct ((0 <=? n) && match ext s with Some k => n <? Z.of_nat (length (win s) + k) | None => true end).
  - destruct (d {| win := firstn (Z.to_nat n) (win s); ext := Some (Z.to_nat n - length (win s))%nat |} cur)
      as [v1 s1| | |] eqn:E; try discriminate.
    inversion H; subst. apply Hm in E. destruct E as [E _]. unfold lenw in *. cbn [win ext] in *.
    rewrite app_length, skipn_length. rewrite firstn_length in E. split; [lia|auto].
  - apply Hm in H. exact H.
Qed.

Lemma with_limit_nohang : forall n s d cur,
  (forall s1, (flat s -> flat s1) -> d s1 cur <> Hang) -> with_limit n s d cur <> Hang.
Proof.
  intros n s d cur Hd. unfold with_limit.
  destruct ((0 <=? n) && match ext s with Some k => n <? Z.of_nat (length (win s) + k) | None => true end) eqn:C.
  - match goal with |- context [d ?s1 cur] => pose proof (Hd s1) as Hs1; destruct (d s1 cur) eqn:E end;
      try discriminate. exfalso. apply Hs1; auto.
    intros Hf. unfold flat in *. rewrite Hf in C. cbn [ext]. f_equal.
    apply andb_prop in C. destruct C as [C1 C2]. apply Z.ltb_lt in C2. apply Z.leb_le in C1. lia.
  - apply Hd. auto.
Qed.

Lemma dec_len_mono : forall lim fr d, mono d -> mono (dec_len lim fr d).
Proof.
  intros lim fr d Hm s cur v s' H. unfold dec_len in H.
  destruct (read_varint s) as [u s1| |s1] eqn:E.
  - apply read_varint_ok_shorter in E. apply with_limit_mono in H; auto. destruct E, H. split; [lia|congruence].
  - destruct (fr =? 0); [discriminate|]. inversion H; subst. auto.
  - destruct (fr =? 0); [discriminate|]. inversion H; subst. auto.
Qed.

(* a length prefix that cannot be read is a failure: success of the length-delimited branch consumed input *)
Lemma dec_len_prog : forall lim fr d s cur v s', fr =? 0 = true -> mono d -> dec_len lim fr d s cur = Ok v s' ->
  (lenw s' < lenw s)%nat.
Proof.
  intros lim fr d s cur v s' Hfr Hm H. unfold dec_len in H. rewrite Hfr in H.
  destruct (read_varint s) as [u s1| |s1] eqn:E; try discriminate.
  apply read_varint_ok_shorter in E. apply with_limit_mono in H; auto. destruct E, H. lia.
Qed.

Lemma dec_len_nohang : forall lim fr d s cur,
  (forall s1, (flat s -> flat s1) -> d s1 cur <> Hang) -> dec_len lim fr d s cur <> Hang.
Proof.
  intros lim fr d s cur Hd. unfold dec_len. destruct (read_varint s) as [u s1| |s1] eqn:E.
  - apply with_limit_nohang. intros s2 Hf. apply Hd. intros F. apply Hf.
    apply read_varint_ok_shorter in E. destruct E as [_ E]. unfold flat in *. congruence.
  - destruct (fr =? 0); discriminate.
  - destruct (fr =? 0); discriminate.
Qed.

(* containers do not hold smart pointers to scalars (the restriction of the remaining finding) *)
Fixpoint elems_ok (t : ty) : Prop :=
  match t with
  | TS _ | TStr => True
  | TVec e | TList e | TSet e | TArr _ e => elem_ok e = true /\ elems_ok e
  | TMap k v => elem_ok k = true /\ elem_ok v = true /\ elems_ok k /\ elems_ok v
  | TPtr _ e => elems_ok e
  | TAgg fs => (fix go (fs : list (Z * ty)) : Prop := match fs with [] => True | p :: r => elems_ok (snd p) /\ go r end) fs
  end.
Lemma elems_ok_fields : forall fs,
  (fix go (fs : list (Z * ty)) : Prop := match fs with [] => True | p :: r => elems_ok (snd p) /\ go r end) fs
  <-> Forall (fun p => elems_ok (snd p)) fs.
Proof.
  induction fs as [|p r IH]; split; intro H.
  - constructor. - exact I.
  - destruct H. constructor; auto. apply IH; auto.
  - inversion H; subst. split; auto. apply IH; auto.
Qed.

Section NoHang.
Variable nd : bool.

Definition ctx (t : ty) (s : stream) : Prop := flat s \/ elems_ok t.

Record Good (t : ty) : Prop := {
  g_mono : mono (decode nd t);
  g_nohang : forall s cur, ctx t s -> decode nd t s cur <> Hang;
  g_prog : is_ld t = false -> forall s cur v s', has_data s = true -> decode nd t s cur = Ok v s' -> (lenw s' < lenw s)%nat
}.

Lemma packed_fr : packed_len_fail_result =? 0 = true. Proof. reflexivity. Qed.
Lemma field_fr : field_len_fail_result =? 0 = true. Proof. reflexivity. Qed.

Lemma elem_mono : forall e, Good e -> mono (dec_packed e (decode nd e)).
Proof.
  intros e G s cur v s' H. unfold dec_packed in H. destruct (is_ld e).
  - apply (dec_len_mono _ _ _ (g_mono e G)) in H. exact H.
  - apply (g_mono e G) in H. exact H.
Qed.

Lemma elem_prog : forall e s cur v s', Good e -> (has_data s = true \/ elem_ok e = true) ->
  dec_packed e (decode nd e) s cur = Ok v s' -> (lenw s' < lenw s)%nat.
Proof.
  intros e s cur v s' G Hc H. unfold dec_packed in H. destruct (is_ld e) eqn:Hld.
  - apply (dec_len_prog _ _ _ _ _ _ _ packed_fr (g_mono e G)) in H. exact H.
  - destruct Hc as [Hd|Hel].
    + apply (g_prog e G Hld s cur v s' Hd H).
    + destruct (nld_cases e Hld) as [[k ->]|(sh & e' & -> & _)].
      * cbn [decode] in H. apply dec_scalar_prog in H. tauto.
      * unfold elem_ok in Hel. congruence.
Qed.

Lemma elem_nohang : forall e s cur, Good e -> ctx e s -> dec_packed e (decode nd e) s cur <> Hang.
Proof.
  intros e s cur G Hc. unfold dec_packed. destruct (is_ld e).
  - apply dec_len_nohang. intros s1 Hf. apply (g_nohang e G). destruct Hc as [F|Q]; [left; auto|right; auto].
  - apply (g_nohang e G). exact Hc.
Qed.

(* loops *)
Lemma seq_loop_mono : forall cond d dv add, mono d -> forall fuel s acc v s',
  seq_loop cond d dv add fuel s acc = Ok v s' -> (lenw s' <= lenw s)%nat /\ ext s' = ext s.
Proof.
  intros cond d dv add Hm. induction fuel as [|f IH]; intros s acc v s' H; [discriminate|].
  cbn [seq_loop] in H. destruct (cond s).
  - destruct (d s dv) as [x s1| | |] eqn:E; try discriminate. destruct (shorter s1 s); [|discriminate].
    apply Hm in E. apply IH in H. destruct E, H. split; [lia|congruence].
  - inversion H; subst. auto.
Qed.

Lemma seq_loop_nohang : forall cond d dv add (Q : Prop), mono d ->
  (forall s x s', cond s = true -> flat s \/ Q -> d s dv = Ok x s' -> (lenw s' < lenw s)%nat) ->
  (forall s, flat s \/ Q -> d s dv <> Hang) ->
  forall fuel s acc, flat s \/ Q -> (lenw s < fuel)%nat -> seq_loop cond d dv add fuel s acc <> Hang.
Proof.
  intros cond d dv add Q Hm Hp Hn. induction fuel as [|f IH]; intros s acc Hc Hf; [lia|].
  cbn [seq_loop]. destruct (cond s) eqn:C; [|discriminate].
  destruct (d s dv) as [x s1| | |] eqn:E; try discriminate.
  - pose proof (Hp s x s1 C Hc E) as P. pose proof (Hm _ _ _ _ E) as [_ Ex].
    unfold shorter. fold (lenw s1) (lenw s). replace (lenw s1 <? lenw s)%nat with true by (symmetry; apply Nat.ltb_lt; lia).
    apply IH; [|lia]. destruct Hc as [F|q]; [left; unfold flat in *; congruence|right; auto].
  - exfalso. apply (Hn s Hc). exact E.
Qed.

Lemma map_loop_mono : forall dk dw dvk dvw, mono dk -> mono dw -> forall fuel s acc v s',
  map_loop dk dw dvk dvw fuel s acc = Ok v s' -> (lenw s' <= lenw s)%nat /\ ext s' = ext s.
Proof.
  intros dk dw dvk dvw Hk Hw. induction fuel as [|f IH]; intros s acc v s' H; [discriminate|].
  cbn [map_loop] in H. destruct (has_data s).
  - destruct (dk s dvk) as [k s1| | |] eqn:E1; try discriminate.
    destruct (dw s1 dvw) as [w s2| | |] eqn:E2; try discriminate. destruct (shorter s2 s); [|discriminate].
    apply Hk in E1. apply Hw in E2. apply IH in H. destruct E1, E2, H. split; [lia|congruence].
  - inversion H; subst. auto.
Qed.

Lemma map_loop_nohang : forall dk dw dvk dvw (Q : Prop), mono dk -> mono dw ->
  (forall s x s', has_data s = true -> dk s dvk = Ok x s' -> (lenw s' < lenw s)%nat) ->
  (forall s, flat s \/ Q -> dk s dvk <> Hang) -> (forall s, flat s \/ Q -> dw s dvw <> Hang) ->
  forall fuel s acc, flat s \/ Q -> (lenw s < fuel)%nat -> map_loop dk dw dvk dvw fuel s acc <> Hang.
Proof.
  intros dk dw dvk dvw Q Hk Hw Hp Hnk Hnw. induction fuel as [|f IH]; intros s acc Hc Hf; [lia|].
  cbn [map_loop]. destruct (has_data s) eqn:C; [|discriminate].
  destruct (dk s dvk) as [k s1| | |] eqn:E1; try discriminate.
  - pose proof (Hp s k s1 C E1) as P. pose proof (Hk _ _ _ _ E1) as [_ Ex1].
    assert (Hc1 : flat s1 \/ Q) by (destruct Hc as [F|q]; [left; unfold flat in *; congruence|right; auto]).
    destruct (dw s1 dvw) as [w s2| | |] eqn:E2; try discriminate.
    + pose proof (Hw _ _ _ _ E2) as [L2 Ex2].
      unfold shorter. fold (lenw s2) (lenw s). replace (lenw s2 <? lenw s)%nat with true by (symmetry; apply Nat.ltb_lt; lia).
      apply IH; [|lia]. destruct Hc1 as [F|q]; [left; unfold flat in *; congruence|right; auto].
    + exfalso. apply (Hnw s1 Hc1). exact E2.
  - exfalso. apply (Hnk s Hc). exact E1.
Qed.

Lemma arr_go_mono : forall d, mono d -> forall cur s v s', arr_go d s cur = Ok v s' -> (lenw s' <= lenw s)%nat /\ ext s' = ext s.
Proof.
  intros d Hm. induction cur as [|c r IH]; intros s v s' H; cbn [arr_go] in H.
  - inversion H; subst. auto.
  - destruct (d s c) as [x s1| | |] eqn:E; try discriminate.
    destruct (arr_go d s1 r) as [v1 s2| | |] eqn:E2; try discriminate.
    destruct v1; try discriminate. inversion H; subst. apply Hm in E. apply IH in E2. destruct E, E2. split; [lia|congruence].
Qed.

Lemma arr_go_nohang : forall d (Q : Prop), mono d -> (forall s c, flat s \/ Q -> d s c <> Hang) ->
  forall cur s, flat s \/ Q -> arr_go d s cur <> Hang.
Proof.
  intros d Q Hm Hn. induction cur as [|c r IH]; intros s Hc; cbn [arr_go]; [discriminate|].
  destruct (d s c) as [x s1| | |] eqn:E; try discriminate.
  - pose proof (Hm _ _ _ _ E) as [_ Ex].
    assert (Hc1 : flat s1 \/ Q) by (destruct Hc as [F|q]; [left; unfold flat in *; congruence|right; auto]).
    destruct (arr_go d s1 r) as [v1 s2| | |] eqn:E2; try discriminate.
    + destruct v1; discriminate.
    + exfalso. apply (IH s1 Hc1). exact E2.
  - exfalso. apply (Hn s c Hc). exact E.
Qed.

(* aggregates *)
Lemma find_field_in : forall fs num k i d, find_field num (tbl nd fs) k = Some (i, d) ->
  exists p, In p fs /\ d = dec_field nd (snd p) (decode nd (snd p)).
Proof.
  induction fs as [|p fs IH]; intros num k i d H; [discriminate|].
  cbn [tbl map find_field fst snd] in H. destruct (fst p =? num).
  - inversion H; subst. exists p. split; [left; reflexivity|reflexivity].
  - fold (tbl nd fs) in H. apply IH in H. destruct H as (q & Hq & E). exists q. split; [right; auto|auto].
Qed.

Lemma field_mono : forall t tag, Good t -> mono (dec_field nd t (decode nd t) tag).
Proof.
  intros t tag G s cur v s' H. unfold dec_field in H.
  destruct (negb nd && negb (tag_wire tag =? wire t)); [discriminate|]. destruct (is_ld t).
  - apply (dec_len_mono _ _ _ (g_mono t G)) in H. exact H.
  - apply (g_mono t G) in H. exact H.
Qed.
Lemma field_prog : forall t tag s cur v s', Good t -> has_data s = true ->
  dec_field nd t (decode nd t) tag s cur = Ok v s' -> (lenw s' < lenw s)%nat.
Proof.
  intros t tag s cur v s' G Hd H. unfold dec_field in H.
  destruct (negb nd && negb (tag_wire tag =? wire t)); [discriminate|]. destruct (is_ld t) eqn:Hld.
  - apply (dec_len_prog _ _ _ _ _ _ _ field_fr (g_mono t G)) in H. exact H.
  - apply (g_prog t G Hld s cur v s' Hd H).
Qed.
Lemma field_nohang : forall t tag s cur, Good t -> ctx t s -> dec_field nd t (decode nd t) tag s cur <> Hang.
Proof.
  intros t tag s cur G Hc. unfold dec_field.
  destruct (negb nd && negb (tag_wire tag =? wire t)); [discriminate|]. destruct (is_ld t).
  - apply dec_len_nohang. intros s1 Hf. apply (g_nohang t G). destruct Hc as [F|Q]; [left; auto|right; auto].
  - apply (g_nohang t G). exact Hc.
Qed.

Lemma consume_unknown_mono : forall tag s s', consume_unknown tag s = Some s' -> (lenw s' <= lenw s)%nat /\ ext s' = ext s.
Proof.
  intros tag s s' H. unfold consume_unknown in H.
  destruct (unknown_wire tag =? 0).
  { destruct (read_varint s) as [u s1| |s1] eqn:E; try discriminate. inversion H; subst.
    apply read_varint_ok_shorter in E. destruct E. split; [lia|auto]. }
  destruct (unknown_wire tag =? 5). { apply skip_mono in H. exact H. }
  destruct (unknown_wire tag =? 1). { apply skip_mono in H. exact H. }
  destruct (unknown_wire tag =? 2); [|discriminate].
  destruct (read_varint s) as [u s1| |s1] eqn:E; try discriminate.
  apply read_varint_ok_shorter in E. apply skip_mono in H. destruct E, H. split; [lia|congruence].
Qed.

Lemma has_data_lenw : forall s, has_data s = true <-> (0 < lenw s)%nat.
Proof. intros. unfold has_data, lenw. destruct (win s); cbn; split; intros; try lia; try discriminate; auto. Qed.

Lemma agg_loop_mono : forall fs, Forall (fun p => Good (snd p)) fs -> forall fuel s cur v s',
  agg_loop (tbl nd fs) fuel s cur = Ok v s' -> (lenw s' <= lenw s)%nat /\ ext s' = ext s.
Proof.
  intros fs HG. induction fuel as [|f IH]; intros s cur v s' H; [discriminate|].
  cbn [agg_loop] in H. destruct (has_data s); [|inversion H; subst; auto].
  assert (Hts : forall tag s1, (lenw s1 <= lenw s)%nat -> ext s1 = ext s ->
     match find_field (tag_field_number tag) (tbl nd fs) 0 with
     | Some (i, d) => match d tag s1 (nth i cur VNull) with
                      | Ok x s2 => if shorter s2 s then agg_loop (tbl nd fs) f s2 (upd_nth i x cur) else Hang
                      | r => r end
     | None => match consume_unknown tag s1 with
               | Some s2 => if shorter s2 s then agg_loop (tbl nd fs) f s2 cur else Hang
               | None => Fail end
     end = Ok v s' -> (lenw s' <= lenw s)%nat /\ ext s' = ext s).
  { intros tag s1 L1 X1 H1. destruct (find_field (tag_field_number tag) (tbl nd fs) 0) as [[i d]|] eqn:F.
    - apply find_field_in in F. destruct F as (p & Hp & ->).
      pose proof (proj1 (Forall_forall _ _) HG p Hp) as G.
      destruct (dec_field nd (snd p) (decode nd (snd p)) tag s1 (nth i cur VNull)) as [x s2| | |] eqn:E; try discriminate.
      destruct (shorter s2 s); [|discriminate]. apply (field_mono _ _ G) in E. apply IH in H1. destruct E, H1. split; [lia|congruence].
    - destruct (consume_unknown tag s1) as [s2|] eqn:E; [|discriminate]. destruct (shorter s2 s); [|discriminate].
      apply consume_unknown_mono in E. apply IH in H1. destruct E, H1. split; [lia|congruence]. }
  destruct (read_varint s) as [u s1| |s1] eqn:E.
  - apply read_varint_ok_shorter in E. destruct E. apply (Hts (u32 u) s1); auto. lia.
  - apply (Hts 0 s); auto.
  - unfold read_varint in E. destruct (get_varint 10 (win s)) as [[? ?]|]; [discriminate|].
    destruct (10 <=? length (win s))%nat; [discriminate|]. inversion E; subst.
    apply (Hts 0 (set_win s [])); auto. unfold lenw, set_win. cbn. lia.
Qed.

Lemma agg_loop_nohang : forall fs, Forall (fun p => Good (snd p)) fs ->
  forall fuel s cur, flat s \/ Forall (fun p => elems_ok (snd p)) fs -> (lenw s < fuel)%nat ->
  agg_loop (tbl nd fs) fuel s cur <> Hang.
Proof.
  intros fs HG. induction fuel as [|f IH]; intros s cur Hc Hf; [lia|].
  cbn [agg_loop]. destruct (has_data s) eqn:D; [|discriminate].
  assert (Hcs : forall s1, ext s1 = ext s -> flat s1 \/ Forall (fun p => elems_ok (snd p)) fs).
  { intros s1 X. destruct Hc as [F|Q]; [left; unfold flat in *; congruence|right; auto]. }
  (* a field or an unknown field read at s1: success has consumed input w.r.t. s, and never hangs *)
  assert (Hts : forall tag s1, (lenw s1 <= lenw s)%nat -> ext s1 = ext s ->
     ((lenw s1 < lenw s)%nat \/ (s1 = s /\ tag = 0 /\ read_varint s = VStay)) ->
     match find_field (tag_field_number tag) (tbl nd fs) 0 with
     | Some (i, d) => match d tag s1 (nth i cur VNull) with
                      | Ok x s2 => if shorter s2 s then agg_loop (tbl nd fs) f s2 (upd_nth i x cur) else Hang
                      | r => r end
     | None => match consume_unknown tag s1 with
               | Some s2 => if shorter s2 s then agg_loop (tbl nd fs) f s2 cur else Hang
               | None => Fail end
     end <> Hang).
  { intros tag s1 L1 X1 Hcase. destruct (find_field (tag_field_number tag) (tbl nd fs) 0) as [[i d]|] eqn:F.
    - apply find_field_in in F. destruct F as (p & Hp & ->).
      pose proof (proj1 (Forall_forall _ _) HG p Hp) as G.
      assert (Hcp : ctx (snd p) s1).
      { destruct (Hcs s1 X1) as [F|Q]; [left; auto|right]. apply (proj1 (Forall_forall _ _) Q p Hp). }
      destruct (dec_field nd (snd p) (decode nd (snd p)) tag s1 (nth i cur VNull)) as [x s2| | |] eqn:E; try discriminate.
      + pose proof (field_mono _ _ G _ _ _ _ E) as [L2 X2].
        assert (lenw s2 < lenw s)%nat.
        { destruct Hcase as [L|(-> & _ & _)]; [lia|]. apply (field_prog _ _ _ _ _ _ G D E). }
        unfold shorter. fold (lenw s2) (lenw s). replace (lenw s2 <? lenw s)%nat with true by (symmetry; apply Nat.ltb_lt; lia).
        apply IH; [|lia]. apply Hcs. congruence.
      + exfalso. apply (field_nohang _ tag s1 (nth i cur VNull) G Hcp). exact E.
    - destruct (consume_unknown tag s1) as [s2|] eqn:E; [|discriminate].
      pose proof (consume_unknown_mono _ _ _ E) as [L2 X2].
      assert (lenw s2 < lenw s)%nat.
      { destruct Hcase as [L|(-> & -> & Hst)]; [lia|]. exfalso. unfold consume_unknown in E.
        change (unknown_wire 0) with 0 in E. cbn [Z.eqb] in E. rewrite Hst in E. discriminate. }
      unfold shorter. fold (lenw s2) (lenw s). replace (lenw s2 <? lenw s)%nat with true by (symmetry; apply Nat.ltb_lt; lia).
      apply IH; [|lia]. apply Hcs. congruence. }
  destruct (read_varint s) as [u s1| |s1] eqn:E.
  - pose proof (read_varint_ok_shorter _ _ _ E) as [L X]. apply (Hts (u32 u) s1); auto. lia.
  - apply (Hts 0 s); auto.
  - unfold read_varint in E. destruct (get_varint 10 (win s)) as [[? ?]|]; [discriminate|].
    destruct (10 <=? length (win s))%nat; [discriminate|]. inversion E; subst.
    apply has_data_lenw in D.
    apply (Hts 0 (set_win s [])); auto; unfold lenw, set_win in *; cbn; try lia.
Qed.

Lemma vec_cond_data : forall s, flat s -> vec_loop_cond (bul s) = true -> has_data s = true.
Proof.
  intros s F C. unfold vec_loop_cond, bul in C. rewrite F in C. apply Z.gtb_lt in C.
  apply has_data_lenw. unfold lenw. lia.
Qed.

Lemma dec_scalar_nohang : forall k s cur, dec_scalar k s cur <> Hang.
Proof.
  intros k s cur. rewrite dec_scalar_spec. destruct k;
    try (destruct (read_varint s); discriminate); destruct (read_fixed _ s) as [[? ?]|]; discriminate.
Qed.

Theorem all_good : forall t, Good t.
Proof.
  induction t using ty_ind'.
  - (* scalar *) constructor.
    + intros s cur v s' H. cbn [decode] in H. apply dec_scalar_prog in H. destruct H. split; [lia|auto].
    + intros s cur _. apply dec_scalar_nohang.
    + intros _ s cur v s' _ H. cbn [decode] in H. apply dec_scalar_prog in H. tauto.
  - (* string *) constructor.
    + intros s cur v s' H. cbn [decode] in H. inversion H; subst. unfold lenw, set_win. cbn. split; [lia|auto].
    + intros s cur _. cbn [decode]. discriminate.
    + cbn. discriminate.
  - (* vector *) constructor.
    + intros s cur v s' H. cbn [decode] in H. destruct (is_fp t && _); [discriminate|].
      apply (seq_loop_mono _ _ _ _ (elem_mono t IHt)) in H. exact H.
    + intros s cur Hc. cbn [decode]. destruct (is_fp t && _); [discriminate|].
      apply (seq_loop_nohang _ _ _ _ (elems_ok (TVec t)) (elem_mono t IHt));
        [ intros s0 x s0' C Hc0 E; apply (elem_prog t s0 (dflt t) x s0' IHt); auto;
          destruct Hc0 as [F|[Q _]]; [left; apply vec_cond_data; auto|right; auto]
        | intros s0 Hc0; apply (elem_nohang t s0 (dflt t) IHt); destruct Hc0 as [F|[_ Q]]; [left; auto|right; auto]
        | exact Hc | unfold lenw; lia ].
    + cbn. discriminate.
  - (* list *) constructor.
    + intros s cur v s' H. cbn [decode] in H. apply (seq_loop_mono _ _ _ _ (elem_mono t IHt)) in H. exact H.
    + intros s cur Hc. cbn [decode].
      apply (seq_loop_nohang _ _ _ _ (elems_ok (TList t)) (elem_mono t IHt));
        [ intros s0 x s0' C Hc0 E; apply (elem_prog t s0 (dflt t) x s0' IHt); auto
        | intros s0 Hc0; apply (elem_nohang t s0 (dflt t) IHt); destruct Hc0 as [F|[_ Q]]; [left; auto|right; auto]
        | exact Hc | unfold lenw; lia ].
    + cbn. discriminate.
  - (* set *) constructor.
    + intros s cur v s' H. cbn [decode] in H. apply (seq_loop_mono _ _ _ _ (elem_mono t IHt)) in H. exact H.
    + intros s cur Hc. cbn [decode].
      apply (seq_loop_nohang _ _ _ _ (elems_ok (TSet t)) (elem_mono t IHt));
        [ intros s0 x s0' C Hc0 E; apply (elem_prog t s0 (dflt t) x s0' IHt); auto
        | intros s0 Hc0; apply (elem_nohang t s0 (dflt t) IHt); destruct Hc0 as [F|[_ Q]]; [left; auto|right; auto]
        | exact Hc | unfold lenw; lia ].
    + cbn. discriminate.
  - (* map *) constructor.
    + intros s cur v s' H. cbn [decode] in H.
      apply (map_loop_mono _ _ _ _ (elem_mono t1 IHt1) (elem_mono t2 IHt2)) in H. exact H.
    + intros s cur Hc. cbn [decode].
      apply (map_loop_nohang _ _ _ _ (elems_ok (TMap t1 t2)) (elem_mono t1 IHt1) (elem_mono t2 IHt2));
        [ intros s0 x s0' C E; apply (elem_prog t1 s0 (dflt t1) x s0' IHt1); auto
        | intros s0 Hc0; apply (elem_nohang t1 s0 (dflt t1) IHt1); destruct Hc0 as [F|(_ & _ & Q & _)]; [left; auto|right; auto]
        | intros s0 Hc0; apply (elem_nohang t2 s0 (dflt t2) IHt2); destruct Hc0 as [F|(_ & _ & _ & Q)]; [left; auto|right; auto]
        | exact Hc | unfold lenw; lia ].
    + cbn. discriminate.
  - (* array *) constructor.
    + intros s cur v s' H. cbn [decode] in H. apply (arr_go_mono _ (elem_mono t IHt)) in H. exact H.
    + intros s cur Hc. cbn [decode].
      apply (arr_go_nohang _ (elems_ok (TArr n t)) (elem_mono t IHt));
        [ intros s0 c Hc0; apply (elem_nohang t s0 c IHt); destruct Hc0 as [F|[_ Q]]; [left; auto|right; auto]
        | exact Hc ].
    + cbn. discriminate.
  - (* pointer *) constructor.
    + intros s cur v s' H. cbn [decode] in H. rewrite ptr_guard_eq in H. destruct (has_data s).
      * destruct (decode nd t s _) as [x s1| | |] eqn:E; try discriminate. inversion H; subst.
        apply (g_mono t IHt) in E. exact E.
      * inversion H; subst. auto.
    + intros s cur Hc. cbn [decode]. rewrite ptr_guard_eq. destruct (has_data s); [|discriminate].
      destruct (decode nd t s _) as [x s1| | |] eqn:E; try discriminate.
      exfalso. revert E. apply (g_nohang t IHt). exact Hc.
    + intros Hld s cur v s' Hd H. cbn [is_ld wire] in Hld. cbn [decode] in H. rewrite ptr_guard_eq, Hd in H.
      destruct (decode nd t s _) as [x s1| | |] eqn:E; try discriminate. inversion H; subst.
      apply (g_prog t IHt Hld _ _ _ _ Hd E).
  - (* aggregate *) constructor.
    + intros s cur v s' H0. cbn [decode] in H0. fold (tbl nd fs) in H0. apply (agg_loop_mono fs H) in H0. exact H0.
    + intros s cur Hc. cbn [decode]. fold (tbl nd fs). apply (agg_loop_nohang fs H);
        [ destruct Hc as [F|Q]; [left; auto|right; cbn [elems_ok] in Q; apply elems_ok_fields in Q; exact Q]
        | unfold lenw; lia ].
    + cbn. discriminate.
Qed.
End NoHang.

(* parsing any byte string into any type terminates (flat array, string, stream under an enclosing limit) *)
Theorem parse_terminates : forall nd t bs, parse nd false t bs <> Hang.
Proof. intros. unfold parse. apply (g_nohang nd t (all_good nd t)). left. reflexivity. Qed.

(* on a stream without any limit too, when no container holds smart pointers to scalars *)
Theorem parse_terminates_unlimited : forall nd t bs, elems_ok t -> parse nd true t bs <> Hang.
Proof. intros. unfold parse. apply (g_nohang nd t (all_good nd t)). right. assumption. Qed.

Lemma ty_ok_elems_ok : forall t, ty_ok t -> elems_ok t.
Proof.
  induction t using ty_ind'; cbn [ty_ok elems_ok]; intros Hok; auto; try tauto.
  destruct Hok as [_ Hf]. apply ty_ok_fields in Hf. apply elems_ok_fields.
  induction H; constructor; inversion Hf; subst; [apply H; tauto|apply IHForall; auto].
Qed.

(* a parser only moves forward and never past its limit: what is left is no longer than what it was given *)
Theorem decode_consumes : forall nd t s cur v s', decode nd t s cur = Ok v s' ->
  (length (win s') <= length (win s))%nat /\ ext s' = ext s.
Proof. intros nd t. apply (g_mono nd t (all_good nd t)). Qed.
