(* Publication (message-passing) skeletons of babylon components as release/acquire litmus programs,
   parameterised by the memory orders the translator regenerates from the source.
   Common layout: location 0 = the atomic flag / index / pointer that publishes, location 1 (and 2) = the
   non-atomic payload; the producer is thread 0 and the consumer the LAST thread; the consumer's r0 is what
   it loaded from the flag and r1 the payload it then read.
   BAD: the consumer saw the publication and (some payload access was a data race, or it read a payload
   other than the one written before the publication). *)
From Coq Require Import ZArith List Bool.
Require Import Verif.Base.Atomics Verif.WM.RA.
Import ListNotations.
Local Open Scope Z_scope.

(* consumer thread c saw flag value f and (race or payload <> v) *)
Definition saw_bad (c : nat) (f v : Z) (o : outcome) : bool :=
  Z.eqb (oreg o c 0) f && (oracy o || negb (Z.eqb (oreg o c 1) v)).

(* ---- store / load: the plain publication (future's state word, queue slot version, topic index) ----
   producer: payload := 42; flag.store(1, o_store)
   consumer: r0 := flag.load(o_load); if r0 = 1 then r1 := payload *)
Definition mp_store_load (o_store o_load : morder) : list (list instr) :=
  [ [IWna 1 42; ISt 0 1 o_store];
    [ILd 0 0 o_load; IJmpIfNot 0 1 1; IRna 1 1] ].
Definition mp_bad : outcome -> bool := saw_bad 1 1 42.
Definition mp_safe (o_store o_load : morder) : bool :=
  forallb (fun o => negb (mp_bad o)) (outcomes (mp_store_load o_store o_load)).

(* ---- fences: the batch paths of the bounded queue / topic: all slots are written, ONE release fence,
   then relaxed version stores; relaxed version loads, ONE acquire fence, then the payloads are read ----
   producer: payload := 42; [fence(release)]; flag.store(1, relaxed)
   consumer: r0 := flag.load(relaxed); [fence(acquire)]; if r0 = 1 then r1 := payload *)
Definition mp_fences (f_rel f_acq : bool) : list (list instr) :=
  [ [IWna 1 42] ++ (if f_rel then [IFence Release] else []) ++ [ISt 0 1 Relaxed];
    [ILd 0 0 Relaxed] ++ (if f_acq then [IFence Acquire] else []) ++ [IJmpIfNot 0 1 1; IRna 1 1] ].
Definition mp_fences_safe (f_rel f_acq : bool) : bool :=
  forallb (fun o => negb (mp_bad o)) (outcomes (mp_fences f_rel f_acq)).

(* the same with the fence orders as found in the source (a seq_cst or acq_rel fence serves as both) *)
Definition mp_fence_orders (o_pf o_cf : morder) : list (list instr) :=
  [ [IWna 1 42; IFence o_pf; ISt 0 1 Relaxed];
    [ILd 0 0 Relaxed; IFence o_cf; IJmpIfNot 0 1 1; IRna 1 1] ].
Definition mp_fence_orders_safe (o_pf o_cf : morder) : bool :=
  forallb (fun o => negb (mp_bad o)) (outcomes (mp_fence_orders o_pf o_cf)).

(* ---- exchange: the producer publishes with an RMW (futex word exchange, slot state exchange) ----
   producer: payload := 42; r0 := flag.exchange(1, o_x) *)
Definition mp_xchg (o_x o_load : morder) : list (list instr) :=
  [ [IWna 1 42; IXchg 0 0 1 o_x];
    [ILd 0 0 o_load; IJmpIfNot 0 1 1; IRna 1 1] ].
Definition mp_xchg_safe (o_x o_load : morder) : bool :=
  forallb (fun o => negb (mp_bad o)) (outcomes (mp_xchg o_x o_load)).

(* ---- release sequence: a third thread bumps the flag with an RMW (fetch_add on an index / counter that
   also publishes); the consumer that reads the RMW's value must still see the producer's payload ----
   producer: payload := 42; flag.store(1, o_store)
   bumper  : r0 := flag.compare_exchange(1 -> 2, o_rmw)        (fetch_add(1) once the producer stored)
   consumer: r0 := flag.load(o_load); if r0 = 2 then r1 := payload *)
Definition mp_rmw_chain (o_store o_rmw o_load : morder) : list (list instr) :=
  [ [IWna 1 42; ISt 0 1 o_store];
    [ICas 0 0 1 2 o_rmw];
    [ILd 0 0 o_load; IJmpIfNot 0 2 1; IRna 1 1] ].
Definition mp_chain_bad : outcome -> bool := saw_bad 2 2 42.
Definition mp_rmw_chain_safe (o_store o_rmw o_load : morder) : bool :=
  forallb (fun o => negb (mp_chain_bad o)) (outcomes (mp_rmw_chain o_store o_rmw o_load)).

(* contrast: the third thread bumps with load + plain store instead of an RMW: this is NOT a release
   sequence, the consumer reading 2 synchronises with the bumper only *)
Definition mp_store_chain (o_store o_bump o_load : morder) : list (list instr) :=
  [ [IWna 1 42; ISt 0 1 o_store];
    [ILd 0 0 Relaxed; IJmpIfNot 0 1 1; ISt 0 2 o_bump];
    [ILd 0 0 o_load; IJmpIfNot 0 2 1; IRna 1 1] ].
Definition mp_store_chain_safe (o_store o_bump o_load : morder) : bool :=
  forallb (fun o => negb (mp_chain_bad o)) (outcomes (mp_store_chain o_store o_bump o_load)).

(* ---- pointer publication by CAS (concurrent vector's block table, hash table's next pointer) ----
   location 0 = the pointer slot (0 = null, 1 / 2 = block A / B), location 1 / 2 = contents of block A / B.
   producer A: blockA := 42; r0 := slot.compare_exchange(null -> A, o_succ)     (the loser drops its block)
   producer B: blockB := 43; r0 := slot.compare_exchange(null -> B, o_succ)
   consumer  : r0 := slot.load(o_load); if r0 = A then r1 := blockA; if r0 = B then r1 := blockB *)
Definition mp_cas_publish (o_succ o_load : morder) : list (list instr) :=
  [ [IWna 1 42; ICas 0 0 0 1 o_succ];
    [IWna 2 43; ICas 0 0 0 2 o_succ];
    [ILd 0 0 o_load; IJmpIfNot 0 1 1; IRna 1 1; IJmpIfNot 0 2 1; IRna 1 2] ].
Definition mp_cas_bad (o : outcome) : bool := saw_bad 2 1 42 o || saw_bad 2 2 43 o.
Definition mp_cas_safe (o_succ o_load : morder) : bool :=
  forallb (fun o => negb (mp_cas_bad o)) (outcomes (mp_cas_publish o_succ o_load)).

(* the loser of the CAS uses the winner's block: the CAS itself (its failure path) must acquire.
   producer A: blockA := 42; r0 := CAS(null -> A, o_cas); if r0 = B then r1 := blockB     (and symmetrically) *)
Definition mp_cas_loser (o_cas : morder) : list (list instr) :=
  [ [IWna 1 42; ICas 0 0 0 1 o_cas; IJmpIfNot 0 2 1; IRna 1 2];
    [IWna 2 43; ICas 0 0 0 2 o_cas; IJmpIfNot 0 1 1; IRna 1 1] ].
Definition mp_loser_bad (o : outcome) : bool := saw_bad 0 2 43 o || saw_bad 1 1 42 o.
Definition mp_cas_loser_safe (o_cas : morder) : bool :=
  forallb (fun o => negb (mp_loser_bad o)) (outcomes (mp_cas_loser o_cas)).

(* ---- results (the lifted statements are in WM/RALitmusProofs.v) ---- *)
Lemma mp_rel_acq : mp_safe Release Acquire = true. Proof. vm_compute. reflexivity. Qed.
Lemma mp_sc_sc : mp_safe SeqCst SeqCst = true. Proof. vm_compute. reflexivity. Qed.
Lemma mp_relaxed_store_unsafe : mp_safe Relaxed Acquire = false. Proof. vm_compute. reflexivity. Qed.
Lemma mp_relaxed_load_unsafe : mp_safe Release Relaxed = false. Proof. vm_compute. reflexivity. Qed.
Lemma mp_swapped_orders_unsafe : mp_safe Acquire Release = false. Proof. vm_compute. reflexivity. Qed.
(* safe exactly when the store releases and the load acquires *)
Lemma mp_safe_iff : forall o1 o2, mp_safe o1 o2 = has_release o1 && has_acquire o2.
Proof. intros o1 o2. destruct o1, o2; vm_compute; reflexivity. Qed.

Lemma mp_fences_both : mp_fences_safe true true = true. Proof. vm_compute. reflexivity. Qed.
Lemma mp_fences_no_release_unsafe : mp_fences_safe false true = false. Proof. vm_compute. reflexivity. Qed.
Lemma mp_fences_no_acquire_unsafe : mp_fences_safe true false = false. Proof. vm_compute. reflexivity. Qed.
Lemma mp_fences_none_unsafe : mp_fences_safe false false = false. Proof. vm_compute. reflexivity. Qed.
Lemma mp_fence_orders_iff : forall o1 o2, mp_fence_orders_safe o1 o2 = has_release o1 && has_acquire o2.
Proof. intros o1 o2. destruct o1, o2; vm_compute; reflexivity. Qed.

Lemma mp_xchg_rel_acq : mp_xchg_safe Release Acquire = true. Proof. vm_compute. reflexivity. Qed.
Lemma mp_xchg_acqrel_acq : mp_xchg_safe AcqRel Acquire = true. Proof. vm_compute. reflexivity. Qed.
Lemma mp_xchg_acquire_only_unsafe : mp_xchg_safe Acquire Acquire = false. Proof. vm_compute. reflexivity. Qed.
Lemma mp_xchg_relaxed_unsafe : mp_xchg_safe Relaxed Acquire = false. Proof. vm_compute. reflexivity. Qed.
Lemma mp_xchg_relaxed_load_unsafe : mp_xchg_safe Release Relaxed = false. Proof. vm_compute. reflexivity. Qed.

(* a RELAXED rmw in the middle keeps the release sequence; a plain store (even a release one) breaks it *)
Lemma mp_rmw_chain_relaxed_rmw : mp_rmw_chain_safe Release Relaxed Acquire = true.
Proof. vm_compute. reflexivity. Qed.
Lemma mp_rmw_chain_relaxed_store_unsafe : mp_rmw_chain_safe Relaxed Relaxed Acquire = false.
Proof. vm_compute. reflexivity. Qed.
Lemma mp_rmw_chain_relaxed_load_unsafe : mp_rmw_chain_safe Release Relaxed Relaxed = false.
Proof. vm_compute. reflexivity. Qed.
Lemma mp_store_chain_unsafe : mp_store_chain_safe Release Release Acquire = false.
Proof. vm_compute. reflexivity. Qed.

Lemma mp_cas_rel_acq : mp_cas_safe Release Acquire = true. Proof. vm_compute. reflexivity. Qed.
Lemma mp_cas_acqrel_acq : mp_cas_safe AcqRel Acquire = true. Proof. vm_compute. reflexivity. Qed.
Lemma mp_cas_relaxed_unsafe : mp_cas_safe Relaxed Acquire = false. Proof. vm_compute. reflexivity. Qed.
Lemma mp_cas_acquire_only_unsafe : mp_cas_safe Acquire Acquire = false. Proof. vm_compute. reflexivity. Qed.
Lemma mp_cas_relaxed_load_unsafe : mp_cas_safe Release Relaxed = false. Proof. vm_compute. reflexivity. Qed.
Lemma mp_cas_loser_acqrel : mp_cas_loser_safe AcqRel = true. Proof. vm_compute. reflexivity. Qed.
Lemma mp_cas_loser_release_only_unsafe : mp_cas_loser_safe Release = false. Proof. vm_compute. reflexivity. Qed.
Lemma mp_cas_loser_acquire_only_unsafe : mp_cas_loser_safe Acquire = false. Proof. vm_compute. reflexivity. Qed.
