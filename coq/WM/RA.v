(* A small operational view-based RELEASE/ACQUIRE machine for publication skeletons ("litmus programs"),
   with an executable exhaustive explorer; WM/RAProofs.v proves the explorer complete: every terminated
   execution under ANY schedule of thread steps and ANY admissible choice of the message a load reads
   produces one of the outcomes the explorer lists.  So `forallb ok (outcomes p) = true`, checked by
   vm_compute for a concrete skeleton, is a theorem about all of its executions.

   Atomic memory: per location an append-only list of messages (value, view) in modification order; index 0
   is the initial message (value 0, empty view).  A view maps a location to a message index (default 0):
   "this thread has observed the message with that index, and everything that message's writer had
   observed when it released it".  Each thread carries three views: `cur` (what it has observed, i.e. what
   happens-before its next instruction), `acq` (what relaxed loads have read and an acquire fence will make
   current) and `rel` (cur at its last release fence; what a relaxed store publishes).
     load      may read ANY message of the location not older than cur (the choice is part of the action);
               acquire: cur := cur |_| msg.view, relaxed: acq := acq |_| msg.view;
     store     appends a message carrying cur (release) or rel (relaxed), plus itself;
     RMW       reads the LAST message only and its message additionally carries the view of the message it
               read - so a relaxed RMW continues a release sequence (C++20: RMWs only, a plain store by
               another or the same thread does not); a failed CAS is a load of the last message;
     fence     acquire: cur := cur |_| acq; then release: rel := cur.
   Non-atomic (payload) locations: `na` holds the last write and the writer's view at that write.  A
   non-atomic write bumps the writer's own timestamp for that location (so the write itself is something a
   view can or cannot include); a non-atomic access whose thread's cur does not include (pointwise <=) the
   view recorded with the last write is not ordered after that write by happens-before: a DATA RACE, the
   thread's `racy` flag is set.  (Detected: write->read and write->write races.  A read followed by an
   unordered write is not flagged; publication skeletons write the payload before publishing only.)
   A location is used either atomically or non-atomically, never both.

   SeqCst is treated as AcqRel: this machine is for publication (message passing); the store-buffering
   patterns that need the seq_cst total order are WM/TSO.v's job. *)
From Coq Require Import ZArith List Bool Lia.
Require Import Verif.Base.Atomics.
Import ListNotations.
Local Open Scope Z_scope.

Notation loc := nat (only parsing).
Notation reg := nat (only parsing).

Definition view := list (loc * nat).
Definition msg := (Z * view)%type.

Inductive instr :=
| IWna (l : loc) (v : Z)                       (* non-atomic write of a constant (payload) *)
| IRna (r : reg) (l : loc)                     (* non-atomic read into a register *)
| ISt (l : loc) (v : Z) (o : morder)           (* atomic store of a constant *)
| ILd (r : reg) (l : loc) (o : morder)         (* atomic load into a register *)
| IXchg (r : reg) (l : loc) (v : Z) (o : morder)     (* atomic exchange, old value into r *)
| ICas (r : reg) (l : loc) (e d : Z) (o : morder)
    (* compare-exchange (strong): r := old value; replaced by d iff old = e (so success iff r = e) *)
| IFence (o : morder)                          (* atomic_thread_fence *)
| IJmpIfNot (r : reg) (v : Z) (skip : nat).    (* if reg r <> v then skip the next `skip` instructions *)

Record thread := { code : list instr; regs : list (reg * Z); cur : view; acq : view; rel : view; racy : bool }.
Record state := { mem : list (loc * list msg); na : list (loc * (Z * view)); ths : list thread }.

Fixpoint lookup {V} (d : V) (k : nat) (m : list (nat * V)) : V :=
  match m with
  | [] => d
  | (k', v) :: r => if Nat.eqb k k' then v else lookup d k r
  end.
Definition getr (th : thread) (r : reg) : Z := lookup 0 r (regs th).

(* views *)
Definition vget (v : view) (l : loc) : nat := lookup 0%nat l v.
Definition vset (v : view) (l : loc) (n : nat) : view := (l, n) :: v.
(* a <= b pointwise on all locations mentioned in a (the others are 0 in a) *)
Definition vle (a b : view) : bool := forallb (fun p => Nat.leb (vget a (fst p)) (vget b (fst p))) a.
(* pointwise maximum *)
Definition vjoin (a b : view) : view :=
  fold_right (fun p acc => let n := vget b (fst p) in
                           if Nat.leb n (vget acc (fst p)) then acc else (fst p, n) :: acc) a b.

(* atomic memory: messages of l in modification order, index 0 = the initial message *)
Definition init_msg : msg := (0, []).
Definition hist (m : list (loc * list msg)) (l : loc) : list msg := lookup [] l m.
Definition msgs (m : list (loc * list msg)) (l : loc) : list msg := init_msg :: hist m l.
Definition append (m : list (loc * list msg)) (l : loc) (x : msg) : list (loc * list msg) :=
  (l, hist m l ++ [x]) :: m.
(* non-atomic store: last write and its writer's view *)
Definition nard (n : list (loc * (Z * view))) (l : loc) : Z * view := lookup (0, []) l n.

Fixpoint set_nth {A} (n : nat) (x : A) (l : list A) : list A :=
  match l, n with
  | [], _ => []
  | _ :: r, O => x :: r
  | y :: r, S n' => y :: set_nth n' x r
  end.

(* choice selects the message an atomic load reads; every other instruction ignores it *)
Inductive action := Exec (t : nat) (choice : nat).

(* read-modify-write on l: reads the last message; `upd old` = Some new value, or None (failed CAS: load only) *)
Definition rmw (m : list (loc * list msg)) (th : thread) (c : list instr) (r : reg) (l : loc)
           (upd : Z -> option Z) (o : morder) : list (loc * list msg) * thread :=
  let i := length (msgs m l) in
  let old := nth (pred i) (msgs m l) init_msg in
  let cur0 := vset (cur th) l (pred i) in
  let cur1 := if has_acquire o then vjoin cur0 (snd old) else cur0 in
  let acq1 := if has_acquire o then acq th else vjoin (acq th) (snd old) in
  match upd (fst old) with
  | None => (m, {| code := c; regs := (r, fst old) :: regs th; cur := cur1; acq := acq1; rel := rel th;
                   racy := racy th |})
  | Some d =>
    let cur2 := vset cur1 l i in
    let vw := vjoin (if has_release o then cur2 else vset (rel th) l i) (snd old) in
    (append m l (d, vw), {| code := c; regs := (r, fst old) :: regs th; cur := cur2; acq := acq1; rel := rel th;
                            racy := racy th |})
  end.

Definition exec_thread (m : list (loc * list msg)) (n : list (loc * (Z * view))) (th : thread) (choice : nat)
  : option (list (loc * list msg) * list (loc * (Z * view)) * thread) :=
  match code th with
  | [] => None
  | IWna l v :: c =>
    let w := nard n l in
    let cur1 := vset (cur th) l (S (vget (snd w) l)) in
    Some (m, (l, (v, cur1)) :: n,
          {| code := c; regs := regs th; cur := cur1; acq := acq th; rel := rel th;
             racy := racy th || negb (vle (snd w) (cur th)) |})
  | IRna r l :: c =>
    let w := nard n l in
    Some (m, n, {| code := c; regs := (r, fst w) :: regs th; cur := cur th; acq := acq th; rel := rel th;
                   racy := racy th || negb (vle (snd w) (cur th)) |})
  | ISt l v o :: c =>
    let i := length (msgs m l) in
    let cur1 := vset (cur th) l i in
    let vw := if has_release o then cur1 else vset (rel th) l i in
    Some (append m l (v, vw), n,
          {| code := c; regs := regs th; cur := cur1; acq := acq th; rel := rel th; racy := racy th |})
  | ILd r l o :: c =>
    if Nat.leb (vget (cur th) l) choice && Nat.ltb choice (length (msgs m l)) then
      let x := nth choice (msgs m l) init_msg in
      let cur1 := vset (cur th) l choice in
      Some (m, n, {| code := c; regs := (r, fst x) :: regs th;
                     cur := if has_acquire o then vjoin cur1 (snd x) else cur1;
                     acq := if has_acquire o then acq th else vjoin (acq th) (snd x);
                     rel := rel th; racy := racy th |})
    else None
  | IXchg r l v o :: c => let (m', th') := rmw m th c r l (fun _ => Some v) o in Some (m', n, th')
  | ICas r l e d o :: c =>
    let (m', th') := rmw m th c r l (fun x => if Z.eqb x e then Some d else None) o in Some (m', n, th')
  | IFence o :: c =>
    let cur1 := if has_acquire o then vjoin (cur th) (acq th) else cur th in
    Some (m, n, {| code := c; regs := regs th; cur := cur1; acq := acq th;
                   rel := if has_release o then cur1 else rel th; racy := racy th |})
  | IJmpIfNot r v k :: c =>
    let c' := if Z.eqb (getr th r) v then c else skipn k c in
    Some (m, n, {| code := c'; regs := regs th; cur := cur th; acq := acq th; rel := rel th; racy := racy th |})
  end.

Definition step (s : state) (a : action) : option state :=
  match a with
  | Exec t ch =>
    match nth_error (ths s) t with
    | None => None
    | Some th =>
      match exec_thread (mem s) (na s) th ch with
      | None => None
      | Some (m', n', th') => Some {| mem := m'; na := n'; ths := set_nth t th' (ths s) |}
      end
    end
  end.

Definition final (s : state) : bool :=
  forallb (fun th => match code th with [] => true | _ => false end) (ths s).

(* registers per thread, and: did any thread perform a racy non-atomic access *)
Definition outcome := (list (list (reg * Z)) * bool)%type.
Definition result (s : state) : outcome := (map regs (ths s), existsb racy (ths s)).

(* the choices worth trying for thread th: the admissible messages if its next instruction is a load, else
   just 0 (the choice is ignored, every other value gives the same step) *)
Definition choices (m : list (loc * list msg)) (th : thread) : list nat :=
  match code th with
  | ILd _ l _ :: _ => seq (vget (cur th) l) (length (msgs m l) - vget (cur th) l)
  | _ => [0%nat]
  end.
Definition actions (s : state) : list action :=
  flat_map (fun t => match nth_error (ths s) t with
                     | Some th => map (Exec t) (choices (mem s) th)
                     | None => []
                     end) (seq 0 (length (ths s))).

(* exhaustive exploration; fuel bounds the length of an execution *)
Fixpoint explore (fuel : nat) (s : state) : list outcome :=
  match fuel with
  | O => []
  | S f =>
    if final s then [result s]
    else flat_map (fun a => match step s a with Some s' => explore f s' | None => [] end) (actions s)
  end.

(* a run under an arbitrary schedule of actions (a disabled action is skipped) *)
Fixpoint run (s : state) (sch : list action) : state :=
  match sch with
  | [] => s
  | a :: r => run (match step s a with Some s' => s' | None => s end) r
  end.

(* every enabled step consumes at least one instruction: the total number of remaining instructions
   strictly decreases, so `measure s` is enough fuel *)
Definition tmeasure (th : thread) : nat := length (code th).
Definition measure (s : state) : nat := fold_right (fun th a => tmeasure th + a)%nat 0%nat (ths s).

Definition init (progs : list (list instr)) : state :=
  {| mem := []; na := [];
     ths := map (fun c => {| code := c; regs := []; cur := []; acq := []; rel := []; racy := false |}) progs |}.

Definition outcomes (progs : list (list instr)) : list outcome :=
  explore (S (measure (init progs))) (init progs).

(* register r of thread t in an outcome; the global race flag *)
Definition oreg (o : outcome) (t : nat) (r : reg) : Z := lookup 0 r (nth t (fst o) []).
Definition oracy (o : outcome) : bool := snd o.

(* search for a witness: the first schedule (depth-first) that terminates in an outcome satisfying `bad` *)
Fixpoint find_bad (fuel : nat) (bad : outcome -> bool) (s : state) : option (list action) :=
  match fuel with
  | O => None
  | S f =>
    if final s then (if bad (result s) then Some [] else None)
    else
      (fix try (acts : list action) : option (list action) :=
         match acts with
         | [] => None
         | a :: r =>
           match step s a with
           | Some s' => match find_bad f bad s' with Some p => Some (a :: p) | None => try r end
           | None => try r
           end
         end) (actions s)
  end.
Definition witness (progs : list (list instr)) (bad : outcome -> bool) : option (list action) :=
  find_bad (S (measure (init progs))) bad (init progs).
