(* A small explicit store-buffer (x86-TSO style) machine for synchronisation skeletons ("litmus
   programs"), with an executable exhaustive explorer and the proof that the explorer is complete:
   every terminated execution under ANY schedule of thread steps and buffer flushes produces one of the
   outcomes the explorer lists.  So `forallb ok (outcomes p) = true`, checked by vm_compute for a
   concrete skeleton, is a theorem about all of its executions.

   Store buffers are per thread, FIFO; a load reads the newest buffered store of its own thread to that
   location, else memory (per location: a 32-bit word written in two 16-bit halves is modelled as two
   locations, so forwarding is per half - this is weaker than x86, which stalls a partially overlapping
   load, hence safe for it); fences and read-modify-writes execute only with the thread's own buffer
   empty and RMWs act on memory atomically (LOCK prefix / seq_cst RMW); `Flush t` commits the oldest
   buffered store of t. *)
From Coq Require Import ZArith List Bool Lia.
Import ListNotations.
Local Open Scope Z_scope.

Notation loc := nat (only parsing).
Notation reg := nat (only parsing).

Inductive instr :=
| ISt (l : loc) (v : Z)                      (* plain / relaxed / release store of a constant *)
| ILd (r : reg) (l : loc)                    (* load into a register *)
| IFence                                     (* mfence / seq_cst fence *)
| IAdd (r : reg) (l : loc) (d : Z)           (* atomic fetch_add, old value into r *)
| ICas2 (r : reg) (l1 l2 : loc) (e1 e2 d1 d2 : Z)
    (* atomic compare-exchange on the pair (l1,l2): r := 1 if it matched (and was replaced), else 0 *)
| ICmp2 (r : reg) (l1 l2 : loc) (e1 e2 : Z)  (* atomic read of the pair from memory (futex_wait's kernel-side
                                                comparison, done under the bucket lock): r := 1 iff equal *)
| IJmpIfNot (r : reg) (v : Z) (skip : nat).  (* if reg r <> v then skip the next `skip` instructions *)

Record thread := { code : list instr; regs : list (reg * Z); buf : list (loc * Z) }.
Record state := { mem : list (loc * Z); ths : list thread }.

Fixpoint lookup {K} (eqb : K -> K -> bool) (k : K) (m : list (K * Z)) : Z :=
  match m with
  | [] => 0
  | (k', v) :: r => if eqb k k' then v else lookup eqb k r
  end.
Definition rd (m : list (loc * Z)) (l : loc) : Z := lookup Nat.eqb l m.
Definition wr (m : list (loc * Z)) (l : loc) (v : Z) : list (loc * Z) := (l, v) :: m.
Definition getr (th : thread) (r : reg) : Z := lookup Nat.eqb r (regs th).

(* newest buffered store to l, if any (buffer is oldest-first) *)
Fixpoint fwd (b : list (loc * Z)) (l : loc) : option Z :=
  match b with
  | [] => None
  | (l', v) :: r => match fwd r l with Some x => Some x | None => if Nat.eqb l l' then Some v else None end
  end.

Fixpoint set_nth {A} (n : nat) (x : A) (l : list A) : list A :=
  match l, n with
  | [], _ => []
  | _ :: r, O => x :: r
  | y :: r, S n' => y :: set_nth n' x r
  end.

Inductive action := Exec (t : nat) | Flush (t : nat).

Definition buf_empty (th : thread) : bool := match buf th with [] => true | _ => false end.

Definition exec_thread (m : list (loc * Z)) (th : thread) : option (list (loc * Z) * thread) :=
  match code th with
  | [] => None
  | ISt l v :: c => Some (m, {| code := c; regs := regs th; buf := buf th ++ [(l, v)] |})
  | ILd r l :: c =>
    let v := match fwd (buf th) l with Some x => x | None => rd m l end in
    Some (m, {| code := c; regs := (r, v) :: regs th; buf := buf th |})
  | IFence :: c => if buf_empty th then Some (m, {| code := c; regs := regs th; buf := [] |}) else None
  | IAdd r l d :: c =>
    if buf_empty th then Some (wr m l (rd m l + d), {| code := c; regs := (r, rd m l) :: regs th; buf := [] |})
    else None
  | ICas2 r l1 l2 e1 e2 d1 d2 :: c =>
    if buf_empty th then
      if Z.eqb (rd m l1) e1 && Z.eqb (rd m l2) e2
      then Some (wr (wr m l1 d1) l2 d2, {| code := c; regs := (r, 1) :: regs th; buf := [] |})
      else Some (m, {| code := c; regs := (r, 0) :: regs th; buf := [] |})
    else None
  | ICmp2 r l1 l2 e1 e2 :: c =>
    let v := if Z.eqb (rd m l1) e1 && Z.eqb (rd m l2) e2 then 1 else 0 in
    Some (m, {| code := c; regs := (r, v) :: regs th; buf := buf th |})
  | IJmpIfNot r v k :: c =>
    if Z.eqb (getr th r) v then Some (m, {| code := c; regs := regs th; buf := buf th |})
    else Some (m, {| code := skipn k c; regs := regs th; buf := buf th |})
  end.

Definition step (s : state) (a : action) : option state :=
  match a with
  | Exec t =>
    match nth_error (ths s) t with
    | None => None
    | Some th =>
      match exec_thread (mem s) th with
      | None => None
      | Some (m', th') => Some {| mem := m'; ths := set_nth t th' (ths s) |}
      end
    end
  | Flush t =>
    match nth_error (ths s) t with
    | None => None
    | Some th =>
      match buf th with
      | [] => None
      | (l, v) :: b => Some {| mem := wr (mem s) l v;
                               ths := set_nth t {| code := code th; regs := regs th; buf := b |} (ths s) |}
      end
    end
  end.

Definition final (s : state) : bool :=
  forallb (fun th => match code th, buf th with [], [] => true | _, _ => false end) (ths s).

Definition outcome := list (list (reg * Z)).
Definition result (s : state) : outcome := map regs (ths s).

Definition actions (s : state) : list action :=
  flat_map (fun t => [Exec t; Flush t]) (seq 0 (length (ths s))).

(* exhaustive exploration; fuel bounds the length of an execution *)
Fixpoint explore (fuel : nat) (s : state) : list outcome :=
  match fuel with
  | O => []
  | S f =>
    if final s then [result s]
    else flat_map (fun a => match step s a with Some s' => explore f s' | None => [] end) (actions s)
  end.

(* a run under an arbitrary schedule of actions (a disabled action is skipped) *)
Fixpoint run (s : state) (sch : list action) : state :=
  match sch with
  | [] => s
  | a :: r => run (match step s a with Some s' => s' | None => s end) r
  end.

(* every instruction executes at most once and stores flush at most once: this measure strictly decreases
   on every enabled step, so `measure s` is enough fuel *)
Definition tmeasure (th : thread) : nat := 2 * length (code th) + length (buf th).
Definition measure (s : state) : nat := fold_right (fun th a => tmeasure th + a)%nat 0%nat (ths s).

Definition init (progs : list (list instr)) : state :=
  {| mem := []; ths := map (fun c => {| code := c; regs := []; buf := [] |}) progs |}.

Definition outcomes (progs : list (list instr)) : list outcome :=
  explore (S (measure (init progs))) (init progs).

(* register r of thread t in an outcome *)
Definition oreg (o : outcome) (t : nat) (r : reg) : Z := lookup Nat.eqb r (nth t o []).

(* search for a witness: the first schedule (depth-first) that terminates in an outcome satisfying `bad` *)
Fixpoint find_bad (fuel : nat) (bad : outcome -> bool) (s : state) : option (list action) :=
  match fuel with
  | O => None
  | S f =>
    if final s then (if bad (result s) then Some [] else None)
    else
      (fix try (acts : list action) : option (list action) :=
         match acts with
         | [] => None
         | a :: r =>
           match step s a with
           | Some s' => match find_bad f bad s' with Some p => Some (a :: p) | None => try r end
           | None => try r
           end
         end) (actions s)
  end.
Definition witness (progs : list (list instr)) (bad : outcome -> bool) : option (list action) :=
  find_bad (S (measure (init progs))) bad (init progs).
