(* The explorer of WM/RA.v is complete: every execution that terminates, under any schedule of thread
   steps and any admissible choice of the message each load reads, ends in one of the listed outcomes. *)
From Coq Require Import ZArith List Bool Lia Arith.
Require Import Verif.Base.Atomics Verif.WM.RA.
Import ListNotations.

Lemma final_no_step : forall s a, final s = true -> step s a = None.
Proof.
  intros s a Hf. unfold final in Hf. rewrite forallb_forall in Hf.
  destruct a as [t ch]; cbn [step].
  destruct (nth_error (ths s) t) as [th|] eqn:E; [|reflexivity].
  apply nth_error_In in E. apply Hf in E. unfold exec_thread.
  destruct (code th); [reflexivity|]. discriminate.
Qed.

(* only loads look at the choice *)
Lemma exec_choice_irrelevant : forall m n th ch,
  (forall r l o c, code th <> ILd r l o :: c) -> exec_thread m n th ch = exec_thread m n th 0.
Proof.
  intros m n th ch Hn. unfold exec_thread.
  destruct (code th) as [|i c] eqn:Ec; [reflexivity|].
  destruct i; try reflexivity. exfalso. eapply Hn. reflexivity.
Qed.

Lemma exec_choice_in : forall m n th ch x,
  exec_thread m n th ch = Some x ->
  exists ch', In ch' (choices m th) /\ exec_thread m n th ch' = Some x.
Proof.
  intros m n th ch x H.
  destruct (code th) as [|i c] eqn:Ec.
  - unfold exec_thread in H. rewrite Ec in H. discriminate.
  - assert (Hload : (exists r l o, i = ILd r l o) \/ (forall r l o c', code th <> ILd r l o :: c')).
    { destruct i; try (right; intros r' l' o' c' Hc; rewrite Ec in Hc; discriminate).
      left. eauto. }
    destruct Hload as [[r [l [o ->]]] | Hn].
    + exists ch. split; [|exact H].
      unfold exec_thread in H. rewrite Ec in H. unfold choices. rewrite Ec.
      destruct (Nat.leb (vget (cur th) l) ch) eqn:E1; [|discriminate].
      destruct (Nat.ltb ch (length (msgs m l))) eqn:E2; [|discriminate].
      apply Nat.leb_le in E1. apply Nat.ltb_lt in E2. apply in_seq. lia.
    + exists 0. split.
      * unfold choices. rewrite Ec. destruct i; try (left; reflexivity).
        exfalso. eapply Hn. exact Ec.
      * rewrite <- (exec_choice_irrelevant m n th ch Hn). exact H.
Qed.

(* every enabled action has a listed action with the same effect *)
Lemma step_in_actions : forall s a s', step s a = Some s' ->
  exists a', In a' (actions s) /\ step s a' = Some s'.
Proof.
  intros s a s' H. destruct a as [t ch]. cbn [step] in H.
  destruct (nth_error (ths s) t) as [th|] eqn:E; [|discriminate].
  destruct (exec_thread (mem s) (na s) th ch) as [x|] eqn:Ex; [|discriminate].
  destruct (exec_choice_in _ _ _ _ _ Ex) as [ch' [Hin Ex']].
  exists (Exec t ch'). split.
  - unfold actions. apply in_flat_map. exists t. split.
    + apply in_seq. assert (t < length (ths s)) by (apply nth_error_Some; congruence). lia.
    + rewrite E. apply in_map. exact Hin.
  - cbn [step]. rewrite E. rewrite Ex'. exact H.
Qed.

Lemma measure_set_nth : forall l t th th',
  nth_error l t = Some th ->
  fold_right (fun x a => tmeasure x + a) 0 (set_nth t th' l) + tmeasure th =
  fold_right (fun x a => tmeasure x + a) 0 l + tmeasure th'.
Proof.
  induction l as [|x l IH]; intros t th th' H; destruct t as [|t]; cbn in *; try discriminate.
  - inversion H; subst. lia.
  - specialize (IH t th th' H). lia.
Qed.

Lemma rmw_code : forall m th c r l upd o, code (snd (rmw m th c r l upd o)) = c.
Proof. intros m th c r l upd o. unfold rmw. destruct (upd _); reflexivity. Qed.

Lemma exec_measure : forall m n th ch m' n' th',
  exec_thread m n th ch = Some (m', n', th') -> tmeasure th' < tmeasure th.
Proof.
  intros m n th ch m' n' th' H. unfold exec_thread in H. unfold tmeasure.
  destruct (code th) as [|i c] eqn:Ec; [discriminate|].
  destruct i; cbn [length] in *.
  - inversion H; subst; cbn. lia.
  - inversion H; subst; cbn. lia.
  - inversion H; subst; cbn. lia.
  - destruct (_ && _); [|discriminate]. inversion H; subst; cbn. lia.
  - pose proof (rmw_code m th c r l (fun _ => Some v) o) as Hc.
    destruct (rmw m th c r l (fun _ => Some v) o) as [m1 th1]. cbn [snd] in Hc.
    inversion H as [[Hm Hn Ht]]. rewrite <- Ht, Hc. lia.
  - pose proof (rmw_code m th c r l (fun x => if Z.eqb x e then Some d else None) o) as Hc.
    destruct (rmw m th c r l (fun x => if Z.eqb x e then Some d else None) o) as [m1 th1].
    cbn [snd] in Hc. inversion H as [[Hm Hn Ht]]. rewrite <- Ht, Hc. lia.
  - inversion H; subst; cbn. lia.
  - inversion H; subst; cbn [code]. destruct (Z.eqb _ _); [lia|].
    pose proof (skipn_length skip c). lia.
Qed.

Lemma step_measure : forall s a s', step s a = Some s' -> measure s' < measure s.
Proof.
  intros s a s' H. unfold measure. destruct a as [t ch]; cbn [step] in H.
  destruct (nth_error (ths s) t) as [th|] eqn:E; [|discriminate].
  destruct (exec_thread (mem s) (na s) th ch) as [[[m' n'] th']|] eqn:Ex; [|discriminate].
  inversion H; subst; cbn [ths]. pose proof (measure_set_nth _ _ _ th' E). apply exec_measure in Ex. lia.
Qed.

Lemma explore_mono : forall f f' s o, f <= f' -> In o (explore f s) -> In o (explore f' s).
Proof.
  induction f as [|f IH]; intros f' s o Hle Hin; [contradiction|].
  destruct f' as [|f']; [lia|]. cbn [explore] in *.
  destruct (final s); [exact Hin|].
  apply in_flat_map in Hin. destruct Hin as [a [Ha Ho]]. apply in_flat_map. exists a. split; [exact Ha|].
  destruct (step s a); [|contradiction]. eapply IH; [|exact Ho]. lia.
Qed.

Theorem explore_complete : forall sch s,
  final (run s sch) = true -> In (result (run s sch)) (explore (S (measure s)) s).
Proof.
  induction sch as [|a r IH]; intros s Hf; cbn [run] in *.
  - cbn [explore]. rewrite Hf. left. reflexivity.
  - destruct (step s a) as [s'|] eqn:E.
    + cbn [explore]. destruct (final s) eqn:Fs.
      * rewrite (final_no_step s a Fs) in E. discriminate.
      * destruct (step_in_actions s a s' E) as [a' [Hin E']].
        apply in_flat_map. exists a'. split; [exact Hin|]. rewrite E'.
        eapply explore_mono; [|apply IH; exact Hf]. apply step_measure in E. lia.
    + apply IH. exact Hf.
Qed.

(* the form used by the litmus theorems: a boolean check over `outcomes` speaks about every terminated
   execution of the skeleton *)
Corollary outcomes_sound : forall progs (ok : outcome -> bool),
  forallb ok (outcomes progs) = true ->
  forall sch, final (run (init progs) sch) = true -> ok (result (run (init progs) sch)) = true.
Proof.
  intros progs ok H sch Hf. rewrite forallb_forall in H. apply H. unfold outcomes. apply explore_complete. exact Hf.
Qed.
