(* Synchronisation skeletons of babylon components as TSO litmus programs, parameterised by the facts
   the translator regenerates from the source (is this fence seq_cst? is this RMW seq_cst?). *)
From Coq Require Import ZArith List Bool.
Require Import Verif.WM.TSO.
Import ListNotations.
Local Open Scope Z_scope.

(* ---- Epoch (C09): reader entry vs. writer unlink+tick+scan --------------------------------
   locations: 0 = reader's epoch slot ("in region" = 1), 1 = shared cell (0 = old object linked, 1 = unlinked),
              2 = global epoch counter.
   reader: slot := 1 (relaxed store); [seq_cst fence]; r0 := cell
   writer: cell := 1 (unlink); tick (seq_cst fetch_add, or relaxed + fence); r0 := slot   (the scan)
   BAD: the reader still sees the old object (r0 = 0) while the writer's scan misses the reader (r0 = 0):
        the writer would reclaim an object the reader is about to use. *)
Definition epoch_reader (entry_fence : bool) : list instr :=
  [ISt 0 1] ++ (if entry_fence then [IFence] else []) ++ [ILd 0 1].
Definition epoch_writer (tick_is_fence : bool) : list instr :=
  [ISt 1 1] ++ (if tick_is_fence then [IAdd 1 2 1] else [ISt 2 1]) ++ [ILd 0 0].
Definition epoch_bad (o : outcome) : bool := Z.eqb (oreg o 0 0) 0 && Z.eqb (oreg o 1 0) 0.
Definition epoch_safe (entry_fence tick_is_fence : bool) : bool :=
  forallb (fun o => negb (epoch_bad o)) (outcomes [epoch_reader entry_fence; epoch_writer tick_is_fence]).

(* ---- futex word with a 16-bit version half and a waiter half (C02 batch waker, C15 publish) ----
   locations: 0 = version half (0 = old, 1 = new), 1 = waiter half (0/1).
   waker : version := 1 (16-bit relaxed store); [seq_cst fence]; r0 := waiter half; r1 := version half;
           (wakes iff r0 = 1, i.e. wakeup_waiters found the waiter flag)
   waiter: r0 := CAS (version, waiters) (0,0) -> (0,1)      (registers as waiter only if version still old)
           if r0 = 1 then r1 := kernel compare (version, waiters) == (0,1)   (futex_wait parks iff equal)
   BAD (lost wake-up): the waiter parked (r0 = 1, r1 = 1) and the waker saw no waiter flag (r0 = 0). *)
Definition waker (fence : bool) : list instr :=
  [ISt 0 1] ++ (if fence then [IFence] else []) ++ [ILd 0 1; ILd 1 0].
Definition waiter : list instr :=
  [ICas2 0 0 1 0 0 0 1; IJmpIfNot 0 1 1; ICmp2 1 0 1 0 1].
Definition lost_wakeup (o : outcome) : bool :=
  Z.eqb (oreg o 1 0) 1 && Z.eqb (oreg o 1 1) 1 && Z.eqb (oreg o 0 0) 0.
Definition batch_wake_safe (fence : bool) : bool :=
  forallb (fun o => negb (lost_wakeup o)) (outcomes [waker fence; waiter]).

(* single-element waker: exchange of the whole word (RMW) returns the old word incl. the waiter flag *)
Definition xchg_waker : list instr := [ICas2 0 0 1 0 0 1 0; ICas2 1 0 1 0 1 1 0].
   (* r0 = 1: word was (0,0) -> (1,0), nobody to wake; r1 = 1: word was (0,1) -> (1,0): wake *)
Definition xchg_lost (o : outcome) : bool :=
  Z.eqb (oreg o 1 0) 1 && Z.eqb (oreg o 1 1) 1 && negb (Z.eqb (oreg o 0 1) 1).
Definition xchg_wake_safe : bool :=
  forallb (fun o => negb (xchg_lost o)) (outcomes [xchg_waker; waiter]).
