(* The explorer of WM/TSO.v is complete: every execution that terminates, under any schedule of thread
   steps and buffer flushes, ends in one of the listed outcomes. *)
From Coq Require Import ZArith List Bool Lia Arith.
Require Import Verif.WM.TSO.
Import ListNotations.

Lemma final_no_step : forall s a, final s = true -> step s a = None.
Proof.
  intros s a Hf. unfold final in Hf. rewrite forallb_forall in Hf.
  destruct a as [t|t]; cbn [step].
  - destruct (nth_error (ths s) t) as [th|] eqn:E; [|reflexivity].
    apply nth_error_In in E. apply Hf in E. unfold exec_thread.
    destruct (code th); [reflexivity|]. discriminate.
  - destruct (nth_error (ths s) t) as [th|] eqn:E; [|reflexivity].
    apply nth_error_In in E. apply Hf in E.
    destruct (code th); [|discriminate]. destruct (buf th); [reflexivity|discriminate].
Qed.

Lemma step_in_actions : forall s a s', step s a = Some s' -> In a (actions s).
Proof.
  intros s a s' H. unfold actions. apply in_flat_map.
  assert (Ht : exists t, (a = Exec t \/ a = Flush t) /\ t < length (ths s)).
  { destruct a as [t|t]; exists t; (split; [auto|]); cbn [step] in H;
      destruct (nth_error (ths s) t) eqn:E; try discriminate;
      apply nth_error_Some; congruence. }
  destruct Ht as [t [Ha Hl]]. exists t. split.
  - apply in_seq. lia.
  - destruct Ha as [-> | ->]; cbn; auto.
Qed.

Lemma measure_set_nth : forall l t th th',
  nth_error l t = Some th ->
  fold_right (fun x a => tmeasure x + a) 0 (set_nth t th' l) + tmeasure th =
  fold_right (fun x a => tmeasure x + a) 0 l + tmeasure th'.
Proof.
  induction l as [|x l IH]; intros t th th' H; destruct t as [|t]; cbn in *; try discriminate.
  - inversion H; subst. lia.
  - specialize (IH t th th' H). lia.
Qed.

Lemma exec_measure : forall m th m' th', exec_thread m th = Some (m', th') -> tmeasure th' < tmeasure th.
Proof.
  intros m th m' th' H. unfold exec_thread in H. unfold tmeasure.
  destruct (code th) as [|i c] eqn:Ec; [discriminate|].
  destruct i; cbn [length] in *.
  - inversion H; subst; cbn. rewrite app_length. cbn. lia.
  - inversion H; subst; cbn. lia.
  - unfold buf_empty in H. destruct (buf th) eqn:Eb; [|discriminate]. inversion H; subst; cbn. lia.
  - unfold buf_empty in H. destruct (buf th) eqn:Eb; [|discriminate]. inversion H; subst; cbn. lia.
  - unfold buf_empty in H. destruct (buf th) eqn:Eb; [|discriminate].
    destruct (_ && _); inversion H; subst; cbn; lia.
  - inversion H; subst; cbn. lia.
  - destruct (Z.eqb _ _); inversion H; subst; cbn; [lia|].
    pose proof (skipn_length skip c). lia.
Qed.

Lemma step_measure : forall s a s', step s a = Some s' -> measure s' < measure s.
Proof.
  intros s a s' H. unfold measure. destruct a as [t|t]; cbn [step] in H.
  - destruct (nth_error (ths s) t) as [th|] eqn:E; [|discriminate].
    destruct (exec_thread (mem s) th) as [[m' th']|] eqn:Ex; [|discriminate].
    inversion H; subst; cbn [ths]. pose proof (measure_set_nth _ _ _ th' E). apply exec_measure in Ex. lia.
  - destruct (nth_error (ths s) t) as [th|] eqn:E; [|discriminate].
    destruct (buf th) as [|[l v] b] eqn:Eb; [discriminate|].
    inversion H; subst; cbn [ths].
    pose proof (measure_set_nth _ _ _ {| code := code th; regs := regs th; buf := b |} E) as M.
    assert (T1 : tmeasure th = S (tmeasure {| code := code th; regs := regs th; buf := b |})).
    { unfold tmeasure. cbn [code buf]. rewrite Eb. cbn [length]. lia. }
    lia.
Qed.

Lemma explore_mono : forall f f' s o, f <= f' -> In o (explore f s) -> In o (explore f' s).
Proof.
  induction f as [|f IH]; intros f' s o Hle Hin; [contradiction|].
  destruct f' as [|f']; [lia|]. cbn [explore] in *.
  destruct (final s); [exact Hin|].
  apply in_flat_map in Hin. destruct Hin as [a [Ha Ho]]. apply in_flat_map. exists a. split; [exact Ha|].
  destruct (step s a); [|contradiction]. eapply IH; [|exact Ho]. lia.
Qed.

Theorem explore_complete : forall sch s,
  final (run s sch) = true -> In (result (run s sch)) (explore (S (measure s)) s).
Proof.
  induction sch as [|a r IH]; intros s Hf; cbn [run] in *.
  - cbn [explore]. rewrite Hf. left. reflexivity.
  - destruct (step s a) as [s'|] eqn:E.
    + cbn [explore]. destruct (final s) eqn:Fs.
      * rewrite (final_no_step s a Fs) in E. discriminate.
      * apply in_flat_map. exists a. split; [eapply step_in_actions; eauto|]. rewrite E.
        eapply explore_mono; [|apply IH; exact Hf]. apply step_measure in E. lia.
    + apply IH. exact Hf.
Qed.

(* the form used by the litmus theorems: a boolean check over `outcomes` speaks about every terminated
   execution of the skeleton *)
Corollary outcomes_sound : forall progs (ok : outcome -> bool),
  forallb ok (outcomes progs) = true ->
  forall sch, final (run (init progs) sch) = true -> ok (result (run (init progs) sch)) = true.
Proof.
  intros progs ok H sch Hf. rewrite forallb_forall in H. apply H. unfold outcomes. apply explore_complete. exact Hf.
Qed.
