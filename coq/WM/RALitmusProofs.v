(* The boolean checks of WM/RALitmus.v lifted to statements about every execution (any schedule of
   instruction steps, any admissible choice of the message each load reads) of the skeletons: if the check
   computed from the orders found in the source says `true`, no terminated execution is bad, i.e. whenever
   the consumer sees the publication it reads the published payload and no payload access is a data race. *)
From Coq Require Import ZArith List Bool.
Require Import Verif.Base.Atomics Verif.WM.RA Verif.WM.RAProofs Verif.WM.RALitmus.
Import ListNotations.

Lemma lift_safe : forall progs (bad : outcome -> bool),
  forallb (fun o => negb (bad o)) (outcomes progs) = true ->
  forall sch, final (run (init progs) sch) = true -> bad (result (run (init progs) sch)) = false.
Proof.
  intros progs bad H sch Hf.
  pose proof (outcomes_sound progs (fun o => negb (bad o)) H sch Hf) as E. cbn beta in E.
  destruct (bad _); [discriminate|reflexivity].
Qed.

Theorem mp_store_load_all_executions : forall o_store o_load, mp_safe o_store o_load = true ->
  forall sch, final (run (init (mp_store_load o_store o_load)) sch) = true ->
  mp_bad (result (run (init (mp_store_load o_store o_load)) sch)) = false.
Proof. intros o1 o2 H. apply lift_safe. exact H. Qed.

Theorem mp_fences_all_executions : forall f_rel f_acq, mp_fences_safe f_rel f_acq = true ->
  forall sch, final (run (init (mp_fences f_rel f_acq)) sch) = true ->
  mp_bad (result (run (init (mp_fences f_rel f_acq)) sch)) = false.
Proof. intros a b H. apply lift_safe. exact H. Qed.

Theorem mp_fence_orders_all_executions : forall o_pf o_cf, mp_fence_orders_safe o_pf o_cf = true ->
  forall sch, final (run (init (mp_fence_orders o_pf o_cf)) sch) = true ->
  mp_bad (result (run (init (mp_fence_orders o_pf o_cf)) sch)) = false.
Proof. intros o1 o2 H. apply lift_safe. exact H. Qed.

Theorem mp_xchg_all_executions : forall o_x o_load, mp_xchg_safe o_x o_load = true ->
  forall sch, final (run (init (mp_xchg o_x o_load)) sch) = true ->
  mp_bad (result (run (init (mp_xchg o_x o_load)) sch)) = false.
Proof. intros o1 o2 H. apply lift_safe. exact H. Qed.

Theorem mp_rmw_chain_all_executions : forall o_store o_rmw o_load, mp_rmw_chain_safe o_store o_rmw o_load = true ->
  forall sch, final (run (init (mp_rmw_chain o_store o_rmw o_load)) sch) = true ->
  mp_chain_bad (result (run (init (mp_rmw_chain o_store o_rmw o_load)) sch)) = false.
Proof. intros o1 o2 o3 H. apply lift_safe. exact H. Qed.

Theorem mp_store_chain_all_executions : forall o_store o_bump o_load, mp_store_chain_safe o_store o_bump o_load = true ->
  forall sch, final (run (init (mp_store_chain o_store o_bump o_load)) sch) = true ->
  mp_chain_bad (result (run (init (mp_store_chain o_store o_bump o_load)) sch)) = false.
Proof. intros o1 o2 o3 H. apply lift_safe. exact H. Qed.

Theorem mp_cas_publish_all_executions : forall o_succ o_load, mp_cas_safe o_succ o_load = true ->
  forall sch, final (run (init (mp_cas_publish o_succ o_load)) sch) = true ->
  mp_cas_bad (result (run (init (mp_cas_publish o_succ o_load)) sch)) = false.
Proof. intros o1 o2 H. apply lift_safe. exact H. Qed.

Theorem mp_cas_loser_all_executions : forall o_cas, mp_cas_loser_safe o_cas = true ->
  forall sch, final (run (init (mp_cas_loser o_cas)) sch) = true ->
  mp_loser_bad (result (run (init (mp_cas_loser o_cas)) sch)) = false.
Proof. intros o H. apply lift_safe. exact H. Qed.

(* what "not bad" means for the plain skeleton, spelled out on the final state: a consumer that saw the flag
   read 42 and nobody raced *)
Corollary mp_store_load_publication : forall o_store o_load, mp_safe o_store o_load = true ->
  forall sch, let s := run (init (mp_store_load o_store o_load)) sch in
  final s = true -> oreg (result s) 1 0 = 1%Z -> oracy (result s) = false /\ oreg (result s) 1 1 = 42%Z.
Proof.
  intros o1 o2 H sch s Hf Hflag.
  pose proof (mp_store_load_all_executions o1 o2 H sch Hf) as B. fold s in B.
  unfold mp_bad, saw_bad in B. rewrite Hflag in B. rewrite Z.eqb_refl in B. cbn [andb] in B.
  apply orb_false_elim in B. destruct B as [Br Bv]. split; [exact Br|].
  apply negb_false_iff in Bv. apply Z.eqb_eq in Bv. exact Bv.
Qed.

(* with release/acquire the publication is safe; each weakening has a bad execution.  (`x = false` for a
   forallb over the outcomes of the complete explorer means: one of the listed outcomes is bad, and every
   listed outcome is reached by a real execution - `witness` of RA.v computes its schedule.) *)
Lemma mp_release_acquire : mp_safe Release Acquire = true. Proof. vm_compute. reflexivity. Qed.
Lemma mp_relaxed_store_refuted : mp_safe Relaxed Acquire = false. Proof. vm_compute. reflexivity. Qed.
Lemma mp_relaxed_load_refuted : mp_safe Release Relaxed = false. Proof. vm_compute. reflexivity. Qed.
Lemma mp_fences_present : mp_fences_safe true true = true. Proof. vm_compute. reflexivity. Qed.
Lemma mp_no_release_fence_refuted : mp_fences_safe false true = false. Proof. vm_compute. reflexivity. Qed.
Lemma mp_no_acquire_fence_refuted : mp_fences_safe true false = false. Proof. vm_compute. reflexivity. Qed.
Lemma mp_xchg_release_acquire : mp_xchg_safe Release Acquire = true. Proof. vm_compute. reflexivity. Qed.
Lemma mp_xchg_relaxed_refuted : mp_xchg_safe Relaxed Acquire = false. Proof. vm_compute. reflexivity. Qed.
Lemma mp_xchg_acquire_only_refuted : mp_xchg_safe Acquire Acquire = false. Proof. vm_compute. reflexivity. Qed.
Lemma mp_rmw_chain_release_sequence : mp_rmw_chain_safe Release Relaxed Acquire = true.
Proof. vm_compute. reflexivity. Qed.
Lemma mp_rmw_chain_relaxed_store_refuted : mp_rmw_chain_safe Relaxed Relaxed Acquire = false.
Proof. vm_compute. reflexivity. Qed.
Lemma mp_store_chain_refuted : mp_store_chain_safe Release Release Acquire = false.
Proof. vm_compute. reflexivity. Qed.
Lemma mp_cas_release_acquire : mp_cas_safe Release Acquire = true. Proof. vm_compute. reflexivity. Qed.
Lemma mp_cas_relaxed_refuted : mp_cas_safe Relaxed Acquire = false. Proof. vm_compute. reflexivity. Qed.
Lemma mp_cas_relaxed_load_refuted : mp_cas_safe Release Relaxed = false. Proof. vm_compute. reflexivity. Qed.
Lemma mp_cas_loser_acq_rel : mp_cas_loser_safe AcqRel = true. Proof. vm_compute. reflexivity. Qed.
Lemma mp_cas_loser_release_only_refuted : mp_cas_loser_safe Release = false. Proof. vm_compute. reflexivity. Qed.

(* a refutation is a real execution: the witness schedule of the relaxed-store skeleton, replayed by `run`,
   terminates in a bad state *)
Lemma mp_relaxed_store_witness :
  exists sch, final (run (init (mp_store_load Relaxed Acquire)) sch) = true /\
              mp_bad (result (run (init (mp_store_load Relaxed Acquire)) sch)) = true.
Proof.
  exists (match witness (mp_store_load Relaxed Acquire) mp_bad with Some p => p | None => [] end).
  vm_compute. split; reflexivity.
Qed.

Print Assumptions mp_store_load_all_executions.
Print Assumptions mp_fences_all_executions.
Print Assumptions mp_fence_orders_all_executions.
Print Assumptions mp_xchg_all_executions.
Print Assumptions mp_rmw_chain_all_executions.
Print Assumptions mp_store_chain_all_executions.
Print Assumptions mp_cas_publish_all_executions.
Print Assumptions mp_cas_loser_all_executions.
Print Assumptions mp_store_load_publication.
