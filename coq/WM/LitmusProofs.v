(* The boolean checks of WM/Litmus.v lifted to statements about every execution (any schedule of
   instruction steps and store-buffer flushes) of the skeletons. *)
From Coq Require Import ZArith List Bool.
Require Import Verif.WM.TSO Verif.WM.TSOProofs Verif.WM.Litmus.
Import ListNotations.

Lemma lift_safe : forall progs (bad : outcome -> bool),
  forallb (fun o => negb (bad o)) (outcomes progs) = true ->
  forall sch, final (run (init progs) sch) = true -> bad (result (run (init progs) sch)) = false.
Proof.
  intros progs bad H sch Hf.
  pose proof (outcomes_sound progs (fun o => negb (bad o)) H sch Hf) as E. cbn beta in E.
  destruct (bad _); [discriminate|reflexivity].
Qed.

Theorem batch_wake_all_executions : forall fence, batch_wake_safe fence = true ->
  forall sch, final (run (init [waker fence; waiter]) sch) = true ->
  lost_wakeup (result (run (init [waker fence; waiter]) sch)) = false.
Proof. intros fence H. apply lift_safe. exact H. Qed.

Theorem xchg_wake_all_executions :
  forall sch, final (run (init [xchg_waker; waiter]) sch) = true ->
  xchg_lost (result (run (init [xchg_waker; waiter]) sch)) = false.
Proof. apply lift_safe. vm_compute. reflexivity. Qed.

Theorem epoch_all_executions : forall entry_fence tick_is_fence, epoch_safe entry_fence tick_is_fence = true ->
  forall sch, final (run (init [epoch_reader entry_fence; epoch_writer tick_is_fence]) sch) = true ->
  epoch_bad (result (run (init [epoch_reader entry_fence; epoch_writer tick_is_fence]) sch)) = false.
Proof. intros a b H. apply lift_safe. exact H. Qed.

(* with the fence the batch waker is safe; without it a lost wake-up execution exists *)
Lemma batch_wake_fenced : batch_wake_safe true = true. Proof. vm_compute. reflexivity. Qed.
Lemma batch_wake_unfenced_refuted : batch_wake_safe false = false. Proof. vm_compute. reflexivity. Qed.
Lemma epoch_fenced : epoch_safe true true = true. Proof. vm_compute. reflexivity. Qed.
Lemma epoch_no_entry_fence_refuted : epoch_safe false true = false. Proof. vm_compute. reflexivity. Qed.
Lemma epoch_relaxed_tick_refuted : epoch_safe true false = false. Proof. vm_compute. reflexivity. Qed.
