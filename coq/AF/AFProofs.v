(* Proofs about AFModel.  Statements are fixed by Properties_C05.v. *)
From Coq Require Import ZArith List Bool Lia Arith PeanoNat.
Require Import Verif.Base.Atomics Verif.Gen.Gen_anyflow Verif.Conc.Machine Verif.AF.AFModel.
Import ListNotations.
Local Open Scope Z_scope.

(* ======================================================================================== *)
(* A. the dependency protocol: reflection over the (finite) reachable set                   *)
(* ======================================================================================== *)
Definition DReach (c : dcfg) (s : dst) : Prop := reachable dst (dstep c) dinit s.

Lemma apc_eqb_eq : forall a b, apc_eqb a b = true -> a = b.
Proof. destruct a, b; simpl; congruence. Qed.
Lemma cpc_eqb_eq : forall a b, cpc_eqb a b = true -> a = b.
Proof. destruct a, b; simpl; try congruence. intro H. apply Z.eqb_eq in H. now subst. Qed.
Lemma tpc_eqb_eq : forall a b, tpc_eqb a b = true -> a = b.
Proof. destruct a, b; simpl; congruence. Qed.

Lemma dst_eqb_eq : forall a b, dst_eqb a b = true -> a = b.
Proof.
  intros [w1 c1 t1 e1 r1 n1 ct1 tt1 b1 pa1 pc1 pt1] [w2 c2 t2 e2 r2 n2 ct2 tt2 b2 pa2 pc2 pt2].
  unfold dst_eqb; cbn [wn cready tready est drdy notified ctrig ttrig bad pa pcn pt]. intro H.
  repeat match goal with H : _ && _ = true |- _ => apply andb_prop in H; destruct H end.
  repeat match goal with
         | H : (_ =? _)%Z = true |- _ => apply Z.eqb_eq in H
         | H : (_ =? _)%nat = true |- _ => apply Nat.eqb_eq in H
         | H : Bool.eqb _ _ = true |- _ => apply eqb_prop in H
         | H : apc_eqb _ _ = true |- _ => apply apc_eqb_eq in H
         | H : cpc_eqb _ _ = true |- _ => apply cpc_eqb_eq in H
         | H : tpc_eqb _ _ = true |- _ => apply tpc_eqb_eq in H
         end.
  subst. reflexivity.
Qed.

Lemma dmem_in : forall s l, dmem s l = true -> In s l.
Proof.
  intros s l H. unfold dmem in H. apply existsb_exists in H. destruct H as [x [Hin Heq]].
  apply dst_eqb_eq in Heq. now subst.
Qed.

Lemma dstep_in_succs : forall c s t s', dstep c s t = Some s' -> In s' (dsuccs c s).
Proof.
  intros c s t s' H. unfold dsuccs. apply in_flat_map.
  destruct t as [|[|[|t]]]; [exists 0%nat | exists 1%nat | exists 2%nat | simpl in H; discriminate];
    (split; [simpl; tauto | rewrite H; simpl; tauto]).
Qed.

(* completeness of a closed state list *)
Lemma dclosed_complete : forall c l, dclosed c l = true -> forall s, DReach c s -> dmem s l = true.
Proof.
  intros c l Hc. unfold dclosed in Hc. apply andb_prop in Hc. destruct Hc as [Hi Hs].
  apply (inv_reachable dst (dstep c) (fun s => dmem s l = true) dinit Hi).
  intros s t s' Hm Hst. apply dmem_in in Hm.
  rewrite forallb_forall in Hs. specialize (Hs s Hm). rewrite forallb_forall in Hs.
  apply Hs. eapply dstep_in_succs; eauto.
Qed.

Lemma dep_reflect : forall c, dclosed c (dall c) = true -> forallb (dep_ok c) (dall c) = true ->
  forall s, DReach c s -> dep_ok c s = true.
Proof.
  intros c Hc Ho s Hr. pose proof (dclosed_complete c _ Hc s Hr) as Hm. apply dmem_in in Hm.
  rewrite forallb_forall in Ho. now apply Ho.
Qed.

Theorem af_dep_protocol : forall c s, DReach c s -> dep_ok c s = true.
Proof.
  intros [[|] [|]] s; apply dep_reflect; vm_compute; reflexivity.
Qed.

(* readable corollaries *)
Lemma dep_ok_fields : forall c s, dep_ok c s = true ->
  (notified s <= 1)%nat /\ bad s = false /\
  (ddone c s = true -> notified s = 1%nat /\ drdy s = est_true c) /\ -3 <= wn s <= 2.
Proof.
  intros c s H. unfold dep_ok in H.
  repeat match goal with H : _ && _ = true |- _ => apply andb_prop in H; destruct H end.
  repeat split.
  - now apply Nat.leb_le.
  - now apply negb_true_iff.
  - destruct (ddone c s); [|discriminate]. simpl in *. apply andb_prop in H3. destruct H3 as [Ha Hb]. now apply Nat.eqb_eq.
  - destruct (ddone c s); [|discriminate]. simpl in *. apply andb_prop in H3. destruct H3 as [Ha Hb]. now apply eqb_prop.
  - now apply Z.leb_le.
  - now apply Z.leb_le.
Qed.

Theorem af_dep_exactly_once : forall c s, DReach c s ->
  (notified s <= 1)%nat /\ bad s = false /\ (ddone c s = true -> notified s = 1%nat /\ drdy s = est_true c) /\ -3 <= wn s <= 2.
Proof. intros c s H. apply dep_ok_fields. now apply af_dep_protocol. Qed.

(* a notification implies the dependency is really ready: `bad` records any violation at the moment of notify *)
Lemma notify_bad : forall c s r, really_ready c s = false -> bad (notify c s r) = true.
Proof. intros c s r H. unfold notify; cbn [bad]. rewrite H. simpl. now rewrite orb_true_r. Qed.

(* reset brings a dependency back to its initial state *)
Theorem af_dep_reset : forall s, dreset s = dinit.
Proof. reflexivity. Qed.

(* non-vacuity: the race the comments in dependency.cpp call "breakdown": condition fails, activation in between its
   two decrements, target released concurrently - a reachable state with all three threads finished *)
Example af_dep_reach_example :
  exists s, DReach {| has_cond := true; holds := false |} s /\ ddone {| has_cond := true; holds := false |} s = true /\ wn s = -1.
Proof.
  exists (run dst (dstep {| has_cond := true; holds := false |}) dinit [1;1;0;2;2;0;1]%nat). split.
  - now exists [1;1;0;2;2;0;1]%nat.
  - vm_compute. split; reflexivity.
Qed.

(* memory-order obligations on the regenerated site tables *)
Definition orders_ok : bool :=
  match sites_dep_activate, sites_dep_ready, sites_vertex_activate, sites_vertex_ready, sites_data_release,
        sites_data_ready, sites_data_bind, sites_data_acquire, sites_closure_vertex_sub, sites_closure_data_sub with
  | [(KFadd, oa, _)], [(KFsub, or1, _); (KFsub, or2, _)], [(KCasS, _, _); (KStore, _, _); (KFsub, ova, _)],
    [(KFsub, ovr, _)], [(KLoad, _, _); (_, orel, _)], [(KLoad, ordy, _)], [(KCasS, obind, _)], [(KCasS, oacq, _)],
    [(KFsub, ocv, _)], [(KFsub, ocd, _)] =>
    has_release oa && has_acquire oa && has_release or1 && has_acquire or1 && has_release or2 && has_acquire or2 &&
    has_release ova && has_acquire ova && has_release ovr && has_acquire ovr && has_release orel && has_acquire orel &&
    has_acquire ordy && has_release obind && has_acquire oacq && has_release ocv && has_acquire ocv &&
    has_release ocd && has_acquire ocd
  | _, _, _, _, _, _, _, _, _, _ => false
  end.
Theorem af_orders_ok : orders_ok = true.
Proof. vm_compute. reflexivity. Qed.

(* ======================================================================================== *)
(* B. the vertex count-down, any number of dependencies                                      *)
(* ======================================================================================== *)
Lemma vertex_ready_fires_spec : forall old, vertex_ready_fires old = true <-> old = 1.
Proof. intro old. unfold vertex_ready_fires. apply Z.eqb_eq. Qed.
Lemma vertex_finished_pos_spec : forall x, vertex_finished_pos x = true <-> 0 < x.
Proof. intro x. unfold vertex_finished_pos. rewrite Z.gtb_lt. reflexivity. Qed.
Lemma vertex_act_fires_spec : forall w, vertex_act_fires w = true <-> w = 0.
Proof. intro w. unfold vertex_act_fires. apply Z.eqb_eq. Qed.
Lemma vertex_act_remaining_spec : forall old fin, 0 <= old - fin < 2 ^ 64 -> vertex_act_remaining old fin = old - fin.
Proof. intros old fin H. unfold vertex_act_remaining. now apply Z.mod_small. Qed.

Lemma nmem_in : forall i l, nmem i l = true <-> In i l.
Proof.
  intros i l. unfold nmem. rewrite existsb_exists. split.
  - intros [x [Hin He]]. apply Nat.eqb_eq in He. now subst.
  - intro H. exists i. split; [assumption | apply Nat.eqb_refl].
Qed.

Lemma bounded_nodup_length : forall n l, NoDup l -> (forall i, In i l -> (i < n)%nat) -> (length l <= n)%nat.
Proof.
  intros n l Hnd Hb. rewrite <- (seq_length n 0). apply NoDup_incl_length; [assumption|].
  intros i Hi. apply in_seq. specialize (Hb i Hi). lia.
Qed.

Lemma full_nodup_all : forall n l, NoDup l -> (forall i, In i l -> (i < n)%nat) -> length l = n ->
  forall i, (i < n)%nat -> In i l.
Proof.
  intros n l Hnd Hb Hlen i Hi.
  assert (Hincl : incl (seq 0 n) l).
  { apply NoDup_length_incl; [assumption | rewrite seq_length; lia |].
    intros k Hk. apply in_seq. specialize (Hb k Hk). lia. }
  apply Hincl. apply in_seq. lia.
Qed.

Definition vinv (n : nat) (s : vst) : Prop :=
  NoDup (vnot s) /\ (forall i, In i (vnot s) -> (i < n)%nat) /\ 0 <= vrdy s /\ 0 <= vfin s /\
  Z.of_nat (length (vnot s)) = vrdy s + vfin s /\
  vw s = Z.of_nat n - vrdy s - (if vended s then vfin s else 0) /\
  vinvoked s = (if (vw s =? 0)%Z then 1%nat else 0%nat).

Lemma vinv_init : forall n, (1 <= n)%nat -> vinv n (vinit (Z.of_nat n)).
Proof.
  intros n Hn. unfold vinv, vinit; cbn. split; [constructor|]. split; [intros i []|].
  repeat split; try lia.
  destruct (Z.of_nat n =? 0) eqn:E; [apply Z.eqb_eq in E; lia | reflexivity].
Qed.

Lemma vinv_step : forall n s e s', (1 <= n)%nat -> Z.of_nat n < 2 ^ 64 -> vinv n s -> vstep n s e = Some s' -> vinv n s'.
Proof.
  intros n s e s' Hn Hbig (Hnd & Hb & Hr & Hf & Hlen & Hw & Hinv) Hst.
  pose proof (bounded_nodup_length n _ Hnd Hb) as Hle.
  destruct e as [i | i |]; cbn [vstep] in Hst.
  - (* VReady *)
    destruct ((i <? n)%nat && negb (nmem i (vnot s))) eqn:G; [|discriminate]. inversion Hst; subst s'; clear Hst.
    apply andb_prop in G. destruct G as [Gi Gm]. apply Nat.ltb_lt in Gi. apply negb_true_iff in Gm.
    assert (Hni : ~ In i (vnot s)) by (intro X; apply nmem_in in X; congruence).
    assert (Hnd' : NoDup (i :: vnot s)) by (constructor; assumption).
    assert (Hb' : forall k, In k (i :: vnot s) -> (k < n)%nat) by (intros k [<-|Hk]; auto).
    pose proof (bounded_nodup_length n _ Hnd' Hb') as Hle'. cbn [length] in Hle'.
    unfold vinv; cbn [vw vfin vended vnot vrdy vinvoked].
    split; [assumption|]. split; [assumption|]. split; [lia|]. split; [lia|].
    split; [cbn [length]; lia|]. split; [destruct (vended s); lia|].
    assert (Hpos : 0 < vw s) by (destruct (vended s); lia).
    rewrite Hinv. destruct (vw s =? 0) eqn:E0; [apply Z.eqb_eq in E0; lia|].
    destruct (vertex_ready_fires (vw s)) eqn:Ef.
    + apply vertex_ready_fires_spec in Ef. rewrite Ef. reflexivity.
    + destruct (vw s - 1 =? 0) eqn:E1; [|reflexivity]. apply Z.eqb_eq in E1.
      assert (vertex_ready_fires (vw s) = true) by (apply vertex_ready_fires_spec; lia). congruence.
  - (* VActRet *)
    destruct ((i <? n)%nat && negb (nmem i (vnot s)) && negb (vended s)) eqn:G; [|discriminate].
    inversion Hst; subst s'; clear Hst.
    apply andb_prop in G. destruct G as [G Ge]. apply andb_prop in G. destruct G as [Gi Gm].
    apply Nat.ltb_lt in Gi. apply negb_true_iff in Gm. apply negb_true_iff in Ge.
    assert (Hni : ~ In i (vnot s)) by (intro X; apply nmem_in in X; congruence).
    unfold vinv; cbn [vw vfin vended vnot vrdy vinvoked]. rewrite Ge in *.
    split; [constructor; assumption|]. split; [intros k [<-|Hk]; auto|]. split; [lia|]. split; [lia|].
    split; [cbn [length]; lia|]. split; [lia|]. assumption.
  - (* VActEnd *)
    destruct (vended s) eqn:Ee; [discriminate|].
    destruct (vertex_finished_pos (vfin s)) eqn:Ep.
    + inversion Hst; subst s'; clear Hst. apply vertex_finished_pos_spec in Ep.
      unfold vinv; cbn [vw vfin vended vnot vrdy vinvoked].
      split; [assumption|]. split; [assumption|]. split; [lia|]. split; [lia|]. split; [lia|]. split; [lia|].
      rewrite vertex_act_remaining_spec by lia.
      rewrite Hinv. destruct (vw s =? 0) eqn:E0; [apply Z.eqb_eq in E0; lia|].
      unfold vertex_act_fires. reflexivity.
    + inversion Hst; subst s'; clear Hst.
      assert (vfin s = 0).
      { destruct (Z.eq_dec (vfin s) 0); [assumption|].
        assert (vertex_finished_pos (vfin s) = true) by (apply vertex_finished_pos_spec; lia). congruence. }
      unfold vinv; cbn [vw vfin vended vnot vrdy vinvoked].
      split; [assumption|]. split; [assumption|]. split; [lia|]. split; [lia|]. split; [lia|]. split; [lia|]. assumption.
Qed.

Lemma vinv_run : forall n l s, (1 <= n)%nat -> Z.of_nat n < 2 ^ 64 -> vinv n s -> vinv n (vrun n s l).
Proof.
  intros n l. induction l as [|e r IH]; intros s Hn Hb Hs; cbn [vrun]; [assumption|].
  apply IH; try assumption. destruct (vstep n s e) as [s'|] eqn:E; [eapply vinv_step; eauto | assumption].
Qed.

Theorem af_vertex_once : forall n l, (1 <= n)%nat -> Z.of_nat n < 2 ^ 64 ->
  (vinvoked (vrun n (vinit (Z.of_nat n)) l) <= 1)%nat.
Proof.
  intros n l Hn Hb. destruct (vinv_run n l _ Hn Hb (vinv_init n Hn)) as (_ & _ & _ & _ & _ & _ & Hi).
  rewrite Hi. destruct (_ =? 0); lia.
Qed.

Theorem af_vertex_only_after_deps : forall n l, (1 <= n)%nat -> Z.of_nat n < 2 ^ 64 ->
  let s := vrun n (vinit (Z.of_nat n)) l in
  vinvoked s = 1%nat -> forall i, (i < n)%nat -> In i (vnot s).
Proof.
  intros n l Hn Hb s H1 i Hi. subst s.
  destruct (vinv_run n l _ Hn Hb (vinv_init n Hn)) as (Hnd & Hbd & Hr & Hf & Hlen & Hw & Hinv).
  pose proof (bounded_nodup_length n _ Hnd Hbd) as Hle.
  rewrite Hinv in H1. destruct (vw _ =? 0) eqn:E0; [|discriminate]. apply Z.eqb_eq in E0.
  apply (full_nodup_all n); try assumption.
  destruct (vended _); lia.
Qed.

Theorem af_vertex_invoked_when_all : forall n l, (1 <= n)%nat -> Z.of_nat n < 2 ^ 64 ->
  let s := vrun n (vinit (Z.of_nat n)) l in
  vended s = true -> (forall i, (i < n)%nat -> In i (vnot s)) -> vinvoked s = 1%nat.
Proof.
  intros n l Hn Hb s He Hall. subst s.
  destruct (vinv_run n l _ Hn Hb (vinv_init n Hn)) as (Hnd & Hbd & Hr & Hf & Hlen & Hw & Hinv).
  pose proof (bounded_nodup_length n _ Hnd Hbd) as Hle.
  assert (Hge : (n <= length (vnot (vrun n (vinit (Z.of_nat n)) l)))%nat).
  { rewrite <- (seq_length n 0). apply NoDup_incl_length; [apply seq_NoDup|].
    intros i Hi. apply in_seq in Hi. apply Hall. lia. }
  rewrite Hinv. rewrite He in Hw. destruct (vw _ =? 0) eqn:E0; [reflexivity|]. apply Z.eqb_neq in E0. lia.
Qed.

Example af_vertex_example :
  vinvoked (vrun 3 (vinit 3) [VActRet 0%nat; VReady 2%nat; VActRet 1%nat; VActEnd]) = 1%nat.
Proof. vm_compute. reflexivity. Qed.

(* ======================================================================================== *)
(* C. closure counters                                                                       *)
(* ======================================================================================== *)
Lemma closure_flush_fires_spec : forall w, closure_flush_fires w = true <-> w = 0.
Proof.
  intro w. unfold closure_flush_fires, id. destruct (w =? 0) eqn:E.
  - apply Z.eqb_eq in E. simpl. tauto.
  - apply Z.eqb_neq in E. simpl. split; [discriminate | tauto].
Qed.
Lemma closure_finish_fires_spec : forall w, closure_finish_fires w = true <-> w = 0.
Proof. intro w. unfold closure_finish_fires. apply Z.eqb_eq. Qed.

Definition cinv (s : cst) : Prop :=
  0 <= cbound s /\ 0 <= clive s /\
  cdata s = (if cfired s then 0 else 1) + cbound s /\
  cvert s = (if cfired s then 0 else 1) + clive s /\
  cflush s = (if cfired s && (clive s =? 0)%Z then 1%nat else 0%nat) /\
  (cflush s = 1%nat -> cfin s <> None) /\
  (cfin s = Some 0 -> cfired s = true /\ cbound s = 0) /\
  (cfired s = true -> cbound s = 0 -> cfin s <> None).

Lemma cinv_init : cinv cinit.
Proof. unfold cinv, cinit; cbn. repeat split; try lia; try discriminate. Qed.

Lemma mark_some : forall f c, mark f c <> None.
Proof. intros [x|] c; simpl; discriminate. Qed.
Lemma mark_zero : forall f c, c <> 0 -> mark f c = Some 0 -> f = Some 0.
Proof. intros [x|] c Hc H; simpl in H; [assumption | inversion H; congruence]. Qed.

Lemma cinv_step : forall s e s', cinv s -> cstep s e = Some s' -> cinv s'.
Proof.
  intros s e s' (Hb & Hl & Hd & Hv & Hfl & Hff & Hf0 & Hfd) Hst.
  destruct e as [rdy | | | | |]; cbn [cstep] in Hst.
  - (* CBind *)
    destruct (cfired s) eqn:Ef; [discriminate|].
    destruct rdy; inversion Hst; subst s'; clear Hst; unfold cinv, data_sub; cbn; rewrite ?Ef; cbn.
    + assert (E : closure_finish_fires (cdata s + 1 - 1) = false).
      { destruct (closure_finish_fires (cdata s + 1 - 1)) eqn:E; [|reflexivity]. apply closure_finish_fires_spec in E. lia. }
      rewrite E. repeat split; try lia; try assumption; try discriminate.
      intro H. destruct (Hf0 H) as [X _]. discriminate.
    + repeat split; try lia; try assumption; try discriminate.
      intro H. destruct (Hf0 H) as [X _]. discriminate.
  - (* CDataRel *)
    destruct (0 <? cbound s) eqn:Eb; [|discriminate]. apply Z.ltb_lt in Eb.
    inversion Hst; subst s'; clear Hst. unfold cinv, data_sub; cbn.
    repeat split; try lia; try assumption.
    + intro H. specialize (Hff H). destruct (closure_finish_fires (cdata s - 1)); [apply mark_some | assumption].
    + destruct (closure_finish_fires (cdata s - 1)) eqn:E.
      * apply closure_finish_fires_spec in E. destruct (cfired s); [reflexivity | lia].
      * apply Hf0. assumption.
    + destruct (closure_finish_fires (cdata s - 1)) eqn:E.
      * apply closure_finish_fires_spec in E. destruct (cfired s); lia.
      * intro H. destruct (Hf0 H). lia.
    + intros Hf Hz. destruct (closure_finish_fires (cdata s - 1)) eqn:E; [apply mark_some|].
      assert (closure_finish_fires (cdata s - 1) = true) by (apply closure_finish_fires_spec; rewrite Hd, Hf; lia). congruence.
  - (* CVAdd *)
    destruct (negb (cfired s) || (0 <? clive s)) eqn:G; [|discriminate].
    inversion Hst; subst s'; clear Hst. unfold cinv; cbn.
    assert (Hz : (clive s + 1 =? 0) = false) by (apply Z.eqb_neq; lia).
    rewrite Hz, andb_false_r. repeat split; try lia; try assumption; try discriminate.
  - (* CVSub *)
    destruct (0 <? clive s) eqn:El; [|discriminate]. apply Z.ltb_lt in El.
    inversion Hst; subst s'; clear Hst. unfold cinv, vert_sub; cbn.
    assert (Hz : (clive s =? 0) = false) by (apply Z.eqb_neq; lia).
    rewrite Hz, andb_false_r in Hfl.
    destruct (closure_flush_fires (cvert s - 1)) eqn:E.
    + apply closure_flush_fires_spec in E.
      assert (Hfd' : cfired s = true) by (destruct (cfired s); [reflexivity | lia]).
      assert (Hl1 : clive s = 1) by (rewrite Hfd' in Hv; lia).
      rewrite Hfd', Hl1; cbn. rewrite Hfl. repeat split; try lia; try assumption.
      * intros _. apply mark_some.
      * intro H. apply mark_zero in H; [|lia]. apply Hf0 in H. tauto.
      * intro H. apply mark_zero in H; [|lia]. apply Hf0 in H. tauto.
      * intros _ _. apply mark_some.
    + assert (Hne : cvert s - 1 <> 0) by (intro X; apply closure_flush_fires_spec in X; congruence).
      assert (Hz' : cfired s && (clive s - 1 =? 0) = false).
      { destruct (cfired s) eqn:Ef; [|reflexivity]. simpl. apply Z.eqb_neq. lia. }
      rewrite Hz', Hfl. repeat split; try lia; try assumption; try discriminate.
  - (* CFire *)
    destruct (cfired s) eqn:Ef; [discriminate|].
    inversion Hst; subst s'; clear Hst. unfold cinv, vert_sub, data_sub; cbn.
    rewrite andb_false_l in Hfl.
    destruct (closure_flush_fires (cvert s - 1)) eqn:E.
    + apply closure_flush_fires_spec in E. assert (Hl0 : clive s = 0) by lia. rewrite Hl0; cbn. rewrite Hfl.
      repeat split; try lia; try assumption.
      * intros _. apply mark_some.
      * intro H. apply mark_zero in H; [|lia].
        destruct (closure_finish_fires (cdata s - 1)) eqn:E2.
        -- apply closure_finish_fires_spec in E2. lia.
        -- apply Hf0 in H. destruct H. discriminate.
      * intros _ _. apply mark_some.
    + assert (Hne : cvert s - 1 <> 0) by (intro X; apply closure_flush_fires_spec in X; congruence).
      assert (Hz : (clive s =? 0) = false) by (apply Z.eqb_neq; lia). rewrite Hz, Hfl.
      repeat split; try lia; try assumption; try discriminate.
      * destruct (closure_finish_fires (cdata s - 1)) eqn:E2.
        -- apply closure_finish_fires_spec in E2. lia.
        -- intro H. apply Hf0 in H. destruct H. discriminate.
      * intros _ Hz0. destruct (closure_finish_fires (cdata s - 1)) eqn:E2; [apply mark_some|].
        assert (closure_finish_fires (cdata s - 1) = true) by (apply closure_finish_fires_spec; lia). congruence.
  - (* CFail *)
    destruct (0 <? clive s) eqn:El; [|discriminate].
    inversion Hst; subst s'; clear Hst. unfold cinv; cbn. repeat split; try lia; try assumption.
    + intros _. apply mark_some.
    + intro H. apply mark_zero in H; [|lia]. apply Hf0 in H. tauto.
    + intro H. apply mark_zero in H; [|lia]. apply Hf0 in H. tauto.
    + intros _ _. apply mark_some.
Qed.

Lemma cinv_run : forall l s, cinv s -> cinv (crun s l).
Proof.
  induction l as [|e r IH]; intros s Hs; cbn [crun]; [assumption|].
  apply IH. destruct (cstep s e) as [s'|] eqn:E; [eapply cinv_step; eauto | assumption].
Qed.

Theorem af_closure_counters : forall l, let s := crun cinit l in
  (cflush s <= 1)%nat /\
  (cflush s = 1%nat <-> cfired s = true /\ clive s = 0) /\          (* wait() returns exactly when run() is through and no vertex is live *)
  (cflush s = 1%nat -> cfin s <> None) /\                            (* ... and then the closure is finished *)
  (cfin s = Some 0 -> cfired s = true /\ cbound s = 0) /\            (* success only when every bound target has been sealed *)
  (cfired s = true -> cbound s = 0 -> cfin s <> None).               (* and as soon as that is the case *)
Proof.
  intros l s. subst s. destruct (cinv_run l _ cinv_init) as (Hb & Hl & Hd & Hv & Hfl & Hff & Hf0 & Hfd).
  repeat split; try assumption.
  - rewrite Hfl. destruct (_ && _); lia.
  - rewrite Hfl in H. destruct (cfired _); [reflexivity | discriminate].
  - rewrite Hfl in H. destruct (cfired _); [|discriminate]. simpl in H.
    destruct (clive _ =? 0) eqn:E; [now apply Z.eqb_eq | discriminate].
  - intros [Hf Hz]. rewrite Hfl, Hf, Hz. reflexivity.
  - apply Hf0; assumption.
  - apply Hf0; assumption.
Qed.

Example af_closure_example : cflush (crun cinit [CBind false; CVAdd; CFire; CDataRel; CVSub]) = 1%nat /\
                             cfin (crun cinit [CBind false; CVAdd; CFire; CDataRel; CVSub]) = Some 0.
Proof. vm_compute. split; reflexivity. Qed.
