(* Proofs about AFModel.  Statements are fixed by Properties_C05.v. *)
From Coq Require Import ZArith List Bool Lia Arith PeanoNat.
Require Import Verif.Base.Atomics Verif.Gen.Gen_anyflow Verif.Conc.Machine Verif.AF.AFModel.
Import ListNotations.
Local Open Scope Z_scope.

(* ======================================================================================== *)
(* A. the dependency protocol: reflection over the (finite) reachable set                   *)
(* ======================================================================================== *)
Definition DReach (c : dcfg) (s : dst) : Prop := reachable dst (dstep c) dinit s.

Lemma apc_eqb_eq : forall a b, apc_eqb a b = true -> a = b.
Proof. destruct a, b; simpl; congruence. Qed.
Lemma cpc_eqb_eq : forall a b, cpc_eqb a b = true -> a = b.
Proof. destruct a, b; simpl; try congruence; intro H; apply Z.eqb_eq in H; now subst. Qed.
Lemma tpc_eqb_eq : forall a b, tpc_eqb a b = true -> a = b.
Proof. destruct a, b; simpl; try congruence. intro H. apply Z.eqb_eq in H. now subst. Qed.

Lemma dst_eqb_eq : forall a b, dst_eqb a b = true -> a = b.
Proof.
  intros [w1 c1 t1 e1 r1 n1 ct1 tt1 b1 pa1 pc1 pt1] [w2 c2 t2 e2 r2 n2 ct2 tt2 b2 pa2 pc2 pt2].
  unfold dst_eqb; cbn [wn cready tready est drdy notified ctrig ttrig bad pa pcn pt]. intro H.
  repeat match goal with H : _ && _ = true |- _ => apply andb_prop in H; destruct H end.
  repeat match goal with
         | H : (_ =? _)%Z = true |- _ => apply Z.eqb_eq in H
         | H : (_ =? _)%nat = true |- _ => apply Nat.eqb_eq in H
         | H : Bool.eqb _ _ = true |- _ => apply eqb_prop in H
         | H : apc_eqb _ _ = true |- _ => apply apc_eqb_eq in H
         | H : cpc_eqb _ _ = true |- _ => apply cpc_eqb_eq in H
         | H : tpc_eqb _ _ = true |- _ => apply tpc_eqb_eq in H
         end.
  subst. reflexivity.
Qed.

Lemma dmem_in : forall s l, dmem s l = true -> In s l.
Proof.
  intros s l H. unfold dmem in H. apply existsb_exists in H. destruct H as [x [Hin Heq]].
  apply dst_eqb_eq in Heq. now subst.
Qed.

Lemma dstep_in_succs : forall c s t s', dstep c s t = Some s' -> In s' (dsuccs c s).
Proof.
  intros c s t s' H. unfold dsuccs. apply in_flat_map.
  destruct t as [|[|[|t]]]; [exists 0%nat | exists 1%nat | exists 2%nat | simpl in H; discriminate];
    (split; [simpl; tauto | rewrite H; simpl; tauto]).
Qed.

(* completeness of a closed state list *)
Lemma dclosed_complete : forall c l, dclosed c l = true -> forall s, DReach c s -> dmem s l = true.
Proof.
  intros c l Hc. unfold dclosed in Hc. apply andb_prop in Hc. destruct Hc as [Hi Hs].
  apply (inv_reachable dst (dstep c) (fun s => dmem s l = true) dinit Hi).
  intros s t s' Hm Hst. apply dmem_in in Hm.
  rewrite forallb_forall in Hs. specialize (Hs s Hm). rewrite forallb_forall in Hs.
  apply Hs. eapply dstep_in_succs; eauto.
Qed.

Lemma dep_reflect : forall c, dclosed c (dall c) = true -> forallb (dep_ok c) (dall c) = true ->
  forall s, DReach c s -> dep_ok c s = true.
Proof.
  intros c Hc Ho s Hr. pose proof (dclosed_complete c _ Hc s Hr) as Hm. apply dmem_in in Hm.
  rewrite forallb_forall in Ho. now apply Ho.
Qed.

Theorem af_dep_protocol : forall c s, DReach c s -> dep_ok c s = true.
Proof.
  intros [[|] [|]] s; apply dep_reflect; vm_compute; reflexivity.
Qed.

(* readable corollaries *)
Lemma dep_ok_fields : forall c s, dep_ok c s = true ->
  (notified s <= 1)%nat /\ bad s = false /\
  (ddone c s = true -> notified s = 1%nat /\ drdy s = est_true c) /\ -3 <= wn s <= 2 /\
  (notified s = 1%nat -> really_ready c s = true).
Proof.
  intros c s H. unfold dep_ok in H.
  apply andb_prop in H; destruct H as [H H7]. apply andb_prop in H; destruct H as [H H6].
  apply andb_prop in H; destruct H as [H H5]. apply andb_prop in H; destruct H as [H H4].
  apply andb_prop in H; destruct H as [H H3]. apply andb_prop in H; destruct H as [H1 H2].
  split; [now apply Nat.leb_le|]. split; [now apply negb_true_iff|]. split; [|split].
  - intro Hd. rewrite Hd in H3. simpl in H3. apply andb_prop in H3. destruct H3 as [Ha Hb].
    split; [now apply Nat.eqb_eq | now apply eqb_prop].
  - split; [now apply Z.leb_le | now apply Z.leb_le].
  - intro Hn. rewrite Hn in H7. simpl in H7. exact H7.
Qed.

Theorem af_dep_exactly_once : forall c s, DReach c s ->
  (notified s <= 1)%nat /\ bad s = false /\ (ddone c s = true -> notified s = 1%nat /\ drdy s = est_true c) /\ -3 <= wn s <= 2 /\
  (notified s = 1%nat -> really_ready c s = true).
Proof. intros c s H. apply dep_ok_fields. now apply af_dep_protocol. Qed.

(* every protocol step tells the vertex at most once more, or seals exactly one data and tells nobody *)
Theorem af_dep_steps : forall c s t s', DReach c s -> dstep c s t = Some s' -> dstep_ok s s' = true.
Proof.
  intros c s t s' Hr Hst.
  assert (Hall : dclosed c (dall c) = true /\ dsteps_ok c (dall c) = true) by (destruct c as [[|] [|]]; vm_compute; split; reflexivity).
  destruct Hall as [Hc Hs]. pose proof (dclosed_complete c _ Hc s Hr) as Hm. apply dmem_in in Hm.
  unfold dsteps_ok in Hs. rewrite forallb_forall in Hs. specialize (Hs s Hm). rewrite forallb_forall in Hs.
  apply Hs. eapply dstep_in_succs; eauto.
Qed.

(* a notification implies the dependency is really ready: `bad` records any violation at the moment of notify *)
Lemma notify_bad : forall c s r, really_ready c s = false -> bad (notify c s r) = true.
Proof. intros c s r H. unfold notify; cbn [bad]. rewrite H. simpl. now rewrite orb_true_r. Qed.

(* reset brings a dependency back to its initial state *)
Theorem af_dep_reset : forall s, dreset s = dinit.
Proof. reflexivity. Qed.

(* non-vacuity: the race the comments in dependency.cpp call "breakdown": condition fails, activation in between its
   two decrements, target released concurrently - a reachable state with all three threads finished *)
Example af_dep_reach_example :
  exists s, DReach {| has_cond := true; holds := false |} s /\ ddone {| has_cond := true; holds := false |} s = true /\ wn s = -1.
Proof.
  exists (run dst (dstep {| has_cond := true; holds := false |}) dinit [1;1;0;2;2;2;0;1;1]%nat). split.
  - now exists [1;1;0;2;2;2;0;1;1]%nat.
  - vm_compute. split; reflexivity.
Qed.

(* memory-order obligations on the regenerated site tables *)
Definition orders_ok : bool :=
  match sites_dep_activate, sites_dep_ready, sites_vertex_activate, sites_vertex_ready, sites_data_release,
        sites_data_ready, sites_data_bind, sites_data_acquire, sites_closure_vertex_sub, sites_closure_data_sub with
  | [(KFadd, oa, _)], [(KFsub, or1, _); (KFsub, or2, _)], [(KCasS, _, _); (KStore, _, _); (KFsub, ova, _)],
    [(KFsub, ovr, _)], [(KLoad, _, _); (_, orel, _)], [(KLoad, ordy, _)], [(KCasS, obind, _)], [(KCasS, oacq, _)],
    [(KFsub, ocv, _)], [(KFsub, ocd, _)] =>
    has_release oa && has_acquire oa && has_release or1 && has_acquire or1 && has_release or2 && has_acquire or2 &&
    has_release ova && has_acquire ova && has_release ovr && has_acquire ovr && has_release orel && has_acquire orel &&
    has_acquire ordy && has_release obind && has_acquire oacq && has_release ocv && has_acquire ocv &&
    has_release ocd && has_acquire ocd
  | _, _, _, _, _, _, _, _, _, _ => false
  end.
Theorem af_orders_ok : orders_ok = true.
Proof. vm_compute. reflexivity. Qed.

(* ======================================================================================== *)
(* B. the vertex count-down, any number of dependencies                                      *)
(* ======================================================================================== *)
Lemma vertex_ready_fires_spec : forall old, vertex_ready_fires old = true <-> old = 1.
Proof. intro old. unfold vertex_ready_fires. apply Z.eqb_eq. Qed.
Lemma vertex_finished_pos_spec : forall x, vertex_finished_pos x = true <-> 0 < x.
Proof. intro x. unfold vertex_finished_pos. rewrite Z.gtb_lt. reflexivity. Qed.
Lemma vertex_act_fires_spec : forall w, vertex_act_fires w = true <-> w = 0.
Proof. intro w. unfold vertex_act_fires. apply Z.eqb_eq. Qed.
Lemma vertex_act_remaining_spec : forall old fin, 0 <= old - fin < 2 ^ 64 -> vertex_act_remaining old fin = old - fin.
Proof. intros old fin H. unfold vertex_act_remaining. now apply Z.mod_small. Qed.

Lemma nmem_in : forall i l, nmem i l = true <-> In i l.
Proof.
  intros i l. unfold nmem. rewrite existsb_exists. split.
  - intros [x [Hin He]]. apply Nat.eqb_eq in He. now subst.
  - intro H. exists i. split; [assumption | apply Nat.eqb_refl].
Qed.

Lemma bounded_nodup_length : forall n l, NoDup l -> (forall i, In i l -> (i < n)%nat) -> (length l <= n)%nat.
Proof.
  intros n l Hnd Hb.
  assert (X : incl l (seq 0 n)) by (intros i Hi; apply in_seq; specialize (Hb i Hi); lia).
  pose proof (NoDup_incl_length Hnd X) as Y. now rewrite seq_length in Y.
Qed.

Lemma full_nodup_all : forall n l, NoDup l -> (forall i, In i l -> (i < n)%nat) -> length l = n ->
  forall i, (i < n)%nat -> In i l.
Proof.
  intros n l Hnd Hb Hlen i Hi.
  assert (Hincl : incl (seq 0 n) l).
  { apply NoDup_length_incl; [assumption | rewrite seq_length; lia |].
    intros k Hk. apply in_seq. specialize (Hb k Hk). lia. }
  apply Hincl. apply in_seq. lia.
Qed.

Definition vinv (n : nat) (s : vst) : Prop :=
  NoDup (vnot s) /\ (forall i, In i (vnot s) -> (i < n)%nat) /\ 0 <= vrdy s /\ 0 <= vfin s /\
  Z.of_nat (length (vnot s)) = vrdy s + vfin s /\
  vw s = Z.of_nat n - vrdy s - (if vended s then vfin s else 0) /\
  vinvoked s = (if (vw s =? 0)%Z then 1%nat else 0%nat).

Lemma vinv_init : forall n, (1 <= n)%nat -> vinv n (vinit (Z.of_nat n)).
Proof.
  intros n Hn. unfold vinv, vinit; cbn. split; [constructor|]. split; [intros i []|].
  repeat split; try lia.
  destruct (Z.of_nat n =? 0) eqn:E; [apply Z.eqb_eq in E; lia | reflexivity].
Qed.

Lemma vinv_step : forall n s e s', (1 <= n)%nat -> Z.of_nat n < 2 ^ 64 -> vinv n s -> vstep n s e = Some s' -> vinv n s'.
Proof.
  intros n s e s' Hn Hbig (Hnd & Hb & Hr & Hf & Hlen & Hw & Hinv) Hst.
  pose proof (bounded_nodup_length n _ Hnd Hb) as Hle.
  destruct e as [i | i |]; cbn [vstep] in Hst.
  - (* VReady *)
    destruct ((i <? n)%nat && negb (nmem i (vnot s))) eqn:G; [|discriminate]. inversion Hst; subst s'; clear Hst.
    apply andb_prop in G. destruct G as [Gi Gm]. apply Nat.ltb_lt in Gi. apply negb_true_iff in Gm.
    assert (Hni : ~ In i (vnot s)) by (intro X; apply nmem_in in X; congruence).
    assert (Hnd' : NoDup (i :: vnot s)) by (constructor; assumption).
    assert (Hb' : forall k, In k (i :: vnot s) -> (k < n)%nat) by (intros k [<-|Hk]; auto).
    pose proof (bounded_nodup_length n _ Hnd' Hb') as Hle'. cbn [length] in Hle'.
    unfold vinv; cbn [vw vfin vended vnot vrdy vinvoked].
    split; [assumption|]. split; [assumption|]. split; [lia|]. split; [lia|].
    split; [cbn [length]; lia|]. split; [destruct (vended s); lia|].
    assert (Hpos : 0 < vw s) by (destruct (vended s); lia).
    rewrite Hinv. destruct (vw s =? 0) eqn:E0; [apply Z.eqb_eq in E0; lia|].
    destruct (vertex_ready_fires (vw s)) eqn:Ef.
    + apply vertex_ready_fires_spec in Ef. rewrite Ef. reflexivity.
    + destruct (vw s - 1 =? 0) eqn:E1; [|reflexivity]. apply Z.eqb_eq in E1.
      assert (vertex_ready_fires (vw s) = true) by (apply vertex_ready_fires_spec; lia). congruence.
  - (* VActRet *)
    destruct ((i <? n)%nat && negb (nmem i (vnot s)) && negb (vended s)) eqn:G; [|discriminate].
    inversion Hst; subst s'; clear Hst.
    apply andb_prop in G. destruct G as [G Ge]. apply andb_prop in G. destruct G as [Gi Gm].
    apply Nat.ltb_lt in Gi. apply negb_true_iff in Gm. apply negb_true_iff in Ge.
    assert (Hni : ~ In i (vnot s)) by (intro X; apply nmem_in in X; congruence).
    unfold vinv; cbn [vw vfin vended vnot vrdy vinvoked]. rewrite Ge in *.
    split; [constructor; assumption|]. split; [intros k [<-|Hk]; auto|]. split; [lia|]. split; [lia|].
    split; [cbn [length]; lia|]. split; [lia|]. assumption.
  - (* VActEnd *)
    destruct (vended s) eqn:Ee; [discriminate|].
    destruct (vertex_finished_pos (vfin s)) eqn:Ep.
    + inversion Hst; subst s'; clear Hst. apply vertex_finished_pos_spec in Ep.
      unfold vinv; cbn [vw vfin vended vnot vrdy vinvoked].
      split; [assumption|]. split; [assumption|]. split; [lia|]. split; [lia|]. split; [lia|]. split; [lia|].
      rewrite vertex_act_remaining_spec by lia.
      rewrite Hinv. destruct (vw s =? 0) eqn:E0; [apply Z.eqb_eq in E0; lia|].
      unfold vertex_act_fires. reflexivity.
    + inversion Hst; subst s'; clear Hst.
      assert (vfin s = 0).
      { destruct (Z.eq_dec (vfin s) 0); [assumption|].
        assert (vertex_finished_pos (vfin s) = true) by (apply vertex_finished_pos_spec; lia). congruence. }
      unfold vinv; cbn [vw vfin vended vnot vrdy vinvoked].
      split; [assumption|]. split; [assumption|]. split; [lia|]. split; [lia|]. split; [lia|]. split; [lia|]. assumption.
Qed.

Lemma vinv_run : forall n l s, (1 <= n)%nat -> Z.of_nat n < 2 ^ 64 -> vinv n s -> vinv n (vrun n s l).
Proof.
  intros n l. induction l as [|e r IH]; intros s Hn Hb Hs; cbn [vrun]; [assumption|].
  apply IH; try assumption. destruct (vstep n s e) as [s'|] eqn:E; [eapply vinv_step; eauto | assumption].
Qed.

Theorem af_vertex_once : forall n l, (1 <= n)%nat -> Z.of_nat n < 2 ^ 64 ->
  (vinvoked (vrun n (vinit (Z.of_nat n)) l) <= 1)%nat.
Proof.
  intros n l Hn Hb. destruct (vinv_run n l _ Hn Hb (vinv_init n Hn)) as (_ & _ & _ & _ & _ & _ & Hi).
  rewrite Hi. destruct (_ =? 0); lia.
Qed.

Theorem af_vertex_only_after_deps : forall n l, (1 <= n)%nat -> Z.of_nat n < 2 ^ 64 ->
  let s := vrun n (vinit (Z.of_nat n)) l in
  vinvoked s = 1%nat -> forall i, (i < n)%nat -> In i (vnot s).
Proof.
  intros n l Hn Hb s H1 i Hi. subst s.
  destruct (vinv_run n l _ Hn Hb (vinv_init n Hn)) as (Hnd & Hbd & Hr & Hf & Hlen & Hw & Hinv).
  pose proof (bounded_nodup_length n _ Hnd Hbd) as Hle.
  rewrite Hinv in H1. destruct (vw _ =? 0) eqn:E0; [|discriminate]. apply Z.eqb_eq in E0.
  apply (full_nodup_all n); try assumption.
  destruct (vended _); lia.
Qed.

Theorem af_vertex_invoked_when_all : forall n l, (1 <= n)%nat -> Z.of_nat n < 2 ^ 64 ->
  let s := vrun n (vinit (Z.of_nat n)) l in
  vended s = true -> (forall i, (i < n)%nat -> In i (vnot s)) -> vinvoked s = 1%nat.
Proof.
  intros n l Hn Hb s He Hall. subst s.
  destruct (vinv_run n l _ Hn Hb (vinv_init n Hn)) as (Hnd & Hbd & Hr & Hf & Hlen & Hw & Hinv).
  pose proof (bounded_nodup_length n _ Hnd Hbd) as Hle.
  assert (Hge : (n <= length (vnot (vrun n (vinit (Z.of_nat n)) l)))%nat).
  { assert (X : incl (seq 0 n) (vnot (vrun n (vinit (Z.of_nat n)) l))).
    { intros i Hi. apply in_seq in Hi. apply Hall. lia. }
    pose proof (NoDup_incl_length (seq_NoDup n 0) X) as Y. now rewrite seq_length in Y. }
  rewrite Hinv. rewrite He in Hw. destruct (vw _ =? 0) eqn:E0; [reflexivity|]. apply Z.eqb_neq in E0. lia.
Qed.

Example af_vertex_example :
  vinvoked (vrun 3 (vinit 3) [VActRet 0%nat; VReady 2%nat; VActRet 1%nat; VActEnd]) = 1%nat.
Proof. vm_compute. reflexivity. Qed.

(* ======================================================================================== *)
(* C. closure counters                                                                       *)
(* ======================================================================================== *)
Lemma closure_flush_fires_spec : forall w, closure_flush_fires w = true <-> w = 0.
Proof.
  intro w. unfold closure_flush_fires, id. destruct (w =? 0) eqn:E.
  - apply Z.eqb_eq in E. simpl. tauto.
  - apply Z.eqb_neq in E. simpl. split; [discriminate | tauto].
Qed.
Lemma closure_finish_fires_spec : forall w, closure_finish_fires w = true <-> w = 0.
Proof. intro w. unfold closure_finish_fires. apply Z.eqb_eq. Qed.

Definition cinv (s : cst) : Prop :=
  0 <= cbound s /\ 0 <= clive s /\
  cdata s = (if cfired s then 0 else 1) + cbound s /\
  cvert s = (if cfired s then 0 else 1) + clive s /\
  cflush s = (if cfired s && (clive s =? 0)%Z then 1%nat else 0%nat) /\
  (cflush s = 1%nat -> cfin s <> None) /\
  (cfin s = Some 0 -> cfired s = true /\ cbound s = 0) /\
  (cfired s = true -> cbound s = 0 -> cfin s <> None).

Lemma cinv_init : cinv cinit.
Proof. unfold cinv, cinit; cbn. repeat split; try lia; try discriminate. Qed.

Lemma mark_some : forall f c, mark f c <> None.
Proof. intros [x|] c; simpl; discriminate. Qed.
Lemma mark_zero : forall f c, c <> 0 -> mark f c = Some 0 -> f = Some 0.
Proof. intros [x|] c Hc H; simpl in H; [assumption | inversion H; congruence]. Qed.

Ltac csplit := unfold cinv; cbn [cdata cvert cfin cflush cbound clive cfired];
  split; [|split; [|split; [|split; [|split; [|split; [|split]]]]]].

Lemma fin_fires_false : forall w, w <> 0 -> closure_finish_fires w = false.
Proof. intros w H. destruct (closure_finish_fires w) eqn:E; [apply closure_finish_fires_spec in E; contradiction | reflexivity]. Qed.
Lemma fin_fires_true : forall w, w = 0 -> closure_finish_fires w = true.
Proof. intros w H. now apply closure_finish_fires_spec. Qed.
Lemma flush_fires_false : forall w, w <> 0 -> closure_flush_fires w = false.
Proof. intros w H. destruct (closure_flush_fires w) eqn:E; [apply closure_flush_fires_spec in E; contradiction | reflexivity]. Qed.
Lemma flush_fires_true : forall w, w = 0 -> closure_flush_fires w = true.
Proof. intros w H. now apply closure_flush_fires_spec. Qed.

Lemma cinv_step : forall s e s', cinv s -> cstep s e = Some s' -> cinv s'.
Proof.
  intros s e s' (Hb & Hl & Hd & Hv & Hfl & Hff & Hf0 & Hfd) Hst.
  destruct e as [rdy | | | | |]; cbn [cstep] in Hst.
  - (* CBind *)
    destruct (cfired s) eqn:Ef; [discriminate|]. simpl in Hfl.
    assert (Hn0 : cfin s <> Some 0) by (intro H; destruct (Hf0 H) as [X _]; discriminate).
    destruct rdy; inversion Hst; subst s'; clear Hst; unfold data_sub; csplit; rewrite ?Ef; cbn [andb]; try lia; try assumption;
      try discriminate.
    + rewrite fin_fires_false by lia. intro H; contradiction.
    + intro H; contradiction.
  - (* CDataRel *)
    destruct (0 <? cbound s) eqn:Eb; [|discriminate]. apply Z.ltb_lt in Eb.
    inversion Hst; subst s'; clear Hst. unfold data_sub; csplit; try lia; try assumption.
    + intro H. specialize (Hff H). destruct (closure_finish_fires (cdata s - 1)); [apply mark_some | assumption].
    + destruct (closure_finish_fires (cdata s - 1)) eqn:E.
      * apply closure_finish_fires_spec in E. intros _. destruct (cfired s); [split; [reflexivity | lia] | lia].
      * intro H. destruct (Hf0 H). lia.
    + intros Hf Hz. destruct (closure_finish_fires (cdata s - 1)) eqn:E; [apply mark_some|].
      rewrite fin_fires_true in E by (rewrite Hd, Hf; lia). discriminate.
  - (* CVAdd *)
    destruct (negb (cfired s) || (0 <? clive s)) eqn:G; [|discriminate].
    inversion Hst; subst s'; clear Hst.
    assert (Hz : (clive s + 1 =? 0) = false) by (apply Z.eqb_neq; lia).
    assert (Hfl0 : cflush s = 0%nat).
    { rewrite Hfl. destruct (cfired s) eqn:Ef; [|reflexivity]. simpl in G. apply Z.ltb_lt in G.
      assert ((clive s =? 0) = false) by (apply Z.eqb_neq; lia). now rewrite H. }
    csplit; try lia; try assumption.
    + rewrite Hz, andb_false_r. assumption.
  - (* CVSub *)
    destruct (0 <? clive s) eqn:El; [|discriminate]. apply Z.ltb_lt in El.
    inversion Hst; subst s'; clear Hst. unfold vert_sub.
    assert (Hz : (clive s =? 0) = false) by (apply Z.eqb_neq; lia).
    rewrite Hz, andb_false_r in Hfl.
    destruct (closure_flush_fires (cvert s - 1)) eqn:E.
    + apply closure_flush_fires_spec in E.
      assert (Hfd' : cfired s = true) by (destruct (cfired s); [reflexivity | lia]).
      assert (Hl1 : clive s = 1) by (rewrite Hfd' in Hv; lia).
      csplit; rewrite ?Hfd', ?Hl1; cbn [andb]; try lia; try assumption.
      * rewrite Hfl. reflexivity.
      * intros _. apply mark_some.
      * intro H. apply mark_zero in H; [|lia]. apply Hf0 in H. rewrite Hfd' in H. assumption.
      * intros _ _. apply mark_some.
    + assert (Hne : cvert s - 1 <> 0) by (intro X; rewrite flush_fires_true in E by assumption; discriminate).
      assert (Hz' : cfired s && (clive s - 1 =? 0) = false).
      { destruct (cfired s) eqn:Ef; [|reflexivity]. simpl. apply Z.eqb_neq. lia. }
      csplit; try lia; try assumption.
      rewrite Hz'. assumption.
  - (* CFire *)
    destruct (cfired s) eqn:Ef; [discriminate|].
    inversion Hst; subst s'; clear Hst. unfold vert_sub, data_sub; cbn [cdata cvert cfin cflush cbound clive cfired].
    simpl in Hfl.
    assert (Hn0 : cfin s <> Some 0) by (intro H; destruct (Hf0 H) as [X _]; discriminate).
    destruct (closure_flush_fires (cvert s - 1)) eqn:E.
    + apply closure_flush_fires_spec in E. assert (Hl0 : clive s = 0) by lia.
      csplit; rewrite ?Hl0; cbn [andb]; try lia; try assumption.
      * rewrite Hfl. reflexivity.
      * intros _. apply mark_some.
      * intro H. apply mark_zero in H; [|lia].
        destruct (closure_finish_fires (cdata s - 1)) eqn:E2.
        -- apply closure_finish_fires_spec in E2. split; [reflexivity | lia].
        -- contradiction.
      * intros _ _. apply mark_some.
    + assert (Hne : cvert s - 1 <> 0) by (intro X; rewrite flush_fires_true in E by assumption; discriminate).
      assert (Hz : (clive s =? 0) = false) by (apply Z.eqb_neq; lia).
      csplit; rewrite ?Hz; cbn [andb]; try lia; try assumption.
      * destruct (closure_finish_fires (cdata s - 1)) eqn:E2.
        -- apply closure_finish_fires_spec in E2. intros _. split; [reflexivity | lia].
        -- intro H. contradiction.
      * intros _ Hz0. destruct (closure_finish_fires (cdata s - 1)) eqn:E2; [apply mark_some|].
        rewrite fin_fires_true in E2 by lia. discriminate.
  - (* CFail *)
    destruct (0 <? clive s) eqn:El; [|discriminate].
    inversion Hst; subst s'; clear Hst. csplit; try lia; try assumption.
    + intros _. apply mark_some.
    + intro H. apply mark_zero in H; [|lia]. apply Hf0 in H. assumption.
    + intros _ _. apply mark_some.
Qed.

Lemma cinv_run : forall l s, cinv s -> cinv (crun s l).
Proof.
  induction l as [|e r IH]; intros s Hs; cbn [crun]; [assumption|].
  apply IH. destruct (cstep s e) as [s'|] eqn:E; [eapply cinv_step; eauto | assumption].
Qed.

Theorem af_closure_counters : forall l, let s := crun cinit l in
  (cflush s <= 1)%nat /\
  (cflush s = 1%nat <-> cfired s = true /\ clive s = 0) /\          (* wait() returns exactly when run() is through and no vertex is live *)
  (cflush s = 1%nat -> cfin s <> None) /\                            (* ... and then the closure is finished *)
  (cfin s = Some 0 -> cfired s = true /\ cbound s = 0) /\            (* success only when every bound target has been sealed *)
  (cfired s = true -> cbound s = 0 -> cfin s <> None).               (* and as soon as that is the case *)
Proof.
  intros l s. subst s. destruct (cinv_run l _ cinv_init) as (Hb & Hl & Hd & Hv & Hfl & Hff & Hf0 & Hfd).
  repeat split; try assumption.
  - rewrite Hfl. destruct (_ && _); lia.
  - rewrite Hfl in H. destruct (cfired _); [reflexivity | discriminate].
  - rewrite Hfl in H. destruct (cfired _); [|discriminate]. simpl in H.
    destruct (clive _ =? 0) eqn:E; [now apply Z.eqb_eq | discriminate].
  - intros [Hf Hz]. rewrite Hfl, Hf, Hz. reflexivity.
  - apply Hf0; assumption.
  - apply Hf0; assumption.
Qed.

Example af_closure_example : cflush (crun cinit [CBind false; CVAdd; CFire; CDataRel; CVSub]) = 1%nat /\
                             cfin (crun cinit [CBind false; CVAdd; CFire; CDataRel; CVSub]) = Some 0.
Proof. vm_compute. split; reflexivity. Qed.

(* ======================================================================================== *)
(* D. the engine: values = sequential evaluation, only needed vertices, data sealed once     *)
(* ======================================================================================== *)
Lemma eupd_same : forall e d x, eupd e d x d = Some x.
Proof. intros. unfold eupd. now rewrite Nat.eqb_refl. Qed.
Lemma eupd_other : forall e d x k, k <> d -> eupd e d x k = e k.
Proof. intros e d x k H. unfold eupd. destruct (k =? d)%nat eqn:E; [apply Nat.eqb_eq in E; contradiction | reflexivity]. Qed.
Lemma bupd_same : forall A (m : nat -> A) k x, bupd m k x k = x.
Proof. intros. unfold bupd. now rewrite Nat.eqb_refl. Qed.
Lemma bupd_other : forall A (m : nat -> A) k x i, i <> k -> bupd m k x i = m i.
Proof. intros A m k x i H. unfold bupd. destruct (i =? k)%nat eqn:E; [apply Nat.eqb_eq in E; contradiction | reflexivity]. Qed.

Lemma bind_outs_other : forall ds outs e d, ~ In d ds -> bind_outs e ds outs d = e d.
Proof.
  induction ds as [|d0 ds IH]; intros outs e d Hn; [reflexivity|]. destruct outs as [|o outs]; [reflexivity|].
  cbn [bind_outs]. rewrite IH by (intro X; apply Hn; now right). apply eupd_other. intro X; apply Hn; left; congruence.
Qed.

Lemma bind_outs_nth : forall ds outs e j d x, NoDup ds -> nth_error ds j = Some d -> nth_error outs j = Some x ->
  bind_outs e ds outs d = Some x.
Proof.
  induction ds as [|d0 ds IH]; intros outs e j d x Hnd Hd Hx; [destruct j; discriminate|].
  destruct outs as [|o outs]; [destruct j; discriminate|]. inversion Hnd; subst. cbn [bind_outs].
  destruct j as [|j]; cbn [nth_error] in Hd, Hx.
  - inversion Hd; inversion Hx; subst. rewrite bind_outs_other by assumption. apply eupd_same.
  - eapply IH; eauto.
Qed.

Lemma dep_view_ext : forall e1 e2 dp, e1 (tgt dp) = e2 (tgt dp) -> (forall c ev, cnd dp = Some (c, ev) -> e1 c = e2 c) ->
  dep_view e1 dp = dep_view e2 dp.
Proof.
  intros e1 e2 dp Ht Hc. unfold dep_view, est_of. destruct (cnd dp) as [[c ev]|] eqn:E.
  - rewrite (Hc c ev eq_refl). destruct (e2 c); [|reflexivity]. destruct (Bool.eqb _ _); [now rewrite Ht | reflexivity].
  - now rewrite Ht.
Qed.

Lemma views_ext : forall e1 e2 l,
  (forall dp, In dp l -> e1 (tgt dp) = e2 (tgt dp) /\ (forall c ev, cnd dp = Some (c, ev) -> e1 c = e2 c)) ->
  views e1 l = views e2 l.
Proof.
  induction l as [|dp l IH]; intro H; [reflexivity|]. cbn [views].
  destruct (H dp (or_introl eq_refl)) as [Ht Hc]. rewrite (dep_view_ext e1 e2 dp Ht Hc).
  rewrite IH by (intros dp' Hin; apply H; now right). reflexivity.
Qed.

Lemma dep_view_mono : forall e1 e2 dp v, (forall d x, e1 d = Some x -> e2 d = Some x) ->
  dep_view e1 dp = Some v -> dep_view e2 dp = Some v.
Proof.
  intros e1 e2 dp v Hm. unfold dep_view, est_of. destruct (cnd dp) as [[c ev]|].
  - destruct (e1 c) as [x|] eqn:E1; [|discriminate]. rewrite (Hm _ _ E1).
    destruct (Bool.eqb _ _); [|tauto]. destruct (e1 (tgt dp)) as [y|] eqn:E2; [|discriminate]. now rewrite (Hm _ _ E2).
  - destruct (e1 (tgt dp)) as [y|] eqn:E2; [|discriminate]. now rewrite (Hm _ _ E2).
Qed.

Lemma views_mono : forall e1 e2 l vs, (forall d x, e1 d = Some x -> e2 d = Some x) ->
  views e1 l = Some vs -> views e2 l = Some vs.
Proof.
  induction l as [|dp l IH]; intros vs Hm H; [assumption|]. cbn [views] in *.
  destruct (dep_view e1 dp) as [v|] eqn:E; [|discriminate]. rewrite (dep_view_mono e1 e2 dp v Hm E).
  destruct (views e1 l) as [vs'|] eqn:E'; [|discriminate]. now rewrite (IH vs' Hm eq_refl).
Qed.

Section EngProofs.
Variable f : nat -> list (option Z) -> option (list (option Z)).

Lemma vertex_res_ext : forall v vx e1 e2,
  (forall dp, In dp (deps vx) -> e1 (tgt dp) = e2 (tgt dp) /\ (forall c ev, cnd dp = Some (c, ev) -> e1 c = e2 c)) ->
  vertex_res f v vx e1 = vertex_res f v vx e2.
Proof. intros v vx e1 e2 H. unfold vertex_res. now rewrite (views_ext e1 e2 _ H). Qed.

Lemma vertex_res_mono : forall v vx e1 e2, (forall d x, e1 d = Some x -> e2 d = Some x) ->
  vertex_res f v vx e1 <> VBlocked -> vertex_res f v vx e2 = vertex_res f v vx e1.
Proof.
  intros v vx e1 e2 Hm Hnb. unfold vertex_res in *. destruct (views e1 (deps vx)) as [vs|] eqn:E; [|congruence].
  now rewrite (views_mono e1 e2 _ vs Hm E).
Qed.

Lemma ref_from_other : forall gl v e d, (forall vx, In vx gl -> ~ In d (emits vx)) -> ref_from f v gl e d = e d.
Proof.
  induction gl as [|vx gl IH]; intros v e d H; [reflexivity|]. cbn [ref_from].
  rewrite IH by (intros vx' Hin; apply H; now right).
  destruct (res_outs vx (vertex_res f v vx e)); [|reflexivity]. apply bind_outs_other. apply H. now left.
Qed.

Lemma ref_from_app : forall g1 g2 v e, ref_from f v (g1 ++ g2) e = ref_from f (v + length g1) g2 (ref_from f v g1 e).
Proof.
  induction g1 as [|vx g1 IH]; intros g2 v e; cbn [app ref_from length].
  - now rewrite Nat.add_0_r.
  - rewrite IH. f_equal. lia.
Qed.

Variable g : graph.
Variable pre : list (nat * option Z).
Variable targets : list nat.

Definition R : env := sref f g pre.

(* the graph is presented in a topological order, every data has at most one producer, inputs have none *)
Definition wf : Prop :=
  (forall k vx, nth_error g k = Some vx -> NoDup (emits vx)) /\
  (forall k k' vx vx' d, nth_error g k = Some vx -> nth_error g k' = Some vx' -> In d (emits vx) -> In d (emits vx') -> k = k') /\
  (forall d x, preset_env pre d = Some x -> forall k vx, nth_error g k = Some vx -> ~ In d (emits vx)) /\
  (forall k vx dp, nth_error g k = Some vx -> In dp (deps vx) ->
     forall k' vx', nth_error g k' = Some vx' -> (k <= k')%nat ->
       ~ In (tgt dp) (emits vx') /\ (forall c ev, cnd dp = Some (c, ev) -> ~ In c (emits vx'))).

(* demand: the least sets closed under "a requested target is wanted; a vertex producing a wanted data is needed;
   a needed vertex wants its unconditional targets, its conditions, and the targets whose condition holds" *)
Inductive Want : nat -> Prop :=
| W_target d : In d targets -> Want d
| W_plain v vx dp : Needed v -> nth_error g v = Some vx -> In dp (deps vx) -> cnd dp = None -> Want (tgt dp)
| W_cond v vx dp c ev : Needed v -> nth_error g v = Some vx -> In dp (deps vx) -> cnd dp = Some (c, ev) -> Want c
| W_est v vx dp c ev x : Needed v -> nth_error g v = Some vx -> In dp (deps vx) -> cnd dp = Some (c, ev) ->
                         R c = Some x -> Bool.eqb (truthy x) ev = true -> Want (tgt dp)
with Needed : nat -> Prop :=
| N_emit v vx d : nth_error g v = Some vx -> In d (emits vx) -> Want d -> Needed v.

Lemma nth_error_app_len : forall A (l1 l2 : list A) n, nth_error (l1 ++ l2) (length l1 + n) = nth_error l2 n.
Proof. intros. rewrite nth_error_app2 by lia. f_equal. lia. Qed.

Lemma sref_preset : wf -> forall d x, preset_env pre d = Some x -> R d = Some x.
Proof.
  intros (_ & _ & W2 & _) d x H. unfold R, sref. rewrite ref_from_other; [assumption|].
  intros vx Hin. apply In_nth_error in Hin. destruct Hin as [k Hk]. eapply W2; eauto.
Qed.

(* the fixpoint equation of the sequential evaluation *)
Lemma sref_fix : wf -> forall k vx outs, nth_error g k = Some vx -> res_outs vx (vertex_res f k vx R) = Some outs ->
  forall j d x, nth_error (emits vx) j = Some d -> nth_error outs j = Some x -> R d = Some x.
Proof.
  intros (W0 & W1 & W2 & W3) k vx outs Hk Hres j d x Hd Hx.
  destruct (nth_error_split g k Hk) as (g1 & g2 & Hg & Hlen).
  assert (Hidx2 : forall i vx', nth_error g2 i = Some vx' -> nth_error g (k + S i) = Some vx').
  { intros i vx' Hi. rewrite Hg, <- Hlen. rewrite nth_error_app_len. exact Hi. }
  set (ek := ref_from f 0 g1 (preset_env pre)).
  set (e' := match res_outs vx (vertex_res f k vx ek) with None => ek | Some o => bind_outs ek (emits vx) o end).
  assert (HR : R = ref_from f (S k) g2 e').
  { unfold R, sref. rewrite Hg, ref_from_app. cbn [ref_from]. rewrite Hlen. reflexivity. }
  (* data not emitted by vx or a later vertex keep their value *)
  assert (Hkeep : forall d0, ~ In d0 (emits vx) -> (forall i vx', nth_error g2 i = Some vx' -> ~ In d0 (emits vx')) -> R d0 = ek d0).
  { intros d0 Hn1 Hn2. rewrite HR, ref_from_other.
    - unfold e'. destruct (res_outs vx (vertex_res f k vx ek)); [now apply bind_outs_other | reflexivity].
    - intros vx' Hin. apply In_nth_error in Hin. destruct Hin as [i Hi]. eapply Hn2; eauto. }
  assert (Hsame : vertex_res f k vx R = vertex_res f k vx ek).
  { apply vertex_res_ext. intros dp Hdp. split.
    - apply Hkeep.
      + exact (proj1 (W3 k vx dp Hk Hdp k vx Hk (le_n k))).
      + intros i vx' Hi. apply (proj1 (W3 k vx dp Hk Hdp (k + S i)%nat vx' (Hidx2 i vx' Hi) ltac:(lia))).
    - intros c ev Hc. apply Hkeep.
      + exact (proj2 (W3 k vx dp Hk Hdp k vx Hk (le_n k)) c ev Hc).
      + intros i vx' Hi. apply (proj2 (W3 k vx dp Hk Hdp (k + S i)%nat vx' (Hidx2 i vx' Hi) ltac:(lia)) c ev Hc). }
  rewrite Hsame in Hres.
  rewrite HR, ref_from_other.
  - unfold e'. rewrite Hres. eapply bind_outs_nth; eauto.
  - intros vx' Hin Hd'. apply In_nth_error in Hin. destruct Hin as [i Hi].
    assert (k = (k + S i)%nat) by (eapply W1; eauto using nth_error_In). lia.
Qed.

(* ---- invariants of the engine ---- *)
Notation estep' := (estep f g pre targets).
Notation erun' := (erun f g pre targets).

Definition einv (s : est_) : Prop :=
  (forall d x, dv s d = Some x -> taint s d = false -> R d = Some x) /\
  (forall d, taint s d = true -> fin s <> None) /\
  (forall v r, ran s v = Some r ->
     match r with
     | VBlocked => False
     | VLate => fin s <> None
     | _ => exists vx, nth_error g v = Some vx /\ vertex_res f v vx R = r /\ Needed v
     end) /\
  (fin s = Some 0 -> forall t, In t targets -> exists x, dv s t = Some x /\ taint s t = false) /\
  (fin s = None -> (forall d, trig s d = true -> Want d) /\ (forall v, act s v = true -> Needed v)) /\
  (forall d, nrel s d = match dv s d with Some _ => 1%nat | None => 0%nat end).

Lemma einv_init : einv einit.
Proof. unfold einv, einit; cbn. repeat split; intros; try discriminate. Qed.

Lemma einv_seal : forall s d x t, einv s -> dv s d = None -> (t = false -> R d = Some x) -> (t = true -> fin s <> None) ->
  einv (seal s d x t).
Proof.
  intros s d x t (J1 & J2 & J3 & J4 & J5 & J6) Hn Hv Ht. unfold einv, seal; cbn [dv trig act ran fin taint nrel].
  split; [|split; [|split; [|split; [|split]]]].
  - intros d' x' Hd Htn. destruct (Nat.eq_dec d' d) as [->|Hne].
    + rewrite eupd_same in Hd. rewrite bupd_same in Htn. inversion Hd; subst. now apply Hv.
    + rewrite eupd_other in Hd by assumption. rewrite bupd_other in Htn by assumption. now apply J1.
  - intros d' Htn. destruct (Nat.eq_dec d' d) as [->|Hne].
    + rewrite bupd_same in Htn. now apply Ht.
    + rewrite bupd_other in Htn by assumption. exact (J2 d' Htn).
  - exact J3.
  - intros Hf t0 Hin. destruct (J4 Hf t0 Hin) as [x0 [Hx0 Ht0]].
    assert (t0 <> d) by (intro; subst; congruence).
    exists x0. rewrite eupd_other, bupd_other by assumption. tauto.
  - exact J5.
  - intro d'. destruct (Nat.eq_dec d' d) as [->|Hne].
    + rewrite bupd_same, eupd_same, J6, Hn. reflexivity.
    + rewrite bupd_other, eupd_other by assumption. apply J6.
Qed.

Lemma einv_trig : forall s d, einv s -> (fin s = None -> Want d) -> einv (set_trig s d).
Proof.
  intros s d (J1 & J2 & J3 & J4 & J5 & J6) Hw. unfold einv, set_trig; cbn [dv trig act ran fin taint nrel].
  split; [exact J1|]. split; [exact J2|]. split; [exact J3|]. split; [exact J4|]. split; [|exact J6].
  intro Hf. destruct (J5 Hf) as [K1 K2]. split; [|exact K2].
  intros d' Hd. destruct (Nat.eq_dec d' d) as [->|Hne]; [now apply Hw|]. rewrite bupd_other in Hd by assumption. now apply K1.
Qed.

Lemma untainted : forall s, einv s -> fin s = None -> forall d x, dv s d = Some x -> R d = Some x.
Proof.
  intros s (J1 & J2 & _) Hf d x Hd. apply J1; [assumption|].
  destruct (taint s d) eqn:E; [|reflexivity]. exfalso. now apply (J2 d E).
Qed.

Lemma einv_step : wf -> forall s e s', einv s -> estep' s e = Some s' -> einv s'.
Proof.
  intros Hwf s e s' Hinv Hst. pose proof Hinv as (J1 & J2 & J3 & J4 & J5 & J6).
  destruct e as [d | d | v | v i | v | v j | |]; cbn [estep] in Hst.
  - (* EInject *)
    destruct (dv s d) eqn:Ed; [discriminate|]. destruct (preset_env pre d) as [x|] eqn:Ep; [|discriminate].
    destruct (producer_of g d); [discriminate|]. inversion Hst; subst s'.
    apply einv_seal; try assumption; [intros _; now apply sref_preset | discriminate].
  - (* EWant *)
    destruct (nmem d targets) eqn:Em; [|discriminate]. inversion Hst; subst s'.
    apply einv_trig; [assumption|]. intros _. apply W_target. now apply nmem_in.
  - (* EAct *)
    destruct (nth_error g v) as [vx|] eqn:Ev; [|discriminate].
    destruct (negb (act s v) && existsb _ (emits vx)) eqn:G; [|discriminate]. inversion Hst; subst s'; clear Hst.
    apply andb_prop in G. destruct G as [_ G]. apply existsb_exists in G. destruct G as [d [Hd Ht]].
    apply andb_prop in Ht. destruct Ht as [Ht _].
    unfold einv; cbn [dv trig act ran fin taint nrel].
    split; [exact J1|]. split; [exact J2|]. split; [exact J3|]. split; [exact J4|]. split; [|exact J6].
    intro Hf. destruct (J5 Hf) as [K1 K2]. split; [exact K1|].
    intros v' Hv'. destruct (Nat.eq_dec v' v) as [->|Hne].
    + eapply N_emit; eauto.
    + rewrite bupd_other in Hv' by assumption. now apply K2.
  - (* EDepTrig *)
    destruct (nth_error g v) as [vx|] eqn:Ev; [|discriminate]. destruct (act s v) eqn:Ea; [|discriminate].
    destruct (nth_error (deps vx) i) as [dp|] eqn:Ei; [|discriminate]. apply nth_error_In in Ei.
    destruct (cnd dp) as [[c ev]|] eqn:Ec.
    + destruct (dv s c) as [x|] eqn:Edc.
      * destruct (Bool.eqb (truthy x) ev) eqn:Ee; [|discriminate]. inversion Hst; subst s'.
        apply einv_trig; [assumption|]. intro Hf. destruct (J5 Hf) as [_ K2].
        eapply W_est; eauto. eapply untainted; eauto.
      * inversion Hst; subst s'. apply einv_trig; [assumption|]. intro Hf. destruct (J5 Hf) as [_ K2]. eapply W_cond; eauto.
    + inversion Hst; subst s'. apply einv_trig; [assumption|]. intro Hf. destruct (J5 Hf) as [_ K2]. eapply W_plain; eauto.
  - (* EInvoke *)
    destruct (nth_error g v) as [vx|] eqn:Ev; [|discriminate]. destruct (ran s v) eqn:Er; [discriminate|].
    destruct (act s v) eqn:Ea; [|discriminate].
    destruct (fin s) as [code|] eqn:Ef.
    + (* late: flush only *)
      assert (Hs' : s' = {| dv := dv s; trig := trig s; act := act s; ran := bupd (ran s) v (Some VLate); fin := Some code;
                            taint := taint s; nrel := nrel s |}).
      { destruct (vertex_res f v vx (dv s)); [discriminate | | | |]; inversion Hst; reflexivity. }
      subst s'. unfold einv; cbn [dv trig act ran fin taint nrel].
      split; [exact J1|]. split; [exact J2|]. split; [|split; [exact J4|split; [exact J5 | exact J6]]].
      intros v' r Hr. destruct (Nat.eq_dec v' v) as [->|Hne].
      * rewrite bupd_same in Hr. inversion Hr; subst. discriminate.
      * rewrite bupd_other in Hr by assumption. now apply J3.
    + assert (Hle : forall d x, dv s d = Some x -> R d = Some x) by (intros; eapply untainted; eauto).
      destruct (J5 eq_refl) as [K1 K2].
      destruct (vertex_res f v vx (dv s)) as [| | | |ins outs] eqn:Evr; [discriminate| | | |];
        inversion Hst; subst s'; clear Hst; unfold einv; cbn [dv trig act ran fin taint nrel];
        (split; [exact J1|]; split; [intros d Hd; exfalso; now apply (J2 d Hd)|]; split; [|split; [|split; [|exact J6]]]);
        try (intros v' r Hr; destruct (Nat.eq_dec v' v) as [->|Hne];
             [ rewrite bupd_same in Hr; inversion Hr; subst; exists vx; split; [assumption|]; split; [|now apply K2];
               rewrite <- Evr; apply vertex_res_mono; [assumption | congruence]
             | rewrite bupd_other in Hr by assumption; specialize (J3 v' r Hr); destruct r; try assumption; congruence ]);
        try (intro Hx; discriminate); try (intros _; split; assumption).
      (* VLate cannot be the result of vertex_res *)
      all: try (unfold vertex_res in Evr; destruct (views (dv s) (deps vx)); [destruct (ess_failed _ _); [discriminate|]; destruct (f v _); discriminate | discriminate]).
  - (* ERel *)
    destruct (nth_error g v) as [vx|] eqn:Ev; [|discriminate]. destruct (ran s v) as [r|] eqn:Er; [|discriminate].
    destruct (res_outs vx r) as [outs|] eqn:Eo; [|discriminate].
    destruct (nth_error (emits vx) j) as [d|] eqn:Ed; [|discriminate].
    destruct (nth_error outs j) as [x|] eqn:Ex; [|discriminate]. destruct (dv s d) eqn:Edv; [discriminate|].
    inversion Hst; subst s'; clear Hst. specialize (J3 v r Er).
    apply einv_seal; try assumption.
    + intro Hl. destruct r; try discriminate.
      * destruct J3 as (vx' & Hvx' & Hres & _). rewrite Ev in Hvx'. inversion Hvx'; subst vx'.
        eapply sref_fix; eauto. now rewrite Hres.
      * destruct J3 as (vx' & Hvx' & Hres & _). rewrite Ev in Hvx'. inversion Hvx'; subst vx'.
        eapply sref_fix; eauto. now rewrite Hres.
    + intro Hl. destruct r; try discriminate. exact J3.
  - (* EFinish0 *)
    destruct (fin s) eqn:Ef; [discriminate|]. destruct (forallb _ targets) eqn:Ea; [|discriminate].
    inversion Hst; subst s'; clear Hst. unfold einv; cbn [dv trig act ran fin taint nrel].
    split; [exact J1|]. split; [discriminate|]. split; [|split; [|split; [discriminate | exact J6]]].
    + intros v r Hr. specialize (J3 v r Hr). destruct r; try assumption. discriminate.
    + intros _ t Ht. rewrite forallb_forall in Ea. specialize (Ea t Ht). destruct (dv s t) as [x|] eqn:Et; [|discriminate].
      exists x. split; [reflexivity|]. destruct (taint s t) eqn:E; [|reflexivity]. exfalso. now apply (J2 t E).
  - (* EFinishErr *)
    destruct (fin s) eqn:Ef; [discriminate|]. inversion Hst; subst s'; clear Hst. unfold einv; cbn [dv trig act ran fin taint nrel].
    split; [exact J1|]. split; [discriminate|]. split; [|split; [discriminate|split; [discriminate | exact J6]]].
    intros v r Hr. specialize (J3 v r Hr). destruct r; try assumption. discriminate.
Qed.

Lemma einv_run : wf -> forall l s, einv s -> einv (erun' s l).
Proof.
  intros Hwf l. induction l as [|e r IH]; intros s Hs; cbn [erun]; [assumption|].
  apply IH. destruct (estep' s e) as [s'|] eqn:E; [eapply einv_step; eauto | assumption].
Qed.

Theorem af_value_eq_sequential : wf -> forall l, let s := erun' einit l in
  fin s = Some 0 -> forall t, In t targets -> exists x, dv s t = Some x /\ R t = Some x.
Proof.
  intros Hwf l s Hf t Ht. subst s. destruct (einv_run Hwf l _ einv_init) as (J1 & _ & _ & J4 & _).
  destruct (J4 Hf t Ht) as [x [Hx Htn]]. exists x. split; [assumption | now apply J1].
Qed.

Theorem af_inputs_eq_sequential : wf -> forall l v ins outs, let s := erun' einit l in
  ran s v = Some (VRun ins outs) -> exists vx, nth_error g v = Some vx /\ vertex_res f v vx R = VRun ins outs.
Proof.
  intros Hwf l v ins outs s Hr. subst s. destruct (einv_run Hwf l _ einv_init) as (_ & _ & J3 & _).
  destruct (J3 _ _ Hr) as (vx & Hvx & Hres & _). eauto.
Qed.

Theorem af_only_needed : wf -> forall l v r, let s := erun' einit l in
  ran s v = Some r -> r <> VLate -> Needed v.
Proof.
  intros Hwf l v r s Hr Hl. subst s. destruct (einv_run Hwf l _ einv_init) as (_ & _ & J3 & _).
  specialize (J3 _ _ Hr). destruct r; try contradiction; destruct J3 as (_ & _ & _ & N); exact N.
Qed.

Lemma estep_dv_mono : forall s e s' d x, estep' s e = Some s' -> dv s d = Some x -> dv s' d = Some x.
Proof.
  intros s e s' d x Hst Hd.
  assert (Hseal : forall d0 x0 t, dv s d0 = None -> dv (seal s d0 x0 t) d = Some x).
  { intros d0 x0 t Hn. unfold seal; cbn [dv]. rewrite eupd_other; [assumption | intro; subst; congruence]. }
  destruct e as [d0 | d0 | v | v i | v | v j | |]; cbn [estep] in Hst.
  - destruct (dv s d0) eqn:E; [discriminate|]. destruct (preset_env pre d0); [|discriminate].
    destruct (producer_of g d0); [discriminate|]. inversion Hst; subst. now apply Hseal.
  - destruct (nmem d0 targets); inversion Hst; subst; assumption.
  - destruct (nth_error g v); [|discriminate]. destruct (_ && _); inversion Hst; subst; assumption.
  - destruct (nth_error g v) as [vx|]; [|discriminate]. destruct (act s v); [|discriminate].
    destruct (nth_error (deps vx) i) as [dp|]; [|discriminate]. destruct (cnd dp) as [[c ev]|].
    + destruct (dv s c); [destruct (Bool.eqb _ _)|]; inversion Hst; subst; assumption.
    + inversion Hst; subst; assumption.
  - destruct (nth_error g v) as [vx|]; [|discriminate]. destruct (ran s v); [discriminate|]. destruct (act s v); [|discriminate].
    destruct (vertex_res f v vx (dv s)); inversion Hst; subst; assumption.
  - destruct (nth_error g v) as [vx|]; [|discriminate]. destruct (ran s v) as [r|]; [|discriminate].
    destruct (res_outs vx r); [|discriminate]. destruct (nth_error (emits vx) j) as [d0|]; [|discriminate].
    destruct (nth_error _ j); [|discriminate]. destruct (dv s d0) eqn:E; [discriminate|]. inversion Hst; subst. now apply Hseal.
  - destruct (fin s); [discriminate|]. destruct (forallb _ _); inversion Hst; subst; assumption.
  - destruct (fin s); inversion Hst; subst; assumption.
Qed.

Theorem af_data_once : wf -> forall l d, let s := erun' einit l in
  (nrel s d <= 1)%nat /\ (forall x l', dv s d = Some x -> dv (erun' s l') d = Some x).
Proof.
  intros Hwf l d s. subst s. split.
  - destruct (einv_run Hwf l _ einv_init) as (_ & _ & _ & _ & _ & J6). rewrite J6. destruct (dv _ d); lia.
  - intros x l'. generalize (erun' einit l). induction l' as [|e r IH]; intros s Hd; cbn [erun]; [assumption|].
    apply IH. destruct (estep' s e) as [s'|] eqn:E; [eapply estep_dv_mono; eauto | assumption].
Qed.
End EngProofs.

(* non-vacuity: a two-vertex graph with a conditional dependency, well-formed, and a schedule that finishes with success *)
Definition ex_flags (v : nat) : bool * bool * nat := (false, false, 1%nat).
Definition ex_g : graph :=
  [ {| deps := []; emits := [1%nat] |};
    {| deps := [ {| tgt := 1%nat; cnd := Some (0%nat, true); ess := false |} ]; emits := [2%nat] |} ].
Definition ex_pre : list (nat * option Z) := [(0%nat, Some 1)].
Definition ex_sched : list eev :=
  [EInject 0; EWant 2; EAct 1; EDepTrig 1 0; EAct 0; EInvoke 0; ERel 0 0; EInvoke 1; ERel 1 0; EFinish0]%nat.

Lemma nth_error_ex_g : forall k vx, nth_error ex_g k = Some vx ->
  (k = 0%nat /\ vx = {| deps := []; emits := [1%nat] |}) \/
  (k = 1%nat /\ vx = {| deps := [ {| tgt := 1%nat; cnd := Some (0%nat, true); ess := false |} ]; emits := [2%nat] |}).
Proof.
  intros k vx H. destruct k as [|[|k]]; simpl in H.
  - left. inversion H. auto.
  - right. inversion H. auto.
  - destruct k; discriminate.
Qed.

Example af_wf_example : wf ex_g ex_pre.
Proof.
  unfold wf. split; [|split; [|split]].
  - intros k vx H. destruct (nth_error_ex_g k vx H) as [[-> ->]|[-> ->]]; simpl; repeat constructor; simpl; tauto.
  - intros k k' vx vx' d H H' Hd Hd'.
    destruct (nth_error_ex_g k vx H) as [[-> ->]|[-> ->]]; destruct (nth_error_ex_g k' vx' H') as [[-> ->]|[-> ->]];
      simpl in Hd, Hd'; try reflexivity; exfalso; lia.
  - intros d x Hp k vx H. unfold preset_env, ex_pre in Hp. simpl in Hp.
    destruct d as [|d]; [|discriminate].
    destruct (nth_error_ex_g k vx H) as [[-> ->]|[-> ->]]; simpl; lia.
  - intros k vx dp H Hdp k' vx' H' Hle.
    destruct (nth_error_ex_g k vx H) as [[-> ->]|[-> ->]]; simpl in Hdp; [contradiction|].
    destruct Hdp as [<-|[]]. cbn [tgt cnd].
    destruct (nth_error_ex_g k' vx' H') as [[-> ->]|[-> ->]]; [lia|]. simpl. split; [lia|].
    intros c ev Hc. inversion Hc; subst. lia.
Qed.

Example af_run_example :
  let s := erun (proc_fn ex_flags) ex_g ex_pre [2%nat] (einit) ex_sched in
  fin s = Some 0 /\ dv s 2%nat = Some None /\ ran s 0%nat = Some (VRun [] [Some 1]) /\
  sref (proc_fn ex_flags) ex_g ex_pre 2%nat = Some None.
Proof. vm_compute. repeat split; reflexivity. Qed.

(* ======================================================================================== *)
(* E. one vertex, n dependencies: DEP x VTX composed; the guard ENG assumes                   *)
(* ======================================================================================== *)
Definition XReach (cs : list dcfg) (s : xst) : Prop := reachable xst (xstep cs) (xinit (length cs)) s.

Lemma vinv_invoked_all : forall n s, vinv n s -> vinvoked s = 1%nat -> forall i, (i < n)%nat -> In i (vnot s).
Proof.
  intros n s (Hnd & Hbd & Hr & Hf & Hlen & Hw & Hinv) H1 i Hi.
  pose proof (bounded_nodup_length n _ Hnd Hbd) as Hle.
  rewrite Hinv in H1. destruct (vw s =? 0) eqn:E0; [|discriminate]. apply Z.eqb_eq in E0.
  apply (full_nodup_all n); try assumption. destruct (vended s); lia.
Qed.

Lemma vinv_all_invoked : forall n s, vinv n s -> vended s = true -> (forall i, (i < n)%nat -> In i (vnot s)) -> vinvoked s = 1%nat.
Proof.
  intros n s (Hnd & Hbd & Hr & Hf & Hlen & Hw & Hinv) He Hall.
  pose proof (bounded_nodup_length n _ Hnd Hbd) as Hle.
  assert (Hge : (n <= length (vnot s))%nat).
  { assert (X : incl (seq 0 n) (vnot s)) by (intros i Hi; apply in_seq in Hi; apply Hall; lia).
    pose proof (NoDup_incl_length (seq_NoDup n 0) X) as Y. now rewrite seq_length in Y. }
  rewrite Hinv. rewrite He in Hw. destruct (vw s =? 0) eqn:E0; [reflexivity|]. apply Z.eqb_neq in E0. lia.
Qed.

Lemma vinv_le1 : forall n s, vinv n s -> (vinvoked s <= 1)%nat.
Proof. intros n s (_ & _ & _ & _ & _ & _ & Hinv). rewrite Hinv. destruct (_ =? 0); lia. Qed.

Lemma lset_length : forall A (l : list A) i x, length (lset i x l) = length l.
Proof. induction l as [|y l IH]; intros [|i] x; cbn; auto. Qed.
Lemma lset_nth_same : forall A (l : list A) i x, (i < length l)%nat -> nth_error (lset i x l) i = Some x.
Proof. induction l as [|y l IH]; intros [|i] x H; cbn in *; try lia; [reflexivity | apply IH; lia]. Qed.
Lemma lset_nth_other : forall A (l : list A) i j x, j <> i -> nth_error (lset i x l) j = nth_error l j.
Proof. induction l as [|y l IH]; intros [|i] [|j] x H; cbn; try reflexivity; try congruence. apply IH. congruence. Qed.
Lemma lset_same : forall A (l : list A) i x, nth_error l i = Some x -> lset i x l = l.
Proof. induction l as [|y l IH]; intros [|i] x H; cbn in *; try discriminate; [congruence | f_equal; now apply IH]. Qed.
Lemma lset_map : forall A B (h : A -> B) (l : list A) i x, map h (lset i x l) = lset i (h x) (map h l).
Proof. induction l as [|y l IH]; intros [|i] x; cbn; try reflexivity. f_equal. apply IH. Qed.

Definition xinv (cs : list dcfg) (s : xst) : Prop :=
  length (xdeps s) = length cs /\
  (forall i c d, nth_error cs i = Some c -> nth_error (xdeps s) i = Some d -> DReach c d) /\
  vinv (length cs) (xv s) /\
  (forall i d, nth_error (xdeps s) i = Some d -> (In i (vnot (xv s)) <-> notified d = 1%nat)) /\
  (vended (xv s) = true -> xnext s = length cs) /\ (xnext s <= length cs)%nat.

Lemma xinv_init : forall cs, (1 <= length cs)%nat -> xinv cs (xinit (length cs)).
Proof.
  intros cs Hn. unfold xinv, xinit; cbn [xdeps xv xnext].
  split; [apply repeat_length|]. split; [|split; [now apply vinv_init|split; [|split; [discriminate | lia]]]].
  - intros i c d _ Hd. apply nth_error_In in Hd. apply repeat_spec in Hd. subst d. now exists [].
  - intros i d Hd. apply nth_error_In in Hd. apply repeat_spec in Hd. subst d. cbn. split; [tauto | discriminate].
Qed.

(* what a protocol step of one dependency means for the vertex *)
Lemma dep_update_facts : forall c d t d', DReach c d -> dstep c d t = Some d' ->
  DReach c d' /\
  ((notified d <? notified d')%nat = true -> notified d = 0%nat /\ notified d' = 1%nat) /\
  ((notified d <? notified d')%nat = false -> notified d' = notified d).
Proof.
  intros c d t d' Hr Hst.
  assert (Hr' : DReach c d') by (eapply reachable_step; eauto).
  pose proof (af_dep_steps c d t d' Hr Hst) as Hok. unfold dstep_ok in Hok. apply andb_prop in Hok. destruct Hok as [Hn _].
  destruct (dep_ok_fields c d' (af_dep_protocol c d' Hr')) as (Hle & _).
  apply orb_prop in Hn. split; [assumption|]. split; intro Hlt.
  - apply Nat.ltb_lt in Hlt. destruct Hn as [Hn|Hn]; apply Nat.eqb_eq in Hn; lia.
  - apply Nat.ltb_ge in Hlt. destruct Hn as [Hn|Hn]; apply Nat.eqb_eq in Hn; lia.
Qed.

Lemma vstep_ready_raw : forall n s i, (i < n)%nat -> ~ In i (vnot s) -> vstep n s (VReady i) = Some (v_ready s i).
Proof.
  intros n s i Hi Hn. cbn [vstep]. assert ((i <? n)%nat = true) by now apply Nat.ltb_lt.
  assert (nmem i (vnot s) = false) by (destruct (nmem i (vnot s)) eqn:E; [apply nmem_in in E; contradiction | reflexivity]).
  rewrite H, H0. reflexivity.
Qed.
Lemma vstep_actret_raw : forall n s i, (i < n)%nat -> ~ In i (vnot s) -> vended s = false -> vstep n s (VActRet i) = Some (v_actret s i).
Proof.
  intros n s i Hi Hn He. cbn [vstep]. assert ((i <? n)%nat = true) by now apply Nat.ltb_lt.
  assert (nmem i (vnot s) = false) by (destruct (nmem i (vnot s)) eqn:E; [apply nmem_in in E; contradiction | reflexivity]).
  unfold v_actret. rewrite H, H0, He. reflexivity.
Qed.
Lemma vstep_actend_raw : forall n s, vended s = false -> vstep n s VActEnd = Some (v_actend s).
Proof. intros n s He. cbn [vstep]. rewrite He. unfold v_actend. destruct (vertex_finished_pos (vfin s)); reflexivity. Qed.

(* updating dependency i (protocol step d -> d') and, iff it told the vertex, the vertex counter by `op` *)
Lemma xinv_dep_upd : forall cs s i c d t d' (op : vst -> nat -> vst) nx,
  (1 <= length cs)%nat -> Z.of_nat (length cs) < 2 ^ 64 -> xinv cs s ->
  nth_error cs i = Some c -> nth_error (xdeps s) i = Some d -> dstep c d t = Some d' ->
  (forall v, vnot (op v i) = i :: vnot v /\ vended (op v i) = vended v) ->
  ((notified d <? notified d')%nat = true -> ~ In i (vnot (xv s)) -> exists ev, vstep (length cs) (xv s) ev = Some (op (xv s) i)) ->
  (vended (xv s) = true -> nx = length cs) -> (nx <= length cs)%nat ->
  xinv cs {| xdeps := lset i d' (xdeps s); xv := if (notified d <? notified d')%nat then op (xv s) i else xv s; xnext := nx |}.
Proof.
  intros cs s i c d t d' op nx Hn Hbig (Hlen & Hreach & Hv & Hiff & Hend & Hnx) Hc Hd Hst Hop Hvs Hnx1 Hnx2.
  destruct (dep_update_facts c d t d' (Hreach i c d Hc Hd) Hst) as (Hr' & Hlt & Hge).
  assert (Hil : (i < length (xdeps s))%nat) by (apply nth_error_Some; congruence).
  unfold xinv; cbn [xdeps xv xnext].
  split; [now rewrite lset_length|]. split; [|split; [|split; [|split]]].
  - intros j c0 d0 Hc0 Hd0. destruct (Nat.eq_dec j i) as [->|Hne].
    + rewrite lset_nth_same in Hd0 by assumption. inversion Hd0; subst d0. rewrite Hc in Hc0. inversion Hc0; subst c0. exact Hr'.
    + rewrite lset_nth_other in Hd0 by assumption. eauto.
  - destruct (notified d <? notified d')%nat eqn:E; [|exact Hv].
    destruct (Hlt eq_refl) as [H0 H1].
    assert (Hni : ~ In i (vnot (xv s))) by (intro X; apply (Hiff i d Hd) in X; lia).
    destruct (Hvs eq_refl Hni) as [ev Hev]. eapply vinv_step; eauto.
  - intros j d0 Hd0. destruct (notified d <? notified d')%nat eqn:E.
    + destruct (Hlt eq_refl) as [H0 H1]. destruct (Hop (xv s)) as [Hvn _]. rewrite Hvn.
      destruct (Nat.eq_dec j i) as [->|Hne].
      * rewrite lset_nth_same in Hd0 by assumption. inversion Hd0; subst d0. split; [intros _; exact H1 | intros _; now left].
      * rewrite lset_nth_other in Hd0 by assumption. rewrite <- (Hiff j d0 Hd0). split; [intros [X|X]; [congruence | exact X] | intro X; now right].
    + destruct (Nat.eq_dec j i) as [->|Hne].
      * rewrite lset_nth_same in Hd0 by assumption. inversion Hd0; subst d0. rewrite (Hge eq_refl). apply (Hiff i d Hd).
      * rewrite lset_nth_other in Hd0 by assumption. apply (Hiff j d0 Hd0).
  - intro He. apply Hnx1. destruct (notified d <? notified d')%nat; [|exact He]. destruct (Hop (xv s)) as [_ Hve]. now rewrite Hve in He.
  - exact Hnx2.
Qed.

Lemma xinv_step : forall cs s t s', (1 <= length cs)%nat -> Z.of_nat (length cs) < 2 ^ 64 ->
  xinv cs s -> xstep cs s t = Some s' -> xinv cs s'.
Proof.
  intros cs s t s' Hn Hbig Hinv Hst. pose proof Hinv as (Hlen & Hreach & Hv & Hiff & Hend & Hnx).
  destruct t as [|k]; cbn [xstep] in Hst.
  - destruct (xnext s <? length cs)%nat eqn:El.
    + apply Nat.ltb_lt in El.
      destruct (nth_error cs (xnext s)) as [c|] eqn:Ec; [|discriminate].
      destruct (nth_error (xdeps s) (xnext s)) as [d|] eqn:Ed; [|discriminate].
      destruct (step_a c d) as [d'|] eqn:Es; [|discriminate]. inversion Hst; subst s'; clear Hst.
      assert (Hne : vended (xv s) = false) by (destruct (vended (xv s)) eqn:E; [specialize (Hend eq_refl); lia | reflexivity]).
      apply (xinv_dep_upd cs s (xnext s) c d 0%nat d' v_actret); try assumption.
      * intro v. split; reflexivity.
      * intros _ Hni. exists (VActRet (xnext s)). now apply vstep_actret_raw.
      * intro X. congruence.
      * destruct (pa d'); lia.
    + apply Nat.ltb_ge in El. destruct (vended (xv s)) eqn:Ee; [discriminate|]. inversion Hst; subst s'; clear Hst.
      unfold xinv; cbn [xdeps xv xnext]. split; [assumption|]. split; [assumption|]. split; [|split; [|split; [intros _; lia | assumption]]].
      * eapply vinv_step; eauto. now apply vstep_actend_raw.
      * intros i d Hd. rewrite <- (Hiff i d Hd). unfold v_actend. destruct (vertex_finished_pos _); cbn [vnot]; tauto.
  - destruct (nth_error cs (Nat.div2 k)) as [c|] eqn:Ec; [|discriminate].
    destruct (nth_error (xdeps s) (Nat.div2 k)) as [d|] eqn:Ed; [|discriminate].
    destruct (if Nat.odd k then step_t c d else step_c c d) as [d'|] eqn:Es; [|discriminate]. inversion Hst; subst s'; clear Hst.
    assert (Hi : (Nat.div2 k < length cs)%nat) by (apply nth_error_Some; congruence).
    apply (xinv_dep_upd cs s (Nat.div2 k) c d (if Nat.odd k then 2%nat else 1%nat) d' v_ready); try assumption.
    + destruct (Nat.odd k); exact Es.
    + intro v. split; reflexivity.
    + intros _ Hni. exists (VReady (Nat.div2 k)). now apply vstep_ready_raw.
Qed.

Lemma xinv_reach : forall cs s, (1 <= length cs)%nat -> Z.of_nat (length cs) < 2 ^ 64 -> XReach cs s -> xinv cs s.
Proof.
  intros cs s Hn Hb Hr. apply (inv_reachable xst (xstep cs) (xinv cs) (xinit (length cs))); try assumption.
  - now apply xinv_init.
  - intros s0 t s1 H0 H1. eapply xinv_step; eauto.
Qed.

Theorem af_vx_invoke_once : forall cs s, (1 <= length cs)%nat -> Z.of_nat (length cs) < 2 ^ 64 -> XReach cs s ->
  (vinvoked (xv s) <= 1)%nat.
Proof. intros cs s Hn Hb Hr. destruct (xinv_reach cs s Hn Hb Hr) as (_ & _ & Hv & _). eapply vinv_le1; eauto. Qed.

Theorem af_vx_only_resolved : forall cs s, (1 <= length cs)%nat -> Z.of_nat (length cs) < 2 ^ 64 -> XReach cs s ->
  vinvoked (xv s) = 1%nat ->
  forall i c d, nth_error cs i = Some c -> nth_error (xdeps s) i = Some d -> notified d = 1%nat /\ really_ready c d = true.
Proof.
  intros cs s Hn Hb Hr H1 i c d Hc Hd. destruct (xinv_reach cs s Hn Hb Hr) as (Hlen & Hreach & Hv & Hiff & _).
  assert (Hi : (i < length cs)%nat) by (apply nth_error_Some; congruence).
  pose proof (vinv_invoked_all _ _ Hv H1 i Hi) as Hin. apply (Hiff i d Hd) in Hin. split; [assumption|].
  destruct (dep_ok_fields c d (af_dep_protocol c d (Hreach i c d Hc Hd))) as (_ & _ & _ & _ & Hrr). now apply Hrr.
Qed.

Theorem af_vx_invoked_when_done : forall cs s, (1 <= length cs)%nat -> Z.of_nat (length cs) < 2 ^ 64 -> XReach cs s ->
  vended (xv s) = true ->
  (forall i c d, nth_error cs i = Some c -> nth_error (xdeps s) i = Some d -> ddone c d = true) ->
  vinvoked (xv s) = 1%nat.
Proof.
  intros cs s Hn Hb Hr He Hdone. destruct (xinv_reach cs s Hn Hb Hr) as (Hlen & Hreach & Hv & Hiff & _).
  apply (vinv_all_invoked _ _ Hv He). intros i Hi.
  destruct (nth_error cs i) as [c|] eqn:Ec; [|apply nth_error_None in Ec; lia].
  destruct (nth_error (xdeps s) i) as [d|] eqn:Ed; [|apply nth_error_None in Ed; lia].
  apply (Hiff i d Ed).
  destruct (dep_ok_fields c d (af_dep_protocol c d (Hreach i c d Ec Ed))) as (_ & _ & Hdd & _). now destruct (Hdd (Hdone i c d Ec Ed)).
Qed.

(* ---- refinement: what ENG sees of this vertex (sealed flags, invoked) moves only by ENG's moves ---- *)
Inductive xabs_step (cs : list dcfg) : list (bool * bool) * nat -> list (bool * bool) * nat -> Prop :=
| XA_stutter a : xabs_step cs a a
| XA_seal_c i fls k cr tr : nth_error fls i = Some (cr, tr) -> xabs_step cs (fls, k) (lset i (true, tr) fls, k)
| XA_seal_t i fls k cr tr : nth_error fls i = Some (cr, tr) -> xabs_step cs (fls, k) (lset i (cr, true) fls, k)
| XA_invoke fls : all_resolved cs fls = true -> xabs_step cs (fls, 0%nat) (fls, 1%nat).   (* ENG: EInvoke, guard = resolved *)

Lemma nth_error_combine : forall A B (l1 : list A) (l2 : list B) i a b,
  nth_error (combine l1 l2) i = Some (a, b) -> nth_error l1 i = Some a /\ nth_error l2 i = Some b.
Proof.
  induction l1 as [|x l1 IH]; intros [|y l2] [|i] a b H; cbn in *; try discriminate.
  - inversion H; subst. auto.
  - now apply IH.
Qed.

Lemma really_ready_resolved : forall c d, really_ready c d = resolved c (cready d, tready d).
Proof. reflexivity. Qed.

Lemma all_resolved_of_invoked : forall cs s, (1 <= length cs)%nat -> Z.of_nat (length cs) < 2 ^ 64 -> XReach cs s ->
  vinvoked (xv s) = 1%nat -> all_resolved cs (fst (xproj s)) = true.
Proof.
  intros cs s Hn Hb Hr H1. unfold all_resolved, xproj; cbn [fst]. apply forallb_forall. intros [c fl] Hin.
  apply In_nth_error in Hin. destruct Hin as [i Hi]. apply nth_error_combine in Hi. destruct Hi as [Hc Hf].
  destruct (nth_error (xdeps s) i) as [d|] eqn:Ed.
  - rewrite (map_nth_error _ _ _ Ed) in Hf. inversion Hf; subst fl. cbn [fst snd].
    rewrite <- really_ready_resolved. now destruct (af_vx_only_resolved cs s Hn Hb Hr H1 i c d Hc Ed).
  - apply nth_error_None in Ed. assert (nth_error (map (fun d => (cready d, tready d)) (xdeps s)) i = None) by (apply nth_error_None; now rewrite map_length).
    congruence.
Qed.

Theorem af_vx_refines : forall cs s t s', (1 <= length cs)%nat -> Z.of_nat (length cs) < 2 ^ 64 -> XReach cs s ->
  xstep cs s t = Some s' -> xabs_step cs (xproj s) (xproj s').
Proof.
  intros cs s t s' Hn Hb Hr Hst.
  assert (Hr' : XReach cs s') by (eapply reachable_step; eauto).
  pose proof (af_vx_invoke_once cs s Hn Hb Hr) as Hle. pose proof (af_vx_invoke_once cs s' Hn Hb Hr') as Hle'.
  destruct (xinv_reach cs s Hn Hb Hr) as (Hlen & Hreach & Hv & Hiff & Hend & Hnx).
  (* a step that leaves the flags alone is a stutter or the invoke *)
  assert (Hsame : map (fun d => (cready d, tready d)) (xdeps s') = map (fun d => (cready d, tready d)) (xdeps s) ->
                  (vinvoked (xv s') = vinvoked (xv s) \/ vinvoked (xv s') = S (vinvoked (xv s))) ->
                  xabs_step cs (xproj s) (xproj s')).
  { intros Hm Hi. unfold xproj. rewrite Hm. destruct Hi as [Hi|Hi].
    - rewrite Hi. apply XA_stutter.
    - assert (H0 : vinvoked (xv s) = 0%nat) by lia. assert (H1 : vinvoked (xv s') = 1%nat) by lia. rewrite H0, H1.
      apply XA_invoke. rewrite <- Hm. exact (all_resolved_of_invoked cs s' Hn Hb Hr' H1). }
  (* a protocol step of dependency i *)
  assert (Hdep : forall i c d t' d' (op : vst -> nat -> vst),
             nth_error cs i = Some c -> nth_error (xdeps s) i = Some d -> dstep c d t' = Some d' ->
             xdeps s' = lset i d' (xdeps s) -> xv s' = (if (notified d <? notified d')%nat then op (xv s) i else xv s) ->
             (forall v, vinvoked (op v i) = vinvoked v \/ vinvoked (op v i) = S (vinvoked v)) ->
             xabs_step cs (xproj s) (xproj s')).
  { intros i c d t' d' op Hc Hd Hds Hxd Hxv Hop.
    pose proof (af_dep_steps c d t' d' (Hreach i c d Hc Hd) Hds) as Hok. unfold dstep_ok in Hok.
    apply andb_prop in Hok. destruct Hok as [_ Hfl]. apply orb_prop in Hfl. destruct Hfl as [Hfl|Hfl].
    - apply andb_prop in Hfl. destruct Hfl as [Hc1 Ht1]. apply eqb_prop in Hc1. apply eqb_prop in Ht1.
      apply Hsame.
      + rewrite Hxd, lset_map, Hc1, Ht1. apply lset_same. now rewrite (map_nth_error _ _ _ Hd).
      + rewrite Hxv. destruct (notified d <? notified d')%nat; [apply Hop | now left].
    - apply andb_prop in Hfl. destruct Hfl as [Hn1 Hfl]. apply Nat.eqb_eq in Hn1.
      assert (Hlt : (notified d <? notified d')%nat = false) by (apply Nat.ltb_ge; lia).
      unfold xproj. rewrite Hxv, Hlt, Hxd, lset_map.
      apply orb_prop in Hfl. destruct Hfl as [Hfl|Hfl]; apply andb_prop in Hfl; destruct Hfl as [Hs1 Hs2]; apply eqb_prop in Hs2.
      + rewrite Hs1, Hs2. eapply XA_seal_c. now rewrite (map_nth_error _ _ _ Hd).
      + rewrite Hs1, Hs2. eapply XA_seal_t. now rewrite (map_nth_error _ _ _ Hd). }
  destruct t as [|k]; cbn [xstep] in Hst.
  - destruct (xnext s <? length cs)%nat eqn:El.
    + destruct (nth_error cs (xnext s)) as [c|] eqn:Ec; [|discriminate].
      destruct (nth_error (xdeps s) (xnext s)) as [d|] eqn:Ed; [|discriminate].
      destruct (step_a c d) as [d'|] eqn:Es; [|discriminate]. inversion Hst; subst s'; clear Hst.
      apply (Hdep (xnext s) c d 0%nat d' v_actret); try assumption; try reflexivity. intro v. now left.
    + destruct (vended (xv s)) eqn:Ee; [discriminate|]. inversion Hst; subst s'; clear Hst.
      apply Hsame; [reflexivity|]. cbn [xv]. unfold v_actend.
      destruct (vertex_finished_pos _); cbn [vinvoked]; [destruct (vertex_act_fires _); auto | auto].
  - destruct (nth_error cs (Nat.div2 k)) as [c|] eqn:Ec; [|discriminate].
    destruct (nth_error (xdeps s) (Nat.div2 k)) as [d|] eqn:Ed; [|discriminate].
    destruct (if Nat.odd k then step_t c d else step_c c d) as [d'|] eqn:Es; [|discriminate]. inversion Hst; subst s'; clear Hst.
    apply (Hdep (Nat.div2 k) c d (if Nat.odd k then 2%nat else 1%nat) d' v_ready); try assumption; try reflexivity.
    + destruct (Nat.odd k); exact Es.
    + intro v. unfold v_ready; cbn [vinvoked]. destruct (vertex_ready_fires _); auto.
Qed.

(* ... and ENG's EInvoke guard IS "every dependency resolved": in a data environment e that is a part of the eventual
   values E, a dependency's view exists iff its flags are resolved under its configuration *)
Lemma dep_view_resolved : forall e E dp, (forall d x, e d = Some x -> E d = Some x) ->
  (dep_view e dp <> None <-> resolved (dep_cfg E dp) (dep_flags e dp) = true).
Proof.
  intros e E dp Hm. unfold dep_view, est_of, resolved, dep_cfg, dep_flags, est_true; cbn [has_cond holds fst snd].
  destruct (cnd dp) as [[c ev]|]; cbn [is_some negb orb andb].
  - destruct (e c) as [x|] eqn:Ec; cbn [is_some andb].
    + rewrite (Hm c x Ec). destruct (Bool.eqb (truthy x) ev); cbn [negb orb].
      * destruct (e (tgt dp)); cbn; split; congruence.
      * split; [reflexivity | discriminate].
    + split; [congruence | discriminate].
  - destruct (e (tgt dp)); cbn; split; congruence.
Qed.

Theorem af_eng_guard_is_resolved : forall f v vx e E, (forall d x, e d = Some x -> E d = Some x) ->
  (vertex_res f v vx e <> VBlocked <->
   forallb (fun dp => resolved (dep_cfg E dp) (dep_flags e dp)) (deps vx) = true).
Proof.
  intros f v vx e E Hm. unfold vertex_res.
  assert (Hv : views e (deps vx) <> None <-> forallb (fun dp => resolved (dep_cfg E dp) (dep_flags e dp)) (deps vx) = true).
  { induction (deps vx) as [|dp l IH]; cbn [views forallb]; [split; [reflexivity | discriminate]|].
    pose proof (dep_view_resolved e E dp Hm) as Hd.
    destruct (dep_view e dp) as [vw|].
    - assert (X : resolved (dep_cfg E dp) (dep_flags e dp) = true) by (apply Hd; discriminate). rewrite X. cbn [andb].
      destruct (views e l); [split; [intros _; apply IH; discriminate | discriminate] | split; [congruence | intro Y; apply IH in Y; congruence]].
    - split; [congruence|]. intro Y. apply andb_prop in Y. destruct Y as [Y _]. apply Hd in Y. congruence. }
  rewrite <- Hv. destruct (views e (deps vx)) as [vs|].
  - split; [discriminate|]. intros _. destruct (ess_failed _ _); [discriminate|]. destruct (f v _); discriminate.
  - split; congruence.
Qed.

Example af_vx_example :
  let cs := [ {| has_cond := true; holds := false |}; {| has_cond := false; holds := false |} ] in
  let s := run xst (xstep cs) (xinit 2) [1;1;0;2;2;2;0;1;1; 4;4;4; 0;0; 0]%nat in
  XReach cs s /\ vinvoked (xv s) = 1%nat /\ vended (xv s) = true.
Proof. cbn zeta. split; [now exists [1;1;0;2;2;2;0;1;1; 4;4;4; 0;0; 0]%nat | vm_compute; split; reflexivity]. Qed.

(* the closure counters fire finish / flush exactly under the guards ENG (EFinish0) and TERM (TFlush) use *)
Theorem af_clo_refines : forall l e, let s := crun cinit l in let s' := crun cinit (l ++ [e]) in
  (cfin s = None -> cfin s' = Some 0 -> cfired s' = true /\ cbound s' = 0) /\        (* EFinish0: every bound target sealed *)
  (cflush s' = S (cflush s) -> cfin s' <> None /\ cfired s' = true /\ clive s' = 0). (* TFlush: finished, no vertex live *)
Proof.
  intros l e s s'. subst s s'. destruct (af_closure_counters (l ++ [e])) as (Hle & Hiff & Hff & Hf0 & _).
  split.
  - intros _ H. now apply Hf0.
  - intro H. assert (H1 : cflush (crun cinit (l ++ [e])) = 1%nat) by lia. split; [now apply Hff | now apply Hiff].
Qed.

(* ======================================================================================== *)
(* F. termination: every step decreases a measure, unflushed states are never stuck, a        *)
(*    flushed state is finished with no vertex running                                        *)
(* ======================================================================================== *)
Lemma filter_len_le : forall A (p p' : A -> bool) l, (forall x, In x l -> p' x = true -> p x = true) ->
  (length (filter p' l) <= length (filter p l))%nat.
Proof.
  induction l as [|x l IH]; intro H; cbn [filter]; [lia|].
  assert (IH' : (length (filter p' l) <= length (filter p l))%nat) by (apply IH; intros y Hy; apply H; now right).
  destruct (p' x) eqn:E'.
  - rewrite (H x (or_introl eq_refl) E'). cbn [length]. lia.
  - destruct (p x); cbn [length]; lia.
Qed.

Lemma filter_len_lt : forall A (p p' : A -> bool) l d, (forall x, In x l -> p' x = true -> p x = true) ->
  In d l -> p d = true -> p' d = false -> (length (filter p' l) < length (filter p l))%nat.
Proof.
  induction l as [|x l IH]; intros d H Hin Hp Hp'; [destruct Hin|]. cbn [filter].
  assert (Hl : forall y, In y l -> p' y = true -> p y = true) by (intros y Hy; apply H; now right).
  pose proof (filter_len_le A p p' l Hl) as Hle.
  destruct Hin as [->|Hin].
  - rewrite Hp, Hp'. cbn [length]. lia.
  - specialize (IH d Hl Hin Hp Hp'). destruct (p' x) eqn:E'.
    + rewrite (H x (or_introl eq_refl) E'). cbn [length]. lia.
    + destruct (p x); cbn [length]; lia.
Qed.

Lemma pad_length : forall n l, length (pad n l) = n.
Proof. induction n as [|n IH]; intro l; cbn [pad]; [reflexivity|]. destruct l; cbn [length]; now rewrite IH. Qed.

Section TermProofs.
Variable f : nat -> list (option Z) -> option (list (option Z)).
Variable g : graph.
Variable pre : list (nat * option Z).
Variable targets : list nat.
Notation estep'' := (estep f g pre targets).
Notation tstep' := (tstep f g pre targets).
Notation trun' := (trun f g pre targets).
Notation measure' := (measure g pre targets).
Notation ids' := (ids g pre targets).

Lemma res_outs_len : forall v vx e outs, res_outs vx (vertex_res f v vx e) = Some outs -> length outs = length (emits vx).
Proof.
  intros v vx e outs H. unfold vertex_res in H. destruct (views e (deps vx)); [|discriminate].
  destruct (ess_failed _ _); [cbn in H; inversion H; apply pad_length|].
  destruct (f v _); [|discriminate]. cbn in H. inversion H. apply pad_length.
Qed.

Definition rshape (s : est_) : Prop :=
  forall v vx r outs, nth_error g v = Some vx -> ran s v = Some r -> res_outs vx r = Some outs -> length outs = length (emits vx).

(* everything the measure counts only ever gets set *)
Lemma estep_mono : forall b e b', estep'' b e = Some b' ->
  (forall x, is_none (dv b' x) = true -> is_none (dv b x) = true) /\
  (forall x, negb (trig b' x) = true -> negb (trig b x) = true) /\
  (forall x, negb (act b' x) = true -> negb (act b x) = true) /\
  (forall x, is_none (ran b' x) = true -> is_none (ran b x) = true) /\
  (fin b <> None -> fin b' <> None) /\
  (rshape b -> rshape b').
Proof.
  intros b e b' Hst.
  assert (Hseal : forall d x t, dv b d = None -> b' = seal b d x t ->
            (forall x0, is_none (dv b' x0) = true -> is_none (dv b x0) = true) /\
            (forall x0, negb (trig b' x0) = true -> negb (trig b x0) = true) /\
            (forall x0, negb (act b' x0) = true -> negb (act b x0) = true) /\
            (forall x0, is_none (ran b' x0) = true -> is_none (ran b x0) = true) /\
            (fin b <> None -> fin b' <> None) /\ (rshape b -> rshape b')).
  { intros d x t Hn ->. unfold seal, rshape; cbn [dv trig act ran fin]. repeat split; auto.
    intros x0 H. destruct (Nat.eq_dec x0 d) as [->|Hne]; [now rewrite Hn | now rewrite eupd_other in H]. }
  assert (Htrig : forall d, b' = set_trig b d ->
            (forall x0, is_none (dv b' x0) = true -> is_none (dv b x0) = true) /\
            (forall x0, negb (trig b' x0) = true -> negb (trig b x0) = true) /\
            (forall x0, negb (act b' x0) = true -> negb (act b x0) = true) /\
            (forall x0, is_none (ran b' x0) = true -> is_none (ran b x0) = true) /\
            (fin b <> None -> fin b' <> None) /\ (rshape b -> rshape b')).
  { intros d ->. unfold set_trig, rshape; cbn [dv trig act ran fin]. repeat split; auto.
    intros x0 H. destruct (Nat.eq_dec x0 d) as [->|Hne]; [rewrite bupd_same in H; discriminate | now rewrite bupd_other in H]. }
  destruct e as [d | d | v | v i | v | v j | |]; cbn [estep] in Hst.
  - destruct (dv b d) eqn:E; [discriminate|]. destruct (preset_env pre d); [|discriminate].
    destruct (producer_of g d); [discriminate|]. injection Hst as Hst. eapply Hseal; [eassumption | symmetry; exact Hst].
  - destruct (nmem d targets); [|discriminate]. injection Hst as Hst. apply (Htrig _ (eq_sym Hst)).
  - destruct (nth_error g v); [|discriminate]. destruct (_ && _); [|discriminate]. inversion Hst; subst b'; clear Hst.
    unfold rshape; cbn [dv trig act ran fin]. repeat split; auto.
    intros x0 H. destruct (Nat.eq_dec x0 v) as [->|Hne]; [rewrite bupd_same in H; discriminate | now rewrite bupd_other in H].
  - destruct (nth_error g v) as [vx|]; [|discriminate]. destruct (act b v); [|discriminate].
    destruct (nth_error (deps vx) i) as [dp|]; [|discriminate]. destruct (cnd dp) as [[c ev]|].
    + destruct (dv b c); [destruct (Bool.eqb _ _); [|discriminate]|]; injection Hst as Hst; apply (Htrig _ (eq_sym Hst)).
    + injection Hst as Hst; apply (Htrig _ (eq_sym Hst)).
  - destruct (nth_error g v) as [vx|] eqn:Ev; [|discriminate]. destruct (ran b v) eqn:Er; [discriminate|].
    destruct (act b v); [|discriminate].
    destruct (vertex_res f v vx (dv b)) eqn:Evr; [discriminate| | | |]; inversion Hst; subst b'; clear Hst;
      unfold rshape; cbn [dv trig act ran fin];
      (split; [auto|]; split; [auto|]; split; [auto|]; split;
       [intros x0 H; destruct (Nat.eq_dec x0 v) as [->|Hne]; [now rewrite Er | now rewrite bupd_other in H]|]; split;
       [destruct (fin b); cbn; congruence|]);
      intros Hsh v0 vx0 r0 outs0 Hv0 Hr0 Ho0;
      (destruct (Nat.eq_dec v0 v) as [->|Hne];
       [ rewrite bupd_same in Hr0; rewrite Ev in Hv0; inversion Hv0; subst vx0;
         destruct (fin b); cbn in Hr0; inversion Hr0; subst r0;
         [ cbn in Ho0; inversion Ho0; apply pad_length
         | rewrite <- Evr in Ho0; eapply res_outs_len; exact Ho0 ]
       | rewrite bupd_other in Hr0 by assumption; eapply Hsh; eauto ]).
  - destruct (nth_error g v) as [vx|]; [|discriminate]. destruct (ran b v) as [r|]; [|discriminate].
    destruct (res_outs vx r); [|discriminate]. destruct (nth_error (emits vx) j) as [d|]; [|discriminate].
    destruct (nth_error _ j); [|discriminate]. destruct (dv b d) eqn:E; [discriminate|]. injection Hst as Hst. eapply Hseal; [eassumption | symmetry; exact Hst].
  - destruct (fin b) eqn:Ef; [discriminate|]. destruct (forallb _ _); [|discriminate]. inversion Hst; subst b'.
    unfold rshape; cbn [dv trig act ran fin]. repeat split; auto; try discriminate.
  - destruct (fin b) eqn:Ef; [discriminate|]. inversion Hst; subst b'.
    unfold rshape; cbn [dv trig act ran fin]. repeat split; auto; try discriminate.
Qed.

Definition fin_w (o : option Z) : nat := if o then 0%nat else 1%nat.

Lemma measure_lt_gen : forall s b',
  flushed s = false ->
  (forall x, is_none (dv b' x) = true -> is_none (dv (base s) x) = true) ->
  (forall x, negb (trig b' x) = true -> negb (trig (base s) x) = true) ->
  (forall x, negb (act b' x) = true -> negb (act (base s) x) = true) ->
  (forall x, is_none (ran b' x) = true -> is_none (ran (base s) x) = true) ->
  (fin (base s) <> None -> fin b' <> None) ->
  ((exists d, In d ids' /\ is_none (dv (base s) d) = true /\ is_none (dv b' d) = false) \/
   (exists d, In d ids' /\ trig (base s) d = false /\ trig b' d = true) \/
   (exists v, In v (seq 0 (length g)) /\ act (base s) v = false /\ act b' v = true) \/
   (exists v, In v (seq 0 (length g)) /\ ran (base s) v = None /\ ran b' v <> None) \/
   (fin (base s) = None /\ fin b' <> None)) ->
  (measure' {| base := b'; flushed := false |} < measure' s)%nat.
Proof.
  intros s b' Hfl M1 M2 M3 M4 M5 W. unfold measure; cbn [base flushed]. rewrite Hfl.
  pose proof (filter_len_le _ (fun d => is_none (dv (base s) d)) (fun d => is_none (dv b' d)) ids' (fun x _ => M1 x)) as L1.
  pose proof (filter_len_le _ (fun d => negb (trig (base s) d)) (fun d => negb (trig b' d)) ids' (fun x _ => M2 x)) as L2.
  pose proof (filter_len_le _ (fun v => negb (act (base s) v)) (fun v => negb (act b' v)) (seq 0 (length g)) (fun x _ => M3 x)) as L3.
  pose proof (filter_len_le _ (fun v => is_none (ran (base s) v)) (fun v => is_none (ran b' v)) (seq 0 (length g)) (fun x _ => M4 x)) as L4.
  assert (L5 : ((if fin b' then 0 else 1) <= (if fin (base s) then 0 else 1))%nat).
  { destruct (fin (base s)) eqn:E; [|destruct (fin b'); lia]. destruct (fin b'); [lia|]. exfalso. apply M5; congruence. }
  destruct W as [(d & Hin & H1 & H2)|[(d & Hin & H1 & H2)|[(v & Hin & H1 & H2)|[(v & Hin & H1 & H2)|(H1 & H2)]]]].
  - pose proof (filter_len_lt _ (fun d => is_none (dv (base s) d)) (fun d => is_none (dv b' d)) ids' d (fun x _ => M1 x) Hin H1 H2). lia.
  - assert (X : (length (filter (fun d => negb (trig b' d)) ids') < length (filter (fun d => negb (trig (base s) d)) ids'))%nat).
    { apply (filter_len_lt _ _ _ ids' d (fun x _ => M2 x) Hin); [now rewrite H1 | now rewrite H2]. } lia.
  - assert (X : (length (filter (fun v => negb (act b' v)) (seq 0 (length g))) < length (filter (fun v => negb (act (base s) v)) (seq 0 (length g))))%nat).
    { apply (filter_len_lt _ _ _ _ v (fun x _ => M3 x) Hin); [now rewrite H1 | now rewrite H2]. } lia.
  - assert (X : (length (filter (fun v => is_none (ran b' v)) (seq 0 (length g))) < length (filter (fun v => is_none (ran (base s) v)) (seq 0 (length g))))%nat).
    { apply (filter_len_lt _ _ _ _ v (fun x _ => M4 x) Hin); [now rewrite H1 | destruct (ran b' v); [reflexivity | congruence]]. } lia.
  - rewrite H1. destruct (fin b'); [lia | congruence].
Qed.

Lemma in_ids_target : forall d, In d targets -> In d ids'.
Proof. intros d H. unfold ids. apply in_or_app. now left. Qed.
Lemma in_ids_preset : forall d x, preset_env pre d = Some x -> In d ids'.
Proof.
  intros d x H. unfold ids. apply in_or_app. right. apply in_or_app. left. unfold preset_env in H.
  destruct (find _ pre) as [p|] eqn:E; [|discriminate]. apply find_some in E. destruct E as [Hin He].
  apply Nat.eqb_eq in He. subst d. now apply in_map.
Qed.
Lemma in_ids_emit : forall v vx d, nth_error g v = Some vx -> In d (emits vx) -> In d ids'.
Proof.
  intros v vx d Hv Hd. unfold ids. apply in_or_app. right. apply in_or_app. right. apply in_flat_map.
  exists vx. split; [eapply nth_error_In; eauto|]. apply in_or_app. now left.
Qed.
Lemma in_ids_dep : forall v vx dp d, nth_error g v = Some vx -> In dp (deps vx) ->
  (d = tgt dp \/ exists ev, cnd dp = Some (d, ev)) -> In d ids'.
Proof.
  intros v vx dp d Hv Hdp Hd. unfold ids. apply in_or_app. right. apply in_or_app. right. apply in_flat_map.
  exists vx. split; [eapply nth_error_In; eauto|]. apply in_or_app. right. apply in_flat_map. exists dp. split; [assumption|].
  destruct Hd as [->|[ev Hc]]; [now left|]. rewrite Hc. right. now left.
Qed.
Lemma in_seq_vertex : forall v vx, nth_error g v = Some vx -> In v (seq 0 (length g)).
Proof. intros v vx H. apply in_seq. assert (v < length g)%nat by (apply nth_error_Some; congruence). lia. Qed.

Theorem tstep_decreases : forall s e s', tstep' s e = Some s' -> (measure' s' < measure' s)%nat.
Proof.
  intros s e s' Hst. unfold tstep in Hst. destruct (flushed s) eqn:Efl; [discriminate|].
  destruct e as [e0|].
  - destruct (match trig_of g (base s) e0 with Some d => trig (base s) d | None => false end) eqn:Eg; [discriminate|].
    destruct (estep'' (base s) e0) as [b'|] eqn:Es; [|discriminate]. inversion Hst; subst s'; clear Hst.
    destruct (estep_mono _ _ _ Es) as (M1 & M2 & M3 & M4 & M5 & _).
    apply measure_lt_gen; try assumption.
    destruct e0 as [d | d | v | v i | v | v j | |]; cbn [estep trig_of] in Es, Eg.
    + left. destruct (dv (base s) d) eqn:E; [discriminate|]. destruct (preset_env pre d) as [x|] eqn:Ep; [|discriminate].
      destruct (producer_of g d); [discriminate|]. inversion Es; subst b'. exists d.
      split; [eapply in_ids_preset; eauto|]. split; [now rewrite E|]. unfold seal; cbn [dv]. now rewrite eupd_same.
    + right; left. destruct (nmem d targets) eqn:Em; [|discriminate]. inversion Es; subst b'. exists d.
      split; [apply in_ids_target; now apply nmem_in|]. split; [assumption|]. unfold set_trig; cbn [trig]. apply bupd_same.
    + right; right; left. destruct (nth_error g v) as [vx|] eqn:Ev; [|discriminate].
      destruct (negb (act (base s) v) && _) eqn:G; [|discriminate]. inversion Es; subst b'. exists v.
      apply andb_prop in G. destruct G as [G _]. apply negb_true_iff in G.
      split; [eapply in_seq_vertex; eauto|]. split; [assumption|]. cbn [act]. apply bupd_same.
    + right; left. destruct (nth_error g v) as [vx|] eqn:Ev; [|discriminate]. destruct (act (base s) v); [|discriminate].
      destruct (nth_error (deps vx) i) as [dp|] eqn:Ei; [|discriminate]. apply nth_error_In in Ei.
      destruct (cnd dp) as [[c ev]|] eqn:Ec.
      * destruct (dv (base s) c) as [x|].
        -- destruct (Bool.eqb _ _); [|discriminate]. inversion Es; subst b'. exists (tgt dp).
           split; [eapply in_ids_dep; eauto|]. split; [assumption|]. unfold set_trig; cbn [trig]. apply bupd_same.
        -- inversion Es; subst b'. exists c. split; [eapply in_ids_dep; eauto|]. split; [assumption|].
           unfold set_trig; cbn [trig]. apply bupd_same.
      * inversion Es; subst b'. exists (tgt dp). split; [eapply in_ids_dep; eauto|]. split; [assumption|].
        unfold set_trig; cbn [trig]. apply bupd_same.
    + right; right; right; left. destruct (nth_error g v) as [vx|] eqn:Ev; [|discriminate].
      destruct (ran (base s) v) eqn:Er; [discriminate|]. destruct (act (base s) v); [|discriminate]. exists v.
      split; [eapply in_seq_vertex; eauto|]. split; [assumption|].
      destruct (vertex_res f v vx (dv (base s))); [discriminate| | | |]; inversion Es; subst b'; cbn [ran]; rewrite bupd_same; discriminate.
    + left. destruct (nth_error g v) as [vx|] eqn:Ev; [|discriminate]. destruct (ran (base s) v) as [r|]; [|discriminate].
      destruct (res_outs vx r) as [outs|]; [|discriminate]. destruct (nth_error (emits vx) j) as [d|] eqn:Ed; [|discriminate].
      destruct (nth_error outs j); [|discriminate]. destruct (dv (base s) d) eqn:E; [discriminate|]. inversion Es; subst b'. exists d.
      split; [eapply in_ids_emit; eauto using nth_error_In|]. split; [now rewrite E|]. unfold seal; cbn [dv]. now rewrite eupd_same.
    + right; right; right; right. destruct (fin (base s)) eqn:Ef; [discriminate|]. destruct (forallb _ _); [|discriminate].
      inversion Es; subst b'. cbn [fin]. split; [reflexivity | discriminate].
    + right; right; right; right. destruct (fin (base s)) eqn:Ef; [discriminate|]. inversion Es; subst b'. cbn [fin].
      split; [reflexivity | discriminate].
  - destruct (fin (base s)); [|discriminate]. destruct (existsb _ _); [discriminate|]. inversion Hst; subst s'.
    unfold measure; cbn [base flushed]. rewrite Efl. lia.
Qed.

Definition tinv (s : tst) : Prop :=
  rshape (base s) /\ (flushed s = true -> fin (base s) <> None /\ existsb (running g (base s)) (seq 0 (length g)) = false).

Lemma tinv_init : tinv tinit.
Proof. unfold tinv, tinit, rshape; cbn. split; [intros; discriminate | discriminate]. Qed.

Lemma tinv_step : forall s e s', tinv s -> tstep' s e = Some s' -> tinv s'.
Proof.
  intros s e s' [Hsh Hfl] Hst. unfold tstep in Hst. destruct (flushed s) eqn:Ef; [discriminate|]. destruct e as [e0|].
  - destruct (match trig_of g (base s) e0 with Some d => trig (base s) d | None => false end); [discriminate|].
    destruct (estep'' (base s) e0) as [b'|] eqn:Es; [|discriminate]. inversion Hst; subst s'.
    destruct (estep_mono _ _ _ Es) as (_ & _ & _ & _ & _ & Hr). split; [now apply Hr | discriminate].
  - destruct (fin (base s)) eqn:E; [|discriminate]. destruct (existsb _ _) eqn:Ex; [discriminate|]. inversion Hst; subst s'.
    split; [assumption|]. intros _. cbn [base]. split; [congruence | assumption].
Qed.

Lemma tinv_run : forall l s, tinv s -> tinv (trun' s l).
Proof.
  induction l as [|e r IH]; intros s Hs; cbn [trun]; [assumption|].
  apply IH. destruct (tstep' s e) as [s'|] eqn:E; [eapply tinv_step; eauto | assumption].
Qed.

Lemma tstep_progress : forall s, tinv s -> flushed s = false -> exists e s', tstep' s e = Some s'.
Proof.
  intros s [Hsh _] Hfl. destruct (fin (base s)) as [code|] eqn:Ef.
  - destruct (existsb (running g (base s)) (seq 0 (length g))) eqn:Ex.
    + apply existsb_exists in Ex. destruct Ex as [v [_ Hr]]. unfold running in Hr.
      destruct (nth_error g v) as [vx|] eqn:Ev; [|discriminate]. destruct (ran (base s) v) as [r|] eqn:Er; [|discriminate].
      destruct (res_outs vx r) as [outs|] eqn:Eo; [|discriminate]. apply existsb_exists in Hr. destruct Hr as [d [Hd Hn]].
      apply In_nth_error in Hd. destruct Hd as [j Hj].
      assert (Hlen : length outs = length (emits vx)) by (eapply Hsh; eauto).
      destruct (nth_error outs j) as [x|] eqn:Ex.
      * exists (TBase (ERel v j)). unfold tstep. rewrite Hfl. cbn [trig_of estep]. rewrite Ev, Er, Eo, Hj, Ex.
        destruct (dv (base s) d); [discriminate|]. eauto.
      * apply nth_error_None in Ex. assert (j < length (emits vx))%nat by (apply nth_error_Some; congruence). lia.
    + exists TFlush. unfold tstep. rewrite Hfl, Ef, Ex. eauto.
  - exists (TBase EFinishErr). unfold tstep. rewrite Hfl. cbn [trig_of estep]. rewrite Ef. eauto.
Qed.

Lemma tsteps_bound : forall l s, (tsteps f g pre targets s l + measure' (trun' s l) <= measure' s)%nat.
Proof.
  induction l as [|e r IH]; intro s; cbn [tsteps trun]; [lia|].
  destruct (tstep' s e) as [s'|] eqn:E.
  - pose proof (tstep_decreases _ _ _ E). specialize (IH s'). lia.
  - apply IH.
Qed.

Theorem af_terminates_finished : forall l, let s := trun' tinit l in
  (forall e s', tstep' s e = Some s' -> (measure' s' < measure' s)%nat) /\
  (flushed s = false -> exists e s', tstep' s e = Some s') /\
  (flushed s = true -> fin (base s) <> None /\ forall v, running g (base s) v = false) /\
  (tsteps f g pre targets tinit l + measure' s <= measure' tinit)%nat.
Proof.
  intros l s. subst s. pose proof (tinv_run l _ tinv_init) as Hi. split; [apply tstep_decreases|]. split; [now apply tstep_progress|].
  split; [|apply tsteps_bound]. intro Hfl. destruct Hi as [_ Hi]. destruct (Hi Hfl) as [Hf Hr]. split; [assumption|].
  intro v. destruct (running g (base (trun' tinit l)) v) eqn:E; [|reflexivity]. exfalso.
  assert (Hv : In v (seq 0 (length g))).
  { unfold running in E. destruct (nth_error g v) as [vx|] eqn:Ev; [eapply in_seq_vertex; eauto | discriminate]. }
  assert (existsb (running g (base (trun' tinit l))) (seq 0 (length g)) = true) by (apply existsb_exists; eauto). congruence.
Qed.

(* the base of a TERM run is an ENG run: every theorem of part D applies to it *)
Lemma trun_base : forall l s, exists l0, base (trun' s l) = erun f g pre targets (base s) l0.
Proof.
  induction l as [|e r IH]; intro s; cbn [trun]; [now exists []|].
  destruct (tstep' s e) as [s'|] eqn:E; [|apply IH].
  destruct (IH s') as [l0 Hl0]. unfold tstep in E. destruct (flushed s); [discriminate|]. destruct e as [e0|].
  - destruct (match trig_of g (base s) e0 with Some d => trig (base s) d | None => false end); [discriminate|].
    destruct (estep'' (base s) e0) as [b'|] eqn:Es; [|discriminate]. inversion E; subst s'. cbn [base] in Hl0.
    exists (e0 :: l0). cbn [erun]. now rewrite Es.
  - destruct (fin (base s)); [|discriminate]. destruct (existsb _ _); [discriminate|]. inversion E; subst s'. now exists l0.
Qed.

Theorem af_reset_idempotent : forall s l, ereset s = einit /\ erun f g pre targets (ereset s) l = erun f g pre targets einit l.
Proof. intros s l. split; reflexivity. Qed.
End TermProofs.

Example af_term_example :
  let s := trun (proc_fn ex_flags) ex_g ex_pre [2%nat] tinit (map TBase ex_sched ++ [TFlush]) in
  flushed s = true /\ fin (base s) = Some 0 /\ tsteps (proc_fn ex_flags) ex_g ex_pre [2%nat] tinit (map TBase ex_sched ++ [TFlush]) = 11%nat.
Proof. vm_compute. repeat split; reflexivity. Qed.

(* ======================================================================================== *)
(* G. Committer<T>: a data is published exactly once, by release()/destruction of its        *)
(*    unique valid committer, never by a move                                                 *)
(* ======================================================================================== *)
Lemma cmk_move_rel : (cm_move_calls_release =? 1) = false. Proof. reflexivity. Qed.
Lemma cmk_move_valid : (cm_move_clears_valid =? 1) = true. Proof. reflexivity. Qed.
Lemma cmk_move_data : (cm_move_clears_data =? 1) = true. Proof. reflexivity. Qed.
Lemma cmk_asg_data : (cm_assign_swaps_data =? 1) = true. Proof. reflexivity. Qed.
Lemma cmk_asg_valid : (cm_assign_swaps_valid =? 1) = true. Proof. reflexivity. Qed.
Lemma cmk_asg_rel : (cm_assign_releases_other =? 1) = true. Proof. reflexivity. Qed.
Lemma cmk_dtor : (cm_dtor_releases =? 1) = true. Proof. reflexivity. Qed.
Lemma cmk_can_pub : (cm_cancel_publishes =? 1) = false. Proof. reflexivity. Qed.
Lemma cmk_can_valid : (cm_cancel_clears_valid =? 1) = true. Proof. reflexivity. Qed.
Lemma cmk_get_guard : forall b, cm_get_guard (b2z b) = b. Proof. intros [|]; reflexivity. Qed.

Lemma c_release_spec : forall c m,
  c_release c m = if cmv c then ({| cmd := cmd c; cmv := false |}, match cmd c with Some d => publish m d | None => m end, is_some (cmd c))
                  else (c, m, false).
Proof. intros [d [|]] m; reflexivity. Qed.

Lemma cupd_same : forall m d x, cupd m d x d = x.
Proof. intros. unfold cupd. now rewrite Nat.eqb_refl. Qed.
Lemma cupd_other : forall m d x k, k <> d -> cupd m d x k = m k.
Proof. intros m d x k H. unfold cupd. destruct (k =? d)%nat eqn:E; [apply Nat.eqb_eq in E; contradiction | reflexivity]. Qed.

Lemma nvalid_app : forall d l c, nvalid d (l ++ [c]) = (nvalid d l + hv c d)%nat.
Proof. induction l as [|x l IH]; intro c; cbn [app nvalid]; [lia | rewrite IH; lia]. Qed.
Lemma nvalid_lset : forall d l i c c', nth_error l i = Some c -> (nvalid d (lset i c' l) + hv c d = nvalid d l + hv c' d)%nat.
Proof.
  induction l as [|x l IH]; intros [|i] c c' H; cbn in H; try discriminate.
  - inversion H; subst. cbn [lset nvalid]. lia.
  - cbn [lset nvalid]. specialize (IH i c c' H). lia.
Qed.
Lemma hv_le_nvalid : forall d l c, In c l -> (hv c d <= nvalid d l)%nat.
Proof. induction l as [|x l IH]; intros c Hin; [destruct Hin|]. destruct Hin as [->|H]; cbn [nvalid]; [lia | specialize (IH c H); lia]. Qed.
Lemma In_lset : forall A (l : list A) i x y, In y (lset i x l) -> y = x \/ In y l.
Proof.
  induction l as [|a l IH]; intros [|i] x y H; cbn in *; try tauto.
  - destruct H as [<-|H]; auto.
  - destruct H as [<-|H]; auto. destruct (IH i x y H); auto.
Qed.
Lemma hv_invalid : forall c d, cmv c = false -> hv c d = 0%nat.
Proof. intros c d H. unfold hv. now rewrite H. Qed.
Lemma hv_valid : forall c d d0, cmv c = true -> cmd c = Some d0 -> hv c d = (if (d0 =? d)%nat then 1 else 0)%nat.
Proof. intros c d d0 H1 H2. unfold hv. now rewrite H1, H2. Qed.

Definition pinv (s : pst) : Prop :=
  (forall d, (nvalid d (cms s) + dpub (cells s d) + dcan (cells s d) = if dacq (cells s d) then 1 else 0)%nat) /\
  (forall d, dlate (cells s d) = false) /\ pmove s = false /\
  (forall d, (1 <= dpub (cells s d))%nat -> dpubval (cells s d) = dval (cells s d)) /\
  (forall c, In c (cms s) -> cmv c = true -> cmd c <> None).

Lemma pinv_init : pinv pinit.
Proof. unfold pinv, pinit; cbn. repeat split; auto; try lia; try (intros c []); try contradiction. Qed.

(* releasing the committer at index i (whatever list surgery l -> l1 happened before, as long as the counts add up) *)
Lemma release_step : forall (l l1 : list cmt) (m : nat -> dcell) i c (k : nat -> nat),
  nth_error l1 i = Some c ->
  (forall d, (nvalid d l1 + dpub (m d) + dcan (m d) = if dacq (m d) then 1 else 0)%nat) ->
  (forall d, dlate (m d) = false) -> (forall d, (1 <= dpub (m d))%nat -> dpubval (m d) = dval (m d)) ->
  (forall x, In x l1 -> cmv x = true -> cmd x <> None) ->
  let '(c', m', _) := c_release c m in
  (forall d, (nvalid d (lset i c' l1) + dpub (m' d) + dcan (m' d) = if dacq (m' d) then 1 else 0)%nat) /\
  (forall d, dlate (m' d) = false) /\ (forall d, (1 <= dpub (m' d))%nat -> dpubval (m' d) = dval (m' d)) /\
  (forall x, In x (lset i c' l1) -> cmv x = true -> cmd x <> None).
Proof.
  intros l l1 m i c k Hi P1 P2 P4 P5. rewrite c_release_spec. destruct (cmv c) eqn:Ev.
  - assert (Hin : In c l1) by (eapply nth_error_In; eauto).
    destruct (cmd c) as [d0|] eqn:Ed; [|exfalso; now apply (P5 c Hin Ev)].
    split; [|split; [|split]].
    + intro d. pose proof (nvalid_lset d l1 i c {| cmd := Some d0; cmv := false |} Hi) as Hn.
      rewrite (hv_invalid {| cmd := Some d0; cmv := false |} d eq_refl) in Hn. rewrite (hv_valid c d d0 Ev Ed) in Hn.
      unfold publish. destruct (Nat.eq_dec d d0) as [->|Hne].
      * rewrite cupd_same. cbn [dpub dcan dacq]. rewrite Nat.eqb_refl in Hn. specialize (P1 d0). lia.
      * rewrite cupd_other by assumption. assert ((d0 =? d)%nat = false) by (apply Nat.eqb_neq; congruence). rewrite H in Hn. specialize (P1 d). lia.
    + intro d. unfold publish. destruct (Nat.eq_dec d d0) as [->|Hne]; [rewrite cupd_same; cbn [dlate]; apply P2 | rewrite cupd_other by assumption; apply P2].
    + intros d Hd. unfold publish in *. destruct (Nat.eq_dec d d0) as [->|Hne].
      * rewrite cupd_same in *. cbn [dpub dpubval dval] in *. destruct (dpub (m d0)) eqn:E; [reflexivity | apply P4; lia].
      * rewrite cupd_other in * by assumption. now apply P4.
    + intros x Hx Hxv. apply In_lset in Hx. destruct Hx as [->|Hx]; [discriminate | now apply P5].
  - rewrite (lset_same _ l1 i c Hi). auto.
Qed.

Lemma pinv_step : forall s o s', pinv s -> pstep s o = Some s' -> pinv s'.
Proof.
  intros s o s' (P1 & P2 & P3 & P4 & P5) Hst.
  destruct o as [d0 | i | j i | i v | i | i | i | i]; cbn [pstep] in Hst.
  - (* PNew *)
    inversion Hst; subst s'; clear Hst. unfold pinv; cbn [cms cells pmove].
    split; [|split; [|split; [assumption|split]]].
    + intro d. rewrite nvalid_app. destruct (Nat.eq_dec d d0) as [->|Hne].
      * rewrite cupd_same. cbn [dpub dcan dacq]. specialize (P1 d0). unfold hv; cbn [cmv cmd]. rewrite Nat.eqb_refl.
        destruct (dacq (cells s d0)); cbn [negb andb]; lia.
      * rewrite cupd_other by assumption. unfold hv; cbn [cmv cmd].
        assert ((d0 =? d)%nat = false) by (apply Nat.eqb_neq; congruence). rewrite H, andb_false_r. specialize (P1 d). lia.
    + intro d. destruct (Nat.eq_dec d d0) as [->|Hne]; [rewrite cupd_same; cbn [dlate]; apply P2 | rewrite cupd_other by assumption; apply P2].
    + intros d Hd. destruct (Nat.eq_dec d d0) as [->|Hne]; [rewrite cupd_same in *; cbn [dpub dpubval dval] in *; now apply P4 | rewrite cupd_other in * by assumption; now apply P4].
    + intros c Hc Hv. apply in_app_or in Hc. destruct Hc as [Hc|[<-|[]]]; [now apply P5 | discriminate].
  - (* PMove: transfer, no publication *)
    destruct (nth_error (cms s) i) as [c|] eqn:Ei; [|discriminate].
    rewrite cmk_move_rel, cmk_move_valid, cmk_move_data in Hst. inversion Hst; subst s'; clear Hst.
    unfold pinv; cbn [cms cells pmove]. split; [|split; [assumption|split; [now rewrite P3|split; [assumption|]]]].
    + intro d. rewrite nvalid_app. pose proof (nvalid_lset d (cms s) i c {| cmd := None; cmv := false |} Ei) as Hn.
      rewrite (hv_invalid {| cmd := None; cmv := false |} d eq_refl) in Hn. specialize (P1 d). lia.
    + intros x Hx Hv. apply in_app_or in Hx. destruct Hx as [Hx|[<-|[]]].
      * apply In_lset in Hx. destruct Hx as [->|Hx]; [discriminate | now apply P5].
      * apply P5; [eapply nth_error_In; eauto | assumption].
  - (* PAssign: swap, then the overwritten content is released *)
    destruct (j =? i)%nat eqn:Eji; [discriminate|]. apply Nat.eqb_neq in Eji.
    destruct (nth_error (cms s) j) as [cj|] eqn:Ej; [|discriminate]. destruct (nth_error (cms s) i) as [ci|] eqn:Ei; [|discriminate].
    rewrite cmk_asg_data, cmk_asg_valid, cmk_asg_rel in Hst.
    set (l1 := lset i {| cmd := cmd cj; cmv := cmv cj |} (lset j {| cmd := cmd ci; cmv := cmv ci |} (cms s))).
    assert (Hi1 : nth_error l1 i = Some {| cmd := cmd cj; cmv := cmv cj |}).
    { unfold l1. apply lset_nth_same. rewrite lset_length. apply nth_error_Some. congruence. }
    assert (Hcnt : forall d, nvalid d l1 = nvalid d (cms s)).
    { intro d. unfold l1.
      assert (Hij : nth_error (lset j {| cmd := cmd ci; cmv := cmv ci |} (cms s)) i = Some ci) by (rewrite lset_nth_other by congruence; exact Ei).
      pose proof (nvalid_lset d _ i ci {| cmd := cmd cj; cmv := cmv cj |} Hij) as H1.
      pose proof (nvalid_lset d (cms s) j cj {| cmd := cmd ci; cmv := cmv ci |} Ej) as H2.
      assert (hv {| cmd := cmd cj; cmv := cmv cj |} d = hv cj d) by reflexivity.
      assert (hv {| cmd := cmd ci; cmv := cmv ci |} d = hv ci d) by reflexivity. lia. }
    assert (H5 : forall x, In x l1 -> cmv x = true -> cmd x <> None).
    { intros x Hx Hv. unfold l1 in Hx. apply In_lset in Hx. destruct Hx as [->|Hx].
      - cbn in *. apply (P5 cj); [eapply nth_error_In; eauto | assumption].
      - apply In_lset in Hx. destruct Hx as [->|Hx]; [cbn in *; apply (P5 ci); [eapply nth_error_In; eauto | assumption] | now apply P5]. }
    pose proof (release_step (cms s) l1 (cells s) i _ (fun x => x) Hi1 (fun d => eq_trans (f_equal (fun z => (z + _ + _)%nat) (Hcnt d)) (P1 d)) P2 P4 H5) as Hr.
    assert (Hl : lset i {| cmd := cmd cj; cmv := cmv cj |} (lset j {| cmd := cmd ci; cmv := cmv ci |} (cms s)) = l1) by reflexivity.
    destruct (c_release {| cmd := cmd cj; cmv := cmv cj |} (cells s)) as [[c' m'] pub] eqn:Er.
    inversion Hst; subst s'; clear Hst. destruct Hr as (R1 & R2 & R4 & R5).
    assert (Hll : lset i c' (lset j {| cmd := cmd ci; cmv := cmv ci |} (cms s)) = lset i c' l1).
    { unfold l1. clear. generalize (lset j {| cmd := cmd ci; cmv := cmv ci |} (cms s)). intro l. revert i.
      induction l as [|a l IH]; intros [|i]; cbn; try reflexivity. f_equal. apply IH. }
    unfold pinv; cbn [cms cells pmove]. rewrite Hll. repeat split; assumption.
  - (* PWrite *)
    destruct (nth_error (cms s) i) as [c|] eqn:Ei; [|discriminate]. inversion Hst; subst s'; clear Hst.
    rewrite cmk_get_guard. unfold pinv; cbn [cms cells pmove].
    destruct (cmv c) eqn:Ev; [|repeat split; assumption].
    assert (Hin : In c (cms s)) by (eapply nth_error_In; eauto).
    destruct (cmd c) as [d0|] eqn:Ed; [|repeat split; assumption].
    assert (Hp0 : dpub (cells s d0) = 0%nat).
    { pose proof (hv_le_nvalid d0 _ _ Hin) as Hle. rewrite (hv_valid c d0 d0 Ev Ed), Nat.eqb_refl in Hle. specialize (P1 d0).
      destruct (dacq (cells s d0)); lia. }
    unfold set_content. split; [|split; [|split; [assumption|split; [|assumption]]]].
    + intro d. destruct (Nat.eq_dec d d0) as [->|Hne]; [rewrite cupd_same; cbn [dpub dcan dacq]; apply P1 | rewrite cupd_other by assumption; apply P1].
    + intro d. destruct (Nat.eq_dec d d0) as [->|Hne]; [rewrite cupd_same; cbn [dlate]; rewrite Hp0, P2; reflexivity | rewrite cupd_other by assumption; apply P2].
    + intros d Hd. destruct (Nat.eq_dec d d0) as [->|Hne]; [rewrite cupd_same in Hd; cbn [dpub] in Hd; lia | rewrite cupd_other in * by assumption; now apply P4].
  - (* PClear *)
    destruct (nth_error (cms s) i) as [c|] eqn:Ei; [|discriminate]. inversion Hst; subst s'; clear Hst.
    unfold pinv; cbn [cms cells pmove].
    destruct (cmv c) eqn:Ev; [|repeat split; assumption].
    assert (Hin : In c (cms s)) by (eapply nth_error_In; eauto).
    destruct (cmd c) as [d0|] eqn:Ed; [|repeat split; assumption].
    assert (Hp0 : dpub (cells s d0) = 0%nat).
    { pose proof (hv_le_nvalid d0 _ _ Hin) as Hle. rewrite (hv_valid c d0 d0 Ev Ed), Nat.eqb_refl in Hle. specialize (P1 d0).
      destruct (dacq (cells s d0)); lia. }
    unfold set_content. split; [|split; [|split; [assumption|split; [|assumption]]]].
    + intro d. destruct (Nat.eq_dec d d0) as [->|Hne]; [rewrite cupd_same; cbn [dpub dcan dacq]; apply P1 | rewrite cupd_other by assumption; apply P1].
    + intro d. destruct (Nat.eq_dec d d0) as [->|Hne]; [rewrite cupd_same; cbn [dlate]; rewrite Hp0, P2; reflexivity | rewrite cupd_other by assumption; apply P2].
    + intros d Hd. destruct (Nat.eq_dec d d0) as [->|Hne]; [rewrite cupd_same in Hd; cbn [dpub] in Hd; lia | rewrite cupd_other in * by assumption; now apply P4].
  - (* PRelease *)
    destruct (nth_error (cms s) i) as [c|] eqn:Ei; [|discriminate].
    pose proof (release_step (cms s) (cms s) (cells s) i c (fun x => x) Ei P1 P2 P4 P5) as Hr.
    destruct (c_release c (cells s)) as [[c' m'] pub]. inversion Hst; subst s'; clear Hst. destruct Hr as (R1 & R2 & R4 & R5).
    unfold pinv; cbn [cms cells pmove]. repeat split; assumption.
  - (* PDtor *)
    destruct (nth_error (cms s) i) as [c|] eqn:Ei; [|discriminate]. rewrite cmk_dtor in Hst.
    pose proof (release_step (cms s) (cms s) (cells s) i c (fun x => x) Ei P1 P2 P4 P5) as Hr.
    destruct (c_release c (cells s)) as [[c' m'] pub]. inversion Hst; subst s'; clear Hst. destruct Hr as (R1 & R2 & R4 & R5).
    unfold pinv; cbn [cms cells pmove]. repeat split; assumption.
  - (* PCancel *)
    destruct (nth_error (cms s) i) as [c|] eqn:Ei; [|discriminate].
    destruct (cmv c) eqn:Ev; [|inversion Hst; subst s'; unfold pinv; repeat split; assumption].
    destruct (cmd c) as [d0|] eqn:Ed; [|inversion Hst; subst s'; unfold pinv; repeat split; assumption].
    rewrite cmk_can_pub, cmk_can_valid in Hst. inversion Hst; subst s'; clear Hst.
    unfold pinv; cbn [cms cells pmove]. split; [|split; [|split; [assumption|split]]].
    + intro d. pose proof (nvalid_lset d (cms s) i c {| cmd := None; cmv := false |} Ei) as Hn.
      rewrite (hv_invalid {| cmd := None; cmv := false |} d eq_refl) in Hn. rewrite (hv_valid c d d0 Ev Ed) in Hn.
      destruct (Nat.eq_dec d d0) as [->|Hne].
      * rewrite cupd_same. cbn [dpub dcan dacq]. rewrite Nat.eqb_refl in Hn. specialize (P1 d0). lia.
      * rewrite cupd_other by assumption. assert ((d0 =? d)%nat = false) by (apply Nat.eqb_neq; congruence). rewrite H in Hn. specialize (P1 d). lia.
    + intro d. destruct (Nat.eq_dec d d0) as [->|Hne]; [rewrite cupd_same; cbn [dlate]; apply P2 | rewrite cupd_other by assumption; apply P2].
    + intros d Hd. destruct (Nat.eq_dec d d0) as [->|Hne]; [rewrite cupd_same in *; cbn [dpub dpubval dval] in *; now apply P4 | rewrite cupd_other in * by assumption; now apply P4].
    + intros x Hx Hv. apply In_lset in Hx. destruct Hx as [->|Hx]; [discriminate | now apply P5].
Qed.

Lemma pinv_run : forall l s, pinv s -> pinv (prun s l).
Proof.
  induction l as [|o r IH]; intros s Hs; cbn [prun]; [assumption|].
  apply IH. destruct (pstep s o) as [s'|] eqn:E; [eapply pinv_step; eauto | assumption].
Qed.

Theorem af_publish_once : forall l d, let s := prun pinit l in
  (dpub (cells s d) <= 1)%nat /\                                   (* published at most once *)
  pmove s = false /\                                               (* never by a move construction *)
  dlate (cells s d) = false /\                                     (* content never changes after publication *)
  ((1 <= dpub (cells s d))%nat -> dpubval (cells s d) = dval (cells s d)) /\
  (nvalid d (cms s) <= 1)%nat /\                                   (* at most one valid committer per data *)
  (dacq (cells s d) = true -> nvalid d (cms s) = 0%nat -> dcan (cells s d) = 0%nat -> dpub (cells s d) = 1%nat).
                                                                   (* exactly once when its committers are gone *)
Proof.
  intros l d s. subst s. destruct (pinv_run l _ pinv_init) as (P1 & P2 & P3 & P4 & _). specialize (P1 d).
  repeat split; auto; try (destruct (dacq _); lia).
Qed.

(* a move construction by itself publishes nothing and leaves the source unable to publish *)
Theorem af_move_transfers : forall s i c s', nth_error (cms s) i = Some c -> pstep s (PMove i) = Some s' ->
  cells s' = cells s /\ nth_error (cms s') i = Some {| cmd := None; cmv := false |} /\ nth_error (cms s') (length (cms s)) = Some c.
Proof.
  intros s i c s' Hi Hst. cbn [pstep] in Hst. rewrite Hi, cmk_move_rel, cmk_move_valid, cmk_move_data in Hst. inversion Hst; subst s'; clear Hst.
  cbn [cells cms]. assert (Hl : (i < length (cms s))%nat) by (apply nth_error_Some; congruence).
  split; [reflexivity|]. split.
  - rewrite nth_error_app1 by (now rewrite lset_length). now apply lset_nth_same.
  - rewrite nth_error_app2 by (rewrite lset_length; lia). rewrite lset_length, Nat.sub_diag. reflexivity.
Qed.

Example af_publish_example :
  let s := prun pinit [PNew 0; PMove 0; PWrite 1 5; PNew 1; PAssign 2 1; PWrite 2 7; PDtor 0; PDtor 1; PDtor 2]%nat in
  dpub (cells s 0%nat) = 1%nat /\ dpubval (cells s 0%nat) = Some 7 /\ dpub (cells s 1%nat) = 1%nat /\ dpubval (cells s 1%nat) = None.
Proof. vm_compute. repeat split; reflexivity. Qed.

(* ======================================================================================== *)
(* H. Graph::run binding its targets: the closure finishes with success only when run() is   *)
(*    through and every requested target is sealed (needs count-before-attach)                *)
(* ======================================================================================== *)
Definition BReach (n : nat) (s : bst) : Prop := reachable bst bstep (binit n) s.

Lemma bk_order : (bind_counts_before_attach =? 1) = true. Proof. reflexivity. Qed.
Lemma bk_undo : (bind_undoes_on_failure =? 1) = true. Proof. reflexivity. Qed.

Lemma bcontrib_nonneg : forall t, 0 <= bcontrib t.
Proof. intros [a [| | |] [| |]]; destruct a; cbn; lia. Qed.
Lemma bsum_nonneg : forall l, 0 <= bsum l.
Proof. induction l as [|t l IH]; cbn [bsum]; [lia | pose proof (bcontrib_nonneg t); lia]. Qed.
Lemma bsum_zero : forall l, bsum l = 0 -> forall t, In t l -> bcontrib t = 0.
Proof.
  induction l as [|x l IH]; intros H t Hin; [destruct Hin|]. cbn [bsum] in H. pose proof (bcontrib_nonneg x). pose proof (bsum_nonneg l).
  destruct Hin as [->|Hin]; [lia | apply IH; [lia | assumption]].
Qed.
Lemma bsum_lset : forall l i t t', nth_error l i = Some t -> bsum (lset i t' l) + bcontrib t = bsum l + bcontrib t'.
Proof.
  induction l as [|x l IH]; intros [|i] t t' H; cbn in H; try discriminate.
  - inversion H; subst. cbn [lset bsum]. lia.
  - cbn [lset bsum]. specialize (IH i t t' H). lia.
Qed.
Lemma lset_nth_cases : forall A (l : list A) i x k y, nth_error l i <> None -> nth_error (lset i x l) k = Some y ->
  (k = i /\ y = x) \/ (k <> i /\ nth_error l k = Some y).
Proof.
  intros A l i x k y Hi H. destruct (Nat.eq_dec k i) as [->|Hne].
  - rewrite lset_nth_same in H by (now apply nth_error_Some). inversion H. auto.
  - rewrite lset_nth_other in H by assumption. auto.
Qed.

Definition tgt_ok (cur k : nat) (t : btgt) : Prop :=
  ((k < cur)%nat -> bp t = BDone) /\ ((cur < k)%nat -> bp t = BIdle) /\ (bp t <> BDone -> batt t = false) /\
  (bp t = BUndo -> bsealed t = true) /\ (bp t = BDone -> batt t = false -> bsealed t = true) /\ (rp t = RSub -> batt t = true).

Definition binv (s : bst) : Prop :=
  bdata s = (if bfired s then 0 else 1) + bsum (btargets s) /\
  (forall k t, nth_error (btargets s) k = Some t -> tgt_ok (bcur s) k t) /\
  (bfired s = true -> (length (btargets s) <= bcur s)%nat) /\
  bearly s = false /\
  (forall c, bfin s = Some c -> c = 0 /\ bfired s = true /\ all_sealed (btargets s) = true).

Lemma binv_init : forall n, binv (binit n).
Proof.
  intro n. unfold binv, binit; cbn [bdata bfired btargets bcur bearly bfin].
  split; [|split; [|split; [discriminate|split; [reflexivity | discriminate]]]].
  - assert (bsum (repeat {| batt := false; bp := BIdle; rp := RIdle |} n) = 0) by (induction n; cbn; auto). rewrite H. reflexivity.
  - intros k t Hk. apply nth_error_In in Hk. apply repeat_spec in Hk. subst t. unfold tgt_ok; cbn. repeat split; auto; try discriminate; try lia.
Qed.

(* when the count reaches 0 under the invariant's equation, run() has fired and every target is sealed *)
Lemma zero_means_done : forall l cur (fired : bool),
  (if fired then 0 else 1) + bsum l = 0 -> (forall k t, nth_error l k = Some t -> tgt_ok cur k t) ->
  (fired = true -> (length l <= cur)%nat) -> fired = true /\ all_sealed l = true.
Proof.
  intros l cur fired Hz Hok Hf. pose proof (bsum_nonneg l). destruct fired; [|lia]. split; [reflexivity|].
  apply forallb_forall. intros t Hin. pose proof (bsum_zero l ltac:(lia) t Hin) as Hc.
  apply In_nth_error in Hin. destruct Hin as [k Hk]. destruct (Hok k t Hk) as (Ha & _ & _ & _ & He & _).
  assert (Hkl : (k < length l)%nat) by (apply nth_error_Some; congruence). specialize (Hf eq_refl).
  assert (Hd : bp t = BDone) by (apply Ha; lia). unfold bcontrib in Hc. rewrite Hd in Hc.
  destruct (batt t) eqn:Eb; [|now apply He]. unfold bsealed. destruct (rp t); [lia | reflexivity | reflexivity].
Qed.

(* the three places that call depend_data_sub *)
Lemma binv_sub : forall s l cur (fired : bool),
  bearly s = false -> (forall c, bfin s = Some c -> c = 0 /\ bfired s = true /\ all_sealed (btargets s) = true) ->
  bdata s - 1 = (if fired then 0 else 1) + bsum l ->
  (forall k t, nth_error l k = Some t -> tgt_ok cur k t) -> (fired = true -> (length l <= cur)%nat) ->
  (bfired s = true -> fired = true) -> (all_sealed (btargets s) = true -> all_sealed l = true) ->
  binv (b_sub s l cur fired).
Proof.
  intros s l cur fired He Hfin Hd Hok Hf Hmono Hsm. unfold binv, b_sub; cbn [bdata bfired btargets bcur bearly bfin].
  split; [exact Hd|]. split; [exact Hok|]. split; [exact Hf|].
  destruct (closure_finish_fires (bdata s - 1)) eqn:Ef.
  - apply closure_finish_fires_spec in Ef. rewrite Ef in Hd. destruct (zero_means_done l cur fired (eq_sym Hd) Hok Hf) as [H1 H2].
    split.
    + rewrite He, H1, H2. cbn. destruct (bfin s); reflexivity.
    + intros c Hc. destruct (bfin s) as [c0|] eqn:E0; cbn in Hc.
      * inversion Hc; subst c0. destruct (Hfin c eq_refl) as (X & _ & _). auto.
      * inversion Hc. auto.
  - split; [rewrite He; reflexivity|]. intros c Hc. destruct (Hfin c Hc) as (X & Y & Z). auto.
Qed.

Lemma all_sealed_lset : forall l i t t', nth_error l i = Some t -> (bsealed t = true -> bsealed t' = true) ->
  all_sealed l = true -> all_sealed (lset i t' l) = true.
Proof.
  induction l as [|x l IH]; intros [|i] t t' H Hs Ha; cbn in H; try discriminate; cbn [all_sealed forallb lset] in *;
    apply andb_prop in Ha; destruct Ha as [A1 A2].
  - inversion H; subst. rewrite (Hs A1), A2. reflexivity.
  - rewrite A1. cbn. eapply IH; eauto.
Qed.

Lemma binv_step : forall s t s', binv s -> bstep s t = Some s' -> binv s'.
Proof.
  intros s t s' (B1 & B2 & B3 & B4 & B5) Hst.
  destruct t as [|k]; cbn [bstep] in Hst.
  - destruct (nth_error (btargets s) (bcur s)) as [tg|] eqn:Ec.
    + assert (Hnn : nth_error (btargets s) (bcur s) <> None) by congruence.
      destruct (B2 _ _ Ec) as (Ta & Tb & Tc & Td & Te & Tf).
      assert (Hnf : bfired s = false).
      { destruct (bfired s) eqn:E; [|reflexivity]. specialize (B3 eq_refl). apply nth_error_Some in Hnn. lia. }
      (* a generic way to re-establish the per-target part after replacing the current target *)
      assert (Hupd : forall x cur', (cur' = bcur s \/ cur' = S (bcur s)) -> tgt_ok cur' (bcur s) x ->
                forall k t0, nth_error (lset (bcur s) x (btargets s)) k = Some t0 -> tgt_ok cur' k t0).
      { intros x cur' Hc' Hx k t0 Hk. destruct (lset_nth_cases _ _ _ _ _ _ Hnn Hk) as [[-> ->]|[Hne Hk0]]; [exact Hx|].
        destruct (B2 _ _ Hk0) as (A & B & C & D & E & F). unfold tgt_ok. repeat split; auto; intro; [apply A | apply B]; lia. }
      destruct (bp tg) eqn:Ep; rewrite ?bk_order, ?bk_undo in Hst.
      * (* count *)
        inversion Hst; subst s'; clear Hst. unfold binv, b_set; cbn [bdata bfired btargets bcur bearly bfin].
        pose proof (bsum_lset _ _ _ {| batt := batt tg; bp := BMid; rp := rp tg |} Ec) as Hs.
        unfold bcontrib at 1 2 in Hs. cbn [bp] in Hs. rewrite Ep in Hs.
        split; [lia|]. split; [|split; [rewrite lset_length; exact B3|split; [exact B4|]]].
        -- apply Hupd; [now left|]. unfold tgt_ok; cbn [bp batt rp]. repeat split; try discriminate; try lia; auto.
           intros _. apply Tc. congruence.
        -- intros c Hc. destruct (B5 c Hc) as (X & Y & Z). congruence.
      * (* CAS *)
        assert (Hatt : batt tg = false) by (apply Tc; congruence).
        destruct (bsealed tg) eqn:Es; inversion Hst; subst s'; clear Hst; unfold binv, b_set; cbn [bdata bfired btargets bcur bearly bfin].
        -- pose proof (bsum_lset _ _ _ {| batt := false; bp := BUndo; rp := rp tg |} Ec) as Hs.
           unfold bcontrib at 1 2 in Hs. cbn [bp] in Hs. rewrite Ep in Hs.
           split; [lia|]. split; [|split; [rewrite lset_length; exact B3|split; [exact B4|]]].
           ++ apply Hupd; [now left|]. unfold tgt_ok; cbn [bp batt rp]. repeat split; try discriminate; try lia; auto.
              intro X. destruct (rp tg); [discriminate | | discriminate]. specialize (Tf eq_refl). congruence.
           ++ intros c Hc. destruct (B5 c Hc) as (X & Y & Z). congruence.
        -- pose proof (bsum_lset _ _ _ {| batt := true; bp := BDone; rp := rp tg |} Ec) as Hs.
           unfold bcontrib at 1 2 in Hs. cbn [bp batt rp] in Hs. rewrite Ep in Hs.
           assert (Hri : rp tg = RIdle) by (unfold bsealed in Es; destruct (rp tg); [reflexivity | discriminate | discriminate]).
           rewrite Hri in Hs |- *.
           split; [lia|]. split; [|split; [intro X; congruence|split; [exact B4|]]].
           ++ apply Hupd; [now right|]. unfold tgt_ok; cbn [bp batt rp]. repeat split; try discriminate; try lia; auto. congruence.
           ++ intros c Hc. destruct (B5 c Hc) as (X & Y & Z). congruence.
      * (* undo: depend_data_sub *)
        inversion Hst; subst s'; clear Hst.
        assert (Hatt : batt tg = false) by (apply Tc; congruence).
        pose proof (bsum_lset _ _ _ {| batt := false; bp := BDone; rp := rp tg |} Ec) as Hs.
        unfold bcontrib at 1 2 in Hs. cbn [bp batt rp] in Hs. rewrite Ep in Hs.
        apply binv_sub; try assumption.
        -- rewrite Hnf. rewrite Hnf in B1. lia.
        -- apply Hupd; [now right|]. unfold tgt_ok; cbn [bp batt rp]. repeat split; try discriminate; try lia; auto;
             try (intros _ _; exact (Td eq_refl)); try (intro X; specialize (Tf X); congruence).
        -- intro X. congruence.
        -- intro X. congruence.
        -- intro X. eapply all_sealed_lset; eauto.
      * discriminate.
    + (* fire *)
      destruct (bfired s) eqn:Ef; [discriminate|]. inversion Hst; subst s'; clear Hst.
      apply binv_sub; try assumption; auto.
      * intros c Hc. destruct (B5 c Hc) as (_ & X & _). discriminate.
      * rewrite B1. lia.
      * intros _. apply nth_error_None in Ec. exact Ec.
  - destruct (nth_error (btargets s) k) as [tg|] eqn:Ek; [|discriminate].
    assert (Hnn : nth_error (btargets s) k <> None) by congruence.
    destruct (B2 _ _ Ek) as (Ta & Tb & Tc & Td & Te & Tf).
    assert (Hupd : forall x, tgt_ok (bcur s) k x ->
              forall k0 t0, nth_error (lset k x (btargets s)) k0 = Some t0 -> tgt_ok (bcur s) k0 t0).
    { intros x Hx k0 t0 Hk0. destruct (lset_nth_cases _ _ _ _ _ _ Hnn Hk0) as [[-> ->]|[Hne Hk1]]; [exact Hx | now apply B2]. }
    destruct (rp tg) eqn:Er.
    + (* seal *)
      inversion Hst; subst s'; clear Hst. unfold binv, b_set; cbn [bdata bfired btargets bcur bearly bfin].
      pose proof (bsum_lset _ _ _ {| batt := batt tg; bp := bp tg; rp := if batt tg then RSub else RDone |} Ek) as Hs.
      assert (Hcc : bcontrib {| batt := batt tg; bp := bp tg; rp := if batt tg then RSub else RDone |} = bcontrib tg).
      { unfold bcontrib; cbn [bp batt rp]. rewrite Er. destruct (bp tg); try reflexivity. destruct (batt tg); reflexivity. }
      split; [lia|]. split; [|split; [rewrite lset_length; exact B3|split; [exact B4|]]].
      * apply Hupd. unfold tgt_ok; cbn [bp batt rp]. repeat split; auto.
        -- intros _. unfold bsealed; cbn [rp]. destruct (batt tg); reflexivity.
        -- intros _ _. unfold bsealed; cbn [rp]. destruct (batt tg); reflexivity.
        -- destruct (batt tg); [reflexivity | discriminate].
      * intros c Hc. destruct (B5 c Hc) as (X & Y & Z). repeat split; auto.
        eapply all_sealed_lset; eauto. intros _. unfold bsealed; cbn [rp]. destruct (batt tg); reflexivity.
    + (* depend_data_sub of the releaser *)
      inversion Hst; subst s'; clear Hst.
      assert (Hatt : batt tg = true) by (now apply Tf).
      assert (Hd : bp tg = BDone) by (destruct (bp tg) eqn:E; try reflexivity; assert (batt tg = false) by (apply Tc; congruence); congruence).
      pose proof (bsum_lset _ _ _ {| batt := batt tg; bp := bp tg; rp := RDone |} Ek) as Hs.
      unfold bcontrib at 1 2 in Hs. cbn [bp batt rp] in Hs. rewrite Hd, Hatt, Er in Hs.
      apply binv_sub; try assumption.
      * rewrite Hd, Hatt. rewrite B1. lia.
      * apply Hupd. unfold tgt_ok; cbn [bp batt rp]. repeat split; auto; discriminate.
      * rewrite lset_length. exact B3.
      * auto.
      * intro X. eapply all_sealed_lset; eauto.
    + discriminate.
Qed.

Theorem af_bind_finish : forall n s, BReach n s ->
  bearly s = false /\ (forall c, bfin s = Some c -> c = 0 /\ bfired s = true /\ all_sealed (btargets s) = true).
Proof.
  intros n s Hr.
  assert (H : binv s) by (apply (inv_reachable bst bstep binv (binit n) (binv_init n) binv_step s Hr)).
  destruct H as (_ & _ & _ & B4 & B5). auto.
Qed.

Example af_bind_example :
  let s := run bst bstep (binit 2) [0;0;1;1;0;0;2;2;0]%nat in bfin s = Some 0 /\ bfired s = true /\ all_sealed (btargets s) = true.
Proof. vm_compute. repeat split; reflexivity. Qed.

(* reset of a dependency that was never activated but whose condition was published (so _established is set): fresh again *)
Example af_dep_reset_example :
  let c := {| has_cond := true; holds := true |} in
  let s := run dst (dstep c) dinit [1;1;1]%nat in
  est s = true /\ pa s = A0 /\ wn s = -1 /\ dreset s = dinit.
Proof. vm_compute. repeat split; reflexivity. Qed.
