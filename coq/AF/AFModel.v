(* Executable model of babylon::anyflow (src/babylon/anyflow/{dependency,vertex,data,closure,graph}.{cpp,hpp}).
   No proofs here.  Four machines, from the atomic-operation level up to a whole run:

   A. DEP  - one GraphDependency: interleaving machine, one step = one atomic operation of
             GraphDependency::activate / GraphDependency::ready / GraphData::release plus the local
             computation up to the next one.  Threads: 0 = activator, 1 = releaser of the condition
             data, 2 = releaser of the target data (a producer vertex or an external injector).
             The increments, the switch labels and the terminal tests come from Gen_anyflow.
   B. VTX  - the count-down of one GraphVertex with n dependencies (GraphVertex::activate/ready).
   C. CLO  - the two counters of one ClosureContext (depend_data_*/depend_vertex_*/fire).
   D. ENG  - a whole run on an arbitrary acyclic graph at event level: data get sealed, vertices get
             activated on demand and invoked once their dependencies are resolved (the guarantees
             A and B establish), processors are a pure function f (Section variable), the closure
             finishes.  `sref` is the sequential evaluation of the same graph. *)
From Coq Require Import ZArith List Bool Arith.
Require Import Verif.Gen.Gen_anyflow.
Import ListNotations.
Local Open Scope Z_scope.

(* ===================================================================================== *)
(* A. one dependency at atomic-operation granularity                                     *)
(* ===================================================================================== *)
Record dcfg := { has_cond : bool;      (* _condition != nullptr *)
                 holds : bool }.       (* the condition's value equals _establish_value *)

Inductive apc := A0 | ATgtLoad | ACondLoad | ACondTrig | ATgtTrig | ADone.
Inductive cpc := C0 | C1 | C1b (w : Z) | C2 | CTgtTrig (w : Z) | CFinLoad | CDone.       (* w: the local waiting_num *)
Inductive tpc := T0 | T1 | T1b (w : Z) | TDone.

Record dst := {
  wn : Z;                    (* GraphDependency::_waiting_num *)
  cready : bool; tready : bool;   (* condition / target data sealed *)
  est : bool; drdy : bool;   (* _established, _ready *)
  notified : nat;            (* ghost: how often the vertex was told "this dependency is done" *)
  ctrig : nat; ttrig : nat;  (* ghost: condition / target pushed for activation through this dependency *)
  bad : bool;                (* ghost: a notification before the dependency was really ready / with a wrong _ready,
                                or a read of the condition's value before the condition was sealed *)
  pa : apc; pcn : cpc; pt : tpc }.

Definition dinit : dst :=
  {| wn := 0; cready := false; tready := false; est := false; drdy := false; notified := 0; ctrig := 0; ttrig := 0;
     bad := false; pa := A0; pcn := C0; pt := T0 |}.

Definition cond_ptr (c : dcfg) : Z := if has_cond c then 1 else 0.
Definition est_true (c : dcfg) : bool := negb (has_cond c) || holds c.

Definition with_wn (s : dst) (w : Z) : dst :=
  {| wn := w; cready := cready s; tready := tready s; est := est s; drdy := drdy s; notified := notified s;
     ctrig := ctrig s; ttrig := ttrig s; bad := bad s; pa := pa s; pcn := pcn s; pt := pt s |}.
Definition with_pa (s : dst) (p : apc) : dst :=
  {| wn := wn s; cready := cready s; tready := tready s; est := est s; drdy := drdy s; notified := notified s;
     ctrig := ctrig s; ttrig := ttrig s; bad := bad s; pa := p; pcn := pcn s; pt := pt s |}.
Definition with_pc (s : dst) (p : cpc) : dst :=
  {| wn := wn s; cready := cready s; tready := tready s; est := est s; drdy := drdy s; notified := notified s;
     ctrig := ctrig s; ttrig := ttrig s; bad := bad s; pa := pa s; pcn := p; pt := pt s |}.
Definition with_pt (s : dst) (p : tpc) : dst :=
  {| wn := wn s; cready := cready s; tready := tready s; est := est s; drdy := drdy s; notified := notified s;
     ctrig := ctrig s; ttrig := ttrig s; bad := bad s; pa := pa s; pcn := pcn s; pt := p |}.

(* check_established(): reads the condition's value (sound only once the condition is sealed); _established is sticky *)
Definition check_est (c : dcfg) (s : dst) : dst :=
  {| wn := wn s; cready := cready s; tready := tready s;
     est := if has_cond c then est s || holds c else true; drdy := drdy s; notified := notified s;
     ctrig := ctrig s; ttrig := ttrig s; bad := bad s || (has_cond c && negb (cready s)); pa := pa s; pcn := pcn s; pt := pt s |}.

(* "all dependencies ready" as the property states it: condition evaluated, and target ready if it holds *)
Definition really_ready (c : dcfg) (s : dst) : bool :=
  (negb (has_cond c) || cready s) && (negb (est_true c) || tready s).

(* _ready := rdy ; the vertex is told (return 1 from activate, or _source->ready(this)) *)
Definition notify (c : dcfg) (s : dst) (rdy : bool) : dst :=
  {| wn := wn s; cready := cready s; tready := tready s; est := est s; drdy := rdy; notified := S (notified s);
     ctrig := ctrig s; ttrig := ttrig s;
     bad := bad s || negb (really_ready c s) || negb (Bool.eqb rdy (est_true c && tready s));
     pa := pa s; pcn := pcn s; pt := pt s |}.
(* the vertex is told without _ready being written (activate: case -1) *)
Definition notify_keep (c : dcfg) (s : dst) : dst := notify c s (drdy s).

Definition trig_c (s : dst) : dst :=      (* _condition->trigger: pushed unless already sealed *)
  {| wn := wn s; cready := cready s; tready := tready s; est := est s; drdy := drdy s; notified := notified s;
     ctrig := if cready s then ctrig s else S (ctrig s); ttrig := ttrig s; bad := bad s; pa := pa s; pcn := pcn s; pt := pt s |}.
Definition trig_t (s : dst) : dst :=
  {| wn := wn s; cready := cready s; tready := tready s; est := est s; drdy := drdy s; notified := notified s;
     ctrig := ctrig s; ttrig := if tready s then ttrig s else S (ttrig s); bad := bad s; pa := pa s; pcn := pcn s; pt := pt s |}.
Definition seal_c (s : dst) : dst :=
  {| wn := wn s; cready := true; tready := tready s; est := est s; drdy := drdy s; notified := notified s;
     ctrig := ctrig s; ttrig := ttrig s; bad := bad s; pa := pa s; pcn := C1; pt := pt s |}.
Definition seal_t (s : dst) : dst :=
  {| wn := wn s; cready := cready s; tready := true; est := est s; drdy := drdy s; notified := notified s;
     ctrig := ctrig s; ttrig := ttrig s; bad := bad s; pa := pa s; pcn := pcn s; pt := T1 |}.

(* the return statements of GraphDependency::activate in source order: case -1 returns 1; case 0: acquire failure -1,
   then 1; case 1: the two acquire failures -1 (no early "ready" return before _target->trigger); the function ends
   with 0.  The model below is a model of THIS shape only: any other sequence (an inserted / removed / changed return)
   sends the activator to a flagged sink, which re-opens the protocol theorem. *)
Definition act_shape_ok : bool :=
  (act_ret0 =? 1) && (act_ret1 =? -1) && (act_ret2 =? 1) && (act_ret3 =? -1) && (act_ret4 =? -1) && (act_ret5 =? 0).
Definition flag_bad (s : dst) : dst :=
  {| wn := wn s; cready := cready s; tready := tready s; est := est s; drdy := drdy s; notified := notified s;
     ctrig := ctrig s; ttrig := ttrig s; bad := true; pa := ADone; pcn := pcn s; pt := pt s |}.

(* GraphDependency::ready: the decrement comes before check_established() (regenerated `order` target) *)
Definition ready_shape_ok : bool := ready_dec_before_est =? 1.

(* GraphDependency::activate *)
Definition step_a (c : dcfg) (s : dst) : option dst :=
  match pa s with
  | A0 =>                                   (* fetch_add(inc, acq_rel) + inc ; switch *)
    let w := wn s + dep_inc (cond_ptr c) in
    let s1 := with_wn s w in
    if negb act_shape_ok then Some (flag_bad s1)
    else if w =? case_done_unestablished then Some (with_pa (notify_keep c s1) ADone)              (* return 1 *)
    else if w =? case_done_check then
      let s2 := check_est c s1 in
      if est s2 then Some (with_pa s2 ATgtLoad)                    (* _ready = _target->ready() is next *)
      else Some (with_pa (notify_keep c s2) ADone)
    else if w =? case_wait_one then
      if has_cond c then Some (with_pa s1 ACondLoad)
      else Some (with_pa (check_est c s1) ATgtTrig)                (* _established = true; _target->trigger *)
    else if w =? case_wait_two then Some (with_pa s1 ACondTrig)
    else Some (with_pa s1 ADone)
  | ATgtLoad => Some (with_pa (notify c s (tready s)) ADone)       (* load; return 1 *)
  | ACondLoad =>                            (* _condition->ready() *)
    if negb (cready s) then Some (with_pa s ACondTrig)
    else let s2 := check_est c s in
         if est s2 then Some (with_pa s2 ATgtTrig) else Some (with_pa s2 ADone)
  | ACondTrig => Some (with_pa (trig_c s) ADone)
  | ATgtTrig => Some (with_pa (trig_t s) ADone)
  | ADone => None
  end.

(* tail of GraphDependency::ready(condition): `if (waiting_num == 0 && nullptr != _source)` with the local waiting_num *)
Definition cond_final (c : dcfg) (s : dst) (w : Z) : dst :=
  if dep_ready_final w 1 then
    if est s then with_pc s CFinLoad                  (* _ready = established() && _target->ready(): load next *)
    else with_pc (notify c s false) CDone
  else with_pc s CDone.

(* GraphData::release of the condition, then GraphDependency::ready(condition) *)
Definition step_c (c : dcfg) (s : dst) : option dst :=
  if negb (has_cond c) then None else
  match pcn s with
  | C0 => Some (seal_c s)                   (* CAS _closure -> SEALED *)
  | C1 =>                                   (* fetch_sub(1, acq_rel) - 1.  _established is written only afterwards, by a
                                               plain store inside check_established(): its own step, because the target's
                                               releaser may read _established / _ready-relevant state in between *)
    let w := wn s - dep_ready_dec in
    if negb ready_shape_ok then Some (with_pc (flag_bad s) CDone)
    else Some (with_pc (with_wn s w) (C1b w))
  | C1b w =>                                (* check_established(): reads the condition value, stores _established *)
    let s2 := check_est c s in
    if est s2 then
      if dep_cond_activates_target w then Some (with_pc s2 (CTgtTrig w))
      else Some (cond_final c s2 w)
    else if dep_cond_second_dec w then Some (with_pc s2 C2)
    else Some (cond_final c s2 w)
  | C2 => let w := wn s - dep_ready_dec2 in Some (cond_final c (with_wn s w) w)
  | CTgtTrig w => Some (cond_final c (trig_t s) w)       (* recursive_activate(target) *)
  | CFinLoad => Some (with_pc (notify c s (tready s)) CDone)
  | CDone => None
  end.

(* GraphData::release of the target, then GraphDependency::ready(target) *)
Definition step_t (c : dcfg) (s : dst) : option dst :=
  match pt s with
  | T0 => Some (seal_t s)
  | T1 => let w := wn s - dep_ready_dec in Some (with_pt (with_wn s w) (T1b w))         (* fetch_sub(1, acq_rel) - 1 *)
  | T1b w =>
    if dep_ready_final w 1 then
      (* _ready = check_established()  (re-evaluates the condition data)  |  _ready = established()  (the cached flag,
         possibly not yet stored by the condition's releaser): which one is regenerated from the source *)
      let s2 := if ready_final_reeval =? 1 then check_est c s else s in
      Some (with_pt (notify c s2 (est s2)) TDone)
    else Some (with_pt s TDone)
  | TDone => None
  end.

Definition dstep (c : dcfg) (s : dst) (t : nat) : option dst :=
  match t with
  | O => step_a c s
  | S O => step_c c s
  | S (S O) => step_t c s
  | _ => None
  end.

Definition ddone (c : dcfg) (s : dst) : bool :=
  match pa s, pcn s, pt s with
  | ADone, CDone, TDone => true
  | ADone, C0, TDone => negb (has_cond c)
  | _, _, _ => false
  end.

(* what the rest of the engine relies on *)
Definition dep_ok (c : dcfg) (s : dst) : bool :=
  (notified s <=? 1)%nat && negb (bad s) &&
  (negb (ddone c s) || ((notified s =? 1)%nat && Bool.eqb (drdy s) (est_true c))) &&
  (* if the activator and the condition releaser are through, the dependency holds and the target is not
     sealed yet, then the target has been pushed for activation (so the graph can make progress) *)
  (negb (match pa s, pcn s with ADone, CDone => true | ADone, C0 => negb (has_cond c) | _, _ => false end
         && est_true c && negb (tready s)) || (1 <=? ttrig s)%nat) &&
  (-3 <=? wn s) && (wn s <=? 2) &&
  (* once the vertex has been told, the dependency is resolved: condition sealed, target sealed if the condition holds *)
  ((notified s =? 0)%nat || really_ready c s).

(* decidable equality, for the reflective exploration *)
Definition apc_eqb (a b : apc) : bool :=
  match a, b with A0, A0 | ATgtLoad, ATgtLoad | ACondLoad, ACondLoad | ACondTrig, ACondTrig | ATgtTrig, ATgtTrig | ADone, ADone => true | _, _ => false end.
Definition cpc_eqb (a b : cpc) : bool :=
  match a, b with
  | C0, C0 | C1, C1 | C2, C2 | CFinLoad, CFinLoad | CDone, CDone => true
  | CTgtTrig x, CTgtTrig y => x =? y
  | C1b x, C1b y => x =? y
  | _, _ => false
  end.
Definition tpc_eqb (a b : tpc) : bool :=
  match a, b with T0, T0 | T1, T1 | TDone, TDone => true | T1b x, T1b y => x =? y | _, _ => false end.
Definition dst_eqb (a b : dst) : bool :=
  (wn a =? wn b) && Bool.eqb (cready a) (cready b) && Bool.eqb (tready a) (tready b) && Bool.eqb (est a) (est b) &&
  Bool.eqb (drdy a) (drdy b) && (notified a =? notified b)%nat && (ctrig a =? ctrig b)%nat && (ttrig a =? ttrig b)%nat &&
  Bool.eqb (bad a) (bad b) && apc_eqb (pa a) (pa b) && cpc_eqb (pcn a) (pcn b) && tpc_eqb (pt a) (pt b).

Definition dmem (s : dst) (l : list dst) : bool := existsb (dst_eqb s) l.

(* breadth-first closure of the reachable set *)
Definition dsuccs (c : dcfg) (s : dst) : list dst :=
  flat_map (fun t => match dstep c s t with Some s' => [s'] | None => [] end) [0%nat; 1%nat; 2%nat].
Fixpoint dadd (new seen : list dst) : list dst * list dst (* (really new, seen') *) :=
  match new with
  | [] => ([], seen)
  | x :: r => if dmem x seen then dadd r seen
              else let '(n, s') := dadd r (x :: seen) in (x :: n, s')
  end.
Fixpoint dbfs (fuel : nat) (c : dcfg) (frontier seen : list dst) : list dst :=
  match fuel with
  | O => seen
  | S k => match frontier with
           | [] => seen
           | _ => let '(n, seen') := dadd (flat_map (dsuccs c) frontier) seen in dbfs k c n seen'
           end
  end.
Definition dall (c : dcfg) : list dst := dbfs 64 c [dinit] [dinit].
Definition dclosed (c : dcfg) (l : list dst) : bool :=
  dmem dinit l && forallb (fun s => forallb (fun s' => dmem s' l) (dsuccs c s)) l.

(* what one protocol step may do to the observable part of a dependency: tell the vertex at most once more, or seal
   exactly one of the two data (and then tell nobody) *)
Definition dstep_ok (s s' : dst) : bool :=
  ((notified s' =? notified s)%nat || (notified s' =? S (notified s))%nat) &&
  ((Bool.eqb (cready s') (cready s) && Bool.eqb (tready s') (tready s)) ||
   ((notified s' =? notified s)%nat &&
    ((cready s' && Bool.eqb (tready s') (tready s)) || (tready s' && Bool.eqb (cready s') (cready s))))).
Definition dsteps_ok (c : dcfg) (l : list dst) : bool :=
  forallb (fun s => forallb (dstep_ok s) (dsuccs c s)) l.

(* GraphDependency::reset: what it clears is regenerated from the source; a conditional / early return in its body means
   the fields are not cleared unconditionally, and the model then keeps them *)
Definition reset_unconditional : bool := (reset_has_early_return =? 0) && (reset_has_condition =? 0).
Definition dreset (s : dst) : dst :=
  {| wn := if reset_clears_count =? 1 then 0 else wn s; cready := false; tready := false;
     est := if reset_unconditional && (reset_clears_established =? 1) then false else est s;
     drdy := if reset_unconditional && (reset_clears_ready =? 1) then false else drdy s;
     notified := 0; ctrig := 0; ttrig := 0; bad := false; pa := A0; pcn := C0; pt := T0 |}.

(* observable outcome of a finished execution of DEP, as the driver prints it *)
Definition doutcome (s : dst) : nat * bool * Z := (notified s, drdy s, wn s).

(* ===================================================================================== *)
(* B. vertex count-down: n dependencies, each notifies once (A), either through the        *)
(*    return value of its activate() (summed into `finished`) or through ready()          *)
(* ===================================================================================== *)
Inductive vev := VReady (i : nat) | VActRet (i : nat) | VActEnd.

Record vst := { vw : Z;            (* GraphVertex::_waiting_num *)
                vfin : Z;          (* local `finished` of GraphVertex::activate *)
                vended : bool;     (* activate() is past its final fetch_sub *)
                vnot : list nat;   (* ghost: dependencies that have notified *)
                vrdy : Z;          (* ghost: number of VReady events *)
                vinvoked : nat }.  (* ghost: times the vertex was put on a runnable list *)

Definition vinit (n : Z) : vst := {| vw := n; vfin := 0; vended := false; vnot := []; vrdy := 0; vinvoked := 0 |}.

Definition nmem (i : nat) (l : list nat) : bool := existsb (Nat.eqb i) l.

Definition vstep (n : nat) (s : vst) (e : vev) : option vst :=
  match e with
  | VReady i =>                       (* GraphVertex::ready: fetch_sub(1) == 1 *)
    if (i <? n)%nat && negb (nmem i (vnot s)) then
      Some {| vw := vw s - 1; vfin := vfin s; vended := vended s; vnot := i :: vnot s; vrdy := vrdy s + 1;
              vinvoked := if vertex_ready_fires (vw s) then S (vinvoked s) else vinvoked s |}
    else None
  | VActRet i =>                      (* dependency.activate() returned 1 *)
    if (i <? n)%nat && negb (nmem i (vnot s)) && negb (vended s) then
      Some {| vw := vw s; vfin := vfin s + 1; vended := vended s; vnot := i :: vnot s; vrdy := vrdy s; vinvoked := vinvoked s |}
    else None
  | VActEnd =>                        (* if (finished > 0) { waiting_num = fetch_sub(finished) - finished; if (== 0) ... } *)
    if vended s then None
    else if vertex_finished_pos (vfin s) then
      let w := vertex_act_remaining (vw s) (vfin s) in
      Some {| vw := vw s - vfin s; vfin := vfin s; vended := true; vnot := vnot s; vrdy := vrdy s;
              vinvoked := if vertex_act_fires w then S (vinvoked s) else vinvoked s |}
    else Some {| vw := vw s; vfin := vfin s; vended := true; vnot := vnot s; vrdy := vrdy s; vinvoked := vinvoked s |}
  end.

Fixpoint vrun (n : nat) (s : vst) (l : list vev) : vst :=
  match l with [] => s | e :: r => vrun n (match vstep n s e with Some s' => s' | None => s end) r end.

(* ===================================================================================== *)
(* C. closure counters                                                                    *)
(* ===================================================================================== *)
Inductive cev := CBind (already_ready : bool) | CDataRel | CVAdd | CVSub | CFire | CFail.

Record cst := { cdata : Z; cvert : Z;      (* _waiting_data_num, _waiting_vertex_num *)
                cfin : option Z;          (* finished with this error code *)
                cflush : nat;             (* ghost: number of notify_flush calls (wait() returns after the first) *)
                cbound : Z;               (* ghost: bound target data not yet released *)
                clive : Z;                (* ghost: GraphVertexClosure objects alive (started, not finished vertices) *)
                cfired : bool }.

Definition cinit : cst := {| cdata := closure_data_init; cvert := closure_vertex_init; cfin := None; cflush := 0;
                             cbound := 0; clive := 0; cfired := false |}.

Definition mark (f : option Z) (code : Z) : option Z := match f with None => Some code | Some _ => f end.

Definition data_sub (s : cst) (b : Z) : cst :=
  let w := cdata s - 1 in
  {| cdata := w; cvert := cvert s; cfin := if closure_finish_fires w then mark (cfin s) 0 else cfin s; cflush := cflush s;
     cbound := b; clive := clive s; cfired := cfired s |}.
Definition vert_sub (s : cst) (l : Z) (fired : bool) : cst :=
  let w := cvert s - 1 in
  {| cdata := cdata s; cvert := w; cfin := if closure_flush_fires w then mark (cfin s) (-1) else cfin s;
     cflush := if closure_flush_fires w then S (cflush s) else cflush s; cbound := cbound s; clive := l; cfired := fired |}.

Definition cstep (s : cst) (e : cev) : option cst :=
  match e with
  | CBind ready =>                      (* GraphData::bind during Graph::run, before fire() *)
    if cfired s then None
    else let s1 := {| cdata := cdata s + 1; cvert := cvert s; cfin := cfin s; cflush := cflush s; cbound := cbound s + 1;
                      clive := clive s; cfired := false |} in
         if ready then Some (data_sub s1 (cbound s)) else Some s1
  | CDataRel => if 0 <? cbound s then Some (data_sub s (cbound s - 1)) else None
  | CVAdd =>                            (* a GraphVertexClosure is created by a thread inside run() or inside a live vertex *)
    if negb (cfired s) || (0 <? clive s) then
      Some {| cdata := cdata s; cvert := cvert s + 1; cfin := cfin s; cflush := cflush s; cbound := cbound s;
              clive := clive s + 1; cfired := cfired s |}
    else None
  | CVSub => if 0 <? clive s then Some (vert_sub s (clive s - 1) (cfired s)) else None
  | CFire => if cfired s then None else Some (vert_sub (data_sub s (cbound s)) (clive s) true)
  | CFail => if 0 <? clive s then Some {| cdata := cdata s; cvert := cvert s; cfin := mark (cfin s) (-1); cflush := cflush s;
                                          cbound := cbound s; clive := clive s; cfired := cfired s |} else None
  end.

Fixpoint crun (s : cst) (l : list cev) : cst :=
  match l with [] => s | e :: r => crun (match cstep s e with Some s' => s' | None => s end) r end.

(* ===================================================================================== *)
(* D. a whole run at event level, and the sequential evaluation                            *)
(* ===================================================================================== *)
Record dep := { tgt : nat; cnd : option (nat * bool); ess : bool }.
Record vertex := { deps : list dep; emits : list nat }.
Definition graph := list vertex.
Definition env := nat -> option (option Z).     (* None: not sealed (yet / ever); Some None: sealed empty *)

Definition truthy (x : option Z) : bool := match x with Some z => negb (z =? 0) | None => false end.
Definition eupd (e : env) (d : nat) (x : option Z) : env := fun k => if (k =? d)%nat then Some x else e k.

Definition est_of (e : env) (dp : dep) : option bool :=
  match cnd dp with
  | None => Some true
  | Some (c, ev) => match e c with None => None | Some x => Some (Bool.eqb (truthy x) ev) end
  end.
(* what a vertex sees through a dependency once it is resolved: (dependency.ready(), value) *)
Definition dep_view (e : env) (dp : dep) : option (bool * option Z) :=
  match est_of e dp with
  | None => None
  | Some false => Some (false, None)
  | Some true => match e (tgt dp) with None => None | Some x => Some (true, x) end
  end.
Fixpoint views (e : env) (l : list dep) : option (list (bool * option Z)) :=
  match l with
  | [] => Some []
  | dp :: r => match dep_view e dp, views e r with Some v, Some vs => Some (v :: vs) | _, _ => None end
  end.
Fixpoint ess_failed (l : list dep) (vs : list (bool * option Z)) : bool :=
  match l, vs with
  | dp :: r, (rd, x) :: vr => (ess dp && (negb rd || match x with None => true | Some _ => false end)) || ess_failed r vr
  | _, _ => false
  end.
Fixpoint bind_outs (e : env) (ds : list nat) (outs : list (option Z)) : env :=
  match ds, outs with
  | d :: ds', o :: outs' => bind_outs (eupd e d o) ds' outs'
  | _, _ => e
  end.
Fixpoint pad (n : nat) (l : list (option Z)) : list (option Z) :=     (* flush_emits: what was not emitted is empty *)
  match n with O => [] | S k => match l with [] => None :: pad k [] | x :: r => x :: pad k r end end.

Inductive vres := VBlocked | VSkip | VLate | VFail | VRun (ins : list (option Z)) (outs : list (option Z)).

Section Engine.
Variable f : nat -> list (option Z) -> option (list (option Z)).    (* processor bodies; None = process() fails *)

Definition vertex_res (v : nat) (vx : vertex) (e : env) : vres :=
  match views e (deps vx) with
  | None => VBlocked
  | Some vs => if ess_failed (deps vx) vs then VSkip
               else match f v (map snd vs) with
                    | None => VFail
                    | Some outs => VRun (map snd vs) (pad (length (emits vx)) outs)
                    end
  end.
Definition res_outs (vx : vertex) (r : vres) : option (list (option Z)) :=
  match r with VBlocked | VFail => None | VSkip | VLate => Some (pad (length (emits vx)) []) | VRun _ outs => Some outs end.

(* sequential evaluation: vertices in list (= topological) order *)
Fixpoint ref_from (v : nat) (g : list vertex) (e : env) : env :=
  match g with
  | [] => e
  | vx :: g' => ref_from (S v) g' (match res_outs vx (vertex_res v vx e) with
                                   | None => e | Some outs => bind_outs e (emits vx) outs end)
  end.
Definition preset_env (pre : list (nat * option Z)) : env :=
  fun d => match find (fun p => (fst p =? d)%nat) pre with Some p => Some (snd p) | None => None end.
Definition sref (g : graph) (pre : list (nat * option Z)) : env := ref_from 0 g (preset_env pre).

(* ---- the engine ---- *)
Inductive eev :=
| EInject (d : nat)              (* an input (producer-less data) is emitted from outside *)
| EWant (d : nat)                (* Graph::run binds / triggers a requested target *)
| EAct (v : nat)                 (* GraphVertex::activate wins the CAS *)
| EDepTrig (v i : nat)           (* dependency i of v pushes its condition / (once it holds) its target *)
| EInvoke (v : nat)              (* all dependencies resolved: invoke -> run *)
| ERel (v j : nat)               (* emit j of v is sealed (processor emit or flush_emits) *)
| EFinish0                       (* last requested target sealed: finish(0) *)
| EFinishErr.                    (* vertex count exhausted: finish(-1) *)

Record est_ := {
  dv : env;                       (* sealed data *)
  trig : nat -> bool;             (* data pushed for activation *)
  act : nat -> bool;              (* vertex activated *)
  ran : nat -> option vres;       (* vertex invoked, with what it did *)
  fin : option Z;                 (* closure finished *)
  taint : nat -> bool;            (* ghost: sealed by a vertex that was skipped because the closure had finished *)
  nrel : nat -> nat }.            (* ghost: number of times the data was sealed *)

Definition einit : est_ :=
  {| dv := fun _ => None; trig := fun _ => false; act := fun _ => false; ran := fun _ => None; fin := None;
     taint := fun _ => false; nrel := fun _ => O |}.

Definition bupd {A} (m : nat -> A) (k : nat) (x : A) : nat -> A := fun i => if (i =? k)%nat then x else m i.
Definition producer_of (g : graph) (d : nat) : bool := existsb (fun vx => nmem d (emits vx)) g.

Definition set_trig (s : est_) (d : nat) : est_ :=
  {| dv := dv s; trig := bupd (trig s) d true; act := act s; ran := ran s; fin := fin s; taint := taint s; nrel := nrel s |}.
Definition seal (s : est_) (d : nat) (x : option Z) (t : bool) : est_ :=
  {| dv := eupd (dv s) d x; trig := trig s; act := act s; ran := ran s; fin := fin s; taint := bupd (taint s) d t;
     nrel := bupd (nrel s) d (S (nrel s d)) |}.

Definition estep (g : graph) (pre : list (nat * option Z)) (targets : list nat) (s : est_) (e : eev) : option est_ :=
  match e with
  | EInject d =>
    match dv s d, preset_env pre d with
    | None, Some x => if producer_of g d then None else Some (seal s d x false)
    | _, _ => None
    end
  | EWant d => if nmem d targets then Some (set_trig s d) else None
  | EAct v =>
    match nth_error g v with
    | Some vx => if negb (act s v) && existsb (fun d => trig s d && match dv s d with None => true | Some _ => false end) (emits vx)
                 then Some {| dv := dv s; trig := trig s; act := bupd (act s) v true; ran := ran s; fin := fin s;
                              taint := taint s; nrel := nrel s |}
                 else None
    | None => None
    end
  | EDepTrig v i =>
    match nth_error g v with
    | Some vx =>
      if act s v then
        match nth_error (deps vx) i with
        | Some dp =>
          match cnd dp with
          | None => Some (set_trig s (tgt dp))
          | Some (c, ev) => match dv s c with
                            | None => Some (set_trig s c)
                            | Some x => if Bool.eqb (truthy x) ev then Some (set_trig s (tgt dp)) else None
                            end
          end
        | None => None
        end
      else None
    | None => None
    end
  | EInvoke v =>
    match nth_error g v, ran s v with
    | Some vx, None =>
      if act s v then
        match vertex_res v vx (dv s) with
        | VBlocked => None
        | r =>
          let late := match fin s with Some _ => true | None => false end in
          let r' := if late then VLate else r in     (* run(): closure.finished() -> flush only; an essential
                                                          failure seen after the finish is not told apart *)
          Some {| dv := dv s; trig := trig s; act := act s; ran := bupd (ran s) v (Some r');
                  fin := match r' with VFail => (match fin s with None => Some (-1) | x => x end) | _ => fin s end;
                  taint := taint s; nrel := nrel s |}
        end
      else None
    | _, _ => None
    end
  | ERel v j =>
    match nth_error g v, ran s v with
    | Some vx, Some r =>
      match res_outs vx r, nth_error (emits vx) j with
      | Some outs, Some d =>
        match nth_error outs j, dv s d with
        | Some x, None =>
          Some (seal s d x (match r with VLate => true | _ => false end))
        | _, _ => None
        end
      | _, _ => None
      end
    | _, _ => None
    end
  | EFinish0 =>
    match fin s with
    | None => if forallb (fun t => match dv s t with Some _ => true | None => false end) targets
              then Some {| dv := dv s; trig := trig s; act := act s; ran := ran s; fin := Some 0; taint := taint s; nrel := nrel s |}
              else None
    | Some _ => None
    end
  | EFinishErr =>
    match fin s with
    | None => Some {| dv := dv s; trig := trig s; act := act s; ran := ran s; fin := Some (-1); taint := taint s; nrel := nrel s |}
    | Some _ => None
    end
  end.

Fixpoint erun (g : graph) (pre : list (nat * option Z)) (targets : list nat) (s : est_) (l : list eev) : est_ :=
  match l with
  | [] => s
  | e :: r => erun g pre targets (match estep g pre targets s e with Some s' => s' | None => s end) r
  end.

(* ---- executable demand analysis (what the driver prints, compared with the implementation) ---- *)
(* backward pass over the vertices: wanted data, activated vertices.  avail = data sealed before run() *)
Fixpoint needed_from (rg : list (nat * vertex)) (e : env) (avail : nat -> bool) (want : list nat) (acts : list nat)
  : list nat * list nat :=
  match rg with
  | [] => (want, acts)
  | (v, vx) :: r =>
    if existsb (fun d => nmem d want && negb (avail d)) (emits vx) then
      let w' := fold_left (fun w dp =>
                   match cnd dp with
                   | None => tgt dp :: w
                   | Some (c, ev) => match e c with
                                     | Some x => if Bool.eqb (truthy x) ev then tgt dp :: c :: w else c :: w
                                     | None => c :: w
                                     end
                   end) (deps vx) want in
      needed_from r e avail w' (v :: acts)
    else needed_from r e avail want acts
  end.
Fixpoint index_from {A} (k : nat) (l : list A) : list (nat * A) :=
  match l with [] => [] | x :: r => (k, x) :: index_from (S k) r end.
Definition needed (g : graph) (pre : list (nat * option Z)) (targets : list nat) : list nat * list nat :=
  let e := sref g pre in
  needed_from (rev (index_from 0 g)) e (fun d => match preset_env pre d with Some _ => true | None => false end) targets [].

(* expected error: a needed vertex fails, or a wanted producer-less data is missing *)
Definition expect_error (g : graph) (pre : list (nat * option Z)) (targets : list nat) : bool :=
  let e := sref g pre in
  let '(want, acts) := needed g pre targets in
  existsb (fun v => match nth_error g v with
                    | Some vx => match vertex_res v vx e with VFail => true | _ => false end
                    | None => false end) acts
  || existsb (fun d => negb (producer_of g d) && match preset_env pre d with None => true | Some _ => false end) want.
End Engine.

(* ---- the concrete processor body shared with the C++ driver and the check script ---- *)
Definition PM : Z := 1009.
Definition proc_acc (v : nat) (ins : list (option Z)) : Z :=
  fold_left (fun acc x => (acc * 31 + match x with Some z => z + 1 | None => 0 end) mod PM) ins ((Z.of_nat v * 7 + 1) mod PM).
Fixpoint proc_outs (acc : Z) (boolean : bool) (j : nat) (n : nat) : list (option Z) :=
  match n with
  | O => []
  | S k => let y := (acc + 17 * Z.of_nat j) mod PM in
           (if y mod 5 =? 0 then None else Some (if boolean then y mod 2 else y)) :: proc_outs acc boolean (S j) k
  end.
(* flags : per vertex (may fail, boolean outputs, number of emits) *)
Definition proc_fn (flags : nat -> bool * bool * nat) (v : nat) (ins : list (option Z)) : option (list (option Z)) :=
  let '(canfail, boolean, nem) := flags v in
  let acc := proc_acc v ins in
  if canfail && (acc mod 3 =? 0) then None else Some (proc_outs acc boolean 0 nem).


(* ===================================================================================== *)
(* E. one vertex with n dependencies: DEP for every dependency + the VTX count-down.        *)
(*    thread 0 = GraphVertex::activate (activates dependency 0, 1, ... in order, then the   *)
(*    final fetch_sub(finished)); thread 1+2i = releaser of dependency i's condition;       *)
(*    thread 2+2i = releaser of dependency i's target.  A protocol step that tells the      *)
(*    vertex performs the vertex's counter operation in the same step (the preceding load   *)
(*    of _target->ready() reads a flag that is already stable there).                       *)
(* ===================================================================================== *)
Definition v_ready (s : vst) (i : nat) : vst :=
  {| vw := vw s - 1; vfin := vfin s; vended := vended s; vnot := i :: vnot s; vrdy := vrdy s + 1;
     vinvoked := if vertex_ready_fires (vw s) then S (vinvoked s) else vinvoked s |}.
Definition v_actret (s : vst) (i : nat) : vst :=
  {| vw := vw s; vfin := vfin s + 1; vended := vended s; vnot := i :: vnot s; vrdy := vrdy s; vinvoked := vinvoked s |}.
Definition v_actend (s : vst) : vst :=
  if vertex_finished_pos (vfin s) then
    let w := vertex_act_remaining (vw s) (vfin s) in
    {| vw := vw s - vfin s; vfin := vfin s; vended := true; vnot := vnot s; vrdy := vrdy s;
       vinvoked := if vertex_act_fires w then S (vinvoked s) else vinvoked s |}
  else {| vw := vw s; vfin := vfin s; vended := true; vnot := vnot s; vrdy := vrdy s; vinvoked := vinvoked s |}.

Record xst := { xdeps : list dst; xv : vst; xnext : nat }.
Definition xinit (n : nat) : xst := {| xdeps := repeat dinit n; xv := vinit (Z.of_nat n); xnext := 0 |}.

Fixpoint lset {A} (n : nat) (x : A) (l : list A) : list A :=
  match l, n with
  | [], _ => []
  | _ :: r, O => x :: r
  | y :: r, S n' => y :: lset n' x r
  end.

Definition xstep (cs : list dcfg) (s : xst) (t : nat) : option xst :=
  match t with
  | O =>
    if (xnext s <? length cs)%nat then
      match nth_error cs (xnext s), nth_error (xdeps s) (xnext s) with
      | Some c, Some d =>
        match step_a c d with
        | Some d' =>
          Some {| xdeps := lset (xnext s) d' (xdeps s);
                  xv := if (notified d <? notified d')%nat then v_actret (xv s) (xnext s) else xv s;   (* finished += 1 *)
                  xnext := match pa d' with ADone => S (xnext s) | _ => xnext s end |}
        | None => None
        end
      | _, _ => None
      end
    else if vended (xv s) then None
    else Some {| xdeps := xdeps s; xv := v_actend (xv s); xnext := xnext s |}
  | S k =>
    let i := Nat.div2 k in
    match nth_error cs i, nth_error (xdeps s) i with
    | Some c, Some d =>
      match (if Nat.odd k then step_t c d else step_c c d) with
      | Some d' =>
        Some {| xdeps := lset i d' (xdeps s);
                xv := if (notified d <? notified d')%nat then v_ready (xv s) i else xv s;             (* _source->ready(this) *)
                xnext := xnext s |}
      | None => None
      end
    | _, _ => None
    end
  end.

(* what ENG sees of this vertex: which data are sealed, and whether it has been invoked *)
Definition resolved (c : dcfg) (fl : bool * bool) : bool :=
  (negb (has_cond c) || fst fl) && (negb (est_true c) || snd fl).
Definition xproj (s : xst) : list (bool * bool) * nat := (map (fun d => (cready d, tready d)) (xdeps s), vinvoked (xv s)).
Definition all_resolved (cs : list dcfg) (fls : list (bool * bool)) : bool :=
  forallb (fun p => resolved (fst p) (snd p)) (combine cs fls).
Definition xall_done (cs : list dcfg) (s : xst) : bool :=
  (xnext s =? length cs)%nat && vended (xv s) && forallb (fun p => ddone (fst p) (snd p)) (combine cs (xdeps s)).

(* the flags a dependency has in a data environment e, and its configuration under the eventual values E *)
Definition is_some {A} (o : option A) : bool := match o with Some _ => true | None => false end.
Definition is_none {A} (o : option A) : bool := match o with Some _ => false | None => true end.
Definition dep_cfg (E : env) (dp : dep) : dcfg :=
  {| has_cond := is_some (cnd dp);
     holds := match cnd dp with
              | Some (c, ev) => match E c with Some x => Bool.eqb (truthy x) ev | None => false end
              | None => false
              end |}.
Definition dep_flags (e : env) (dp : dep) : bool * bool :=
  (match cnd dp with Some (c, _) => is_some (e c) | None => false end, is_some (e (tgt dp))).

(* ===================================================================================== *)
(* F. ENG with wait(): a run ends when the closure is flushed (wait() returns).  Steps that  *)
(*    would change nothing (pushing a data that is already pushed) are not steps.           *)
(* ===================================================================================== *)
Record tst := { base : est_; flushed : bool }.
Inductive tev := TBase (e : eev) | TFlush.

Definition running (g : graph) (s : est_) (v : nat) : bool :=      (* invoked, some emit not sealed yet *)
  match nth_error g v, ran s v with
  | Some vx, Some r => match res_outs vx r with
                       | Some _ => existsb (fun d => is_none (dv s d)) (emits vx)
                       | None => false
                       end
  | _, _ => false
  end.
Definition trig_of (g : graph) (s : est_) (e : eev) : option nat :=    (* the data an event pushes for activation *)
  match e with
  | EWant d => Some d
  | EDepTrig v i =>
    match nth_error g v with
    | Some vx => match nth_error (deps vx) i with
                 | Some dp => match cnd dp with
                              | None => Some (tgt dp)
                              | Some (c, _) => match dv s c with None => Some c | Some _ => Some (tgt dp) end
                              end
                 | None => None
                 end
    | None => None
    end
  | _ => None
  end.
Definition tinit : tst := {| base := einit; flushed := false |}.

Definition tstep (f : nat -> list (option Z) -> option (list (option Z))) (g : graph) (pre : list (nat * option Z))
           (targets : list nat) (s : tst) (e : tev) : option tst :=
  if flushed s then None else
  match e with
  | TFlush =>                              (* depend_vertex_sub reaches 0: notify_flush, wait() returns *)
    match fin (base s) with
    | None => None
    | Some _ => if existsb (running g (base s)) (seq 0 (length g)) then None
                else Some {| base := base s; flushed := true |}
    end
  | TBase e0 =>
    if match trig_of g (base s) e0 with Some d => trig (base s) d | None => false end then None
    else match estep f g pre targets (base s) e0 with
         | Some b => Some {| base := b; flushed := false |}
         | None => None
         end
  end.

Fixpoint trun f g pre targets (s : tst) (l : list tev) : tst :=
  match l with
  | [] => s
  | e :: r => trun f g pre targets (match tstep f g pre targets s e with Some s' => s' | None => s end) r
  end.
Fixpoint tsteps f g pre targets (s : tst) (l : list tev) : nat :=       (* number of steps actually taken *)
  match l with
  | [] => O
  | e :: r => match tstep f g pre targets s e with
              | Some s' => S (tsteps f g pre targets s' r)
              | None => tsteps f g pre targets s r
              end
  end.

Definition ids (g : graph) (pre : list (nat * option Z)) (targets : list nat) : list nat :=
  targets ++ map fst pre ++
  flat_map (fun vx => emits vx ++ flat_map (fun dp => tgt dp :: match cnd dp with Some (c, _) => [c] | None => [] end) (deps vx)) g.
Definition measure (g : graph) (pre : list (nat * option Z)) (targets : list nat) (s : tst) : nat :=
  (length (filter (fun d => is_none (dv (base s) d)) (ids g pre targets)) +
   length (filter (fun d => negb (trig (base s) d)) (ids g pre targets)) +
   length (filter (fun v => negb (act (base s) v)) (seq 0 (length g))) +
   length (filter (fun v => is_none (ran (base s) v)) (seq 0 (length g))) +
   (if fin (base s) then 0 else 1) + (if flushed s then 0 else 1))%nat.

(* Graph::reset + a fresh closure: the per-run state of every data / vertex / dependency is cleared *)
Definition ereset (s : est_) : est_ :=
  {| dv := fun _ => None; trig := fun _ => false; act := fun _ => false; ran := fun _ => None; fin := None;
     taint := fun _ => false; nrel := fun _ => O |}.

(* ===================================================================================== *)
(* G. the publication wrapper Committer<T> (data.h / data.hpp): a committer is valid /      *)
(*    moved-from / released; move construction and move assignment transfer the right to    *)
(*    publish, release() / the destructor of the valid committer publish (GraphData::       *)
(*    release).  What each special member does is regenerated from the source (the cm_ targets).        *)
(* ===================================================================================== *)
Record cmt := { cmd : option nat;        (* _data *)
                cmv : bool }.            (* _valid *)
Record dcell := { dacq : bool;           (* GraphData::_acquired *)
                  dval : option Z;       (* current content (None = empty) *)
                  dpub : nat;            (* ghost: number of publications (GraphData::release calls that sealed / would seal) *)
                  dpubval : option Z;    (* ghost: content at the first publication *)
                  dcan : nat;            (* ghost: cancel() calls of a valid committer *)
                  dlate : bool }.        (* ghost: content changed after publication *)
Record pst := { cms : list cmt; cells : nat -> dcell;
                pmove : bool }.          (* ghost: a publication happened inside a move construction *)
Definition cell0 : dcell := {| dacq := false; dval := None; dpub := 0; dpubval := None; dcan := 0; dlate := false |}.
Definition pinit : pst := {| cms := []; cells := fun _ => cell0; pmove := false |}.

Inductive pop :=
| PNew (d : nat)                 (* data.emit<T>(): Committer(GraphData&) *)
| PMove (src : nat)              (* Committer(Committer&&): the new committer gets the next index *)
| PAssign (dst src : nat)        (* dst = std::move(src) *)
| PWrite (c : nat) (v : Z)       (* *c = v  (get()) *)
| PClear (c : nat)
| PRelease (c : nat)
| PDtor (c : nat)
| PCancel (c : nat).

Definition b2z (b : bool) : Z := if b then 1 else 0.
Definition cupd (m : nat -> dcell) (d : nat) (x : dcell) : nat -> dcell := fun k => if (k =? d)%nat then x else m k.

Definition publish (m : nat -> dcell) (d : nat) : nat -> dcell :=
  let c := m d in
  cupd m d {| dacq := dacq c; dval := dval c; dpub := S (dpub c);
              dpubval := match dpub c with O => dval c | S _ => dpubval c end; dcan := dcan c; dlate := dlate c |}.
Definition set_content (m : nat -> dcell) (d : nat) (x : option Z) : nat -> dcell :=
  let c := m d in
  cupd m d {| dacq := dacq c; dval := x; dpub := dpub c; dpubval := dpubval c; dcan := dcan c;
              dlate := dlate c || (0 <? dpub c)%nat |}.

(* Committer<T>::release() *)
Definition c_release (c : cmt) (m : nat -> dcell) : cmt * (nat -> dcell) * bool :=
  if cm_release_guard (b2z (cmv c)) then
    let pub := (cm_release_publishes =? 1) && is_some (cmd c) in
    ({| cmd := cmd c; cmv := if cm_release_clears_valid =? 1 then false else cmv c |},
     match cmd c with Some d => if cm_release_publishes =? 1 then publish m d else m | None => m end, pub)
  else (c, m, false).

Definition pstep (s : pst) (o : pop) : option pst :=
  match o with
  | PNew d =>
    let c := cells s d in
    Some {| cms := cms s ++ [{| cmd := Some d; cmv := negb (dacq c) |}];
            cells := cupd (cells s) d {| dacq := true; dval := dval c; dpub := dpub c; dpubval := dpubval c; dcan := dcan c; dlate := dlate c |};
            pmove := pmove s |}
  | PMove i =>
    match nth_error (cms s) i with
    | Some c =>
      let src := {| cmd := if cm_move_clears_data =? 1 then None else cmd c;
                    cmv := if cm_move_clears_valid =? 1 then false else cmv c |} in
      let '(src', m', pub) := if cm_move_calls_release =? 1 then c_release src (cells s) else (src, cells s, false) in
      Some {| cms := lset i src' (cms s) ++ [c]; cells := m'; pmove := pmove s || pub |}
    | None => None
    end
  | PAssign j i =>
    if (j =? i)%nat then None else
    match nth_error (cms s) j, nth_error (cms s) i with
    | Some dst, Some src =>
      let dst' := {| cmd := if cm_assign_swaps_data =? 1 then cmd src else cmd dst;
                     cmv := if cm_assign_swaps_valid =? 1 then cmv src else cmv dst |} in
      let src0 := {| cmd := if cm_assign_swaps_data =? 1 then cmd dst else cmd src;
                     cmv := if cm_assign_swaps_valid =? 1 then cmv dst else cmv src |} in
      let '(src', m', _) := if cm_assign_releases_other =? 1 then c_release src0 (cells s) else (src0, cells s, false) in
      Some {| cms := lset i src' (lset j dst' (cms s)); cells := m'; pmove := pmove s |}
    | _, _ => None
    end
  | PWrite i v =>
    match nth_error (cms s) i with
    | Some c => Some {| cms := cms s;
                        cells := if cm_get_guard (b2z (cmv c)) then match cmd c with Some d => set_content (cells s) d (Some v) | None => cells s end
                                 else cells s;
                        pmove := pmove s |}
    | None => None
    end
  | PClear i =>
    match nth_error (cms s) i with
    | Some c => Some {| cms := cms s;
                        cells := if cmv c then match cmd c with Some d => set_content (cells s) d None | None => cells s end else cells s;
                        pmove := pmove s |}
    | None => None
    end
  | PRelease i =>
    match nth_error (cms s) i with
    | Some c => let '(c', m', _) := c_release c (cells s) in Some {| cms := lset i c' (cms s); cells := m'; pmove := pmove s |}
    | None => None
    end
  | PDtor i =>
    match nth_error (cms s) i with
    | Some c => let '(c', m', _) := if cm_dtor_releases =? 1 then c_release c (cells s) else (c, cells s, false) in
                Some {| cms := lset i c' (cms s); cells := m'; pmove := pmove s |}
    | None => None
    end
  | PCancel i =>
    match nth_error (cms s) i with
    | Some c =>
      if cmv c then
        match cmd c with
        | Some d =>
          let m1 := if cm_cancel_publishes =? 1 then publish (cells s) d else cells s in
          let x := m1 d in
          Some {| cms := lset i {| cmd := None; cmv := if cm_cancel_clears_valid =? 1 then false else true |} (cms s);
                  cells := cupd m1 d {| dacq := dacq x; dval := dval x; dpub := dpub x; dpubval := dpubval x; dcan := S (dcan x); dlate := dlate x |};
                  pmove := pmove s |}
        | None => Some s
        end
      else Some s
    | None => None
    end
  end.

Fixpoint prun (s : pst) (l : list pop) : pst :=
  match l with [] => s | o :: r => prun (match pstep s o with Some s' => s' | None => s end) r end.

Definition hv (c : cmt) (d : nat) : nat :=
  if cmv c && match cmd c with Some x => (x =? d)%nat | None => false end then 1%nat else 0%nat.
Fixpoint nvalid (d : nat) (l : list cmt) : nat := match l with [] => O | c :: r => (hv c d + nvalid d r)%nat end.

(* ===================================================================================== *)
(* H. Graph::run binding its targets (GraphData::bind) against releasers of those targets:  *)
(*    thread 0 = run(): for each requested target the two steps of bind - count it on the   *)
(*    closure (depend_data_add) and attach the closure to the data (CAS nullptr -> closure, *)
(*    fails when the data is sealed, then the count is undone) - in the order regenerated   *)
(*    from the source, then fire(); thread k+1 = whoever publishes target k (a producer or  *)
(*    an external injector): seal (CAS -> SEALED, reads the attached closure), then         *)
(*    depend_data_sub if a closure was attached.                                            *)
(* ===================================================================================== *)
Inductive bpc := BIdle | BMid | BUndo | BDone.
Inductive rpc := RIdle | RSub | RDone.
Record btgt := { batt : bool; bp : bpc; rp : rpc }.
Record bst := { btargets : list btgt; bcur : nat; bdata : Z; bfin : option Z; bfired : bool;
                bearly : bool }.       (* ghost: finish(0) was marked while a requested target was not sealed / run() not through *)
Definition binit (n : nat) : bst :=
  {| btargets := repeat {| batt := false; bp := BIdle; rp := RIdle |} n; bcur := 0; bdata := closure_data_init; bfin := None;
     bfired := false; bearly := false |}.

Definition bsealed (t : btgt) : bool := match rp t with RIdle => false | _ => true end.
Definition all_sealed (l : list btgt) : bool := forallb bsealed l.

(* depend_data_sub on the closure *)
Definition b_sub (s : bst) (l : list btgt) (cur : nat) (fired : bool) : bst :=
  let w := bdata s - 1 in
  let fires := closure_finish_fires w in
  {| btargets := l; bcur := cur; bdata := w;
     bfin := if fires then mark (bfin s) 0 else bfin s; bfired := fired;
     bearly := bearly s || (fires && match bfin s with None => negb (fired && all_sealed l) | Some _ => false end) |}.
Definition b_set (s : bst) (l : list btgt) (cur : nat) (d : Z) : bst :=
  {| btargets := l; bcur := cur; bdata := d; bfin := bfin s; bfired := bfired s; bearly := bearly s |}.

Definition bstep (s : bst) (t : nat) : option bst :=
  match t with
  | O =>
    match nth_error (btargets s) (bcur s) with
    | Some tg =>
      let upd x := lset (bcur s) x (btargets s) in
      match bp tg with
      | BIdle =>
        if bind_counts_before_attach =? 1
        then Some (b_set s (upd {| batt := batt tg; bp := BMid; rp := rp tg |}) (bcur s) (bdata s + 1))     (* depend_data_add *)
        else if bsealed tg then Some (b_set s (upd {| batt := false; bp := BDone; rp := rp tg |}) (S (bcur s)) (bdata s))
             else Some (b_set s (upd {| batt := true; bp := BMid; rp := rp tg |}) (bcur s) (bdata s))       (* CAS first *)
      | BMid =>
        if bind_counts_before_attach =? 1
        then if bsealed tg
             then (if bind_undoes_on_failure =? 1 then Some (b_set s (upd {| batt := false; bp := BUndo; rp := rp tg |}) (bcur s) (bdata s))
                   else Some (b_set s (upd {| batt := false; bp := BDone; rp := rp tg |}) (S (bcur s)) (bdata s)))
             else Some (b_set s (upd {| batt := true; bp := BDone; rp := rp tg |}) (S (bcur s)) (bdata s))   (* CAS *)
        else Some (b_set s (upd {| batt := batt tg; bp := BDone; rp := rp tg |}) (S (bcur s)) (bdata s + 1))  (* count afterwards *)
      | BUndo => Some (b_sub s (upd {| batt := false; bp := BDone; rp := rp tg |}) (S (bcur s)) (bfired s))  (* depend_data_sub *)
      | BDone => None
      end
    | None => if bfired s then None else Some (b_sub s (btargets s) (bcur s) true)                            (* fire() *)
    end
  | S k =>
    match nth_error (btargets s) k with
    | Some tg =>
      match rp tg with
      | RIdle => Some (b_set s (lset k {| batt := batt tg; bp := bp tg; rp := if batt tg then RSub else RDone |} (btargets s)) (bcur s) (bdata s))
      | RSub => Some (b_sub s (lset k {| batt := batt tg; bp := bp tg; rp := RDone |} (btargets s)) (bcur s) (bfired s))
      | RDone => None
      end
    | None => None
    end
  end.

(* what one target contributes to the closure's data count *)
Definition bcontrib (t : btgt) : Z :=
  match bp t with
  | BIdle => 0
  | BMid | BUndo => 1
  | BDone => if batt t then match rp t with RDone => 0 | _ => 1 end else 0
  end.
Fixpoint bsum (l : list btgt) : Z := match l with [] => 0 | t :: r => bcontrib t + bsum r end.
