From Coq Require Import ZArith List.
Require Import Verif.Gen.Gen_serialization Verif.SE.SEModel Verif.SE.SEProofs.
Import ListNotations.
Local Open Scope Z_scope.
Theorem c11_stub : encode (TS KI32) (VInt 1) = [1].
Proof. exact se_stub. Qed.
Print Assumptions c11_stub.
