(* C11 - serialization: round trip, exact size, protobuf wire compatibility, hostile-input safety.
   Only statements here; every proof is `exact <lemma of SE/SEProofs.v or SE/SEHang.v>`.

   Model: SE/SEModel.v (types ty, values val, ssize/encode as the two passes of the code, decode over a model of
   CodedInputStream: the window up to the innermost limit; PushLimit narrows it, so a parser never sees a byte
   outside its limit BY CONSTRUCTION of the stream model - memory safety of the real code is checked by the
   ASan/UBSan runs, not proved).  The model follows /repo after the fixes b1345b6 (member size cache stored before
   the size == 0 test) and e367940 (a length prefix that cannot be read is a parse failure); both code shapes are
   translator targets, so reverting either breaks the translator (and e367940 re-opens SEHang.dec_len_prog).

   Scalar kinds: bool, int8..int64, uint8..uint64, float, double and enums with underlying int8/uint8/int32/uint32/
   int64/uint64.  The varint width each trait of scalar.h WRITES, READS and SIZES with (32 bit macro group, 64 bit
   macro group, enum trait) and the float/double byte widths are regenerated (Gen: *_write_bits/_read_bits/_size_bits)
   and feed sk_encode/dec_scalar/sk_size; SEProofs.sk_encode_spec/sk_size_spec/dec_scalar_spec pin them to the widths
   the C++ value ranges need, so narrowing one (e.g. the enum trait to 32 bits) breaks the translator or these lemmas.
   The test guarding the pointee allocation in unique_ptr.h / shared_ptr.h is regenerated too (uptr_guard_kind /
   sptr_guard_kind feed SEModel.ptr_guard; SEProofs.ptr_guard_eq pins it to "a byte is readable"):
   c11_roundtrip_unlimited_scalar_ptr / _string_ptr state that a non-null top-level smart pointer survives a stream
   WITHOUT limit (BytesUntilLimit() is -1 there).
   Proved for ALL values of ALL `ty_ok` types (incl. sets, maps):  c11_size_exact.  vector/array size TRIVIAL elements
   (float, double, aggregates of such) as size() * size(value[0]); a smart pointer is SIMPLE, never TRIVIAL, since
   8a146e9 (regenerated: uptr/sptr_trivial_becomes), so TRIVIAL types hide no pointer (SEProofs.trivial_ptr_free) and
   the shortcut is exact; c11_size_exact_former_witness is the value that refuted it before the fix.
   Proved for ALL byte strings and ALL types (incl. sets, maps, ill-formed schemas), debug and NDEBUG:
   c11_parse_terminates (flat array / string / stream under an enclosing limit: the result is never Hang) and
   c11_decode_consumes (a parser only moves forward inside its window and leaves the limit as it found it).
   c11_parse_terminates_unlimited_partial: the same on a stream WITHOUT any limit for every type in which no
   container (vector/list/set/map/array) holds smart pointers to scalars; for those types it is false
   (c11_unlimited_scalar_ptr_vector_hang_refuted, replayed on the real code) - the same types whose null
   elements vanish (finding null-scalar-ptr-in-container-lost).
   c11_roundtrip / c11_roundtrip_scalar: for all well-formed values of EVERY type of the universe (scalars, enum,
   string, vector, list, array, unordered_set, unordered_map, unique/shared pointers, aggregates with field numbers
   and base classes, arbitrarily nested), debug and NDEBUG, fresh target object: parsing the written bytes returns
   the value (pointers to empty encodings null).  Hash containers are lists in iteration order with pairwise
   different elements / keys (part of wf); the theorem holds for every such list, i.e. for every iteration order the
   real container may use, and the entries come back in wire order: c11_roundtrip_set_any_order /
   c11_roundtrip_map_any_order state it with an explicit Permutation.  Excluded (and refuted): container elements
   that are smart pointers to scalars (`ty_ok`), streams without an enclosing limit.
   c11_success_stable / c11_success_stable_scalar: whatever a SUCCESSFUL parse of ARBITRARY bytes returns
   serializes and parses back to itself (pointers to empty encodings null), for every type without hash containers
   whose top level is length-delimited or a scalar, provided the re-serialized size is below 2^31 (the library's own
   limit); c11_decoded_wellformed is the invariant behind it (for ALL types, incl. sets/maps).  Excluded: types
   containing unordered_set/map (the model compares pointer elements by value, the real containers by address),
   top-level smart pointers to scalars.
   Proved for every aggregate schema (c11_compat, c11_field_order_irrelevant): an input made of any sequence, in any
   order, of encodings of distinct known fields and of unknown fields of every wire type (varint, fixed64,
   length-delimited, fixed32) parses to the default object updated at exactly the fields present: unknown fields are
   skipped, absent fields keep their defaults, field order does not matter.
   c11_proto_wire_compat: against a hand-written specification of the protobuf wire format (SEProto.proto_split:
   message = record*, tag = varint(field*8 + wire type), varint / 8 bytes / length + bytes / 4 bytes), what an
   aggregate writes splits into exactly its non-empty members under their field numbers, bool/int8..int32/uint8..
   uint32 as the 32 bit and int64/uint64/enum as the 64 bit two's complement varint, float/double as fixed32/64 bit
   patterns, string/bytes/nested aggregate/packed repeated scalars as length-delimited bytes (the kinds
   docs/serialization lists).  A protobuf reader truncates the int32 varint to 32 bits, so 5-byte negative int32s
   are accepted; that protoc's generated classes implement this specification is checked by the monitors.
   NOT proved (checked on implementation + model by the correspondence run and monitors only): the size cache
   of re-used objects (monitor); independence of the chunking of a stream-backed input (the stream model has no
   chunks: protobuf's buffering only shows in how much a FAILED varint read consumes, and since e367940 only a failed
   tag read is survivable - with >= 10 continuation bytes where a tag is expected a flat array fails where a chunked
   stream may go on; for valid encodings and all other inputs the monitors compare flat / string / chunked).
   The remaining *_refuted theorems are the three findings still open in KNOWN_FINDINGS.txt (null scalar pointers
   in containers, top-level vector on a stream without limit: empty / vector<float>: terminate), each replayed on
   the real classes by checks/c11.py. *)
From Coq Require Import ZArith List Permutation.
Require Import Verif.Gen.Gen_serialization Verif.SE.SEModel Verif.SE.SEProofs Verif.SE.SEHang Verif.SE.SEStable Verif.SE.SEProto.
Import ListNotations.
Local Open Scope Z_scope.

(* the predicted size (calculate_serialized_size, with the regenerated varint_size formula and skip tests) is the
   number of bytes serialize writes: every type, every well-formed value *)
Theorem c11_size_exact : forall t v, ty_ok t -> wf t v -> ssize t v = Z.of_nat (length (encode t v)).
Proof. exact size_exact. Qed.
Print Assumptions c11_size_exact.

(* varints: what WriteVarint writes, ReadVarint reads back, whatever follows *)
Theorem c11_varint_roundtrip : forall n post, 0 <= n < 2 ^ 64 -> get_varint 10 (varint n ++ post) = Some (n, post).
Proof. exact get_varint_varint. Qed.
Print Assumptions c11_varint_roundtrip.

(* babylon's varint_size formula (regenerated) is the number of bytes of the varint *)
Theorem c11_varint_size : forall n, 0 <= n < 2 ^ 64 -> Z.of_nat (length (varint n)) = bb_varint_size n.
Proof. exact varint_length_bb. Qed.
Print Assumptions c11_varint_size.

(* tag = field_number << 3 | wire_type (regenerated) splits back into number and wire type *)
Theorem c11_tag_layout : forall num t, 0 <= num -> tag_of num t = num * 8 + wire t.
Proof. exact tag_of_add. Qed.
Print Assumptions c11_tag_layout.

(* round trip into a fresh object; pointers to empty encodings come back null (norm) *)
Theorem c11_roundtrip : forall nd t v, ty_ok t -> wf t v -> is_ld t = true ->
  parse nd false t (encode t v) = Ok (norm t v) (S0 []).
Proof. exact roundtrip_ld. Qed.
Print Assumptions c11_roundtrip.

(* scalars (and non-null pointers to them) delimit themselves: whatever follows is left untouched *)
Theorem c11_roundtrip_scalar : forall nd t v post, ty_ok t -> wf t v -> is_ld t = false ->
  nonnull t v -> parse nd false t (encode t v ++ post) = Ok (norm t v) (S0 post).
Proof. exact roundtrip_nld. Qed.
Print Assumptions c11_roundtrip_scalar.

(* a non-null smart pointer to a scalar / non-empty string at top level of a stream WITHOUT any limit comes back
   (the allocation guard of unique_ptr.h / shared_ptr.h is regenerated: "a byte is readable") *)
Theorem c11_roundtrip_unlimited_scalar_ptr : forall nd sh k z, in_range k z ->
  parse nd true (TPtr sh (TS k)) (encode (TPtr sh (TS k)) (VSome (VInt z))) = Ok (VSome (VInt z)) (mkS [] None).
Proof. exact roundtrip_unlimited_scalar_ptr. Qed.
Print Assumptions c11_roundtrip_unlimited_scalar_ptr.
Theorem c11_roundtrip_unlimited_string_ptr : forall nd sh b, b <> [] ->
  parse nd true (TPtr sh TStr) (encode (TPtr sh TStr) (VSome (VStr b))) = Ok (VSome (VStr b)) (mkS [] None).
Proof. exact roundtrip_unlimited_string_ptr. Qed.
Print Assumptions c11_roundtrip_unlimited_string_ptr.

(* hash containers: whatever order the container iterates in, the entries come back (in that order) *)
Theorem c11_roundtrip_set_any_order : forall nd e l l', ty_ok (TSet e) -> wf (TSet e) (VSeq l) -> Permutation l l' ->
  parse nd false (TSet e) (encode (TSet e) (VSeq l')) = Ok (VSeq (map (norm e) l')) (S0 []) /\
  Permutation (map (norm e) l) (map (norm e) l').
Proof. exact roundtrip_set_any_order. Qed.
Print Assumptions c11_roundtrip_set_any_order.

Theorem c11_roundtrip_map_any_order : forall nd k w l l', ty_ok (TMap k w) -> wf (TMap k w) (VSeq l) -> Permutation l l' ->
  parse nd false (TMap k w) (encode (TMap k w) (VSeq l')) = Ok (norm (TMap k w) (VSeq l')) (S0 []) /\
  exists nl nl', norm (TMap k w) (VSeq l) = VSeq nl /\ norm (TMap k w) (VSeq l') = VSeq nl' /\ Permutation nl nl'.
Proof. exact roundtrip_map_any_order. Qed.
Print Assumptions c11_roundtrip_map_any_order.

(* ---- parsing ARBITRARY bytes: what a success returns is well shaped and stable ---- *)
Theorem c11_decoded_wellformed : forall nd t cur s v s', wfs t cur -> decode nd t s cur = Ok v s' -> wfs t v.
Proof. intros nd t cur s v s' Hc H. exact (decode_wfs nd t cur Hc s v s' H). Qed.
Print Assumptions c11_decoded_wellformed.

Theorem c11_success_stable : forall nd t bs v s', ty_ok t -> no_hash t -> is_ld t = true ->
  parse nd false t bs = Ok v s' -> ssize t v < 2 ^ 31 ->
  parse nd false t (encode t v) = Ok (norm t v) (S0 []).
Proof. exact success_stable. Qed.
Print Assumptions c11_success_stable.

Theorem c11_success_stable_scalar : forall nd k bs v s' post, parse nd false (TS k) bs = Ok v s' ->
  parse nd false (TS k) (encode (TS k) v ++ post) = Ok v (S0 post).
Proof. exact success_stable_scalar. Qed.
Print Assumptions c11_success_stable_scalar.


(* protobuf compatibility of structures declared with field numbers.  A chunk is the encoding of one known field
   (CF i x: field index i with value x, non-empty encoding) or one unknown field (CU num w payload).  Any sequence
   of chunks with distinct known fields parses, into a fresh object, to the defaults updated by those fields. *)
Theorem c11_compat : forall nd fs cs, ty_ok (TAgg fs) ->
  Forall (chunk_ok fs) cs -> NoDup (flat_map chunk_idx cs) ->
  parse nd false (TAgg fs) (concat (map (chunk_bytes fs) cs))
  = Ok (VSeq (fold_left (chunk_apply fs) cs (map (fun p => dflt (snd p)) fs))) (S0 []).
Proof. exact compat_parse. Qed.
Print Assumptions c11_compat.

Theorem c11_field_order_irrelevant : forall nd fs cs cs', ty_ok (TAgg fs) ->
  Forall (chunk_ok fs) cs -> NoDup (flat_map chunk_idx cs) -> Permutation cs cs' ->
  exists v, parse nd false (TAgg fs) (concat (map (chunk_bytes fs) cs)) = Ok v (S0 []) /\
            parse nd false (TAgg fs) (concat (map (chunk_bytes fs) cs')) = Ok v (S0 []).
Proof. exact compat_order_irrelevant. Qed.
Print Assumptions c11_field_order_irrelevant.

(* the bytes an aggregate writes, read with the protobuf wire-format specification *)
Theorem c11_proto_wire_compat : forall fs l fuel, ty_ok (TAgg fs) -> wf (TAgg fs) (VSeq l) ->
  (length (encode (TAgg fs) (VSeq l)) < fuel)%nat ->
  proto_split fuel (encode (TAgg fs) (VSeq l)) = Some (proto_fields fs l).
Proof. exact proto_wire_compat. Qed.
Print Assumptions c11_proto_wire_compat.
Example c11_proto_fields_example :
  proto_fields [(1, TS KI32); (2, TStr); (3, TVec (TS KI64)); (4, TPtr false TStr)]
               [VInt (-1); VStr [97; 98]; VSeq [VInt 1; VInt 300]; VSome (VStr [])]
  = [(1, PVarint (2 ^ 32 - 1)); (2, PLen [97; 98]); (3, PLen [1; 172; 2])].
Proof. vm_compute. reflexivity. Qed.

(* one iteration of the generated deserialize() skips an unknown field of any wire type *)
Theorem c11_unknown_field_skipped : forall nd fs num w pay rest cur fuel,
  0 <= num < 2 ^ 29 -> ~ In num (map fst fs) -> unknown_payload w pay ->
  agg_loop (tbl nd fs) (S fuel) (S0 ((varint (num * 8 + w) ++ pay) ++ rest)) cur
  = agg_loop (tbl nd fs) fuel (S0 rest) cur.
Proof. exact agg_unknown_step. Qed.
Print Assumptions c11_unknown_field_skipped.

Example c11_compat_chunks_exist :
  Forall (chunk_ok [(1, TS KI32); (2, TStr)]) [CU 15 2 (varint 2 ++ [7; 8]); CF 1 (VStr [97]); CU 9 0 (varint 300); CF 0 (VInt (-1))]
  /\ NoDup (flat_map chunk_idx [CU 15 2 (varint 2 ++ [7; 8]); CF 1 (VStr [97]); CU 9 0 (varint 300); CF 0 (VInt (-1))]).
Proof. exact compat_example. Qed.

(* ---- refutations of the full statements (findings) ---- *)
Example c11_size_exact_former_witness :
  let t := TVec (TAgg [(1, TPtr false (TS KF32))]) in
  let v := VSeq [VSeq [VNull]; VSeq [VSome (VInt 1065353216)]] in
  wf t v /\ ty_ok t /\ ssize t v = Z.of_nat (length (encode t v)) /\ ssize t v = 7.
Proof. exact se_size_exact_former_witness. Qed.

Theorem c11_roundtrip_refuted : exists t v, wf t v /\ parse false false t (encode t v) <> Ok (norm t v) (S0 []).
Proof. exact se_roundtrip_refuted_null_scalar_ptr. Qed.
Print Assumptions c11_roundtrip_refuted.

Theorem c11_any_presentation_refuted :
  parse false true (TVec (TS KI32)) (encode (TVec (TS KI32)) (VSeq [VInt 1; VInt 2; VInt 3])) = Ok (VSeq []) (mkS [1; 2; 3] None).
Proof. exact se_unlimited_refuted. Qed.
Print Assumptions c11_any_presentation_refuted.

Theorem c11_any_presentation_crash_refuted :
  parse false true (TVec (TS KF32)) (encode (TVec (TS KF32)) (VSeq [VInt 1065353216])) = Crash.
Proof. exact se_unlimited_float_crash. Qed.
Print Assumptions c11_any_presentation_crash_refuted.

(* on a stream without any limit a vector of smart pointers to scalars under a length prefix that points beyond the
   end of the stream still spins (types outside elems_ok / ty_ok) *)
Theorem c11_unlimited_scalar_ptr_vector_hang_refuted :
  parse false true (TAgg [(1, TVec (TPtr false (TS KI32)))]) [10; 5] = Hang.
Proof. exact se_unlimited_scalar_ptr_vector_hangs. Qed.
Print Assumptions c11_unlimited_scalar_ptr_vector_hang_refuted.

(* ---- hostile input: parsing terminates, inside the input ---- *)
(* any bytes, any type, flat array / string / stream under an enclosing limit, debug and NDEBUG *)
Theorem c11_parse_terminates : forall nd t bs, parse nd false t bs <> Hang.
Proof. exact parse_terminates. Qed.
Print Assumptions c11_parse_terminates.

(* any bytes on a stream without any limit, for every type whose containers do not hold smart pointers to scalars *)
Theorem c11_parse_terminates_unlimited_partial : forall nd t bs, elems_ok t -> parse nd true t bs <> Hang.
Proof. exact parse_terminates_unlimited. Qed.
Print Assumptions c11_parse_terminates_unlimited_partial.

(* every decoder only moves forward inside the window it was given and leaves the enclosing limit untouched *)
Theorem c11_decode_consumes : forall nd t s cur v s', decode nd t s cur = Ok v s' ->
  (length (win s') <= length (win s))%nat /\ ext s' = ext s.
Proof. exact decode_consumes. Qed.
Print Assumptions c11_decode_consumes.

Example c11_elems_ok_of_ty_ok : forall t, ty_ok t -> elems_ok t.
Proof. exact ty_ok_elems_ok. Qed.
(* the former witness of non-termination is a parse failure since e367940 *)
Example c11_overlong_length_prefix_fails : parse false false (TVec TStr) (repeat 128 11) = Fail.
Proof. exact se_overlong_length_fails. Qed.

(* ---- non-vacuity and the aggregate behaviours on a concrete schema ---- *)
Example c11_hypotheses_satisfiable : wf ex_ty ex_val /\ ty_ok ex_ty /\ is_ld ex_ty = true.
Proof. exact wf_example. Qed.
Example c11_hash_hypotheses_satisfiable : wf ex_hash_ty ex_hash_val /\ ty_ok ex_hash_ty.
Proof. exact wf_hash_example. Qed.
Example c11_aggregate_roundtrip : parse false false ex_ty (encode ex_ty ex_val) = Ok (norm ex_ty ex_val) (S0 []).
Proof. exact ex_roundtrip. Qed.
Example c11_unknown_skipped_any_order :
  parse false false ex_ty ([104; 5] ++ [26; 3; 1; 172; 2] ++ [113; 1; 2; 3; 4; 5; 6; 7; 8] ++ [18; 2; 97; 98] ++
                           [122; 2; 9; 9] ++ [8; 255; 255; 255; 255; 15] ++ [133; 1; 1; 2; 3; 4])
  = Ok (norm ex_ty ex_val) (S0 []).
Proof. exact ex_unknown_and_order. Qed.
Example c11_absent_keep_defaults :
  parse false false ex_ty [18; 2; 97; 98] = Ok (VSeq [VInt 0; VStr [97; 98]; VSeq []; VNull]) (S0 []).
Proof. exact ex_absent_keep_defaults. Qed.
