(* Proofs about GC/GCModel.v (C10).  Statements are fixed by Properties_C10.v. *)
From Coq Require Import ZArith List Bool Arith Lia PeanoNat Sorted.
Require Import Verif.Gen.Gen_epoch Verif.Gen.Gen_bounded_queue Verif.Gen.Gen_garbage_collector.
Require Import Verif.Conc.Machine Verif.GC.GCModel.
Import ListNotations.
Local Open Scope Z_scope.
Local Arguments Z.add : simpl never.
Local Arguments Z.sub : simpl never.
Local Arguments Z.of_nat : simpl never.
Local Arguments Z.to_nat : simpl never.
Local Arguments Nat.pow : simpl never.

(* ---- vocabulary used by the statements ---- *)
Definition Reach (kc : bool -> nat -> nat -> bool) (bits : nat) (progs : list (list op)) (s : st) : Prop :=
  reachable st (gstep kc) (init bits progs) s.

Definition single_stop (progs : list (list op)) : Prop :=
  forall t1 p1 i1 t2 p2 i2, nth_error progs t1 = Some p1 -> nth_error p1 i1 = Some OStop ->
                            nth_error progs t2 = Some p2 -> nth_error p2 i2 = Some OStop -> t1 = t2 /\ i1 = i2.

(* stop() has returned => every task queued in front of its marker - and not behind an earlier marker - has been called *)
Definition no_marker_before (s : st) (n : nat) : Prop :=
  forall j y, (j < n)%nat -> nth_error (qall s) j = Some (Some y) -> is_marker y = false.
Definition stop_complete (s : st) : Prop :=
  forall t th k n, nth_error (threads s) t = Some th -> In (RStop true k n) (results th) ->
  forall j x, (j < k)%nat -> nth_error (qall s) j = Some (Some x) -> no_marker_before s (S j) -> In x (map fst (calls s)).

Definition no_regions (progs : list (list op)) : Prop := forall p, In p progs -> ~ In OLock p.

(* ---- the generated formulas, restated (each proof breaks if the C++ expression changes) ---- *)
Lemma tick_mono : 0 <= tick_inc.                                   Proof. unfold tick_inc; lia. Qed.
Lemma tick_fresh : forall g, g < retire_epoch (tick_ret + g).
Proof. intro g. unfold retire_epoch, tick_ret. lia. Qed.
Lemma tick_bound : forall g, retire_epoch (tick_ret + g) <= g + tick_inc.
Proof. intro g. unfold retire_epoch, tick_ret, tick_inc. lia. Qed.
Lemma retire_push_id : forall e, retire_push_epoch e = e.          Proof. reflexivity. Qed.
Lemma lock_first_spec : forall n, lock_first (n + lock_inc) = true -> n = 0.
Proof. intro n. unfold lock_first, lock_inc. rewrite Z.eqb_eq. lia. Qed.
Lemma lock_published_spec : forall v, lock_published v = v.        Proof. reflexivity. Qed.
Lemma lwm_step_le : forall m v, (if lwm_update m v then lwm_assign v else m) <= m /\ (if lwm_update m v then lwm_assign v else m) <= v.
Proof. intros m v. unfold lwm_update, lwm_assign. destruct (Z.gtb_spec m v); lia. Qed.
Lemma lwm_ret_spec : forall m, lwm_ret m = m.                      Proof. reflexivity. Qed.
(* reclaim_start_from samples low_water_mark() itself, on every call; keep_reclaim passes only (index, tasks) *)
Lemma lwm_sample_spec : forall m, lwm_sample m = m.                Proof. reflexivity. Qed.
Lemma reclaim_from_spec : forall i, reclaim_from i = i.            Proof. reflexivity. Qed.
Lemma not_yet_spec : forall e l, not_yet_reclaimable e l = false -> e <= l.
Proof. intros e l. unfold not_yet_reclaimable. destruct (Z.gtb_spec e l); [discriminate | lia]. Qed.
Lemma need_consume_spec : forall i n, need_consume (Z.of_nat i) (Z.of_nat n) = true -> i = n.
Proof. intros i n. unfold need_consume. rewrite Z.eqb_eq. lia. Qed.
Lemma reclaim_more_spec : forall i n, reclaim_more (Z.of_nat i) (Z.of_nat n) = Nat.ltb i n.
Proof. intros i n. unfold reclaim_more. destruct (Nat.ltb_spec i n); [apply Z.ltb_lt | apply Z.ltb_ge]; lia. Qed.
Lemma index_advance_spec : forall r, Z.to_nat (index_advance (Z.of_nat r)) = r.
Proof. intro r. unfold index_advance. apply Nat2Z.id. Qed.
Lemma index_consts : Z.to_nat index_init = O /\ Z.to_nat index_after_consume = O.  Proof. split; reflexivity. Qed.
Lemma running_consts : running_init = true /\ consume_running_init = true /\ running_after_marker = false.
Proof. repeat split; reflexivity. Qed.
Lemma is_marker_spec : forall x, is_marker x = Z.eqb (tk_epoch x) STOP_EPOCH.
Proof. intro x. unfold is_marker, is_stop_marker, STOP_EPOCH. destruct (Z.eqb (tk_epoch x) 18446744073709551615); reflexivity. Qed.

(* ---- lists ---- *)
Lemma nth_set_same : forall A (l : list A) t x y, nth_error l t = Some y -> nth_error (set_nth t x l) t = Some x.
Proof. induction l as [|a l IH]; intros [|t] x y H; cbn in *; try discriminate; eauto. Qed.
Lemma nth_set_other : forall A (l : list A) t t' x, t' <> t -> nth_error (set_nth t x l) t' = nth_error l t'.
Proof. induction l as [|a l IH]; intros [|t] [|t'] x H; cbn in *; try reflexivity; try congruence. apply IH. congruence. Qed.
Lemma set_nth_length : forall A (l : list A) t x, length (set_nth t x l) = length l.
Proof. induction l as [|a l IH]; intros [|t] x; cbn; auto. Qed.
Lemma In_set_nth : forall A (l : list A) t x y, In y (set_nth t x l) -> y = x \/ In y l.
Proof. induction l as [|a l IH]; intros [|t] x y H; cbn in *; try tauto; destruct H as [H|H]; auto. apply IH in H. tauto. Qed.
Lemma In_skipn : forall A n (l : list A) x, In x (skipn n l) -> In x l.
Proof. induction n as [|n IH]; intros [|a l] x H; cbn in *; auto. Qed.
Lemma In_firstn : forall A n (l : list A) x, In x (firstn n l) -> In x l.
Proof. induction n as [|n IH]; intros [|a l] x H; cbn in *; try tauto. destruct H; auto. Qed.
Lemma nth_error_lookup : forall A (l : list A) t t' x, 
  nth_error (set_nth t x l) t' = if Nat.eqb t' t then (match nth_error l t with Some _ => Some x | None => None end) else nth_error l t'.
Proof.
  intros. destruct (Nat.eqb_spec t' t) as [->|N]; [|apply nth_set_other; assumption].
  destruct (nth_error l t) eqn:E; [eapply nth_set_same; eauto|].
  apply nth_error_None. rewrite set_nth_length. apply nth_error_None. assumption.
Qed.

(* ---- case analysis of one step ---- *)
Ltac split_ifs H :=
  repeat match type of H with
  | context [if ?c then _ else _] => destruct c eqn:?
  | context [match nth_error ?l ?i with _ => _ end] => destruct (nth_error l i) eqn:?
  end.

Ltac step_cases H :=
  unfold gstep in H;
  match type of H with context [nth_error (threads ?s) ?t] =>
    let th := fresh "th" in let Hth := fresh "Hth" in
    destruct (nth_error (threads s) t) as [th|] eqn:Hth;
    [ unfold step_thread in H;
      let Hpc := fresh "Hpc" in let Hop := fresh "Hop" in
      destruct (tpc th) eqn:Hpc;
      [ let o := fresh "o" in destruct (nth_error (prog th) (opi th)) as [o|] eqn:Hop; [destruct o|] | .. ];
      cbv zeta in H; split_ifs H; try discriminate H; 
      try (match type of H with context [match cp (col s) with _ => _ end] => destruct (cp (col s)) eqn:Hcp; try discriminate H end);
      injection H as <-
    | destruct (Nat.eqb t (length (threads s))) eqn:?; [|discriminate H];
      unfold step_coll in H; cbv zeta in H;
      let Hcp := fresh "Hcp" in destruct (cp (col s)) eqn:Hcp; split_ifs H; try discriminate H; injection H as <- ]
  end.


(* ---- consume_reclaim_task ---- *)
Definition got (s : st) : list task :=
  pub_prefix (Z.to_nat (consume_num (batch_of (Z.of_nat (cap s))))) (skipn (qhead s) (qall s)).

Lemma chunk_cb_spec : forall l r k r' d, chunk_cb l r = (k, r', d) ->
  l = k ++ d /\ Forall (fun x => is_marker x = false) k /\
  ((d = [] /\ r' = r) \/ (exists m d', d = m :: d' /\ is_marker m = true /\ r' = running_after_marker)).
Proof.
  induction l as [|x l IH]; intros r k r' d H; cbn in H.
  - injection H as <- <- <-. repeat split; auto.
  - destruct (is_marker x) eqn:M.
    + injection H as <- <- <-. repeat split; auto. right. eauto.
    + destruct (chunk_cb l r) as [[k0 r0] d0] eqn:E. injection H as <- <- <-.
      destruct (IH _ _ _ _ E) as (-> & F & D). repeat split; auto.
Qed.

Lemma consume_spec : forall s c, exists k1 d1 k2 d2 r1 r2 n1,
  consume s c = with_consumed s (qhead s + length (got s))%nat
     {| cp := CScan 0 lwm_init; crunning := r2; cindex := Z.to_nat index_after_consume; ctasks := k1 ++ k2; joinable := joinable c |}
     (gone s ++ d1 ++ d2) /\
  chunk_cb (firstn n1 (got s)) consume_running_init = (k1, r1, d1) /\ chunk_cb (skipn n1 (got s)) r1 = (k2, r2, d2).
Proof.
  intros s c. unfold consume. fold (got s).
  set (n1 := first_chunk_len s _ _).
  destruct (chunk_cb (firstn n1 (got s)) consume_running_init) as [[k1 r1] d1] eqn:E1.
  destruct (chunk_cb (skipn n1 (got s)) r1) as [[k2 r2] d2] eqn:E2.
  exists k1, d1, k2, d2, r1, r2, n1. auto.
Qed.

Lemma pub_prefix_nth : forall n l i x, nth_error (pub_prefix n l) i = Some x -> nth_error l i = Some (Some x).
Proof.
  induction n as [|n IH]; intros l i x H; [destruct i; discriminate|].
  destruct l as [|[y|] l]; cbn in H; try (destruct i; discriminate).
  destruct i; cbn in *; [congruence | auto].
Qed.
Lemma pub_prefix_in : forall n l x, In x (pub_prefix n l) -> In (Some x) l.
Proof. intros n l x H. apply In_nth_error in H as [i H]. apply pub_prefix_nth in H. eapply nth_error_In; eauto. Qed.
Lemma got_in : forall s x, In x (got s) -> In (Some x) (qall s).
Proof. intros s x H. apply pub_prefix_in in H. eapply In_skipn; eauto. Qed.

(* ---- never early: invariant ---- *)
Definition slot_le (a b : slot) : Prop :=
  (sgen a < sgen b)%nat \/ (sgen b = sgen a /\ (sopen a = true -> sopen b = true /\ ver b = ver a)).
Definition slots_rel (l l' : list slot) : Prop :=
  forall a sl, nth_error l a = Some sl -> exists sl', nth_error l' a = Some sl' /\ slot_le sl sl'.

Lemma slot_le_refl : forall a, slot_le a a.  Proof. intro a. right. auto. Qed.
Lemma slots_rel_refl : forall l, slots_rel l l.  Proof. intros l a sl H. eauto using slot_le_refl. Qed.
Lemma slots_rel_set : forall l t sl sl', nth_error l t = Some sl -> slot_le sl sl' -> slots_rel l (set_nth t sl' l).
Proof.
  intros l t sl sl' H L a x Ha. destruct (Nat.eq_dec a t) as [->|N].
  - exists sl'. split; [eapply nth_set_same; eauto | congruence].
  - exists x. rewrite nth_set_other by assumption. auto using slot_le_refl.
Qed.

Definition ok_eb (sl : list slot) (e : Z) (blk : list (nat * nat)) : Prop :=
  forall a g, In (a, g) blk -> exists x, nth_error sl a = Some x /\
    ((g < sgen x)%nat \/ (g = sgen x /\ sopen x = true /\ ver x < e)).

Lemma ok_eb_rel : forall l l' e blk, slots_rel l l' -> ok_eb l e blk -> ok_eb l' e blk.
Proof.
  intros l l' e blk R H a g I. destruct (H a g I) as (x & Hx & C). destruct (R a x Hx) as (x' & Hx' & L).
  exists x'. split; [assumption|]. destruct C as [C|(-> & O & V)]; destruct L as [L|(L1 & L2)]; try (left; lia).
  right. destruct (L2 O) as (O' & V'). rewrite V'. auto.
Qed.

Definition blk_open_l (l : list slot) (b : nat * nat) : bool :=
  match nth_error l (fst b) with Some sl => sopen sl && Nat.eqb (sgen sl) (snd b) | None => false end.
Lemma blk_open_eq : forall s b, blk_open s b = blk_open_l (slots s) b.  Proof. reflexivity. Qed.

Lemma blk_open_rel : forall l l' e blk b, slots_rel l l' -> ok_eb l e blk -> In b blk -> blk_open_l l' b = true -> blk_open_l l b = true.
Proof.
  intros l l' e blk [a g] R H I O. destruct (H a g I) as (x & Hx & C). destruct (R a x Hx) as (x' & Hx' & L).
  unfold blk_open_l in *. cbn [fst snd] in *. rewrite Hx' in O. rewrite Hx.
  apply andb_true_iff in O as [O1 O2]. apply Nat.eqb_eq in O2.
  destruct C as [C|(-> & C & _)]; destruct L as [L|(L1 & L2)]; try lia.
  rewrite C, Nat.eqb_refl. reflexivity.
Qed.

Lemma ok_eb_open_lt : forall l e blk b, ok_eb l e blk -> In b blk -> blk_open_l l b = true ->
  exists x, nth_error l (fst b) = Some x /\ ver x < e.
Proof.
  intros l e blk [a g] H I O. destruct (H a g I) as (x & Hx & C). exists x. split; [assumption|].
  unfold blk_open_l in O. cbn [fst snd] in *. rewrite Hx in O. apply andb_true_iff in O as [O1 O2]. apply Nat.eqb_eq in O2.
  destruct C as [C|(_ & _ & C)]; [lia | assumption].
Qed.

Definition ok_pc (l : list slot) (p : pc) : Prop :=
  match p with PTicket e blk => ok_eb l e blk | PPublish x _ => ok_eb l (tk_epoch x) (tk_blk x) | _ => True end.

Record InvA (s : st) : Prop := {
  a_len : length (slots s) = length (threads s);
  a_n0 : forall t th sl, nth_error (threads s) t = Some th -> nth_error (slots s) t = Some sl ->
           (forall v, tpc th = PLockStore v -> sopen sl = false /\ v <= gver s /\ 1 <= lt sl) /\ (sopen sl = true -> 1 <= lt sl);
  a_n1 : forall sl, In sl (slots s) -> sopen sl = true -> ver sl <= gver s;
  a_e1 : forall t th, nth_error (threads s) t = Some th -> ok_pc (slots s) (tpc th);
  a_e2 : forall x, In (Some x) (qall s) -> ok_eb (slots s) (tk_epoch x) (tk_blk x);
  a_c1 : forall x, In x (ctasks (col s)) -> In (Some x) (qall s);
  a_q2 : forall t th x b, nth_error (threads s) t = Some th -> tpc th = PPublish x b -> nth_error (qall s) (tk_ticket x) = Some None;
  a_q2' : forall t1 t2 th1 th2 x1 x2 b1 b2, nth_error (threads s) t1 = Some th1 -> nth_error (threads s) t2 = Some th2 ->
            tpc th1 = PPublish x1 b1 -> tpc th2 = PPublish x2 b2 -> tk_ticket x1 = tk_ticket x2 -> t1 = t2;
  a_s1 : forall i m, cp (col s) = CScan i m -> forall x, In x (ctasks (col s)) -> forall b, In b (tk_blk x) ->
            (fst b < i)%nat -> blk_open s b = true -> m < tk_epoch x;
  a_s2 : forall lwm r, cp (col s) = CReclaim lwm r -> forall x, In x (ctasks (col s)) -> forall b, In b (tk_blk x) ->
            blk_open s b = true -> lwm < tk_epoch x;
  a_early : early s = false }.

Lemma open_from_spec : forall l i a g, In (a, g) (open_from i l) ->
  exists sl, nth_error l (a - i) = Some sl /\ (i <= a)%nat /\ sopen sl = true /\ sgen sl = g.
Proof.
  induction l as [|x l IH]; intros i a g H; cbn in H; [contradiction|].
  destruct (sopen x) eqn:O.
  - destruct H as [H|H].
    + injection H as <- <-. exists x. rewrite Nat.sub_diag. auto.
    + destruct (IH _ _ _ H) as (sl & N & L & R1 & R2). exists sl. replace (a - i)%nat with (S (a - S i)) by lia. cbn. repeat split; auto; lia.
  - destruct (IH _ _ _ H) as (sl & N & L & R1 & R2). exists sl. replace (a - i)%nat with (S (a - S i)) by lia. cbn. repeat split; auto; lia.
Qed.

Ltac simp := cbn [gver slots qall qhead qbits col calls early gone threads upd_thread with_gver with_slots with_qall with_col
                   with_consumed with_call with_restart take_ticket cp crunning cindex ctasks joinable set_cp
                   tpc prog opi results goto finish_op ver lt sopen sgen fst snd] in *.
Ltac use_consume s :=
  let k1 := fresh "k1" in let d1 := fresh "d1" in let k2 := fresh "k2" in let d2 := fresh "d2" in
  let r1 := fresh "r1" in let r2 := fresh "r2" in let n1 := fresh "n1" in
  let Hc := fresh "Hc" in let E1 := fresh "E1" in let E2 := fresh "E2" in
  destruct (consume_spec s (col s)) as (k1 & d1 & k2 & d2 & r1 & r2 & n1 & Hc & E1 & E2); rewrite Hc in *; clear Hc.
(* the thread that moved / another thread, after upd_thread *)
Ltac thread_lookup H t2 t :=
  rewrite nth_error_lookup in H; destruct (Nat.eqb_spec t2 t) as [->|?].

Section Proofs.
Variable kc : bool -> nat -> nat -> bool.

Lemma invA_init : forall bits progs, InvA (init bits progs).
Proof.
  intros bits progs. constructor; cbn; try (intros; contradiction || discriminate); try reflexivity.
  - rewrite !map_length. reflexivity.
  - intros t th sl H1 H2. apply nth_error_In in H1, H2. apply in_map_iff in H1 as (p & <- & _). apply in_map_iff in H2 as (q & <- & _).
    cbn. split; [intros v H; discriminate | intro H; discriminate].
  - intros sl H. apply in_map_iff in H as (p & <- & _). cbn. discriminate.
  - intros t th H. apply nth_error_In in H. apply in_map_iff in H as (p & <- & _). exact I.
  - intros t th x b H E. apply nth_error_In in H. apply in_map_iff in H as (p & <- & _). discriminate.
  - intros t1 t2 th1 th2 x1 x2 b1 b2 H _ E. apply nth_error_In in H. apply in_map_iff in H as (p & <- & _). discriminate.
Qed.

Lemma stepA_len : forall s t s', InvA s -> gstep kc s t = Some s' -> length (slots s') = length (threads s').
Proof.
  intros s t s' I H. pose proof (a_len _ I). step_cases H; try use_consume s; simp; rewrite ?set_nth_length; assumption.
Qed.

Lemma stepA_n1 : forall s t s', InvA s -> gstep kc s t = Some s' -> forall sl, In sl (slots s') -> sopen sl = true -> ver sl <= gver s'.
Proof.
  intros s t s' I H. pose proof (a_n1 _ I) as N1. pose proof tick_mono.
  step_cases H; try use_consume s; simp; try exact N1; intros sl Hi Ho;
    try (apply In_set_nth in Hi as [->|Hi]; simp; [|auto]); try (specialize (N1 _ Hi Ho); lia).
  all: try discriminate.
  all: try (apply N1; [eapply nth_error_In; eauto | assumption]).
  all: match goal with Hs : nth_error (slots _) _ = Some _ |- _ => destruct (a_n0 _ I _ _ _ Hth Hs) as [P _]; destruct (P _ Hpc) as (_ & Q & _); rewrite lock_published_spec; exact Q end.
Qed.

Lemma stepA_n0 : forall s t s', InvA s -> gstep kc s t = Some s' ->
  forall t2 th2 sl2, nth_error (threads s') t2 = Some th2 -> nth_error (slots s') t2 = Some sl2 ->
    (forall v, tpc th2 = PLockStore v -> sopen sl2 = false /\ v <= gver s' /\ 1 <= lt sl2) /\ (sopen sl2 = true -> 1 <= lt sl2).
Proof.
  intros s t s' I H t2 th2 sl2 H1 H2. pose proof tick_mono.
  step_cases H; try use_consume s; simp.
  all: try (exact (a_n0 _ I _ _ _ H1 H2)).
  all: revert H1 H2; rewrite ?nth_error_lookup; destruct (Nat.eqb_spec t2 t) as [->|N]; intros H1 H2;
    [ rewrite ?Hth in H1; injection H1 as <-; simp
    | destruct (a_n0 _ I _ _ _ H1 H2) as [P Q]; split; [intros v9 Hv; destruct (P v9 Hv) as (? & ? & ?); repeat split; [auto|lia|auto] | exact Q] ].
  all: repeat match goal with Hs : nth_error (slots _) _ = Some _, H2 : match nth_error (slots _) _ with _ => _ end = Some _ |- _ =>
                rewrite Hs in H2; injection H2 as <-; simp end.
  all: try (split; [intros v9 Hv; discriminate Hv|]).
  all: try (match goal with Hs : nth_error (slots _) _ = Some _ |- _ => destruct (a_n0 _ I _ _ _ Hth Hs) as [P Q] end).
  all: try (match goal with H2 : nth_error (slots _) _ = Some _ |- _ => destruct (a_n0 _ I _ _ _ Hth H2) as [P Q] end).
  all: try exact Q.
  - apply lock_first_spec in Heqb. assert (sopen s0 = false) by (destruct (sopen s0); [specialize (Q eq_refl); lia | reflexivity]).
    split; [intros v9 Hv; injection Hv as <-; repeat split; [assumption | lia | unfold lock_inc; lia] | intro; congruence].
  - intro O. specialize (Q O). unfold lock_inc. lia.
  - intro; discriminate.
  - intro O. specialize (Q O). unfold unlock_last in *. unfold unlock_dec. destruct (Z.eqb_spec (lt s0) 1); [discriminate | lia].
  - intros _. destruct (P _ Hpc) as (_ & _ & L). exact L.
Qed.

Lemma stepA_slots_rel : forall s t s', InvA s -> gstep kc s t = Some s' -> slots_rel (slots s) (slots s').
Proof.
  intros s t s' I H. step_cases H; try use_consume s; simp; try apply slots_rel_refl.
  all: eapply slots_rel_set; [eassumption|]; unfold slot_le; simp; try (right; split; [reflexivity|tauto]); try (left; lia).
  match goal with Hs : nth_error (slots _) _ = Some _ |- _ => destruct (a_n0 _ I _ _ _ Hth Hs) as [P _]; destruct (P _ Hpc) as (O & _) end.
  right. split; [reflexivity|]. intro. congruence.
Qed.

Lemma In_set_none : forall A (l : list (option A)) k x y, nth_error l k = Some None -> In (Some x) l -> In (Some x) (set_nth k (Some y) l).
Proof.
  intros A l k x y N I. apply In_nth_error in I as [j J]. assert (j <> k) by congruence.
  eapply nth_error_In. rewrite nth_set_other; eauto.
Qed.
Lemma In_app_none : forall A (l : list (option A)) x, In (Some x) (l ++ [None]) -> In (Some x) l.
Proof. intros A l x H. apply in_app_or in H as [H|[H|[]]]; [assumption | discriminate]. Qed.

Lemma stepA_e2 : forall s t s', InvA s -> gstep kc s t = Some s' -> forall x, In (Some x) (qall s') -> ok_eb (slots s') (tk_epoch x) (tk_blk x).
Proof.
  intros s t s' I H x Hx. pose proof (stepA_slots_rel _ _ _ I H) as R. pose proof (a_e2 _ I) as E2.
  step_cases H; try use_consume s; simp; try (eapply ok_eb_rel; [exact R|]; apply E2; assumption).
  1,2: eapply ok_eb_rel; [exact R|]; apply E2; apply In_app_none; assumption.
  all: apply In_set_nth in Hx as [Hx|Hx]; [injection Hx as ->; pose proof (a_e1 _ I _ _ Hth) as E; rewrite Hpc in E; exact E | apply E2; assumption].
Qed.

Lemma stepA_e1 : forall s t s', InvA s -> gstep kc s t = Some s' -> forall t2 th2, nth_error (threads s') t2 = Some th2 -> ok_pc (slots s') (tpc th2).
Proof.
  intros s t s' I H t2 th2 H1. pose proof (stepA_slots_rel _ _ _ I H) as R. pose proof (a_e1 _ I) as E1.
  assert (F : forall th, ok_pc (slots s) (tpc th) -> ok_pc (slots s') (tpc th)).
  { intros th0 O. destruct (tpc th0); cbn in *; auto; eapply ok_eb_rel; eauto. }
  step_cases H; try use_consume s; simp; try (apply F; eapply E1; eassumption).
  all: revert H1; rewrite nth_error_lookup; destruct (Nat.eqb_spec t2 t) as [->|N]; intros H1;
    [ rewrite ?Hth in H1; injection H1 as <-; simp; try exact Logic.I | apply (F th2); eapply E1; eassumption ].
  all: try (cbn; exact Logic.I).
  all: try (destruct stop; cbn; exact Logic.I).
  - (* tick *) cbn [ok_pc]. intros a g Hin. apply open_from_spec in Hin as (sl & N & _ & O & G). rewrite Nat.sub_0_r in N.
    exists sl. split; [assumption|]. right. repeat split; auto.
    pose proof (a_n1 _ I sl (nth_error_In _ _ N) O). pose proof (tick_fresh (gver s)). lia.
  - (* stop marker *) cbn [ok_pc stop_task tk_blk]. intros a g [].
  - (* ticket *) cbn [ok_pc tk_epoch tk_blk]. rewrite retire_push_id. pose proof (E1 _ _ Hth) as E. rewrite Hpc in E. exact E.
Qed.

Lemma nth_app_none : forall A (l : list (option A)) k, nth_error l k = Some None -> nth_error (l ++ [None]) k = Some None.
Proof. intros A l k H. rewrite nth_error_app1; [assumption|]. apply nth_error_Some. congruence. Qed.
Lemma nth_app_last : forall A (l : list (option A)), nth_error (l ++ [None]) (length l) = Some None.
Proof. intros A l. rewrite nth_error_app2 by lia. rewrite Nat.sub_diag. reflexivity. Qed.

Lemma stepA_q2 : forall s t s', InvA s -> gstep kc s t = Some s' ->
  (forall t2 th2 x b, nth_error (threads s') t2 = Some th2 -> tpc th2 = PPublish x b -> nth_error (qall s') (tk_ticket x) = Some None) /\
  (forall t1 t2 th1 th2 x1 x2 b1 b2, nth_error (threads s') t1 = Some th1 -> nth_error (threads s') t2 = Some th2 ->
            tpc th1 = PPublish x1 b1 -> tpc th2 = PPublish x2 b2 -> tk_ticket x1 = tk_ticket x2 -> t1 = t2).
Proof.
  intros s t s' I H. pose proof (a_q2 _ I) as Q2. pose proof (a_q2' _ I) as Q2'.
  assert (LT : forall t2 th2 x b, nth_error (threads s) t2 = Some th2 -> tpc th2 = PPublish x b -> (tk_ticket x < length (qall s))%nat).
  { intros. apply nth_error_Some. erewrite Q2; eauto. discriminate. }
  step_cases H; try use_consume s; simp; try (split; assumption).
  all: split; [ intros t2 th2 x9 b9 H1 E; revert H1; rewrite nth_error_lookup; destruct (Nat.eqb_spec t2 t) as [->|N]; intros H1;
                [ rewrite ?Hth in H1; injection H1 as <-; simp; try discriminate E | ]
              | intros t1 t2 th1 th2 x1 x2 b1 b2 H1 H2 E1 E2 ET; revert H1 H2; rewrite !nth_error_lookup;
                destruct (Nat.eqb_spec t1 t) as [->|N1]; destruct (Nat.eqb_spec t2 t) as [->|N2]; intros H1 H2; try reflexivity;
                rewrite ?Hth in *; try (injection H1 as <-); try (injection H2 as <-); simp; try discriminate; try (eapply Q2'; eassumption) ].
  all: try (eapply Q2; eassumption).
  all: try (apply nth_app_none; eapply Q2; eassumption).
  all: try (injection E as <- <-; cbn [tk_ticket stop_task]; apply nth_app_last).
  all: try (injection E1 as <- <-; cbn [tk_ticket stop_task] in ET; specialize (LT _ _ _ _ H2 E2); lia).
  all: try (injection E2 as <- <-; cbn [tk_ticket stop_task] in ET; specialize (LT _ _ _ _ H1 E1); lia).
  all: try (destruct stop; simp; discriminate).
  all: try (rewrite nth_set_other; [eapply Q2; eassumption|]; intro EQ; apply N; symmetry; eapply (Q2' _ _ _ _ _ _ _ _ Hth H1 Hpc E); symmetry; exact EQ).
Qed.

Lemma chunk_kept_in : forall l r k r' d x, chunk_cb l r = (k, r', d) -> In x k -> In x l.
Proof. intros l r k r' d x H I. apply chunk_cb_spec in H as (-> & _). apply in_or_app. auto. Qed.

Lemma stepA_c1 : forall s t s', InvA s -> gstep kc s t = Some s' -> forall x, In x (ctasks (col s')) -> In (Some x) (qall s').
Proof.
  intros s t s' I H x Hx. pose proof (a_c1 _ I) as C1.
  step_cases H; try use_consume s; simp; try (apply C1; assumption); try contradiction.
  1,2: apply in_or_app; left; apply C1; assumption.
  1,2: (eapply In_set_none; [eapply (a_q2 _ I); eassumption | apply C1; assumption]).
  apply got_in. apply in_app_or in Hx as [Hx|Hx]; [eapply In_firstn | eapply In_skipn]; eapply chunk_kept_in; eauto.
Qed.

Lemma scan_frame : forall s l', InvA s -> slots_rel (slots s) l' ->
  forall i m, cp (col s) = CScan i m -> forall x, In x (ctasks (col s)) -> forall b, In b (tk_blk x) ->
    (fst b < i)%nat -> blk_open_l l' b = true -> m < tk_epoch x.
Proof.
  intros s l' I R i m Hc x Hx b Hb Hi O. eapply (a_s1 _ I); eauto. rewrite blk_open_eq.
  eapply blk_open_rel; eauto. apply (a_e2 _ I). apply (a_c1 _ I). assumption.
Qed.
Lemma reclaim_frame : forall s l', InvA s -> slots_rel (slots s) l' ->
  forall lwm r, cp (col s) = CReclaim lwm r -> forall x, In x (ctasks (col s)) -> forall b, In b (tk_blk x) ->
    blk_open_l l' b = true -> lwm < tk_epoch x.
Proof.
  intros s l' I R lwm r Hc x Hx b Hb O. eapply (a_s2 _ I); eauto. rewrite blk_open_eq.
  eapply blk_open_rel; eauto. apply (a_e2 _ I). apply (a_c1 _ I). assumption.
Qed.

Lemma stepA_s1 : forall s t s', InvA s -> gstep kc s t = Some s' ->
  forall i m, cp (col s') = CScan i m -> forall x, In x (ctasks (col s')) -> forall b, In b (tk_blk x) ->
    (fst b < i)%nat -> blk_open s' b = true -> m < tk_epoch x.
Proof.
  intros s t s' I H i m Hc x Hx b Hb Hi O. pose proof (stepA_slots_rel _ _ _ I H) as R. rewrite blk_open_eq in O.
  step_cases H; try use_consume s; simp; try discriminate Hc;
    try (eapply (scan_frame s); [exact I | exact R | eassumption ..]).
  all: try (rewrite Hcp in Hc; discriminate Hc).
  all: try (injection Hc as <- <-; lia).
  (* the scan loads slot i0 *)
  all: injection Hc as <- <-; pose proof (lwm_step_le m0 (ver s0)) as L; rewrite Heqb1 in L; destruct L as [L1 L2];
    assert (Hi' : (fst b < i0)%nat \/ fst b = i0) by lia; destruct Hi' as [Hi'|Hi'];
    [ assert (m0 < tk_epoch x); [eapply (a_s1 _ I); eauto | lia]
    | assert (ver s0 < tk_epoch x); [|lia];
      destruct (ok_eb_open_lt (slots s) (tk_epoch x) (tk_blk x) b) as (y & Hy & V); auto;
      [ apply (a_e2 _ I); apply (a_c1 _ I); assumption | rewrite Hi' in Hy; congruence ] ].
Qed.

Lemma blk_open_bound : forall l b, blk_open_l l b = true -> (fst b < length l)%nat.
Proof. intros l b H. unfold blk_open_l in H. destruct (nth_error l (fst b)) eqn:E; [|discriminate]. apply nth_error_Some. congruence. Qed.

Lemma stepA_s2 : forall s t s', InvA s -> gstep kc s t = Some s' ->
  forall lwm r, cp (col s') = CReclaim lwm r -> forall x, In x (ctasks (col s')) -> forall b, In b (tk_blk x) ->
    blk_open s' b = true -> lwm < tk_epoch x.
Proof.
  intros s t s' I H lwm r Hc x Hx b Hb O. pose proof (stepA_slots_rel _ _ _ I H) as R. rewrite blk_open_eq in O.
  step_cases H; try use_consume s; simp; try discriminate Hc;
    try (eapply (reclaim_frame s); [exact I | exact R | eassumption ..]).
  all: try (rewrite Hcp in Hc; discriminate Hc).
  all: try (destruct (sleep_needed _); discriminate Hc).
  all: try ((* a reclaimer call *) injection Hc as <- <-; eapply (a_s2 _ I); eauto; fail).
  (* end of the scan *) injection Hc as <- <-. rewrite lwm_sample_spec, lwm_ret_spec. eapply (a_s1 _ I); eauto.
  apply blk_open_bound in O. apply nth_error_None in Heqo. lia.
Qed.

Lemma stepA_early : forall s t s', InvA s -> gstep kc s t = Some s' -> early s' = false.
Proof.
  intros s t s' I H. pose proof (a_early _ I) as E.
  step_cases H; try use_consume s; simp; try exact E.
  all: rewrite E; cbn [orb]; destruct (existsb (blk_open s) (tk_blk t0)) eqn:X; [exfalso | reflexivity];
    apply existsb_exists in X as (b & Hb & O);
    match goal with N : not_yet_reclaimable _ _ = false |- _ => apply not_yet_spec in N end;
    assert (lwm < tk_epoch t0); [|lia]; eapply (a_s2 _ I); eauto; eapply nth_error_In; eauto.
Qed.

Theorem invA_step : forall s t s', InvA s -> gstep kc s t = Some s' -> InvA s'.
Proof.
  intros s t s' I H. destruct (stepA_q2 _ _ _ I H). constructor;
    eauto using stepA_len, stepA_n0, stepA_n1, stepA_e1, stepA_e2, stepA_c1, stepA_s1, stepA_s2, stepA_early.
Qed.

Lemma invA_reach : forall bits progs s, Reach kc bits progs s -> InvA s.
Proof. intros bits progs s R. eapply inv_reachable; eauto using invA_init, invA_step. Qed.


(* ---- the bounded queue: a pusher is blocked exactly while its ticket is a full capacity ahead of the pop index ---- *)
Lemma publish_enabled_iff : forall s t th x b, nth_error (threads s) t = Some th -> tpc th = PPublish x b ->
  (gstep kc s t = None <-> (qhead s + cap s <= tk_ticket x)%nat).
Proof.
  intros s t th x b Hth Hpc. unfold gstep, step_thread. rewrite Hth, Hpc.
  destruct (Nat.ltb_spec (tk_ticket x) (qhead s + cap s)); split; intro; try discriminate; try lia; reflexivity.
Qed.

Definition InvB (s : st) : Prop := forall j x, nth_error (qall s) j = Some (Some x) -> (j < qhead s + cap s)%nat.

Lemma invB_init : forall bits progs, InvB (init bits progs).
Proof. intros bits progs j x H. destruct j; discriminate H. Qed.

Lemma nth_app_some : forall A (l : list (option A)) j x, nth_error (l ++ [None]) j = Some (Some x) -> nth_error l j = Some (Some x).
Proof.
  intros A l j x H. destruct (Nat.lt_ge_cases j (length l)); [rewrite nth_error_app1 in H; assumption|].
  rewrite nth_error_app2 in H by assumption. destruct (j - length l)%nat as [|[|]]; discriminate.
Qed.

Lemma invB_step : forall s t s', InvB s -> gstep kc s t = Some s' -> InvB s'.
Proof.
  intros s t s' B H j x Hj. unfold InvB in B.
  step_cases H; try use_consume s; unfold cap in *; simp; try (apply B; assumption); try (apply nth_app_some in Hj; auto).
  all: try (revert Hj; rewrite nth_error_lookup; destruct (Nat.eqb_spec j (tk_ticket x0)) as [->|]; intro Hj;
            [apply Nat.ltb_lt; assumption | apply B in Hj; assumption]; fail).
  all: specialize (B _ _ Hj); lia.
Qed.

Lemma invB_reach : forall bits progs s, Reach kc bits progs s -> InvB s.
Proof. intros bits progs s R. eapply inv_reachable; eauto using invB_init, invB_step. Qed.

(* the pop index never moves back: a pusher that has become enabled stays enabled *)
Lemma qhead_mono : forall s t s', gstep kc s t = Some s' -> (qhead s <= qhead s')%nat /\ qbits s' = qbits s.
Proof. intros s t s' H. step_cases H; try use_consume s; simp; split; try reflexivity; lia. Qed.

(* ---- at most once: calls follow ticket order ---- *)
Lemma ss_app_iff : forall (a b : list nat), StronglySorted Nat.lt (a ++ b) <->
  StronglySorted Nat.lt a /\ StronglySorted Nat.lt b /\ (forall x y, In x a -> In y b -> (x < y)%nat).
Proof.
  induction a as [|h a IH]; intro b; cbn.
  - split; [intro H; repeat split; [constructor | assumption | intros x y []] | intros (_ & H & _); assumption].
  - split.
    + intro H. inversion H as [|? ? S F]; subst. apply IH in S as (S1 & S2 & S3). rewrite Forall_app in F. destruct F as [F1 F2].
      split; [constructor; assumption|]. split; [assumption|].
      intros x y [<-|Hx] Hy; [rewrite Forall_forall in F2; apply F2; assumption | apply S3; assumption].
    + intros (S1 & S2 & S3). inversion S1 as [|? ? S F]; subst. constructor.
      * apply IH. split; [assumption|]. split; [assumption|]. intros x y Hx Hy. apply S3; [right|]; assumption.
      * apply Forall_app. split; [assumption|]. apply Forall_forall. intros y Hy. apply S3; [left; reflexivity | assumption].
Qed.

Lemma ss_seq : forall n h, StronglySorted Nat.lt (seq h n).
Proof.
  induction n as [|n IH]; intro h; cbn; constructor; [apply IH|].
  apply Forall_forall. intros x Hx. apply in_seq in Hx. lia.
Qed.

Lemma ss_nodup : forall l, StronglySorted Nat.lt l -> NoDup l.
Proof.
  induction l as [|h l IH]; intro H; constructor; inversion H as [|? ? S F]; subst; [|auto].
  intro Hin. rewrite Forall_forall in F. specialize (F _ Hin). lia.
Qed.

Definition seqt (s : st) : list nat :=
  map tk_ticket (map fst (calls s)) ++ map tk_ticket (skipn (cpos (col s)) (ctasks (col s))).

Record InvC (s : st) : Prop := {
  c_q1 : forall j x, nth_error (qall s) j = Some (Some x) -> tk_ticket x = j;
  c_q3 : (qhead s <= length (qall s))%nat /\ forall j, (j < qhead s)%nat -> exists x, nth_error (qall s) j = Some (Some x);
  c_k1 : StronglySorted Nat.lt (seqt s) /\ Forall (fun k => (k < qhead s)%nat) (seqt s);
  c_k2 : cp (col s) = CConsume -> cindex (col s) = length (ctasks (col s));
  c_c2 : forall x, In x (map fst (calls s)) -> In (Some x) (qall s) }.

Lemma invC_init : forall bits progs, InvC (init bits progs).
Proof.
  intros bits progs. constructor; cbn.
  - intros j x H. destruct j; discriminate.
  - split; [lia | intros j H; lia].
  - unfold seqt. cbn. split; constructor.
  - discriminate.
  - intros x [].
Qed.

Lemma pub_prefix_length : forall n l, (length (pub_prefix n l) <= length l)%nat.
Proof. induction n as [|n IH]; intros [|[x|] l]; cbn; try lia. specialize (IH l). lia. Qed.

Lemma pub_prefix_tickets : forall n l h,
  (forall i x, nth_error l i = Some (Some x) -> tk_ticket x = (h + i)%nat) ->
  map tk_ticket (pub_prefix n l) = seq h (length (pub_prefix n l)).
Proof.
  induction n as [|n IH]; intros l h H; [reflexivity|].
  destruct l as [|[x|] l]; cbn; try reflexivity.
  rewrite (H 0%nat x eq_refl), Nat.add_0_r. f_equal. apply IH. intros i y Hy. rewrite (H (S i) y Hy). lia.
Qed.

Lemma nth_error_skipn : forall A n (l : list A) i, nth_error (skipn n l) i = nth_error l (n + i).
Proof. induction n as [|n IH]; intros [|a l] i; cbn; try reflexivity; [destruct i; reflexivity | apply IH]. Qed.

Lemma got_tickets : forall s, InvC s -> map tk_ticket (got s) = seq (qhead s) (length (got s)).
Proof.
  intros s C. unfold got. apply pub_prefix_tickets. intros i x H. rewrite nth_error_skipn in H. exact (c_q1 _ C _ _ H).
Qed.

Lemma got_length : forall s, InvC s -> (qhead s + length (got s) <= length (qall s))%nat.
Proof.
  intros s C. unfold got. pose proof (pub_prefix_length (Z.to_nat (consume_num (batch_of (Z.of_nat (cap s))))) (skipn (qhead s) (qall s))) as L.
  rewrite skipn_length in L. destruct (c_q3 _ C). lia.
Qed.

Lemma got_published : forall s i x, nth_error (got s) i = Some x -> nth_error (qall s) (qhead s + i) = Some (Some x).
Proof. intros s i x H. unfold got in H. apply pub_prefix_nth in H. rewrite nth_error_skipn in H. exact H. Qed.

Lemma skipn_cur : forall A i (l : list A) x, nth_error l i = Some x -> skipn i l = x :: skipn (S i) l.
Proof. induction i as [|i IH]; intros [|a l] x H; cbn in *; try discriminate; [congruence | apply IH; assumption]. Qed.

Lemma kept_tickets : forall s k1 r1 d1 k2 r2 d2 n1 r0, InvC s ->
  chunk_cb (firstn n1 (got s)) r0 = (k1, r1, d1) -> chunk_cb (skipn n1 (got s)) r1 = (k2, r2, d2) ->
  StronglySorted Nat.lt (map tk_ticket (k1 ++ k2)) /\
  Forall (fun k => (qhead s <= k < qhead s + length (got s))%nat) (map tk_ticket (k1 ++ k2)).
Proof.
  intros s k1 r1 d1 k2 r2 d2 n1 r0 C E1 E2.
  apply chunk_cb_spec in E1 as (L1 & _). apply chunk_cb_spec in E2 as (L2 & _).
  pose proof (got_tickets s C) as T. pose proof (ss_seq (length (got s)) (qhead s)) as S. rewrite <- T in S.
  rewrite <- (firstn_skipn n1 (got s)), L1, L2 in S. rewrite !map_app in S.
  apply ss_app_iff in S as (Sa & Sb & Sab). apply ss_app_iff in Sa as (Sk1 & Sd1 & _). apply ss_app_iff in Sb as (Sk2 & _ & _).
  split.
  - rewrite map_app. apply ss_app_iff. repeat split; auto. intros x y Hx Hy. apply Sab; apply in_or_app; auto.
  - apply Forall_forall. intros k Hk.
    assert (In k (map tk_ticket (got s))).
    { rewrite <- (firstn_skipn n1 (got s)), L1, L2, !map_app. rewrite map_app in Hk. apply in_app_or in Hk as [Hk|Hk];
        apply in_or_app; [left | right]; apply in_or_app; left; assumption. }
    rewrite T in H. apply in_seq in H. lia.
Qed.

Lemma stepC_q1 : forall s t s', InvA s -> InvC s -> gstep kc s t = Some s' ->
  forall j x, nth_error (qall s') j = Some (Some x) -> tk_ticket x = j.
Proof.
  intros s t s' I C H j x Hj. pose proof (c_q1 _ C) as Q1.
  step_cases H; try use_consume s; simp; try (apply Q1; assumption); try (apply nth_app_some in Hj; auto).
  all: revert Hj; rewrite nth_error_lookup; destruct (Nat.eqb_spec j (tk_ticket x0)) as [->|]; intro Hj; [|auto].
  all: rewrite (a_q2 _ I _ _ _ _ Hth Hpc) in Hj; injection Hj as <-; reflexivity.
Qed.

Lemma stepC_q3 : forall s t s', InvA s -> InvC s -> gstep kc s t = Some s' ->
  (qhead s' <= length (qall s'))%nat /\ forall j, (j < qhead s')%nat -> exists x, nth_error (qall s') j = Some (Some x).
Proof.
  intros s t s' I C H. destruct (c_q3 _ C) as [L P].
  step_cases H; try use_consume s; simp; try (split; assumption).
  1,2: (rewrite app_length; split; [cbn; lia|]; intros j Hj; destruct (P j Hj) as [x Hx]; exists x; rewrite nth_error_app1; [assumption | lia]).
  1,2: (rewrite set_nth_length; split; [assumption|]; intros j Hj; destruct (P j Hj) as [y Hy]; exists y;
        rewrite nth_set_other; [assumption|]; intro; subst j; rewrite (a_q2 _ I _ _ _ _ Hth Hpc) in Hy; discriminate).
  split; [apply got_length; assumption|]. intros j Hj.
  destruct (Nat.lt_ge_cases j (qhead s)) as [Lt|Ge]; [auto|].
  destruct (nth_error (got s) (j - qhead s)) as [x|] eqn:E.
  - exists x. apply got_published in E. replace (qhead s + (j - qhead s))%nat with j in E by lia. exact E.
  - apply nth_error_None in E. lia.
Qed.

Lemma skipn_all2 : forall A (l : list A) n, (length l <= n)%nat -> skipn n l = [].
Proof. induction l as [|a l IH]; intros [|n] H; cbn in *; try reflexivity; try lia. apply IH. lia. Qed.

Lemma stepC_k : forall s t s', InvA s -> InvC s -> gstep kc s t = Some s' ->
  (StronglySorted Nat.lt (seqt s') /\ Forall (fun k => (k < qhead s')%nat) (seqt s')) /\
  (cp (col s') = CConsume -> cindex (col s') = length (ctasks (col s'))).
Proof.
  intros s t s' I C H. pose proof (c_k1 _ C) as K. pose proof (c_k2 _ C) as K2.
  destruct index_consts as [X1 X2].
  step_cases H; try use_consume s; unfold seqt, cpos in *; simp; try (split; [exact K | exact K2]).
  all: try rewrite Hcp in K.
  all: try (split; [exact K | discriminate]).
  all: try (split; [exact K | intros _; eapply need_consume_spec; eassumption]).
  all: try (rewrite Nat.add_0_r; split; [exact K | discriminate]).
  all: try (rewrite index_advance_spec; split; [exact K | discriminate]).
  all: try ((* a call *) split; [|discriminate];
            match goal with N : nth_error (ctasks (col _)) _ = Some _ |- _ => rewrite (skipn_cur _ _ _ _ N) in K end;
            rewrite !map_app; cbn [map fst]; rewrite <- app_assoc; cbn [app];
            replace (cindex (col s) + S r)%nat with (S (cindex (col s) + r)) by lia; exact K).
  - (* restart *) rewrite X1. cbn [skipn map]. rewrite app_nil_r. destruct K as [S F]. apply ss_app_iff in S as (S & _). apply Forall_app in F as (F & _).
    split; [split; assumption | discriminate].
  - (* consume *) rewrite X2. cbn [skipn]. specialize (K2 eq_refl). rewrite skipn_all2 in K by lia. cbn [map] in K. rewrite app_nil_r in K.
    destruct K as [S F]. destruct (kept_tickets _ _ _ _ _ _ _ _ _ C E1 E2) as [S' F'].
    split; [|discriminate]. rewrite Forall_forall in F, F'. split.
    + apply ss_app_iff. repeat split; auto. intros x y Hx Hy. specialize (F _ Hx). specialize (F' _ Hy). lia.
    + apply Forall_forall. intros k Hk. apply in_app_or in Hk as [Hk|Hk]; [specialize (F _ Hk) | specialize (F' _ Hk)]; lia.
Qed.

Lemma stepC_c2 : forall s t s', InvA s -> InvC s -> gstep kc s t = Some s' -> forall x, In x (map fst (calls s')) -> In (Some x) (qall s').
Proof.
  intros s t s' I C H x Hx. pose proof (c_c2 _ C) as C2.
  step_cases H; try use_consume s; simp; try (apply C2; assumption).
  1,2: apply in_or_app; left; apply C2; assumption.
  1,2: (eapply In_set_none; [eapply (a_q2 _ I); eassumption | apply C2; assumption]).
  all: rewrite map_app in Hx; apply in_app_or in Hx as [Hx|[<-|[]]]; [apply C2; assumption|]; cbn [fst];
    apply (a_c1 _ I); eapply nth_error_In; eassumption.
Qed.

Theorem invC_step : forall s t s', InvA s -> InvC s -> gstep kc s t = Some s' -> InvC s'.
Proof.
  intros s t s' I C H. destruct (stepC_k _ _ _ I C H) as [K1 K2].
  constructor; eauto using stepC_q1, stepC_q3, stepC_c2.
Qed.

Lemma invAC_reach : forall bits progs s, Reach kc bits progs s -> InvA s /\ InvC s.
Proof.
  intros bits progs s R. eapply (inv_reachable st (gstep kc) (fun s => InvA s /\ InvC s)); eauto.
  - split; [apply invA_init | apply invC_init].
  - intros s0 t s1 [I C] H. split; [eapply invA_step | eapply invC_step]; eauto.
Qed.

(* ---- nothing popped is lost; with the repaired loop nothing in front of the first marker is discarded ---- *)
Lemma pub_stable : forall s t s' j x, InvA s -> gstep kc s t = Some s' ->
  nth_error (qall s) j = Some (Some x) -> nth_error (qall s') j = Some (Some x).
Proof.
  intros s t s' j x I H Hj.
  step_cases H; try use_consume s; simp; try assumption.
  1,2: (rewrite nth_error_app1; [assumption | apply nth_error_Some; congruence]).
  all: rewrite nth_set_other; [assumption|]; intro; subst j; rewrite (a_q2 _ I _ _ _ _ Hth Hpc) in Hj; discriminate.
Qed.

Lemma pub_stable_rev : forall s t s' j x, InvA s -> InvC s -> gstep kc s t = Some s' -> (j < qhead s)%nat ->
  nth_error (qall s') j = Some (Some x) -> nth_error (qall s) j = Some (Some x).
Proof.
  intros s t s' j x I C H L Hj. destruct (proj2 (c_q3 _ C) j L) as [y Hy].
  pose proof (pub_stable _ _ _ _ _ I H Hy) as Hy'. congruence.
Qed.

Lemma calls_mono : forall s t s' x, gstep kc s t = Some s' -> In x (map fst (calls s)) -> In x (map fst (calls s')).
Proof.
  intros s t s' x H Hx. step_cases H; try use_consume s; simp; try assumption.
  all: rewrite map_app; apply in_or_app; left; assumption.
Qed.

Lemma nmb_mono : forall s t s' n, InvA s -> gstep kc s t = Some s' -> no_marker_before s' n -> no_marker_before s n.
Proof. intros s t s' n I H N j y L Hj. eapply N; eauto using pub_stable. Qed.

Definition marker_at (s : st) (m : nat) : Prop := exists y, nth_error (qall s) m = Some (Some y) /\ is_marker y = true.
Lemma marker_at_mono : forall s t s' m, InvA s -> gstep kc s t = Some s' -> marker_at s m -> marker_at s' m.
Proof. intros s t s' m I H (y & Hy & M). exists y. eauto using pub_stable. Qed.

Definition called_before (s : st) (m : nat) : Prop :=
  forall j x, (j < m)%nat -> nth_error (qall s) j = Some (Some x) -> no_marker_before s (S j) -> In x (map fst (calls s)).

Record InvD (s : st) : Prop := {
  d_g1 : forall j, (j < qhead s)%nat -> exists x, nth_error (qall s) j = Some (Some x) /\
            (In x (map fst (calls s)) \/ In x (skipn (cpos (col s)) (ctasks (col s))) \/ In x (gone s)) }.

Lemma invD_init : forall bits progs, InvD (init bits progs).
Proof. intros bits progs. constructor. cbn. intros j H. lia. Qed.

Lemma chunk_all : forall l r k r' d x, chunk_cb l r = (k, r', d) -> In x l -> In x k \/ In x d.
Proof. intros l r k r' d x H Hx. apply chunk_cb_spec in H as (-> & _). apply in_app_or in Hx. exact Hx. Qed.

Lemma stepD_g1 : forall s t s', InvA s -> InvC s -> InvD s -> gstep kc s t = Some s' ->
  forall j, (j < qhead s')%nat -> exists x, nth_error (qall s') j = Some (Some x) /\
    (In x (map fst (calls s')) \/ In x (skipn (cpos (col s')) (ctasks (col s'))) \/ In x (gone s')).
Proof.
  intros s t s' I C D H j Hj. pose proof (d_g1 _ D) as G. pose proof (c_k2 _ C) as K2.
  assert (ST : forall j x, nth_error (qall s) j = Some (Some x) -> nth_error (qall s') j = Some (Some x)) by (intros; eapply pub_stable; eauto).
  destruct index_consts as [X1 X2].
  step_cases H; try use_consume s; unfold cpos in *; simp; try (apply G; assumption).
  all: try rewrite Hcp in G.
  all: try (destruct (G j Hj) as (x9 & Hx & O); exists x9; split; [apply ST; assumption | exact O]; fail).
  all: try (rewrite ?Nat.add_0_r; apply G; assumption).
  all: try (rewrite index_advance_spec; apply G; assumption).
  all: try ((* a call *) destruct (G j Hj) as (x9 & Hx & [O|[O|O]]); exists x9; (split; [assumption|]); auto;
            [ left; rewrite map_app; apply in_or_app; auto
            | match goal with N : nth_error (ctasks (col _)) _ = Some _ |- _ => rewrite (skipn_cur _ _ _ _ N) in O end;
              destruct O as [<-|O]; [left; rewrite map_app; apply in_or_app; right; left; reflexivity
                                   | right; left; replace (cindex (col s) + S r)%nat with (S (cindex (col s) + r)) by lia; exact O] ]; fail).
  - (* restart *) destruct (G j Hj) as (x & Hx & [O|[O|O]]); exists x; (split; [assumption|]); auto.
    + right; right. apply in_or_app. right. exact O.
    + right; right. apply in_or_app. left. exact O.
  - (* consume *) specialize (K2 eq_refl). rewrite X2. cbn [skipn].
    destruct (Nat.lt_ge_cases j (qhead s)) as [Lt|Ge].
    + destruct (G j Lt) as (x & Hx & [O|[O|O]]); exists x; (split; [assumption|]); auto.
      * rewrite skipn_all2 in O by lia. destruct O.
      * right; right. apply in_or_app; auto.
    + destruct (nth_error (got s) (j - qhead s)) as [x|] eqn:E; [|apply nth_error_None in E; lia].
      exists x. split; [apply got_published in E; replace (qhead s + (j - qhead s))%nat with j in E by lia; exact E|].
      apply nth_error_In in E. rewrite <- (firstn_skipn n1 (got s)) in E. apply in_app_or in E as [E|E].
      * destruct (chunk_all _ _ _ _ _ _ E1 E) as [O|O]; [right; left; apply in_or_app; auto | right; right; apply in_or_app; right; apply in_or_app; auto].
      * destruct (chunk_all _ _ _ _ _ _ E2 E) as [O|O]; [right; left; apply in_or_app; auto | right; right; apply in_or_app; right; apply in_or_app; auto].
Qed.

Lemma invACD_reach : forall bits progs s, Reach kc bits progs s -> InvA s /\ InvC s /\ InvD s.
Proof.
  intros bits progs s R. eapply (inv_reachable st (gstep kc) (fun s => InvA s /\ InvC s /\ InvD s)); eauto.
  - split; [apply invA_init | split; [apply invC_init | apply invD_init]].
  - intros s0 t s1 (I & C & D) H. split; [eapply invA_step | split; [eapply invC_step | constructor; eapply stepD_g1]]; eauto.
Qed.

(* ---- the repaired loop: keep going while tasks are pending ---- *)
Section Fixed.
Hypothesis Hfix : forall r i n, kc r i n = r || Nat.ltb i n.

Record InvF (s : st) : Prop := {
  f_x1 : cp (col s) = CExited -> (length (ctasks (col s)) <= cindex (col s))%nat /\ crunning (col s) = false;
  f_x2 : joinable (col s) = false -> cp (col s) = CExited \/ (cp (col s) = CNotStarted /\ ctasks (col s) = []);
  f_x3 : crunning (col s) = false -> exists m, (m < qhead s)%nat /\ marker_at s m;
  f_x4 : forall x, In x (gone s) -> is_marker x = true \/ exists m, (m < tk_ticket x)%nat /\ marker_at s m;
  f_g5 : forall t th k n, nth_error (threads s) t = Some th -> In (RStop true k n) (results th) ->
           exists m, (m < qhead s)%nat /\ marker_at s m /\ called_before s m }.

Lemma invF_init : forall bits progs, InvF (init bits progs).
Proof.
  intros bits progs. destruct running_consts as (R1 & _). constructor; cbn.
  - discriminate.
  - intros _. right. auto.
  - try rewrite R1. discriminate.
  - intros x [].
  - intros t th k n H. apply nth_error_In in H. apply in_map_iff in H as (p0 & <- & _). intros [].
Qed.

Lemma chunk_marker : forall l r k r' d, chunk_cb l r = (k, r', d) -> r' = false -> r = true -> exists y, In y l /\ is_marker y = true.
Proof.
  intros l r k r' d H F T. apply chunk_cb_spec in H as (-> & _ & [(-> & ->)|(m & d' & -> & M & _)]); [congruence|].
  exists m. split; [apply in_or_app; right; left; reflexivity | assumption].
Qed.

Lemma got_in_idx : forall s y, InvC s -> In y (got s) -> (qhead s <= tk_ticket y < qhead s + length (got s))%nat /\ nth_error (qall s) (tk_ticket y) = Some (Some y).
Proof.
  intros s y C Hy. apply In_nth_error in Hy as [i Hi]. pose proof (got_published _ _ _ Hi) as P.
  pose proof (c_q1 _ C _ _ P) as T. rewrite T. split; [|assumption].
  assert (i < length (got s))%nat by (apply nth_error_Some; congruence). lia.
Qed.

Lemma discarded_behind_marker : forall s l r k r' d x, InvC s -> (forall y, In y l -> In y (got s)) ->
  StronglySorted Nat.lt (map tk_ticket l) -> chunk_cb l r = (k, r', d) -> In x d ->
  is_marker x = true \/ exists m, (m < tk_ticket x)%nat /\ marker_at s m.
Proof.
  intros s l r k r' d x C Sub S H Hx. apply chunk_cb_spec in H as (-> & _ & [(-> & _)|(m & d' & -> & M & _)]); [destruct Hx|].
  destruct Hx as [<-|Hx]; [left; assumption | right].
  rewrite map_app in S. apply ss_app_iff in S as (_ & S & _). cbn [map] in S. inversion S as [|? ? _ F]; subst.
  rewrite Forall_forall in F. exists (tk_ticket m). split; [apply F; apply in_map; assumption|].
  exists m. split; [|assumption]. apply (got_in_idx s m C). apply Sub. apply in_or_app. right. left. reflexivity.
Qed.

Lemma stepF : forall s t s', InvA s -> InvC s -> InvD s -> InvF s -> gstep kc s t = Some s' -> InvF s'.
Proof.
  intros s t s' I C D F H.
  pose proof (fun m => marker_at_mono s t s' m I H) as MM. pose proof (qhead_mono _ _ _ H) as [QM _].
  destruct running_consts as (R1 & R2 & R3). destruct index_consts as [X1 X2].
  assert (X3' : crunning (col s) = false -> exists m, (m < qhead s')%nat /\ marker_at s' m).
  { intro E. destruct (f_x3 _ F E) as (m & L & M). exists m. split; [lia | eapply MM; eauto]. }
  assert (X4' : forall x, In x (gone s) -> is_marker x = true \/ exists m, (m < tk_ticket x)%nat /\ marker_at s' m).
  { intros x Hx. destruct (f_x4 _ F x Hx) as [M|(m & L & M)]; [left; assumption | right; exists m; split; [assumption | eapply MM; eauto]]. }
  assert (G5' : forall t th k n, nth_error (threads s) t = Some th -> In (RStop true k n) (results th) ->
           exists m, (m < qhead s')%nat /\ marker_at s' m /\ called_before s' m).
  { intros t2 th2 k n H1 H2. destruct (f_g5 _ F _ _ _ _ H1 H2) as (m & L & M & CB). exists m. split; [lia|]. split; [eapply MM; eauto|].
    intros j x Lj Hj N. eapply calls_mono; eauto. unfold called_before in CB. apply (CB j x); [assumption | eapply pub_stable_rev; eauto; lia | eapply nmb_mono; eauto]. }
  pose proof (f_x1 _ F) as X1o. pose proof (f_x2 _ F) as X2o.
  constructor; revert X3' X4' G5' MM QM.
  - (* x1 *) step_cases H; try use_consume s; simp; intros; try (apply X1o; assumption); try discriminate; try congruence.
    all: try (destruct (sleep_needed _); discriminate).
    rewrite Hfix in Heqb0. apply orb_false_iff in Heqb0 as [E1 E2]. apply Nat.ltb_ge in E2. auto.
  - (* x2 *) step_cases H; try use_consume s; simp; intros; try (apply X2o; assumption); try discriminate; try congruence.
    all: try (left; reflexivity).
    all: try (try rewrite Hcp in X2o; destruct (X2o H) as [E|[E _]]; discriminate E).
    all: try (destruct (sleep_needed _); try rewrite Hcp in X2o; destruct (X2o H) as [E|[E _]]; discriminate E).
  - (* x3 *) step_cases H; try use_consume s; simp; intros X3' X4' G5' MM QM; try exact X3'; try (rewrite R1; discriminate).
    intro E. subst r2.
    assert (exists y, In y (got s) /\ is_marker y = true) as (y & Hy & My).
    { destruct r1.
      - destruct (chunk_marker _ _ _ _ _ E2 eq_refl eq_refl) as (y & Hy & My). exists y. split; [eapply In_skipn; eauto | assumption].
      - destruct (chunk_marker _ _ _ _ _ E1 eq_refl R2) as (y & Hy & My). exists y. split; [eapply In_firstn; eauto | assumption]. }
    destruct (got_in_idx s y C Hy) as [B P]. exists (tk_ticket y). split; [lia|]. exists y. auto.
  - (* x4 *) step_cases H; try use_consume s; simp; intros X3' X4' G5' MM QM; try exact X4'.
    + (* restart: nothing is pending under the repaired loop *)
      intros x Hx. apply in_app_or in Hx as [Hx|Hx]; [apply X4'; assumption|]. exfalso.
      assert (J : cp (col s) = CExited \/ (cp (col s) = CNotStarted /\ ctasks (col s) = [])) by (apply X2o; first [assumption | reflexivity]).
      destruct J as [E|[E N]]; unfold cpos in Hx; rewrite E in Hx.
      * destruct (X1o E) as [L _]. rewrite skipn_all2 in Hx by assumption. destruct Hx.
      * rewrite N in Hx. destruct (cindex (col s)); destruct Hx.
    + (* consume *)
      intros x Hx. apply in_app_or in Hx as [Hx|Hx]; [apply X4'; assumption|].
      pose proof (got_tickets s C) as T. pose proof (ss_seq (length (got s)) (qhead s)) as S. rewrite <- T in S.
      rewrite <- (firstn_skipn n1 (got s)), map_app in S. apply ss_app_iff in S as (Sa & Sb & _).
      apply in_app_or in Hx as [Hx|Hx].
      * eapply (discarded_behind_marker s); [exact C | | exact Sa | exact E1 | exact Hx]. intros y Hy. eapply In_firstn; eauto.
      * eapply (discarded_behind_marker s); [exact C | | exact Sb | exact E2 | exact Hx]. intros y Hy. eapply In_skipn; eauto.
  - (* g5 *) intros X3' X4' G5' MM QM t2 th2 k n H1 H2. revert H1 H2.
    step_cases H; try use_consume s; simp; try (apply G5'); rewrite nth_error_lookup; destruct (Nat.eqb_spec t2 t) as [->|N]; try (apply G5');
      rewrite Hth; intros H1 H2; injection H1 as <-; simp; try (eapply G5'; eassumption).
    all: try (apply in_app_or in H2 as [H2|[H2|[]]]; [eapply G5'; eassumption | try discriminate H2]).
    all: try (destruct stop; simp; try (apply in_app_or in H2 as [H2|[H2|[]]]; [|discriminate H2]); eapply G5'; eassumption).
    (* the join *)
    injection H2 as <- <-. destruct (X1o eq_refl) as [L Rn]. destruct (f_x3 _ F Rn) as (m & Lm & Mm).
    exists m. split; [assumption|]. split; [exact Mm|].
    intros j x Lj Hj Nm. destruct (d_g1 _ D j ltac:(lia)) as (x' & Hx' & O). simp. rewrite Hx' in Hj. injection Hj as ->.
    destruct O as [O|[O|O]]; [exact O | exfalso | exfalso].
    + unfold cpos in O. rewrite Hcp in O. rewrite skipn_all2 in O by assumption. destruct O.
    + destruct (f_x4 _ F _ O) as [M|(m' & L' & (y & Hy & My))].
      * rewrite (Nm j x) in M; [discriminate | lia | assumption].
      * rewrite (c_q1 _ C _ _ Hx') in L'. rewrite (Nm m' y) in My; [discriminate | lia | assumption].
Qed.

Lemma invF_reach : forall bits progs s, Reach kc bits progs s -> InvA s /\ InvC s /\ InvD s /\ InvF s.
Proof.
  intros bits progs s R. eapply (inv_reachable st (gstep kc) (fun s => InvA s /\ InvC s /\ InvD s /\ InvF s)); eauto.
  - split; [apply invA_init | split; [apply invC_init | split; [apply invD_init | apply invF_init]]].
  - intros s0 t s1 (I & C & D & F) H.
    split; [eapply invA_step | split; [eapply invC_step | split; [constructor; eapply stepD_g1 | eapply stepF]]]; eauto.
Qed.

Lemma fixed_stop_complete : forall bits progs s, Reach kc bits progs s -> stop_complete s.
Proof.
  intros bits progs s R. destruct (invF_reach _ _ _ R) as (I & C & D & F).
  intros t th k n H1 H2 j x Lj Hj N. destruct (f_g5 _ F _ _ _ _ H1 H2) as (m & Lm & (y & Hy & My) & CB).
  destruct (Nat.lt_ge_cases j m) as [Lt|Ge]; [unfold called_before in CB; apply (CB j x); assumption|].
  exfalso. rewrite (N m y) in My; [discriminate | lia | assumption].
Qed.
End Fixed.
End Proofs.

(* ======================================================================================== *)
(* theorems in the form Properties_C10.v states them                                         *)
(* ======================================================================================== *)
Theorem gc_at_most_once : forall kc bits progs s, Reach kc bits progs s ->
  StronglySorted Nat.lt (map tk_ticket (map fst (calls s))) /\
  forall x, In x (map fst (calls s)) -> nth_error (qall s) (tk_ticket x) = Some (Some x).
Proof.
  intros kc bits progs s R. destruct (invAC_reach kc _ _ _ R) as [I C]. split.
  - destruct (c_k1 _ C) as [S _]. unfold seqt in S. apply ss_app_iff in S. tauto.
  - intros x Hx. apply (c_c2 _ C) in Hx. apply In_nth_error in Hx as [j Hj]. rewrite (c_q1 _ C _ _ Hj). exact Hj.
Qed.

Corollary gc_calls_nodup : forall kc bits progs s, Reach kc bits progs s -> NoDup (map tk_ticket (map fst (calls s))).
Proof. intros kc bits progs s R. apply ss_nodup. apply (gc_at_most_once kc bits progs s R). Qed.

(* one ticket per retire()/stop() call: the ticket identifies the call *)
Theorem gc_ticket_is_position : forall kc bits progs s, Reach kc bits progs s ->
  forall j x, nth_error (qall s) j = Some (Some x) -> tk_ticket x = j.
Proof. intros kc bits progs s R. destruct (invAC_reach kc _ _ _ R) as [I C]. exact (c_q1 _ C). Qed.

Theorem gc_no_task_lost : forall kc bits progs s, Reach kc bits progs s ->
  forall j, (j < qhead s)%nat -> exists x, nth_error (qall s) j = Some (Some x) /\
    (In x (map fst (calls s)) \/ In x (skipn (cpos (col s)) (ctasks (col s))) \/ In x (gone s)).
Proof. intros kc bits progs s R. destruct (invACD_reach kc _ _ _ R) as (I & C & D). exact (d_g1 _ D). Qed.

Theorem gc_all_before_stop : forall kc, (forall r i n, kc r i n = r || Nat.ltb i n) ->
  forall bits progs s, Reach kc bits progs s -> stop_complete s.
Proof. intros kc Hfix bits progs s R. exact (fixed_stop_complete kc Hfix bits progs s R). Qed.

Theorem gc_all_before_stop_fixed_loop : forall bits progs s, Reach fixed_kc bits progs s -> stop_complete s.
Proof. apply gc_all_before_stop. reflexivity. Qed.

(* the loop condition of the current source is one of the two forms (the proof picks whichever the regenerated text is) *)
Lemma src_kc_form : (forall r i n, src_kc r i n = r) \/ (forall r i n, src_kc r i n = r || Nat.ltb i n).
Proof.
  first [ left; intros [] i n; reflexivity
        | right; intros [] i n; unfold src_kc, keep_looping, b2z; cbn [negb orb Z.eqb];
          [ reflexivity | destruct (Nat.ltb_spec i n); [apply Z.ltb_lt | apply Z.ltb_ge]; lia ] ].
Qed.

Theorem gc_never_early : forall kc bits progs s, Reach kc bits progs s -> early s = false.
Proof. intros kc bits progs s R. exact (a_early _ (invA_reach kc _ _ _ R)). Qed.

Theorem gc_blocks_iff_full : forall kc s t th x b, nth_error (threads s) t = Some th -> tpc th = PPublish x b ->
  (gstep kc s t = None <-> (qhead s + cap s <= tk_ticket x)%nat).
Proof. exact publish_enabled_iff. Qed.

Theorem gc_queue_bounded : forall kc bits progs s, Reach kc bits progs s ->
  forall j x, nth_error (qall s) j = Some (Some x) -> (j < qhead s + cap s)%nat.
Proof. intros kc bits progs s R. exact (invB_reach kc _ _ _ R). Qed.

Theorem gc_resumes : forall kc s t th x b sch, nth_error (threads s) t = Some th -> tpc th = PPublish x b ->
  (tk_ticket x < qhead s + cap s)%nat ->
  (tk_ticket x < qhead (run st (gstep kc) s sch) + cap (run st (gstep kc) s sch))%nat.
Proof.
  intros kc s t th x b sch _ _. revert s. induction sch as [|u r IH]; intros s H; cbn [run]; [assumption|].
  apply IH. unfold step_or_stay. destruct (gstep kc s u) as [s'|] eqn:E; [|assumption].
  destruct (qhead_mono kc _ _ _ E) as [Q B]. unfold cap in *. rewrite B. lia.
Qed.

(* ---- stop() with a region open under the old loop (finding F2, fixed), and retire() racing with stop() (current source) ---- *)
Definition f2_progs : list (list op) := [[OStart; ORetire; OStop]; [OLock; OUnlock]].
Definition f2_sched : list nat := [1;1; 0;0;0;0;0;0; 2;2;2;2;2;2;2;2; 0; 1]%nat.
Definition race_progs : list (list op) := [[OStart; OStop]; [ORetire]].
Definition race_sched : list nat := [0; 1; 0; 1; 0; 1; 2;2;2;2;2;2;2;2;2; 0]%nat.

Lemma f2_single_stop : single_stop f2_progs.
Proof.
  intros t1 p1 i1 t2 p2 i2 H1 H2 H3 H4.
  destruct t1 as [|[|[|]]]; cbn in H1; try discriminate; injection H1 as <-;
  destruct i1 as [|[|[|[|]]]]; cbn in H2; try discriminate;
  destruct t2 as [|[|[|]]]; cbn in H3; try discriminate; injection H3 as <-;
  destruct i2 as [|[|[|[|]]]]; cbn in H4; try discriminate; auto.
Qed.

(* regression witness of finding F2 (fixed in /repo by e0cd24e): with the loop as it was, `while (running)`, stop() returns
   with an uncalled reclaimer when a region is open *)
Theorem gc_as_was_loop_refuted :
  exists bits progs s, single_stop progs /\ Reach orig_kc bits progs s /\ gver s < STOP_EPOCH /\ all_done s = true /\ ~ stop_complete s.
Proof.
  exists 1%nat, f2_progs, (run st step_orig (init 1 f2_progs) f2_sched).
  split; [exact f2_single_stop|]. split; [exists f2_sched; reflexivity|]. split; [vm_compute; reflexivity|].
  split; [vm_compute; reflexivity|]. intro C. unfold stop_complete in C. vm_compute in C.
  specialize (C 0%nat _ 1%nat 0%nat eq_refl (or_intror (or_intror (or_introl eq_refl))) 0%nat _ (le_n 1) eq_refl).
  apply C. intros [|j] y Hj Hy; [injection Hy as <-; reflexivity | lia].
Qed.

(* the current source has the repaired form: this proof breaks if the loop condition is changed back *)
Lemma src_kc_is_fixed : forall r i n, src_kc r i n = r || Nat.ltb i n.
Proof. destruct src_kc_form as [H|H]; [specialize (H false 0%nat 1%nat); vm_compute in H; discriminate | exact H]. Qed.
Theorem gc_all_before_stop_src : forall bits progs s, Reach src_kc bits progs s -> stop_complete s.
Proof. exact (gc_all_before_stop src_kc src_kc_is_fixed). Qed.

Theorem gc_retire_racing_stop_refuted :
  exists bits progs s x, no_regions progs /\ Reach src_kc bits progs s /\ all_done s = true /\ coll_quiet s = true /\
    In (Some x) (qall s) /\ is_marker x = false /\ ~ In x (map fst (calls s)) /\ In x (gone s).
Proof.
  exists 1%nat, race_progs, (run st step (init 1 race_progs) race_sched),
         {| tk_id := (1%nat, 0%nat); tk_epoch := 1; tk_blk := []; tk_ticket := 1 |}.
  split. { intros p [<-|[<-|[]]] H; cbn in H; repeat (destruct H as [H|H]; [discriminate H|]); exact H. }
  split; [exists race_sched; reflexivity|].
  split; [vm_compute; reflexivity|]. split; [vm_compute; reflexivity|].
  split; [vm_compute; tauto|]. split; [vm_compute; reflexivity|]. split; [vm_compute; tauto | vm_compute; tauto].
Qed.

(* non-vacuity of the positive stop theorem: with the repaired loop the F2 schedule makes stop() wait for the unlock *)
Definition fixed_sched : list nat := [1;1; 0;0;0;0;0;0; 2;2;2;2;2;2;2;2; 1; 2;2;2;2;2;2;2;2;2;2; 0]%nat.
Lemma fixed_example : exists s, Reach fixed_kc 1 f2_progs s /\ all_done s = true /\ length (calls s) = 1%nat /\
  exists th, nth_error (threads s) 0 = Some th /\ In (RStop true 1 1) (results th).
Proof.
  exists (run st step_fixed (init 1 f2_progs) fixed_sched). split; [exists fixed_sched; reflexivity|].
  split; [vm_compute; reflexivity|]. split; [vm_compute; reflexivity|].
  eexists. split; [vm_compute; reflexivity|]. vm_compute. tauto.
Qed.

(* non-vacuity of the queue theorems: capacity 1, the second retire() of a thread is blocked behind the first *)
Lemma blocked_example : exists s t th x b, Reach src_kc 0 [[ORetire; ORetire]] s /\ nth_error (threads s) t = Some th /\
  tpc th = PPublish x b /\ step s t = None.
Proof.
  exists (run st step (init 0 [[ORetire; ORetire]]) [0;0;0;0;0]%nat), 0%nat. eexists. eexists. eexists.
  split; [exists [0;0;0;0;0]%nat; reflexivity|]. split; [vm_compute; reflexivity|]. split; vm_compute; reflexivity.
Qed.
