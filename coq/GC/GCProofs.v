(* Proofs about GC/GCModel.v (C10). *)
From Coq Require Import ZArith List Bool Arith Lia.
Require Import Verif.Gen.Gen_epoch Verif.Gen.Gen_bounded_queue Verif.Gen.Gen_garbage_collector.
Require Import Verif.Conc.Machine Verif.GC.GCModel.
Import ListNotations.
Local Open Scope Z_scope.

Definition Reach (kc : bool -> nat -> nat -> bool) (bits : nat) (progs : list (list op)) (s : st) : Prop :=
  reachable st (gstep kc) (init bits progs) s.
