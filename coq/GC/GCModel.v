(* Executable interleaving model of babylon::GarbageCollector<R> (src/babylon/concurrent/garbage_collector.h)
   on top of Epoch (epoch.h) and ConcurrentBoundedQueue (bounded_queue.hpp).  No proofs here.

   One step = one atomic operation (or thread create/join, usleep, reclaimer call) of the C++ code plus the
   local computation around it.  Code is modelled as it is; the loop condition of keep_reclaim is a parameter
   `kc` of the machine (instantiated with the regenerated source condition in `step`) so that the planned
   repair of keep_reclaim is a different instance of the same machine.

   Client threads 0..n-1 run programs (data); thread i owns Accessor i (created before the threads start, so
   Epoch::_slots has exactly n slots and accessor_number() = n); the collector thread has id n.
   Epoch     : global version, per slot (version, lock_times); lock = load global / store slot (two steps),
               unlock = one store, tick = one fetch_add, low_water_mark = one load per slot (NOT atomic).
   Queue     : abstract FIFO at ticket granularity: push = fetch_add of the push index (ticket, never blocks)
               then wait-for-slot + write + publish (enabled iff ticket < popped + capacity);
               try_pop_n = the published prefix, at most `batch`, handed to the callback in at most two chunks
               (split at the ring boundary exactly as try_pop_n does).
   Ghost     : task identity (thread, op index), ticket, blockers = (slot, generation) of the regions open at
               the tick of retire(); log of reclaimer calls with the slots open at the call; `early`;
               `gone` = tasks/markers consumed and discarded without a call. *)
From Coq Require Import ZArith List Bool Arith.
Require Import Verif.Gen.Gen_epoch Verif.Gen.Gen_bounded_queue Verif.Gen.Gen_garbage_collector.
Import ListNotations.
Local Open Scope Z_scope.

Definition tid := (nat * nat)%type.                 (* (thread, op index) of the retire()/stop() call *)

Inductive op :=
| ORetire            (* gc.retire(reclaimer)            = tick + push<true,false,false> *)
| OLock              (* accessor.lock()  *)
| OUnlock            (* accessor.unlock()  (skipped by the client when it holds no lock) *)
| OStart             (* gc.start() *)
| OStop              (* gc.stop()  (the destructor is exactly this call) *)
| OWait.             (* client-side barrier: wait until every other client thread has finished its program *)

Record task := { tk_id : tid; tk_epoch : Z; tk_blk : list (nat * nat); tk_ticket : nat }.

Inductive res :=
| RRetire (ticket : nat) | RLock | RUnlock | RSkip | RStart (spawned : bool)
| RWait
| RStop (joined : bool) (ticket : nat) (ncalls : nat).   (* ncalls: reclaimer calls made when stop() returned *)

Inductive pc :=
| Idle
| PTicket (e : Z) (blk : list (nat * nat))   (* retire: tick done, next: fetch_add of the push index *)
| PPublish (x : task) (stop : bool)          (* ticket taken, next: slot free? write + publish *)
| PLockStore (v : Z)                         (* lock: global version loaded, next: store to own slot (+ fence) *)
| PJoin (ticket : nat).                      (* stop: marker published, next: join *)

Record thread := { prog : list op; opi : nat; tpc : pc; results : list res }.

Record slot := { ver : Z; lt : Z; sopen : bool; sgen : nat }.   (* sopen/sgen are ghost *)

Inductive cpc :=
| CNotStarted
| CTop                                (* while (...) test, then dispatch *)
| CConsume                            (* consume_reclaim_task: try_pop_n *)
| CScan (i : nat) (m : Z)             (* low_water_mark(): next slot to load, minimum so far *)
| CReclaim (lwm : Z) (r : nat)        (* reclaim_start_from: r reclaimed so far in this call *)
| CSleep                              (* usleep(backoff_us) *)
| CExited.

Record coll := { cp : cpc; crunning : bool; cindex : nat; ctasks : list task; joinable : bool }.

Record st := {
  gver : Z; slots : list slot;
  qall : list (option task);          (* every ticket ever taken, in ticket order; None = not yet published *)
  qhead : nat;                        (* number of tickets popped = _next_pop_index *)
  qbits : nat;                        (* capacity = 2^qbits *)
  col : coll;
  calls : list (task * list nat);     (* reclaimer calls in order, with the slots open at the call *)
  early : bool;                       (* a reclaimer ran while a region open at its retire() was still open *)
  gone : list task;                   (* consumed and discarded without a call (markers included) *)
  threads : list thread
}.

Definition cap (s : st) : nat := Nat.pow 2 (qbits s).
Definition b2z (b : bool) : Z := if b then 1 else 0.

Definition mk_thread (p : list op) : thread := {| prog := p; opi := 0; tpc := Idle; results := [] |}.
Definition idle_slot : slot := {| ver := SLOT_IDLE; lt := LOCK_TIMES_INIT; sopen := false; sgen := 0 |}.
Definition coll0 : coll := {| cp := CNotStarted; crunning := running_init; cindex := Z.to_nat index_init; ctasks := []; joinable := false |}.
Definition init (bits : nat) (progs : list (list op)) : st :=
  {| gver := VERSION_INIT; slots := map (fun _ => idle_slot) progs; qall := []; qhead := 0; qbits := bits; col := coll0;
     calls := []; early := false; gone := []; threads := map mk_thread progs |}.

Fixpoint set_nth {A} (n : nat) (x : A) (l : list A) : list A :=
  match l, n with
  | [], _ => []
  | _ :: r, O => x :: r
  | y :: r, S n' => y :: set_nth n' x r
  end.

(* ---- record updates *)
Definition upd_thread (s : st) (t : nat) (th : thread) : st :=
  {| gver := gver s; slots := slots s; qall := qall s; qhead := qhead s; qbits := qbits s; col := col s; calls := calls s;
     early := early s; gone := gone s; threads := set_nth t th (threads s) |}.
Definition with_gver (s : st) (v : Z) : st :=
  {| gver := v; slots := slots s; qall := qall s; qhead := qhead s; qbits := qbits s; col := col s; calls := calls s;
     early := early s; gone := gone s; threads := threads s |}.
Definition with_slots (s : st) (l : list slot) : st :=
  {| gver := gver s; slots := l; qall := qall s; qhead := qhead s; qbits := qbits s; col := col s; calls := calls s;
     early := early s; gone := gone s; threads := threads s |}.
Definition with_qall (s : st) (q : list (option task)) : st :=
  {| gver := gver s; slots := slots s; qall := q; qhead := qhead s; qbits := qbits s; col := col s; calls := calls s;
     early := early s; gone := gone s; threads := threads s |}.
Definition with_col (s : st) (c : coll) : st :=
  {| gver := gver s; slots := slots s; qall := qall s; qhead := qhead s; qbits := qbits s; col := c; calls := calls s;
     early := early s; gone := gone s; threads := threads s |}.
Definition with_consumed (s : st) (h : nat) (c : coll) (g : list task) : st :=
  {| gver := gver s; slots := slots s; qall := qall s; qhead := h; qbits := qbits s; col := c; calls := calls s;
     early := early s; gone := g; threads := threads s |}.
Definition with_call (s : st) (c : coll) (cl : list (task * list nat)) (e : bool) : st :=
  {| gver := gver s; slots := slots s; qall := qall s; qhead := qhead s; qbits := qbits s; col := c; calls := cl;
     early := e; gone := gone s; threads := threads s |}.
Definition with_restart (s : st) (c : coll) (g : list task) : st :=
  {| gver := gver s; slots := slots s; qall := qall s; qhead := qhead s; qbits := qbits s; col := c; calls := calls s;
     early := early s; gone := g; threads := threads s |}.

Definition finish_op (th : thread) (r : res) : thread :=
  {| prog := prog th; opi := S (opi th); tpc := Idle; results := results th ++ [r] |}.
Definition goto (th : thread) (p : pc) : thread :=
  {| prog := prog th; opi := opi th; tpc := p; results := results th |}.
Definition set_cp (c : coll) (p : cpc) : coll :=
  {| cp := p; crunning := crunning c; cindex := cindex c; ctasks := ctasks c; joinable := joinable c |}.

(* ---- epoch *)
Definition slot_open_now (sl : slot) : bool := sopen sl.
Fixpoint open_from (i : nat) (l : list slot) : list (nat * nat) :=
  match l with
  | [] => []
  | sl :: r => if sopen sl then (i, sgen sl) :: open_from (S i) r else open_from (S i) r
  end.
Definition open_regions (s : st) : list (nat * nat) := open_from 0 (slots s).   (* (slot, generation) *)
Definition open_slots (s : st) : list nat := map fst (open_regions s).

Definition blk_open (s : st) (b : nat * nat) : bool :=
  match nth_error (slots s) (fst b) with
  | Some sl => sopen sl && Nat.eqb (sgen sl) (snd b)
  | None => false
  end.

(* ---- queue *)
Definition stop_task (i : tid) (k : nat) : task := {| tk_id := i; tk_epoch := STOP_EPOCH; tk_blk := []; tk_ticket := k |}.
Definition is_marker (x : task) : bool := is_stop_marker (tk_epoch x).

(* the published prefix of the not yet popped tickets, at most n entries *)
Fixpoint pub_prefix (n : nat) (l : list (option task)) : list task :=
  match n, l with
  | S n', Some x :: r => x :: pub_prefix n' r
  | _, _ => []
  end.

(* the callback of consume_reclaim_task on one chunk: keep tasks up to the first marker; the marker clears
   `running` and everything behind it in this chunk is left behind (returns kept, running', discarded) *)
Fixpoint chunk_cb (l : list task) (running : bool) : list task * bool * list task :=
  match l with
  | [] => ([], running, [])
  | x :: r =>
    if is_marker x then ([], running_after_marker, x :: r)
    else let '(k, rn, d) := chunk_cb r running in (x :: k, rn, d)
  end.

Definition first_chunk_len (s : st) (num n : nat) : nat :=   (* num requested, n published *)
  let index := Z.of_nat (qhead s) in
  let mask := Z.of_nat (cap s) - 1 in
  let round := try_pop_n_round index mask in
  if try_pop_n_fits (try_pop_n_end index (Z.of_nat num)) round then n
  else Nat.min n (Z.to_nat (try_pop_n_first index round)).

Definition consume (s : st) (c : coll) : st :=
  let batch := Z.to_nat (consume_num (batch_of (Z.of_nat (cap s)))) in
  let got := pub_prefix batch (skipn (qhead s) (qall s)) in
  let n1 := first_chunk_len s batch (length got) in
  let '(k1, r1, d1) := chunk_cb (firstn n1 got) consume_running_init in
  let '(k2, r2, d2) := chunk_cb (skipn n1 got) r1 in
  with_consumed s (qhead s + length got)%nat
    {| cp := CScan 0 lwm_init; crunning := r2; cindex := Z.to_nat index_after_consume; ctasks := k1 ++ k2; joinable := joinable c |}
    (gone s ++ d1 ++ d2).

(* ---- collector thread; kc = the while condition of keep_reclaim *)
Section Collector.
Variable kc : bool -> nat -> nat -> bool.

Definition cpos (c : coll) : nat := match cp c with CReclaim _ r => (cindex c + r)%nat | _ => cindex c end.

Definition step_coll (s : st) : option st :=
  let c := col s in
  match cp c with
  | CNotStarted => None
  | CExited => None
  | CTop =>
    if kc (crunning c) (cindex c) (length (ctasks c)) then
      if need_consume (Z.of_nat (cindex c)) (Z.of_nat (length (ctasks c))) then Some (with_col s (set_cp c CConsume))
      else Some (with_col s (set_cp c (CScan 0 lwm_init)))
    else Some (with_col s (set_cp c CExited))
  | CConsume => Some (consume s c)
  | CScan i m =>
    match nth_error (slots s) i with
    | Some sl =>                                   (* version.load(acquire) of slot i *)
      let m' := if lwm_update m (ver sl) then lwm_assign (ver sl) else m in
      Some (with_col s (set_cp c (CScan (S i) m')))
    | None =>                                      (* the mark is sampled inside reclaim_start_from, on every call *)
      Some (with_col s (set_cp c (CReclaim (lwm_sample (lwm_ret m)) 0)))
    end
  | CReclaim lwm r =>
    let i := (cindex c + r)%nat in
    match (if reclaim_more (Z.of_nat i) (Z.of_nat (length (ctasks c))) then nth_error (ctasks c) i else None) with
    | Some x =>
      if not_yet_reclaimable (tk_epoch x) lwm then
        Some (with_col s {| cp := if sleep_needed (Z.of_nat r) then CSleep else CTop; crunning := crunning c;
                            cindex := (cindex c + Z.to_nat (index_advance (Z.of_nat r)))%nat; ctasks := ctasks c; joinable := joinable c |})
      else                                         (* t.reclaimer() *)
        Some (with_call s (set_cp c (CReclaim lwm (S r))) (calls s ++ [(x, open_slots s)])
                        (early s || existsb (blk_open s) (tk_blk x)))
    | None =>
      Some (with_col s {| cp := if sleep_needed (Z.of_nat r) then CSleep else CTop; crunning := crunning c;
                          cindex := (cindex c + Z.to_nat (index_advance (Z.of_nat r)))%nat; ctasks := ctasks c; joinable := joinable c |})
    end
  | CSleep => Some (with_col s (set_cp c CTop))
  end.

(* ---- client threads *)
Definition thread_done (th : thread) : bool :=
  match tpc th, nth_error (prog th) (opi th) with Idle, None => true | _, _ => false end.
Fixpoint others_done (t : nat) (i : nat) (l : list thread) : bool :=
  match l with
  | [] => true
  | th :: r => (Nat.eqb i t || thread_done th) && others_done t (S i) r
  end.

Definition take_ticket (s : st) : st := with_qall s (qall s ++ [None]).

Definition step_thread (s : st) (t : nat) (th : thread) : option st :=
  match tpc th with
  | Idle =>
    match nth_error (prog th) (opi th) with
    | None => None
    | Some ORetire =>                               (* Epoch::tick: fetch_add(seq_cst) *)
      let e := retire_epoch (tick_ret + gver s) in
      Some (upd_thread (with_gver s (gver s + tick_inc)) t (goto th (PTicket e (open_regions s))))
    | Some OLock =>
      match nth_error (slots s) t with
      | None => Some (upd_thread s t (finish_op th RSkip))
      | Some sl =>
        let n := lt sl + lock_inc in
        let s1 := with_slots s (set_nth t {| ver := ver sl; lt := n; sopen := sopen sl; sgen := sgen sl |} (slots s)) in
        if lock_first n then Some (upd_thread s1 t (goto th (PLockStore (gver s))))     (* _version.load(relaxed) *)
        else Some (upd_thread s1 t (finish_op th RLock))
      end
    | Some OUnlock =>
      match nth_error (slots s) t with
      | None => Some (upd_thread s t (finish_op th RSkip))
      | Some sl =>
        if Z.leb (lt sl) 0 then Some (upd_thread s t (finish_op th RSkip))
        else if unlock_last (lt sl) then                                               (* version.store(UINT64_MAX, release) *)
          Some (upd_thread (with_slots s (set_nth t {| ver := unlock_value; lt := lt sl - unlock_dec; sopen := false;
                                                       sgen := S (sgen sl) |} (slots s))) t (finish_op th RUnlock))
        else
          Some (upd_thread (with_slots s (set_nth t {| ver := ver sl; lt := lt sl - unlock_dec; sopen := sopen sl;
                                                       sgen := sgen sl |} (slots s))) t (finish_op th RUnlock))
      end
    | Some OStart =>
      if joinable (col s) then Some (upd_thread s t (finish_op th (RStart false)))
      else                                          (* std::thread(&keep_reclaim): fresh locals; the old vector is destroyed *)
        Some (upd_thread (with_restart s {| cp := CTop; crunning := running_init; cindex := Z.to_nat index_init; ctasks := [];
                                            joinable := true |}
                                       (gone s ++ skipn (cpos (col s)) (ctasks (col s)))) t (finish_op th (RStart true)))
    | Some OStop =>
      if joinable (col s) then                      (* push(ReclaimTask{}): fetch_add of the push index *)
        let k := length (qall s) in
        Some (upd_thread (take_ticket s) t (goto th (PPublish (stop_task (t, opi th) k) true)))
      else Some (upd_thread s t (finish_op th (RStop false 0 (length (calls s)))))
    | Some OWait => if others_done t 0 (threads s) then Some (upd_thread s t (finish_op th RWait)) else None
    end
  | PTicket e blk =>
    let k := length (qall s) in
    Some (upd_thread (take_ticket s) t
            (goto th (PPublish {| tk_id := (t, opi th); tk_epoch := retire_push_epoch e; tk_blk := blk; tk_ticket := k |} false)))
  | PPublish x stop =>
    if Nat.ltb (tk_ticket x) (qhead s + cap s)%nat then
      Some (upd_thread (with_qall s (set_nth (tk_ticket x) (Some x) (qall s))) t
              (if stop then goto th (PJoin (tk_ticket x)) else finish_op th (RRetire (tk_ticket x))))
    else None                                       (* slot not free yet: spins in usleep(1000) *)
  | PLockStore v =>
    match nth_error (slots s) t with
    | None => Some (upd_thread s t (finish_op th RSkip))
    | Some sl =>
      Some (upd_thread (with_slots s (set_nth t {| ver := lock_published v; lt := lt sl; sopen := true; sgen := sgen sl |} (slots s)))
                       t (finish_op th RLock))
    end
  | PJoin k =>
    match cp (col s) with
    | CExited =>
      Some (upd_thread (with_col s {| cp := CExited; crunning := crunning (col s); cindex := cindex (col s);
                                      ctasks := ctasks (col s); joinable := false |}) t
                       (finish_op th (RStop true k (length (calls s)))))
    | _ => None
    end
  end.

Definition gstep (s : st) (t : nat) : option st :=
  match nth_error (threads s) t with
  | Some th => step_thread s t th
  | None => if Nat.eqb t (length (threads s)) then step_coll s else None
  end.
End Collector.

(* the machine of the current source: the while condition regenerated from keep_reclaim *)
Definition src_kc (running : bool) (index size : nat) : bool := keep_looping (b2z running) (Z.of_nat index) (Z.of_nat size).
Definition step : st -> nat -> option st := gstep src_kc.

(* the loop as it was before fix e0cd24e (`while (running)`): kept for the regression witness of finding F2 *)
Definition orig_kc (running : bool) (index size : nat) : bool := running.
Definition step_orig : st -> nat -> option st := gstep orig_kc.

(* the repaired loop: keep going while tasks taken from the queue are still waiting for the low water mark *)
Definition fixed_kc (running : bool) (index size : nat) : bool := running || Nat.ltb index size.
Definition step_fixed : st -> nat -> option st := gstep fixed_kc.

(* ---- observation *)
Definition all_done (s : st) : bool := forallb thread_done (threads s).
Definition coll_quiet (s : st) : bool := match cp (col s) with CNotStarted | CExited => true | _ => false end.

Definition called (s : st) (i : tid) : bool :=
  existsb (fun c => Nat.eqb (fst (tk_id (fst c))) (fst i) && Nat.eqb (snd (tk_id (fst c))) (snd i)) (calls s).

Definition outcome (s : st) : list (list res) * list (tid * list nat) :=
  (map results (threads s), map (fun c => (tk_id (fst c), snd c)) (calls s)).
