Require Import Verif.LG.LGModel.
Require Extraction ExtrOcamlBasic.
Extraction Language OCaml.
Extraction "lg_model.ml" observe.
