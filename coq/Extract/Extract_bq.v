Require Import Verif.BQ.BQModel.
Require Extraction ExtrOcamlBasic.
Extraction Language OCaml.
Extraction "bq_model.ml" init step all_done outcome clock threads has_timed_parked err pushed delivered usage_ok spin_idle lower lower_progs declared calls_ok cores_ok.
