Require Import Verif.EP.EPModel.
Require Extraction ExtrOcamlBasic.
Extraction Language OCaml.
Extraction "ep_model.ml" init step all_done outcome.
