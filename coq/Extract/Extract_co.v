Require Import Verif.CO.COModel.
Require Extraction ExtrOcamlBasic.
Extraction Language OCaml.
Extraction "co_model.ml" init step gen_cfg cfg_asis cfg_fixed outcome all_clients_done quiescent in_use bad rlog lst.
