Require Import Verif.CT.CTModel.
From Coq Require Import ZArith.
Require Extraction ExtrOcamlBasic.
Extraction Language OCaml.
Extraction "ct_model.ml" step init_for num_per_line block_size rstep rinit Z.add Z.mul Z.opp Z.div Z.modulo Z.ltb Z.eqb.
