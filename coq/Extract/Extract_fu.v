Require Import Verif.FU.FUModel.
Require Extraction ExtrOcamlBasic.
Extraction Language OCaml.
Extraction "fu_model.ml" init step all_done outcome clock threads has_timed_parked.
