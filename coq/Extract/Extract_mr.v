Require Import Verif.MR.MRModel.
Require Extraction ExtrOcamlBasic.
Extraction Language OCaml.
Extraction "mr_model.ml" observe init.
