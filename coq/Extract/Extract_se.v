Require Import Verif.SE.SEModel.
Require Extraction ExtrOcamlBasic.
Extraction Language OCaml.
Extraction "se_model.ml" encode ssize parse dflt norm res_code res_val res_left.
