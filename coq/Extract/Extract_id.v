Require Import Verif.ID.IDModel.
Require Extraction ExtrOcamlBasic.
Extraction Language OCaml.
Extraction "id_model.ml" init step all_done quiescent outcome held_values sh threads.
