Require Import Verif.RV.RVModel.
Require Extraction ExtrOcamlBasic.
Extraction Language OCaml.
Extraction "rv_model.ml" empty_vec step2 abs stale run mclear mgr_init.
