Require Import Verif.CV.CVModel Verif.CV.CVObjModel.
Require Extraction ExtrOcamlBasic.
Extraction Language OCaml.
Extraction "cv_model.ml" init step all_done outcome destroy clock threads stale uaf tables bctor bdtor oinit orun oview.
