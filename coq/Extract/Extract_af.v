Require Import Verif.AF.AFModel.
Require Extraction ExtrOcamlBasic.
Extraction Language OCaml.
Extraction "af_model.ml" dinit dstep ddone doutcome sref needed expect_error vertex_res proc_fn preset_env pinit pstep cells cms pmove binit bstep bearly bfin bfired btargets.
