Require Import Verif.HS.HSModel.
Require Extraction ExtrOcamlBasic.
Extraction Language OCaml.
Extraction "hs_model.ml" init step csize bcount head rest.
