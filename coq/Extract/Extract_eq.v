Require Import Verif.EQ.EQModel.
Require Extraction ExtrOcamlBasic.
Extraction Language OCaml.
Extraction "eq_model.ml" init step all_done outcome stale events inside threads.
