Require Import Verif.TT.TTModel.
Require Extraction ExtrOcamlBasic.
Extraction Language OCaml.
Extraction "tt_model.ml" init step all_done outcome threads misuse parked thread_done.
