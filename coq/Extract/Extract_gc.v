Require Import Verif.GC.GCModel.
Require Extraction ExtrOcamlBasic.
Extraction Language OCaml.
Extraction "gc_model.ml" init step step_fixed all_done coll_quiet outcome threads col calls.
