Require Import Verif.EX.EXModel.
Require Extraction ExtrOcamlBasic.
Extraction Language OCaml.
Extraction "ex_model.ml" init step all_done outcome thread_done threads stop_returned.
