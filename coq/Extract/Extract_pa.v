Require Import Verif.PA.PAModel.
Require Extraction ExtrOcamlBasic.
Extraction Language OCaml.
Extraction "pa_model.ml" init step all_done outcome dtor quiescent binit brun bdtor boutcome threads err berr cinit crun.
