Require Import Verif.HC.HCModel.
Require Extraction ExtrOcamlBasic.
Extraction Language OCaml.
Extraction "hc_model.ml" init step all_done canon outcome threads.
