(* C12 - proofs about RV/RVModel.v: refinement of std::vector (lists), invariant, capacity, manager. *)
From Coq Require Import ZArith List Bool Arith Lia.
Require Import Verif.Gen.Gen_reusable_vector Verif.RV.RVModel Verif.RV.RVLoops Verif.RV.RVOps.
Import ListNotations.

Ltac cases := repeat (match goal with
  | |- context [Nat.leb ?a ?b] => destruct (Nat.leb_spec a b)
  | |- context [Nat.ltb ?a ?b] => destruct (Nat.ltb_spec a b)
  | |- context [Nat.eqb ?a ?b] => destruct (Nat.eqb_spec a b)
  end; simpl; try lia); auto.

Section Elem.
Variable mva : Z -> Z -> Z.
Variable mvc : Z -> Z.
Variable smv : Z -> Z.

Notation prepare_for_insert := (RVModel.prepare_for_insert mva mvc smv).
Notation insert_range := (RVModel.insert_range mva mvc smv).
Notation emplace := (RVModel.emplace mva mvc smv).
Notation erase := (RVModel.erase mva smv).
Notation step := (RVModel.step mva mvc smv).
Notation run := (RVModel.run mva mvc smv).

Lemma erase_post s first last : wf s -> first <= last -> last <= size s ->
  opost s (erase s first last) (firstn first (abs s) ++ skipn last (abs s)) 0.
Proof.
  intros W H1 H2. unfold RVModel.erase. destruct (Nat.eqb_spec first last) as [->|Hne].
  - rewrite firstn_skipn. unfold opost. repeat apply conj; auto; lia.
  - destruct W as [W1 W2 W3 W4 W5 W6].
    destruct (erase_loop_spec mva smv (last - first)) with (k := size s - last) (i := last) (s := s)
      as (F & C & N & P); try lia.
    { intros p Hp. apply W4; lia. }
    set (s1 := up_iter _ _ _ s) in *. destruct F as (F1 & F2 & F3 & F4 & F5).
    rewrite b_erase_delta. unfold opost. cbn [size csize cap err nctor ndtor nalloc cells set_size].
    repeat apply conj; try lia.
    + constructor; cbn [size csize cap err nctor ndtor nalloc cells set_size]; try lia; try congruence.
      * intros j Hj. destruct (P j) as (_ & Pb & _). apply Pb, W4. lia.
      * intros j Hj. destruct (P j) as (_ & _ & Pc). rewrite Pc by lia. apply W5; lia.
    + apply abs_eq_spec; cbn [size csize cap err nctor ndtor nalloc cells set_size].
      { change (firstn first (abs s) ++ skipn last (abs s)) with (firstn first (abs s) ++ [] ++ skipn last (abs s)).
        rewrite length_splice, abs_length by (rewrite abs_length; lia). simpl. lia. }
      intros j Hj.
      change (firstn first (abs s) ++ skipn last (abs s)) with (firstn first (abs s) ++ [] ++ skipn last (abs s)).
      rewrite nth_splice by (rewrite abs_length; lia). simpl length.
      destruct (P j) as (Pa & _ & Pc). cases.
      * rewrite Pc by lia. rewrite nth_abs by lia. reflexivity.
      * rewrite Pa by lia. rewrite nth_abs by lia. simpl. f_equal. f_equal. lia.
Qed.

Lemma resize_post s count v grow rend : wf s ->
  (forall a b, grow (zz a) (zz b) = (a <? b)) -> (forall a b, nn (rend (zz a) (zz b)) = Nat.min a b) ->
  opost s (resize_with s count v grow rend) (firstn count (abs s) ++ repeat v (count - length (abs s))) count.
Proof.
  intros W Hg Hr. unfold resize_with.
  destruct (reserve_spec s count W) as (W0 & S0 & C0 & K0 & P0 & A0).
  set (s0 := reserve s count) in *. rewrite Hg, Hr, S0, C0, abs_length.
  destruct W as [W1 W2 W3 W4 W5 W6]. destruct W0 as [V1 V2 V3 V4 V5 V6].
  destruct (Nat.ltb_spec (size s) count).
  - destruct (fill_spec (repeat v (count - size s)) (size s) (Nat.min (csize s) count) s0) as (F & C2 & N2 & P2).
    { rewrite repeat_length. lia. }
    { rewrite repeat_length. intros p Hp. destruct (Nat.ltb_spec p (Nat.min (csize s) count)).
      - apply V4; lia. - apply V5; lia. }
    set (s2 := fill _ _ _ s0) in *. destruct F as (F1 & F2 & F3 & F4 & F5). rewrite repeat_length in *.
    assert (BAL : nctor s2 = ndtor s2 + csize s2) by (rewrite N2, C2, F5, V6; ring).
    assert (CS : csize s2 = Nat.max (csize s) count).
    { rewrite C2, C0. replace (size s + (count - size s)) with count by lia.
      destruct (Nat.le_ge_cases count (csize s)).
      - rewrite (Nat.min_r (csize s)), Nat.min_id, (Nat.max_r (size s)), (Nat.max_l (csize s)) by lia. lia.
      - rewrite (Nat.min_l (csize s)), (Nat.min_l (csize s)), (Nat.max_r (size s)), (Nat.max_r (csize s)) by lia. lia. }
    replace (size s + (count - size s)) with count in P2 by lia.
    clearbody s2. clear C2 N2.
    unfold opost. cbn [size csize cap err nctor ndtor nalloc cells set_size].
    repeat apply conj; try lia.
    + constructor; cbn [size csize cap err nctor ndtor nalloc cells set_size]; try lia; try congruence.
      * intros j Hj. rewrite P2. destruct (Nat.lt_ge_cases j (size s)); [rewrite inr_false by lia; apply V4; lia|].
        destruct (Nat.lt_ge_cases j count); [rewrite inr_true by lia; auto|].
        rewrite inr_false by lia; apply V4; lia.
      * intros j Hj. rewrite P2. rewrite inr_false by lia. apply V5; lia.
    + apply abs_eq_spec; cbn [size csize cap err nctor ndtor nalloc cells set_size].
      { rewrite app_length, firstn_length, repeat_length, abs_length. lia. }
      intros j Hj. rewrite P2. rewrite firstn_all2 by (rewrite abs_length; lia).
      destruct (Nat.lt_ge_cases j (size s)).
      * rewrite inr_false by lia. rewrite app_nth1 by (rewrite abs_length; lia). rewrite nth_abs by lia.
        rewrite P0. reflexivity.
      * rewrite inr_true by lia. rewrite app_nth2 by (rewrite abs_length; lia). rewrite abs_length.
        rewrite !nth_repeat_lt by lia. reflexivity.
  - replace (count - size s) with 0 by lia. simpl repeat. rewrite app_nil_r.
    unfold opost. cbn [size csize cap err nctor ndtor nalloc cells set_size].
    repeat apply conj; try lia.
    + constructor; cbn [size csize cap err nctor ndtor nalloc cells set_size]; auto; lia.
    + apply abs_eq_spec; cbn [size csize cap err nctor ndtor nalloc cells set_size].
      { rewrite firstn_length, abs_length. lia. }
      intros j Hj. rewrite nth_firstn_lt by lia. rewrite nth_abs by lia. rewrite P0. reflexivity.
Qed.

Lemma clear_post s : wf s -> opost s (clear s) [] 0.
Proof.
  intros [W1 W2 W3 W4 W5 W6]. unfold clear. rewrite b_clear_size. unfold opost; cbn.
  repeat apply conj; try lia; try reflexivity. constructor; cbn; auto; lia.
Qed.

Lemma pop_back_post s : wf s -> 0 < size s -> opost s (pop_back s) (firstn (length (abs s) - 1) (abs s)) 0.
Proof.
  intros [W1 W2 W3 W4 W5 W6] H. unfold pop_back. destruct (size s) as [|n] eqn:E; [lia|].
  unfold opost; cbn [size csize cap err nctor ndtor nalloc cells set_size].
  repeat apply conj; try lia.
  - constructor; cbn; auto; lia.
  - apply abs_eq_spec; cbn [size csize cap err nctor ndtor nalloc cells set_size].
    { rewrite firstn_length, abs_length. lia. }
    intros j Hj. rewrite abs_length, E. rewrite nth_firstn_lt by lia. rewrite nth_abs by lia. reflexivity.
Qed.

Lemma set_at_post s i v : wf s -> i < size s ->
  opost s (assign s i v) (firstn i (abs s) ++ v :: skipn (S i) (abs s)) 0.
Proof.
  intros [W1 W2 W3 W4 W5 W6] H. rewrite assign_ok by (try apply W4; lia).
  unfold opost; cbn [size csize cap err nctor ndtor nalloc cells put].
  repeat apply conj; try lia.
  - constructor; cbn [size csize cap err nctor ndtor nalloc cells put]; auto; try lia.
    + intros j Hj. unfold setc. destruct (Nat.eqb_spec j i); auto.
    + intros j Hj. unfold setc. destruct (Nat.eqb_spec j i); auto. lia.
  - apply abs_eq_spec; cbn [size csize cap err nctor ndtor nalloc cells put].
    { change (v :: skipn (S i) (abs s)) with ([v] ++ skipn (S i) (abs s)).
      rewrite length_splice, abs_length by (rewrite abs_length; lia). simpl. lia. }
    intros j Hj. change (v :: skipn (S i) (abs s)) with ([v] ++ skipn (S i) (abs s)).
    rewrite nth_splice by (rewrite abs_length; lia). simpl length. unfold setc.
    destruct (Nat.lt_ge_cases j i).
    { rewrite ltb_true by lia. destruct (Nat.eqb_spec j i); [lia|]. rewrite nth_abs by lia. reflexivity. }
    rewrite (ltb_false j i) by lia. destruct (Nat.eqb_spec j i).
    { subst. rewrite ltb_true by lia. rewrite Nat.sub_diag. reflexivity. }
    rewrite ltb_false by lia. rewrite nth_abs by lia. simpl. f_equal. f_equal. lia.
Qed.

Lemma push_all_post : forall vs s, wf s ->
  let s' := fold_left emplace_back vs s in
  wf s' /\ abs s' = abs s ++ vs /\ cap s <= cap s' /\ csize s <= csize s' /\ size s' = size s + length vs /\
  (size s + length vs <= cap s -> nalloc s' = nalloc s /\ cap s' = cap s).
Proof.
  induction vs as [|v t IH]; intros s W; simpl.
  - rewrite app_nil_r. repeat apply conj; auto; lia.
  - destruct (emplace_back_post s v W) as (W1 & A1 & K1 & C1 & D1 & S1 & N1).
    destruct (IH _ W1) as (W2 & A2 & K2 & C2 & S2 & N2).
    assert (SZ : size (emplace_back s v) = S (size s)).
    { rewrite <- (abs_length (emplace_back s v)), A1, app_length, abs_length. simpl. lia. }
    repeat apply conj; auto; try lia.
    rewrite A2, A1, <- app_assoc. reflexivity.
Qed.

Lemma assign_range_post s vs : wf s -> opost s (assign_range s vs) vs (length vs).
Proof.
  intros W. unfold assign_range.
  destruct (clear_post s W) as (W1 & A1 & K1 & C1 & _ & S1 & N1).
  destruct (reserve_post (clear s) (length vs) W1) as (W2 & A2 & K2 & C2 & D2 & S2 & N2).
  destruct (push_all_post vs _ W2) as (W3 & A3 & K3 & C3 & S3 & N3).
  assert (Z0 : size (reserve (clear s) (length vs)) = 0).
  { rewrite <- abs_length, A2, A1. reflexivity. }
  unfold opost. repeat apply conj; auto; try lia.
  rewrite A3, A2, A1. reflexivity.
Qed.

(* ---- one step ------------------------------------------------------------------------------------------- *)
Lemma step_post s o : wf s -> okb (size s) o = true ->
  opost s (step s o) (spec_step (abs s) o) (demand (size s) o).
Proof.
  intros W Hok. unfold RVModel.step. rewrite Hok. cbn [negb].
  destruct o; cbn [okb spec_step demand] in *.
  - apply emplace_back_post; auto.
  - apply pop_back_post; auto. apply Nat.ltb_lt; auto.
  - apply emplace_post; auto. apply Nat.leb_le; auto.
  - pose proof (insert_range_post mva mvc smv s i (repeat v n) ins_fill_end W) as H.
    rewrite repeat_length in H. apply H. + apply Nat.leb_le; auto.
    + apply b_ins_fill_end.
  - apply insert_range_post; auto. + apply Nat.leb_le; auto.
    + apply b_insr_fill_end.
  - apply andb_prop in Hok. destruct Hok as [H1 H2]. apply erase_post; auto; apply Nat.leb_le; auto.
  - apply resize_post; auto. + apply b_resize_grow. + apply b_resize_rend.
  - apply resize_post; auto. + apply b_resizev_grow. + apply b_resizev_rend.
  - apply reserve_post; auto.
  - apply clear_post; auto.
  - pose proof (assign_range_post s (repeat v n) W) as H. rewrite repeat_length in H. exact H.
  - apply assign_range_post; auto.
  - destruct (clear_post s W) as (W1 & A1 & K1 & C1 & _ & S1 & N1).
    pose proof (resize_post (clear s) n dflt resize_grow_cond resize_recon_end W1 b_resize_grow b_resize_rend) as R.
    rewrite A1 in R. simpl in R. rewrite Nat.sub_0_r in R. replace (firstn n []) with (@nil Z) in R by (destruct n; reflexivity).
    destruct R as (W2 & A2 & K2 & C2 & D2 & S2 & N2).
    unfold opost. repeat apply conj; auto; try lia.
  - apply set_at_post; auto. apply Nat.ltb_lt; auto.
Qed.

(* ---- runs ------------------------------------------------------------------------------------------------ *)
Lemma run_post : forall ops s, wf s -> valid (abs s) ops = true ->
  wf (run s ops) /\ abs (run s ops) = fold_left spec_step ops (abs s) /\
  cap s <= cap (run s ops) /\ csize s <= csize (run s ops) /\ peak (abs s) ops <= cap (run s ops) /\
  (peak (abs s) ops <= cap s -> nalloc (run s ops) = nalloc s /\ cap (run s ops) = cap s).
Proof.
  induction ops as [|o t IH]; intros s W V; cbn [RVModel.run fold_left valid peak] in *.
  - repeat apply conj; auto; lia.
  - apply andb_prop in V. destruct V as [V1 V2]. rewrite abs_length in *.
    destruct (step_post s o W V1) as (W1 & A1 & K1 & C1 & D1 & S1 & N1).
    rewrite <- A1 in *. destruct (IH _ W1 V2) as (W2 & A2 & K2 & C2 & D2 & N2).
    fold (run (step s o) t) in *.
    repeat apply conj; auto; try lia.
Qed.

(* ---- clear ---------------------------------------------------------------------------------------------------- *)
Lemma clear_keeps s : wf s ->
  wf (clear s) /\ abs (clear s) = [] /\ size (clear s) = 0 /\ cap (clear s) = cap s /\ csize (clear s) = csize s /\
  nalloc (clear s) = nalloc s /\ nctor (clear s) = nctor s /\ ndtor (clear s) = ndtor s /\
  forall j, cells (clear s) j = cells s j.
Proof.
  intros W. destruct (clear_post s W) as (W1 & A1 & _). unfold clear in *. rewrite b_clear_size in *.
  cbn in *. repeat apply conj; auto.
Qed.

(* ---- destructor: constructor / destructor balance ------------------------------------------------------------------- *)
Lemma destroy_loop : forall k i s, i + k <= cap s -> (forall p, i <= p < i + k -> isCon (cells s p)) ->
  let s' := up_iter k i destroy s in
  err s' = err s /\ nctor s' = nctor s /\ ndtor s' = ndtor s + k /\
  forall p, cells s' p = if (i <=? p) && (p <? i + k) then Raw else cells s p.
Proof.
  induction k as [|k IH]; intros i s Hcap Hcon; cbn [up_iter].
  - repeat apply conj; auto. intros p. rewrite inr_false by lia. reflexivity.
  - rewrite destroy_ok by (try apply Hcon; lia).
    destruct (IH (S i) (put s i Raw 0 1)) as (E & N & D & P).
    + cbn; lia.
    + intros p Hp. cbn. unfold setc. destruct (Nat.eqb_spec p i); [lia|]. apply Hcon; lia.
    + cbn [err nctor ndtor cells put cap size csize nalloc] in *. repeat apply conj; auto; try lia. intros p. rewrite P. unfold setc.
      destruct (Nat.lt_ge_cases p i); [rewrite !inr_false by lia; destruct (Nat.eqb_spec p i); auto; lia|].
      destruct (Nat.eq_dec p i) as [->|Hne].
      * rewrite inr_false, inr_true by lia. rewrite Nat.eqb_refl. reflexivity.
      * destruct (Nat.lt_ge_cases p (i + S k)).
        -- rewrite !inr_true by lia. reflexivity.
        -- rewrite !inr_false by lia. destruct (Nat.eqb_spec p i); auto; lia.
Qed.

Lemma destroy_all_balance s : wf s ->
  err (destroy_all s) = false /\ nctor (destroy_all s) = ndtor (destroy_all s) /\
  forall j, cells (destroy_all s) j = Raw.
Proof.
  intros [W1 W2 W3 W4 W5 W6]. unfold destroy_all.
  destruct (destroy_loop (csize s) 0 s) as (E & N & D & P); [lia | intros; apply W4; lia |].
  repeat apply conj; try congruence; try lia.
  intros j. rewrite P. destruct (Nat.lt_ge_cases j (csize s)).
  - rewrite inr_true by lia. reflexivity. - rewrite inr_false by lia. apply W5; lia.
Qed.

Lemma wf_empty : wf empty_vec.
Proof. constructor; cbn; auto; intros; lia. Qed.

(* ---- two vectors --------------------------------------------------------------------------------------------- *)
Notation step2 := (RVModel.step2 mva mvc smv).
Notation run2 := (RVModel.run2 mva mvc smv).
Definition wf2 (p : vec * vec) : Prop := wf (fst p) /\ wf (snd p).
Definition abs2 (p : vec * vec) : list Z * list Z := (abs (fst p), abs (snd p)).

Lemma reborn_post s : wf s -> wf (reborn s) /\ abs (reborn s) = [].
Proof.
  intros W. destruct (destroy_all_balance s W) as (E & N & P). unfold reborn. split; [|reflexivity].
  constructor; cbn [size csize cap cells err nctor ndtor nalloc]; auto; try lia; intros; lia.
Qed.

Lemma range_ctor_post r vs : wf r -> csize r = 0 -> wf (range_ctor r vs) /\ abs (range_ctor r vs) = vs.
Proof.
  intros [W1 W2 W3 W4 W5 W6] Hc. unfold range_ctor. split.
  - constructor; cbn [size csize cap cells err nctor ndtor nalloc]; auto; try lia.
    + intros j Hj. rewrite ltb_true by lia. auto.
    + intros j Hj. rewrite ltb_false by lia. auto.
  - apply abs_eq_spec; cbn [size csize cap cells err nctor ndtor nalloc]; auto.
    intros j Hj. rewrite ltb_true by lia. reflexivity.
Qed.

Lemma step2_post p o : wf2 p -> ok2 (abs2 p) o = true ->
  wf2 (step2 p o) /\ abs2 (step2 p o) = spec_step2 (abs2 p) o.
Proof.
  destruct p as [a b]. intros [Wa Wb] Hok. unfold abs2, wf2 in *. cbn [fst snd] in *.
  destruct (reborn_post a Wa) as (Wra & Ara). destruct (reborn_post b Wb) as (Wrb & Arb).
  destruct o; cbn [RVModel.step2 spec_step2 ok2 fst snd] in *;
    unfold move_ctor, move_xctor_same, move_xctor_diff, move_assign_same, swap_vec, flip;
    rewrite ?b_move_ctor_swaps, ?b_move_xctor_assigns, ?b_move_assign_swaps, ?b_swap_exchanges_all; cbn [fst snd].
  - rewrite abs_length in Hok. destruct (step_post a o Wa Hok) as (W1 & A1 & _). rewrite A1. auto.
  - rewrite abs_length in Hok. destruct (step_post b o Wb Hok) as (W1 & A1 & _). rewrite A1. auto.
  - auto.
  - destruct (assign_range_post a (abs b) Wa) as (W1 & A1 & _). rewrite A1. auto.
  - destruct (assign_range_post b (abs a) Wb) as (W1 & A1 & _). rewrite A1. auto.
  - destruct (clear_post a Wa) as (W1 & A1 & _). rewrite A1. auto.
  - destruct (clear_post b Wb) as (W1 & A1 & _). rewrite A1. auto.
  - destruct (assign_range_post a (abs b) Wa) as (W1 & A1 & _). destruct (clear_post b Wb) as (W2 & A2 & _).
    rewrite A1, A2. auto.
  - destruct (assign_range_post b (abs a) Wb) as (W1 & A1 & _). destruct (clear_post a Wa) as (W2 & A2 & _).
    rewrite A1, A2. auto.
  - destruct (range_ctor_post (reborn a) (abs b) Wra eq_refl) as (W1 & A1). rewrite A1. auto.
  - destruct (range_ctor_post (reborn b) (abs a) Wrb eq_refl) as (W1 & A1). rewrite A1. auto.
  - rewrite Ara. auto.
  - rewrite Arb. auto.
  - rewrite Ara. auto.
  - rewrite Arb. auto.
  - destruct (assign_range_post (reborn a) (abs b) Wra) as (W1 & A1 & _). destruct (clear_post b Wb) as (W2 & A2 & _).
    rewrite A1, A2. auto.
  - destruct (assign_range_post (reborn b) (abs a) Wrb) as (W1 & A1 & _). destruct (clear_post a Wa) as (W2 & A2 & _).
    rewrite A1, A2. auto.
Qed.

Lemma run2_post : forall ops p, wf2 p -> valid2 (abs2 p) ops = true ->
  wf2 (run2 p ops) /\ abs2 (run2 p ops) = fold_left spec_step2 ops (abs2 p).
Proof.
  induction ops as [|o t IH]; intros p W V; cbn [RVModel.run2 fold_left valid2] in *; auto.
  apply andb_prop in V. destruct V as [V1 V2].
  destruct (step2_post p o W V1) as (W1 & A1).
  rewrite <- A1 in *. apply IH; auto.
Qed.

(* ---- manager ---------------------------------------------------------------------------------------------------- *)
Notation mcycle := (RVModel.mcycle mva mvc smv).

Lemma from_meta_post m : wf (from_meta m) /\ abs (from_meta m) = [] /\ size (from_meta m) = 0 /\
  cap (from_meta m) = m /\ csize (from_meta m) = m.
Proof.
  unfold from_meta. rewrite b_meta_csize, b_meta_cap. repeat apply conj; try reflexivity.
  constructor; cbn [size csize cap cells err nctor ndtor nalloc]; try lia.
  - apply Bool.negb_false_iff, Nat.leb_le; lia.
  - intros j Hj. rewrite ltb_true by lia. auto.
  - intros j Hj. rewrite ltb_false by lia. auto.
Qed.

Lemma mcycle_post g ops : wf (inst g) -> valid (abs (inst g)) ops = true ->
  let w := run (inst g) ops in let g' := mcycle g ops in
  wf (inst g') /\ abs (inst g') = [] /\ csize w <= csize (inst g') /\ csize w <= cap (inst g') /\
  meta g <= meta g' /\ interval g' = interval g /\
  ((S (times g) < interval g /\ recreated g' = recreated g /\ times g' = S (times g) /\ meta g' = meta g /\
    cap (inst g') = cap w /\ csize (inst g') = csize w /\ nalloc (inst g') = nalloc w /\
    (forall j, cells (inst g') j = cells w j))
   \/
   (interval g <= S (times g) /\ recreated g' = S (recreated g) /\ times g' = 0 /\
    meta g' = Nat.max (csize w) (meta g) /\ cap (inst g') = meta g' /\ csize (inst g') = meta g')).
Proof.
  intros W V. destruct (run_post ops (inst g) W V) as (W1 & _). cbn zeta.
  unfold RVModel.mcycle, mclear. cbn [inst meta times interval recreated]. rewrite b_mgr_recreate.
  fold (run (inst g) ops). set (w := run (inst g) ops) in *.
  destruct (Nat.leb_spec (interval g) (S (times g))); cbn [inst meta times interval recreated].
  - unfold update_meta. rewrite b_meta_update.
    destruct (from_meta_post (Nat.max (csize w) (meta g))) as (F1 & F2 & F3 & F4 & F5).
    repeat apply conj; auto; try lia; try (right; repeat apply conj; auto; lia).
  - destruct (clear_keeps w W1) as (C1 & C2 & C3 & C4 & C5 & C6 & C7 & C8 & C9).
    assert (csize w <= cap w) by (destruct W1; auto).
    repeat apply conj; auto; try lia; try (left; repeat apply conj; auto; lia).
Qed.

(* ---- convergence: a workload that fits takes nothing from the resource ------------------------------------------------- *)
Definition is_reserve (o : op) : bool := match o with Reserve _ => true | _ => false end.
Definition reserve_free (ops : list op) : bool := forallb (fun o => negb (is_reserve o)) ops.

Lemma demand_le_len (l : list Z) o : is_reserve o = false -> okb (length l) o = true ->
  demand (length l) o <= length (spec_step l o).
Proof.
  intros R Hok. destruct o; cbn [demand spec_step okb is_reserve] in *; try discriminate; try lia;
  repeat (rewrite ?app_length, ?firstn_length, ?skipn_length, ?repeat_length; cbn [length]); try lia.
  all: try (apply Nat.leb_le in Hok; lia).
Qed.

Lemma peak_le_csize : forall ops s, reserve_free ops = true -> wf s -> valid (abs s) ops = true ->
  peak (abs s) ops <= csize (run s ops).
Proof.
  induction ops as [|o t IH]; intros s R W V; cbn [RVModel.run fold_left valid peak reserve_free forallb] in *; [lia|].
  apply andb_prop in V. destruct V as [V1 V2]. apply andb_prop in R. destruct R as [R1 R2].
  apply Bool.negb_true_iff in R1.
  pose proof (demand_le_len (abs s) o R1 V1) as D.
  rewrite abs_length in V1.
  destruct (step_post s o W V1) as (W1 & A1 & K1 & C1 & D1 & S1 & N1).
  rewrite <- A1 in *. fold (run (step s o) t).
  specialize (IH _ R2 W1 V2).
  destruct (run_post t _ W1 V2) as (_ & _ & _ & C2 & _).
  rewrite !abs_length in *. assert (size (step s o) <= csize (step s o)) by (destruct W1; auto).
  lia.
Qed.

Lemma converged_no_growth g ops : wf (inst g) -> abs (inst g) = [] -> valid [] ops = true ->
  let g1 := mcycle g ops in
  (recreated g1 = recreated g \/ reserve_free ops = true) ->
  nalloc (run (inst g1) ops) = nalloc (inst g1) /\ cap (run (inst g1) ops) = cap (inst g1).
Proof.
  intros W A V. cbn zeta. intros H.
  assert (V0 : valid (abs (inst g)) ops = true) by (rewrite A; auto).
  destruct (mcycle_post g ops W V0) as (W1 & A1 & C1 & K1 & M1 & I1 & D).
  destruct (run_post ops (inst g) W V0) as (Wr & _ & _ & _ & Pk & _). rewrite A in Pk.
  assert (V1 : valid (abs (inst (mcycle g ops))) ops = true) by (rewrite A1; auto).
  destruct (run_post ops _ W1 V1) as (_ & _ & _ & _ & _ & N). rewrite A1 in N. apply N.
  destruct D as [(D1 & D2 & D3 & D4 & D5 & _) | (D1 & D2 & D3 & D4 & D5 & D6)].
  - lia.
  - destruct H as [H|H]; [lia|].
    pose proof (peak_le_csize ops (inst g) H W V0) as Pc. rewrite A in Pc. lia.
Qed.

End Elem.

(* ---- non-vacuity ---- *)
Lemma window_example :
  let s := run (fun s _ => s) (fun v => v) (fun v => v) empty_vec [AssignRange [1;2;3;4;5]%Z; Erase 2 5; InsertN 1 2 9%Z] in
  (size s, csize s, cap s, abs s, stale s, err s) = (4, 5, 5, [1; 9; 9; 2]%Z, [3]%Z, false).
Proof. vm_compute. reflexivity. Qed.

(* ---- the statements exported to Properties_C12.v ---------------------------------------------------------------------------- *)
Section Export.
Variable mva : Z -> Z -> Z.
Variable mvc : Z -> Z.
Variable smv : Z -> Z.
Notation run := (RVModel.run mva mvc smv).
Notation run2 := (RVModel.run2 mva mvc smv).
Notation mcycle := (RVModel.mcycle mva mvc smv).

Lemma rv_refines_list ops s : wf s -> valid (abs s) ops = true ->
  abs (run s ops) = fold_left spec_step ops (abs s).
Proof. intros W V. apply (run_post mva mvc smv ops s W V). Qed.

Lemma rv_refines_list2 ops a b : wf a -> wf b -> valid2 (abs a, abs b) ops = true ->
  (abs (fst (run2 (a, b) ops)), abs (snd (run2 (a, b) ops))) = fold_left spec_step2 ops (abs a, abs b).
Proof. intros Wa Wb V. apply (run2_post mva mvc smv ops (a, b) (conj Wa Wb) V). Qed.

Lemma rv_inv ops s : wf s -> valid (abs s) ops = true ->
  let s' := run s ops in
  size s' <= csize s' /\ csize s' <= cap s' /\ err s' = false /\
  (forall j, j < csize s' -> exists v, cells s' j = Con v) /\ (forall j, csize s' <= j -> cells s' j = Raw) /\
  nctor s' = ndtor s' + csize s'.
Proof. intros W V. destruct (run_post mva mvc smv ops s W V) as ([W1 W2 W3 W4 W5 W6] & _). cbn zeta. auto 10. Qed.

Lemma rv_inv2 ops a b : wf a -> wf b -> valid2 (abs a, abs b) ops = true ->
  wf (fst (run2 (a, b) ops)) /\ wf (snd (run2 (a, b) ops)).
Proof. intros Wa Wb V. apply (run2_post mva mvc smv ops (a, b) (conj Wa Wb) V). Qed.

Lemma rv_capacity_never_shrinks ops s : wf s -> valid (abs s) ops = true ->
  cap s <= cap (run s ops) /\ csize s <= csize (run s ops).
Proof. intros W V. destruct (run_post mva mvc smv ops s W V) as (_ & _ & K & C & _). auto. Qed.

Lemma rv_ctor_dtor_balance ops s : wf s -> valid (abs s) ops = true ->
  let d := destroy_all (run s ops) in err d = false /\ nctor d = ndtor d /\ forall j, cells d j = Raw.
Proof. intros W V. destruct (run_post mva mvc smv ops s W V) as (W1 & _). apply destroy_all_balance; auto. Qed.

Lemma rv_fits_no_alloc ops s : wf s -> valid (abs s) ops = true ->
  peak (abs s) ops <= cap s -> nalloc (run s ops) = nalloc s /\ cap (run s ops) = cap s.
Proof. intros W V. apply (run_post mva mvc smv ops s W V). Qed.

Lemma rv_peak_le_cap ops s : wf s -> valid (abs s) ops = true ->
  peak (abs s) ops <= cap (run s ops).
Proof. intros W V. apply (run_post mva mvc smv ops s W V). Qed.
End Export.

(* the former counterexample (elements whose self-move-assignment is destructive): now a no-op *)
Lemma zero_insert_example :
  abs (run (fun _ _ => 0%Z) (fun _ => 0%Z) (fun _ => 0%Z) empty_vec [AssignRange [1; 2; 3]%Z; InsertN 1 0 9%Z; InsertRange 0 []])
  = [1; 2; 3]%Z.
Proof. vm_compute. reflexivity. Qed.

(* ---- a message rebuilt from metadata shows no sub-message as present, whatever was used before ---- *)
Lemma map_const_false {A} (l : list A) : map (fun _ => false) l = repeat false (length l).
Proof. induction l; simpl; congruence. Qed.

Lemma msg_recreate_fresh used : msg_recreate used = repeat false (length used).
Proof.
  unfold msg_recreate, msg_reserve. rewrite b_msg_reserve_clears, map_const_false.
  rewrite map_length, combine_length, map_length, Nat.min_id. reflexivity.
Qed.

(* ---- assignment from a foreign-allocator string keeps every byte, embedded NULs included ---- *)
Lemma str_assign_foreign_exact bs : str_assign_foreign bs = bs.
Proof. unfold str_assign_foreign. rewrite b_foreign_assign_len. reflexivity. Qed.
