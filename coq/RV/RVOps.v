(* C12 - per-operation lemmas for RV/RVModel.v (used by RVProofs.v). *)
From Coq Require Import ZArith List Bool Arith Lia.
Require Import Verif.Gen.Gen_reusable_vector Verif.RV.RVModel Verif.RV.RVLoops.
Import ListNotations.

Ltac cases := repeat (match goal with
  | |- context [Nat.leb ?a ?b] => destruct (Nat.leb_spec a b)
  | |- context [Nat.ltb ?a ?b] => destruct (Nat.ltb_spec a b)
  | |- context [Nat.eqb ?a ?b] => destruct (Nat.eqb_spec a b)
  end; simpl; try lia); auto.

(* ---- lists ------------------------------------------------------------------------------------------ *)
Lemma nth_firstn_lt (l : list Z) : forall n j, j < n -> nth j (firstn n l) 0%Z = nth j l 0%Z.
Proof. induction l; intros [|n] [|j] H; simpl; auto; try lia. apply IHl; lia. Qed.
Lemma nth_skipn_add (l : list Z) : forall n j, nth j (skipn n l) 0%Z = nth (n + j) l 0%Z.
Proof. induction l; intros [|n] j; simpl; auto. destruct j; auto. Qed.

Lemma nth_splice (l vs : list Z) i k j : i <= length l ->
  nth j (firstn i l ++ vs ++ skipn k l) 0%Z =
  if j <? i then nth j l 0%Z else if j <? i + length vs then nth (j - i) vs 0%Z else nth (k + (j - i - length vs)) l 0%Z.
Proof.
  intros Hi. assert (L : length (firstn i l) = i) by (rewrite firstn_length; lia).
  destruct (Nat.ltb_spec j i).
  - rewrite app_nth1 by lia. apply nth_firstn_lt; auto.
  - rewrite app_nth2 by lia. rewrite L. destruct (Nat.ltb_spec j (i + length vs)).
    + rewrite app_nth1 by lia. reflexivity.
    + rewrite app_nth2 by lia. rewrite nth_skipn_add. reflexivity.
Qed.

Lemma length_splice (l vs : list Z) i k : i <= length l ->
  length (firstn i l ++ vs ++ skipn k l) = i + length vs + (length l - k).
Proof. intros. rewrite !app_length, firstn_length, skipn_length. lia. Qed.

Lemma abs_eq_spec s' (l' : list Z) : length l' = size s' ->
  (forall j, j < size s' -> valof (cells s' j) = nth j l' 0%Z) -> abs s' = l'.
Proof.
  intros H1 H2. apply list_eq_nth. - rewrite abs_length; auto.
  - intros j Hj. rewrite abs_length in Hj. rewrite abs_nth by auto. auto.
Qed.

Lemma nth_abs s j : j < size s -> nth j (abs s) 0%Z = valof (cells s j).
Proof. apply abs_nth. Qed.

Section Elem.
Variable mva : Z -> Z -> Z.
Variable mvc : Z -> Z.
Variable smv : Z -> Z.

Notation emplace_back := (RVModel.emplace_back).
Notation prepare_for_insert := (RVModel.prepare_for_insert mva mvc smv).
Notation insert_range := (RVModel.insert_range mva mvc smv).
Notation emplace := (RVModel.emplace mva mvc smv).
Notation erase := (RVModel.erase mva smv).
Notation step := (RVModel.step mva mvc smv).
Notation run := (RVModel.run mva mvc smv).


(* what every operation guarantees: invariant, contents, capacities never shrink, and no storage is taken
   from the resource when the demand fits the capacity *)
Definition opost (s s' : vec) (l' : list Z) (need : nat) : Prop :=
  wf s' /\ abs s' = l' /\ cap s <= cap s' /\ csize s <= csize s' /\ need <= cap s' /\ size s' <= Nat.max (size s) need /\
  (need <= cap s -> nalloc s' = nalloc s /\ cap s' = cap s).

Lemma reserve_post s n : wf s -> opost s (reserve s n) (abs s) n.
Proof.
  intros W. destruct (reserve_spec s n W) as (W' & S & C & K & P & A).
  unfold opost. split; auto. split. { apply abs_ext; auto. }
  repeat split; try lia.
Qed.

(* the second half of emplace_back, with room for one more *)
Lemma push_spec s v : wf s -> size s < cap s ->
  let s' := if eb_reuse_cond (zz (csize s)) (zz (size s))
            then set_size (assign s (size s) v) (S (size s))
            else inc_csize (set_size (construct s (size s) v) (S (size s))) in
  wf s' /\ abs s' = abs s ++ [v] /\ cap s' = cap s /\ csize s <= csize s' /\ nalloc s' = nalloc s /\ size s' = S (size s).
Proof.
  intros W Hlt. destruct W as [W1 W2 W3 W4 W5 W6]. rewrite b_eb_reuse.
  destruct (Nat.ltb_spec (size s) (csize s)); cbn zeta.
  - rewrite assign_ok by (auto; lia). split; [|split].
    + constructor; cbn; auto; try lia.
      * intros j Hj. unfold setc. destruct (Nat.eqb_spec j (size s)); auto.
      * intros j Hj. unfold setc. destruct (Nat.eqb_spec j (size s)); auto; lia.
    + apply abs_eq_spec; cbn. { rewrite app_length, abs_length; simpl; lia. }
      intros j Hj. unfold setc. destruct (Nat.eqb_spec j (size s)).
      * subst. rewrite app_nth2 by (rewrite abs_length; lia). rewrite abs_length, Nat.sub_diag. reflexivity.
      * rewrite app_nth1 by (rewrite abs_length; lia). rewrite nth_abs by lia. reflexivity.
    + cbn. repeat split; lia.
  - assert (size s = csize s) by lia.
    rewrite construct_ok by (auto; try lia; apply W5; lia). split; [|split].
    + constructor; cbn; auto; try lia.
      * intros j Hj. unfold setc. destruct (Nat.eqb_spec j (size s)); auto. apply W4; lia.
      * intros j Hj. unfold setc. destruct (Nat.eqb_spec j (size s)); auto; try lia. apply W5; lia.
    + apply abs_eq_spec; cbn. { rewrite app_length, abs_length; simpl; lia. }
      intros j Hj. unfold setc. destruct (Nat.eqb_spec j (size s)).
      * subst. rewrite app_nth2 by (rewrite abs_length; lia). rewrite abs_length, Nat.sub_diag. reflexivity.
      * rewrite app_nth1 by (rewrite abs_length; lia). rewrite nth_abs by lia. reflexivity.
    + cbn. repeat split; lia.
Qed.

Lemma emplace_back_post s v : wf s -> opost s (emplace_back s v) (abs s ++ [v]) (S (size s)).
Proof.
  intros W. unfold RVModel.emplace_back. rewrite b_eb_grow_cond.
  destruct (Nat.eqb_spec (size s) (cap s)) as [E|E].
  - pose proof (b_eb_grow_arg (cap s)) as G.
    destruct (reserve_spec s (nn (eb_grow_arg (zz (cap s)))) W) as (W' & S & C & K & P & A).
    set (s1 := reserve s _) in *.
    destruct (push_spec s1 v W') as (W2 & A2 & K2 & C2 & N2 & S2). { lia. }
    unfold opost. split; auto. split. { rewrite A2. f_equal. apply abs_ext; auto. }
    repeat split; try lia.
  - assert (size s < cap s) by (destruct W; lia).
    destruct (push_spec s v W) as (W2 & A2 & K2 & C2 & N2 & S2); auto.
    unfold opost. split; auto. split; auto. repeat split; try lia.
Qed.

(* ---- prepare_for_insert -------------------------------------------------------------------------------- *)
Lemma pfi_spec s index count : wf s -> index <= size s ->
  let s' := fst (prepare_for_insert s index count) in
  snd (prepare_for_insert s index count) = Nat.min (index + count) (csize s) /\
  err s' = false /\ size s' = size s + count /\ cap s' = Nat.max (cap s) (size s + count) /\
  (size s + count <= cap s -> nalloc s' = nalloc s) /\
  csize s' = csize s + (size s + count - Nat.max (index + count) (csize s)) /\
  nctor s' = ndtor s' + csize s' /\
  (forall p, (p < index -> cells s' p = cells s p) /\
             (index + count <= p < size s + count -> cells s' p = Con (valof (cells s (p - count)))) /\
             (index <= p < index + count \/ size s + count <= p ->
                if p <? csize s then isCon (cells s' p) else cells s' p = Raw)).
Proof.
  intros W Hi. unfold RVModel.prepare_for_insert. rewrite b_pfi_zero_cond.
  destruct (Nat.eqb_spec count 0) as [Z|NZ].
  { (* zero elements: early return, the vector is untouched *)
    subst count. rewrite b_pfi_zero_ret. cbn [fst snd]. destruct W as [W1 W2 W3 W4 W5 W6].
    rewrite !Nat.add_0_r. repeat apply conj; auto; try lia.
    intros p; repeat apply conj; intros Hp; auto.
    - rewrite Nat.sub_0_r. apply isCon_valof, W4; lia.
    - destruct (Nat.ltb_spec p (csize s)); [apply W4 | apply W5]; lia. }
  bridge.
  destruct (reserve_spec s (size s + count) W) as (W0 & S0 & C0 & K0 & P0 & A0).
  set (s0 := reserve s (size s + count)) in *.
  rewrite S0, C0. cbn [fst snd]. split; [reflexivity|].
  set (me := Nat.max (index + count) (csize s)).
  destruct W as [W1 W2 W3 W4 W5 W6]. destruct W0 as [V1 V2 V3 V4 V5 V6].
  assert (Hc : 1 <= count) by lia.
  destruct (loop1_spec mvc count Hc (size s + count - me) (size s + count) s0) as (F & C & N & P).
    { lia. } { unfold me; lia. } { unfold me; lia. }
    { intros p Hp. apply V5. unfold me in *; lia. }
    { intros p Hp. apply V4. unfold me in *; lia. }
    set (s1 := down_iter _ _ _ s0) in *. destruct F as (F1 & F2 & F3 & F4 & F5).
    assert (Q1 : forall p, p < me - count \/ (size s <= p /\ p < me) \/ size s + count <= p -> cells s1 p = cells s p).
    { intros p Hp. rewrite P, P0. unfold me in *. cases. }
    assert (Q2 : forall p, p < csize s -> isCon (cells s1 p)).
    { intros p Hp. rewrite P. unfold me in *. cases; rewrite P0; auto. }
    destruct (Nat.eq_dec (me - (index + count)) 0) as [E2|E2].
    + rewrite E2. cbn [down_iter err size cap nalloc csize nctor ndtor cells set_size].
      repeat apply conj; try lia; try congruence.
      intros p; repeat apply conj; intros Hp.
      * apply Q1. unfold me in *; lia.
      * rewrite P, P0. unfold me in *. cases.
      * unfold me in *. destruct (Nat.ltb_spec p (csize s)); [apply Q2; auto|].
        rewrite Q1 by lia. apply W5; lia.
    + assert (Eme : me = csize s) by (unfold me in *; lia).
      destruct (loop2_spec mva smv count Hc (me - (index + count)) me s1) as (G & C' & N' & P').
      { lia. } { lia. } { intros p Hp. apply Q2. lia. }
      set (s2 := down_iter _ _ _ s1) in *. destruct G as (G1 & G2 & G3 & G4 & G5).
      cbn [err size cap nalloc csize nctor ndtor cells set_size].
      repeat apply conj; try lia; try congruence.
      intros p; repeat apply conj; intros Hp.
      * destruct (P' p) as (_ & _ & P3). rewrite P3 by lia. apply Q1. lia.
      * destruct (P' p) as (P1' & _ & P3).
        destruct (Nat.ltb_spec p me).
        -- rewrite P1' by lia. rewrite Q1 by lia. reflexivity.
        -- rewrite P3 by lia. rewrite P, P0. cases.
      * destruct (P' p) as (_ & P2' & P3).
        destruct (Nat.ltb_spec p (csize s)); [apply P2', Q2; auto|].
        rewrite P3 by lia. rewrite Q1 by lia. apply W5; lia.
Qed.
End Elem.

Lemma nth_repeat_lt (v : Z) : forall m j, j < m -> nth j (repeat v m) 0%Z = v.
Proof. induction m; intros [|j] H; simpl; auto; try lia. apply IHm; lia. Qed.

Lemma inr_true a b j : a <= j < b -> (a <=? j) && (j <? b) = true.
Proof. intros. destruct (Nat.leb_spec a j), (Nat.ltb_spec j b); simpl; auto; lia. Qed.
Lemma inr_false a b j : j < a \/ b <= j -> (a <=? j) && (j <? b) = false.
Proof. intros. destruct (Nat.leb_spec a j), (Nat.ltb_spec j b); simpl; auto; lia. Qed.
Lemma ltb_true a b : a < b -> (a <? b) = true.
Proof. apply Nat.ltb_lt. Qed.
Lemma ltb_false a b : b <= a -> (a <? b) = false.
Proof. apply Nat.ltb_ge. Qed.

Section Elem.
Variable mva : Z -> Z -> Z.
Variable mvc : Z -> Z.
Variable smv : Z -> Z.

Notation prepare_for_insert := (RVModel.prepare_for_insert mva mvc smv).
Notation insert_range := (RVModel.insert_range mva mvc smv).
Notation emplace := (RVModel.emplace mva mvc smv).
Notation erase := (RVModel.erase mva smv).
Notation step := (RVModel.step mva mvc smv).
Notation run := (RVModel.run mva mvc smv).

Lemma insert_core s index vs : wf s -> index <= size s ->
  opost s (fill vs index (snd (prepare_for_insert s index (length vs))) (fst (prepare_for_insert s index (length vs))))
        (firstn index (abs s) ++ vs ++ skipn index (abs s)) (size s + length vs).
Proof.
  intros W Hi.
  destruct (pfi_spec mva mvc smv s index (length vs) W Hi) as (R & E & S & K & A & C & N & P).
  set (s1 := fst _) in *. rewrite R.
  destruct (fill_spec vs index (Nat.min (index + length vs) (csize s)) s1) as (F & C2 & N2 & P2).
  { lia. }
  { intros p Hp. destruct (P p) as (_ & _ & P3). specialize (P3 (or_introl Hp)).
    destruct (Nat.ltb_spec p (csize s)), (Nat.ltb_spec p (Nat.min (index + length vs) (csize s))); auto; lia. }
  set (s2 := fill _ _ _ s1) in *. destruct F as (F1 & F2 & F3 & F4 & F5).
  destruct W as [W1 W2 W3 W4 W5 W6].
  assert (CS : csize s2 = Nat.max (csize s) (size s + length vs)).
  { rewrite C2, C. destruct (Nat.le_ge_cases (index + length vs) (csize s)).
    - rewrite (Nat.min_l (index + length vs)), (Nat.max_r (index + length vs)) by lia.
      rewrite Nat.min_id, (Nat.max_r index) by lia. lia.
    - rewrite (Nat.min_r (index + length vs)), (Nat.max_l (index + length vs)) by lia.
      rewrite (Nat.min_l (csize s)), (Nat.max_r index) by lia. lia. }
  assert (BAL : nctor s2 = ndtor s2 + csize s2) by (rewrite N2, C2, F5, N; ring).
  clearbody s2 s1. clear C2 N2 N C.
  unfold opost. repeat apply conj; try lia.
  - constructor; try lia; try congruence; try exact BAL.
    + intros j Hj. rewrite P2. destruct (P j) as (Pa & Pb & Pc).
      destruct (Nat.lt_ge_cases j index); [rewrite inr_false by lia; rewrite Pa by lia; apply W4; lia|].
      destruct (Nat.lt_ge_cases j (index + length vs)); [rewrite inr_true by lia; auto|].
      rewrite inr_false by lia.
      destruct (Nat.lt_ge_cases j (size s + length vs)); [rewrite Pb by lia; auto|].
      specialize (Pc (or_intror H1)). rewrite ltb_true in Pc by lia. exact Pc.
    + intros j Hj. rewrite P2. destruct (P j) as (Pa & Pb & Pc). rewrite inr_false by lia.
      assert (Hq : size s + length vs <= j) by lia. specialize (Pc (or_intror Hq)).
      rewrite ltb_false in Pc by lia. exact Pc.
  - apply abs_eq_spec. { rewrite length_splice, abs_length by (rewrite abs_length; lia). lia. }
    intros j Hj. rewrite nth_splice by (rewrite abs_length; lia).
    rewrite P2. destruct (P j) as (Pa & Pb & Pc).
    destruct (Nat.lt_ge_cases j index).
    { rewrite inr_false, ltb_true by lia. rewrite Pa by lia. rewrite nth_abs by lia. reflexivity. }
    rewrite (ltb_false j index) by lia.
    destruct (Nat.lt_ge_cases j (index + length vs)).
    { rewrite inr_true, ltb_true by lia. reflexivity. }
    rewrite inr_false, ltb_false by lia.
    rewrite Pb by lia. rewrite nth_abs by lia. simpl. f_equal. f_equal. lia.
Qed.

Lemma insert_range_post s index vs fe : wf s -> index <= size s ->
  (forall a b, nn (fe (zz a) (zz b)) = a + b) ->
  opost s (insert_range s index vs fe) (firstn index (abs s) ++ vs ++ skipn index (abs s)) (size s + length vs).
Proof.
  intros W Hi Hfe. pose proof (insert_core s index vs W Hi) as H.
  unfold RVModel.insert_range. destruct (prepare_for_insert s index (length vs)) as [s1 re].
  cbn [fst snd] in H. rewrite Hfe. replace (index + length vs - index) with (length vs) by lia.
  rewrite firstn_all, Nat.eqb_refl. exact H.
Qed.

Lemma emplace_post s index v : wf s -> index <= size s ->
  opost s (emplace s index v) (firstn index (abs s) ++ v :: skipn index (abs s)) (S (size s)).
Proof.
  intros W Hi. pose proof (insert_core s index [v] W Hi) as H. cbn [length] in H.
  unfold RVModel.emplace. destruct (prepare_for_insert s index 1) as [s1 re].
  cbn [fst snd length fill] in H. rewrite b_emplace_reuse.
  replace (S (size s)) with (size s + 1) by lia. apply H.
Qed.
End Elem.
