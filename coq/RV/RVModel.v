(* C12 - executable model of babylon::ReusableVector (src/babylon/reusable/vector.hpp) and of the
   ReusableManager clear / recreate cycle (src/babylon/reusable/manager.hpp).  No proofs in this file.

   A vector is (size, constructed_size, capacity, cells) where every cell of the current buffer carries the
   ghost state Raw (allocated, no object) / Con v (a live element holding v).  Every primitive the C++ code
   performs on a cell checks the ghost discipline and raises [err] when it is broken:
     construct / move-construct  onto a Con cell     (construct over a live object)
     assign / reconstruct / move-assign / read / destroy of a Raw cell
     any access at an index >= capacity.
   Ghost counters: nctor / ndtor (element constructor / destructor calls), nalloc (element slots taken from
   the monotonic resource; the old buffer is never given back).

   Integer expressions, branch conditions, loop bounds and move sources are the regenerated definitions of
   Gen_reusable_vector.v (Z terms), used through of_nat / to_nat.

   The element type is abstract: a value is a Z; what is left in the *source* of a move is given by three
   section variables (never observable through size-bounded accessors unless the move is a self-move):
     mva src dst : value left in the source of  dst = std::move(src)   (src <> dst)
     mvc src     : value left in the source of  new (dst) T(std::move(src))
     smv v       : value of x after  x = std::move(x)   (identity for int / SwissString / nested ReusableVector,
                   "" for std::basic_string of libstdc++); no operation of the vector performs a self-move any more
                   (prepare_for_insert returns early for count == 0), the case is kept in move_assign for faithfulness. *)
From Coq Require Import ZArith List Bool Arith.
Require Import Verif.Gen.Gen_reusable_vector.
Import ListNotations.

Inductive cell := Raw | Con (v : Z).

Record vec := mkVec {
  size : nat; csize : nat; cap : nat; cells : nat -> cell;
  err : bool; nctor : nat; ndtor : nat; nalloc : nat }.

Definition zz (n : nat) : Z := Z.of_nat n.
Definition nn (z : Z) : nat := Z.to_nat z.

Definition dflt : Z := 0%Z.                      (* value of a value-initialised / freshly constructed element *)

Definition setc (f : nat -> cell) (i : nat) (c : cell) : nat -> cell :=
  fun j => if Nat.eqb j i then c else f j.

Definition valof (c : cell) : Z := match c with Con v => v | Raw => (-1)%Z end.

Definition empty_vec : vec := mkVec 0 0 0 (fun _ => Raw) false 0 0 0.

Definition fail (s : vec) : vec :=
  mkVec (size s) (csize s) (cap s) (cells s) true (nctor s) (ndtor s) (nalloc s).
Definition set_size (s : vec) (n : nat) : vec :=
  mkVec n (csize s) (cap s) (cells s) (err s) (nctor s) (ndtor s) (nalloc s).
Definition inc_csize (s : vec) : vec :=
  mkVec (size s) (S (csize s)) (cap s) (cells s) (err s) (nctor s) (ndtor s) (nalloc s).
Definition put (s : vec) (i : nat) (c : cell) (dc dd : nat) : vec :=
  mkVec (size s) (csize s) (cap s) (setc (cells s) i c) (err s) (nctor s + dc) (ndtor s + dd) (nalloc s).

(* abstraction: the observable contents *)
Definition abs (s : vec) : list Z := map (fun j => valof (cells s j)) (seq 0 (size s)).
(* the constructed but logically removed tail (observable only through data()[i], i >= size) *)
Definition stale (s : vec) : list Z := map (fun j => valof (cells s j)) (seq (size s) (csize s - size s)).

Section Elem.
Variable mva : Z -> Z -> Z.
Variable mvc : Z -> Z.
Variable smv : Z -> Z.

(* ---- primitives on one cell ------------------------------------------------------------------ *)
Definition construct (s : vec) (i : nat) (v : Z) : vec :=
  if i <? cap s then match cells s i with Raw => put s i (Con v) 1 0 | Con _ => fail s end else fail s.

(* reconstruct(x, v) / x = v  on a live element *)
Definition assign (s : vec) (i : nat) (v : Z) : vec :=
  if i <? cap s then match cells s i with Con _ => put s i (Con v) 0 0 | Raw => fail s end else fail s.

(* new (&data[d]) T(std::move(data[src])) *)
Definition move_construct (s : vec) (d src : nat) : vec :=
  if (d <? cap s) && (src <? cap s) then
    match cells s d, cells s src with
    | Raw, Con v => put (put s d (Con v) 1 0) src (Con (mvc v)) 0 0
    | _, _ => fail s
    end
  else fail s.

(* data[d] = std::move(data[src]) *)
Definition move_assign (s : vec) (d src : nat) : vec :=
  if (d <? cap s) && (src <? cap s) then
    match cells s d, cells s src with
    | Con vd, Con vs =>
        if Nat.eqb d src then put s d (Con (smv vd)) 0 0
        else put (put s d (Con vs) 0 0) src (Con (mva vs vd)) 0 0
    | _, _ => fail s
    end
  else fail s.

Definition destroy (s : vec) (i : nat) : vec :=
  if i <? cap s then match cells s i with Con _ => put s i Raw 0 1 | Raw => fail s end else fail s.

(* ---- loops -------------------------------------------------------------------------------------- *)
(* for (i = start; <k iterations>; ++i) body(i) *)
Fixpoint up_iter (k i : nat) (body : vec -> nat -> vec) (s : vec) : vec :=
  match k with 0 => s | S k' => up_iter k' (S i) body (body s i) end.
(* for (i = start; <k iterations>;) { --i; body(i) } *)
Fixpoint down_iter (k i : nat) (body : vec -> nat -> vec) (s : vec) : vec :=
  match k with 0 => s | S k' => down_iter k' (i - 1) body (body s (i - 1)) end.

(* ---- reserve ------------------------------------------------------------------------------------ *)
(* new buffer from the resource; every constructed element is move-constructed into it and the old one
   destroyed; the old buffer is abandoned (monotonic resource) *)
Fixpoint reserve_loop (k i : nat) (old nb : nat -> cell) (e : bool) : (nat -> cell) * bool :=
  match k with
  | 0 => (nb, e)
  | S k' => match old i with
            | Con v => reserve_loop k' (S i) old (setc nb i (Con v)) e
            | Raw => reserve_loop k' (S i) old nb true
            end
  end.

Definition reserve (s : vec) (n : nat) : vec :=
  if reserve_skip_cond (zz (cap s)) (zz n) then s else
  (* iterations of  for (i = 0; i < _constructed_size; ++i)  ; shape of the condition: RVProofs.reserve_loop_shape *)
  let k := csize s in
  let '(nb, e) := reserve_loop k 0 (cells s) (fun _ => Raw) (err s) in
  let e' := e || negb (k <=? n) in            (* writing new_data[i], i >= min_capacity *)
  mkVec (size s) (csize s) (nn (reserve_new_capacity (zz n))) nb e' (nctor s + k) (ndtor s + k) (nalloc s + n).

(* ---- emplace_back / pop_back -------------------------------------------------------------------- *)
Definition emplace_back (s : vec) (v : Z) : vec :=
  let s := if eb_grow_cond (zz (size s)) (zz (cap s)) then reserve s (nn (eb_grow_arg (zz (cap s)))) else s in
  if eb_reuse_cond (zz (csize s)) (zz (size s))
  then set_size (assign s (size s) v) (S (size s))
  else inc_csize (set_size (construct s (size s) v) (S (size s))).

Definition pop_back (s : vec) : vec :=
  match size s with 0 => fail s | S n => set_size s n end.

(* ---- prepare_for_insert ------------------------------------------------------------------------- *)
Definition prepare_for_insert (s : vec) (index count : nat) : vec * nat :=
  (* if (count == 0) return min(index, _constructed_size);   nothing is moved, nothing is self-move-assigned *)
  if pfi_zero_cond (zz count) then (s, nn (pfi_zero_ret (zz index) (zz (csize s)))) else
  let s := reserve s (nn (pfi_reserve_arg (zz (size s)) (zz count))) in
  let me := nn (pfi_move_end (zz index) (zz count) (zz (csize s))) in
  let re := nn (pfi_recon_end (zz index) (zz count) (zz (csize s))) in
  let i1 := nn (pfi_loop1_start (zz (size s)) (zz count)) in
  (* for (i = _size + count; i > move_end_size;) { --i; construct(&data[i], move(data[i - count])); ++_constructed_size; } *)
  let s := down_iter (i1 - me) i1
             (fun st i => inc_csize (move_construct st i (nn (pfi_construct_src (zz i) (zz count))))) s in
  (* for (i = move_end_size; i > index + count;) { --i; data[i] = move(data[i - count]); } *)
  let i2 := nn (pfi_loop2_start (zz me)) in
  let s := down_iter (i2 - (index + count)) i2
             (fun st i => move_assign st i (nn (pfi_assign_src (zz i) (zz count)))) s in
  (set_size s (size s + nn (pfi_new_size (zz count))), re).

(* the two loops of insert(pos, count, value) / insert(pos, first, last) over the successive positions *)
Fixpoint fill (vs : list Z) (i re : nat) (s : vec) : vec :=
  match vs with
  | [] => s
  | v :: t => fill t (S i) re (if i <? re then assign s i v else inc_csize (construct s i v))
  end.

Definition insert_range (s : vec) (index : nat) (vs : list Z) (fill_end : Z -> Z -> Z) : vec :=
  let count := length vs in
  let '(s, re) := prepare_for_insert s index count in
  (* positions [index, re) reconstruct, [re, index + count) construct *)
  let e := nn (fill_end (zz index) (zz count)) in
  let s := fill (firstn (e - index) vs) index re s in
  if Nat.eqb e (index + count) then s else fail s.

Definition emplace (s : vec) (index : nat) (v : Z) : vec :=
  let '(s, re) := prepare_for_insert s index 1 in
  if emplace_reuse_cond (zz index) (zz re) then assign s index v else inc_csize (construct s index v).

(* ---- erase -------------------------------------------------------------------------------------- *)
Definition erase (s : vec) (first last : nat) : vec :=
  if Nat.eqb first last then s else
  let s := up_iter (size s - last) last (fun st src => move_assign st (src - (last - first)) src) s in
  set_size s (size s - nn (erase_new_size_delta (zz last) (zz first))).

(* ---- resize ------------------------------------------------------------------------------------- *)
Definition resize_with (s : vec) (count : nat) (v : Z) (grow : Z -> Z -> bool) (rend : Z -> Z -> Z) : vec :=
  let s := reserve s count in
  let s := if grow (zz (size s)) (zz count)
           then fill (repeat v (count - size s)) (size s) (nn (rend (zz (csize s)) (zz count))) s
           else s in
  set_size s count.

Definition clear (s : vec) : vec := set_size s (nn clear_new_size).

Definition assign_range (s : vec) (vs : list Z) : vec :=
  fold_left emplace_back vs (reserve (clear s) (length vs)).

(* ~ReusableVector for a non trivially destructible element type *)
Definition destroy_all (s : vec) : vec := up_iter (csize s) 0 destroy s.

(* ReusableVector(const AllocationMetadata&, allocator) ; update_allocation_metadata *)
Definition from_meta (m : nat) : vec :=
  let c := nn (meta_ctor_csize (zz m)) in
  let k := nn (meta_ctor_capacity (zz m)) in
  mkVec 0 c k (fun j => if j <? c then Con dflt else Raw) (negb (c <=? k)) c 0 k.
Definition update_meta (s : vec) (m : nat) : nat := nn (meta_update_capacity (zz (csize s)) (zz m)).

(* ---- operations --------------------------------------------------------------------------------- *)
Inductive op :=
| PushBack (v : Z) | PopBack
| Insert (i : nat) (v : Z) | InsertN (i n : nat) (v : Z) | InsertRange (i : nat) (vs : list Z)
| Erase (i j : nat)
| Resize (n : nat) | ResizeV (n : nat) (v : Z)
| Reserve (n : nat) | Clear
| AssignN (n : nat) (v : Z) | AssignRange (vs : list Z) | AssignCount (n : nat)
| SetAt (i : nat) (v : Z).

(* preconditions of the standard container operations (anything else is undefined behaviour) *)
Definition okb (sz : nat) (o : op) : bool :=
  match o with
  | PopBack => 0 <? sz
  | Insert i _ | InsertN i _ _ | InsertRange i _ => i <=? sz
  | Erase i j => (i <=? j) && (j <=? sz)
  | SetAt i _ => i <? sz
  | _ => true
  end.

Definition step (s : vec) (o : op) : vec :=
  if negb (okb (size s) o) then fail s else
  match o with
  | PushBack v => emplace_back s v
  | PopBack => pop_back s
  | Insert i v => emplace s i v
  | InsertN i n v => insert_range s i (repeat v n) ins_fill_end
  | InsertRange i vs => insert_range s i vs insr_fill_end
  | Erase i j => erase s i j
  | Resize n => resize_with s n dflt resize_grow_cond resize_recon_end
  | ResizeV n v => resize_with s n v resizev_grow_cond resizev_recon_end
  | Reserve n => reserve s n
  | Clear => clear s
  | AssignN n v => assign_range s (repeat v n)
  | AssignRange vs => assign_range s vs
  | AssignCount n => resize_with (clear s) n dflt resize_grow_cond resize_recon_end
  | SetAt i v => assign s i v
  end.

Definition run (s : vec) (ops : list op) : vec := fold_left step ops s.

(* ---- whole-object operations on two vectors: special member functions, swap ------------------------------ *)
(* an object is destroyed and its name re-used for a newly constructed one: ~ReusableVector, then the delegated
   ReusableVector(allocator) : empty, no storage.  The ghost counters of the destroyed object are carried over so that
   the totals stay comparable with the implementation. *)
Definition reborn (s : vec) : vec :=
  let d := destroy_all s in mkVec 0 0 0 (fun _ => Raw) (err d) (nctor d) (ndtor d) (nalloc d).

(* ReusableVector(first, last, allocator) on a new object: exactly n slots, all constructed (copy constructors) *)
Definition range_ctor (r : vec) (vs : list Z) : vec :=
  let n := length vs in
  mkVec n n n (fun j => if j <? n then Con (nth j vs 0%Z) else Raw) (err r) (nctor r + n) (ndtor r) (nalloc r + n).

(* a.swap(b): data, capacity, size AND constructed_size change hands (regenerated: swap_exchanges_all) *)
Definition swap_vec (a b : vec) : vec * vec := if swap_exchanges_all then (b, a) else (fail a, fail b).

Inductive op2 :=
| OnA (o : op) | OnB (o : op)
| Swap                      (* a.swap(b) / swap(a, b) / std::swap(a, b) (= move ctor + two move assignments) *)
| CopyAB | CopyBA           (* a = b : assign(b.begin(), b.end()), any allocators *)
| MoveAB | MoveBA           (* a = std::move(b), same allocator: swap; followed by b.clear() (b unspecified for std) *)
| MoveABx | MoveBAx         (* a = std::move(b), different allocators: element-wise; followed by b.clear() *)
| CCtorAB | CCtorBA         (* a replaced by a copy-constructed object (plain or allocator-extended, any allocator) *)
| MCtorAB | MCtorBA         (* a replaced by ReusableVector(std::move(b)) : the source must be left empty and usable *)
| MXCtorAB | MXCtorBA       (* a replaced by ReusableVector(std::move(b), alloc), alloc == b's allocator *)
| MXCtorABx | MXCtorBAx.    (* same with a different allocator: element-wise; followed by b.clear() *)

Definition move_assign_same (a b : vec) : vec * vec :=
  if move_assign_swaps then swap_vec a b else (fail a, fail b).
(* plain move constructor: delegates to ReusableVector(other.get_allocator()) and swaps (regenerated: move_ctor_swaps) *)
Definition move_ctor (e b : vec) : vec * vec :=
  if move_ctor_swaps then swap_vec e b else (fail e, fail b).
(* allocator-extended move constructor: ReusableVector(allocator), then *this = std::move(other) *)
Definition move_xctor_same (e b : vec) : vec * vec :=
  if move_xctor_assigns then move_assign_same e b else (fail e, fail b).
Definition move_xctor_diff (e b : vec) : vec * vec :=
  if move_xctor_assigns then (assign_range e (abs b), b) else (fail e, fail b).

Definition flip {A} (p : A * A) : A * A := (snd p, fst p).

Definition step2 (p : vec * vec) (o : op2) : vec * vec :=
  let '(a, b) := p in
  match o with
  | OnA o => (step a o, b)
  | OnB o => (a, step b o)
  | Swap => swap_vec a b
  | CopyAB => (assign_range a (abs b), b)
  | CopyBA => (a, assign_range b (abs a))
  | MoveAB => let q := move_assign_same a b in (fst q, clear (snd q))
  | MoveBA => let q := move_assign_same b a in (clear (snd q), fst q)
  | MoveABx => (assign_range a (abs b), clear b)
  | MoveBAx => (clear a, assign_range b (abs a))
  | CCtorAB => (range_ctor (reborn a) (abs b), b)
  | CCtorBA => (a, range_ctor (reborn b) (abs a))
  | MCtorAB => move_ctor (reborn a) b
  | MCtorBA => flip (move_ctor (reborn b) a)
  | MXCtorAB => move_xctor_same (reborn a) b
  | MXCtorBA => flip (move_xctor_same (reborn b) a)
  | MXCtorABx => let q := move_xctor_diff (reborn a) b in (fst q, clear (snd q))
  | MXCtorBAx => let q := move_xctor_diff (reborn b) a in (clear (snd q), fst q)
  end.

Definition run2 (p : vec * vec) (ops : list op2) : vec * vec := fold_left step2 ops p.

(* ---- manager: one managed vector ------------------------------------------------------------------ *)
Record mgr := mkMgr { inst : vec; meta : nat; times : nat; interval : nat; recreated : nat }.

Definition mgr_init (itv : nat) : mgr := mkMgr empty_vec 0 0 itv 0.

(* ReusableManager::clear : every interval-th call extracts the capacity, releases the resource and rebuilds
   the instance from the metadata; otherwise Reuse::reconstruct(instance) = instance.clear() *)
Definition mclear (g : mgr) : mgr :=
  if mgr_recreate_cond (zz (times g)) (zz (interval g))
  then let m := update_meta (inst g) (meta g) in
       mkMgr (from_meta m) m 0 (interval g) (S (recreated g))
  else mkMgr (clear (inst g)) (meta g) (S (times g)) (interval g) (recreated g).

Definition mcycle (g : mgr) (ops : list op) : mgr :=
  mclear (mkMgr (run (inst g) ops) (meta g) (times g) (interval g) (recreated g)).

Definition mrun (g : mgr) (ws : list (list op)) : mgr := fold_left mcycle ws g.

End Elem.

(* ---- a protobuf message rebuilt from its metadata: has-bits of the singular sub-message fields ------------ *)
(* [used]: for every singular sub-message field (all nesting levels flattened) whether it was ever used, i.e. whether the
   metadata holds a sub-metadata for it.  MessageAllocationMetadata::reserve (the ONE function both rebuild paths go
   through: the typed ReusableTraits<T>::construct_with_allocation_metadata and the reflection path
   ReusableTraits<Message>::create_with_allocation_metadata) calls MutableMessage on each used field, which sets its
   has-bit, and its last statement is message.Clear() (regenerated: msg_reserve_clears). *)
Definition msg_reserve (used present : list bool) : list bool :=
  let p := map (fun ub => orb (fst ub) (snd ub)) (combine used present) in
  if msg_reserve_clears then map (fun _ => false) p else p.
(* default_instance->New(arena) / allocator.construct(ptr) : nothing present; then reserve *)
Definition msg_recreate (used : list bool) : list bool := msg_reserve used (map (fun _ => false) used).

(* ---- reusable string: assignment from a string with a foreign allocator (std::string) --------------------------- *)
(* MonotonicBasicString::operator=(const std::basic_string<C, traits, A>&) = assign(other.c_str(), other.size());
   whether the length is passed is regenerated (foreign_assign_len = 1 when the second argument is other.size()).
   Without it the one-argument assign stops at the first NUL byte. *)
Fixpoint until_nul (bs : list Z) : list Z :=
  match bs with [] => [] | b :: t => if Z.eqb b 0%Z then [] else b :: until_nul t end.
Definition str_assign_foreign (bs : list Z) : list Z :=
  if Z.eqb foreign_assign_len 1%Z then bs else until_nul bs.

(* ---- the specification: std::vector as a list ---------------------------------------------------------- *)
Definition spec_step (l : list Z) (o : op) : list Z :=
  match o with
  | PushBack v => l ++ [v]
  | PopBack => firstn (length l - 1) l
  | Insert i v => firstn i l ++ v :: skipn i l
  | InsertN i n v => firstn i l ++ repeat v n ++ skipn i l
  | InsertRange i vs => firstn i l ++ vs ++ skipn i l
  | Erase i j => firstn i l ++ skipn j l
  | Resize n => firstn n l ++ repeat dflt (n - length l)
  | ResizeV n v => firstn n l ++ repeat v (n - length l)
  | Reserve _ => l
  | Clear => []
  | AssignN n v => repeat v n
  | AssignRange vs => vs
  | AssignCount n => repeat dflt n
  | SetAt i v => firstn i l ++ v :: skipn (S i) l
  end.

Definition spec_step2 (p : list Z * list Z) (o : op2) : list Z * list Z :=
  let '(a, b) := p in
  match o with
  | OnA o => (spec_step a o, b)
  | OnB o => (a, spec_step b o)
  | Swap => (b, a)
  | CopyAB => (b, b)
  | CopyBA => (a, a)
  | MoveAB | MoveABx | MCtorAB | MXCtorAB | MXCtorABx => (b, [])
  | MoveBA | MoveBAx | MCtorBA | MXCtorBA | MXCtorBAx => ([], a)
  | CCtorAB => (b, b)
  | CCtorBA => (a, a)
  end.

(* preconditions along a run, on the specification side *)
Fixpoint valid (l : list Z) (ops : list op) : bool :=
  match ops with [] => true | o :: t => okb (length l) o && valid (spec_step l o) t end.

Definition ok2 (p : list Z * list Z) (o : op2) : bool :=
  match o with OnA o => okb (length (fst p)) o | OnB o => okb (length (snd p)) o | _ => true end.
Fixpoint valid2 (p : list Z * list Z) (ops : list op2) : bool :=
  match ops with [] => true | o :: t => ok2 p o && valid2 (spec_step2 p o) t end.

(* capacity that makes an operation allocation-free when the vector has [sz] elements *)
Definition demand (sz : nat) (o : op) : nat :=
  match o with
  | PushBack _ => S sz
  | Insert _ _ => S sz
  | InsertN _ n _ => sz + n
  | InsertRange _ vs => sz + length vs
  | Resize n | ResizeV n _ | Reserve n | AssignN n _ | AssignCount n => n
  | AssignRange vs => length vs
  | _ => 0
  end.
Fixpoint peak (l : list Z) (ops : list op) : nat :=
  match ops with [] => 0 | o :: t => Nat.max (demand (length l) o) (peak (spec_step l o) t) end.
