(* C12 - bridge lemmas, invariant and loop lemmas for RV/RVModel.v (used by RVProofs.v).  The bridge lemmas of section 1 are the only place where the regenerated
   definitions of Gen_reusable_vector.v are unfolded: an edited expression in vector.hpp / manager.hpp
   re-opens them. *)
From Coq Require Import ZArith List Bool Arith Lia.
Require Import Verif.Gen.Gen_reusable_vector Verif.RV.RVModel.
Import ListNotations.

(* ------------------------------------------------------------------------------------------------ *)
(* 1. bridge: regenerated Z expressions on naturals                                                  *)
Ltac zb := unfold zz, nn in *;
  repeat match goal with
  | |- context [Z.geb ?a ?b] => rewrite (Z.geb_leb a b)
  | |- context [Z.gtb ?a ?b] => rewrite (Z.gtb_ltb a b)
  end.

Lemma b_reserve_skip c n : reserve_skip_cond (zz c) (zz n) = (n <=? c).
Proof. unfold reserve_skip_cond; zb. destruct (Z.leb_spec (Z.of_nat n) (Z.of_nat c)), (Nat.leb_spec n c); auto; lia. Qed.
Lemma reserve_loop_shape i c : reserve_loop_cond i c = Z.ltb i c.
Proof. reflexivity. Qed.
Lemma b_reserve_newcap n : nn (reserve_new_capacity (zz n)) = n.
Proof. unfold reserve_new_capacity; zb; lia. Qed.
Lemma b_eb_grow_cond s c : eb_grow_cond (zz s) (zz c) = (s =? c).
Proof. unfold eb_grow_cond; zb. destruct (Z.eqb_spec (Z.of_nat s) (Z.of_nat c)), (Nat.eqb_spec s c); auto; lia. Qed.
(* only this much of the growth policy is used: growing makes room for one more element *)
Lemma b_eb_grow_arg c : c < nn (eb_grow_arg (zz c)).
Proof. unfold eb_grow_arg; zb. destruct (Z.eqb_spec (Z.of_nat c) 0); lia. Qed.
Lemma b_eb_reuse cs s : eb_reuse_cond (zz cs) (zz s) = (s <? cs).
Proof. unfold eb_reuse_cond; zb. destruct (Z.ltb_spec (Z.of_nat s) (Z.of_nat cs)), (Nat.ltb_spec s cs); auto; lia. Qed.
Lemma b_pfi_zero_cond c : pfi_zero_cond (zz c) = (c =? 0).
Proof. unfold pfi_zero_cond; zb. destruct (Z.eqb_spec (Z.of_nat c) 0), (Nat.eqb_spec c 0); auto; lia. Qed.
Lemma b_pfi_zero_ret i cs : nn (pfi_zero_ret (zz i) (zz cs)) = Nat.min i cs.
Proof. unfold pfi_zero_ret; zb; lia. Qed.
Lemma b_pfi_reserve s c : nn (pfi_reserve_arg (zz s) (zz c)) = s + c.
Proof. unfold pfi_reserve_arg; zb; lia. Qed.
Lemma b_pfi_move_end i c cs : nn (pfi_move_end (zz i) (zz c) (zz cs)) = Nat.max (i + c) cs.
Proof. unfold pfi_move_end; zb; lia. Qed.
Lemma b_pfi_recon_end i c cs : nn (pfi_recon_end (zz i) (zz c) (zz cs)) = Nat.min (i + c) cs.
Proof. unfold pfi_recon_end; zb; lia. Qed.
Lemma b_pfi_l1_start s c : nn (pfi_loop1_start (zz s) (zz c)) = s + c.
Proof. unfold pfi_loop1_start; zb; lia. Qed.
Lemma pfi_loop1_shape i m : pfi_loop1_cond i m = Z.gtb i m.
Proof. reflexivity. Qed.
Lemma b_pfi_l2_start m : nn (pfi_loop2_start (zz m)) = m.
Proof. unfold pfi_loop2_start; zb; lia. Qed.
Lemma pfi_loop2_shape i x c : pfi_loop2_cond i x c = Z.gtb i (x + c).
Proof. reflexivity. Qed.
Lemma b_pfi_csrc i c : nn (pfi_construct_src (zz i) (zz c)) = i - c.
Proof. unfold pfi_construct_src; zb; lia. Qed.
Lemma b_pfi_asrc i c : nn (pfi_assign_src (zz i) (zz c)) = i - c.
Proof. unfold pfi_assign_src; zb; lia. Qed.
Lemma b_pfi_new_size c : nn (pfi_new_size (zz c)) = c.
Proof. unfold pfi_new_size; zb; lia. Qed.
Lemma b_ins_fill_end i c : nn (ins_fill_end (zz i) (zz c)) = i + c.
Proof. unfold ins_fill_end; zb; lia. Qed.
Lemma b_insr_fill_end i c : nn (insr_fill_end (zz i) (zz c)) = i + c.
Proof. unfold insr_fill_end; zb; lia. Qed.
Lemma b_emplace_reuse i r : emplace_reuse_cond (zz i) (zz r) = (i <? r).
Proof. unfold emplace_reuse_cond; zb. destruct (Z.ltb_spec (Z.of_nat i) (Z.of_nat r)), (Nat.ltb_spec i r); auto; lia. Qed.
Lemma b_erase_delta l f : nn (erase_new_size_delta (zz l) (zz f)) = l - f.
Proof. unfold erase_new_size_delta; zb; lia. Qed.
Lemma b_resize_grow s c : resize_grow_cond (zz s) (zz c) = (s <? c).
Proof. unfold resize_grow_cond; zb. destruct (Z.ltb_spec (Z.of_nat s) (Z.of_nat c)), (Nat.ltb_spec s c); auto; lia. Qed.
Lemma b_resizev_grow s c : resizev_grow_cond (zz s) (zz c) = (s <? c).
Proof. unfold resizev_grow_cond; zb. destruct (Z.ltb_spec (Z.of_nat s) (Z.of_nat c)), (Nat.ltb_spec s c); auto; lia. Qed.
Lemma b_resize_rend cs c : nn (resize_recon_end (zz cs) (zz c)) = Nat.min cs c.
Proof. unfold resize_recon_end; zb; lia. Qed.
Lemma b_resizev_rend cs c : nn (resizev_recon_end (zz cs) (zz c)) = Nat.min cs c.
Proof. unfold resizev_recon_end; zb; lia. Qed.
Lemma b_clear_size : nn clear_new_size = 0.
Proof. reflexivity. Qed.
Lemma b_meta_csize m : nn (meta_ctor_csize (zz m)) = m.
Proof. unfold meta_ctor_csize; zb; lia. Qed.
Lemma b_meta_cap m : nn (meta_ctor_capacity (zz m)) = m.
Proof. unfold meta_ctor_capacity; zb; lia. Qed.
Lemma b_meta_update cs m : nn (meta_update_capacity (zz cs) (zz m)) = Nat.max cs m.
Proof. unfold meta_update_capacity; zb; lia. Qed.
Lemma b_mgr_recreate t i : mgr_recreate_cond (zz t) (zz i) = (i <=? S t).
Proof. unfold mgr_recreate_cond; zb. destruct (Z.leb_spec (Z.of_nat i) (Z.of_nat t + 1)), (Nat.leb_spec i (S t)); auto; lia. Qed.

(* message.Clear() is the last statement of MessageAllocationMetadata::reserve itself (not of one of its callers) *)
Lemma b_msg_reserve_clears : msg_reserve_clears = true.
Proof. reflexivity. Qed.

(* special member functions: the plain move constructor delegates to the empty constructor and swaps, the
   allocator-extended one move-assigns, move assignment with equal allocators swaps, swap exchanges all four members *)
Lemma b_move_ctor_swaps : move_ctor_swaps = true.
Proof. reflexivity. Qed.
Lemma b_move_xctor_assigns : move_xctor_assigns = true.
Proof. reflexivity. Qed.
Lemma b_move_assign_swaps : move_assign_swaps = true.
Proof. reflexivity. Qed.
Lemma b_swap_exchanges_all : swap_exchanges_all = true.
Proof. reflexivity. Qed.

Lemma b_foreign_assign_len : foreign_assign_len = 1%Z.
Proof. reflexivity. Qed.

Global Opaque foreign_assign_len move_ctor_swaps move_xctor_assigns move_assign_swaps swap_exchanges_all msg_reserve_clears pfi_zero_cond pfi_zero_ret reserve_skip_cond reserve_new_capacity eb_grow_cond eb_grow_arg eb_reuse_cond pfi_reserve_arg
  pfi_move_end pfi_recon_end pfi_loop1_start pfi_loop2_start pfi_construct_src pfi_assign_src pfi_new_size
  ins_fill_end insr_fill_end emplace_reuse_cond erase_new_size_delta resize_grow_cond resizev_grow_cond
  resize_recon_end resizev_recon_end clear_new_size meta_ctor_csize meta_ctor_capacity meta_update_capacity
  mgr_recreate_cond.

Ltac bridge := repeat first
  [ rewrite b_reserve_skip | rewrite b_reserve_newcap | rewrite b_eb_grow_cond | rewrite b_eb_reuse
  | rewrite b_pfi_zero_cond | rewrite b_pfi_zero_ret | rewrite b_pfi_reserve | rewrite b_pfi_move_end | rewrite b_pfi_recon_end | rewrite b_pfi_l1_start
  | rewrite b_pfi_l2_start | rewrite b_pfi_new_size | rewrite b_ins_fill_end | rewrite b_insr_fill_end
  | rewrite b_emplace_reuse | rewrite b_erase_delta | rewrite b_resize_grow | rewrite b_resizev_grow
  | rewrite b_resize_rend | rewrite b_resizev_rend | rewrite b_clear_size | rewrite b_meta_csize
  | rewrite b_meta_cap | rewrite b_meta_update | rewrite b_mgr_recreate ].

(* ------------------------------------------------------------------------------------------------ *)
(* 2. invariant, cells, primitives                                                                   *)
Definition isCon (c : cell) : Prop := exists v, c = Con v.

Record wf (s : vec) : Prop := mkWf {
  wf_size : size s <= csize s;
  wf_csize : csize s <= cap s;
  wf_err : err s = false;
  wf_con : forall j, j < csize s -> isCon (cells s j);
  wf_raw : forall j, csize s <= j -> cells s j = Raw;
  wf_bal : nctor s = ndtor s + csize s }.

Lemma isCon_valof c : isCon c -> c = Con (valof c).
Proof. intros [v ->]; reflexivity. Qed.
Lemma isCon_Con v : isCon (Con v).
Proof. eexists; reflexivity. Qed.
Lemma not_isCon_Raw : ~ isCon Raw.
Proof. intros [v H]; discriminate. Qed.
Global Hint Resolve isCon_Con : core.

Lemma setc_eq f i c : setc f i c i = c.
Proof. unfold setc; rewrite Nat.eqb_refl; reflexivity. Qed.
Lemma setc_neq f i c j : j <> i -> setc f i c j = f j.
Proof. unfold setc; intros; destruct (Nat.eqb_spec j i); congruence. Qed.

Ltac sc := repeat first [ rewrite setc_eq | rewrite setc_neq by lia ].

Lemma abs_length s : length (abs s) = size s.
Proof. unfold abs; rewrite map_length, seq_length; reflexivity. Qed.

Lemma abs_nth s j d : j < size s -> nth j (abs s) d = valof (cells s j).
Proof.
  intros H; unfold abs.
  rewrite nth_indep with (d' := valof (cells s 0)) by (rewrite map_length, seq_length; lia).
  change (valof (cells s 0)) with ((fun j => valof (cells s j)) 0).
  rewrite map_nth, seq_nth by lia; reflexivity.
Qed.

Lemma list_eq_nth (l1 l2 : list Z) :
  length l1 = length l2 -> (forall j, j < length l1 -> nth j l1 0%Z = nth j l2 0%Z) -> l1 = l2.
Proof. intros H1 H2; apply nth_ext with (d := 0%Z) (d' := 0%Z); auto. Qed.

Lemma abs_ext s s' : size s = size s' -> (forall j, j < size s -> cells s j = cells s' j) -> abs s = abs s'.
Proof.
  intros H1 H2; unfold abs; rewrite <- H1; apply map_ext_in; intros j Hj.
  apply in_seq in Hj; rewrite H2 by lia; reflexivity.
Qed.

Section Elem.
Variable mva : Z -> Z -> Z.
Variable mvc : Z -> Z.
Variable smv : Z -> Z.

Notation construct := RVModel.construct.
Notation move_construct := (RVModel.move_construct mvc).
Notation move_assign := (RVModel.move_assign mva smv).

Lemma construct_ok s i v : i < cap s -> cells s i = Raw -> construct s i v = put s i (Con v) 1 0.
Proof. unfold RVModel.construct; intros H1 H2; apply Nat.ltb_lt in H1; rewrite H1, H2; reflexivity. Qed.

Lemma assign_ok s i v : i < cap s -> isCon (cells s i) -> assign s i v = put s i (Con v) 0 0.
Proof. unfold assign; intros H1 [w H2]; apply Nat.ltb_lt in H1; rewrite H1, H2; reflexivity. Qed.

Lemma move_construct_ok s d src : d < cap s -> src < cap s -> cells s d = Raw -> isCon (cells s src) ->
  move_construct s d src = put (put s d (Con (valof (cells s src))) 1 0) src (Con (mvc (valof (cells s src)))) 0 0.
Proof.
  unfold RVModel.move_construct; intros H1 H2 H3 [v H4]; apply Nat.ltb_lt in H1, H2.
  rewrite H1, H2, H3, H4; reflexivity.
Qed.

Lemma move_assign_ok s d src : d < cap s -> src < cap s -> isCon (cells s d) -> isCon (cells s src) -> d <> src ->
  move_assign s d src =
  put (put s d (Con (valof (cells s src))) 0 0) src (Con (mva (valof (cells s src)) (valof (cells s d)))) 0 0.
Proof.
  unfold RVModel.move_assign; intros H1 H2 [vd H3] [vs H4] H5; apply Nat.ltb_lt in H1, H2.
  rewrite H1, H2, H3, H4; simpl. destruct (Nat.eqb_spec d src); [lia | reflexivity].
Qed.

Lemma move_assign_self s d : d < cap s -> isCon (cells s d) ->
  move_assign s d d = put s d (Con (smv (valof (cells s d)))) 0 0.
Proof.
  unfold RVModel.move_assign; intros H1 [vd H3]; apply Nat.ltb_lt in H1.
  rewrite H1, H3; simpl. rewrite Nat.eqb_refl; reflexivity.
Qed.

Lemma destroy_ok s i : i < cap s -> isCon (cells s i) -> destroy s i = put s i Raw 0 1.
Proof. unfold destroy; intros H1 [w H2]; apply Nat.ltb_lt in H1; rewrite H1, H2; reflexivity. Qed.

(* frame: what a loop leaves alone *)
Definition frame (s s' : vec) : Prop :=
  size s' = size s /\ cap s' = cap s /\ err s' = err s /\ nalloc s' = nalloc s /\ ndtor s' = ndtor s.

Lemma frame_refl s : frame s s.
Proof. repeat split. Qed.
Lemma frame_trans a b c : frame a b -> frame b c -> frame a c.
Proof. unfold frame; intuition congruence. Qed.

(* ---- loop 1 of prepare_for_insert: move-construct the tail into raw storage ------------------------ *)
Lemma loop1_spec count : 1 <= count -> forall k i s,
  i <= cap s -> k <= count -> count + k <= i ->
  (forall p, i - k <= p < i -> cells s p = Raw) ->
  (forall p, i - k - count <= p < i - count -> isCon (cells s p)) ->
  let s' := down_iter k i (fun st j => inc_csize (move_construct st j (nn (pfi_construct_src (zz j) (zz count))))) s in
  frame s s' /\ csize s' = csize s + k /\ nctor s' = nctor s + k /\
  (forall p, cells s' p =
     if (i - k <=? p) && (p <? i) then Con (valof (cells s (p - count)))
     else if (i - k - count <=? p) && (p <? i - count) then Con (mvc (valof (cells s p)))
     else cells s p).
Proof.
  intros Hc. induction k as [|k IH]; intros i s Hcap Hk Hi Hraw Hcon; simpl.
  - split; [apply frame_refl|]. split; [lia|]. split; [lia|]. intros p.
    destruct (Nat.leb_spec (i - 0) p), (Nat.ltb_spec p i); simpl; try lia; auto;
    destruct (Nat.leb_spec (i - 0 - count) p), (Nat.ltb_spec p (i - count)); simpl; auto; lia.
  - rewrite b_pfi_csrc.
    rewrite move_construct_ok; [ | lia | lia | apply Hraw; lia | apply Hcon; lia ].
    set (s1 := inc_csize _).
    specialize (IH (i - 1) s1).
    assert (E1 : forall p, cells s1 p = if p =? i - 1 then Con (valof (cells s (i - 1 - count)))
                   else if p =? i - 1 - count then Con (mvc (valof (cells s (i - 1 - count)))) else cells s p).
    { intros p; subst s1; cbn [cells inc_csize put]. unfold setc.
      destruct (Nat.eqb_spec p (i - 1 - count)), (Nat.eqb_spec p (i - 1)); try lia; auto. }
    destruct IH as (F & C & N & P).
    + subst s1; cbn; lia.
    + lia.
    + lia.
    + intros p Hp; rewrite E1. destruct (Nat.eqb_spec p (i - 1)); [lia|].
      destruct (Nat.eqb_spec p (i - 1 - count)); [lia|]. apply Hraw; lia.
    + intros p Hp; rewrite E1. destruct (Nat.eqb_spec p (i - 1)); [lia|].
      destruct (Nat.eqb_spec p (i - 1 - count)); [lia|]. apply Hcon; lia.
    + split. { eapply frame_trans; [|exact F]. subst s1; unfold frame; cbn; repeat split; lia. }
      split. { rewrite C; subst s1; cbn; lia. }
      split. { rewrite N; subst s1; cbn; lia. }
      intros p; rewrite P; rewrite !E1.
      destruct (Nat.leb_spec (i - 1 - k) p), (Nat.ltb_spec p (i - 1)); simpl;
      destruct (Nat.leb_spec (i - S k) p), (Nat.ltb_spec p i); simpl; try lia;
      repeat match goal with |- context [Nat.eqb ?a ?b] => destruct (Nat.eqb_spec a b); try lia end; auto;
      destruct (Nat.leb_spec (i - 1 - k - count) p), (Nat.ltb_spec p (i - 1 - count)); simpl;
      destruct (Nat.leb_spec (i - S k - count) p), (Nat.ltb_spec p (i - count)); simpl; try lia; auto;
      repeat match goal with |- context [Nat.eqb ?a ?b] => destruct (Nat.eqb_spec a b); try lia end; auto;
      try (replace (p - count) with (i - 1 - count) by lia; auto); subst; auto.
Qed.

Ltac cases := repeat (match goal with
  | |- context [Nat.leb ?a ?b] => destruct (Nat.leb_spec a b)
  | |- context [Nat.ltb ?a ?b] => destruct (Nat.ltb_spec a b)
  | |- context [Nat.eqb ?a ?b] => destruct (Nat.eqb_spec a b)
  end; simpl; try lia); auto.

(* ---- loop 2 of prepare_for_insert: shift the constructed part up by move-assignment ---------------- *)
Lemma loop2_spec count : 1 <= count -> forall k i s,
  i <= cap s -> count + k <= i ->
  (forall p, i - k - count <= p < i -> isCon (cells s p)) ->
  let s' := down_iter k i (fun st j => move_assign st j (nn (pfi_assign_src (zz j) (zz count)))) s in
  frame s s' /\ csize s' = csize s /\ nctor s' = nctor s /\
  (forall p, (i - k <= p < i -> cells s' p = Con (valof (cells s (p - count)))) /\
             (isCon (cells s p) -> isCon (cells s' p)) /\
             (p < i - k - count \/ i <= p -> cells s' p = cells s p)).
Proof.
  intros Hc. induction k as [|k IH]; intros i s Hcap Hi Hcon; simpl.
  - split; [apply frame_refl|]. repeat split; auto; lia.
  - rewrite b_pfi_asrc.
    rewrite move_assign_ok; [ | lia | lia | apply Hcon; lia | apply Hcon; lia | lia ].
    set (s1 := put _ _ _ _ _).
    assert (E1 : forall p, cells s1 p = if p =? i - 1 - count then Con (mva (valof (cells s (i - 1 - count))) (valof (cells s (i - 1))))
                   else if p =? i - 1 then Con (valof (cells s (i - 1 - count))) else cells s p).
    { intros p; subst s1; cbn [cells put]. unfold setc. cases. }
    destruct (IH (i - 1) s1) as (F & C & N & P).
    + subst s1; cbn; lia.
    + lia.
    + intros p Hp; rewrite E1. cases. apply Hcon; lia.
    + split. { eapply frame_trans; [|exact F]. subst s1; unfold frame; cbn; repeat split; lia. }
      split. { rewrite C; subst s1; cbn; lia. }
      split. { rewrite N; subst s1; cbn; lia. }
      intros p; destruct (P p) as (P1 & P2 & P3). split; [|split].
      * intros Hp. destruct (Nat.eq_dec p (i - 1)) as [->|Hne].
        -- rewrite P3 by lia. rewrite E1. cases.
        -- rewrite P1 by lia. rewrite E1. cases.
      * intros Hq. apply P2. rewrite E1. cases.
      * intros Hp. rewrite P3 by lia. rewrite E1. cases.
Qed.

(* ---- the loop of erase: shift the tail down ------------------------------------------------------- *)
Lemma erase_loop_spec d : 1 <= d -> forall k i s, i + k <= cap s -> d <= i ->
  (forall p, i - d <= p < i + k -> isCon (cells s p)) ->
  let s' := up_iter k i (fun st src => move_assign st (src - d) src) s in
  frame s s' /\ csize s' = csize s /\ nctor s' = nctor s /\
  (forall p, (i - d <= p < i + k - d -> cells s' p = Con (valof (cells s (p + d)))) /\
             (isCon (cells s p) -> isCon (cells s' p)) /\
             (p < i - d \/ i + k <= p -> cells s' p = cells s p)).
Proof.
  intros Hd. induction k as [|k IH]; intros i s Hcap Hi Hcon; simpl.
  - split; [apply frame_refl|]. repeat split; auto; lia.
  - rewrite move_assign_ok; [ | lia | lia | apply Hcon; lia | apply Hcon; lia | lia ].
    set (s1 := put _ _ _ _ _).
    assert (E1 : forall p, cells s1 p = if p =? i then Con (mva (valof (cells s i)) (valof (cells s (i - d))))
                   else if p =? i - d then Con (valof (cells s i)) else cells s p).
    { intros p; subst s1; cbn [cells put]. unfold setc. cases. }
    destruct (IH (S i) s1) as (F & C & N & P).
    + subst s1; cbn; lia.
    + lia.
    + intros p Hp; rewrite E1. cases. apply Hcon; lia.
    + split. { eapply frame_trans; [|exact F]. subst s1; unfold frame; cbn; repeat split; lia. }
      split. { rewrite C; subst s1; cbn; lia. }
      split. { rewrite N; subst s1; cbn; lia. }
      intros p; destruct (P p) as (P1 & P2 & P3). split; [|split].
      * intros Hp. destruct (Nat.eq_dec p (i - d)) as [->|Hne].
        -- rewrite P3 by lia. rewrite E1. cases. replace (i - d + d) with i by lia; auto.
        -- rewrite P1 by lia. rewrite E1. cases.
      * intros Hq. apply P2. rewrite E1. cases.
      * intros Hp. rewrite P3 by lia. rewrite E1. cases.
Qed.

(* ---- the reconstruct / construct loops of insert and resize ---------------------------------------- *)
Lemma fill_spec : forall vs i re s, i + length vs <= cap s ->
  (forall p, i <= p < i + length vs -> if p <? re then isCon (cells s p) else cells s p = Raw) ->
  let s' := fill vs i re s in
  frame s s' /\
  csize s' = csize s + (i + length vs - Nat.max i (Nat.min re (i + length vs))) /\
  nctor s' = nctor s + (i + length vs - Nat.max i (Nat.min re (i + length vs))) /\
  forall p, cells s' p = if (i <=? p) && (p <? i + length vs) then Con (nth (p - i) vs 0%Z) else cells s p.
Proof.
  induction vs as [|v t IH]; intros i re s Hcap Hpre; simpl.
  - split; [apply frame_refl|]. split; [lia|]. split; [lia|]. intros p. cases.
  - simpl in Hcap, Hpre.
    set (s1 := if i <? re then assign s i v else inc_csize (construct s i v)).
    assert (E : frame s s1 /\ csize s1 = csize s + (if i <? re then 0 else 1) /\
                nctor s1 = nctor s + (if i <? re then 0 else 1) /\
                forall p, cells s1 p = if p =? i then Con v else cells s p).
    { subst s1. specialize (Hpre i). destruct (Nat.ltb_spec i re).
      - rewrite assign_ok; [ | lia | apply Hpre; lia ]. unfold frame; cbn. repeat split; try lia.
      - rewrite construct_ok; [ | lia | apply Hpre; lia ]. unfold frame; cbn. repeat split; try lia. }
    destruct E as (F1 & C1 & N1 & P1).
    destruct (IH (S i) re s1) as (F & C & N & P).
    + destruct F1 as (_ & -> & _). lia.
    + intros p Hp. rewrite P1. destruct (Nat.eqb_spec p i); [lia|]. apply Hpre; lia.
    + split. { eapply frame_trans; eauto. }
      split. { rewrite C, C1. destruct (Nat.ltb_spec i re); lia. }
      split. { rewrite N, N1. destruct (Nat.ltb_spec i re); lia. }
      intros p. rewrite P, P1.
      destruct (Nat.leb_spec (S i) p), (Nat.ltb_spec p (S i + length t)); simpl;
      destruct (Nat.leb_spec i p), (Nat.ltb_spec p (i + S (length t))); simpl; try lia;
      destruct (Nat.eqb_spec p i); try lia; auto.
      * replace (p - i) with (S (p - S i)) by lia. reflexivity.
      * subst p. rewrite Nat.sub_diag. reflexivity.
Qed.

(* ---- reserve ------------------------------------------------------------------------------------------ *)
Lemma reserve_loop_spec : forall k i old nb e, (forall j, i <= j < i + k -> isCon (old j)) ->
  snd (reserve_loop k i old nb e) = e /\
  forall p, fst (reserve_loop k i old nb e) p = if (i <=? p) && (p <? i + k) then old p else nb p.
Proof.
  induction k as [|k IH]; intros i old nb e H; simpl.
  - split; auto. intros p. cases.
  - destruct (H i) as [v Hv]; [lia|]. rewrite Hv.
    destruct (IH (S i) old (setc nb i (Con v)) e) as (E1 & E2). { intros j Hj; apply H; lia. }
    split; auto. intros p. rewrite E2. unfold setc.
    destruct (Nat.leb_spec (S i) p), (Nat.ltb_spec p (S i + k)); simpl;
    destruct (Nat.leb_spec i p), (Nat.ltb_spec p (i + S k)); simpl; try lia;
    destruct (Nat.eqb_spec p i); try lia; auto. subst; auto.
Qed.

Lemma reserve_spec s n : wf s -> let s' := reserve s n in
  wf s' /\ size s' = size s /\ csize s' = csize s /\ cap s' = Nat.max (cap s) n /\
  (forall p, cells s' p = cells s p) /\ (n <= cap s -> nalloc s' = nalloc s).
Proof.
  intros W. unfold reserve. rewrite b_reserve_skip. destruct (Nat.leb_spec n (cap s)).
  - repeat split; auto; try apply W; lia.
  - destruct (reserve_loop_spec (csize s) 0 (cells s) (fun _ => Raw) (err s)) as (E1 & E2).
    { intros j Hj; apply W; lia. }
    destruct (reserve_loop (csize s) 0 (cells s) (fun _ : nat => Raw) (err s)) as [nb e] eqn:R.
    simpl in E1, E2. subst e. rewrite b_reserve_newcap.
    assert (EP : forall p, nb p = cells s p).
    { intros p. rewrite E2. destruct (Nat.ltb_spec p (csize s)); simpl.
      - reflexivity. - symmetry; apply W; lia. }
    destruct W as [W1 W2 W3 W4 W5 W6].
    split; [|cbn; repeat split; auto; lia].
    constructor; cbn; auto; try lia.
    + rewrite W3. simpl. destruct (Nat.leb_spec (csize s) n); auto; lia.
    + intros j Hj; rewrite EP; auto.
    + intros j Hj; rewrite EP; auto.
Qed.
End Elem.
