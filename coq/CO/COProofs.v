(* Proofs about CO/COModel.v: one ownership invariant of the waiter list / deposit box / coroutine states, preserved by
   every step of the repaired code (cfg_fixed = what the translator regenerates, see gen_cfg_fixed), and its
   consequences. *)
From Coq Require Import ZArith List Bool Arith Lia.
Require Import Verif.Conc.Machine Verif.Gen.Gen_coroutine Verif.CO.COModel.
Import ListNotations.
Local Open Scope Z_scope.

(* the regenerated code paths are the repaired ones; an edit of the loops / branches re-opens this *)
Lemma gen_cfg_fixed : gen_cfg = cfg_fixed.
Proof. reflexivity. Qed.

(* ------------------------------------------------------------------ lists *)
Lemma nth_error_set_nth_eq : forall A (l : list A) n x, (n < length l)%nat -> nth_error (set_nth n x l) n = Some x.
Proof. induction l as [|y l IH]; intros [|n] x H; cbn in *; try lia; auto. apply IH. lia. Qed.
Lemma nth_error_set_nth_ne : forall A (l : list A) n m x, n <> m -> nth_error (set_nth n x l) m = nth_error l m.
Proof. induction l as [|y l IH]; intros [|n] [|m] x H; cbn; auto; try congruence. Qed.
Lemma length_set_nth : forall A (l : list A) n x, length (set_nth n x l) = length l.
Proof. induction l as [|y l IH]; intros [|n] x; cbn; auto. Qed.
Lemma nth_set_nth_eq : forall A (l : list A) n x d, (n < length l)%nat -> nth n (set_nth n x l) d = x.
Proof. induction l as [|y l IH]; intros [|n] x d H; cbn in *; try lia; auto. apply IH. lia. Qed.
Lemma nth_set_nth_ne : forall A (l : list A) n m x d, n <> m -> nth m (set_nth n x l) d = nth m l d.
Proof. induction l as [|y l IH]; intros [|n] [|m] x d H; cbn; auto; try congruence. Qed.
Lemma remove_nat_not_in : forall n l, ~ In n (remove_nat n l).
Proof. induction l as [|x l IH]; cbn; auto. destruct (Nat.eqb x n) eqn:E; auto. cbn. intros [H|H]; auto. subst. rewrite Nat.eqb_refl in E. discriminate. Qed.
Lemma remove_nat_in : forall n m l, In m (remove_nat n l) -> In m l.
Proof. induction l as [|x l IH]; cbn; auto. destruct (Nat.eqb x n); cbn; intuition. Qed.
Lemma remove_nat_keep : forall n m l, In m l -> m <> n -> In m (remove_nat n l).
Proof. induction l as [|x l IH]; cbn; auto. intros [H|H] Hn; destruct (Nat.eqb x n) eqn:E; cbn; auto.
  subst. apply Nat.eqb_eq in E. congruence. Qed.
Lemma remove_nat_nodup : forall n l, NoDup l -> NoDup (remove_nat n l).
Proof. induction 1; cbn; [constructor|]. destruct (Nat.eqb x n); auto. constructor; auto. intro. apply H. eapply remove_nat_in; eauto. Qed.

(* ------------------------------------------------------------------ views of the state *)
Definition cst (s : st) (t : nat) : cpc := match nth_error (clients s) t with Some c => cpcv c | None => CIdle end.
Definition kstat (s : st) (i : nat) : kst := match nth_error (coros s) i with Some k => kstv k | None => KDone end.
Definition kex (s : st) (i : nat) : nat := match nth_error (coros s) i with Some k => kexec k | None => 0%nat end.
Definition nslots (s : st) : nat := length (slots s).

Definition chain_pc (p : cpc) : list nat := match p with W1Take n => [n] | WATake pend _ => pend | _ => [] end.
Definition held_pc (p : cpc) : list nat :=
  match p with
  | W1Resume n | CKResume n => [n]
  | WATake _ taken => taken
  | WAResume cur todo _ => cur :: todo
  | WAFinish _ todo _ | WANext _ todo _ => todo
  | _ => []
  end.
Definition fin_pc (p : cpc) : list nat :=
  match p with W1Finish n | CKFinish n => [n] | WAFinish cur _ _ => [cur] | _ => [] end.
Definition can_pc (p : cpc) : list nat := match p with CKLock n => [n] | _ => [] end.
Definition vis (s : st) : list nat := lst s ++ match mtx s with Some t => chain_pc (cst s t) | None => [] end.

Definition passed (k : kst) (j : nat) : Prop :=
  match k with
  | KReady j' | KLock j' _ | KSusp j' _ => (j < j')%nat
  | KResumed j' => (j <= j')%nat
  | KDone => True
  end.

Definition slot_ok (s : st) (n : nat) : Prop :=
  let sl := slot_at s n in
  nidv sl + 1 < nver s /\ nex sl = kex s (nco sl) /\
  match sst sl with
  | SFree => In n (freel s) /\ ver sl = nidv sl + 1
  | SEmp => kstat s (nco sl) = KLock (nwi sl) n /\ ver sl = nidv sl
  | SQueued => kstat s (nco sl) = KSusp (nwi sl) n /\ ver sl = nidv sl /\ In n (vis s)
  | SCan t => cst s t = CKLock n /\ kstat s (nco sl) = KSusp (nwi sl) n /\ ver sl = nidv sl + 1
  | SHeld t => In n (held_pc (cst s t)) /\ kstat s (nco sl) = KSusp (nwi sl) n /\ ver sl = nidv sl + 1
  | SFin t => In n (fin_pc (cst s t)) /\ ver sl = nidv sl + 1
  end.

Definition thread_ok (s : st) (t : nat) : Prop :=
  let p := cst s t in
  NoDup (held_pc p) /\
  (forall n, In n (held_pc p) -> (n < nslots s)%nat /\ sst (slot_at s n) = SHeld t) /\
  (forall n, In n (fin_pc p) -> (n < nslots s)%nat /\ sst (slot_at s n) = SFin t) /\
  (forall n, In n (can_pc p) -> (n < nslots s)%nat /\ sst (slot_at s n) = SCan t) /\
  (chain_pc p <> [] -> mtx s = Some t).

Definition coro_ok (s : st) (i : nat) : Prop :=
  match kstat s i with
  | KLock j n => (n < nslots s)%nat /\ sst (slot_at s n) = SEmp /\ nco (slot_at s n) = i /\ nwi (slot_at s n) = j
  | KSusp j n => (n < nslots s)%nat /\ nco (slot_at s n) = i /\ nwi (slot_at s n) = j /\
                 (sst (slot_at s n) = SQueued \/ exists t, sst (slot_at s n) = SCan t \/ sst (slot_at s n) = SHeld t)
  | _ => True
  end.

Definition tok_ok (s : st) (x : (nat * nat) * (nat * Z)) : Prop :=
  let n := fst (snd x) in let v := snd (snd x) in
  (n < nslots s)%nat /\ v <= ver (slot_at s n) /\ (v = ver (slot_at s n) -> sst (slot_at s n) = SQueued).

Definition log_ok (s : st) (x : nat * nat * nat) : Prop :=
  snd x = kex s (fst (fst x)) /\ passed (kstat s (fst (fst x))) (snd (fst x)).

Record Inv (s : st) : Prop := {
  i_slot : forall n, (n < nslots s)%nat -> slot_ok s n;
  i_thread : forall t, thread_ok s t;
  i_coro : forall i, coro_ok s i;
  i_vis_nodup : NoDup (vis s);
  i_vis : forall n, In n (vis s) -> (n < nslots s)%nat /\
            (sst (slot_at s n) = SQueued \/ exists t, sst (slot_at s n) = SCan t);
  i_free_nodup : NoDup (freel s);
  i_free : forall n, In n (freel s) -> (n < nslots s)%nat /\ sst (slot_at s n) = SFree;
  i_linked : forall n, In n (lst s) -> linked (slot_at s n) = true;
  i_tok : forall x, In x (tokens s) -> tok_ok s x;
  i_bad : bad s = 0%nat;
  i_log : forall x, In x (rlog s) -> log_ok s x;
  i_log_nodup : NoDup (map fst (rlog s))
}.

(* ------------------------------------------------------------------ getters after an update *)
Lemma slot_at_put_eq : forall s n sl, (n < nslots s)%nat -> slot_at (put_slot s n sl) n = sl.
Proof. intros. unfold slot_at, put_slot. cbn. apply nth_set_nth_eq. exact H. Qed.
Lemma slot_at_put_ne : forall s n m sl, n <> m -> slot_at (put_slot s n sl) m = slot_at s m.
Proof. intros. unfold slot_at, put_slot. cbn. apply nth_set_nth_ne. exact H. Qed.
Lemma slot_at_frame : forall s s' n, slots s' = slots s -> slot_at s' n = slot_at s n.
Proof. intros. unfold slot_at. now rewrite H. Qed.
Lemma nslots_put : forall s n sl, nslots (put_slot s n sl) = nslots s.
Proof. intros. unfold nslots, put_slot. cbn. apply length_set_nth. Qed.
Lemma cst_set_eq : forall s t c cl, nth_error (clients s) t = Some cl -> cst (set_client s t c) t = cpcv c.
Proof. intros. unfold cst, set_client. cbn. rewrite nth_error_set_nth_eq; auto. apply nth_error_Some. congruence. Qed.
Lemma cst_set_ne : forall s t t' c, t <> t' -> cst (set_client s t c) t' = cst s t'.
Proof. intros. unfold cst, set_client. cbn. now rewrite nth_error_set_nth_ne. Qed.
Lemma cst_frame : forall s s' t, clients s' = clients s -> cst s' t = cst s t.
Proof. intros. unfold cst. now rewrite H. Qed.
Lemma kstat_set_eq : forall s i k x, nth_error (coros s) i = Some k -> kstat (set_coro s i (set_kst k x)) i = x.
Proof. intros. unfold kstat, set_coro. cbn. rewrite nth_error_set_nth_eq; auto. apply nth_error_Some. congruence. Qed.
Lemma kstat_set_ne : forall s i i' k, i <> i' -> kstat (set_coro s i k) i' = kstat s i'.
Proof. intros. unfold kstat, set_coro. cbn. now rewrite nth_error_set_nth_ne. Qed.
Lemma kstat_frame : forall s s' i, coros s' = coros s -> kstat s' i = kstat s i.
Proof. intros. unfold kstat. now rewrite H. Qed.
Lemma kex_set : forall s i i' k x, nth_error (coros s) i = Some k -> kex (set_coro s i (set_kst k x)) i' = kex s i'.
Proof.
  intros. unfold kex, set_coro. cbn. destruct (Nat.eq_dec i i') as [->|Hn].
  - rewrite nth_error_set_nth_eq, H; auto. apply nth_error_Some. congruence.
  - now rewrite nth_error_set_nth_ne.
Qed.
Lemma kex_frame : forall s s' i, coros s' = coros s -> kex s' i = kex s i.
Proof. intros. unfold kex. now rewrite H. Qed.
Lemma dec_enc : forall o, dec (enc o) = o.
Proof. intros [n|]; unfold dec, enc; auto. destruct (Z.leb_spec (Z.of_nat n + 1) 0); [lia|]. f_equal. lia. Qed.

(* ------------------------------------------------------------------ frame: a step that changes no ownership *)
Definition same_core (a b : slot) : Prop :=
  ver a = ver b /\ nidv a = nidv b /\ nco a = nco b /\ nwi a = nwi b /\ nex a = nex b /\ sst a = sst b.

Lemma Inv_move : forall s s' t p',
  Inv s ->
  (forall m, same_core (slot_at s' m) (slot_at s m)) -> nslots s' = nslots s ->
  coros s' = coros s -> freel s' = freel s -> nver s' = nver s -> tokens s' = tokens s -> bad s' = bad s ->
  rlog s' = rlog s ->
  (forall t', t' <> t -> cst s' t' = cst s t') -> cst s' t = p' ->
  held_pc p' = held_pc (cst s t) -> fin_pc p' = fin_pc (cst s t) -> can_pc p' = can_pc (cst s t) ->
  (chain_pc p' <> [] -> mtx s' = Some t) ->
  (mtx s' = mtx s \/ (mtx s = None /\ mtx s' = Some t) \/ (mtx s = Some t /\ mtx s' = None)) ->
  NoDup (vis s') -> (forall m, In m (vis s') -> In m (vis s)) ->
  (forall m, In m (vis s) -> ~ In m (vis s') -> exists t', sst (slot_at s m) = SCan t') ->
  (forall m, In m (lst s') -> linked (slot_at s' m) = true) ->
  Inv s'.
Proof.
  intros s s' t p' I Hsl Hns Hco Hfr Hnv Htk Hbad Hlog Hcne Hct Hh Hf Hc Hch Hm Hnd Hvin Hvdrop Hlk.
  assert (Hk : forall i, kstat s' i = kstat s i) by (intro; apply kstat_frame; auto).
  assert (Hx : forall i, kex s' i = kex s i) by (intro; apply kex_frame; auto).
  assert (Hheld : forall t', held_pc (cst s' t') = held_pc (cst s t')).
  { intro t'. destruct (Nat.eq_dec t' t) as [->|Hn]; [rewrite Hct; auto | rewrite Hcne; auto]. }
  assert (Hfin : forall t', fin_pc (cst s' t') = fin_pc (cst s t')).
  { intro t'. destruct (Nat.eq_dec t' t) as [->|Hn]; [rewrite Hct; auto | rewrite Hcne; auto]. }
  assert (Hcan : forall t', can_pc (cst s' t') = can_pc (cst s t')).
  { intro t'. destruct (Nat.eq_dec t' t) as [->|Hn]; [rewrite Hct; auto | rewrite Hcne; auto]. }
  destruct I as [Is It Ic Ivn Iv Ifn If Il Itok Ib Ilog Iln].
  constructor.
  - intros n Hn. rewrite Hns in Hn. specialize (Is n Hn). unfold slot_ok in *.
    destruct (Hsl n) as (e1 & e2 & e3 & e4 & e5 & e6). rewrite e1, e2, e3, e4, e5, e6, Hnv, Hx, Hk, Hfr.
    destruct Is as (A & B & C). split; [exact A|]. split; [exact B|].
    destruct (sst (slot_at s n)) as [| | |t0|t0|t0] eqn:E; auto.
    + destruct C as (C1 & C2 & C3). repeat split; auto.
      destruct (in_dec Nat.eq_dec n (vis s')) as [|Hni]; auto.
      destruct (Hvdrop n C3 Hni) as [t' Ht']. congruence.
    + destruct C as (C1 & C2 & C3). repeat split; auto.
      assert (Hcc : In n (can_pc (cst s t0))) by (rewrite C1; cbn; auto).
      rewrite <- Hcan in Hcc. destruct (cst s' t0); cbn in Hcc; try contradiction. destruct Hcc as [->|[]]. reflexivity.
    + destruct C as (C1 & C2 & C3). repeat split; auto. rewrite Hheld. exact C1.
    + destruct C as (C1 & C2). split; auto. rewrite Hfin. exact C1.
  - intro t'. specialize (It t'). unfold thread_ok in *. rewrite Hheld, Hfin, Hcan, Hns.
    destruct It as (A & B & C & D & E). repeat split; auto.
    + apply B; auto. + destruct (Hsl n) as (_ & _ & _ & _ & _ & e6). rewrite e6. apply B; auto.
    + apply C; auto. + destruct (Hsl n) as (_ & _ & _ & _ & _ & e6). rewrite e6. apply C; auto.
    + apply D; auto. + destruct (Hsl n) as (_ & _ & _ & _ & _ & e6). rewrite e6. apply D; auto.
    + destruct (Nat.eq_dec t' t) as [->|Hn]; [rewrite Hct; auto|]. rewrite Hcne by auto. intro Hne. specialize (E Hne).
      destruct Hm as [Hm|[[Hm _]|[Hm _]]]; congruence.
  - intro i. specialize (Ic i). unfold coro_ok in *. rewrite Hk, Hns.
    destruct (kstat s i); auto.
    + destruct (Hsl n) as (_ & _ & e3 & e4 & _ & e6). rewrite e3, e4, e6. exact Ic.
    + destruct (Hsl n) as (_ & _ & e3 & e4 & _ & e6). rewrite e3, e4, e6. exact Ic.
  - exact Hnd.
  - intros n Hn. rewrite Hns. destruct (Hsl n) as (_ & _ & _ & _ & _ & e6). rewrite e6. apply Iv. auto.
  - rewrite Hfr. exact Ifn.
  - intros n Hn. rewrite Hfr in Hn. rewrite Hns. destruct (Hsl n) as (_ & _ & _ & _ & _ & e6). rewrite e6. apply If. auto.
  - exact Hlk.
  - intros x Hxin. rewrite Htk in Hxin. specialize (Itok x Hxin). unfold tok_ok in *. rewrite Hns.
    destruct (Hsl (fst (snd x))) as (e1 & _ & _ & _ & _ & e6). rewrite e1, e6. exact Itok.
  - congruence.
  - intros x Hxin. rewrite Hlog in Hxin. specialize (Ilog x Hxin). unfold log_ok in *. rewrite Hx, Hk. exact Ilog.
  - rewrite Hlog. exact Iln.
Qed.
